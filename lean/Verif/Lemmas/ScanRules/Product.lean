import Verif.Lemmas.ScanRules.Basic
/-!
  Several rules in one pass (`Rule.prod`): when the reports of the two factors carry disjoint rule numbers, the joint report list
  splits into the two single-rule report lists (C12: a rule's verdict does not depend on which other rules are enabled).
-/
namespace Verif.Model.ScanRules
variable {C1 S1 C2 S2 : Type}

/-- every report of the rule carries one of the numbers `ids` -/
def Tagged (ids : List Nat) {C S : Type} (r : Rule C S) : Prop :=
  ∀ c s t s' rp, r.next c s t = .ok (s', rp) → ∀ x ∈ rp, x.rule ∈ ids

theorem tagged_tag {C S : Type} (id : Nat) (r : Rule C S) : Tagged [id] (r.tag id) := by
  intro c s t s' rp h x hx
  simp only [Rule.tag] at h
  split at h
  · cases h
  · rename_i s1 rp1 _
    simp only [Except.ok.injEq, Prod.mk.injEq] at h
    obtain ⟨_, h2⟩ := h
    subst h2
    obtain ⟨y, _, rfl⟩ := List.mem_map.mp hx
    simp

theorem tagged_prod (ids1 ids2 : List Nat) (r1 : Rule C1 S1) (r2 : Rule C2 S2) (h1 : Tagged ids1 r1) (h2 : Tagged ids2 r2) :
    Tagged (ids1 ++ ids2) (r1 ⊗ r2) := by
  intro c s t s' rp h x hx
  simp only [Rule.prod] at h
  split at h
  · cases h
  · rename_i u1 rp1 e1
    split at h
    · cases h
    · rename_i u2 rp2 e2
      simp only [Except.ok.injEq, Prod.mk.injEq] at h
      obtain ⟨_, h3⟩ := h
      subst h3
      rcases List.mem_append.mp hx with hx | hx
      · exact List.mem_append_left _ (h1 c.1 s.1 t u1 rp1 e1 x hx)
      · exact List.mem_append_right _ (h2 c.2 s.2 t u2 rp2 e2 x hx)

theorem filter_all_of (p : Report → Bool) (l : List Report) (h : ∀ x ∈ l, p x = true) : l.filter p = l :=
  List.filter_eq_self.mpr h

theorem filter_none_of (p : Report → Bool) (l : List Report) (h : ∀ x ∈ l, p x = false) : l.filter p = [] :=
  List.filter_eq_nil_iff.mpr (fun x hx => by simp [h x hx])

/-- the joint pass of two rules with disjoint report numbers: each rule's own scan is its share of the joint report list -/
theorem scanFrom_prod (a : Nat) (ids : List Nat) (ha : a ∉ ids) (r1 : Rule C1 S1) (r2 : Rule C2 S2)
    (h1 : Tagged [a] r1) (h2 : Tagged ids r2) (c1 : C1) (c2 : C2) :
    ∀ (ts : List Tok) (s1 : S1) (s2 : S2) (rs : List Report),
      scanFrom (r1 ⊗ r2) (c1, c2) (s1, s2) ts = .ok rs →
      scanFrom r1 c1 s1 ts = .ok (rs.filter (fun x => x.rule == a)) ∧
      scanFrom r2 c2 s2 ts = .ok (rs.filter (fun x => x.rule != a)) := by
  intro ts
  induction ts with
  | nil => intro s1 s2 rs h; simp only [scanFrom, Except.ok.injEq] at h; subst h; exact ⟨rfl, rfl⟩
  | cons t ts ih =>
    intro s1 s2 rs h
    rw [scanFrom] at h
    cases e1 : r1.next c1 s1 t with
    | error e => simp [Rule.prod, e1] at h
    | ok p1 =>
      obtain ⟨u1, rp1⟩ := p1
      cases e2 : r2.next c2 s2 t with
      | error e => simp [Rule.prod, e1, e2] at h
      | ok p2 =>
        obtain ⟨u2, rp2⟩ := p2
        simp only [Rule.prod, e1, e2] at h
        cases er : scanFrom (r1 ⊗ r2) (c1, c2) (u1, u2) ts with
        | error e => rw [show (r1 ⊗ r2) = Rule.prod r1 r2 from rfl] at er; simp only [Rule.prod] at er; rw [er] at h; cases h
        | ok rest =>
          have er' := er
          rw [show (r1 ⊗ r2) = Rule.prod r1 r2 from rfl] at er; simp only [Rule.prod] at er; rw [er] at h
          simp only [Except.ok.injEq] at h
          subst h
          obtain ⟨i1, i2⟩ := ih u1 u2 rest er'
          have f1 : ∀ x ∈ rp1, (x.rule == a) = true := fun x hx => by
            have := h1 c1 s1 t u1 rp1 e1 x hx; simp at this; simp [this]
          have f2 : ∀ x ∈ rp2, (x.rule == a) = false := fun x hx => by
            have := h2 c2 s2 t u2 rp2 e2 x hx
            have : x.rule ≠ a := fun e => ha (e ▸ this)
            simp [this]
          constructor
          · rw [scanFrom_cons_ok r1 c1 s1 u1 t ts rp1 e1, i1]
            simp only [Except.map, List.filter_append, filter_all_of _ rp1 f1, filter_none_of _ rp2 f2, List.nil_append, List.append_assoc]
          · rw [scanFrom_cons_ok r2 c2 s2 u2 t ts rp2 e2, i2]
            have g1 : ∀ x ∈ rp1, (x.rule != a) = false := fun x hx => by simp [bne, f1 x hx]
            have g2 : ∀ x ∈ rp2, (x.rule != a) = true := fun x hx => by simp [bne, f2 x hx]
            simp only [Except.map, List.filter_append, filter_none_of _ rp1 g1, filter_all_of _ rp2 g2, List.nil_append]

theorem scan_prod (a : Nat) (ids : List Nat) (ha : a ∉ ids) (r1 : Rule C1 S1) (r2 : Rule C2 S2)
    (h1 : Tagged [a] r1) (h2 : Tagged ids r2) (c1 : C1) (c2 : C2) (toks : List Tok) (rs : List Report)
    (h : scan (r1 ⊗ r2) (c1, c2) toks = .ok rs) :
    scan r1 c1 toks = .ok (rs.filter (fun x => x.rule == a)) ∧ scan r2 c2 toks = .ok (rs.filter (fun x => x.rule != a)) :=
  scanFrom_prod a ids ha r1 r2 h1 h2 c1 c2 toks _ _ rs h

theorem filter_ne_eq (a b : Nat) (h : a ≠ b) (l : List Report) :
    (l.filter (fun x => x.rule != a)).filter (fun x => x.rule == b) = l.filter (fun x => x.rule == b) := by
  rw [List.filter_filter]
  apply List.filter_congr
  intro x _
  by_cases e : x.rule = b
  · have : x.rule ≠ a := fun e' => h (e' ▸ e)
    simp [e, this]
    exact fun e' => this (e ▸ e')
  · simp [e]

theorem scan_tagged {C S : Type} (ids : List Nat) (r : Rule C S) (ht : Tagged ids r) (c : C) (toks : List Tok) (rs : List Report)
    (h : scan r c toks = .ok rs) : ∀ x ∈ rs, x.rule ∈ ids :=
  scanFrom_reports r c (fun _ _ => True) (fun _ x => x.rule ∈ ids) (fun _ _ _ h => h)
    (fun _ s t s' rp _ hn => ⟨trivial, ht c s t s' rp hn⟩) toks [] _ rs trivial h

/-- a tagged rule reports what the rule reports, with its number -/
theorem scanFrom_tag {C S : Type} (id : Nat) (r : Rule C S) (c : C) : ∀ (ts : List Tok) (s : S),
    scanFrom (r.tag id) c s ts = (scanFrom r c s ts).map (·.map (fun x => { x with rule := id })) := by
  intro ts
  induction ts with
  | nil => intro _; rfl
  | cons t ts ih =>
    intro s
    rw [scanFrom, scanFrom]
    simp only [Rule.tag]
    cases r.next c s t with
    | error e => rfl
    | ok p =>
      obtain ⟨u, rp⟩ := p
      simp only
      have := ih u
      simp only [Rule.tag] at this
      rw [this]
      cases scanFrom r c u ts <;> simp [Except.map]

end Verif.Model.ScanRules
