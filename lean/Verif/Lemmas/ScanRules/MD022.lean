import Verif.Lemmas.ScanRules.Basic
import Verif.Model.ScanRules.Spec
/-!
  MD022, C13: `starting_new_file` leaves `__start_heading_blank_line_count` (`shbc`) as the previous file left it.
  The field is read only by `report_any_match_failures`, which runs only while a heading is remembered, and remembering a
  heading assigns the field first: while no heading is remembered its value does not influence anything.
-/
namespace Verif.Model.ScanRules

theorem fires022_none (s : S022) (t : Tok) (hs : s.startTok = none) : fires022 s t = false := by
  unfold fires022; simp [hs]

theorem phase1_022_shbc (c : C022) (s : S022) (x : Int) (t : Tok) (hs : s.startTok = none) :
    phase1_022 c { s with shbc := x } t = ({ (phase1_022 c s t).1 with shbc := x }, []) ∧
    (phase1_022 c s t).2 = [] ∧ (phase1_022 c s t).1.startTok = none := by
  obtain ⟨blc, ao, st, en, sh, lb⟩ := s
  simp only at hs
  subst hs
  have hn : ∀ y : Int, nonSimple022 ⟨blc, ao, none, en, y, lb⟩ t = nonSimple022 ⟨blc, ao, none, en, sh, lb⟩ t := fun _ => rfl
  have hf : ∀ y : Int, fires022 ⟨blc, ao, none, en, y, lb⟩ t = false := fun _ => rfl
  unfold phase1_022 close022
  simp only [hf, hn x, Bool.false_eq_true, if_false]
  by_cases h1 : blc ≠ -1 ∧ blc ≥ 0
  · rw [if_pos h1, if_pos h1]
    by_cases h2 : nonSimple022 ⟨blc, ao, none, en, sh, lb⟩ t = true
    · simp only [h2, if_true]; (refine ⟨?_, ?_, ?_⟩ <;> first | rfl | trivial)
    · simp only [h2, Bool.false_eq_true, if_false]; (refine ⟨?_, ?_, ?_⟩ <;> first | rfl | trivial)
  · rw [if_neg h1, if_neg h1]
    by_cases h2 : blc = -1 ∧ nonSimple022 ⟨blc, ao, none, en, sh, lb⟩ t = true
    · rw [if_pos h2, if_pos h2]; (refine ⟨?_, ?_, ?_⟩ <;> first | rfl | trivial)
    · rw [if_neg h2, if_neg h2]; (refine ⟨?_, ?_, ?_⟩ <;> first | rfl | trivial)

theorem phase2_022_shbc (s : S022) (x : Int) (t : Tok) :
    phase2_022 { s with shbc := x } t = { phase2_022 s t with shbc := x } := by
  unfold phase2_022; split <;> rfl

theorem phase3_022_shbc (c : C022) (s : S022) (x : Int) (t : Tok) :
    phase3_022 c { s with shbc := x } t = if t.isHeading then phase3_022 c s t else { phase3_022 c s t with shbc := x } := by
  unfold phase3_022
  by_cases hh : t.isHeading = true
  · simp [hh]
  · simp only [hh, Bool.false_eq_true, if_false]
    by_cases h1 : (t.kind == Kind.tbreak || t.kind == Kind.lrd) = true
    · simp [h1]
    · simp only [h1, Bool.false_eq_true, if_false]
      by_cases h2 : t.isEnd = true
      · simp only [h2, if_true]
        by_cases h3 : (t.kind != Kind.listEnd && t.kind != Kind.bquoteEnd) = true <;>
          by_cases h4 : t.isHeadingEnd = true <;> simp [h3, h4]
      · simp [h2]

theorem phase3_022_startTok' (c : C022) (s : S022) (t : Tok) (hh : t.isHeading = false) :
    (phase3_022 c s t).startTok = s.startTok := by
  unfold phase3_022
  simp only [hh, Bool.false_eq_true, if_false]
  by_cases h1 : (t.kind == Kind.tbreak || t.kind == Kind.lrd) = true
  · simp [h1]
  · simp only [h1, Bool.false_eq_true, if_false]
    by_cases h2 : t.isEnd = true
    · simp only [h2, if_true]
      by_cases h3 : (t.kind != Kind.listEnd && t.kind != Kind.bquoteEnd) = true <;>
        by_cases h4 : t.isHeadingEnd = true <;> simp [h3, h4]
    · simp [h2]

theorem phase2_022_startTok' (s : S022) (t : Tok) : (phase2_022 s t).startTok = s.startTok := by
  unfold phase2_022; split <;> rfl

/-- one step from two states that differ in `shbc` only, while no heading is remembered -/
theorem next022_shbc (c : C022) (s : S022) (x : Int) (t : Tok) (hs : s.startTok = none) :
    ∃ s', next022 c s t = .ok (s', []) ∧
      next022 c { s with shbc := x } t = .ok (if t.isHeading then s' else { s' with shbc := x }, []) ∧
      (t.isHeading = false → s'.startTok = none) := by
  obtain ⟨h1, h2, h3⟩ := phase1_022_shbc c s x t hs
  refine ⟨_, by unfold next022; rw [h2], ?_, ?_⟩
  · unfold next022
    rw [h1]
    simp only [phase2_022_shbc, phase3_022_shbc]
    by_cases hh : t.isHeading = true <;> simp [hh]
  · intro hh
    show (phase3_022 c (phase2_022 (phase1_022 c s t).1 t) t).startTok = none
    rw [phase3_022_startTok' c _ t hh, phase2_022_startTok', h3]

theorem md022_scanFrom_shbc (c : C022) : ∀ (ts : List Tok) (s : S022) (x : Int), s.startTok = none →
    scanFrom md022 c { s with shbc := x } ts = scanFrom md022 c s ts := by
  intro ts
  induction ts with
  | nil => intro _ _ _; rfl
  | cons t ts ih =>
    intro s x hs
    obtain ⟨s', h1, h2, h3⟩ := next022_shbc c s x t hs
    rw [scanFrom_cons_ok md022 c s s' t ts [] h1, scanFrom_cons_ok md022 c _ _ t ts [] h2]
    by_cases hh : t.isHeading = true
    · simp [hh]
    · have hh' : t.isHeading = false := by simpa using hh
      simp only [hh', Bool.false_eq_true, if_false]
      rw [ih s' x (h3 hh')]

/-- C13 core: whatever the previous file left, `starting_new_file` gives a state that scans like a fresh one -/
theorem md022_start_any (c : C022) (s : S022) (b : List Tok) :
    scanFrom md022 c (md022.start c s) b = scanFrom md022 c (md022.start c md022.fresh) b := by
  have e : md022.start c s = { md022.start c md022.fresh with shbc := s.shbc } := rfl
  rw [e]
  exact md022_scanFrom_shbc c b _ _ rfl

end Verif.Model.ScanRules
