import Verif.Lemmas.ScanRules.Basic
import Verif.Model.ScanRules.Spec
/-!
  The open heading (`openHeading`) and the text run before a token (`trailingText`) under one more token; MD026's step.
-/
namespace Verif.Model.ScanRules

theorem openHeading_heading (seen : List Tok) (t : Tok) (h : t.isHeading = true) : openHeading (seen ++ [t]) = some (t, []) := by
  unfold openHeading
  simp [List.reverse_append, List.dropWhile_cons, List.takeWhile_cons, h]

theorem openHeading_end (seen : List Tok) (t : Tok) (h : t.isHeadingEnd = true) : openHeading (seen ++ [t]) = none := by
  have h' : t.isHeading = false := by
    unfold Tok.isHeadingEnd at h; unfold Tok.isHeading; cases hk : t.kind <;> simp_all
  unfold openHeading
  simp [List.reverse_append, List.dropWhile_cons, List.takeWhile_cons, h, h']

theorem openHeading_other (seen : List Tok) (t : Tok) (h1 : t.isHeading = false) (h2 : t.isHeadingEnd = false) :
    openHeading (seen ++ [t]) = (openHeading seen).map (fun p => (p.1, p.2 ++ [t])) := by
  unfold openHeading
  simp only [List.reverse_append, List.reverse_cons, List.reverse_nil, List.nil_append, List.cons_append, List.dropWhile_cons,
    List.takeWhile_cons, h1, h2, Bool.not_false, Bool.and_self, if_true]
  cases hd : List.dropWhile (fun x => !x.isHeading && !x.isHeadingEnd) seen.reverse with
  | nil => rfl
  | cons x xs => by_cases hx : x.isHeading = true <;> simp [hx]

theorem trailingText_nil : trailingText [] = [] := rfl

theorem trailingText_snoc (inner : List Tok) (t : Tok) :
    trailingText (inner ++ [t]) = if t.kind = .text then trailingText inner ++ t.text else [] := by
  unfold trailingText
  simp only [List.reverse_append, List.reverse_cons, List.reverse_nil, List.nil_append, List.cons_append, List.takeWhile_cons]
  by_cases h : t.kind = .text <;> simp [h]

/-- the relation between the tokens seen and MD026's state -/
def R026 (seen : List Tok) (s : S026) : Prop :=
  match openHeading seen with
  | some (h, inner) => s.startTok = some h ∧ s.text = trailingText inner
  | none => s.startTok = none

/-- the guard: the end of a heading has an open heading, and a SetExt end closes a SetExt heading -/
def G026 (seen : List Tok) (t : Tok) : Prop :=
  t.isHeadingEnd = true → ∃ h inner, openHeading seen = some (h, inner) ∧ (t.kind = .setextEnd → h.kind = .setext)

theorem md026_step (c : C026) (seen : List Tok) (s : S026) (t : Tok) (hR : R026 seen s) (hG : G026 seen t) :
    ∃ s', next026 c s t = .ok (s', cond026 c seen t) ∧ R026 (seen ++ [t]) s' := by
  by_cases hh : t.isHeading = true
  · -- the start of a heading
    have he : t.isHeadingEnd = false := by
      unfold Tok.isHeading at hh; unfold Tok.isHeadingEnd; cases hk : t.kind <;> simp_all
    refine ⟨{ startTok := some t, text := [] }, ?_, ?_⟩
    · unfold next026 cond026; simp [hh, he]
    · unfold R026; rw [openHeading_heading seen t hh]; exact ⟨rfl, rfl⟩
  · have hh' : t.isHeading = false := by simpa using hh
    by_cases he : t.isHeadingEnd = true
    · -- the end of a heading
      have hend : t.isEnd = true := by
        unfold Tok.isHeadingEnd at he; unfold Tok.isEnd; cases hk : t.kind <;> simp_all
      obtain ⟨h, inner, ho, hset⟩ := hG he
      unfold R026 at hR; rw [ho] at hR
      obtain ⟨hs1, hs2⟩ := hR
      have hR' : ∀ s' : S026, s'.startTok = none → R026 (seen ++ [t]) s' := by
        intro s' h0; unfold R026; rw [openHeading_end seen t he]; exact h0
      unfold next026 cond026
      simp only [hh', he, hend, if_true, ho, hs2, Bool.false_eq_true, if_false]
      cases hl : (trailingText inner).getLast? with
      | none => exact ⟨_, rfl, hR' _ rfl⟩
      | some ch =>
        simp only
        by_cases hp : c.punctuation.contains ch = true
        · simp only [hp, if_true, hs1]
          have hok : ∃ r, mkReport h (deltas026 (t.kind == .atxEnd) (trailingText inner)).1
              (deltas026 (t.kind == .atxEnd) (trailingText inner)).2.1 (deltas026 (t.kind == .atxEnd) (trailingText inner)).2.2 none = .ok r := by
            unfold mkReport posOf deltas026
            by_cases ha : t.kind = .atxEnd
            · simp [ha]
            · have hse : t.kind = .setextEnd := by
                unfold Tok.isHeadingEnd at he; cases hk : t.kind <;> simp_all
              simp [ha, hset hse]
          obtain ⟨r, hr⟩ := hok
          rw [hr]
          exact ⟨_, rfl, hR' _ rfl⟩
        · have hp' : c.punctuation.contains ch = false := by simpa using hp
          simp only [hp', Bool.false_eq_true, if_false]
          exact ⟨_, rfl, hR' _ rfl⟩
    · have he' : t.isHeadingEnd = false := by simpa using he
      have hcond : cond026 c seen t = [] := by unfold cond026; simp [he']
      rw [hcond]
      have hopen := openHeading_other seen t hh' he'
      by_cases hend : t.isEnd = true
      · -- another end token
        have hnt : t.kind ≠ .text := by unfold Tok.isEnd at hend; cases hk : t.kind <;> simp_all
        refine ⟨{ s with text := [] }, ?_, ?_⟩
        · unfold next026; simp [hh', hend, he']
        · unfold R026 at hR ⊢; rw [hopen]
          cases ho : openHeading seen with
          | none => rw [ho] at hR; exact hR
          | some p =>
            rw [ho] at hR
            simp only [Option.map_some]
            exact ⟨hR.1, by rw [trailingText_snoc]; simp [hnt]⟩
      · have hend' : t.isEnd = false := by simpa using hend
        cases ho : openHeading seen with
        | none =>
          unfold R026 at hR; rw [ho] at hR
          refine ⟨s, ?_, ?_⟩
          · unfold next026; simp [hh', hend', hR]
          · unfold R026; rw [hopen, ho]; exact hR
        | some p =>
          unfold R026 at hR; rw [ho] at hR
          refine ⟨{ s with text := if t.kind == .text then s.text ++ t.text else [] }, ?_, ?_⟩
          · unfold next026; simp [hh', hend', hR.1]
          · unfold R026; rw [hopen, ho]
            simp only [Option.map_some]
            refine ⟨hR.1, ?_⟩
            rw [trailingText_snoc, hR.2]
            by_cases hk : t.kind = .text <;> simp [hk]

theorem md026_scanFrom (c : C026) (toks : List Tok) (hG : Guarded G026 toks) :
    scanFrom md026 c {} toks = .ok (byPrefix (cond026 c) [] toks) :=
  scanFrom_eq_byPrefix md026 c R026 G026 (cond026 c) (md026_step c) toks [] {} rfl (guarded_splits G026 toks hG)

end Verif.Model.ScanRules
