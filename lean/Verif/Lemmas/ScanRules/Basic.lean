import Verif.Model.ScanRules.Product
/-!
  Generic lemmas about scan-only rules.  Each whole-stream statement is reduced to a ONE-STEP statement about `next`:
  * `scanFrom_congr`      (C12)  two streams whose tokens agree on what the step reads give the same scan;
  * `scanAfter_eq_scan`   (C13)  the scan of a second file equals the scan of that file alone when `start` forgets the state;
  * `scanFrom_reports`    (C07)  every report satisfies an anchoring predicate that is monotone in the stream;
  * `scanFrom_eq_byPrefix`(C06)  the reports are `byPrefix f`: at every token, a function of the tokens before it and the token.
-/
namespace Verif.Model.ScanRules
variable {Cfg St : Type}

instance {ε α : Type} [DecidableEq ε] [DecidableEq α] : DecidableEq (Except ε α)
  | .ok a, .ok b => if h : a = b then isTrue (by rw [h]) else isFalse (by intro e; cases e; exact h rfl)
  | .error a, .error b => if h : a = b then isTrue (by rw [h]) else isFalse (by intro e; cases e; exact h rfl)
  | .ok _, .error _ => isFalse (by intro e; cases e)
  | .error _, .ok _ => isFalse (by intro e; cases e)

/-! ## unfolding -/
theorem scanFrom_nil (r : Rule Cfg St) (c : Cfg) (s : St) : scanFrom r c s [] = .ok [] := rfl

theorem scanFrom_cons_ok (r : Rule Cfg St) (c : Cfg) (s s' : St) (t : Tok) (ts : List Tok) (rp : List Report)
    (h : r.next c s t = .ok (s', rp)) :
    scanFrom r c s (t :: ts) = (scanFrom r c s' ts).map (rp ++ ·) := by
  rw [scanFrom]
  simp only [h]
  cases scanFrom r c s' ts <;> rfl

theorem scanFrom_cons_err (r : Rule Cfg St) (c : Cfg) (s : St) (t : Tok) (ts : List Tok) (e : Err)
    (h : r.next c s t = .error e) : scanFrom r c s (t :: ts) = .error e := by
  rw [scanFrom]
  simp only [h]

/-- the scan of a concatenation -/
theorem scanFrom_append (r : Rule Cfg St) (c : Cfg) : ∀ (a b : List Tok) (s : St),
    scanFrom r c s (a ++ b) =
      match scanFrom r c s a with
      | .error e => .error e
      | .ok ra => (scanFrom r c (stateFrom r c s a) b).map (ra ++ ·) := by
  intro a
  induction a with
  | nil => intro b s; simp only [List.nil_append, scanFrom_nil, stateFrom]; cases scanFrom r c s b <;> rfl
  | cons t ts ih =>
    intro b s
    cases hn : r.next c s t with
    | error e => rw [List.cons_append, scanFrom_cons_err r c s t _ e hn, scanFrom_cons_err r c s t _ e hn]
    | ok p =>
      obtain ⟨s', rp⟩ := p
      rw [List.cons_append, scanFrom_cons_ok r c s s' t _ rp hn, scanFrom_cons_ok r c s s' t _ rp hn, ih b s']
      have hs : stateFrom r c s (t :: ts) = stateFrom r c s' ts := by simp [stateFrom, hn]
      rw [hs]
      cases scanFrom r c s' ts with
      | error e => rfl
      | ok ra =>
        simp only [Except.map]
        cases scanFrom r c (stateFrom r c s' ts) b <;> simp [Except.map]

/-! ## C12: what a rule reads -/
/-- two streams of the same length whose tokens are related pairwise -/
inductive All₂ {α β : Type} (P : α → β → Prop) : List α → List β → Prop
  | nil : All₂ P [] []
  | cons {a b as bs} : P a b → All₂ P as bs → All₂ P (a :: as) (b :: bs)

theorem All₂.imp {α β : Type} {P Q : α → β → Prop} (hpq : ∀ a b, P a b → Q a b) {as : List α} {bs : List β}
    (h : All₂ P as bs) : All₂ Q as bs := by
  induction h with
  | nil => exact .nil
  | cons h _ ih => exact .cons (hpq _ _ h) ih

theorem scanFrom_congr (r : Rule Cfg St) (c : Cfg) (S : Tok → Tok → Prop)
    (hstep : ∀ s t t', S t t' → r.next c s t' = r.next c s t) :
    ∀ (toks toks' : List Tok), All₂ S toks toks' → ∀ s, scanFrom r c s toks' = scanFrom r c s toks := by
  intro toks toks' h
  induction h with
  | nil => intro s; rfl
  | @cons t t' ts ts' hS _ ih =>
    intro s
    rw [scanFrom, scanFrom, hstep s t t' hS]
    cases r.next c s t with
    | error e => rfl
    | ok p => obtain ⟨s', rp⟩ := p; simp only; rw [ih s']

theorem scan_congr (r : Rule Cfg St) (c : Cfg) (S : Tok → Tok → Prop)
    (hstep : ∀ s t t', S t t' → r.next c s t' = r.next c s t)
    (toks toks' : List Tok) (h : All₂ S toks toks') : scan r c toks' = scan r c toks :=
  scanFrom_congr r c S hstep toks toks' h _

/-- two results agree: the same exception, or the same reports and related states -/
def RelRes (Rs : St → St → Prop) : Except Err (St × List Report) → Except Err (St × List Report) → Prop
  | .ok (u, rp), .ok (u', rp') => Rs u u' ∧ rp' = rp
  | .error e, .error e' => e' = e
  | _, _ => False

/-- C12 for rules that REMEMBER a token: the states of the two runs are related (`Rs`: the remembered tokens agree on what is
    read of them later), not equal -/
theorem scanFrom_congr_rel (r : Rule Cfg St) (c : Cfg) (S : Tok → Tok → Prop) (Rs : St → St → Prop)
    (hstep : ∀ s s' t t', Rs s s' → S t t' → RelRes Rs (r.next c s t) (r.next c s' t')) :
    ∀ (toks toks' : List Tok), All₂ S toks toks' → ∀ s s', Rs s s' → scanFrom r c s' toks' = scanFrom r c s toks := by
  intro toks toks' h
  induction h with
  | nil => intro s s' _; rfl
  | @cons t t' ts ts' hS _ ih =>
    intro s s' hR
    have := hstep s s' t t' hR hS
    rw [scanFrom, scanFrom]
    cases h1 : r.next c s t with
    | error e =>
      cases h2 : r.next c s' t' with
      | error e' => rw [h1, h2] at this; simp only [RelRes] at this; rw [this]
      | ok p => rw [h1, h2] at this; exact absurd this (by simp [RelRes])
    | ok p =>
      obtain ⟨u, rp⟩ := p
      cases h2 : r.next c s' t' with
      | error e' => rw [h1, h2] at this; exact absurd this (by simp [RelRes])
      | ok p' =>
        obtain ⟨u', rp'⟩ := p'
        rw [h1, h2] at this
        simp only [RelRes] at this
        simp only
        rw [ih u u' this.1, this.2]

/-- a remembered token is read for its kind and its two positions only -/
def PosEq (t t' : Tok) : Prop :=
  t'.kind = t.kind ∧ t'.line = t.line ∧ t'.col = t.col ∧ t'.oline = t.oline ∧ t'.ocol = t.ocol

/-- remembered tokens of two runs -/
def OptPosEq : Option Tok → Option Tok → Prop
  | none, none => True
  | some h, some h' => PosEq h h'
  | _, _ => False

/-! ## C13: the second file -/
theorem scanAfter_eq_scan (r : Rule Cfg St) (c : Cfg)
    (h : ∀ (s : St) (b : List Tok), scanFrom r c (r.start c s) b = scanFrom r c (r.start c r.fresh) b)
    (a b : List Tok) : scanAfter r c a b = scan r c b := h _ b

/-! ## C07: where the reports are -/
theorem scanFrom_reports (r : Rule Cfg St) (c : Cfg) (I : List Tok → St → Prop) (P : List Tok → Report → Prop)
    (mono : ∀ a b x, P a x → P (a ++ b) x)
    (step : ∀ seen s t s' rp, I seen s → r.next c s t = .ok (s', rp) → I (seen ++ [t]) s' ∧ ∀ x ∈ rp, P (seen ++ [t]) x) :
    ∀ (ts seen : List Tok) (s : St) (rs : List Report), I seen s → scanFrom r c s ts = .ok rs → ∀ x ∈ rs, P (seen ++ ts) x := by
  intro ts
  induction ts with
  | nil => intro seen s rs _ h x hx; simp [scanFrom] at h; subst h; cases hx
  | cons t ts ih =>
    intro seen s rs hI h x hx
    cases hn : r.next c s t with
    | error e => rw [scanFrom_cons_err r c s t ts e hn] at h; cases h
    | ok p =>
      obtain ⟨s', rp⟩ := p
      rw [scanFrom_cons_ok r c s s' t ts rp hn] at h
      obtain ⟨hI', hP⟩ := step seen s t s' rp hI hn
      cases hr : scanFrom r c s' ts with
      | error e => rw [hr] at h; cases h
      | ok rps =>
        rw [hr] at h
        simp only [Except.map, Except.ok.injEq] at h
        subst h
        have hcat : seen ++ t :: ts = (seen ++ [t]) ++ ts := by simp
        rcases List.mem_append.mp hx with hx | hx
        · rw [hcat]; exact mono _ _ _ (hP x hx)
        · rw [hcat]; exact ih (seen ++ [t]) s' rps hI' hr x hx

/-! ## C06: the reports as a function of the tokens before -/
theorem byPrefix_nil (f : List Tok → Tok → List Report) (seen : List Tok) : byPrefix f seen [] = [] := rfl

theorem byPrefix_cons (f : List Tok → Tok → List Report) (seen : List Tok) (t : Tok) (ts : List Tok) :
    byPrefix f seen (t :: ts) = f seen t ++ byPrefix f (seen ++ [t]) ts := by
  simp [byPrefix, splits]

theorem mem_splits : ∀ (ts seen pre : List Tok) (t : Tok),
    (pre, t) ∈ splits seen ts ↔ ∃ (a b : List Tok), ts = a ++ t :: b ∧ pre = seen ++ a := by
  intro ts
  induction ts with
  | nil => intro seen pre t; simp [splits]
  | cons u us ih =>
    intro seen pre t
    simp only [splits, List.mem_cons, Prod.mk.injEq, ih]
    constructor
    · rintro (⟨rfl, rfl⟩ | ⟨a, b, rfl, rfl⟩)
      · exact ⟨[], us, rfl, by simp⟩
      · exact ⟨u :: a, b, rfl, by simp⟩
    · rintro ⟨a, b, h, rfl⟩
      cases a with
      | nil => simp only [List.nil_append, List.cons.injEq] at h; left; exact ⟨by simp, h.1.symm⟩
      | cons x xs =>
        simp only [List.cons_append, List.cons.injEq] at h
        right; exact ⟨xs, b, h.2, by simp [h.1]⟩

/-- a report is made iff some token, with the tokens before it, makes it -/
theorem mem_byPrefix (f : List Tok → Tok → List Report) (toks : List Tok) (x : Report) :
    x ∈ byPrefix f [] toks ↔ ∃ (a : List Tok) (t : Tok) (b : List Tok), toks = a ++ t :: b ∧ x ∈ f a t := by
  simp only [byPrefix, List.mem_flatMap, Prod.exists, mem_splits, List.nil_append]
  constructor
  · rintro ⟨pre, t, ⟨a, b, h, hp⟩, hx⟩; subst hp; exact ⟨_, t, b, h, hx⟩
  · rintro ⟨a, t, b, h, hx⟩; exact ⟨a, t, ⟨a, b, h, rfl⟩, hx⟩

/-- the state is a relation `R` of the tokens seen so far; under a guard `G` on (tokens before, token) every step keeps `R`
    and reports `f` -/
theorem scanFrom_eq_byPrefix (r : Rule Cfg St) (c : Cfg) (R : List Tok → St → Prop) (G : List Tok → Tok → Prop)
    (f : List Tok → Tok → List Report)
    (step : ∀ seen s t, R seen s → G seen t → ∃ s', r.next c s t = .ok (s', f seen t) ∧ R (seen ++ [t]) s') :
    ∀ (ts seen : List Tok) (s : St), R seen s → (∀ p ∈ splits seen ts, G p.1 p.2) →
      scanFrom r c s ts = .ok (byPrefix f seen ts) := by
  intro ts
  induction ts with
  | nil => intro seen s _ _; rfl
  | cons t ts ih =>
    intro seen s hR hG
    obtain ⟨s', hn, hR'⟩ := step seen s t hR (hG (seen, t) (by simp [splits]))
    rw [scanFrom_cons_ok r c s s' t ts _ hn, ih (seen ++ [t]) s' hR' (fun p hp => hG p (by simp [splits, hp])), byPrefix_cons]
    rfl

/-- the guard on every token of a stream -/
def Guarded (G : List Tok → Tok → Prop) (toks : List Tok) : Prop :=
  ∀ (a : List Tok) (t : Tok) (b : List Tok), toks = a ++ t :: b → G a t

theorem guarded_splits (G : List Tok → Tok → Prop) (toks : List Tok) (h : Guarded G toks) :
    ∀ p ∈ splits [] toks, G p.1 p.2 := by
  intro p hp
  obtain ⟨pre, t⟩ := p
  obtain ⟨a, b, h1, h2⟩ := (mem_splits toks [] pre t).mp hp
  simp only [List.nil_append] at h2
  subst h2
  exact h _ t b h1

/-! ## stateless rules -/
theorem scanFrom_stateless (f : Cfg → Tok → List Report) (c : Cfg) :
    ∀ (ts : List Tok) (s : Unit), scanFrom (stateless f) c s ts = .ok (ts.flatMap (f c)) := by
  intro ts
  induction ts with
  | nil => intro _; rfl
  | cons t ts ih =>
    intro s
    rw [scanFrom_cons_ok (stateless f) c s () t ts (f c t) rfl, ih]
    simp [Except.map]

end Verif.Model.ScanRules
