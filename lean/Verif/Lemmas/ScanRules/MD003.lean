import Verif.Lemmas.ScanRules.Basic
import Verif.Model.ScanRules.Spec
/-!
  MD003: the style in force as a function of the tokens seen (`inForce003`), and the one-step lemma.
-/
namespace Verif.Model.ScanRules

/-- the style rule: `allow-setext-update` turns `setext` into `setext_with_atx` at an open ATX heading of level ≥ 3 -/
def upd003 (al : Bool) (a st : Sty003) (l12 : Bool) : Sty003 :=
  if al && a == .setext && st == .atx && !l12 then .setextWithAtx else a

/-- the Boolean core of `inForce003` -/
def force (al : Bool) (base : Option Sty003) (upg : Bool) : Option Sty003 :=
  if al && base == some .setext && upg then some .setextWithAtx else base

theorem force_snoc' (al : Bool) (b : Sty003) (upg : Bool) (st : Sty003) (l12 : Bool) :
    force al (some b) (upg || (st == .atx && !l12)) = (force al (some b) upg).map (fun a => upd003 al a st l12) := by
  cases al <;> cases upg <;> cases l12 <;> cases b <;> cases st <;> rfl

theorem force_snoc (al : Bool) (a b : Sty003) (upg : Bool) (st : Sty003) (l12 : Bool) (h : force al (some b) upg = some a) :
    force al (some b) (upg || (st == .atx && !l12)) = some (upd003 al a st l12) := by
  rw [force_snoc', h]; rfl

theorem headingProps003_style (t : Tok) (st : Sty003) (l12 : Bool) (h : headingProps003 t = some (st, l12)) :
    (st = .atx ∨ st = .atxClosed ∨ st = .setext) ∧ (st = .setext → l12 = true) := by
  unfold headingProps003 at h
  split at h
  · simp only [Option.some.injEq, Prod.mk.injEq] at h
    obtain ⟨h1, _⟩ := h
    by_cases ht : t.trailing ≠ 0 <;> simp [ht] at h1 <;> subst h1 <;> simp
  · simp only [Option.some.injEq, Prod.mk.injEq] at h
    obtain ⟨h1, h2⟩ := h; subst h1; subst h2; simp
  · cases h

theorem headStyles_snoc (seen : List Tok) (t : Tok) :
    headStyles (seen ++ [t]) = headStyles seen ++ (match headingProps003 t with | some p => [p] | none => []) := by
  unfold headStyles
  rw [List.filterMap_append]
  cases h : headingProps003 t <;> simp [List.filterMap, h]

theorem inForce003_not_heading (c : C003) (seen : List Tok) (t : Tok) (h : headingProps003 t = none) :
    inForce003 c (seen ++ [t]) = inForce003 c seen := by
  unfold inForce003; rw [headStyles_snoc, h]; simp

theorem inForce003_snoc (c : C003) (seen : List Tok) (t : Tok) (st : Sty003) (l12 : Bool)
    (hp : headingProps003 t = some (st, l12)) :
    inForce003 c (seen ++ [t]) =
      match inForce003 c seen with
      | none => some st
      | some a => some (upd003 c.allowUpdate a st l12) := by
  obtain ⟨hst, hset⟩ := headingProps003_style t st l12 hp
  have e1 : ∀ s : List Tok, inForce003 c s =
      force c.allowUpdate (match start003 c with | some s => some s | none => (headStyles s).head?.map (·.1))
        ((headStyles s).any (fun p => p.1 == .atx && !p.2)) := fun _ => rfl
  rw [e1, e1, headStyles_snoc, hp]
  simp only [List.any_append, List.any_cons, List.any_nil, Bool.or_false]
  cases hs0 : start003 c with
  | some s =>
    simp only
    cases hf : force c.allowUpdate (some s) ((headStyles seen).any fun p => p.1 == Sty003.atx && !p.2) with
    | none => unfold force at hf; split at hf <;> cases hf
    | some a => exact force_snoc _ a s _ st l12 hf
  | none =>
    simp only
    cases hh : headStyles seen with
    | nil =>
      simp only [List.nil_append, List.head?_cons, Option.map_some, List.any_nil, Bool.false_or, List.head?_nil, Option.map_none]
      have : force c.allowUpdate none false = none := by unfold force; simp
      rw [this]
      unfold force
      rcases hst with h | h | h <;> subst h <;> simp
    | cons p ps =>
      simp only [List.cons_append, List.head?_cons, Option.map_some, List.any_cons]
      cases hf : force c.allowUpdate (some p.1) ((p.1 == Sty003.atx && !p.2) || ps.any fun p => p.1 == Sty003.atx && !p.2) with
      | none => unfold force at hf; split at hf <;> cases hf
      | some a => exact force_snoc _ a p.1 _ st l12 hf

theorem force_ne_consistent (al : Bool) (base : Option Sty003) (upg : Bool) (hb : base ≠ some .consistent) :
    force al base upg ≠ some .consistent := by
  unfold force
  split
  · decide
  · exact hb

/-- the style in force is never the name `consistent` -/
theorem inForce003_ne_consistent (c : C003) : ∀ (seen : List Tok), inForce003 c seen ≠ some .consistent := by
  intro seen
  have e1 : inForce003 c seen =
      force c.allowUpdate (match start003 c with | some s => some s | none => (headStyles seen).head?.map (·.1))
        ((headStyles seen).any (fun p => p.1 == .atx && !p.2)) := rfl
  rw [e1]
  have hb : (match start003 c with | some s => some s | none => (headStyles seen).head?.map (·.1)) ≠ some Sty003.consistent := by
    cases hs0 : start003 c with
    | some s => unfold start003 at hs0; split at hs0 <;> simp_all
    | none =>
      simp only
      cases hh : headStyles seen with
      | nil => simp
      | cons p ps =>
        have hm : p ∈ headStyles seen := by rw [hh]; simp
        unfold headStyles at hm
        obtain ⟨t, _, ht⟩ := List.mem_filterMap.mp hm
        obtain ⟨hst, _⟩ := headingProps003_style t p.1 p.2 ht
        simp only [List.head?_cons, Option.map_some, ne_eq, Option.some.injEq]
        rcases hst with h | h | h <;> rw [h] <;> decide
  exact force_ne_consistent _ _ _ hb

/-- one step from a style in force, on a heading -/
theorem next003_some (c : C003) (a st : Sty003) (l12 : Bool) (t : Tok) (hp : headingProps003 t = some (st, l12))
    (ha : a ≠ .consistent) (hst : st = .atx ∨ st = .atxClosed ∨ st = .setext) (hset : st = .setext → l12 = true) :
    next003 c (some a) t = .ok (some (upd003 c.allowUpdate a st l12),
      if conforms003 (upd003 c.allowUpdate a st l12) st l12 then []
      else [reportAt t (some (extra003 (expected003 (upd003 c.allowUpdate a st l12) l12) st))]) := by
  unfold next003
  rw [hp]
  simp only
  cases a with
  | consistent => exact absurd rfl ha
  | atx => rcases hst with h | h | h <;> subst h <;> cases c.allowUpdate <;> cases l12 <;>
      simp [Sty003.simple, upd003, conforms003, expected003]
  | atxClosed => rcases hst with h | h | h <;> subst h <;> cases c.allowUpdate <;> cases l12 <;>
      simp [Sty003.simple, upd003, conforms003, expected003]
  | setext =>
    rcases hst with h | h | h
    · subst h; cases c.allowUpdate <;> cases l12 <;> simp [Sty003.simple, upd003, conforms003, expected003, complex003]
    · subst h; cases c.allowUpdate <;> cases l12 <;> simp [Sty003.simple, upd003, conforms003, expected003]
    · have := hset h; subst this; subst h; cases c.allowUpdate <;> simp [Sty003.simple, upd003, conforms003, expected003]
  | setextWithAtx =>
    rcases hst with h | h | h
    · subst h; cases c.allowUpdate <;> cases l12 <;> simp [Sty003.simple, upd003, conforms003, expected003, complex003]
    · subst h; cases c.allowUpdate <;> cases l12 <;> simp [Sty003.simple, upd003, conforms003, expected003, complex003]
    · have := hset h; subst this; subst h; cases c.allowUpdate <;> simp [Sty003.simple, upd003, conforms003, expected003, complex003]
  | setextWithAtxClosed =>
    rcases hst with h | h | h
    · subst h; cases c.allowUpdate <;> cases l12 <;> simp [Sty003.simple, upd003, conforms003, expected003, complex003]
    · subst h; cases c.allowUpdate <;> cases l12 <;> simp [Sty003.simple, upd003, conforms003, expected003, complex003]
    · have := hset h; subst this; subst h; cases c.allowUpdate <;> simp [Sty003.simple, upd003, conforms003, expected003, complex003]

theorem md003_step (c : C003) (seen : List Tok) (t : Tok) :
    next003 c (inForce003 c seen) t = .ok (inForce003 c (seen ++ [t]), cond003 c seen t) := by
  cases hp : headingProps003 t with
  | none =>
    unfold next003 cond003
    simp [hp, inForce003_not_heading c seen t hp]
  | some p =>
    obtain ⟨st, l12⟩ := p
    obtain ⟨hst, hset⟩ := headingProps003_style t st l12 hp
    unfold cond003
    rw [inForce003_snoc c seen t st l12 hp, hp]
    have hne := inForce003_ne_consistent c seen
    cases hf : inForce003 c seen with
    | none => unfold next003; simp [hp]
    | some a =>
      rw [hf] at hne
      simp only
      exact next003_some c a st l12 t hp (fun h => hne (by rw [h])) hst hset

theorem md003_scanFrom (c : C003) (seen ts : List Tok) :
    scanFrom md003 c (inForce003 c seen) ts = .ok (byPrefix (cond003 c) seen ts) :=
  scanFrom_eq_byPrefix md003 c (fun seen s => s = inForce003 c seen) (fun _ _ => True) (cond003 c)
    (fun seen s t hR _ => ⟨_, by rw [hR]; exact md003_step c seen t, rfl⟩) ts seen _ rfl (fun _ _ => trivial)

end Verif.Model.ScanRules
