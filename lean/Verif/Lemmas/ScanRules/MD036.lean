import Verif.Lemmas.ScanRules.Basic
import Verif.Model.ScanRules.Spec
/-!
  MD036: the five-state automaton reports a paragraph iff the five tokens from it on form the window
  paragraph / emphasis / eligible text / end of emphasis / end of paragraph — on streams where no paragraph token lies within
  the four tokens after a paragraph token (the automaton does not look at a paragraph token while it is inside an attempt)
  and no text token is empty (`token_text[-1]`).
-/
namespace Verif.Model.ScanRules

/-- the state after a token that fits -/
def adv036 : Q036 → Q036
  | .para => .emStart | .emStart => .eligibleText | .eligibleText => .emEnd | .emEnd => .paraEnd | .paraEnd => .para

/-- the token fits what the state looks for -/
def fits036 (c : C036) : Q036 → Tok → Bool
  | .para, t => t.kind == .para
  | .emStart, t => t.kind == .emphasis
  | .eligibleText, t => eligible036 c t
  | .emEnd, t => t.kind == .emphasisEnd
  | .paraEnd, t => t.kind == .paraEnd

/-- the tokens still needed from state `q` on are there -/
def expect036 (c : C036) : Q036 → List Tok → Bool
  | .emStart, e :: rest => fits036 c .emStart e && expect036 c .eligibleText rest
  | .eligibleText, x :: rest => fits036 c .eligibleText x && expect036 c .emEnd rest
  | .emEnd, ee :: rest => fits036 c .emEnd ee && expect036 c .paraEnd rest
  | .paraEnd, pe :: _ => fits036 c .paraEnd pe
  | _, _ => false

/-- how many more tokens an attempt in state `q` looks at -/
def need036 : Q036 → Nat
  | .para => 0 | .emStart => 4 | .eligibleText => 3 | .emEnd => 2 | .paraEnd => 1

theorem window036_eq (c : C036) (p : Tok) (ts : List Tok) :
    window036 c (p :: ts) = (p.kind == .para && expect036 c .emStart ts) := by
  cases ts with
  | nil => simp [window036, expect036]
  | cons e ts =>
    cases ts with
    | nil => simp [window036, expect036]
    | cons x ts =>
      cases ts with
      | nil => simp [window036, expect036]
      | cons ee ts =>
        cases ts with
        | nil => simp [window036, expect036]
        | cons pe ts => simp [window036, expect036, fits036, Bool.and_assoc]

theorem spec036_skip (c : C036) (t : Tok) (ts : List Tok) (h : t.kind ≠ .para) : spec036 c (t :: ts) = spec036 c ts := by
  rw [spec036, window036_eq]; simp [h]

/-- the two guards, both closed under taking a suffix -/
def Wf036 (toks : List Tok) : Prop :=
  (∀ t ∈ toks, t.kind = .text → t.text ≠ []) ∧
  (∀ (a : List Tok) (p : Tok) (b : List Tok), toks = a ++ p :: b → p.kind = .para → ∀ x ∈ b.take 4, x.kind ≠ .para)

theorem Wf036.tail {t : Tok} {ts : List Tok} (h : Wf036 (t :: ts)) : Wf036 ts :=
  ⟨fun x hx => h.1 x (List.mem_cons_of_mem _ hx), fun a p b e => h.2 (t :: a) p b (by rw [e]; rfl)⟩

/-- one step inside an attempt -/
theorem md036_step_in (c : C036) (q : Q036) (p t : Tok) (hq : q ≠ .para) (hne : t.kind = .text → t.text ≠ []) :
    next036 c { q := q, startTok := some p } t =
      .ok ({ q := if fits036 c q t then adv036 q else .para, startTok := some p },
           if q = .paraEnd ∧ fits036 c q t = true then [reportAt p] else []) := by
  cases q with
  | para => exact absurd rfl hq
  | emStart => unfold next036 fits036 adv036; simp
  | emEnd => unfold next036 fits036 adv036; simp
  | paraEnd =>
    unfold next036 fits036 adv036
    by_cases h : t.kind = .paraEnd <;> simp [h]
  | eligibleText =>
    unfold next036 fits036 adv036 eligible036
    by_cases hk : t.kind = .text
    · have hne' := hne hk
      cases hl : t.text.getLast? with
      | none => rw [List.getLast?_eq_none_iff] at hl; exact absurd hl hne'
      | some ch =>
        by_cases hn : '\n' ∈ t.text
        · simp [hk, hn]
        · by_cases hp : ch ∈ c.punctuation
          · simp [hk, hn, hl, hp]
          · simp [hk, hn, hl, hp]
    · simp [hk]

/-- one step outside an attempt -/
theorem md036_step_out (c : C036) (st : Option Tok) (t : Tok) :
    next036 c { q := .para, startTok := st } t =
      .ok (if t.kind = .para then { q := .emStart, startTok := some t } else { q := .para, startTok := st }, []) := by
  unfold next036
  by_cases h : t.kind = .para <;> simp [h]

theorem expect036_cons (c : C036) (q : Q036) (t : Tok) (ts : List Tok) (hq : q ≠ .para) :
    expect036 c q (t :: ts) = (fits036 c q t && (q == .paraEnd || expect036 c (adv036 q) ts)) := by
  cases q with
  | para => exact absurd rfl hq
  | emStart => rfl
  | eligibleText => rfl
  | emEnd => rfl
  | paraEnd => simp [expect036]

/-- the pending verdict of an attempt -/
def pend036 (c : C036) (q : Q036) (p : Tok) (ts : List Tok) : List Report :=
  if expect036 c q ts then [reportAt p] else []

theorem md036_run (c : C036) : ∀ (ts : List Tok), Wf036 ts →
    (∀ st, scanFrom md036 c { q := .para, startTok := st } ts = .ok (spec036 c ts)) ∧
    (∀ q p, q ≠ .para → (∀ x ∈ ts.take (need036 q), x.kind ≠ .para) →
      scanFrom md036 c { q := q, startTok := some p } ts = .ok (pend036 c q p ts ++ spec036 c ts)) := by
  intro ts
  induction ts with
  | nil =>
    intro _
    refine ⟨fun _ => rfl, fun q p hq _ => ?_⟩
    cases q <;> first | exact absurd rfl hq | rfl
  | cons t ts ih =>
    intro hW
    obtain ⟨ih1, ih2⟩ := ih hW.tail
    constructor
    · intro st
      rw [scanFrom_cons_ok md036 c { q := .para, startTok := st }
        (if t.kind = .para then { q := .emStart, startTok := some t } else { q := .para, startTok := st }) t ts []
        (md036_step_out c st t)]
      by_cases hk : t.kind = .para
      · simp only [hk, if_true]
        rw [ih2 .emStart t (by decide) (hW.2 [] t ts rfl hk)]
        simp only [Except.map, List.nil_append, spec036, window036_eq, pend036, hk, beq_self_eq_true, Bool.true_and]
      · simp only [hk, if_false]
        rw [ih1 st, spec036_skip c t ts hk]; rfl
    · intro q p hq hnp
      have htp : t.kind ≠ .para := hnp t (by cases q <;> first | exact absurd rfl hq | simp [need036])
      rw [scanFrom_cons_ok md036 c { q := q, startTok := some p }
        { q := if fits036 c q t then adv036 q else .para, startTok := some p } t ts _
        (md036_step_in c q p t hq (hW.1 t (by simp)))]
      rw [spec036_skip c t ts htp]
      unfold pend036
      rw [expect036_cons c q t ts hq]
      by_cases hf : fits036 c q t = true
      · simp only [hf, if_true, Bool.true_and]
        by_cases hpe : q = .paraEnd
        · subst hpe
          simp only [adv036, true_and, if_true, beq_self_eq_true, Bool.true_or]
          rw [ih1 (some p)]; rfl
        · have hadv : adv036 q ≠ .para := by cases q <;> first | exact absurd rfl hq | exact absurd rfl hpe | decide
          have hnp' : ∀ x ∈ ts.take (need036 (adv036 q)), x.kind ≠ .para := by
            intro x hx
            apply hnp x
            have hneed : need036 q = need036 (adv036 q) + 1 := by
              cases q <;> first | exact absurd rfl hq | exact absurd rfl hpe | rfl
            rw [hneed, List.take_succ_cons]
            exact List.mem_cons_of_mem _ hx
          rw [ih2 (adv036 q) p hadv hnp']
          have hb : (q == Q036.paraEnd) = false := by simpa using hpe
          simp only [hpe, false_and, if_false, hb, Bool.false_or, Except.map, List.nil_append, pend036]
      · have hf' : fits036 c q t = false := by simpa using hf
        simp only [hf', Bool.false_and, if_false, and_false, Bool.false_eq_true]
        rw [ih1 (some p)]; rfl

end Verif.Model.ScanRules
