import Verif.Lemmas.ScanRules.Basic
import Verif.Model.ScanRules.Spec
/-!
  MD040, MD042, MD045 (stateless) and MD025 (one flag): the whole-stream statements.
-/
namespace Verif.Model.ScanRules

/-! ## the three stateless rules -/
theorem scan_stateless {Cfg : Type} (f : Cfg → Tok → List Report) (c : Cfg) (toks : List Tok) :
    scan (stateless f) c toks = .ok (toks.flatMap (f c)) := scanFrom_stateless f c toks _

theorem scanAfter_stateless {Cfg : Type} (f : Cfg → Tok → List Report) (c : Cfg) (a b : List Tok) :
    scanAfter (stateless f) c a b = scan (stateless f) c b :=
  scanAfter_eq_scan (stateless f) c (fun _ _ => rfl) a b

/-- a report of a filtering stateless rule sits on a token that triggers -/
theorem stateless_report_pos (p : Tok → Bool) (toks : List Tok) (x : Report)
    (hx : x ∈ toks.flatMap (fun t => if p t then [reportAt t] else [])) :
    ∃ t ∈ toks, p t = true ∧ x = reportAt t := by
  obtain ⟨t, ht, hx⟩ := List.mem_flatMap.mp hx
  by_cases hp : p t
  · simp only [hp, if_true, List.mem_singleton] at hx; exact ⟨t, ht, hp, hx⟩
  · simp [hp] at hx

/-! ## MD025 -/
theorem md025_step (c : C025) (seen : List Tok) (t : Tok) :
    next025 c (seen.any (top025 c)) t = .ok ((seen ++ [t]).any (top025 c), cond025 c seen t) := by
  simp only [List.any_append, List.any_cons, List.any_nil, Bool.or_false]
  unfold cond025
  generalize seen.any (top025 c) = b
  unfold next025 top025
  by_cases hh : t.isHeading = true
  · have hk : (t.kind == Kind.frontMatter) = false := by
      unfold Tok.isHeading at hh; cases hk : t.kind <;> simp_all
    by_cases hl : t.hashCount = c.level <;> cases b <;> simp [hh, hk, hl]
  · have hh' : t.isHeading = false := by simpa using hh
    by_cases hk : (t.kind == Kind.frontMatter) = true
    · simp [hh', hk]
    · have hk' : (t.kind == Kind.frontMatter) = false := by simpa using hk
      simp [hh', hk']

theorem md025_scanFrom (c : C025) (seen ts : List Tok) :
    scanFrom md025 c (seen.any (top025 c)) ts = .ok (byPrefix (cond025 c) seen ts) :=
  scanFrom_eq_byPrefix md025 c (fun seen s => s = seen.any (top025 c)) (fun _ _ => True) (cond025 c)
    (fun seen s t hR _ => ⟨_, by rw [hR]; exact md025_step c seen t, rfl⟩) ts seen _ rfl (fun _ _ => trivial)

end Verif.Model.ScanRules
