import Verif.Lemmas.ScanRules.MD022Iff
/-!
  MD022 without containers: the blank-line count `cnt022` in closed form — the number of blank line tokens back to the latest token
  that sets the count (thematic break, link reference definition, any end token), unknown (−1) when that token is not the end of a
  leaf block / thematic break / definition, or when there is none.
-/
namespace Verif.Model.ScanRules

/-- a token that SETS the count (to 0 or to "unknown"), whatever came before -/
def sets022 (t : Tok) : Bool := t.kind == .tbreak || t.kind == .lrd || t.isEnd

/-- the tokens seen (latest first) have no end of a list or block quote, and every blank line token that directly follows a blank
    line token is on the next line (no `>`-only lines, no gap in the numbering): what "no container" means for MD022 -/
def flat022 : List Tok → Bool
  | [] => true
  | t :: before => t.kind != Kind.listEnd && t.kind != Kind.bquoteEnd && !nonSimpleRev t before && flat022 before

/-- the number of blank line tokens back to the latest count-setting token (tokens given latest first) -/
def blanksBack (rev : List Tok) : Nat := ((rev.takeWhile (fun t => !sets022 t)).filter (fun t => t.kind == .blank)).length

/-- the latest count-setting token set the count to 0: a thematic break, a link reference definition or the end of a leaf block
    (heading, paragraph, code block, HTML block) -/
def known022 (rev : List Tok) : Bool :=
  match rev.dropWhile (fun t => !sets022 t) with
  | t :: _ => t.kind == .tbreak || t.kind == .lrd || t.isLeafEnd
  | [] => false

theorem flat022_suffix : ∀ (a b : List Tok), flat022 (a ++ b) = true → flat022 b = true := by
  intro a
  induction a with
  | nil => intro b h; exact h
  | cons t a ih =>
    intro b h
    simp only [List.cons_append, flat022, Bool.and_eq_true] at h
    exact ih b h.2

theorem blanksBack_cons_sets (t : Tok) (before : List Tok) (h : sets022 t = true) : blanksBack (t :: before) = 0 := by
  simp [blanksBack, List.takeWhile_cons, h]

theorem known022_cons_sets (t : Tok) (before : List Tok) (h : sets022 t = true) :
    known022 (t :: before) = (t.kind == .tbreak || t.kind == .lrd || t.isLeafEnd) := by
  simp [known022, List.dropWhile_cons, h]

theorem blanksBack_cons_pass (t : Tok) (before : List Tok) (h : sets022 t = false) :
    blanksBack (t :: before) = (if t.kind == .blank then blanksBack before + 1 else blanksBack before) := by
  simp only [blanksBack, List.takeWhile_cons, h, Bool.not_false, if_true, List.filter_cons]
  split <;> simp

theorem known022_cons_pass (t : Tok) (before : List Tok) (h : sets022 t = false) : known022 (t :: before) = known022 before := by
  simp [known022, List.dropWhile_cons, h]

/-- the closed form of the count -/
theorem cnt022_closed : ∀ (rev : List Tok), flat022 rev = true →
    cnt022 rev = if known022 rev then (blanksBack rev : Int) else -1 := by
  intro rev
  induction rev with
  | nil => intro _; rfl
  | cons t before ih =>
    intro hf
    simp only [flat022, Bool.and_eq_true, bne_iff_ne, ne_eq, Bool.not_eq_true'] at hf
    obtain ⟨⟨⟨hl, hb⟩, hns⟩, hfb⟩ := hf
    have ih' := ih hfb
    rw [cnt022_cons]
    by_cases h1 : (t.kind == .tbreak || t.kind == .lrd) = true
    · have hs : sets022 t = true := by unfold sets022; rw [h1]; rfl
      rw [if_pos h1, known022_cons_sets t before hs, blanksBack_cons_sets t before hs, h1]; rfl
    · have h1' : (t.kind == .tbreak || t.kind == .lrd) = false := by simpa using h1
      rw [if_neg h1]
      by_cases h2 : t.isEnd = true
      · have hs : sets022 t = true := by unfold sets022; rw [h2]; simp
        have h3 : (t.kind == .listEnd || t.kind == .bquoteEnd) = false := by simp [hl, hb]
        rw [if_pos h2, known022_cons_sets t before hs, blanksBack_cons_sets t before hs, h1', h3]
        cases t.isLeafEnd <;> rfl
      · have h2' : t.isEnd = false := by simpa using h2
        have hs : sets022 t = false := by unfold sets022; rw [h1', h2']; rfl
        rw [if_neg h2, known022_cons_pass t before hs, blanksBack_cons_pass t before hs, hns, ih']
        by_cases h4 : (t.kind == .blank) = true
        · simp only [h4, if_true, Bool.false_eq_true, if_false]
          cases known022 before
          · simp
          · simp only [if_true]
            have : (blanksBack before : Int) ≥ 0 := Int.natCast_nonneg _
            simp only [this, if_true]; omega
        · have h4' : (t.kind == .blank) = false := by simpa using h4
          simp [h4']

/-- the waiting heading and the tokens before it are a part of the tokens seen -/
theorem pend022_suffix : ∀ (rev : List Tok) (h : Tok) (beforeH : List Tok), pend022 rev = some (h, beforeH) →
    ∃ a, rev = a ++ h :: beforeH := by
  intro rev
  induction rev with
  | nil => intro h b e; cases e
  | cons t before ih =>
    intro h b e
    unfold pend022 at e
    by_cases ht : t.isHeading = true
    · rw [if_pos ht] at e
      cases e; exact ⟨[], rfl⟩
    · rw [if_neg ht] at e
      cases hp : pend022 before with
      | none => rw [hp] at e; cases e
      | some q =>
        rw [hp] at e
        simp only [] at e
        split at e
        · cases e
        · cases e
          obtain ⟨a, ea⟩ := ih _ _ hp
          exact ⟨t :: a, by rw [ea]; rfl⟩

/-! ## which heading waits, without recursion: `… h inner e blanks` -/

/-- inside a heading: the heading waits and has not ended -/
theorem pend022_inner (h : Tok) (P : List Tok) (hh : h.isHeading = true) : ∀ (inner : List Tok),
    (∀ x ∈ inner, x.isHeading = false ∧ x.isHeadingEnd = false) →
    pend022 (inner ++ h :: P) = some (h, P) ∧ ended022 (inner ++ h :: P) = false := by
  intro inner
  induction inner with
  | nil => intro _; simp [pend022, ended022, hh]
  | cons x xs ih =>
    intro hin
    obtain ⟨h1, h2⟩ := hin x (List.mem_cons_self ..)
    obtain ⟨i1, i2⟩ := ih (fun y hy => hin y (List.mem_cons_of_mem _ hy))
    simp only [List.cons_append, pend022, ended022, h1, h2, i1, i2]
    simp

/-- at the heading's end -/
theorem pend022_end (h e : Tok) (P inner : List Tok) (hh : h.isHeading = true) (he : e.isHeadingEnd = true)
    (hin : ∀ x ∈ inner, x.isHeading = false ∧ x.isHeadingEnd = false) :
    pend022 (e :: (inner ++ h :: P)) = some (h, P) ∧ ended022 (e :: (inner ++ h :: P)) = true := by
  obtain ⟨i1, i2⟩ := pend022_inner h P hh inner hin
  have h1 : e.isHeading = false := by
    unfold Tok.isHeadingEnd at he; unfold Tok.isHeading
    cases hk : e.kind <;> simp_all
  simp only [pend022, ended022, h1, he, i1, i2]
  simp

/-- over the blank lines that follow the end (on consecutive lines: `flat022`) -/
theorem pend022_blanks (h : Tok) (P R : List Tok) (hR : pend022 R = some (h, P) ∧ ended022 R = true) : ∀ (bl : List Tok),
    (∀ x ∈ bl, x.kind = .blank) → flat022 (bl ++ R) = true →
    pend022 (bl ++ R) = some (h, P) ∧ ended022 (bl ++ R) = true := by
  intro bl
  induction bl with
  | nil => intro _ _; exact hR
  | cons x xs ih =>
    intro hb hf
    have hx := hb x (List.mem_cons_self ..)
    simp only [List.cons_append, flat022, Bool.and_eq_true, Bool.not_eq_true'] at hf
    obtain ⟨i1, i2⟩ := ih (fun y hy => hb y (List.mem_cons_of_mem _ hy)) hf.2
    have h1 : x.isHeading = false := by unfold Tok.isHeading; simp [hx]
    have h2 : x.isHeadingEnd = false := by unfold Tok.isHeadingEnd; simp [hx]
    have h3 : transparent022 x (xs ++ R) = true := by unfold transparent022; simp [hx, hf.1.2]
    simp only [List.cons_append, pend022, ended022, h1, h2, i1, i2, h3]
    simp

theorem blanksBack_blanks (R : List Tok) : ∀ (bl : List Tok), (∀ x ∈ bl, x.kind = .blank) →
    blanksBack (bl ++ R) = bl.length + blanksBack R := by
  intro bl
  induction bl with
  | nil => intro _; simp
  | cons x xs ih =>
    intro hb
    have hx := hb x (List.mem_cons_self ..)
    have hs : sets022 x = false := by unfold sets022 Tok.isEnd; simp [hx]
    rw [List.cons_append, blanksBack_cons_pass x _ hs, ih (fun y hy => hb y (List.mem_cons_of_mem _ hy))]
    simp [hx]; omega

end Verif.Model.ScanRules
