import Verif.Lemmas.ScanRules.Basic
import Verif.Model.ScanRules.Spec
/-!
  MD024: the two loops of `handler_heading_end` clear a range of dictionaries (no `IndexError` when the levels are inside
  the list), the dictionary list as a function of the completed headings.
-/
namespace Verif.Model.ScanRules

theorem getD_set (maps : List (List Str)) (i j : Nat) (a : List Str) :
    (maps.set i a).getD j [] = if i = j ∧ i < maps.length then a else maps.getD j [] := by
  simp only [List.getD_eq_getElem?_getD, List.getElem?_set]
  by_cases h : i = j
  · subst h
    by_cases hl : i < maps.length
    · simp [hl]
    · simp [hl]
  · simp [h]

theorem pyIdx_nonneg (n : Nat) (i : Int) (h0 : 0 ≤ i) (h1 : i < n) : pyIdx n i = some i.toNat := by
  unfold pyIdx; simp [h0, h1]

theorem clearAt_ok (maps : List (List Str)) (i : Int) (h0 : 0 ≤ i) (h1 : i < maps.length) :
    clearAt maps i = .ok (maps.set i.toNat []) := by
  unfold clearAt; rw [pyIdx_nonneg _ _ h0 h1]

/-- `while last < hc: last += 1; maps[last - 1] = {}` clears the indices `last … last + fuel − 1` -/
theorem climb024_spec : ∀ (fuel : Nat) (last : Int) (maps : List (List Str)), 0 ≤ last → last + fuel ≤ maps.length →
    ∃ m', climb024 fuel last maps = .ok m' ∧ m'.length = maps.length ∧
      ∀ j : Nat, m'.getD j [] = if last ≤ (j : Int) ∧ (j : Int) < last + fuel then [] else maps.getD j [] := by
  intro fuel
  induction fuel with
  | zero =>
    intro last maps _ _
    refine ⟨maps, rfl, rfl, fun j => ?_⟩
    have : ¬ (last ≤ (j : Int) ∧ (j : Int) < last + (0 : Nat)) := by omega
    rw [if_neg this]
  | succ fuel ih =>
    intro last maps h0 h1
    have hlt : last < maps.length := by omega
    obtain ⟨m', hm, hlen, hget⟩ := ih (last + 1) (maps.set last.toNat []) (by omega) (by simp only [List.length_set]; omega)
    refine ⟨m', ?_, by rw [hlen, List.length_set], fun j => ?_⟩
    · unfold climb024; rw [clearAt_ok maps last h0 hlt]; exact hm
    · rw [hget j, getD_set]
      by_cases hj : last.toNat = j
      · have : last = (j : Int) := by omega
        have hl : last.toNat < maps.length := by omega
        have c1 : ¬ (last + 1 ≤ (j : Int) ∧ (j : Int) < last + 1 + fuel) := by omega
        have c2 : last ≤ (j : Int) ∧ (j : Int) < last + ((fuel + 1 : Nat) : Int) := by omega
        rw [if_neg c1, if_pos ⟨hj, hl⟩, if_pos c2]
      · by_cases hr : last + 1 ≤ (j : Int) ∧ (j : Int) < last + 1 + fuel
        · have c2 : last ≤ (j : Int) ∧ (j : Int) < last + ((fuel + 1 : Nat) : Int) := by omega
          rw [if_pos hr, if_pos c2]
        · have c2 : ¬ (last ≤ (j : Int) ∧ (j : Int) < last + ((fuel + 1 : Nat) : Int)) := by omega
          rw [if_neg hr, if_neg c2, if_neg (fun h => hj h.1)]

/-- `while last > hc: maps[last - 1] = {}; last -= 1` clears the indices `last − fuel … last − 1` -/
theorem descend024_spec : ∀ (fuel : Nat) (last : Int) (maps : List (List Str)), last ≤ maps.length → 0 ≤ last - fuel →
    ∃ m', descend024 fuel last maps = .ok m' ∧ m'.length = maps.length ∧
      ∀ j : Nat, m'.getD j [] = if last - fuel ≤ (j : Int) ∧ (j : Int) < last then [] else maps.getD j [] := by
  intro fuel
  induction fuel with
  | zero =>
    intro last maps _ _
    refine ⟨maps, rfl, rfl, fun j => ?_⟩
    have : ¬ (last - (0 : Nat) ≤ (j : Int) ∧ (j : Int) < last) := by omega
    rw [if_neg this]
  | succ fuel ih =>
    intro last maps h1 h0
    obtain ⟨m', hm, hlen, hget⟩ := ih (last - 1) (maps.set (last - 1).toNat []) (by simp only [List.length_set]; omega) (by omega)
    refine ⟨m', ?_, by rw [hlen, List.length_set], fun j => ?_⟩
    · unfold descend024; rw [clearAt_ok maps (last - 1) (by omega) (by omega)]; exact hm
    · rw [hget j, getD_set]
      by_cases hj : (last - 1).toNat = j
      · have : last - 1 = (j : Int) := by omega
        have hl : (last - 1).toNat < maps.length := by omega
        have c1 : ¬ (last - 1 - fuel ≤ (j : Int) ∧ (j : Int) < last - 1) := by omega
        have c2 : last - ((fuel + 1 : Nat) : Int) ≤ (j : Int) ∧ (j : Int) < last := by omega
        rw [if_neg c1, if_pos ⟨hj, hl⟩, if_pos c2]
      · by_cases hr : last - 1 - fuel ≤ (j : Int) ∧ (j : Int) < last - 1
        · have c2 : last - ((fuel + 1 : Nat) : Int) ≤ (j : Int) ∧ (j : Int) < last := by omega
          rw [if_pos hr, if_pos c2]
        · have c2 : ¬ (last - ((fuel + 1 : Nat) : Int) ≤ (j : Int) ∧ (j : Int) < last) := by omega
          rw [if_neg hr, if_neg c2, if_neg (fun h => hj h.1)]

/-- both loops together: from level `last` to level `hc` (both inside the list) the dictionaries of the levels in between are
    emptied — `last+1 … hc` going deeper, `hc+1 … last` coming back — and nothing else changes -/
theorem loops024_spec (maps : List (List Str)) (last hc : Int) (h1 : 1 ≤ last) (h2 : last ≤ maps.length) (h3 : 1 ≤ hc)
    (h4 : hc ≤ maps.length) :
    ∃ m', (match climb024 (hc - last).toNat last maps with
            | .error e => .error e
            | .ok m => descend024 (last - hc).toNat last m) = Except.ok m' ∧ m'.length = maps.length ∧
      ∀ j : Nat, m'.getD j [] =
        if (last ≤ (j : Int) ∧ (j : Int) < hc) ∨ (hc ≤ (j : Int) ∧ (j : Int) < last) then [] else maps.getD j [] := by
  obtain ⟨m1, e1, l1, g1⟩ := climb024_spec (hc - last).toNat last maps (by omega) (by omega)
  obtain ⟨m2, e2, l2, g2⟩ := descend024_spec (last - hc).toNat last m1 (by omega) (by omega)
  refine ⟨m2, by rw [e1]; exact e2, by rw [l2, l1], fun j => ?_⟩
  rw [g2 j, g1 j]
  by_cases ha : last ≤ (j : Int) ∧ (j : Int) < hc
  · have c1 : ¬ (last - ((last - hc).toNat : Int) ≤ (j : Int) ∧ (j : Int) < last) := by omega
    have c2 : last ≤ (j : Int) ∧ (j : Int) < last + ((hc - last).toNat : Int) := by omega
    rw [if_neg c1, if_pos c2, if_pos (.inl ha)]
  · by_cases hb : hc ≤ (j : Int) ∧ (j : Int) < last
    · have c1 : last - ((last - hc).toNat : Int) ≤ (j : Int) ∧ (j : Int) < last := by omega
      rw [if_pos c1, if_pos (.inr hb)]
    · have c1 : ¬ (last - ((last - hc).toNat : Int) ≤ (j : Int) ∧ (j : Int) < last) := by omega
      have c2 : ¬ (last ≤ (j : Int) ∧ (j : Int) < last + ((hc - last).toNat : Int)) := by omega
      rw [if_neg c1, if_neg c2, if_neg (fun h => h.elim ha hb)]

end Verif.Model.ScanRules
