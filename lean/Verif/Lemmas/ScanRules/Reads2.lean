import Verif.Lemmas.ScanRules.Reads
/-!
  C12 for MD036 and MD041 with the exact fields: of a REMEMBERED token (the paragraph start / the HTML block start) the two rules read
  the line and the column only — not the original position `PosEq` also carries, and not the kind (it is known when the token is
  remembered).
-/
namespace Verif.Model.ScanRules

/-- what MD036 / MD041 read of a remembered token -/
def LcEq (t t' : Tok) : Prop := t'.line = t.line ∧ t'.col = t.col

def OptLcEq : Option Tok → Option Tok → Prop
  | none, none => True
  | some h, some h' => LcEq h h'
  | _, _ => False

/-! ## MD041 -/
def Rs041x (s s' : S041) : Prop := s'.seen = s.seen ∧ OptLcEq s.html s'.html

def S041x (t t' : Tok) : Prop :=
  t'.kind = t.kind ∧ LcEq t t' ∧ (t.isHeading = true → t'.hashCount = t.hashCount) ∧ (t.kind = .frontMatter → t'.keys = t.keys) ∧
    (t.kind = .text → t'.text = t.text)

theorem md041_rel_step_x (c : C041) (s s' : S041) (t t' : Tok) (hR : Rs041x s s') (hS : S041x t t') :
    RelRes Rs041x (next041 c s t) (next041 c s' t') := by
  obtain ⟨seen, html⟩ := s
  obtain ⟨seen', html'⟩ := s'
  obtain ⟨hseen, hhtml⟩ := hR
  simp only at hseen hhtml
  subst hseen
  obtain ⟨hk0, hp, h4, h5, h6⟩ := hS
  have hh : t'.isHeading = t.isHeading := by unfold Tok.isHeading; rw [hk0]
  have hra : ∀ e, reportAt t' e = reportAt t e := fun e => by unfold reportAt; rw [hp.1, hp.2]
  unfold next041
  rw [hh, hk0, hra]
  by_cases hd : t.isHeading = true
  · have := h4 hd
    cases seen' <;> cases html <;> cases html' <;> simp_all [RelRes, Rs041x, OptLcEq]
  · by_cases hk : t.kind = .frontMatter
    · have := h5 hk
      by_cases hc : c.title ∈ t.keys <;> by_cases ht : c.title.isEmpty = true <;>
        cases seen' <;> cases html <;> cases html' <;> simp_all [RelRes, Rs041x, OptLcEq]
    · by_cases hm : t.kind = .html
      · cases seen' <;> cases html <;> cases html' <;> simp_all [RelRes, Rs041x, OptLcEq]
      · by_cases hx : t.kind = .text
        · have := h6 hx
          cases seen' <;> cases html <;> cases html' <;> simp_all [RelRes, Rs041x, OptLcEq, LcEq, reportAt]
        · by_cases hb : t.kind = .blank <;>
            cases seen' <;> cases html <;> cases html' <;> simp_all [RelRes, Rs041x, OptLcEq]

/-! ## MD036 -/
def Rs036x (s s' : S036) : Prop := s'.q = s.q ∧ OptLcEq s.startTok s'.startTok

def S036x (t t' : Tok) : Prop :=
  t'.kind = t.kind ∧ (t.kind = .para → LcEq t t') ∧ (t.kind = .text → t'.text = t.text)

theorem md036_rel_step_x (c : C036) (s s' : S036) (t t' : Tok) (hR : Rs036x s s') (hS : S036x t t') :
    RelRes Rs036x (next036 c s t) (next036 c s' t') := by
  obtain ⟨q, st⟩ := s
  obtain ⟨q', st'⟩ := s'
  obtain ⟨hq, hst⟩ := hR
  simp only at hq hst
  subst hq
  obtain ⟨hk, hp, hx⟩ := hS
  unfold next036
  rw [hk]
  cases q'
  · by_cases h1 : t.kind = .para
    · have := hp h1
      cases st <;> cases st' <;> simp_all [RelRes, Rs036x, OptLcEq]
    · cases st <;> cases st' <;> simp_all [RelRes, Rs036x, OptLcEq]
  · by_cases h1 : t.kind = .emphasis <;> cases st <;> cases st' <;> simp_all [RelRes, Rs036x, OptLcEq]
  · by_cases h1 : t.kind = .text
    · have := hx h1
      by_cases h2 : '\n' ∈ t.text
      · cases st <;> cases st' <;> simp_all [RelRes, Rs036x, OptLcEq]
      · cases hl : t.text.getLast? with
        | none => cases st <;> cases st' <;> simp_all [RelRes, Rs036x, OptLcEq]
        | some ch =>
          by_cases h3 : ch ∈ c.punctuation <;> cases st <;> cases st' <;> simp_all [RelRes, Rs036x, OptLcEq]
    · cases st <;> cases st' <;> simp_all [RelRes, Rs036x, OptLcEq]
  · by_cases h1 : t.kind = .emphasisEnd <;> cases st <;> cases st' <;> simp_all [RelRes, Rs036x, OptLcEq]
  · by_cases h1 : t.kind = .paraEnd <;> cases st <;> cases st' <;> simp_all [RelRes, Rs036x, OptLcEq, LcEq, reportAt]

end Verif.Model.ScanRules
