import Verif.Lemmas.ScanRules.Basic
import Verif.Model.ScanRules.Spec
/-!
  C12 for the rules that remember a token (MD022 MD024 MD026 MD036 MD041): one relational step each.
-/
namespace Verif.Model.ScanRules

/-- closes a conjunction of equalities / hypotheses / `True` -/
macro "relclose" : tactic =>
  `(tactic| repeat (first | assumption | rfl | trivial | (symm; assumption) | apply And.intro))

theorem reportAt_posEq (t t' : Tok) (e : Option Str) (h : PosEq t t') : reportAt t' e = reportAt t e := by
  unfold reportAt; rw [h.2.1, h.2.2.1]

theorem mkReport_posEq (t t' : Tok) (o : Bool) (dl dc : Int) (e : Option Str) (h : PosEq t t') :
    mkReport t' o dl dc e = mkReport t o dl dc e := by
  unfold mkReport posOf; rw [h.1, h.2.1, h.2.2.1, h.2.2.2.1, h.2.2.2.2]

/-! ## MD041 -/
def Rs041 (s s' : S041) : Prop := s'.seen = s.seen ∧ OptPosEq s.html s'.html

def S041r (t t' : Tok) : Prop :=
  PosEq t t' ∧ (t.isHeading = true → t'.hashCount = t.hashCount) ∧ (t.kind = .frontMatter → t'.keys = t.keys) ∧
    (t.kind = .text → t'.text = t.text)

theorem md041_rel_step (c : C041) (s s' : S041) (t t' : Tok) (hR : Rs041 s s') (hS : S041r t t') :
    RelRes Rs041 (next041 c s t) (next041 c s' t') := by
  obtain ⟨seen, html⟩ := s
  obtain ⟨seen', html'⟩ := s'
  obtain ⟨hseen, hhtml⟩ := hR
  simp only at hseen hhtml
  subst hseen
  obtain ⟨hp, h4, h5, h6⟩ := hS
  have hh : t'.isHeading = t.isHeading := by unfold Tok.isHeading; rw [hp.1]
  have hra : ∀ e, reportAt t' e = reportAt t e := fun e => reportAt_posEq t t' e hp
  unfold next041
  rw [hh, hp.1, hra]
  by_cases hd : t.isHeading = true
  · have := h4 hd
    cases seen' <;> cases html <;> cases html' <;> simp_all [RelRes, Rs041, OptPosEq]
  · by_cases hk : t.kind = .frontMatter
    · have := h5 hk
      by_cases hc : c.title ∈ t.keys <;> by_cases ht : c.title.isEmpty = true <;>
        cases seen' <;> cases html <;> cases html' <;> simp_all [RelRes, Rs041, OptPosEq]
    · by_cases hm : t.kind = .html
      · cases seen' <;> cases html <;> cases html' <;> simp_all [RelRes, Rs041, OptPosEq]
      · by_cases hx : t.kind = .text
        · have := h6 hx
          cases seen' <;> cases html <;> cases html' <;> simp_all [RelRes, Rs041, OptPosEq, PosEq, reportAt]
        · by_cases hb : t.kind = .blank <;>
            cases seen' <;> cases html <;> cases html' <;> simp_all [RelRes, Rs041, OptPosEq]

/-! ## MD036 -/
def Rs036 (s s' : S036) : Prop := s'.q = s.q ∧ OptPosEq s.startTok s'.startTok

def S036r (t t' : Tok) : Prop :=
  t'.kind = t.kind ∧ (t.kind = .para → PosEq t t') ∧ (t.kind = .text → t'.text = t.text)

theorem md036_rel_step (c : C036) (s s' : S036) (t t' : Tok) (hR : Rs036 s s') (hS : S036r t t') :
    RelRes Rs036 (next036 c s t) (next036 c s' t') := by
  obtain ⟨q, st⟩ := s
  obtain ⟨q', st'⟩ := s'
  obtain ⟨hq, hst⟩ := hR
  simp only at hq hst
  subst hq
  obtain ⟨hk, hp, hx⟩ := hS
  unfold next036
  rw [hk]
  cases q'
  · by_cases h1 : t.kind = .para
    · have := hp h1
      cases st <;> cases st' <;> simp_all [RelRes, Rs036, OptPosEq]
    · cases st <;> cases st' <;> simp_all [RelRes, Rs036, OptPosEq]
  · by_cases h1 : t.kind = .emphasis <;> cases st <;> cases st' <;> simp_all [RelRes, Rs036, OptPosEq]
  · by_cases h1 : t.kind = .text
    · have := hx h1
      by_cases h2 : '\n' ∈ t.text
      · cases st <;> cases st' <;> simp_all [RelRes, Rs036, OptPosEq]
      · cases hl : t.text.getLast? with
        | none => cases st <;> cases st' <;> simp_all [RelRes, Rs036, OptPosEq]
        | some ch =>
          by_cases h3 : ch ∈ c.punctuation <;> cases st <;> cases st' <;> simp_all [RelRes, Rs036, OptPosEq]
    · cases st <;> cases st' <;> simp_all [RelRes, Rs036, OptPosEq]
  · by_cases h1 : t.kind = .emphasisEnd <;> cases st <;> cases st' <;> simp_all [RelRes, Rs036, OptPosEq]
  · by_cases h1 : t.kind = .paraEnd <;> cases st <;> cases st' <;> simp_all [RelRes, Rs036, OptPosEq, PosEq, reportAt]

/-! ## MD026 -/
def Rs026 (s s' : S026) : Prop := s'.text = s.text ∧ OptPosEq s.startTok s'.startTok

def S026r (t t' : Tok) : Prop :=
  t'.kind = t.kind ∧ (t.isHeading = true → PosEq t t') ∧ (t.kind = .text → t'.text = t.text)

theorem md026_rel_step (c : C026) (s s' : S026) (t t' : Tok) (hR : Rs026 s s') (hS : S026r t t') :
    RelRes Rs026 (next026 c s t) (next026 c s' t') := by
  obtain ⟨st, tx⟩ := s
  obtain ⟨st', tx'⟩ := s'
  obtain ⟨htx, hst⟩ := hR
  simp only at htx hst
  subst htx
  obtain ⟨hk, hp, hx⟩ := hS
  have hh : t'.isHeading = t.isHeading := by unfold Tok.isHeading; rw [hk]
  have he : t'.isEnd = t.isEnd := by unfold Tok.isEnd; rw [hk]
  have hhe : t'.isHeadingEnd = t.isHeadingEnd := by unfold Tok.isHeadingEnd; rw [hk]
  unfold next026
  rw [hh, he, hhe, hk]
  by_cases h1 : t.isHeading = true
  · have := hp h1
    cases st <;> cases st' <;> simp_all [RelRes, Rs026, OptPosEq]
  · by_cases h2 : t.isEnd = true
    · by_cases h3 : t.isHeadingEnd = true
      · cases hl : tx'.getLast? with
        | none => cases st <;> cases st' <;> simp_all [RelRes, Rs026, OptPosEq]
        | some ch =>
          by_cases h4 : ch ∈ c.punctuation
          · cases st with
            | none => cases st' <;> simp_all [RelRes, Rs026, OptPosEq]
            | some h0 =>
              cases st' with
              | none => simp_all [OptPosEq]
              | some h0' =>
                simp only [OptPosEq] at hst
                simp only [h1, h2, h3, hl, h4, List.contains_iff_mem, Bool.false_eq_true, if_false, if_true, decide_true,
                  mkReport_posEq h0 h0' _ _ _ _ hst]
                cases mkReport h0 (deltas026 (t.kind == Kind.atxEnd) tx').1 (deltas026 (t.kind == Kind.atxEnd) tx').2.1
                  (deltas026 (t.kind == Kind.atxEnd) tx').2.2 none <;> simp [RelRes, Rs026, OptPosEq]
          · cases st <;> cases st' <;> simp_all [RelRes, Rs026, OptPosEq]
      · cases st <;> cases st' <;> simp_all [RelRes, Rs026, OptPosEq]
    · by_cases h3 : t.kind = .text
      · have := hx h3
        cases st <;> cases st' <;> simp_all [RelRes, Rs026, OptPosEq]
      · cases st <;> cases st' <;> simp_all [RelRes, Rs026, OptPosEq]

/-! ## MD024 -/
def Rs024 (s s' : S024) : Prop :=
  s'.text = s.text ∧ s'.hc = s.hc ∧ s'.last = s.last ∧ s'.maps = s.maps ∧ OptPosEq s.startTok s'.startTok

def S024r (t t' : Tok) : Prop :=
  t'.kind = t.kind ∧ (t.isHeading = true → PosEq t t' ∧ t'.hashCount = t.hashCount) ∧ (t.isHeading = false → t'.dbg = t.dbg)

theorem end024_rel (s s' : S024) (t t' : Tok) (hR : Rs024 s s') (hk : t'.kind = t.kind) :
    RelRes Rs024 (end024 s t) (end024 s' t') := by
  obtain ⟨tx, st, hc, last, maps⟩ := s
  obtain ⟨tx', st', hc', last', maps'⟩ := s'
  obtain ⟨h1, h2, h3, h4, h5⟩ := hR
  simp only at h1 h2 h3 h4 h5
  subst h1; subst h2; subst h3; subst h4
  have hl : loops024 ⟨tx', st', hc', last', maps'⟩ = loops024 ⟨tx', st, hc', last', maps'⟩ := rfl
  unfold end024
  rw [hl, hk]
  cases loops024 ⟨tx', st, hc', last', maps'⟩ with
  | error e => simp [RelRes]
  | ok m =>
    simp only
    cases pyIdx m.length (hc' - 1) with
    | none => simp [RelRes]
    | some k =>
      simp only
      cases tx' with
      | none => simp [RelRes]
      | some txt =>
        simp only
        by_cases hd : (m.getD k []).contains txt = true
        · simp only [hd, if_true]
          cases st with
          | none => cases st' <;> simp_all [RelRes, OptPosEq]
          | some h0 =>
            cases st' with
            | none => simp_all [OptPosEq]
            | some h0' =>
              simp only [OptPosEq] at h5
              simp only [mkReport_posEq h0 h0' _ _ _ _ h5]
              cases mkReport h0 (t.kind == Kind.setextEnd) 0 0 none <;> simp [RelRes, Rs024, OptPosEq, h5]
        · simp only [hd, Bool.false_eq_true, if_false, RelRes, Rs024]
          relclose

theorem md024_rel_step (c : C024) (s s' : S024) (t t' : Tok) (hR : Rs024 s s') (hS : S024r t t') :
    RelRes Rs024 (next024 c s t) (next024 c s' t') := by
  obtain ⟨hk, hp, hdbg⟩ := hS
  have hh : t'.isHeading = t.isHeading := by unfold Tok.isHeading; rw [hk]
  have hhe : t'.isHeadingEnd = t.isHeadingEnd := by unfold Tok.isHeadingEnd; rw [hk]
  unfold next024
  rw [hh, hhe]
  by_cases h1 : t.isHeading = true
  · obtain ⟨hpe, hhc⟩ := hp h1
    obtain ⟨r1, r2, r3, r4, r5⟩ := hR
    simp only [h1, if_true, RelRes, Rs024, hhc]
    relclose
  · have h1' : t.isHeading = false := by simpa using h1
    have hd := hdbg h1'
    simp only [h1', Bool.false_eq_true, if_false]
    have key : RelRes Rs024 (if t.isHeadingEnd = true then end024 s t else Except.ok (s, []))
        (if t.isHeadingEnd = true then end024 s' t' else Except.ok (s', [])) := by
      by_cases h2 : t.isHeadingEnd = true
      · simp only [h2, if_true]; exact end024_rel s s' t t' hR hk
      · simp only [h2, Bool.false_eq_true, if_false, RelRes]; exact ⟨hR, by trivial⟩
    revert key
    cases (if t.isHeadingEnd = true then end024 s t else Except.ok (s, [])) with
    | error e =>
      cases (if t.isHeadingEnd = true then end024 s' t' else Except.ok (s', [])) with
      | error e' => intro key; simp only [RelRes] at key ⊢; exact key
      | ok p => intro key; simp [RelRes] at key
    | ok p =>
      obtain ⟨u, rp⟩ := p
      cases (if t.isHeadingEnd = true then end024 s' t' else Except.ok (s', [])) with
      | error e' => intro key; simp [RelRes] at key
      | ok p' =>
        obtain ⟨u', rp'⟩ := p'
        intro key
        simp only [RelRes] at key
        obtain ⟨⟨r1, r2, r3, r4, r5⟩, hrp⟩ := key
        simp only [r1, hd]
        cases u.text with
        | none => simp only [RelRes, Rs024]; relclose
        | some txt => simp only [RelRes, Rs024]; relclose

/-! ## MD022 -/
def Rs022 (s s' : S022) : Prop :=
  s'.blc = s.blc ∧ s'.aboveOk = s.aboveOk ∧ s'.ended = s.ended ∧ s'.shbc = s.shbc ∧ s'.lastBlank = s.lastBlank ∧
    OptPosEq s.startTok s'.startTok

def S022r (t t' : Tok) : Prop :=
  t'.kind = t.kind ∧ (t.isHeading = true → PosEq t t') ∧ (t.kind = .blank → t'.line = t.line)

theorem reports022_rel (c : C022) (s s' : S022) (h h' : Tok) (b : Bool) (hR : Rs022 s s') (hp : PosEq h h') :
    reports022 c s' h' b = reports022 c s h b := by
  obtain ⟨r1, r2, r3, r4, r5, r6⟩ := hR
  unfold reports022
  rw [hp.1, hp.2.1, hp.2.2.1, hp.2.2.2.1, hp.2.2.2.2, r1, r2, r4]

theorem nonSimple022_rel (s s' : S022) (t t' : Tok) (hR : Rs022 s s') (hS : S022r t t') :
    nonSimple022 s' t' = nonSimple022 s t := by
  obtain ⟨r1, r2, r3, r4, r5, r6⟩ := hR
  obtain ⟨hk, _, hl⟩ := hS
  unfold nonSimple022
  rw [hk, r5]
  by_cases hb : t.kind = .blank
  · rw [hl hb]
  · have : (t.kind == Kind.blank) = false := by simpa using hb
    simp [this]

theorem fires022_rel (s s' : S022) (t t' : Tok) (hR : Rs022 s s') (hS : S022r t t') :
    fires022 s' t' = fires022 s t := by
  have hn := nonSimple022_rel s s' t t' hR hS
  obtain ⟨r1, r2, r3, r4, r5, r6⟩ := hR
  unfold fires022
  rw [hn, hS.1, r3]
  cases h1 : s.startTok <;> cases h2 : s'.startTok <;> simp_all [OptPosEq]

theorem phase1_022_rel (c : C022) (s s' : S022) (t t' : Tok) (hR : Rs022 s s') (hS : S022r t t') :
    Rs022 (phase1_022 c s t).1 (phase1_022 c s' t').1 ∧ (phase1_022 c s' t').2 = (phase1_022 c s t).2 := by
  have hn := nonSimple022_rel s s' t t' hR hS
  have hf := fires022_rel s s' t t' hR hS
  have hR' := hR
  obtain ⟨r1, r2, r3, r4, r5, r6⟩ := hR
  unfold phase1_022 close022
  rw [hn, hf, r1]
  by_cases h1 : s.blc ≠ -1 ∧ s.blc ≥ 0
  · rw [if_pos h1, if_pos h1]
    constructor
    · by_cases h2 : fires022 s t = true <;> by_cases h3 : nonSimple022 s t = true <;>
        simp only [h2, h3, if_true, Bool.false_eq_true, if_false, Rs022] <;>
        relclose
    · cases hs : s.startTok with
      | none =>
        cases hs' : s'.startTok with
        | none => rfl
        | some h' => rw [hs, hs'] at r6; simp [OptPosEq] at r6
      | some h =>
        cases hs' : s'.startTok with
        | none => rw [hs, hs'] at r6; simp [OptPosEq] at r6
        | some h' =>
          rw [hs, hs'] at r6
          simp only [OptPosEq] at r6
          simp only
          split
          · exact reports022_rel c s s' h h' _ hR' r6
          · rfl
  · rw [if_neg h1, if_neg h1]
    by_cases h2 : s.blc = -1 ∧ nonSimple022 s t = true
    · rw [if_pos h2, if_pos h2]; simp only [Rs022]; relclose
    · rw [if_neg h2, if_neg h2]; simp only [Rs022]; relclose

theorem phase2_022_rel (s s' : S022) (t t' : Tok) (hR : Rs022 s s') (hk : t'.kind = t.kind) :
    Rs022 (phase2_022 s t) (phase2_022 s' t') := by
  obtain ⟨r1, r2, r3, r4, r5, r6⟩ := hR
  unfold phase2_022
  rw [hk, r1]
  split
  · relclose
  · relclose

theorem phase3_022_rel (c : C022) (s s' : S022) (t t' : Tok) (hR : Rs022 s s') (hS : S022r t t') :
    Rs022 (phase3_022 c s t) (phase3_022 c s' t') := by
  obtain ⟨r1, r2, r3, r4, r5, r6⟩ := hR
  obtain ⟨hk, hp, _⟩ := hS
  have hh : t'.isHeading = t.isHeading := by unfold Tok.isHeading; rw [hk]
  have he : t'.isEnd = t.isEnd := by unfold Tok.isEnd; rw [hk]
  have hhe : t'.isHeadingEnd = t.isHeadingEnd := by unfold Tok.isHeadingEnd; rw [hk]
  have hle : t'.isLeafEnd = t.isLeafEnd := by unfold Tok.isLeafEnd; rw [hk]
  unfold phase3_022
  rw [hh, he, hhe, hle, hk, r1]
  by_cases h1 : t.isHeading = true
  · have hpe := hp h1
    simp only [h1, if_true, Rs022]; relclose
  · simp only [h1, Bool.false_eq_true, if_false]
    by_cases h2 : (t.kind == Kind.tbreak || t.kind == Kind.lrd) = true
    · simp only [h2, if_true, Rs022]; relclose
    · simp only [h2, Bool.false_eq_true, if_false]
      by_cases h3 : t.isEnd = true
      · simp only [h3, if_true]
        by_cases h4 : (t.kind != Kind.listEnd && t.kind != Kind.bquoteEnd) = true <;>
          by_cases h5 : t.isHeadingEnd = true <;>
          simp only [h4, h5, if_true, Bool.false_eq_true, if_false, Rs022] <;>
          relclose
      · simp only [h3, Bool.false_eq_true, if_false]; relclose

theorem md022_rel_step (c : C022) (s s' : S022) (t t' : Tok) (hR : Rs022 s s') (hS : S022r t t') :
    RelRes Rs022 (next022 c s t) (next022 c s' t') := by
  obtain ⟨h1, h2⟩ := phase1_022_rel c s s' t t' hR hS
  have h3 := phase3_022_rel c _ _ t t' (phase2_022_rel _ _ t t' h1 hS.1) hS
  unfold next022
  simp only [RelRes, h2, and_true]
  obtain ⟨r1, r2, r3, r4, r5, r6⟩ := h3
  refine ⟨r1, r2, r3, r4, ?_, r6⟩
  show (if (t'.kind == Kind.blank) = true then some t'.line else none) = if (t.kind == Kind.blank) = true then some t.line else none
  rw [hS.1]
  by_cases hb : t.kind = .blank
  · simp [hb, hS.2.2 hb]
  · simp [hb]

end Verif.Model.ScanRules
