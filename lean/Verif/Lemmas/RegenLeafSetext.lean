/-
  The setext heading of `RegenLeafSpec.setextToks`: the `end_whitespace` entries the block pass writes are read back by
  `__reconstitute_setext_text_item` as each line's leading / trailing white space (outside the F-SETEXT-TRAILWS shape).
-/
import Verif.Lemmas.RegenLeafBlocks
namespace Verif.Lemmas.RegenLeaf
open Verif.Model Verif.Model.RegenLeaf Verif.Model.RegenLeafSpec
open Verif.Model.Codec (Str plain SENT_START SENT_END WSPLIT)
open Verif.Model.Lines (splitOn joinOn splitNL joinNL NL)
open Verif.Lemmas.Lines

/-- the lines of a setext heading after the first, the last one without its trailing white space -/
def sxLines : List PLine → List Str
  | [] => []
  | [l] => [l.lead ++ l.body]
  | l :: m :: ms => l.src :: sxLines (m :: ms)

/-- what the setext shapes assume of one line -/
structure SxOk (l : PLine) : Prop where
  ok : l.ok = true
  lead : WSPLIT ∉ l.lead
  trail : WSPLIT ∉ l.trail

theorem splitOn_two (sep : Char) (a b : Str) (ha : sep ∉ a) (hb : sep ∉ b) : splitOn sep (a ++ sep :: b) = [a, b] := by
  rw [splitOn_append_sep, splitOn_of_noSep _ _ ha, splitOn_of_noSep _ _ hb]; rfl

/-- one entry written by the block pass is read back as the line's white space -/
theorem setextItem_entry (spw : List Str) (idx : Nat) (l : PLine) (last : Bool) (hl : SxOk l)
    (hmid : last = true ∨ l.lead ≠ [] ∨ l.trail = []) (hget : spw[idx]? = some (setextEntry l last)) :
    setextItem idx l.body spw = .ok (l.lead ++ l.body ++ (if last then [] else l.trail)) := by
  unfold setextItem
  rw [hget]
  unfold setextEntry
  by_cases hlead : l.lead = []
  · have ht : (if last = true then [] else l.trail) = [] := by
      rcases hmid with h | h | h
      · simp [h]
      · exact absurd hlead h
      · cases last <;> simp [h]
    simp only [hlead, if_true, ht, List.nil_append, List.append_nil]
  · rw [if_neg hlead]
    have hne : l.lead ++ WSPLIT :: (if last = true then [] else l.trail) ≠ [] := by simp
    cases hw : l.lead ++ WSPLIT :: (if last = true then [] else l.trail) with
    | nil => exact absurd hw hne
    | cons w ws =>
      simp only
      rw [← hw, splitOn_two WSPLIT _ _ hl.lead (by cases last <;> simp [hl.trail])]

theorem setextEntries_length : ∀ (ls : List PLine), (setextEntries ls).length = ls.length
  | [] => rfl
  | [l] => rfl
  | l :: m :: ms => by simp [setextEntries, setextEntries_length (m :: ms)]

theorem sxLines_length : ∀ (ls : List PLine), (sxLines ls).length = ls.length
  | [] => rfl
  | [l] => rfl
  | l :: m :: ms => by simp [sxLines, sxLines_length (m :: ms)]

/-- all the entries after the first -/
theorem setextItems_entries : ∀ (rest : List PLine) (pre : List Str), pre ≠ [] → (∀ l ∈ rest, SxOk l) → setextMiddleOk rest = true →
    setextItems (pre ++ setextEntries rest) pre.length (rest.map (·.body)) = .ok (sxLines rest)
  | [], pre, _, _, _ => rfl
  | [l], pre, hpre, hok, _ => by
    have hidx : 0 < pre.length := List.length_pos_iff.mpr hpre
    have hget : (pre ++ setextEntries [l])[pre.length]? = some (setextEntry l true) := by
      simp [setextEntries]
    simp only [List.map_cons, List.map_nil, setextItems]
    rw [setextItem_entry _ _ l true (hok l (by simp)) (Or.inl rfl) hget]
    simp [sxLines]
  | l :: m :: ms, pre, hpre, hok, hmid => by
    have hidx : 0 < pre.length := List.length_pos_iff.mpr hpre
    simp only [setextMiddleOk, Bool.and_eq_true, Bool.or_eq_true, Bool.not_eq_true', List.isEmpty_iff] at hmid
    have hget : (pre ++ setextEntries (l :: m :: ms))[pre.length]? = some (setextEntry l false) := by
      simp [setextEntries]
    have hm : l.lead ≠ [] ∨ l.trail = [] := by
      rcases hmid.1 with h | h
      · left; intro e; rw [e] at h; simp at h
      · right; exact h
    rw [List.map_cons, setextItems, setextItem_entry _ _ l false (hok l (by simp)) (Or.inr hm) hget]
    have ih := setextItems_entries (m :: ms) (pre ++ [setextEntry l false]) (by simp) (fun x hx => hok x (by simp [hx])) hmid.2
    have e1 : pre ++ setextEntries (l :: m :: ms) = (pre ++ [setextEntry l false]) ++ setextEntries (m :: ms) := by
      simp [setextEntries]
    have e2 : (pre ++ [setextEntry l false]).length = pre.length + 1 := by simp
    rw [e1, ← e2, ih]
    simp [sxLines, PLine.src]

theorem setextItem_first (t0 b0 : Str) (rest : List Str) (ht : WSPLIT ∉ t0) :
    setextItem 0 b0 (t0 :: rest) = .ok (b0 ++ t0) := by
  unfold setextItem
  simp only [List.getElem?_cons_zero]
  cases t0 with
  | nil => simp
  | cons w ws =>
    simp only
    rw [splitOn_of_noSep _ _ ht]
    simp

theorem sxOk_of (l : PLine) (h : (l.ok && !l.lead.contains WSPLIT && !l.trail.contains WSPLIT) = true) : SxOk l := by
  simp only [Bool.and_eq_true, Bool.not_eq_true'] at h
  refine ⟨h.1.1, ?_, ?_⟩
  · intro hm; have : l.lead.contains WSPLIT = true := by simpa using hm
    rw [h.1.2] at this; cases this
  · intro hm; have : l.trail.contains WSPLIT = true := by simpa using hm
    rw [h.2] at this; cases this

theorem setextEntries_NL : ∀ (ls : List PLine), (∀ l ∈ ls, SxOk l) → ∀ e ∈ setextEntries ls, NL ∉ e
  | [], _, e, he => by cases he
  | [l], hok, e, he => by
    have h := (PLine.ok_iff l).mp (hok l (by simp)).ok
    simp only [setextEntries, List.mem_singleton] at he
    subst he
    unfold setextEntry
    split <;> simp [h.2.2.2.1, show NL ≠ WSPLIT by decide]
  | l :: m :: ms, hok, e, he => by
    have h := (PLine.ok_iff l).mp (hok l (by simp)).ok
    simp only [setextEntries, List.mem_cons] at he
    rcases he with rfl | he
    · unfold setextEntry
      split <;> simp [h.2.2.2.1, h.2.2.2.2.2, show NL ≠ WSPLIT by decide]
    · exact setextEntries_NL (m :: ms) (fun x hx => hok x (by simp [hx])) e (by simpa [setextEntries] using he)

/-- glue: the last line gets the heading's `final_whitespace` -/
theorem sx_glue : ∀ (rest : List PLine) (x : Str), rest ≠ [] →
    joinNL (x :: sxLines rest) ++ lastTrail rest = joinNL (x :: rest.map PLine.src)
  | [], _, h => absurd rfl h
  | [l], x, _ => by
    simp [sxLines, joinNL, joinOn, lastTrail, PLine.src]
  | l :: m :: ms, x, _ => by
    have ih := sx_glue (m :: ms) l.src (by simp)
    rw [lastTrail_cons_cons]
    simp only [sxLines, List.map_cons, joinNL, joinOn_cons_cons] at ih ⊢
    simp only [List.append_assoc, List.cons_append] at ih ⊢
    rw [ih]

/-- a setext heading: text lines and underline -/
theorem closed_setext (l0 : PLine) (rest : List PLine) (u : LeafFields.SetextFields) (hok : ∀ l ∈ l0 :: rest, SxOk l)
    (hmid : setextMiddleOk rest = true) :
    Closed (setextToks (l0 :: rest) u) (joinNL ((l0 :: rest).map PLine.src) ++ [NL] ++ u.reassemble ++ [NL]) := by
  intro more c prev hc
  have ok0 := (PLine.ok_iff l0).mp (hok l0 (by simp)).ok
  have okr : ∀ l ∈ rest, _ := fun l hl => (PLine.ok_iff l).mp (hok l (by simp [hl])).ok
  have hbodiesNL : ∀ l ∈ (l0 :: rest).map (·.body), NL ∉ l := by
    intro l hl; simp at hl; rcases hl with rfl | ⟨a, ha, rfl⟩
    · exact ok0.2.2.2.2.1
    · exact (okr a ha).2.2.2.2.1
  have hbodiesPlain : plain (joinNL ((l0 :: rest).map (·.body))) = true := by
    apply plain_joinNL
    intro l hl; simp at hl; rcases hl with rfl | ⟨a, ha, rfl⟩
    · exact ok0.2.1
    · exact (okr a ha).2.1
  generalize hfin : lastTrail (l0 :: rest) = fin
  generalize hc1 : c.push (.setext [u.char] u.count fin) = c1
  have hs1 : c1.stack = .setext [u.char] u.count fin :: [] := by rw [← hc1]; simp [Ctx.push, hc]
  have hp1 : ∀ b, process c prev b (.setext l0.lead [u.char] u.count fin) = .ok (l0.lead, c1) := by
    intro b; rw [← hc1]; rfl
  have hp3 : ∀ p b, process c1 p b (.endSetext u.lead (some u.trail)) =
      .ok (fin ++ NL :: u.lead ++ List.replicate u.count u.char ++ u.trail ++ [NL], c) := by
    intro p b
    simp only [process, hEndSetext, hs1, repeatString]
    have : ({ c1 with stack := [] } : Ctx) = c := by rw [← hc1]; exact ctx_restore c hc _
    rw [this]; rfl
  cases rest with
  | nil =>
    have hnl : l0.body.contains NL = false := by simpa using ok0.2.2.2.2.1
    have hp2 : ∀ p b, process c1 p b (.text l0.body [] (some [])) = .ok (l0.body, c1) := by
      intro p b
      simp only [process]
      rw [hText_setext c1 [] _ _ _ hs1 l0.body [] _ ok0.2.1 rfl]
      unfold setextText
      rw [hnl]; rfl
    refine ⟨[l0.lead, l0.body, fin ++ NL :: u.lead ++ List.replicate u.count u.char ++ u.trail ++ [NL]], c, ?_, hc, ?_⟩
    · simp only [setextToks, hfin, List.map_cons, List.map_nil, joinNL, joinOn, if_true]
      rw [runMore_cons_ok (hp1 _), runMore_cons_ok (hp2 _ _), runMore_cons_ok (hp3 _ _)]
      rfl
    · rw [← hfin]
      simp [lastTrail, PLine.src, joinNL, joinOn, LeafFields.SetextFields.reassemble, LeafFields.rep]
  | cons m ms =>
    have hokr : ∀ l ∈ m :: ms, SxOk l := fun l hl => hok l (by simp at hl ⊢; right; exact hl)
    have hentNL := setextEntries_NL (m :: ms) hokr
    have heNL : ∀ e ∈ l0.trail :: setextEntries (m :: ms), NL ∉ e := by
      intro e he; simp only [List.mem_cons] at he
      rcases he with rfl | he
      · exact ok0.2.2.2.2.2
      · exact hentNL e he
    have hcb : countNl (joinNL ((l0 :: m :: ms).map (·.body))) = (m :: ms).length := by
      rw [countNl_joinNL_lines _ (by simp) hbodiesNL]; simp
    have hnl : (joinNL ((l0 :: m :: ms).map (·.body))).contains NL = true := by
      rw [contains_NL_iff, hcb]; simp
    have hitems : setextItems (l0.trail :: setextEntries (m :: ms)) 0 ((l0 :: m :: ms).map (·.body)) =
        .ok ((l0.body ++ l0.trail) :: sxLines (m :: ms)) := by
      rw [List.map_cons, setextItems, setextItem_first _ _ _ (hok l0 (by simp)).trail]
      have := setextItems_entries (m :: ms) [l0.trail] (by simp) hokr hmid
      simp only [List.singleton_append, List.length_singleton] at this
      simp only [Nat.zero_add, this]
    generalize hm2 : joinNL ((l0.body ++ l0.trail) :: sxLines (m :: ms)) = m2
    have hp2 : ∀ p b, process c1 p b (.text (joinNL ((l0 :: m :: ms).map (·.body))) []
        (some (joinNL (l0.trail :: setextEntries (m :: ms))))) = .ok (m2, c1) := by
      intro p b
      simp only [process]
      rw [hText_setext c1 [] _ _ _ hs1 _ [] _ hbodiesPlain rfl]
      unfold setextText
      rw [hnl]
      simp only [if_true]
      rw [splitNL_joinNL _ (by simp) heNL, splitNL_joinNL _ (by simp) hbodiesNL, hitems]
      simp only [hm2, List.nil_append]
    refine ⟨[l0.lead, m2, fin ++ NL :: u.lead ++ List.replicate u.count u.char ++ u.trail ++ [NL]], c, ?_, hc, ?_⟩
    · simp only [setextToks, hfin]
      have : ((m :: ms) = []) = False := by simp
      simp only [this, if_false]
      rw [runMore_cons_ok (hp1 _), runMore_cons_ok (hp2 _ _), runMore_cons_ok (hp3 _ _)]
      rfl
    · have hg := sx_glue (m :: ms) (l0.body ++ l0.trail) (by simp)
      rw [hm2] at hg
      rw [← hfin, lastTrail_cons_cons]
      have e : joinNL ((l0 :: m :: ms).map PLine.src) = l0.lead ++ (m2 ++ lastTrail (m :: ms)) := by
        rw [List.map_cons, show l0.src = l0.lead ++ (l0.body ++ l0.trail) by simp [PLine.src], joinNL_cons_append, ← hg]
      rw [e]
      simp [LeafFields.SetextFields.reassemble, LeafFields.rep]

end Verif.Lemmas.RegenLeaf
