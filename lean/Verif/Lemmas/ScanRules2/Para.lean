import Verif.Lemmas.ScanRules2.Basic
/-
  MD018 / MD020 (`StartOfLineTokenParser`): two rule objects whose states differ only in what `starting_new_file` leaves alone
  report the same (simulation), and what `next_token` reads of a token.
-/
namespace Verif.Model.ScanRules2
variable {Cfg St : Type}

/-- two runs from related states: same reports, same exception -/
theorem runToks_sim (r : Rule2 Cfg St) (c : Cfg) (R : St → St → Prop)
    (h : ∀ s s' t, R s s' →
      (∃ u u' rp, r.next c s t = .ok (u, rp) ∧ r.next c s' t = .ok (u', rp) ∧ R u u') ∨
      (∃ e, r.next c s t = .error e ∧ r.next c s' t = .error e)) :
    ∀ (ts : List Tk) (s s' : St), R s s' → reportsOf (runToks r c s ts) = reportsOf (runToks r c s' ts) := by
  intro ts
  induction ts with
  | nil => intro s s' _; rfl
  | cons t ts ih =>
    intro s s' hr
    rcases h s s' t hr with ⟨u, u', rp, e1, e2, hr'⟩ | ⟨e, e1, e2⟩
    · have := ih u u' hr'
      simp only [runToks, e1, e2]
      cases h1 : runToks r c u ts <;> cases h2 : runToks r c u' ts <;> simp_all [reportsOf]
    · simp only [runToks, e1, e2]

/-- a rule without `next_line`: the reports of a file are the reports of its tokens -/
theorem runFile_default (r : Rule2 Cfg St) (c : Cfg) (hl : ∀ s n l, r.line c s n l = .ok (s, [])) (s : St) (f : File) :
    reportsOf (runFile r c s f) = reportsOf (runToks r c s f.toks) := by
  unfold runFile
  cases runToks r c s f.toks with
  | error e => rfl
  | ok p => obtain ⟨u, rp⟩ := p; simp [runLines_default r c hl, reportsOf]

theorem scanAfter_eq_scan_of_sim (r : Rule2 Cfg St) (c : Cfg) (hl : ∀ s n l, r.line c s n l = .ok (s, [])) (R : St → St → Prop)
    (h : ∀ s s' t, R s s' →
      (∃ u u' rp, r.next c s t = .ok (u, rp) ∧ r.next c s' t = .ok (u', rp) ∧ R u u') ∨
      (∃ e, r.next c s t = .error e ∧ r.next c s' t = .error e))
    (h0 : ∀ s, R (r.start c s) (r.start c r.fresh)) (a b : File) : scanAfter r c a b = scan r c b := by
  unfold scanAfter scanFromState scan
  rw [runFile_default r c hl, runFile_default r c hl]
  exact runToks_sim r c R h b.toks _ _ (h0 _)

/-! ## the parser of MD018 / MD020 -/

/-- a delayed line that is left belongs to an earlier file's context (or there is none) -/
def StaleOrNone (o : Option Delayed) : Prop := ∀ d, o = some d → d.stale = true

/-- equal, or both outside a paragraph with nothing but stale delayed lines: the fields in which they may differ
    (`__inside_of_link`, `__first_line_after_hard_break`, `__delayed_line` and the four that `starting_new_file` assigns) are all
    assigned at the next paragraph start before they are read -/
def RP (s s' : PSt) : Prop :=
  s = s' ∨ (s.para = none ∧ s'.para = none ∧ StaleOrNone s.delayed ∧ StaleOrNone s'.delayed)

theorem staleOrNone_none : StaleOrNone none := fun _ h => by cases h

theorem staleOrNone_start (s : PSt) : StaleOrNone s.start.delayed := by
  intro d h
  simp only [PSt.start, Option.map_eq_some_iff] at h
  obtain ⟨d0, _, rfl⟩ := h
  rfl

theorem RP_start (s s' : PSt) : RP s.start s'.start :=
  Or.inr ⟨rfl, rfl, staleOrNone_start s, staleOrNone_start s'⟩

theorem checkRep_stale (chk : Str → Bool) (o : Option Delayed) (h : StaleOrNone o) :
    (match o with | some d => checkRep chk d | none => []) = [] := by
  cases o with
  | none => rfl
  | some d => simp [checkRep, h d rfl]

theorem pnext_sim (chk : Str → Bool) (s s' : PSt) (t : Tk) (h : RP s s') :
    (∃ u u' rp, pnext chk s t = .ok (u, rp) ∧ pnext chk s' t = .ok (u', rp) ∧ RP u u') ∨
    (∃ e, pnext chk s t = .error e ∧ pnext chk s' t = .error e) := by
  rcases h with rfl | ⟨h1, h2, h3, h4⟩
  · cases e : pnext chk s t with
    | error e' => exact Or.inr ⟨e', rfl, rfl⟩
    | ok p => obtain ⟨u, rp⟩ := p; exact Or.inl ⟨u, u, rp, rfl, rfl, Or.inl rfl⟩
  · left
    unfold pnext
    by_cases hp : (t.kind == .para) = true
    · simp only [hp, if_true]
      exact ⟨_, _, _, rfl, rfl, Or.inl rfl⟩
    · by_cases hpe : (t.kind == .paraEnd) = true
      · simp only [hp, hpe, if_true]
        refine ⟨{ s with delayed := none, para := none }, { s' with delayed := none, para := none }, [], ?_, ?_,
          Or.inr ⟨rfl, rfl, staleOrNone_none, staleOrNone_none⟩⟩
        · cases hd : s.delayed with
          | none => rfl
          | some d => simp [checkRep, h3 d hd]
        · cases hd : s'.delayed with
          | none => rfl
          | some d => simp [checkRep, h4 d hd]
      · simp only [hp, hpe, h1, h2]
        exact ⟨_, _, _, rfl, rfl, Or.inr ⟨h1, h2, h3, h4⟩⟩

/-- MD020: the parser states related, the rule's own two fields equal -/
def R020 (s s' : S020) : Prop := RP s.p s'.p ∧ s.inAtx = s'.inAtx ∧ s.lastAtx = s'.lastAtx

/-- `atxEnd020` does not look at the parser -/
def atxEnd' (inAtx : Bool) (last : Option (Bool × Str × Int × Int)) : Except Err (List Report) :=
  atxEnd020 { p := {}, inAtx := inAtx, lastAtx := last }

/-- what `next020` does with the parser's answer -/
def post020 (inAtx : Bool) (lastAtx : Option (Bool × Str × Int × Int)) (t : Tk) :
    Except Err (PSt × List Report) → Except Err (S020 × List Report)
  | .error e => .error e
  | .ok (p', r1) =>
    let last := if !(t.kind == .atxEnd) && inAtx
                then some (if t.kind == .text then (true, t.text, t.line, t.col) else (false, [], 0, 0)) else lastAtx
    if t.kind == .atx then .ok ({ p := p', inAtx := true, lastAtx := last }, r1)
    else if t.kind == .atxEnd then
      match atxEnd' inAtx last with
      | .error e => .error e
      | .ok r2 => .ok ({ p := p', inAtx := false, lastAtx := last }, r1 ++ r2)
    else .ok ({ p := p', inAtx := inAtx, lastAtx := last }, r1)

theorem next020_eq (s : S020) (t : Tk) : next020 s t = post020 s.inAtx s.lastAtx t (pnext check020 s.p t) := by
  unfold next020 post020
  cases pnext check020 s.p t with
  | error e => rfl
  | ok q => obtain ⟨p', r1⟩ := q; rfl

theorem next020_sim (s s' : S020) (t : Tk) (h : R020 s s') :
    (∃ u u' rp, next020 s t = .ok (u, rp) ∧ next020 s' t = .ok (u', rp) ∧ R020 u u') ∨
    (∃ e, next020 s t = .error e ∧ next020 s' t = .error e) := by
  obtain ⟨hp, ha, hl⟩ := h
  rw [next020_eq, next020_eq, ha, hl]
  rcases pnext_sim check020 s.p s'.p t hp with ⟨u, u', rp, e1, e2, hr⟩ | ⟨e, e1, e2⟩
  · rw [e1, e2]
    simp only [post020]
    by_cases hk : (t.kind == .atx) = true
    · simp only [hk, if_true]
      refine Or.inl ⟨_, _, _, rfl, rfl, ?_⟩; exact ⟨hr, rfl, rfl⟩
    · by_cases hk2 : (t.kind == .atxEnd) = true
      · simp only [hk, hk2, if_true]
        cases atxEnd' s'.inAtx (if (!true && s'.inAtx) = true then
            some (if (t.kind == K.text) = true then (true, t.text, t.line, t.col) else (false, [], 0, 0)) else s'.lastAtx) with
        | error e => exact Or.inr ⟨e, rfl, rfl⟩
        | ok r2 => refine Or.inl ⟨_, _, _, rfl, rfl, ?_⟩; exact ⟨hr, rfl, rfl⟩
      · simp only [hk, hk2]
        refine Or.inl ⟨_, _, _, rfl, rfl, ?_⟩; exact ⟨hr, rfl, rfl⟩
  · rw [e1, e2]
    exact Or.inr ⟨e, rfl, rfl⟩

/-! ## what the parser reads of a token -/

/-- paragraph: white space and column; text: position and text; code span: the three strings; raw HTML: the tag text;
    link / image: text, label type, the five strings; every other token: the kind -/
def viewPara (t : Tk) : Tk :=
  match t.kind with
  | .para => { kind := t.kind, col := t.col, text := t.text }
  | .text => { kind := t.kind, line := t.line, col := t.col, text := t.text }
  | .codeSpan => { kind := t.kind, aux := t.aux }
  | .rawHtml => { kind := t.kind, text := t.text }
  | .link | .image => { kind := t.kind, text := t.text, label := t.label, aux := t.aux }
  | _ => { kind := t.kind }

theorem viewPara_kind (t : Tk) : (viewPara t).kind = t.kind := by
  unfold viewPara; split <;> rfl

theorem textLoop_congr (chk : Str → Bool) (ws : List Str) (pidx pcol : Int) (t t' : Tk) (h1 : t.line = t'.line) (h2 : t.col = t'.col) :
    ∀ (xs : List Str) (k : Nat) (fao fhb : Bool) (d : Option Delayed),
      textLoop chk ws pidx pcol t k fao fhb d xs = textLoop chk ws pidx pcol t' k fao fhb d xs := by
  intro xs
  induction xs with
  | nil => intro k fao fhb d; rfl
  | cons x xs ih =>
    intro k fao fhb d
    simp only [textLoop, h1, h2, ih]

theorem pnext_view (chk : Str → Bool) (s : PSt) (t : Tk) : pnext chk s (viewPara t) = pnext chk s t := by
  unfold pnext
  simp only [viewPara_kind]
  by_cases hp : t.kind = .para
  · simp [hp, viewPara]
  · by_cases hpe : t.kind = .paraEnd
    · simp [hpe]
    · simp only [hp, hpe, beq_iff_eq, if_false]
      cases s.para with
      | none => rfl
      | some ws =>
        simp only
        split
        · rfl
        · by_cases ht : t.kind = .text
          · simp only [ht, if_true]
            have e1 : (viewPara t).text = t.text := by simp [viewPara, ht]
            rw [e1, textLoop_congr chk ws s.pidx s.pcol (viewPara t) t (by simp [viewPara, ht]) (by simp [viewPara, ht])]
          · simp only [ht, if_false]
            have : nonText s (viewPara t) = nonText s t := by
              unfold nonText
              simp only [viewPara_kind]
              cases hk : t.kind <;> simp [viewPara, hk, auxAt]
            rw [this]

/-! ## a paragraph that consists of one text token: every line is checked -/

/-- the lines `check_start_of_line` is called with for a text token that directly follows its paragraph start: line `k` of the text joined
    with line `k` of the paragraph's leading white space; line delta `k`; column = the paragraph's column for the first line, the
    paragraph's column + the length of the line's leading white space for a later line (as a negative delta = absolute column) -/
def lines018 (ws : List Str) (pcol : Int) (t : Tk) : Nat → Bool → List Str → List Delayed
  | _, _, [] => []
  | k, fao, x :: xs =>
    ⟨ws.getD k [] ++ x, t.line, t.col, k, -(if fao then pcol else pcol + ((ws.getD k []).length : Int)), false⟩ ::
      lines018 ws pcol t (k + 1) false xs

theorem wsAt_nat (ws : List Str) (k : Nat) (h : k < ws.length) : wsAt ws ((k : Int) + 0) = some (ws.getD k []) := by
  simp [wsAt, List.getD, h]

theorem textLoop_lines (chk : Str → Bool) (ws : List Str) (pcol : Int) (t : Tk) :
    ∀ (xs : List Str) (k : Nat) (fao fhb : Bool) (d : Option Delayed),
      (fhb || fao || k != 0) = true → k + xs.length ≤ ws.length → xs ≠ [] →
      ∃ a b, textLoop chk ws 0 pcol t k fao fhb d xs =
        .ok (a, b, (lines018 ws pcol t k fao xs).getLast?, (lines018 ws pcol t k fao xs).dropLast.flatMap (checkRep chk)) := by
  intro xs
  induction xs with
  | nil => intro k fao fhb d _ _ h; exact absurd rfl h
  | cons x xs ih =>
    intro k fao fhb d hc hlen _
    have hk : k < ws.length := by simp at hlen; omega
    rw [textLoop, wsAt_nat ws k hk]
    simp only [hc, if_true]
    cases xs with
    | nil =>
      simp [textLoop, lines018]
    | cons y ys =>
      have hlen' : (k + 1) + (y :: ys).length ≤ ws.length := by simp at hlen ⊢; omega
      obtain ⟨a, b, e⟩ := ih (k + 1) false false d (by simp) hlen' (by simp)
      simp only [List.isEmpty_cons, Bool.false_eq_true, if_false, e]
      refine ⟨a, b, ?_⟩
      simp [lines018, List.getLast?_cons_cons]

theorem flatMap_dropLast_getLast (f : Delayed → List Report) (L : List Delayed) :
    L.dropLast.flatMap f ++ (L.getLast?.map f).getD [] = L.flatMap f := by
  induction L with
  | nil => rfl
  | cons z zs ih =>
    cases zs with
    | nil => simp
    | cons w ws' =>
      simp only [List.dropLast_cons_cons, List.getLast?_cons_cons, List.flatMap_cons, List.append_assoc] at ih ⊢
      rw [ih]

theorem splitNl_ne_nil (s : Str) : splitNl s ≠ [] := by
  cases s with
  | nil => simp [splitNl]
  | cons c cs =>
    simp only [splitNl]
    split
    · simp
    · split <;> simp

def pstA (p : Tk) : PSt := { para := some (splitNl p.text), pidx := 0, firstAfterOther := true, pcol := p.col }
def pstB (p t : Tk) (a b : Bool) (d : Option Delayed) : PSt :=
  { para := some (splitNl p.text), pidx := 0 + countNl t.text, firstAfterOther := a, afterHardBreak := b, pcol := p.col, delayed := d }

/-- the three calls of `next_token` for `paragraph, text, end of paragraph`, from ANY state -/
theorem para_text_end (chk : Str → Bool) (r : Rule2 Unit PSt) (hn : r.next = fun _ => pnext chk) (s : PSt) (p t e : Tk)
    (hp : p.kind = .para) (ht : t.kind = .text) (he : e.kind = .paraEnd)
    (hlen : (splitNl t.text).length ≤ (splitNl p.text).length) :
    reportsOf (runToks r () s [p, t, e]) =
      .ok ((lines018 (splitNl p.text) p.col t 0 true (splitNl t.text)).flatMap (checkRep chk)) := by
  obtain ⟨a, b, e1⟩ := textLoop_lines chk (splitNl p.text) p.col t (splitNl t.text) 0 true false none (by simp)
    (by simpa using hlen) (splitNl_ne_nil _)
  generalize hL : lines018 (splitNl p.text) p.col t 0 true (splitNl t.text) = L at e1
  have s1 : pnext chk s p = .ok (pstA p, []) := by
    simp [pnext, hp, pstA]
  have s2 : pnext chk (pstA p) t = .ok (pstB p t a b L.getLast?, L.dropLast.flatMap (checkRep chk)) := by
    simp [pnext, ht, e1, pstA, pstB]
  have s3 : ∀ q : PSt, pnext chk q e = .ok ({ q with delayed := none, para := none },
      match q.delayed with | some d => checkRep chk d | none => []) := by
    intro q; simp [pnext, he]; cases q.delayed <;> rfl
  simp only [runToks, hn, s1, s2, s3, reportsOf, List.nil_append, List.append_nil]
  have key := flatMap_dropLast_getLast (checkRep chk) L
  simp only [pstB]
  cases hg : L.getLast? with
  | none => rw [hg] at key; simpa using key
  | some d => rw [hg] at key; simpa using key

theorem mem_lines018 (ws : List Str) (pcol : Int) (t : Tk) : ∀ (xs : List Str) (k : Nat) (fao : Bool) (d : Delayed),
    d ∈ lines018 ws pcol t k fao xs →
    ∃ j, j < xs.length ∧ d.line = t.line ∧ d.col = t.col ∧ d.dl = ((k + j : Nat) : Int) ∧
      d.dc = -(if fao = true ∧ j = 0 then pcol else pcol + (((ws.getD (k + j) []).length : Nat) : Int)) := by
  intro xs
  induction xs with
  | nil => intro k fao d h; simp [lines018] at h
  | cons x xs ih =>
    intro k fao d h
    simp only [lines018, List.mem_cons] at h
    rcases h with h | h
    · subst h
      refine ⟨0, by simp, rfl, rfl, by simp, ?_⟩
      cases fao <;> simp
    · obtain ⟨j, hj, h1, h2, h3, h4⟩ := ih (k + 1) false d h
      refine ⟨j + 1, by simp; omega, h1, h2, ?_, ?_⟩
      · rw [h3]; congr 1; omega
      · rw [h4]; simp; rw [show k + 1 + j = k + (j + 1) by omega]

/-- the parser of MD020 alone (`check020`) as a rule -/
def parser020 : Rule2 Unit PSt := { fresh := {}, start := fun _ s => s.start, next := fun _ => pnext check020 }

/-- outside ATX headings MD020 is its parser: a stream without ATX heading tokens, from a state that is not inside one -/
theorem md020_no_atx : ∀ (ts : List Tk) (q : PSt) (l : Option (Bool × Str × Int × Int)),
    (∀ t ∈ ts, t.kind ≠ .atx ∧ t.kind ≠ .atxEnd) →
    reportsOf (runToks md020 () { p := q, inAtx := false, lastAtx := l } ts) = reportsOf (runToks parser020 () q ts) := by
  intro ts
  induction ts with
  | nil => intro q l _; rfl
  | cons t ts ih =>
    intro q l h
    have ⟨h1, h2⟩ := h t (by simp)
    have hn : md020.next () { p := q, inAtx := false, lastAtx := l } t = post020 false l t (pnext check020 q t) := next020_eq _ t
    have hp : parser020.next () q t = pnext check020 q t := rfl
    rw [runToks, runToks, hn, hp]
    cases pnext check020 q t with
    | error e => rfl
    | ok r =>
      obtain ⟨p', r1⟩ := r
      simp only [post020, h1, h2, beq_iff_eq, if_false, Bool.and_false, Bool.false_eq_true]
      have := ih p' l (fun t ht => h t (by simp [ht]))
      cases e1 : runToks md020 () { p := p', inAtx := false, lastAtx := l } ts <;>
        cases e2 : runToks parser020 () p' ts <;> simp_all [reportsOf]

end Verif.Model.ScanRules2
