import Verif.Lemmas.ScanRules2.Basic
/-
  MD013 / MD011: the token pass collects `leafsOf`; the walk of `__leaf_token_index` over the lines in closed form.
-/
namespace Verif.Model.ScanRules2

theorem leafsOf_snoc (seen : List Tk) (t : Tk) :
    leafsOf (seen ++ [t]) = if t.kind.isLeaf then leafsOf seen ++ [(t.line, t.kind)] else leafsOf seen := by
  unfold leafsOf
  by_cases h : t.kind.isLeaf <;> simp [List.filter_append, h]

def Fleaf (seen : List Tk) : LeafSt := { leafs := leafsOf seen, lineIndex := 1, leafIdx := 0 }

theorem leaf_step (seen : List Tk) (t : Tk) : leafNext (Fleaf seen) t = Fleaf (seen ++ [t]) := by
  unfold leafNext Fleaf
  rw [leafsOf_snoc]
  by_cases h : t.kind.isLeaf <;> simp [h]

theorem byPrefix_nil (seen ts : List Tk) : byPrefix (fun _ _ => []) seen ts = [] := by
  simp [byPrefix]

/-- the token pass of both line rules -/
theorem leaf_toks {C : Type} (r : Rule2 C LeafSt) (c : C) (h : ∀ s t, r.next c s t = .ok (leafNext s t, []))
    (toks : List Tk) : runToks r c LeafSt.start toks = .ok (Fleaf toks, []) := by
  have := runToks_byPrefix r c Fleaf (fun _ _ => []) (fun seen t => by rw [h, leaf_step]) [] toks
  simpa [byPrefix_nil, Fleaf, leafsOf, LeafSt.start] using this

/-- number of collected tokens (after the first) that start at or before line `n` -/
def cnt (tail : List (Int × K)) (n : Int) : Nat := (tail.takeWhile (fun p => decide (p.1 ≤ n))).length

theorem Increasing.tail {p : Int × K} {r : List (Int × K)} (h : Increasing (p :: r)) : Increasing r := by
  cases r with
  | nil => trivial
  | cons q r => exact h.2.2

theorem Increasing.head_ge {p : Int × K} {r : List (Int × K)} (h : Increasing (p :: r)) : 1 ≤ p.1 := by
  cases r with
  | nil => exact h
  | cons q r => exact h.1

theorem cnt_zero_of_lt {r : List (Int × K)} {x : Int × K} {n : Int} (h : Increasing (x :: r)) (hx : n ≤ x.1) :
    cnt r n = 0 := by
  cases r with
  | nil => rfl
  | cons q r =>
    have h1 : x.1 < q.1 := h.2.1
    have h2 : ¬ q.1 ≤ n := by omega
    simp [cnt, h2]

/-- one step of the walk: the index after line `n` from the index after line `n - 1` -/
theorem cnt_step (tail : List (Int × K)) (n : Int) (h : Increasing tail) :
    (match tail[cnt tail (n - 1)]? with
     | some (ln, _) => if n = ln then cnt tail (n - 1) + 1 else cnt tail (n - 1)
     | none => cnt tail (n - 1)) = cnt tail n := by
  induction tail with
  | nil => simp [cnt]
  | cons x r ih =>
    by_cases hx : x.1 ≤ n - 1
    · have hx' : x.1 ≤ n := by omega
      have e1 : cnt (x :: r) (n - 1) = cnt r (n - 1) + 1 := by simp [cnt, List.takeWhile, hx]
      have e2 : cnt (x :: r) n = cnt r n + 1 := by simp [cnt, List.takeWhile, hx']
      rw [e1, e2, List.getElem?_cons_succ, ← ih h.tail]
      cases r[cnt r (n - 1)]? with
      | none => rfl
      | some q => obtain ⟨ln, k⟩ := q; simp only; split <;> rfl
    · have e1 : cnt (x :: r) (n - 1) = 0 := by simp [cnt, List.takeWhile, hx]
      rw [e1]
      obtain ⟨ln, k⟩ := x
      simp only [List.getElem?_cons_zero]
      by_cases hn : n = ln
      · have e3 : cnt r n = 0 := cnt_zero_of_lt h (by simp; omega)
        simp [hn, cnt, List.takeWhile] at e3 ⊢
        simpa [cnt] using e3
      · have : ¬ ln ≤ n := by simp at hx; omega
        simp [hn, cnt, List.takeWhile, this]

theorem cnt_base (tail : List (Int × K)) (h : Increasing tail) : cnt tail 0 = 0 := by
  cases tail with
  | nil => rfl
  | cons x r =>
    have h1 := h.head_ge
    have h2 : ¬ x.1 ≤ 0 := by omega
    simp [cnt, h2]

/-- the collected token at the walk's index = the last one that starts at or before line `n` -/
theorem getElem_cnt (first : Int × K) (tail : List (Int × K)) (p : Int × K → Bool) :
    (first :: tail)[(tail.takeWhile p).length]? = some ((tail.takeWhile p).getLast?.getD first) := by
  induction tail generalizing first with
  | nil => simp
  | cons x r ih =>
    by_cases hp : p x
    · simp only [List.takeWhile_cons, hp, if_true, List.length_cons, List.getElem?_cons_succ]
      rw [ih x, List.getLast?_cons]
      simp
    · simp [hp]

/-- `leafAdvance` in the walk's invariant state -/
theorem leafAdvance_eq (first : Int × K) (tail : List (Int × K)) (n : Int) (h : Increasing tail) :
    leafAdvance { leafs := first :: tail, lineIndex := n, leafIdx := cnt tail (n - 1) } = cnt tail n := by
  unfold leafAdvance
  simp only [List.getElem?_cons_succ]
  rw [← cnt_step tail n h]
  cases tail[cnt tail (n - 1)]? with
  | none => rfl
  | some q => rfl

theorem leafs_at_cnt (first : Int × K) (tail : List (Int × K)) (n : Int) :
    ∃ ln, (first :: tail)[cnt tail n]? = some (ln, govKind first tail n) := by
  unfold cnt govKind
  rw [getElem_cnt]
  exact ⟨_, rfl⟩

/-! ## the line passes -/
theorem line013_eq (c : C013) (s : LeafSt) (n : Int) (l : Str) (ln : Int) (k : K)
    (hget : s.leafs[leafAdvance s]? = some (ln, k)) :
    line013 c s n l = .ok ({ s with leafIdx := leafAdvance s, lineIndex := s.lineIndex + 1 },
      if long013 c k l then [repLine n 1 (some (extra013 (compare013 c k) l.length))] else []) := by
  unfold line013 long013
  simp only [hget]
  by_cases h1 : (l.length : Int) > c.minimum <;> by_cases h2 : (l.length : Int) > compare013 c k <;>
    cases h3 : trigger013 c l (compare013 c k) <;> simp [h1, h2]

theorem line011_eq (s : LeafSt) (n : Int) (l : Str) (ln : Int) (k : K)
    (hget : s.leafs[leafAdvance s]? = some (ln, k)) :
    line011 s n l = .ok ({ s with leafIdx := leafAdvance s, lineIndex := s.lineIndex + 1 }, hit011 k n l) := by
  unfold line011 hit011
  simp only [hget]
  by_cases h1 : k.isCode = true <;> by_cases h2 : (k == K.html) = true <;>
    by_cases h3 : l.isEmpty = true <;> by_cases h4 : l.contains '(' = true <;> by_cases h5 : l.contains '[' = true <;>
    cases search011 l <;> simp_all

theorem md013_lines (c : C013) (first : Int × K) (tail : List (Int × K)) (h : Increasing tail) (n : Int) (ls : List Str) :
    ∃ s', runLines md013 c { leafs := first :: tail, lineIndex := n, leafIdx := cnt tail (n - 1) } n ls =
      .ok (s', byLine (fun n l =>
        let k := govKind first tail n
        if long013 c k l then [repLine n 1 (some (extra013 (compare013 c k) l.length))] else []) n ls) := by
  induction ls generalizing n with
  | nil => exact ⟨_, rfl⟩
  | cons l ls ih =>
    obtain ⟨s', hs⟩ := ih (n + 1)
    have hadv := leafAdvance_eq first tail n h
    obtain ⟨ln, hget⟩ := leafs_at_cnt first tail n
    simp only [Int.add_sub_cancel] at hs
    refine ⟨s', ?_⟩
    have hl : md013.line = line013 := rfl
    have hline := line013_eq c { leafs := first :: tail, lineIndex := n, leafIdx := cnt tail (n - 1) } n l ln _
      (by rw [hadv]; exact hget)
    simp only [runLines, hl, hline, hadv, hs, byLine]

theorem md011_lines (first : Int × K) (tail : List (Int × K)) (h : Increasing tail) (n : Int) (ls : List Str) :
    ∃ s', runLines md011 () { leafs := first :: tail, lineIndex := n, leafIdx := cnt tail (n - 1) } n ls =
      .ok (s', byLine (fun n l => hit011 (govKind first tail n) n l) n ls) := by
  induction ls generalizing n with
  | nil => exact ⟨_, rfl⟩
  | cons l ls ih =>
    obtain ⟨s', hs⟩ := ih (n + 1)
    have hadv := leafAdvance_eq first tail n h
    obtain ⟨ln, hget⟩ := leafs_at_cnt first tail n
    simp only [Int.add_sub_cancel] at hs
    refine ⟨s', ?_⟩
    have hl : md011.line = fun _ => line011 := rfl
    have hline := line011_eq { leafs := first :: tail, lineIndex := n, leafIdx := cnt tail (n - 1) } n l ln _
      (by rw [hadv]; exact hget)
    simp only [runLines, hl, hline, hadv, hs, byLine]

end Verif.Model.ScanRules2
