import Verif.Lemmas.ScanRules2.Basic
/-
  MD032 blanks-around-lists: the condition of `md032_scan_iff` (no rule object: sentences about the tokens that stand before a token,
  NEAREST FIRST) and the step lemma that ties it to the faithful state machine `next032`.
-/
namespace Verif.Model.ScanRules2

/-- the tokens `__last_non_end_token` can hold: not an end token, not a block quote start, not a list start -/
def rel032 (k : K) : Bool := !k.isEnd && !(k == .bquote) && !(k == .listStart)

/-- "the last non-end token before here is a blank line" (`none`: there is none).  Argument: the tokens before, nearest first. -/
def lastBlankR : List Tk → Option Bool
  | [] => none
  | t :: before => if rel032 t.kind then some (t.kind == .blank) else lastBlankR before

/-- the containers the rule still has on its stack, innermost first, (is a list, line): every block quote start and list start that was
    not removed — a block quote end removes the innermost entry whatever it is; a list end removes the innermost entry ONLY when the last
    non-end token before it is not a blank line: a list that ends directly after a blank line is NEVER removed (the `del` stands inside
    `if not self.__last_non_end_token.is_blank_line`).  Argument: the tokens before, nearest first. -/
def openR : List Tk → List (Bool × Int)
  | [] => []
  | t :: before =>
    match t.kind with
    | .bquote => (false, t.line) :: openR before
    | .listStart => (true, t.line) :: openR before
    | .bquoteEnd => (openR before).tail
    | .listEnd => if lastBlankR before == some false then (openR before).tail else openR before   -- else: the never-popped list
    | _ => openR before

/-- the token directly before is a list end that did not follow a blank line -/
def endedR : List Tk → Bool
  | [] => false
  | t :: before => t.kind == .listEnd && lastBlankR before == some false

def lastBlank032 (seen : List Tk) : Option Bool := lastBlankR seen.reverse
/-- the stack of not-yet-removed containers (with the never-popped lists) after `seen` -/
def open032 (seen : List Tk) : List (Bool × Int) := openR seen.reverse
def ended032 (seen : List Tk) : Bool := endedR seen.reverse

/-- MD032, the reports at token `t` after the tokens `seen`:
    * line above `t`, when the token directly before `t` is a list end that did not follow a blank line and `t` is none of blank line,
      new list item, list end, block quote end, end of stream;
    * at `t`, when `t` is a list start, the last non-end token before it exists and is not a blank line, and the innermost container
      still on the stack (`open032`: this includes every list that ended after a blank line) is neither a list nor a block quote
      that starts on `t`'s line — an empty stack does not excuse. -/
def cond032 (seen : List Tk) (t : Tk) : List Report :=
  (if ended032 seen && !(t.kind == .blank || t.kind == .newItem || t.kind == .listEnd || t.kind == .bquoteEnd || t.kind == .eos)
   then [repTok t (-1) 0] else []) ++
  (if t.kind == .listStart && lastBlank032 seen == some false &&
      !(match open032 seen with
        | [] => false
        | (isList, ln) :: _ => isList || ln = t.line)
   then [repTok t] else [])

/-- the exceptions of `next_token` cannot happen at this token: a block quote end finds a container on the stack; a list end finds a
    non-end token before it, and a container on the stack when that token is not a blank line -/
def Safe032 (seen : List Tk) (t : Tk) : Prop :=
  (t.kind = .bquoteEnd → open032 seen ≠ []) ∧
  (t.kind = .listEnd → lastBlank032 seen ≠ none ∧ (lastBlank032 seen = some false → open032 seen ≠ []))

instance (seen : List Tk) (t : Tk) : Decidable (Safe032 seen t) := by unfold Safe032; exact inferInstance

/-- the rule's state after `seen` -/
def F032 (seen : List Tk) : S032 := { last := lastBlank032 seen, stack := open032 seen, endList := ended032 seen }

theorem lastBlank032_snoc (seen : List Tk) (t : Tk) :
    lastBlank032 (seen ++ [t]) = if rel032 t.kind then some (t.kind == .blank) else lastBlank032 seen := by
  simp [lastBlank032, lastBlankR]

theorem ended032_snoc (seen : List Tk) (t : Tk) :
    ended032 (seen ++ [t]) = (t.kind == .listEnd && lastBlank032 seen == some false) := by
  simp [ended032, endedR, lastBlank032]

theorem open032_snoc (seen : List Tk) (t : Tk) :
    open032 (seen ++ [t]) =
      match t.kind with
      | .bquote => (false, t.line) :: open032 seen
      | .listStart => (true, t.line) :: open032 seen
      | .bquoteEnd => (open032 seen).tail
      | .listEnd => if lastBlank032 seen == some false then (open032 seen).tail else open032 seen
      | _ => open032 seen := by
  simp only [open032, List.reverse_append, List.reverse_cons, List.reverse_nil, List.nil_append, List.cons_append, lastBlank032]
  rw [openR]
  cases t.kind <;> rfl

theorem md032_step (seen : List Tk) (t : Tk) (h : Safe032 seen t) :
    next032 (F032 seen) t = .ok (F032 (seen ++ [t]), cond032 seen t) := by
  obtain ⟨hq, hl⟩ := h
  simp only [F032, lastBlank032_snoc, ended032_snoc, open032_snoc]
  cases hk : t.kind
  case bquoteEnd =>
    have hq := hq hk
    cases ho : open032 seen with
    | nil => exact absurd ho hq
    | cons p st =>
      simp [next032, containers032, after032, cond032, hk, ho, rel032, K.isEnd]
  case listEnd =>
    obtain ⟨hn, hs⟩ := hl hk
    cases hb : lastBlank032 seen with
    | none => exact absurd hb hn
    | some b =>
      cases b with
      | true => simp [next032, containers032, after032, cond032, hk, hb, rel032, K.isEnd]
      | false =>
        have hs := hs hb
        cases ho : open032 seen with
        | nil => exact absurd ho hs
        | cons p st => simp [next032, containers032, after032, cond032, hk, hb, ho, rel032, K.isEnd]
  case listStart =>
    simp only [next032, containers032, after032, before032, cond032, hk, rel032, K.isEnd]
    simp
    cases open032 seen with
    | nil => rfl
    | cons p st => obtain ⟨a, b⟩ := p; rfl
  case bquote =>
    simp [next032, containers032, after032, cond032, hk, rel032, K.isEnd]
  all_goals
    simp [next032, containers032, after032, cond032, hk, rel032, K.isEnd]

end Verif.Model.ScanRules2
