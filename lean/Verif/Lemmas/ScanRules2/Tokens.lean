import Verif.Lemmas.ScanRules2.Basic
/-
  The token rules MD014, MD028, MD033, MD034: the state as a function of the tokens seen; one step of each rule.
-/
namespace Verif.Model.ScanRules2

/-! ## MD014 -/
theorem md014_step (seen : List Tk) (t : Tk) :
    next014 (inside K.isCode K.isCodeEnd seen) t = .ok (inside K.isCode K.isCodeEnd (seen ++ [t]), cond014 seen t) := by
  rw [inside_snoc]
  unfold next014 cond014
  cases hk : t.kind <;> simp [K.isCode, K.isCodeEnd] <;> cases inside K.isCode K.isCodeEnd seen <;> simp

/-! ## MD034 -/
def F034 (seen : List Tk) : S034 :=
  ⟨inside K.isCode K.isCodeEnd seen, inside (· == .html) (· == .htmlEnd) seen, inside (· == .link) (· == .linkEnd) seen⟩

theorem md034_step (seen : List Tk) (t : Tk) : next034 (F034 seen) t = .ok (F034 (seen ++ [t]), cond034 seen t) := by
  unfold F034
  rw [inside_snoc, inside_snoc, inside_snoc]
  unfold next034 cond034
  cases hk : t.kind <;> simp [K.isCode, K.isCodeEnd] <;>
    cases inside K.isCode K.isCodeEnd seen <;> cases inside (· == K.html) (· == K.htmlEnd) seen <;>
    cases inside (· == K.link) (· == K.linkEnd) seen <;> simp

/-! ## MD033 -/
def F033 (seen : List Tk) : S033 := ⟨afterHtmlStart seen, seen.isEmpty, firstBlock033 seen⟩

theorem afterHtmlStart_snoc (seen : List Tk) (t : Tk) :
    afterHtmlStart (seen ++ [t]) =
      if t.kind == .text || t.kind == .rawHtml then afterHtmlStart seen else t.kind == .html := by
  unfold afterHtmlStart
  simp only [List.reverse_append, List.reverse_singleton, List.singleton_append, List.dropWhile_cons]
  by_cases h : (t.kind == .text || t.kind == .rawHtml) = true
  · simp [h]
  · simp [h]

theorem firstBlock033_snoc (seen : List Tk) (t : Tk) :
    firstBlock033 (seen ++ [t]) =
      if seen.isEmpty then t.kind == .html else (firstBlock033 seen && !(t.kind == .html || t.kind == .rawHtml)) := by
  cases seen with
  | nil => simp [firstBlock033]
  | cons h rest => simp [firstBlock033, List.all_append, Bool.and_assoc]

theorem md033_step (c : C033) (seen : List Tk) (t : Tk)
    (hok : t.kind = .text → ∃ rs, look033 c (firstBlock033 seen) t (t.text.drop 1) = .ok rs)
    (hraw : t.kind = .rawHtml → ∃ rs, look033 c false t t.text = .ok rs) :
    next033 c (F033 seen) t = .ok (F033 (seen ++ [t]), cond033 c seen t) := by
  unfold F033
  rw [afterHtmlStart_snoc, firstBlock033_snoc]
  unfold next033 cond033 lookReps
  by_cases h1 : t.kind = .rawHtml
  · obtain ⟨rs, hr⟩ := hraw h1
    simp [h1, hr]
  · by_cases h2 : t.kind = .html
    · cases seen <;> simp [h2]
    · by_cases h3 : t.kind = .text
      · obtain ⟨rs, hr⟩ := hok h3
        cases ha : afterHtmlStart seen <;> cases seen <;> simp_all [afterHtmlStart, firstBlock033]
      · cases seen <;> simp [h1, h2, h3, firstBlock033]

/-! ## MD028 -/
theorem phase028_snoc (seen : List Tk) (t : Tk) : phase028 (seen ++ [t]) = step028 (phase028 seen) t := by
  simp [phase028, List.foldl_append]

theorem next028_ok (s : S028) (t : Tk) (h : s.cur ≤ 2) : ∃ q, next028 s t = .ok q ∧ q.1.cur ≤ 2 := by
  have hc : s.cur = 0 ∨ s.cur = 1 ∨ s.cur = 2 := by omega
  rcases hc with h | h | h <;> simp only [next028, h] <;> (repeat' split) <;> simp_all

theorem step028_le (s : S028) (t : Tk) (h : s.cur ≤ 2) : (step028 s t).cur ≤ 2 := by
  obtain ⟨q, hq, hle⟩ := next028_ok s t h
  simp [step028, hq, hle]

theorem foldl028_le (seen : List Tk) (s : S028) (h : s.cur ≤ 2) : (seen.foldl step028 s).cur ≤ 2 := by
  induction seen generalizing s with
  | nil => exact h
  | cons t ts ih => exact ih _ (step028_le s t h)

theorem phase028_le (seen : List Tk) : (phase028 seen).cur ≤ 2 := foldl028_le seen {} (by simp)

theorem md028_step (seen : List Tk) (t : Tk) :
    next028 (phase028 seen) t = .ok (phase028 (seen ++ [t]), cond028 seen t) := by
  rw [phase028_snoc]
  have hle := phase028_le seen
  unfold cond028 step028
  generalize phase028 seen = s at hle ⊢
  have hc : s.cur = 0 ∨ s.cur = 1 ∨ s.cur = 2 := by omega
  rcases hc with h | h | h <;> simp only [next028, h] <;> (repeat' split) <;> simp_all

end Verif.Model.ScanRules2
