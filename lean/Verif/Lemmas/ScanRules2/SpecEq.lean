import Verif.Lemmas.ScanRules2.Basic
import Verif.Model.RuleSpec.Lines
/-
  The faithful MD013 decision for ONE line under a collected token of kind `k` (`long013`) against the reference condition of
  `Model/RuleSpec/Lines.lean` (`md013Line` with the line's kind given).
-/
namespace Verif.Model.ScanRules2
open Verif.Model (RuleSpec.LineKind)

/-- the reference's line kind of a line governed by a collected token of kind `k` -/
def lineKind013 (k : K) : RuleSpec.LineKind :=
  if k.isCode then .code else if k == .atx || k == .setext then .heading else .normal

/-- the reference condition with the kind of the line given (`md013Line` = this at `kindOf bs i`) -/
def ref013 (c : RuleSpec.C013) (k : RuleSpec.LineKind) (l : Str) : Bool :=
  decide (l.length > RuleSpec.limit c k) && !RuleSpec.exempt c k && (c.strict || RuleSpec.wsBeyond l (RuleSpec.limit c k))

theorem ref013_eq (c : RuleSpec.C013) (bs : List RuleSpec.Block) (i : Nat) (l : Str) :
    RuleSpec.md013Line c bs i l = ref013 c (RuleSpec.kindOf bs i) l := rfl

theorem takeWhile_length_eq_iff (p : Char → Bool) (xs : Str) : ((xs.takeWhile p).length = xs.length) ↔ xs.all p = true := by
  induction xs with
  | nil => simp
  | cons x xs ih =>
    by_cases h : p x = true
    · simp [List.takeWhile, h, ih]
    · simp [List.takeWhile, h]

/-- "the first space or tab at or after `n` is the end of the line" ⇔ "no white space at or beyond `n`" -/
theorem untilSpace_eq_length_iff (l : Str) (n : Nat) (h : n ≤ l.length) :
    (l.length = untilSpace l n) ↔ RuleSpec.wsBeyond l n = false := by
  unfold untilSpace RuleSpec.wsBeyond
  have hd : (l.drop n).length = l.length - n := by simp
  have key := takeWhile_length_eq_iff (fun ch => !(ch == ' ' || ch == '\t')) (l.drop n)
  have e : (l.drop n).all (fun ch => !(ch == ' ' || ch == '\t')) = !(l.drop n).any LeanMark.isSpTab := by
    simp [List.all_eq_not_any_not]
    congr 1
  rw [e] at key
  constructor
  · intro h1
    have : ((l.drop n).takeWhile (fun ch => !(ch == ' ' || ch == '\t'))).length = (l.drop n).length := by omega
    have := key.mp this
    simpa using this
  · intro h1
    have := key.mpr (by simp [h1])
    omega

end Verif.Model.ScanRules2
