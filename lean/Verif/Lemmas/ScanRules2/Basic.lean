import Verif.Model.ScanRules2.Spec
import Verif.Lemmas.ScanRules.Basic
/-
  Lemmas about the runs of a `Rule2`: congruence under a token view, the reset criterion, state functions (`byPrefix`), totality.
-/
namespace Verif.Model.ScanRules2
variable {Cfg St : Type}

/-- a rule whose `starting_new_file` assigns every field it has: the second file is scanned as if it were the first -/
theorem scanAfter_eq_scan_of_const (r : Rule2 Cfg St) (c : Cfg) (h : ∀ s s', r.start c s = r.start c s') (a b : File) :
    scanAfter r c a b = scan r c b := by
  unfold scanAfter scanFromState scan
  rw [h (stateAfter r c a) r.fresh]

/-- the token pass does not see a change of the tokens that `next` does not see -/
theorem runToks_view (r : Rule2 Cfg St) (c : Cfg) (v : Tk → Tk) (h : ∀ s t, r.next c s (v t) = r.next c s t)
    (s : St) (ts : List Tk) : runToks r c s (ts.map v) = runToks r c s ts := by
  induction ts generalizing s with
  | nil => rfl
  | cons t ts ih =>
    simp only [List.map_cons, runToks, h]
    cases r.next c s t with
    | error e => rfl
    | ok p => obtain ⟨s', rp⟩ := p; simp only [ih]

theorem scan_view (r : Rule2 Cfg St) (c : Cfg) (v : Tk → Tk) (h : ∀ s t, r.next c s (v t) = r.next c s t) (f : File) :
    scan r c ⟨f.toks.map v, f.lines⟩ = scan r c f := by
  unfold scan runFile
  simp only [runToks_view r c v h]

/-- a state that is a function `F` of the tokens seen, reports that are a function `g` of the tokens seen and the token -/
theorem runToks_byPrefix (r : Rule2 Cfg St) (c : Cfg) (F : List Tk → St) (g : List Tk → Tk → List Report)
    (h : ∀ seen t, r.next c (F seen) t = .ok (F (seen ++ [t]), g seen t)) (seen ts : List Tk) :
    runToks r c (F seen) ts = .ok (F (seen ++ ts), byPrefix g seen ts) := by
  induction ts generalizing seen with
  | nil => simp [runToks, byPrefix, splits]
  | cons t ts ih =>
    simp only [runToks, h, ih]
    simp [byPrefix, splits]

/-- the same with an invariant `P` of the part of the stream still to come (a guard of the stream) -/
theorem runToks_byPrefix_guard (r : Rule2 Cfg St) (c : Cfg) (F : List Tk → St) (g : List Tk → Tk → List Report)
    (P : List Tk → Tk → Prop)
    (h : ∀ seen t, P seen t → r.next c (F seen) t = .ok (F (seen ++ [t]), g seen t)) (seen ts : List Tk)
    (hp : ∀ p ∈ splits seen ts, P p.1 p.2) :
    runToks r c (F seen) ts = .ok (F (seen ++ ts), byPrefix g seen ts) := by
  induction ts generalizing seen with
  | nil => simp [runToks, byPrefix, splits]
  | cons t ts ih =>
    have h1 := h seen t (hp (seen, t) (by simp [splits]))
    have h2 := ih (seen ++ [t]) (fun p hm => hp p (by simp [splits, hm]))
    simp only [runToks, h1, h2]
    simp [byPrefix, splits]

/-- a rule without `next_line`: the line pass does nothing -/
theorem runLines_default (r : Rule2 Cfg St) (c : Cfg) (h : ∀ s n l, r.line c s n l = .ok (s, [])) (s : St) (n : Int)
    (ls : List Str) : runLines r c s n ls = .ok (s, []) := by
  induction ls generalizing n with
  | nil => rfl
  | cons l ls ih => simp [runLines, h, ih]

/-- scan of a token-only rule through a state function -/
theorem scan_byPrefix (r : Rule2 Cfg St) (c : Cfg) (F : List Tk → St) (g : List Tk → Tk → List Report)
    (hl : ∀ s n l, r.line c s n l = .ok (s, [])) (h0 : r.start c r.fresh = F [])
    (P : List Tk → Tk → Prop)
    (h : ∀ seen t, P seen t → r.next c (F seen) t = .ok (F (seen ++ [t]), g seen t)) (f : File)
    (hp : ∀ p ∈ splits [] f.toks, P p.1 p.2) :
    scan r c f = .ok (byPrefix g [] f.toks) := by
  unfold scan runFile
  rw [h0, runToks_byPrefix_guard r c F g P h [] f.toks hp]
  simp [reportsOf, runLines_default r c hl]

/-- every element of `splits` is a token of the stream with exactly the tokens before it -/
theorem mem_splits {seen ts : List Tk} {p : List Tk × Tk} (h : p ∈ splits seen ts) :
    ∃ pre post, ts = pre ++ p.2 :: post ∧ p.1 = seen ++ pre := by
  induction ts generalizing seen with
  | nil => simp [splits] at h
  | cons t ts ih =>
    simp only [splits, List.mem_cons] at h
    rcases h with h | h
    · subst h; exact ⟨[], ts, by simp, by simp⟩
    · obtain ⟨pre, post, h1, h2⟩ := ih h
      exact ⟨t :: pre, post, by simp [h1], by simp [h2]⟩

theorem mem_byPrefix {g : List Tk → Tk → List Report} {seen ts : List Tk} {x : Report} (h : x ∈ byPrefix g seen ts) :
    ∃ pre t post, ts = pre ++ t :: post ∧ x ∈ g (seen ++ pre) t := by
  simp only [byPrefix, List.mem_flatMap] at h
  obtain ⟨p, hp, hx⟩ := h
  obtain ⟨pre, post, h1, h2⟩ := mem_splits hp
  exact ⟨pre, p.2, post, h1, by rw [← h2]; exact hx⟩

/-- the token pass of a rule whose `next` never fails never fails -/
theorem runToks_total (r : Rule2 Cfg St) (c : Cfg) (h : ∀ s t, ∃ q, r.next c s t = .ok q) (s : St) (ts : List Tk) :
    ∃ q, runToks r c s ts = .ok q := by
  induction ts generalizing s with
  | nil => exact ⟨_, rfl⟩
  | cons t ts ih =>
    obtain ⟨⟨s', rp⟩, h1⟩ := h s t
    obtain ⟨⟨s'', rps⟩, h2⟩ := ih s'
    exact ⟨(s'', rp ++ rps), by simp [runToks, h1, h2]⟩

/-- … under an invariant of the state -/
theorem runToks_total_inv (r : Rule2 Cfg St) (c : Cfg) (I : St → Prop)
    (h : ∀ s t, I s → ∃ q, r.next c s t = .ok q ∧ I q.1) (s : St) (hs : I s) (ts : List Tk) :
    ∃ q, runToks r c s ts = .ok q ∧ I q.1 := by
  induction ts generalizing s with
  | nil => exact ⟨_, rfl, hs⟩
  | cons t ts ih =>
    obtain ⟨⟨s', rp⟩, h1, i1⟩ := h s t hs
    obtain ⟨⟨s'', rps⟩, h2, i2⟩ := ih s' i1
    exact ⟨(s'', rp ++ rps), by simp [runToks, h1, h2], i2⟩

theorem scan_total_of_tokens (r : Rule2 Cfg St) (c : Cfg) (hl : ∀ s n l, r.line c s n l = .ok (s, []))
    (f : File) (h : ∃ q, runToks r c (r.start c r.fresh) f.toks = .ok q) : ∃ rs, scan r c f = .ok rs := by
  obtain ⟨⟨s, rp⟩, hq⟩ := h
  exact ⟨rp, by simp [scan, runFile, hq, runLines_default r c hl, reportsOf]⟩

/-! ## `lastRel` / `inside` when one more token is seen -/
theorem lastRel_snoc (rel : K → Bool) (seen : List Tk) (t : Tk) :
    lastRel rel (seen ++ [t]) = if rel t.kind then some t else lastRel rel seen := by
  unfold lastRel
  by_cases h : rel t.kind <;> simp [List.filter_append, h]

theorem inside_snoc (a b : K → Bool) (seen : List Tk) (t : Tk) :
    inside a b (seen ++ [t]) = if a t.kind then true else if b t.kind then false else inside a b seen := by
  unfold inside
  rw [lastRel_snoc]
  by_cases h1 : a t.kind <;> by_cases h2 : b t.kind <;> simp [h1, h2]

theorem inside_nil (a b : K → Bool) : inside a b [] = false := rfl

end Verif.Model.ScanRules2
