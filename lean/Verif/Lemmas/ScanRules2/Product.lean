import Verif.Model.ScanRules2.Product
import Verif.Lemmas.ScanRules2.Basic
/-
  Several rules in one pass (`Rule2.prod`, both callbacks): when the reports of the two factors carry disjoint rule numbers, the joint
  report list (token pass, then line pass) splits into the two single-rule report lists, order kept.
-/
namespace Verif.Model.ScanRules2
variable {C1 S1 C2 S2 : Type}

/-- every report the rule makes (in `next_token` or in `next_line`) carries one of the numbers `ids` -/
def Tagged (ids : List Nat) {C S : Type} (r : Rule2 C S) : Prop :=
  (∀ c s t s' rp, r.next c s t = .ok (s', rp) → ∀ x ∈ rp, x.rule ∈ ids) ∧
  (∀ c s n l s' rp, r.line c s n l = .ok (s', rp) → ∀ x ∈ rp, x.rule ∈ ids)

theorem tagReps_ok {α : Type} {id : Nat} {a : Except Err (α × List Report)} {s : α} {rp : List Report}
    (h : tagReps id a = .ok (s, rp)) : ∀ x ∈ rp, x.rule ∈ [id] := by
  intro x hx
  cases a with
  | error e => cases h
  | ok p =>
    obtain ⟨s1, rp1⟩ := p
    simp only [tagReps, Except.ok.injEq, Prod.mk.injEq] at h
    obtain ⟨_, h2⟩ := h
    subst h2
    obtain ⟨y, _, rfl⟩ := List.mem_map.mp hx
    simp

theorem tagged_tag {C S : Type} (id : Nat) (r : Rule2 C S) : Tagged [id] (r.tag id) :=
  ⟨fun _ _ _ _ _ h => tagReps_ok h, fun _ _ _ _ _ _ h => tagReps_ok h⟩

theorem both_ok {a : Except Err (S1 × List Report)} {b : Except Err (S2 × List Report)} {u : S1 × S2} {rs : List Report}
    (h : both a b = .ok (u, rs)) : ∃ rp1 rp2, a = .ok (u.1, rp1) ∧ b = .ok (u.2, rp2) ∧ rs = rp1 ++ rp2 := by
  cases a with
  | error e => cases h
  | ok p =>
    obtain ⟨s1, rp1⟩ := p
    cases b with
    | error e => cases h
    | ok q =>
      obtain ⟨s2, rp2⟩ := q
      simp only [both, Except.ok.injEq, Prod.mk.injEq] at h
      obtain ⟨h1, h2⟩ := h
      subst h1 h2
      exact ⟨rp1, rp2, rfl, rfl, rfl⟩

theorem tagged_prod (ids1 ids2 : List Nat) (r1 : Rule2 C1 S1) (r2 : Rule2 C2 S2) (h1 : Tagged ids1 r1) (h2 : Tagged ids2 r2) :
    Tagged (ids1 ++ ids2) (r1 ⊗ r2) := by
  constructor
  · intro c s t s' rp h x hx
    obtain ⟨rp1, rp2, e1, e2, hr⟩ := both_ok (show both (r1.next c.1 s.1 t) (r2.next c.2 s.2 t) = .ok (s', rp) from h)
    subst hr
    rcases List.mem_append.mp hx with hx | hx
    · exact List.mem_append_left _ (h1.1 _ _ _ _ _ e1 x hx)
    · exact List.mem_append_right _ (h2.1 _ _ _ _ _ e2 x hx)
  · intro c s n l s' rp h x hx
    obtain ⟨rp1, rp2, e1, e2, hr⟩ := both_ok (show both (r1.line c.1 s.1 n l) (r2.line c.2 s.2 n l) = .ok (s', rp) from h)
    subst hr
    rcases List.mem_append.mp hx with hx | hx
    · exact List.mem_append_left _ (h1.2 _ _ _ _ _ _ e1 x hx)
    · exact List.mem_append_right _ (h2.2 _ _ _ _ _ _ e2 x hx)

/-- the share of one step in the filtered joint list -/
theorem filter_step (a : Nat) (ids : List Nat) (ha : a ∉ ids) (rp1 rp2 rest : List Report)
    (f1 : ∀ x ∈ rp1, x.rule ∈ [a]) (f2 : ∀ x ∈ rp2, x.rule ∈ ids) :
    ((rp1 ++ rp2) ++ rest).filter (fun x => x.rule == a) = rp1 ++ rest.filter (fun x => x.rule == a) ∧
    ((rp1 ++ rp2) ++ rest).filter (fun x => x.rule != a) = rp2 ++ rest.filter (fun x => x.rule != a) := by
  have g1 : ∀ x ∈ rp1, x.rule = a := fun x hx => by simpa using f1 x hx
  have g2 : ∀ x ∈ rp2, x.rule ≠ a := fun x hx e => ha (e ▸ f2 x hx)
  have a1 : rp1.filter (fun x => x.rule == a) = rp1 := List.filter_eq_self.mpr (fun x hx => by simp [g1 x hx])
  have a2 : rp2.filter (fun x => x.rule == a) = [] := List.filter_eq_nil_iff.mpr (fun x hx => by simp [g2 x hx])
  have b1 : rp1.filter (fun x => x.rule != a) = [] := List.filter_eq_nil_iff.mpr (fun x hx => by simp [g1 x hx])
  have b2 : rp2.filter (fun x => x.rule != a) = rp2 := List.filter_eq_self.mpr (fun x hx => by simp [g2 x hx])
  simp only [List.filter_append, a1, a2, b1, b2, List.append_nil, List.nil_append, and_self]

theorem runToks_prod (a : Nat) (ids : List Nat) (ha : a ∉ ids) (r1 : Rule2 C1 S1) (r2 : Rule2 C2 S2)
    (h1 : Tagged [a] r1) (h2 : Tagged ids r2) (c1 : C1) (c2 : C2) :
    ∀ (ts : List Tk) (s1 : S1) (s2 : S2) (u : S1 × S2) (rs : List Report),
      runToks (r1 ⊗ r2) (c1, c2) (s1, s2) ts = .ok (u, rs) →
      runToks r1 c1 s1 ts = .ok (u.1, rs.filter (fun x => x.rule == a)) ∧
      runToks r2 c2 s2 ts = .ok (u.2, rs.filter (fun x => x.rule != a)) := by
  intro ts
  induction ts with
  | nil =>
    intro s1 s2 u rs h
    simp only [runToks, Except.ok.injEq, Prod.mk.injEq] at h
    obtain ⟨hu, hr⟩ := h
    subst hu hr
    exact ⟨rfl, rfl⟩
  | cons t ts ih =>
    intro s1 s2 u rs h
    rw [runToks] at h
    have hn : (r1 ⊗ r2).next (c1, c2) (s1, s2) t = both (r1.next c1 s1 t) (r2.next c2 s2 t) := rfl
    rw [hn] at h
    cases e : both (r1.next c1 s1 t) (r2.next c2 s2 t) with
    | error e' => rw [e] at h; cases h
    | ok p =>
      obtain ⟨⟨u1, u2⟩, rp⟩ := p
      rw [e] at h
      simp only at h
      obtain ⟨rp1, rp2, e1, e2, hrp⟩ := both_ok e
      cases er : runToks (r1 ⊗ r2) (c1, c2) (u1, u2) ts with
      | error e' => rw [er] at h; cases h
      | ok q =>
        obtain ⟨u', rest⟩ := q
        rw [er] at h
        simp only [Except.ok.injEq, Prod.mk.injEq] at h
        obtain ⟨hu, hrs⟩ := h
        subst hu hrs hrp
        obtain ⟨i1, i2⟩ := ih u1 u2 u' rest er
        obtain ⟨k1, k2⟩ := filter_step a ids ha rp1 rp2 rest (h1.1 _ _ _ _ _ e1) (h2.1 _ _ _ _ _ e2)
        constructor
        · rw [runToks, e1]; simp only; rw [i1, k1]
        · rw [runToks, e2]; simp only; rw [i2, k2]

theorem runLines_prod (a : Nat) (ids : List Nat) (ha : a ∉ ids) (r1 : Rule2 C1 S1) (r2 : Rule2 C2 S2)
    (h1 : Tagged [a] r1) (h2 : Tagged ids r2) (c1 : C1) (c2 : C2) :
    ∀ (ls : List Str) (n : Int) (s1 : S1) (s2 : S2) (u : S1 × S2) (rs : List Report),
      runLines (r1 ⊗ r2) (c1, c2) (s1, s2) n ls = .ok (u, rs) →
      runLines r1 c1 s1 n ls = .ok (u.1, rs.filter (fun x => x.rule == a)) ∧
      runLines r2 c2 s2 n ls = .ok (u.2, rs.filter (fun x => x.rule != a)) := by
  intro ls
  induction ls with
  | nil =>
    intro n s1 s2 u rs h
    simp only [runLines, Except.ok.injEq, Prod.mk.injEq] at h
    obtain ⟨hu, hr⟩ := h
    subst hu hr
    exact ⟨rfl, rfl⟩
  | cons l ls ih =>
    intro n s1 s2 u rs h
    rw [runLines] at h
    have hn : (r1 ⊗ r2).line (c1, c2) (s1, s2) n l = both (r1.line c1 s1 n l) (r2.line c2 s2 n l) := rfl
    rw [hn] at h
    cases e : both (r1.line c1 s1 n l) (r2.line c2 s2 n l) with
    | error e' => rw [e] at h; cases h
    | ok p =>
      obtain ⟨⟨u1, u2⟩, rp⟩ := p
      rw [e] at h
      simp only at h
      obtain ⟨rp1, rp2, e1, e2, hrp⟩ := both_ok e
      cases er : runLines (r1 ⊗ r2) (c1, c2) (u1, u2) (n + 1) ls with
      | error e' => rw [er] at h; cases h
      | ok q =>
        obtain ⟨u', rest⟩ := q
        rw [er] at h
        simp only [Except.ok.injEq, Prod.mk.injEq] at h
        obtain ⟨hu, hrs⟩ := h
        subst hu hrs hrp
        obtain ⟨i1, i2⟩ := ih (n + 1) u1 u2 u' rest er
        obtain ⟨k1, k2⟩ := filter_step a ids ha rp1 rp2 rest (h1.2 _ _ _ _ _ _ e1) (h2.2 _ _ _ _ _ _ e2)
        constructor
        · rw [runLines, e1]; simp only; rw [i1, k1]
        · rw [runLines, e2]; simp only; rw [i2, k2]

/-- the joint pass of two rules with disjoint report numbers over one file: each rule's own scan is its share of the joint list -/
theorem scan_prod (a : Nat) (ids : List Nat) (ha : a ∉ ids) (r1 : Rule2 C1 S1) (r2 : Rule2 C2 S2)
    (h1 : Tagged [a] r1) (h2 : Tagged ids r2) (c1 : C1) (c2 : C2) (f : File) (rs : List Report)
    (h : scan (r1 ⊗ r2) (c1, c2) f = .ok rs) :
    scan r1 c1 f = .ok (rs.filter (fun x => x.rule == a)) ∧ scan r2 c2 f = .ok (rs.filter (fun x => x.rule != a)) := by
  unfold scan runFile at h
  have hs : (r1 ⊗ r2).start (c1, c2) (r1 ⊗ r2).fresh = (r1.start c1 r1.fresh, r2.start c2 r2.fresh) := rfl
  rw [hs] at h
  cases et : runToks (r1 ⊗ r2) (c1, c2) (r1.start c1 r1.fresh, r2.start c2 r2.fresh) f.toks with
  | error e => rw [et] at h; cases h
  | ok p =>
    obtain ⟨⟨u1, u2⟩, rp⟩ := p
    rw [et] at h
    simp only at h
    cases el : runLines (r1 ⊗ r2) (c1, c2) (u1, u2) 1 f.lines with
    | error e => rw [el] at h; cases h
    | ok q =>
      obtain ⟨u', rps⟩ := q
      rw [el] at h
      simp only [reportsOf, Except.ok.injEq] at h
      subst h
      obtain ⟨t1, t2⟩ := runToks_prod a ids ha r1 r2 h1 h2 c1 c2 f.toks _ _ _ _ et
      obtain ⟨l1, l2⟩ := runLines_prod a ids ha r1 r2 h1 h2 c1 c2 f.lines 1 _ _ _ _ el
      simp only [scan, runFile, t1, t2, l1, l2, reportsOf, List.filter_append, and_self]

theorem filter_ne_eq (a b : Nat) (h : a ≠ b) (l : List Report) :
    (l.filter (fun x => x.rule != a)).filter (fun x => x.rule == b) = l.filter (fun x => x.rule == b) := by
  rw [List.filter_filter]
  apply List.filter_congr
  intro x _
  by_cases e : x.rule = b
  · have : x.rule ≠ a := fun e' => h (e' ▸ e)
    simp [e]
    exact fun e' => this (e ▸ e')
  · simp [e]

theorem runToks_tagged {C S : Type} (ids : List Nat) (r : Rule2 C S) (ht : Tagged ids r) (c : C) :
    ∀ (ts : List Tk) (s u : S) (rs : List Report), runToks r c s ts = .ok (u, rs) → ∀ x ∈ rs, x.rule ∈ ids := by
  intro ts
  induction ts with
  | nil => intro s u rs h; simp only [runToks, Except.ok.injEq, Prod.mk.injEq] at h; rw [← h.2]; simp
  | cons t ts ih =>
    intro s u rs h
    rw [runToks] at h
    cases e : r.next c s t with
    | error e' => rw [e] at h; cases h
    | ok p =>
      obtain ⟨s', rp⟩ := p
      rw [e] at h
      simp only at h
      cases er : runToks r c s' ts with
      | error e' => rw [er] at h; cases h
      | ok q =>
        obtain ⟨u', rest⟩ := q
        rw [er] at h
        simp only [Except.ok.injEq, Prod.mk.injEq] at h
        rw [← h.2]
        intro x hx
        rcases List.mem_append.mp hx with hx | hx
        · exact ht.1 _ _ _ _ _ e x hx
        · exact ih _ _ _ er x hx

theorem runLines_tagged {C S : Type} (ids : List Nat) (r : Rule2 C S) (ht : Tagged ids r) (c : C) :
    ∀ (ls : List Str) (n : Int) (s u : S) (rs : List Report), runLines r c s n ls = .ok (u, rs) → ∀ x ∈ rs, x.rule ∈ ids := by
  intro ls
  induction ls with
  | nil => intro n s u rs h; simp only [runLines, Except.ok.injEq, Prod.mk.injEq] at h; rw [← h.2]; simp
  | cons l ls ih =>
    intro n s u rs h
    rw [runLines] at h
    cases e : r.line c s n l with
    | error e' => rw [e] at h; cases h
    | ok p =>
      obtain ⟨s', rp⟩ := p
      rw [e] at h
      simp only at h
      cases er : runLines r c s' (n + 1) ls with
      | error e' => rw [er] at h; cases h
      | ok q =>
        obtain ⟨u', rest⟩ := q
        rw [er] at h
        simp only [Except.ok.injEq, Prod.mk.injEq] at h
        rw [← h.2]
        intro x hx
        rcases List.mem_append.mp hx with hx | hx
        · exact ht.2 _ _ _ _ _ _ e x hx
        · exact ih _ _ _ _ er x hx

theorem scan_tagged {C S : Type} (ids : List Nat) (r : Rule2 C S) (ht : Tagged ids r) (c : C) (f : File) (rs : List Report)
    (h : scan r c f = .ok rs) : ∀ x ∈ rs, x.rule ∈ ids := by
  unfold scan runFile at h
  cases et : runToks r c (r.start c r.fresh) f.toks with
  | error e => rw [et] at h; cases h
  | ok p =>
    obtain ⟨u, rp⟩ := p
    rw [et] at h
    simp only at h
    cases el : runLines r c u 1 f.lines with
    | error e => rw [el] at h; cases h
    | ok q =>
      obtain ⟨u', rps⟩ := q
      rw [el] at h
      simp only [reportsOf, Except.ok.injEq] at h
      subst h
      intro x hx
      rcases List.mem_append.mp hx with hx | hx
      · exact runToks_tagged ids r ht c _ _ _ _ et x hx
      · exact runLines_tagged ids r ht c _ _ _ _ _ el x hx

/-! a tagged rule reports what the rule reports, with its number -/
def setRule (id : Nat) (rs : List Report) : List Report := rs.map (fun x => { x with rule := id })

theorem runToks_tag {C S : Type} (id : Nat) (r : Rule2 C S) (c : C) : ∀ (ts : List Tk) (s : S),
    runToks (r.tag id) c s ts = (runToks r c s ts).map (fun p => (p.1, setRule id p.2)) := by
  intro ts
  induction ts with
  | nil => intro _; rfl
  | cons t ts ih =>
    intro s
    rw [runToks, runToks]
    have hn : (r.tag id).next c s t = tagReps id (r.next c s t) := rfl
    rw [hn]
    cases r.next c s t with
    | error e => rfl
    | ok p =>
      obtain ⟨u, rp⟩ := p
      simp only [tagReps]
      rw [ih u]
      cases runToks r c u ts <;> simp [Except.map, setRule]

theorem runLines_tag {C S : Type} (id : Nat) (r : Rule2 C S) (c : C) : ∀ (ls : List Str) (n : Int) (s : S),
    runLines (r.tag id) c s n ls = (runLines r c s n ls).map (fun p => (p.1, setRule id p.2)) := by
  intro ls
  induction ls with
  | nil => intro _ _; rfl
  | cons l ls ih =>
    intro n s
    rw [runLines, runLines]
    have hn : (r.tag id).line c s n l = tagReps id (r.line c s n l) := rfl
    rw [hn]
    cases r.line c s n l with
    | error e => rfl
    | ok p =>
      obtain ⟨u, rp⟩ := p
      simp only [tagReps]
      rw [ih (n + 1) u]
      cases runLines r c u (n + 1) ls <;> simp [Except.map, setRule]

/-- alone and untagged: the same reports with rule number 0 -/
theorem scan_tag {C S : Type} (id : Nat) (r : Rule2 C S) (c : C) (f : File) :
    scan (r.tag id) c f = (scan r c f).map (setRule id) := by
  unfold scan runFile
  have hs : (r.tag id).start c (r.tag id).fresh = r.start c r.fresh := rfl
  rw [hs, runToks_tag]
  cases runToks r c (r.start c r.fresh) f.toks with
  | error e => rfl
  | ok p =>
    obtain ⟨u, rp⟩ := p
    simp only [Except.map]
    rw [runLines_tag]
    cases runLines r c u 1 f.lines <;> simp [Except.map, setRule, reportsOf]

end Verif.Model.ScanRules2
