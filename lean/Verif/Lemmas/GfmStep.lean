/-
  One token of the generator on a well-formed stream: what each handler returns (success, control fields, tags appended).
-/
import Verif.Lemmas.GfmOut
namespace Verif.Lemmas.GfmStep
open Verif.Model.GfmRender Verif.Model.GfmSpec Verif.Lemmas.GfmBasic Verif.Lemmas.GfmScan Verif.Lemmas.GfmOut
open Verif.Lemmas.GfmCalcTotal

/-- a handler that touches neither the stack nor the trailing / leading text: what it did to the output -/
structure Plain (st : St) (o : Out) (st1 : St) (o1 : Out) (δ : List TagEv) : Prop where
  stack : st1.stack = st.stack
  idx : st1.idx = st.idx
  tr : st1.trailing = none
  ld : st1.leading = none
  loose : st1.loose = st.loose
  tags : tagsOf o1 = tagsOf o ++ δ
  mono : flat o ≠ [] → flat o1 ≠ []

theorem stepTok_plain {ts : List Tok} {st : St} {o : Out} {t : Tok} {st1 : St} {o1 : Out} {δ : List TagEv}
    (h : applyTransformation ts st o t = .ok (st1, o1)) (hp : Plain st o st1 o1 δ) :
    stepTok ts (st, o) t = .ok ({ st1 with idx := st.idx + 1 }, o1) := by
  unfold stepTok
  simp only [h, bind, Except.bind, hp.tr, hp.ld, pure, Except.pure, hp.idx]

macro "plain_app" : tactic =>
  `(tactic| (refine ⟨rfl, rfl, rfl, rfl, rfl, ?_, ?_⟩
             · simp [tagsOf_append, tagsOf_optNL, tagsOf]
             · intro h; exact flat_ne_nil_append_left _ (by first | exact h | exact flat_ne_nil_append_left _ h)))

/-- δ leaves every tag stack as it is -/
def Neutral (δ : List TagEv) : Prop := ∀ S, tagRun S δ = some S

theorem neutral_nil : Neutral [] := fun _ => rfl
theorem neutral_pair (t : Tag) : Neutral [.opn t, .cls t] := fun S => by simp [tagRun]

theorem payloadOK_of_mem {ts : List Tok} (hP : PayloadOK ts) {t : Tok} (h : t ∈ ts) : payloadOK t = true := hP t h

theorem resolves_ok {s : Verif.Model.Codec.Str} (h : resolves s = true) : ∃ r, resolve s = .ok r := by
  unfold resolves at h
  cases hr : resolve s with
  | ok r => exact ⟨r, rfl⟩
  | error e => simp [hr] at h

/-- every point token except `li`: the handler succeeds (given `payloadOK`), appends a tag-neutral piece -/
theorem atom_step (ts : List Tok) (st : St) (o : Out) (t : Tok) (k : Kind) (hk : t.kind? = some k)
    (hst : Kind.isStart k = false) (hli : k ≠ .li)
    (hp : payloadOK t = true ∨ ∃ r, applyTransformation ts st o t = .ok r) :
    ∃ st1 o1 δ, applyTransformation ts st o t = .ok (st1, o1) ∧ Plain st o st1 o1 δ ∧ Neutral δ ∧
      st1.inLoose = st.inLoose := by
  obtain ⟨ln, b⟩ := t
  cases b <;> simp only [Tok.kind?, Body.kind?, Option.some.injEq, reduceCtorEq] at hk <;> subst hk <;>
    first
    | (simp [Kind.isStart, Kind.requiresEnd] at hst; done)
    | (exact absurd rfl hli)
    | skip
  case blank =>
    refine ⟨_, _, [], rfl, ?_, neutral_nil, rfl⟩
    refine ⟨rfl, rfl, rfl, rfl, rfl, ?_, ?_⟩
    · by_cases h : st.inHtml = true <;> simp [h, tagsOf_append, tagsOf]
    · intro h'
      by_cases h : st.inHtml = true
      · simp only [h, if_true]; exact flat_ne_nil_append_left _ h'
      · simpa [h] using h'
  case tbreak => exact ⟨_, _, [], rfl, by plain_app, neutral_nil, rfl⟩
  case lrd => exact ⟨_, _, [], rfl, ⟨rfl, rfl, rfl, rfl, rfl, by simp, id⟩, neutral_nil, rfl⟩
  case eos => exact ⟨_, _, [], rfl, ⟨rfl, rfl, rfl, rfl, rfl, by simp, id⟩, neutral_nil, rfl⟩
  case pragma => exact ⟨_, _, [], rfl, ⟨rfl, rfl, rfl, rfl, rfl, by simp, id⟩, neutral_nil, rfl⟩
  case frontMatter => exact ⟨_, _, [], rfl, ⟨rfl, rfl, rfl, rfl, rfl, by simp, id⟩, neutral_nil, rfl⟩
  case hardBreak => exact ⟨_, _, [], rfl, by plain_app, neutral_nil, rfl⟩
  case taskList c => exact ⟨_, _, [], rfl, by plain_app, neutral_nil, rfl⟩
  case image u a ti => exact ⟨_, _, [], rfl, by plain_app, neutral_nil, rfl⟩
  case uriAutolink s h => exact ⟨_, _, [.opn .a, .cls .a], rfl, by plain_app, neutral_pair _, rfl⟩
  case emailAutolink s => exact ⟨_, _, [.opn .a, .cls .a], rfl, by plain_app, neutral_pair _, rfl⟩
  case codeSpan s =>
    have hr : ∃ r, resolve s = .ok r := by
      rcases hp with hp | ⟨r0, h0⟩
      · simp only [payloadOK] at hp; exact resolves_ok hp
      · cases hres : resolve s with
        | ok r => exact ⟨r, rfl⟩
        | error e => simp [applyTransformation, hCodeSpan, hres, bind, Except.bind] at h0
    obtain ⟨r, hr⟩ := hr
    simp only [applyTransformation, hCodeSpan, hr, bind, Except.bind]
    exact ⟨_, _, [.opn .code, .cls .code], rfl, by plain_app, neutral_pair _, rfl⟩
  case rawHtml s =>
    have hr : ∃ r, resolve s = .ok r := by
      rcases hp with hp | ⟨r0, h0⟩
      · simp only [payloadOK] at hp; exact resolves_ok hp
      · cases hres : resolve s with
        | ok r => exact ⟨r, rfl⟩
        | error e => simp [applyTransformation, hRawHtml, hres, bind, Except.bind] at h0
    obtain ⟨r, hr⟩ := hr
    simp only [applyTransformation, hRawHtml, hr, bind, Except.bind]
    exact ⟨_, _, [], rfl, by plain_app, neutral_nil, rfl⟩
  case text tt ws ew =>
    cases ha : resolve tt with
    | error e =>
      exfalso
      rcases hp with hp | ⟨r0, h0⟩
      · simp [payloadOK, ha] at hp
      · simp [applyTransformation, hText, ha, bind, Except.bind] at h0
    | ok a =>
      simp only [applyTransformation, hText, ha, bind, Except.bind]
      by_cases c1 : st.inCode = true
      · simp only [c1, if_true]
        cases hl : resolve ws with
        | error e =>
          exfalso
          rcases hp with hp | ⟨r0, h0⟩
          · simp [payloadOK, resolves, hl] at hp
          · simp [applyTransformation, hText, ha, hl, c1, bind, Except.bind] at h0
        | ok l => exact ⟨_, _, [], rfl, by plain_app, neutral_nil, rfl⟩
      · simp only [c1, Bool.false_eq_true, if_false]
        by_cases c2 : st.inHtml = true
        · simp only [c2, if_true]
          cases hl : resolve ws with
          | error e =>
            exfalso
            rcases hp with hp | ⟨r0, h0⟩
            · simp [payloadOK, resolves, hl] at hp
            · simp [applyTransformation, hText, ha, hl, c1, c2, bind, Except.bind] at h0
          | ok l => exact ⟨_, _, [], rfl, by plain_app, neutral_nil, rfl⟩
        · simp only [c2, Bool.false_eq_true, if_false]
          by_cases c3 : st.inSetext = true
          · simp only [c3, if_true]
            exact ⟨_, _, [], rfl, by plain_app, neutral_nil, rfl⟩
          · simp only [c3, Bool.false_eq_true, if_false]
            cases hn : textNormal tt ew a with
            | error e =>
              exfalso
              rcases hp with hp | ⟨r0, h0⟩
              · simp [payloadOK, ha, hn] at hp
              · simp [applyTransformation, hText, ha, hn, c1, c2, c3, bind, Except.bind] at h0
            | ok s => exact ⟨_, _, [], rfl, by plain_app, neutral_nil, rfl⟩

/-! ### start tokens of leaf blocks, inline scopes and block quotes -/

/-- the tags a start token opens, innermost first -/
def openTags (st : St) (t : Tok) : List Tag :=
  match t.body with
  | .para => if st.inLoose then [.p] else []
  | .atx n => [.h n]
  | .setext ch => [setextTag ch]
  | .fcode _ => [.code, .pre]
  | .icode => [.code, .pre]
  | .emphasis ch len => [emphTag ch len]
  | .link .. => [.a]
  | .bquote _ => [.blockquote]
  | _ => []

theorem tagsOf_nil_of_isEmpty {o : Out} (h : (flat o).isEmpty = true) : tagsOf o = [] :=
  tagsOf_of_flat_nil o (by simpa using h)

theorem start_step (ts : List Tok) (st : St) (o : Out) (t : Tok) (k : Kind) (hk : t.kind? = some k)
    (hst : Kind.isStart k = true) (hnl : k ≠ .ulist ∧ k ≠ .olist) (hne : ts ≠ []) (hidx : st.idx ≤ ts.length) :
    ∃ st1 o1 δ, applyTransformation ts st o t = .ok (st1, o1) ∧ Plain st o st1 o1 δ ∧
      (∀ S, tagRun S δ = some (openTags st t ++ S)) ∧
      ((k = .bquote ∨ k = .fcode) → flat o1 ≠ []) ∧
      (k ≠ .bquote → st1.inLoose = st.inLoose) := by
  obtain ⟨ln, b⟩ := t
  obtain ⟨pv, hpv⟩ := pyGet_pred_ok ts st.idx hne hidx
  cases b <;> simp only [Tok.kind?, Body.kind?, Option.some.injEq, reduceCtorEq] at hk <;> subst hk <;>
    first
    | (simp [Kind.isStart, Kind.requiresEnd] at hst; done)
    | (simp at hnl; done)
    | skip
  case para =>
    refine ⟨_, _, (if st.inLoose then [.opn .p] else []), rfl, ?_, ?_, by simp, fun _ => rfl⟩
    · refine ⟨rfl, rfl, rfl, rfl, rfl, ?_, ?_⟩
      · by_cases h : st.inLoose = true <;> simp [h, tagsOf_append, tagsOf_optNL, tagsOf]
      · intro h; exact flat_ne_nil_append_left _ (flat_ne_nil_append_left _ h)
    · intro S; by_cases h : st.inLoose = true <;> simp [h, openTags, tagRun]
  case htmlBlock =>
    simp only [applyTransformation, hHtmlStart]
    by_cases c : ((flat o).isEmpty && stackTopEndsLi { st with trailing := none, leading := none }) = true
    · simp only [c, if_true]
      have he : (flat o).isEmpty = true := by simp only [Bool.and_eq_true] at c; exact c.1
      refine ⟨_, _, [], rfl, ⟨rfl, rfl, rfl, rfl, rfl, ?_, ?_⟩, fun _ => rfl, by simp, fun _ => rfl⟩
      · simp [tagsOf_nil_of_isEmpty he, tagsOf]
      · intro h; simp at he; exact absurd he h
    · simp only [c, Bool.false_eq_true, if_false, hpv, bind, Except.bind]
      exact ⟨_, _, [], rfl, by plain_app, fun _ => rfl, by simp, fun _ => rfl⟩
  case icode =>
    simp only [applyTransformation, hIcodeStart]
    by_cases c : ((flat o).isEmpty && stackTopEndsLi { st with trailing := none, leading := none }) = true
    · simp only [c, if_true]
      have he : (flat o).isEmpty = true := by simp only [Bool.and_eq_true] at c; exact c.1
      refine ⟨_, _, [.opn .pre, .opn .code], rfl, ⟨rfl, rfl, rfl, rfl, rfl, ?_, ?_⟩, fun _ => rfl, by simp, fun _ => rfl⟩
      · simp [tagsOf_nil_of_isEmpty he, tagsOf]
      · intro h; simp at he; exact absurd he h
    · simp only [c, Bool.false_eq_true, if_false]
      exact ⟨_, _, [.opn .pre, .opn .code], rfl, by plain_app, fun _ => rfl, by simp, fun _ => rfl⟩
  case atx n =>
    simp only [applyTransformation, hAtxStart, hpv, bind, Except.bind]
    exact ⟨_, _, [.opn (.h n)], rfl, by plain_app, fun _ => rfl, by simp, fun _ => rfl⟩
  case setext ch =>
    exact ⟨_, _, [.opn (setextTag ch)], rfl, by plain_app, fun _ => rfl, by simp, fun _ => rfl⟩
  case fcode info =>
    refine ⟨_, _, [.opn .pre, .opn .code], rfl, by plain_app, fun _ => rfl, ?_, fun _ => rfl⟩
    intro _
    apply flat_ne_nil_append_right
    simp [flat, Chunk.flat]
  case emphasis ch len =>
    exact ⟨_, _, [.opn (emphTag ch len)], rfl, by plain_app, fun _ => rfl, by simp, fun _ => rfl⟩
  case link u ti =>
    exact ⟨_, _, [.opn .a], rfl, by plain_app, fun _ => rfl, by simp, fun _ => rfl⟩
  case bquote bl =>
    refine ⟨_, _, [.opn .blockquote], rfl, by plain_app, fun _ => rfl, ?_, by simp⟩
    intro _
    apply flat_ne_nil_append_right
    simp [flat, Chunk.flat]


/-! ### end tokens of leaf blocks, inline scopes and block quotes -/

/-- the backward search of a heading / fenced-block end handler stops at the block's own start token -/
theorem scan_kind (ts : List Tok) (p : Tok → Bool) (a idx : Nat) (s : Tok) (hsa : ts[a]? = some s) (hp : p s = true)
    (hai : a < idx) (hidx : idx ≤ ts.length)
    (hb : ∀ m, a < m → m < idx → ∃ b, ts[m]? = some b ∧ p b = false) :
    scanDown ts p ((idx : Int) - 1) = .ok (a : Int) := by
  obtain ⟨r, hr, h1, h2, ⟨b, hb1, hb2⟩, _⟩ := scanDown_stop_sub ts p a idx 1 s hsa hp (by omega) (by omega)
  have hra : r = a := by
    rcases Nat.lt_or_ge a r with h | h
    · obtain ⟨b', hb', hpb'⟩ := hb r h (by omega)
      rw [hb1] at hb'; cases hb'
      rw [hb2] at hpb'; cases hpb'
    · omega
  subst hra
  simpa using hr

theorem end_step (ts : List Tok) (hG : GForest none 0 ts) (st : St) (o : Out) (s e : Tok) (k : Kind) (a : Nat) (f : Bool)
    (hk : s.kind? = some k) (hst : Kind.isStart k = true) (hnl : k ≠ .ulist ∧ k ≠ .olist)
    (he : e.body = .end_ k a f) (hsa : ts[a]? = some s) (hai : a < st.idx) (hidx : st.idx ≤ ts.length)
    (hbetween : (k = .atx ∨ k = .setext ∨ k = .fcode) → ∀ m, a < m → m < st.idx → ∃ b, ts[m]? = some b ∧ b.isKind k = false)
    (hout : (k = .bquote ∨ k = .fcode) → flat o ≠ []) :
    ∃ st1 o1 δ, applyTransformation ts st o e = .ok (st1, o1) ∧ Plain st o st1 o1 δ ∧
      (∀ S, tagRun (openTags st s ++ S) δ = some S) ∧ (k ≠ .bquote → st1.inLoose = st.inLoose) := by
  obtain ⟨le, be⟩ := e
  simp only at he; subst he
  obtain ⟨ls, bs⟩ := s
  cases bs <;> simp only [Tok.kind?, Body.kind?, Option.some.injEq, reduceCtorEq] at hk <;> subst hk <;>
    first
    | (simp [Kind.isStart, Kind.requiresEnd] at hst; done)
    | (simp at hnl; done)
    | skip
  case para =>
    refine ⟨_, _, (if st.inLoose then [.cls .p] else []), rfl, ?_, ?_, fun _ => rfl⟩
    · refine ⟨rfl, rfl, rfl, rfl, rfl, ?_, ?_⟩
      · by_cases h : st.inLoose = true <;> simp [h, tagsOf_append, tagsOf]
      · intro h'
        by_cases h : st.inLoose = true
        · simp only [h, if_true]; exact flat_ne_nil_append_left _ h'
        · simpa [h] using h'
    · intro S; by_cases h : st.inLoose = true <;> simp [h, openTags, tagRun]
  case htmlBlock =>
    exact ⟨_, _, [], rfl, ⟨rfl, rfl, rfl, rfl, rfl, by simp, id⟩, fun _ => rfl, fun _ => rfl⟩
  case icode =>
    exact ⟨_, _, [.cls .code, .cls .pre], rfl, by plain_app, fun S => by simp [openTags, tagRun], fun _ => rfl⟩
  case atx n =>
    have hs := scan_kind ts (fun t => t.isKind .atx) a st.idx _ hsa (by simp [Tok.isKind, Tok.kind?, Body.kind?]) hai hidx
      (hbetween (Or.inl rfl))
    simp only [applyTransformation, hAtxEnd, hs, bind, Except.bind, pyGet_nat ts a _ hsa]
    exact ⟨_, _, [.cls (.h n)], rfl, by plain_app, fun S => by simp [openTags, tagRun], fun _ => rfl⟩
  case setext ch =>
    have hs := scan_kind ts (fun t => t.isKind .setext) a st.idx _ hsa (by simp [Tok.isKind, Tok.kind?, Body.kind?]) hai hidx
      (hbetween (Or.inr (Or.inl rfl)))
    simp only [applyTransformation, hSetextEnd, hs, bind, Except.bind, pyGet_nat ts a _ hsa]
    exact ⟨_, _, [.cls (setextTag ch)], rfl, by plain_app, fun S => by simp [openTags, tagRun], fun _ => rfl⟩
  case fcode info =>
    have hs := scan_kind ts (fun t => t.isKind .fcode) a st.idx _ hsa (by simp [Tok.isKind, Tok.kind?, Body.kind?]) hai hidx
      (hbetween (Or.inr (Or.inr rfl)))
    have hne := hout (Or.inr rfl)
    simp only [applyTransformation, hFencedEnd, hs, bind, Except.bind, pyGet_nat ts a _ hsa]
    by_cases c1 : endsWith (flat o) (Chunk.opn .code (codeAttrs info)).flat = true
    · simp only [c1, Bool.not_true, Bool.false_eq_true, if_false]
      exact ⟨_, _, [.cls .code, .cls .pre], rfl, by plain_app, fun S => by simp [openTags, tagRun], fun _ => rfl⟩
    · simp only [c1, Bool.not_false, if_true]
      cases hl : (flat o).getLast? with
      | none => simp at hl; exact absurd hl hne
      | some c =>
        simp only
        by_cases c2 : (c != NL) = true
        · simp only [c2, if_true]
          exact ⟨_, _, [.cls .code, .cls .pre], rfl, by plain_app, fun S => by simp [openTags, tagRun], fun _ => rfl⟩
        · simp only [c2, Bool.false_eq_true, if_false]
          exact ⟨_, _, [.cls .code, .cls .pre], rfl, by plain_app, fun S => by simp [openTags, tagRun], fun _ => rfl⟩
  case emphasis ch len =>
    simp only [applyTransformation, hEmphEnd, hsa]
    exact ⟨_, _, [.cls (emphTag ch len)], rfl, by plain_app, fun S => by simp [openTags, tagRun], fun _ => rfl⟩
  case link u ti =>
    exact ⟨_, _, [.cls .a], rfl, by plain_app, fun S => by simp [openTags, tagRun], fun _ => rfl⟩
  case bquote bl =>
    have hne := hout (Or.inl rfl)
    obtain ⟨l, hl⟩ := Verif.Lemmas.GfmReset.reset_total hG { st with trailing := none, leading := none } st.idx
    simp only [applyTransformation, hBqEnd]
    cases hg : (flat o).getLast? with
    | none => simp at hg; exact absurd hg hne
    | some c =>
      simp only [hl, bind, Except.bind]
      exact ⟨_, _, [.cls .blockquote], rfl, by plain_app, fun S => by simp [openTags, tagRun], by simp⟩

end Verif.Lemmas.GfmStep
