/-
  `Safe` strings and the escaping functions of the HTML generator (core Lean only).

  * algebra of `Safe` (`Safe_append`, characters that need no escaping);
  * `uri_autolink_escapes`: the only handler that escapes (`__handle_uri_autolink`) produces a `Safe` href and a
    `Safe` link text, for every string;
  * `text_escape_safe`: what `InlineHelper.append_text(..., add_text_signature=True)` writes into a text token
    (`escapePieces`), resolved by `resolve_all_from_text`, is `htmlEscape` of the raw text, and that is `Safe`.
-/
import Verif.Model.GfmSpec
import Verif.Props.C02
namespace Verif.Lemmas.GfmEscape
open Verif.Model.GfmRender Verif.Model.GfmSpec
open Verif.Model.Codec (Str)

/-! ## `Safe` -/

/-- a character that needs no escaping -/
def okChar (c : Char) : Bool := !(c == '<' || c == '>' || c == '"' || c == '&')

theorem isPrefixOf_append_right {e a : Str} (b : Str) (h : e.isPrefixOf a = true) : e.isPrefixOf (a ++ b) = true := by
  induction e generalizing a with
  | nil => simp [List.isPrefixOf]
  | cons x e ih =>
    cases a with
    | nil => simp [List.isPrefixOf] at h
    | cons y a =>
      simp only [List.cons_append, List.isPrefixOf, Bool.and_eq_true] at h ⊢
      exact ⟨h.1, ih h.2⟩

theorem Safe_nil : Safe [] = true := rfl

theorem Safe_cons_ok {c : Char} {cs : Str} (hc : okChar c = true) : Safe (c :: cs) = Safe cs := by
  simp only [okChar, Bool.not_eq_true', Bool.or_eq_false_iff] at hc
  obtain ⟨⟨⟨h1, h2⟩, h3⟩, h4⟩ := hc
  simp [Safe, h1, h2, h3, h4]

theorem Safe_append {a b : Str} (ha : Safe a = true) (hb : Safe b = true) : Safe (a ++ b) = true := by
  induction a with
  | nil => simpa using hb
  | cons c cs ih =>
    simp only [List.cons_append]
    unfold Safe at ha ⊢
    split
    · rename_i h; simp [h] at ha
    · rename_i h
      simp only [h] at ha
      split
      · rename_i h2
        simp only [h2, if_true, Bool.false_eq_true, if_false, Bool.and_eq_true, List.any_eq_true] at ha ⊢
        obtain ⟨⟨e, he, hp⟩, hs⟩ := ha
        exact ⟨⟨e, he, isPrefixOf_append_right b hp⟩, ih hs⟩
      · rename_i h2
        simp only [h2, Bool.false_eq_true, if_false] at ha
        exact ih ha

/-- a string of characters none of which needs escaping -/
theorem Safe_of_all_ok : ∀ (s : Str), s.all okChar = true → Safe s = true
  | [], _ => rfl
  | c :: cs, h => by
    simp only [List.all_cons, Bool.and_eq_true] at h
    rw [Safe_cons_ok h.1]; exact Safe_of_all_ok cs h.2

theorem Safe_lt : Safe (lit "&lt;") = true := by decide
theorem Safe_gt : Safe (lit "&gt;") = true := by decide
theorem Safe_amp : Safe (lit "&amp;") = true := by decide
theorem Safe_quot : Safe (lit "&quot;") = true := by decide

/-! ## `htmlEscape` -/

theorem htmlEscape_cons (c : Char) (cs : Str) :
    htmlEscape (c :: cs) =
      (if c == '<' then lit "&lt;" else if c == '>' then lit "&gt;" else if c == '&' then lit "&amp;"
       else if c == '"' then lit "&quot;" else [c]) ++ htmlEscape cs := by
  simp [htmlEscape, escapeWith]

theorem Safe_htmlEscape : ∀ (s : Str), Safe (htmlEscape s) = true
  | [] => rfl
  | c :: cs => by
    rw [htmlEscape_cons]
    refine Safe_append ?_ (Safe_htmlEscape cs)
    split
    · exact Safe_lt
    · split
      · exact Safe_gt
      · split
        · exact Safe_amp
        · split
          · exact Safe_quot
          · rename_i h1 h2 h3 h4
            refine Safe_of_all_ok _ ?_
            simp only [List.all_cons, List.all_nil, Bool.and_true, okChar]
            simp only [Bool.not_eq_true] at h1 h2 h3 h4
            simp [h1, h2, h3, h4]

/-! ## `percentEncode ∘ uriPreEscape` -/

theorem percentEncode_append : ∀ (a b : Str), percentEncode (a ++ b) = percentEncode a ++ percentEncode b
  | [], b => rfl
  | c :: cs, b => by
    simp only [List.cons_append, percentEncode, percentEncode_append cs b, List.append_assoc]

theorem digitChar_upper_ok (k : Nat) (h : k < 16) : okChar (Nat.digitChar k).toUpper = true := by
  have : ∀ k : Fin 16, okChar (Nat.digitChar k.val).toUpper = true := by decide
  exact this ⟨k, h⟩

theorem toDigitsCore_ok (fuel n : Nat) (acc : List Char) (hacc : ∀ c ∈ acc, okChar c.toUpper = true) :
    ∀ c ∈ Nat.toDigitsCore 16 fuel n acc, okChar c.toUpper = true := by
  induction fuel generalizing n acc with
  | zero => simpa [Nat.toDigitsCore] using hacc
  | succ f ih =>
    have hacc' : ∀ c ∈ Nat.digitChar (n % 16) :: acc, okChar c.toUpper = true := by
      intro c hc
      rcases List.mem_cons.1 hc with rfl | hc
      · exact digitChar_upper_ok _ (Nat.mod_lt _ (by decide))
      · exact hacc c hc
    rw [Nat.toDigitsCore]
    split
    · exact hacc'
    · exact ih _ _ hacc'

theorem hexUpper_ok (n : Nat) : (hexUpper n).all okChar = true := by
  simp only [hexUpper, List.all_map, List.all_eq_true, Function.comp]
  intro c hc
  exact toDigitsCore_ok _ _ [] (by simp) c hc

theorem Safe_pctHex (n : Nat) : Safe ('%' :: hexUpper n) = true := by
  refine Safe_of_all_ok _ ?_
  simp only [List.all_cons, hexUpper_ok, Bool.and_true]; decide

theorem Safe_flatMap_pctHex : ∀ (bs : List Nat), Safe (bs.flatMap fun b => '%' :: hexUpper b) = true
  | [] => rfl
  | b :: bs => by
    simp only [List.flatMap_cons]
    exact Safe_append (Safe_pctHex b) (Safe_flatMap_pctHex bs)

/-- a single character that is not one of `< > &` percent-encodes to a `Safe` string (`"` becomes `%22`) -/
theorem Safe_percentEncode_single (c : Char) (h1 : (c == '<') = false) (h2 : (c == '>') = false)
    (h3 : (c == '&') = false) : Safe (percentEncode [c]) = true := by
  simp only [percentEncode, List.append_nil]
  split
  · exact Safe_pctHex _
  · split
    · exact Safe_flatMap_pctHex _
    · rename_i hp _
      refine Safe_of_all_ok _ ?_
      have h4 : (c == '"') = false := by
        cases hq : (c == '"') with
        | false => rfl
        | true =>
          have : c = '"' := by simpa using hq
          subst this
          exact absurd (by decide : percentChars.contains '"' = true) hp
      simp [okChar, h1, h2, h3, h4]

theorem uriPreEscape_cons (c : Char) (cs : Str) :
    uriPreEscape (c :: cs) =
      (if c == '<' then lit "&lt;" else if c == '>' then lit "&gt;" else if c == '&' then lit "&amp;" else [c])
        ++ uriPreEscape cs := by
  simp [uriPreEscape, escapeWith]

/-- the entities written by `uriPreEscape` survive the percent-encoding: it never touches `& ; a l t g m p` -/
theorem Safe_percentEncode_uriPreEscape : ∀ (s : Str), Safe (percentEncode (uriPreEscape s)) = true
  | [] => rfl
  | c :: cs => by
    rw [uriPreEscape_cons, percentEncode_append]
    refine Safe_append ?_ (Safe_percentEncode_uriPreEscape cs)
    split
    · decide
    · split
      · decide
      · split
        · decide
        · rename_i h1 h2 h3
          simp only [Bool.not_eq_true] at h1 h2 h3
          exact Safe_percentEncode_single c h1 h2 h3

/-- **The only handler that escapes does it right** (`__handle_uri_autolink`): for every autolink text, the value
written into `href` (`InlineHelper.append_text` with the map `< > &`, then the percent-encoding loop, optionally behind
`http://`) and the link text (`InlineHelper.append_text` with the default map) are `Safe`. -/
theorem uri_autolink_escapes (text : Str) (http : Bool) :
    Safe ((if http then lit "http://" else []) ++ percentEncode (uriPreEscape text)) = true
      ∧ Safe (htmlEscape text) = true := by
  refine ⟨Safe_append ?_ (Safe_percentEncode_uriPreEscape text), Safe_htmlEscape text⟩
  cases http
  · rfl
  · decide

/-! ## The escaping function on text, tied to the codec -/

open Verif.Model.Codec in
/-- what `InlineHelper.append_text(..., add_text_signature=True)` writes into a text token for the raw text `r`:
`< > & "` become replacement markers `\a c \a &…; \a`, every other character is copied. -/
def escapePieces : Str → List Piece
  | [] => []
  | c :: cs =>
    (if c == '<' then Piece.replaced [c] (lit "&lt;")
     else if c == '>' then Piece.replaced [c] (lit "&gt;")
     else if c == '&' then Piece.replaced [c] (lit "&amp;")
     else if c == '"' then Piece.replaced [c] (lit "&quot;")
     else Piece.lit c) :: escapePieces cs

open Verif.Model.Codec in
theorem escapePieces_markerFree : ∀ (r : Str), plain r = true → MarkerFree (escapePieces r)
  | [], _ => by simp [MarkerFree, escapePieces]
  | c :: cs, h => by
    have h' : (!isSpecial c) = true ∧ plain cs = true := by
      simpa [plain, List.all_cons, Bool.and_eq_true] using h
    have ih := escapePieces_markerFree cs h'.2
    simp only [MarkerFree, escapePieces, List.all_cons, Bool.and_eq_true] at ih ⊢
    refine ⟨?_, ih⟩
    have hp : plain [c] = true := by simp [plain, h'.1]
    split
    · simp only [Piece.markerFree, hp, Bool.true_and]; decide
    · split
      · simp only [Piece.markerFree, hp, Bool.true_and]; decide
      · split
        · simp only [Piece.markerFree, hp, Bool.true_and]; decide
        · split
          · simp only [Piece.markerFree, hp, Bool.true_and]; decide
          · simpa [Piece.markerFree] using h'.1

open Verif.Model.Codec in
theorem renderedOf_escapePieces : ∀ (r : Str), renderedOf (escapePieces r) = htmlEscape r
  | [] => rfl
  | c :: cs => by
    rw [htmlEscape_cons, escapePieces, renderedOf, renderedOf_escapePieces cs]
    congr 1
    split
    · rfl
    · split
      · rfl
      · split
        · rfl
        · split <;> rfl

/-- **Text escaping.**  For raw text `r` without in-band marker characters, the text token that
`InlineHelper.append_text` writes (`Codec.encode (escapePieces r)`) is resolved by `resolve_all_from_text` — what the
HTML generator applies to a text token — to `htmlEscape r`, and that string is `Safe`. -/
theorem text_escape_safe (r : Str) (h : Verif.Model.Codec.plain r = true) :
    resolve (Verif.Model.Codec.encode (escapePieces r)) = .ok (htmlEscape r) ∧ Safe (htmlEscape r) = true := by
  refine ⟨?_, Safe_htmlEscape r⟩
  simp only [resolve, Verif.Props.C02.resolve_encode _ (escapePieces_markerFree r h), renderedOf_escapePieces]

/-- non-vacuity: the raw text `a<b&"c` -/
example :
    Verif.Model.Codec.encode (escapePieces "a<b&\"c".toList)
        = "a\x07<\x07&lt;\x07b\x07&\x07&amp;\x07\x07\"\x07&quot;\x07c".toList
      ∧ htmlEscape "a<b&\"c".toList = "a&lt;b&amp;&quot;c".toList
      ∧ Verif.Model.Codec.plain "a<b&\"c".toList = true := by decide

end Verif.Lemmas.GfmEscape
