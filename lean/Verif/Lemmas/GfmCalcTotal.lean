/-
  `calculate_list_looseness` never raises on the body of a list of a well-formed stream.
-/
import Verif.Lemmas.GfmScan
namespace Verif.Lemmas.GfmCalcTotal
open Verif.Model.GfmRender Verif.Lemmas.GfmBasic Verif.Lemmas.GfmScan

/-- what the looseness walk needs to know about the stream around a list that starts at index `i` and whose end token
has index `hi`. -/
structure LCtx (ts : List Tok) (i hi : Nat) : Prop where
  start : ∃ s, ts[i]? = some s ∧ s.isListStart = true
  len : hi < ts.length
  depth : ∀ c, i < c → c ≤ hi → 0 ≤ cdepth ((ts.take c).drop (i + 1))
  ends : ∀ c ln kd p f, i < c → c ≤ hi → ts[c]? = some ⟨ln, .end_ kd p f⟩ →
    i ≤ p ∧ p < c ∧ ∃ s', ts[p]? = some s' ∧ s'.kind? = some kd
  noEos : ∀ c ln, i ≤ c → c ≤ hi → ts[c]? ≠ some ⟨ln, .eos⟩

theorem getElem?_of_lt {α : Type} (l : List α) (k : Nat) (h : k < l.length) : ∃ a, l[k]? = some a :=
  ⟨l[k], by simp [h]⟩

theorem take_split {ts : List Tok} {i r : Nat} {s : Tok} (hs : ts[i]? = some s) (hir : i < r) :
    ts.take r = ts.take i ++ s :: (ts.take r).drop (i + 1) := by
  have hlen : i < ts.length := (List.getElem?_eq_some_iff.mp hs).1
  have h2 : (ts.take r).take i = ts.take i := by rw [List.take_take]; congr 1; omega
  have hi' : i < (ts.take r).length := by simp; omega
  have h4 : (ts.take r)[i]? = some s := by rw [List.getElem?_take]; simp [hir, hs]
  have h3 : (ts.take r).drop i = s :: (ts.take r).drop (i + 1) := by
    rw [List.drop_eq_getElem_cons hi']
    congr 1
    exact (List.getElem?_eq_some_iff.mp h4).2
  calc ts.take r = (ts.take r).take i ++ (ts.take r).drop i := (List.take_append_drop i _).symm
    _ = ts.take i ++ s :: (ts.take r).drop (i + 1) := by rw [h2, h3]

theorem listStart_not {s : Tok} (h : s.isListStart = true) :
    s.isLrd = false ∧ s.isBlank = false ∧ s.isEndToken = false ∧ s.isBqEnd = false ∧ s.isListEnd = false ∧
    s.isBqStart = false := by
  obtain ⟨l, b⟩ := s
  cases b <;> simp_all [Tok.isListStart, Tok.isLrd, Tok.isBlank, Tok.isEndToken, Tok.isBqEnd, Tok.isListEnd, Tok.isBqStart,
    Tok.isKind, Tok.isEndOf, Tok.kind?, Body.kind?]

theorem isReallyLoose_total {ts : List Tok} {i hi : Nat} (h : LCtx ts i hi) (r : Nat) (h1 : i < r) (h2 : r ≤ hi) :
    ∃ b, isReallyLoose ts (r : Int) = .ok b := by
  obtain ⟨s, hs, hl⟩ := h.start
  unfold isReallyLoose
  simp only [Int.toNat_natCast]
  rw [reallyLooseLoop_eq ts r 0 (by have := h.len; omega), take_split hs h1]
  simp only [List.reverse_append, List.reverse_cons, List.append_assoc, List.singleton_append]
  apply rlList_total s hl
  have := h.depth r h1 h2
  simp only [List.reverse_reverse]
  omega

theorem isTokenLoose_total {ts : List Tok} {i hi : Nat} (h : LCtx ts i hi) (cur : Nat) (xx : Bool)
    (h1 : i < cur) (h2 : cur ≤ hi + 1) : ∃ b, isTokenLoose ts (cur : Int) xx = .ok b := by
  obtain ⟨s, hs, hl⟩ := h.start
  have hlen := h.len
  obtain ⟨hn1, hn2, _⟩ := listStart_not hl
  obtain ⟨r, hr, hr1, hr2, ⟨b, hb, _⟩, _⟩ :=
    scanDown_stop_sub ts (fun t => !t.isLrd) i cur 1 s hs (by simp [hn1]) (by omega) (by omega)
  unfold isTokenLoose
  simp only [Int.cast_ofNat_Int] at hr
  have hr' : scanDown ts (fun t => !t.isLrd) ((cur : Int) - 1) = .ok (r : Int) := by simpa using hr
  simp only [hr', bind, Except.bind, pyGet_nat ts r b hb]
  by_cases hbl : b.isBlank = true
  · simp only [hbl, if_true]
    have hri : i < r := by
      rcases Nat.lt_or_ge i r with h' | h'
      · exact h'
      · have : r = i := by omega
        subst this
        rw [hs] at hb
        cases hb
        rw [hn2] at hbl; cases hbl
    obtain ⟨p, hp⟩ := getElem?_of_lt ts (r - 1) (by omega)
    have : pyGet ts ((r : Int) - 1) = .ok p := by
      have := pyGet_sub ts r 1 (by omega) p hp
      simpa using this
    simp only [this]
    by_cases c1 : (p.isLi || p.isListStart) = true
    · simp only [c1, if_true]; exact ⟨false, rfl⟩
    · simp only [c1, Bool.false_eq_true, if_false]
      by_cases c2 : (p.isBqStart && xx) = true
      · simp only [c2, if_true]; exact ⟨false, rfl⟩
      · simp only [c2, Bool.false_eq_true, if_false]
        exact isReallyLoose_total h r hri (by omega)
  · simp only [hbl, Bool.false_eq_true, if_false]; exact ⟨false, rfl⟩


theorem isBqStart_body {t : Tok} (h : t.isBqStart = true) : ∃ bl, t.body = .bquote bl := by
  obtain ⟨l, b⟩ := t
  cases b <;> simp_all [Tok.isBqStart, Tok.isKind, Tok.kind?, Body.kind?]

theorem bqFind_found (ts : List Tok) (p : Nat) (bq : Tok) (hp : ts[p]? = some bq) (hb : bq.isBqStart = true) :
    ∀ (k : Nat) (nt : Tok), p < k → k ≤ ts.length → ts[k - 1]? = some nt →
      ∃ t', bqFind ts k nt = .ok t' ∧ t'.isBqStart = true := by
  intro k
  induction k with
  | zero => intro nt h; omega
  | succ s ih =>
    intro nt h1 h2 h3
    simp only [Nat.add_sub_cancel] at h3
    unfold bqFind
    by_cases hn : nt.isBqStart = true
    · simp only [hn, if_true]; exact ⟨nt, rfl, hn⟩
    · simp only [hn, Bool.false_eq_true, if_false]
      have hps : p < s := by
        rcases Nat.lt_or_ge p s with h' | h'
        · exact h'
        · have : s = p := by omega
          subst this
          rw [hp] at h3; cases h3
          exact absurd hb hn
      obtain ⟨nt', hnt'⟩ := getElem?_of_lt ts (s - 1) (by omega)
      have : pyGet ts ((s : Int) - 1) = .ok nt' := by
        have := pyGet_sub ts s 1 (by omega) nt' hnt'
        simpa using this
      simp only [this]
      exact ih nt' hps (by omega) hnt'

theorem bqEndCalc_total {ts : List Tok} {i hi : Nat} (h : LCtx ts i hi) (search idx : Nat)
    (h1 : i ≤ search) (h2 : search < idx) (h3 : idx ≤ hi) (cur : Tok) (hcur : ts[idx]? = some cur)
    (hbe : cur.isBqEnd = true) : ∃ b, bqEndCalc ts (search : Int) idx = .ok b := by
  have hlen := h.len
  unfold bqEndCalc
  have e1 : (search : Int) + 1 = ((search + 1 : Nat) : Int) := by omega
  obtain ⟨b, hb⟩ := isTokenLoose_total h (search + 1) true (by omega) (by omega)
  rw [e1]
  simp only [hb, bind, Except.bind]
  cases b with
  | false => exact ⟨false, by simp [pure, Except.pure]⟩
  | true =>
    simp only [if_true]
    obtain ⟨bt, hbt⟩ := getElem?_of_lt ts search (by omega)
    simp only [pyGet_nat ts search bt hbt, pyGet_nat ts idx cur hcur]
    -- the matching start of the block-quote end
    obtain ⟨ln, body⟩ := cur
    have hbody : ∃ p f, body = .end_ .bquote p f := by
      cases body <;> simp_all [Tok.isBqEnd, Tok.isEndOf]
    obtain ⟨p, f, rfl⟩ := hbody
    obtain ⟨hp1, hp2, s', hs', hk'⟩ := h.ends idx ln .bquote p f (by omega) h3 hcur
    have hs'bq : s'.isBqStart = true := by simp [Tok.isBqStart, Tok.isKind, hk']
    obtain ⟨t', ht', hbq'⟩ := bqFind_found ts p s' hs' hs'bq (idx + 1) ⟨ln, .end_ .bquote p f⟩ (by omega) (by omega)
      (by simpa using hcur)
    simp only [ht']
    obtain ⟨bl, hbl⟩ := isBqStart_body hbq'
    simp only [hbl]
    exact ⟨_, rfl⟩

theorem handleBqEnd_total {ts : List Tok} {i hi : Nat} (h : LCtx ts i hi) (idx : Nat) (h1 : i < idx) (h3 : idx ≤ hi)
    (cur : Tok) (hcur : ts[idx]? = some cur) (hbe : cur.isBqEnd = true) (sc : Int) (stop lo : Bool) :
    ∃ stop' lo', handleBqEnd ts sc idx stop lo = .ok (stop', lo', sc - 1) := by
  obtain ⟨s, hs, hl⟩ := h.start
  have hlen := h.len
  obtain ⟨_, _, hn3, hn4, hn5, _⟩ := listStart_not hl
  unfold handleBqEnd
  by_cases hc : (sc != 0 && sc - 1 == 0) = true
  · simp only [hc, if_true]
    obtain ⟨pv, hpv⟩ := getElem?_of_lt ts (idx - 1) (by omega)
    have e1 : pyGet ts ((idx : Int) - 1) = .ok pv := by
      have := pyGet_sub ts idx 1 (by omega) pv hpv
      simpa using this
    obtain ⟨r, hr, hr1, hr2, _, _⟩ :=
      scanDown_stop_sub ts (fun t => !(t.isEndToken && (t.isBqEnd || t.isListEnd))) i idx 1 s hs (by simp [hn3])
        (by omega) (by omega)
    have hr' : scanDown ts (fun t => !(t.isEndToken && (t.isBqEnd || t.isListEnd))) ((idx : Int) - 1) = .ok (r : Int) := by
      simpa using hr
    simp only [e1, hr', bind, Except.bind]
    obtain ⟨b, hb⟩ := bqEndCalc_total h r idx hr1 (by omega) h3 cur hcur hbe
    split
    · split
      · simp only [hb]; exact ⟨_, _, rfl⟩
      · exact ⟨_, _, rfl⟩
    · simp only [Bool.not_false, if_true, hb]; exact ⟨_, _, rfl⟩
  · simp only [hc, Bool.false_eq_true, if_false]; exact ⟨_, _, rfl⟩

theorem handleListEnd_total {ts : List Tok} {i hi : Nat} (h : LCtx ts i hi) (idx : Nat) (h1 : i < idx) (h3 : idx ≤ hi)
    (sc : Int) (lo : Bool) (hsc : idx < hi ∨ sc = 0) :
    ∃ stop lo', (handleListEnd ts sc lo idx = .ok (stop, lo', sc - 1) ∧ sc ≠ 0) ∨
      (handleListEnd ts sc lo idx = .ok (true, lo', sc) ∧ sc = 0) := by
  have hlen := h.len
  unfold handleListEnd
  by_cases h0 : sc = 0
  · subst h0; exact ⟨true, lo, Or.inr ⟨by simp [pure, Except.pure], rfl⟩⟩
  · have hlt : idx < hi := by rcases hsc with h' | h'; exact h'; exact absurd h' h0
    have : (sc == 0) = false := by simpa using h0
    simp only [this, Bool.false_eq_true, if_false]
    by_cases h1' : (sc - 1 == 0) = true
    · simp only [h1', if_true]
      have : idx + 1 < ts.length := by omega
      simp only [this, if_true]
      obtain ⟨nx, hnx⟩ := getElem?_of_lt ts (idx + 1) this
      simp only [hnx]
      by_cases hle : nx.isListEnd = true
      · simp only [hle, Bool.not_true, Bool.false_eq_true, if_false]
        exact ⟨false, lo, Or.inl ⟨by simp [pure, Except.pure], h0⟩⟩
      · simp only [hle, Bool.not_false, if_true]
        obtain ⟨b, hb⟩ := isTokenLoose_total h idx false h1 (by omega)
        simp only [hb, bind, Except.bind]
        exact ⟨b, b, Or.inl ⟨by simp [pure, Except.pure], h0⟩⟩
    · simp only [h1', Bool.false_eq_true, if_false]
      exact ⟨false, lo, Or.inl ⟨by simp [pure, Except.pure], h0⟩⟩

theorem handleBlankLine_total {ts : List Tok} {i hi : Nat} (h : LCtx ts i hi) (idx : Nat) (h1 : i < idx) (h3 : idx ≤ hi)
    (cur : Tok) (sc : Int) (pv : Tok) (hpv : ts[idx - 1]? = some pv) (hbl : pv.isBlank = true) :
    ∃ b, handleBlankLine ts cur sc idx = .ok b := by
  obtain ⟨s, hs, hl⟩ := h.start
  have hlen := h.len
  obtain ⟨_, hn2, _⟩ := listStart_not hl
  have hi1 : i < idx - 1 := by
    rcases Nat.lt_or_ge i (idx - 1) with h' | h'
    · exact h'
    · have : idx - 1 = i := by omega
      rw [this, hs] at hpv; cases hpv
      rw [hn2] at hbl; cases hbl
  obtain ⟨r, hr, hr1, hr2, ⟨pp, hpp, _⟩, _⟩ :=
    scanDown_stop_sub ts (fun t => !t.isBlank) i idx 2 s hs (by simp [hn2]) (by omega) (by omega)
  have hr' : scanDown ts (fun t => !t.isBlank) ((idx : Int) - 2) = .ok (r : Int) := by simpa using hr
  unfold handleBlankLine
  simp only [hr', bind, Except.bind, pyGet_nat ts r pp hpp]
  by_cases he : pp.isEndToken = true
  · simp only [he, if_true]
    obtain ⟨ln, body⟩ := pp
    cases body with
    | eos => exact absurd hpp (h.noEos r ln hr1 (by omega))
    | end_ kd p f =>
      simp only
      have hri : i < r := by
        rcases Nat.lt_or_ge i r with h' | h'
        · exact h'
        · have : r = i := by omega
          subst this
          rw [hs] at hpp; cases hpp
          obtain ⟨_, _, hn3, _⟩ := listStart_not hl
          simp [Tok.isEndToken] at hn3
      obtain ⟨_, hp2, s', hs', _⟩ := h.ends r ln kd p f hri (by omega) hpp
      simp only [hs']
      exact ⟨_, rfl⟩
    | _ => simp [Tok.isEndToken] at he
  · simp only [he, Bool.false_eq_true, if_false]
    exact ⟨_, rfl⟩


theorem cstep_cases (t : Tok) :
    (t.isListStart = true ∧ cstep t = 1) ∨
    (t.isListStart = false ∧ t.isLi = true ∧ cstep t = 0) ∨
    (t.isListStart = false ∧ t.isLi = false ∧ t.isBqStart = true ∧ cstep t = 1) ∨
    (t.isListStart = false ∧ t.isLi = false ∧ t.isBqStart = false ∧ t.isBqEnd = true ∧ cstep t = -1) ∨
    (t.isListStart = false ∧ t.isLi = false ∧ t.isBqStart = false ∧ t.isBqEnd = false ∧ t.isListEnd = true ∧ cstep t = -1) ∨
    (t.isListStart = false ∧ t.isLi = false ∧ t.isBqStart = false ∧ t.isBqEnd = false ∧ t.isListEnd = false ∧ cstep t = 0) := by
  obtain ⟨l, b⟩ := t
  cases b <;> try (simp [cstep, Tok.isListStart, Tok.isLi, Tok.isBqStart, Tok.isBqEnd, Tok.isListEnd, Tok.isKind, Tok.isEndOf, Tok.kind?, Body.kind?]; done)
  case end_ k p f =>
    cases k <;> simp [cstep, Tok.isListStart, Tok.isLi, Tok.isBqStart, Tok.isBqEnd, Tok.isListEnd, Tok.isKind, Tok.isEndOf, Tok.kind?, Body.kind?]

/-- one call of `__calculate_list_looseness_for_containers` on a token of the body (or on the list's own end token with
`stack_count = 0`) succeeds; unless it stops, the new stack count is the old one plus the token's container step. -/
theorem forContainers_total {ts : List Tok} {i hi : Nat} (h : LCtx ts i hi) (idx : Nat) (h1 : i < idx) (h3 : idx ≤ hi)
    (cur : Tok) (hcur : ts[idx]? = some cur) (sc : Int) (lo : Bool) (hsc : idx < hi ∨ (sc = 0 ∧ cur.isListEnd = true)) :
    ∃ check sc' stop lo', forContainers ts cur sc lo idx = .ok (check, sc', stop, lo') ∧
      ((stop = false ∧ sc' = sc + cstep cur) ∨ (stop = true ∧ check = false)) := by
  have hlen := h.len
  unfold forContainers
  rcases cstep_cases cur with ⟨a1, c⟩ | ⟨a1, a2, c⟩ | ⟨a1, a2, a3, c⟩ | ⟨a1, a2, a3, a4, c⟩ | ⟨a1, a2, a3, a4, a5, c⟩ |
    ⟨a1, a2, a3, a4, a5, c⟩
  · simp only [a1, if_true]
    exact ⟨_, _, _, _, rfl, Or.inl ⟨rfl, by omega⟩⟩
  · simp only [a1, a2, Bool.false_eq_true, if_false, if_true]
    exact ⟨_, _, _, _, rfl, Or.inl ⟨rfl, by omega⟩⟩
  · simp only [a1, a2, a3, Bool.false_eq_true, if_false, if_true]
    exact ⟨_, _, _, _, rfl, Or.inl ⟨rfl, by omega⟩⟩
  · simp only [a1, a2, a3, a4, Bool.false_eq_true, if_false, if_true]
    obtain ⟨stop', lo', hb⟩ := handleBqEnd_total h idx h1 h3 cur hcur a4 sc false lo
    simp only [hb, bind, Except.bind]
    refine ⟨_, _, _, _, rfl, ?_⟩
    cases stop'
    · exact Or.inl ⟨rfl, by omega⟩
    · exact Or.inr ⟨rfl, rfl⟩
  · simp only [a1, a2, a3, a4, a5, Bool.false_eq_true, if_false, if_true]
    have hsc' : idx < hi ∨ sc = 0 := by rcases hsc with h' | h'; exact Or.inl h'; exact Or.inr h'.1
    obtain ⟨stop', lo', hb | hb⟩ := handleListEnd_total h idx h1 h3 sc lo hsc'
    · simp only [hb.1, bind, Except.bind]
      refine ⟨_, _, _, _, rfl, ?_⟩
      cases stop'
      · exact Or.inl ⟨rfl, by omega⟩
      · exact Or.inr ⟨rfl, rfl⟩
    · simp only [hb.1, bind, Except.bind]
      exact ⟨_, _, _, _, rfl, Or.inr ⟨rfl, rfl⟩⟩
  · simp only [a1, a2, a3, a4, a5, Bool.false_eq_true, if_false]
    obtain ⟨pv, hpv⟩ := getElem?_of_lt ts (idx - 1) (by omega)
    have e1 : pyGet ts ((idx : Int) - 1) = .ok pv := by
      have := pyGet_sub ts idx 1 (by omega) pv hpv
      simpa using this
    simp only [e1, bind, Except.bind]
    by_cases hbl : pv.isBlank = true
    · simp only [hbl, if_true]
      obtain ⟨b, hb⟩ := handleBlankLine_total h idx h1 h3 cur sc pv hpv hbl
      simp only [hb]
      exact ⟨_, _, _, _, rfl, Or.inl ⟨rfl, by omega⟩⟩
    · simp only [hbl, Bool.false_eq_true, if_false]
      exact ⟨_, _, _, _, rfl, Or.inl ⟨rfl, by omega⟩⟩

/-- the `while True` loop, from any point inside the body: it returns before it runs off the stream. -/
theorem calcLoop_total {ts : List Tok} {i hi : Nat} (h : LCtx ts i hi) (e : Tok) (he : ts[hi]? = some e)
    (hle : e.isListEnd = true) (hbal : cdepth ((ts.take hi).drop (i + 1)) = 0) :
    ∀ (n : Nat) (idx : Nat) (lo : Bool), idx + n = hi → i < idx →
      ∃ b, calcLoop ts (ts.drop idx) idx (cdepth ((ts.take idx).drop (i + 1))) lo = .ok b := by
  intro n
  induction n with
  | zero =>
    intro idx lo hn hi'
    simp only [Nat.add_zero] at hn; subst hn
    have hd : ts.drop idx = e :: ts.drop (idx + 1) := by
      rw [List.drop_eq_getElem_cons h.len]; congr 1; exact (List.getElem?_eq_some_iff.mp he).2
    rw [hd, hbal]
    unfold calcLoop
    obtain ⟨check, sc', stop, lo', hf, hr⟩ := forContainers_total h idx hi' (Nat.le_refl _) e he 0 lo (Or.inr ⟨rfl, hle⟩)
    -- at the list's own end token the stack count is 0: `__handle_list_end` stops
    have : forContainers ts e 0 lo idx = .ok (false, 0, true, lo) := by
      unfold forContainers
      rcases cstep_cases e with ⟨a1, c⟩ | ⟨a1, a2, c⟩ | ⟨a1, a2, a3, c⟩ | ⟨a1, a2, a3, a4, c⟩ | ⟨a1, a2, a3, a4, a5, c⟩ |
        ⟨a1, a2, a3, a4, a5, c⟩
      · obtain ⟨l, b⟩ := e; cases b <;> simp_all [Tok.isListStart, Tok.isListEnd, Tok.isKind, Tok.isEndOf, Tok.kind?, Body.kind?]
      · obtain ⟨l, b⟩ := e; cases b <;> simp_all [Tok.isLi, Tok.isListEnd, Tok.isKind, Tok.isEndOf, Tok.kind?, Body.kind?]
      · obtain ⟨l, b⟩ := e; cases b <;> simp_all [Tok.isBqStart, Tok.isListEnd, Tok.isKind, Tok.isEndOf, Tok.kind?, Body.kind?]
      · obtain ⟨l, b⟩ := e
        cases b <;> simp_all [Tok.isBqEnd, Tok.isListEnd, Tok.isEndOf]
      · simp only [a1, a2, a3, a4, a5, Bool.false_eq_true, if_false, if_true]
        simp [handleListEnd, bind, Except.bind, pure, Except.pure]
      · rw [a5] at hle; cases hle
    rw [this]
    simp only [Bool.false_eq_true, if_false, if_true]
    exact ⟨lo, rfl⟩
  | succ n ih =>
    intro idx lo hn hi'
    have hlt : idx < hi := by omega
    have hlen := h.len
    obtain ⟨cur, hcur⟩ := getElem?_of_lt ts idx (by omega)
    have hd : ts.drop idx = cur :: ts.drop (idx + 1) := by
      rw [List.drop_eq_getElem_cons (by omega)]; congr 1; exact (List.getElem?_eq_some_iff.mp hcur).2
    rw [hd]
    unfold calcLoop
    obtain ⟨check, sc', stop, lo', hf, hr⟩ :=
      forContainers_total h idx hi' (by omega) cur hcur (cdepth ((ts.take idx).drop (i + 1))) lo (Or.inl hlt)
    rw [hf]
    simp only
    -- the stack count after this token
    have hnext : cdepth ((ts.take (idx + 1)).drop (i + 1)) = cdepth ((ts.take idx).drop (i + 1)) + cstep cur := by
      have : ts.take (idx + 1) = ts.take idx ++ [cur] := by
        rw [List.take_add_one, hcur]; rfl
      rw [this, List.drop_append_of_le_length (by simp; omega), cdepth_append]
      simp [cdepth]
    by_cases hc : check = true
    · simp only [hc, if_true]
      obtain ⟨b, hb⟩ := isTokenLoose_total h idx false hi' (by omega)
      rw [hb]
      simp only
      cases b with
      | true => exact ⟨true, by simp⟩
      | false =>
        simp only [Bool.false_eq_true, if_false]
        rcases hr with ⟨_, hsc⟩ | ⟨_, hcf⟩
        · rw [hsc, ← hnext]; exact ih (idx + 1) false (by omega) (by omega)
        · rw [hcf] at hc; cases hc
    · simp only [hc, Bool.false_eq_true, if_false]
      rcases hr with ⟨hst, hsc⟩ | ⟨hst, _⟩
      · simp only [hst, Bool.false_eq_true, if_false]
        rw [hsc, ← hnext]; exact ih (idx + 1) lo' (by omega) (by omega)
      · simp only [hst, if_true]; exact ⟨lo', rfl⟩


/-! ### the context facts, from the structure of a well-formed stream -/

theorem kind_end {t : Tok} {ln : Nat} {kd : Kind} {p : Nat} {f : Bool} (h : t = ⟨ln, .end_ kd p f⟩) : t.kind? = none := by
  subst h; rfl

/-- every end token of a forest points to a start token of its kind, inside the forest and before it -/
theorem forest_ends {par : Option Kind} {a : Nat} {F : List Tok} (h : GForest par a F) :
    ∀ j ln kd p f, F[j]? = some ⟨ln, .end_ kd p f⟩ →
      a ≤ p ∧ p < a + j ∧ ∃ s', F[p - a]? = some s' ∧ s'.kind? = some kd := by
  induction h with
  | nil => intro j ln kd p f hj; simp at hj
  | @atom par a t k rest hk _ _ _ ih =>
    intro j ln kd p f hj
    cases j with
    | zero =>
      simp only [List.getElem?_cons_zero, Option.some.injEq] at hj
      rw [kind_end hj] at hk; cases hk
    | succ j' =>
      simp only [List.getElem?_cons_succ] at hj
      obtain ⟨h1, h2, s', hs', hk'⟩ := ih j' ln kd p f hj
      refine ⟨by omega, by omega, s', ?_, hk'⟩
      have : p - a = (p - (a + 1)) + 1 := by omega
      rw [this, List.getElem?_cons_succ]; exact hs'
  | @node par a s k body e f' rest hk _ _ _ he _ ihb ihr =>
    intro j ln kd p f hj
    cases j with
    | zero =>
      simp only [List.getElem?_cons_zero, Option.some.injEq] at hj
      rw [kind_end hj] at hk; cases hk
    | succ j' =>
      simp only [List.getElem?_cons_succ] at hj
      rcases Nat.lt_or_ge j' body.length with hlt | hge
      · rw [List.getElem?_append_left hlt] at hj
        obtain ⟨h1, h2, s', hs', hk'⟩ := ihb j' ln kd p f hj
        refine ⟨by omega, by omega, s', ?_, hk'⟩
        have : p - a = (p - (a + 1)) + 1 := by omega
        rw [this, List.getElem?_cons_succ]
        have hlt2 : p - (a + 1) < body.length := by omega
        rw [List.getElem?_append_left hlt2]; exact hs'
      · rw [List.getElem?_append_right hge] at hj
        rcases Nat.eq_or_lt_of_le hge with heq | hgt
        · -- the end token of this node
          rw [← heq] at hj
          simp only [Nat.sub_self, List.getElem?_cons_zero, Option.some.injEq] at hj
          obtain ⟨le, be⟩ := e
          simp only at he
          subst he
          simp only [Tok.mk.injEq, Body.end_.injEq] at hj
          obtain ⟨_, rfl, rfl, _⟩ := hj
          exact ⟨Nat.le_refl _, by omega, s, by simp, hk⟩
        · have hj' : rest[j' - body.length - 1]? = some ⟨ln, .end_ kd p f⟩ := by
            have : j' - body.length = (j' - body.length - 1) + 1 := by omega
            rw [this, List.getElem?_cons_succ] at hj; exact hj
          obtain ⟨h1, h2, s', hs', hk'⟩ := ihr _ ln kd p f hj'
          refine ⟨by omega, by omega, s', ?_, hk'⟩
          have e1 : p - a = (p - a - 1) + 1 := by omega
          rw [e1, List.getElem?_cons_succ]
          have hge2 : body.length ≤ p - a - 1 := by omega
          rw [List.getElem?_append_right hge2]
          have e2 : p - a - 1 - body.length = (p - (a + 1 + body.length + 1)) + 1 := by omega
          rw [e2, List.getElem?_cons_succ]; exact hs'

/-- below any parent there is no `end-of-stream` token -/
theorem forest_noEos {par : Option Kind} {a : Nat} {F : List Tok} (h : GForest par a F) (hp : par.isSome = true) :
    ∀ t ∈ F, ∀ ln, t ≠ ⟨ln, .eos⟩ := by
  induction h with
  | nil => intro t ht; simp at ht
  | @atom par a t k rest hk _ ha _ ih =>
    intro t' ht' ln
    simp only [List.mem_cons] at ht'
    rcases ht' with rfl | ht'
    · intro heq
      subst heq
      simp only [Tok.kind?, Body.kind?, Option.some.injEq] at hk
      subst hk
      cases par <;> simp [atomOK, Kind.cls] at ha hp
    · exact ih hp t' ht' ln
  | @node par a s k body e f' rest hk hst _ _ he _ ihb ihr =>
    intro t' ht' ln
    simp only [List.mem_cons, List.mem_append] at ht'
    rcases ht' with rfl | ht' | rfl | ht'
    · intro heq
      subst heq
      simp only [Tok.kind?, Body.kind?, Option.some.injEq] at hk
      subst hk
      simp [Kind.isStart, Kind.requiresEnd] at hst
    · exact ihb rfl t' ht' ln
    · intro heq; subst heq; simp at he
    · exact ihr hp t' ht' ln

/-- **`calculate_list_looseness` is total on the lists of a well-formed stream.** -/
theorem calc_total (pre : List Tok) (s : Tok) (k : Kind) (body : List Tok) (e : Tok) (f : Bool) (rest : List Tok)
    (hk : s.kind? = some k) (hl : s.isListStart = true) (hb : GForest (some k) (pre.length + 1) body)
    (he : e.body = .end_ k pre.length f) :
    ∃ b, calculateListLooseness (pre ++ s :: (body ++ e :: rest)) pre.length = .ok b := by
  let ts := pre ++ s :: (body ++ e :: rest)
  let i := pre.length
  let hi := pre.length + 1 + body.length
  have hsi : ts[i]? = some s := by simp [ts, i]
  have hehi : ts[hi]? = some e := by
    simp only [ts, hi]
    rw [List.getElem?_append_right (by omega)]
    have : pre.length + 1 + body.length - pre.length = body.length + 1 := by omega
    rw [this, List.getElem?_cons_succ, List.getElem?_append_right (Nat.le_refl _)]; simp
  have hbodyget : ∀ j, j < body.length → ts[i + 1 + j]? = body[j]? := by
    intro j hj
    simp only [ts, i]
    rw [List.getElem?_append_right (by omega)]
    have : pre.length + 1 + j - pre.length = j + 1 := by omega
    rw [this, List.getElem?_cons_succ, List.getElem?_append_left hj]
  have htake : ∀ c, i < c → c ≤ hi → (ts.take c).drop (i + 1) = body.take (c - i - 1) := by
    intro c h1 h2
    have hm : c - pre.length = (c - i - 1) + 1 := by simp only [i] at *; omega
    have e1 : ts.take c = (pre ++ [s]) ++ body.take (c - i - 1) := by
      simp only [ts]
      rw [List.take_append, List.take_of_length_le (by simp only [i] at h1; omega), hm, List.take_succ_cons,
        List.take_append_of_le_length (by simp only [hi, i] at *; omega)]
      simp
    rw [e1, List.drop_left' (by simp [i])]
  have hle : e.isListEnd = true := by
    obtain ⟨le, be⟩ := e
    simp only at he; subst he
    obtain ⟨ls, bs⟩ := s
    cases bs <;> simp_all [Tok.isListStart, Tok.isListEnd, Tok.isKind, Tok.isEndOf, Tok.kind?, Body.kind?]
  have hctx : LCtx ts i hi := by
    refine ⟨⟨s, hsi, hl⟩, by simp [ts, hi]; omega, ?_, ?_, ?_⟩
    · intro c h1 h2
      rw [htake c h1 h2]
      exact cdepth_prefix hb _ (body.drop (c - i - 1)) (List.take_append_drop _ _).symm
    · intro c ln kd p f' h1 h2 hc
      rcases Nat.eq_or_lt_of_le h2 with heq | hlt
      · subst heq
        rw [hehi] at hc
        simp only [Option.some.injEq] at hc
        subst hc
        simp only [Body.end_.injEq] at he
        obtain ⟨rfl, rfl, _⟩ := he
        exact ⟨Nat.le_refl _, h1, s, hsi, hk⟩
      · have hj : c - i - 1 < body.length := by simp only [hi, i] at *; omega
        have hcc : c = i + 1 + (c - i - 1) := by omega
        rw [hcc, hbodyget _ hj] at hc
        obtain ⟨g1, g2, s', hs', hk'⟩ := forest_ends hb _ ln kd p f' hc
        refine ⟨by simp only [i]; omega, by omega, s', ?_, hk'⟩
        have hp : p = i + 1 + (p - (pre.length + 1)) := by simp only [i]; omega
        rw [hp, hbodyget _ (by simp only [i] at *; omega)]; exact hs'
    · intro c ln h1 h2 hc
      rcases Nat.eq_or_lt_of_le h1 with heq | hgt
      · subst heq
        rw [hsi] at hc
        simp only [Option.some.injEq] at hc
        subst hc
        simp [Tok.isListStart, Tok.isKind, Tok.kind?, Body.kind?] at hl
      · rcases Nat.eq_or_lt_of_le h2 with heq | hlt
        · subst heq
          rw [hehi] at hc
          simp only [Option.some.injEq] at hc
          subst hc; simp at he
        · have hj : c - i - 1 < body.length := by simp only [hi, i] at *; omega
          have hcc : c = i + 1 + (c - i - 1) := by omega
          rw [hcc, hbodyget _ hj] at hc
          exact forest_noEos hb rfl _ (List.mem_of_getElem? hc) ln rfl
  have hbal : cdepth ((ts.take hi).drop (i + 1)) = 0 := by
    rw [htake hi (by simp only [hi, i]; omega) (Nat.le_refl _)]
    have : hi - i - 1 = body.length := by simp only [hi, i]; omega
    rw [this, List.take_length]
    exact cdepth_forest hb
  have h0 : cdepth ((ts.take (i + 1)).drop (i + 1)) = 0 := by
    rw [List.drop_of_length_le (by rw [List.length_take]; exact Nat.min_le_left _ _)]; rfl
  obtain ⟨b, hb'⟩ := calcLoop_total hctx e hehi hle hbal (hi - (i + 1)) (i + 1) false (by simp only [hi, i]; omega) (by omega)
  rw [h0] at hb'
  exact ⟨b, hb'⟩

end Verif.Lemmas.GfmCalcTotal
