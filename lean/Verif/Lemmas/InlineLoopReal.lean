/-
  pymarkdown's handler table meets the loop's contract: one lemma per handler.
-/
import Verif.Lemmas.InlineLoopCons
import Verif.Lemmas.InlineRecogTick
namespace Verif.Model.InlineLoop
open Verif.Model.Recognisers (Str slice)
open Verif.Model

theorem rawHtmlNewlines_nil : rawHtmlNewlines [] = 0 := rfl

theorem plain_respOK (q : Request) (ns : Str) (ni : Nat) (d : Int) (h : q.next < ni) (hd : 0 ≤ d) :
    RespOK q (Response.plain q ns ni d) :=
  ⟨⟨ni, rfl, h⟩, Or.inr rfl, (by intro o ho; cases ho), (by intro hh; exact absurd hh (by simp only [Response.plain]; omega)), rfl,
    (by intro _ _; exact Nat.zero_le _)⟩

theorem control_respOK {q : Request} {r : Response} (h : controlHandler q = .ok r) : RespOK q r := by
  unfold controlHandler at h
  split at h
  · cases h
  · injection h with h; subst h; exact plain_respOK q _ _ 1 (Nat.lt_succ_self _) (by decide)

theorem bracket_respOK {q : Request} {r : Response} (len : Nat) (hl : 1 ≤ len) (h : bracketHandler len q = .ok r) : RespOK q r := by
  unfold bracketHandler at h
  injection h with h; subst h
  exact ⟨⟨_, rfl, by omega⟩, Or.inr rfl, (by intro o ho; cases ho), (by intro hh; simp only at hh; omega), rfl,
    (by intro _ _; simp [rawHtmlNewlines])⟩

theorem bang_respOK {q : Request} {r : Response} (h : bangHandler q = .ok r) : RespOK q r := by
  unfold bangHandler at h
  split at h
  · exact bracket_respOK 2 (by decide) h
  · injection h with h; subst h; exact plain_respOK q _ _ 1 (Nat.lt_succ_self _) (by decide)

theorem emphasis_respOK {q : Request} {r : Response} {c : Char} (hc : q.src[q.next]? = some c)
    (h : emphasisHandler c q = .ok r) : RespOK q r := by
  have hlt : q.next < q.src.length := by
    by_cases hl : q.next < q.src.length
    · exact hl
    · rw [List.getElem?_eq_none (by omega)] at hc; cases hc
  unfold emphasisHandler at h
  rw [Recognisers.collectWhileCharVerified_eq _ _ _ (Nat.le_of_lt hlt)] at h
  simp only at h
  injection h with h; subst h
  have hgt : q.next < Recognisers.scanTo q.src (· == c) q.next := by
    apply InlineRecog.scanTo_gt hlt
    rw [List.getElem?_eq_getElem hlt] at hc; injection hc with hc; rw [hc]; simp
  exact ⟨⟨_, rfl, hgt⟩, Or.inr rfl, (by intro o ho; cases ho), (by intro hh; simp only at hh; omega), rfl,
    (by intro _ _; simp [rawHtmlNewlines])⟩

theorem backslash_respOK {q : Request} {r : Response} (hc : q.src[q.next]? = some '\\')
    (h : backslashHandler q = .ok r) : RespOK q r := by
  have hlt : q.next < q.src.length := by
    by_cases hl : q.next < q.src.length
    · exact hl
    · rw [List.getElem?_eq_none (by omega)] at hc; cases hc
  have hc' : q.src[q.next] = '\\' := by rw [List.getElem?_eq_getElem hlt] at hc; injection hc
  obtain ⟨b, hb, hgt, _, _⟩ := InlineRecog.handleInlineBackslash_ok q.src q.next true hlt hc'
  unfold backslashHandler at h
  rw [hb] at h; simp only at h
  injection h with h; subst h
  exact ⟨⟨_, rfl, hgt⟩, Or.inr rfl, (by intro o ho; cases ho), (by intro hh; simp only at hh; omega), rfl,
    (by intro _ _; simp [rawHtmlNewlines])⟩

/-- a recognised character reference: `new_string_unresolved` is `original_string` (the loop asserts it) -/
theorem charref_unres {src : Str} {next : Nat} {r : InlineRecog.CharRefRes} (hlt : next < src.length) (hc : src[next] = '&')
    (h : InlineRecog.handleCharacterReference src next = .ok r) : ∀ o, r.original = some o → r.unresolved = some o := by
  intro o ho
  have hout := InlineRecog.handleCharacterReference_ok src next hlt hc
  rw [h] at hout
  rcases hout with ⟨r', hr', hgt, _, horig, _⟩ | hbad
  · injection hr' with hr'; subst hr'
    have ho' := horig o ho
    unfold InlineRecog.handleCharacterReference at h
    simp only at h
    split at h
    · cases h
    · split at h
      · cases h
      · injection h with h
        subst h
        simp only at ho ho' hgt ⊢
        rw [ho', InlineLoop.slice_cons src hlt hgt, hc]
    · unfold InlineRecog.namedReference at h
      repeat' split at h
      all_goals first
        | (injection h with h; subst h; simp_all; done)
        | (cases h; done)
  · cases hbad

theorem charref_respOK {q : Request} {r : Response} (hc : q.src[q.next]? = some '&')
    (h : charRefHandler q = .ok r) : RespOK q r := by
  have hlt : q.next < q.src.length := by
    by_cases hl : q.next < q.src.length
    · exact hl
    · rw [List.getElem?_eq_none (by omega)] at hc; cases hc
  have hc' : q.src[q.next] = '&' := by rw [List.getElem?_eq_getElem hlt] at hc; injection hc
  unfold charRefHandler at h
  cases hh : InlineRecog.handleCharacterReference q.src q.next with
  | error e => rw [hh] at h; cases h
  | ok cr =>
    rw [hh] at h; simp only at h
    have hout := InlineRecog.handleCharacterReference_ok q.src q.next hlt hc'
    rw [hh] at hout
    rcases hout with ⟨r', hr', hgt, _, _, _⟩ | hbad
    · injection hr' with hr'; subst hr'
      have hun := charref_unres hlt hc' hh
      split at h
      · cases h
      · injection h with h; subst h
        exact ⟨⟨_, rfl, hgt⟩, Or.inr rfl, (by intro o ho; exact Or.inr (hun o ho)), (by intro hx; simp only at hx; omega), rfl,
          (by intro _ _; simp [rawHtmlNewlines])⟩
    · cases hbad

/-- `calculate_deltas`: a negative column delta comes with a line delta -/
theorem calculateDeltas_reset {t : Str} {dl : Nat} {dc : Int} (h : InlineRecog.calculateDeltas t = .ok (dl, dc)) (hn : dc < 0) :
    dl ≠ 0 := by
  unfold InlineRecog.calculateDeltas at h
  split at h
  · next hc =>
    have hmem : NL ∈ t := by simpa [NL] using hc
    have hlen : (InlineRecog.splitNl t []).length = countNl t + 1 := splitNl_go_length t []
    have := countNl_pos_of_mem hmem
    simp only at h
    repeat' split at h
    all_goals first
      | (cases h; done)
      | (injection h with h; simp only [Prod.mk.injEq] at h; omega)
  · injection h with h
    simp only [Prod.mk.injEq] at h
    omega

theorem backtick_deltas {src : Str} {next : Nat} {r : InlineRecog.TickRes} (h : InlineRecog.handleInlineBacktick src next = .ok r) :
    (r.dLine = 0 ∧ r.dCol = (r.newIndex : Int) - (next : Int)) ∨ ∃ t, InlineRecog.calculateDeltas t = .ok (r.dLine, r.dCol) := by
  unfold InlineRecog.handleInlineBacktick at h
  repeat' split at h
  all_goals first
    | (cases h; done)
    | (injection h with h; subst h; exact Or.inl ⟨rfl, rfl⟩)
    | (injection h with h; subst h; exact Or.inr ⟨_, by assumption⟩)

theorem backtick_respOK {q : Request} {r : Response} (hc : q.src[q.next]? = some '`') (hal : Codec.AL ∉ q.src)
    (h : backtickHandler q = .ok r) : RespOK q r := by
  have hlt : q.next < q.src.length := by
    by_cases hl : q.next < q.src.length
    · exact hl
    · rw [List.getElem?_eq_none (by omega)] at hc; cases hc
  have hc' : q.src[q.next] = '`' := by rw [List.getElem?_eq_getElem hlt] at hc; injection hc
  obtain ⟨tr, htr, hgt, _, _, _⟩ := InlineRecog.handleInlineBacktick_ok q.src q.next hlt hc' hal
  have hd := backtick_deltas htr
  unfold backtickHandler at h
  rw [htr] at h; simp only at h
  injection h with h; subst h
  refine ⟨⟨_, rfl, hgt⟩, Or.inr rfl, (by intro o ho; cases ho), ?_, rfl, ?_⟩
  · intro hx
    simp only at hx ⊢
    rcases hd with ⟨_, h2⟩ | ⟨t, ht⟩
    · rw [h2] at hx; omega
    · have := calculateDeltas_reset ht hx
      omega
  · intro _ _
    simp only
    cases tr.span with
    | none => simp [rawHtmlNewlines]
    | some p =>
      obtain ⟨a, b, c, d⟩ := p
      simp only [rawHtmlNewlines, List.getLast?_singleton]
      have : (ICODE == RAW_HTML) = false := by decide
      simp [this]

/-! ## raw HTML: recombining the tag with the paragraph's white space adds no line break -/

theorem countNl_joinNl : ∀ (ls : List Str), (∀ l ∈ ls, NL ∉ l) → ls ≠ [] → countNl (joinNl ls) + 1 = ls.length
  | [], _, h => absurd rfl h
  | [a], h, _ => by simp [joinNl, countNl_zero_of_not_mem (h a (by simp))]
  | a :: b :: r, h, _ => by
    have ih := countNl_joinNl (b :: r) (fun l hl => h l (List.mem_cons_of_mem _ hl)) (by simp)
    have h0 := countNl_zero_of_not_mem (h a (by simp))
    simp only [joinNl, countNl_append, countNl_cons_nl, List.length_cons] at ih ⊢
    omega

theorem recombineLines_props (wsLines : List Str) (marker : Bool) (hws : ∀ w ∈ wsLines, NL ∉ w) :
    ∀ (ls : List Str) (i : Nat) (r : List Str) (j : Nat), (∀ l ∈ ls, NL ∉ l) → recombineLines wsLines marker ls i = .ok (r, j) →
      r.length = ls.length ∧ ∀ l ∈ r, NL ∉ l
  | [], i, r, j, _, h => by
    simp only [recombineLines] at h; injection h with h; injection h with h1 _; subst h1; exact ⟨rfl, by simp⟩
  | l :: ls, i, r, j, hl, h => by
    rw [recombineLines] at h
    split at h
    · cases h
    · next ew hew =>
      simp only at h
      split at h
      · cases h
      · next r' j' hr =>
        injection h with h; injection h with h1 _; subst h1
        obtain ⟨g1, g2⟩ := recombineLines_props wsLines marker hws ls (i + 1) r' j' (fun x hx => hl x (List.mem_cons_of_mem _ hx)) hr
        refine ⟨by simp [g1], ?_⟩
        intro x hx
        simp only [List.mem_cons] at hx
        rcases hx with hx | hx
        · subst hx
          have hew' : NL ∉ ew := hws ew (List.mem_of_getElem? hew)
          have hl0 : NL ∉ l := hl l (by simp)
          split
          · simp only [Codec.replaceWithNothing, List.mem_append, List.mem_cons, not_or]
            refine ⟨⟨by decide, ?_⟩, hl0⟩
            simp only [List.mem_append, List.mem_cons, List.not_mem_nil, or_false, not_or]
            exact ⟨hew', by decide, by decide, by decide⟩
          · simp only [List.mem_append, not_or]; exact ⟨hew', hl0⟩
        · exact g2 x hx

theorem recombineL_countNl {text : Str} {ws : List Str} {start : Nat} {marker : Bool} {t : Str} {j : Nat}
    (hws : ∀ w ∈ ws, NL ∉ w) (h : recombineL text ws start marker = .ok (t, j)) : countNl t = countNl text := by
  unfold recombineL at h
  have hlen := splitNl_length text
  have hno := splitNl_no_nl text
  split at h
  · next he => rw [he] at hlen; simp at hlen
  · next first rest he =>
    rw [he] at hlen hno
    split at h
    · cases h
    · next r j' hr =>
      injection h with h; injection h with h1 _; subst h1
      obtain ⟨g1, g2⟩ := recombineLines_props ws marker hws rest start r j' (fun l hl => hno l (List.mem_cons_of_mem _ hl)) hr
      have := countNl_joinNl (first :: r) (by
        intro l hl
        simp only [List.mem_cons] at hl
        rcases hl with hl | hl
        · subst hl; exact hno _ (by simp)
        · exact g2 l hl) (by simp)
      simp only [List.length_cons] at this hlen
      omega

theorem angle_respOK {q : Request} {r : Response} (hc : q.src[q.next]? = some '<')
    (hcr : InlineRecog.COMMENT_CRASH.isPrefixOf (q.src.drop (q.next + 1)) = false) (hq : ReqOK q)
    (h : angleHandler q = .ok r) : RespOK q r := by
  have hlt : q.next < q.src.length := by
    by_cases hl : q.next < q.src.length
    · exact hl
    · rw [List.getElem?_eq_none (by omega)] at hc; cases hc
  have hc' : q.src[q.next] = '<' := by rw [List.getElem?_eq_getElem hlt] at hc; injection hc
  obtain ⟨o, ho, hb⟩ := InlineRecog.angleFind_ok q.src q.next hlt hc' hcr
  unfold angleHandler at h
  rw [ho] at h
  cases o with
  | none =>
    simp only at h
    split at h
    · cases h
    · next dl dc hd =>
      injection h with h; subst h
      exact ⟨⟨_, rfl, Nat.lt_succ_self _⟩, Or.inr rfl, (by intro o ho; cases ho),
        (by intro hx; simp only at hx ⊢; have := calculateDeltas_reset hd hx; omega), rfl, (by intro _ _; simp [rawHtmlNewlines])⟩
  | some p =>
    obtain ⟨k, b, ci⟩ := p
    obtain ⟨_, hci, _, hsl⟩ := hb k b ci rfl
    simp only at h
    split at h
    · cases h
    · next txt reh hrc =>
      split at h
      · cases h
      · next dl dc hd =>
        injection h with h; subst h
        have hcnt : countNl txt = countNl b := by
          split at hrc
          · exact recombineL_countNl (hq _ (by assumption)) hrc
          · injection hrc with hrc; injection hrc with h1 _; rw [h1]
        refine ⟨⟨_, rfl, by omega⟩, Or.inr rfl, (by intro o ho; cases ho),
          (by intro hx; simp only at hx ⊢; have := calculateDeltas_reset hd hx; omega), rfl, ?_⟩
        intro ni hni
        simp only [Option.some.injEq] at hni
        subst hni
        simp only [rawHtmlNewlines, List.getLast?_singleton, List.headD_cons]
        rw [← hsl]
        have : countNl ('<' :: b ++ ['>']) = countNl b := by
          unfold countNl; simp [NL]
        rw [this, hcnt]
        split <;> omega

/-! ## the table of the default configuration -/

theorem realTable_handler_some (oracle : Nat → Option Response) (c : Char) (hc : realStarts.contains c = true) (hn : c ≠ NL) :
    ((realTable oracle).handler c).isSome = true := by
  simp only [realStarts, List.contains_cons, List.contains_nil, Bool.or_false, Bool.or_eq_true, beq_iff_eq] at hc
  rcases hc with h | h | h | h | h | h | h | h | h | h | h | h | h | h | h
  all_goals first
    | exact absurd h hn
    | (subst h; rfl)

/-- **the table of the default configuration meets the loop's contract** on every text without U+0007 and without `<!---->`-like
comment openers (the two excluded points of the recogniser theorems, `Props/InlineRecog.lean`), provided the answers of the
link-close handler `]` (the oracle; `LinkSearchHelper.look_for_link_or_image` is not modelled) meet `RespOK` — which the
correspondence check audits on every recorded answer. -/
theorem realTable_tableOK (oracle : Nat → Option Response) (src : Str) (hal : Codec.AL ∉ src)
    (hcr : ∀ n, InlineRecog.COMMENT_CRASH.isPrefixOf (src.drop (n + 1)) = false)
    (hor : ∀ q r, q.src = src → oracle q.next = some r → RespOK q r) : TableOK (realTable oracle) src := by
  refine ⟨fun c hc hn => realTable_handler_some oracle c hc hn, ?_⟩
  intro c h q r hh hs hc hq hr
  rw [← hs] at hc
  simp only [realTable] at hh
  by_cases c1 : (c == '`') = true
  · rw [if_pos c1] at hh; injection hh with hh; subst hh
    have : c = '`' := by simpa using c1
    subst this; exact backtick_respOK hc (by rw [hs]; exact hal) hr
  rw [if_neg c1] at hh
  by_cases c2 : (c == '\\') = true
  · rw [if_pos c2] at hh; injection hh with hh; subst hh
    have : c = '\\' := by simpa using c2
    subst this; exact backslash_respOK hc hr
  rw [if_neg c2] at hh
  by_cases c3 : (c == '&') = true
  · rw [if_pos c3] at hh; injection hh with hh; subst hh
    have : c = '&' := by simpa using c3
    subst this; exact charref_respOK hc hr
  rw [if_neg c3] at hh
  by_cases c4 : (c == '<') = true
  · rw [if_pos c4] at hh; injection hh with hh; subst hh
    have : c = '<' := by simpa using c4
    subst this; exact angle_respOK hc (by rw [hs]; exact hcr _) hq hr
  rw [if_neg c4] at hh
  by_cases c5 : (c == '[') = true
  · rw [if_pos c5] at hh; injection hh with hh; subst hh
    exact bracket_respOK 1 (by decide) hr
  rw [if_neg c5] at hh
  by_cases c6 : (c == ']') = true
  · rw [if_pos c6] at hh; injection hh with hh; subst hh
    simp only at hr
    split at hr
    · next r' ho => injection hr with hr; subst hr; exact hor q _ hs ho
    · cases hr
  rw [if_neg c6] at hh
  by_cases c7 : (c == '*' || c == '_') = true
  · rw [if_pos c7] at hh; injection hh with hh; subst hh
    exact emphasis_respOK hc hr
  rw [if_neg c7] at hh
  by_cases c8 : (c == '!') = true
  · rw [if_pos c8] at hh; injection hh with hh; subst hh
    exact bang_respOK hr
  rw [if_neg c8] at hh
  by_cases c9 : Codec.isSpecial c = true
  · rw [if_pos c9] at hh; injection hh with hh; subst hh
    exact control_respOK hr
  rw [if_neg c9] at hh; cases hh

/-! ## order: every handler but `]` leaves the list alone and hands back no plain text token -/

theorem realTable_orderOK : ∀ (c : Char) (h : Handler) (q : Request) (r : Response),
    (realTable fun _ => none).handler c = some h → h q = .ok r → OrderOK q r := by
  intro c h q r hh hr
  simp only [realTable] at hh
  repeat' split at hh
  all_goals first
    | (cases hh; done)
    | (injection hh with hh; subst hh)
  -- backtick
  · unfold backtickHandler at hr
    split at hr
    · cases hr
    · injection hr with hr; subst hr
      refine ⟨rfl, ?_⟩
      intro t ht
      simp only at ht
      split at ht
      · cases ht
      · simp only [List.mem_singleton] at ht; subst ht; rfl
  -- backslash
  · unfold backslashHandler at hr
    split at hr
    · cases hr
    · injection hr with hr; subst hr; exact ⟨rfl, by intro t ht; cases ht⟩
  -- character reference
  · unfold charRefHandler at hr
    repeat' split at hr
    all_goals first
      | (cases hr; done)
      | (injection hr with hr; subst hr; exact ⟨rfl, by intro t ht; cases ht⟩)
  -- angle bracket
  · unfold angleHandler at hr
    split at hr
    · cases hr
    · split at hr
      · cases hr
      · injection hr with hr; subst hr; exact ⟨rfl, by intro t ht; cases ht⟩
    · simp only at hr
      split at hr
      · cases hr
      · split at hr
        · cases hr
        · injection hr with hr; subst hr
          exact ⟨rfl, by intro t ht; simp only [List.mem_singleton] at ht; subst ht; rfl⟩
  -- `[`
  · unfold bracketHandler at hr
    injection hr with hr; subst hr
    exact ⟨rfl, by intro t ht; simp only [List.mem_singleton] at ht; subst ht; rfl⟩
  -- `]` without oracle: raises
  · cases hr
  -- emphasis
  · unfold emphasisHandler at hr
    split at hr
    · cases hr
    · injection hr with hr; subst hr
      exact ⟨rfl, by intro t ht; simp only [List.mem_singleton] at ht; subst ht; rfl⟩
  -- `!`
  · unfold bangHandler at hr
    split at hr
    · unfold bracketHandler at hr
      injection hr with hr; subst hr
      exact ⟨rfl, by intro t ht; simp only [List.mem_singleton] at ht; subst ht; rfl⟩
    · injection hr with hr; subst hr; exact ⟨rfl, by intro t ht; cases ht⟩
  -- control characters
  · unfold controlHandler at hr
    split at hr
    · cases hr
    · injection hr with hr; subst hr; exact ⟨rfl, by intro t ht; cases ht⟩

end Verif.Model.InlineLoop
