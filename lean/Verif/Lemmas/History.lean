/- The output of scanning a file does not depend on the engine state left by earlier files,
   for rules whose `starting_new_file` is a total reset (or that have no state). -/
import Verif.Model.Engine
namespace Verif.Model.Engine
variable {τ : Type}

/-- Component-wise: same plug-in state (call logs may differ). -/
def SameSt : (rs : List (Rule τ)) → States rs → States rs → Prop
  | [], _, _ => True
  | _ :: rs, (c, cs), (c', cs') => c.st = c'.st ∧ SameSt rs cs cs'

theorem SameSt.refl : (rs : List (Rule τ)) → (ss : States rs) → SameSt rs ss ss
  | [], _ => trivial
  | _ :: rs, (_, cs) => ⟨rfl, SameSt.refl rs cs⟩

theorem stepOne_sameSt (r : Rule τ) (c c' : Comp r) (h : c.st = c'.st) (ev : Event τ) (acc : Acc) :
    (stepOne r c ev acc).2 = (stepOne r c' ev acc).2 ∧
    (stepOne r c ev acc).1.st = (stepOne r c' ev acc).1.st := by
  unfold stepOne
  by_cases hf : acc.fault.isSome
  · simp [hf, h]
  · by_cases hh : r.handles ev
    · simp only [hf, hh, Bool.false_eq_true, if_false, if_true, h]
      cases (r.call c'.st ev).2 <;> simp
    · simp [hf, hh, h]

theorem dispatch_sameSt : (rs : List (Rule τ)) → (ss ss' : States rs) → SameSt rs ss ss' →
    (ev : Event τ) → (acc : Acc) →
    (dispatch rs ss ev acc).2 = (dispatch rs ss' ev acc).2 ∧
    SameSt rs (dispatch rs ss ev acc).1 (dispatch rs ss' ev acc).1
  | [], _, _, _, _, _ => ⟨rfl, trivial⟩
  | r :: rs, (c, cs), (c', cs'), h, ev, acc => by
    have h1 := stepOne_sameSt r c c' h.1 ev acc
    simp only [dispatch]
    rw [h1.1]
    have h2 := dispatch_sameSt rs cs cs' h.2 ev (stepOne r c' ev acc).2
    exact ⟨h2.1, h1.2, h2.2⟩

theorem runEvents_sameSt (rs : List (Rule τ)) : ∀ (evs : List (Event τ)) (ss ss' : States rs),
    SameSt rs ss ss' → ∀ acc,
    (runEvents rs ss evs acc).2 = (runEvents rs ss' evs acc).2 ∧
    SameSt rs (runEvents rs ss evs acc).1 (runEvents rs ss' evs acc).1
  | [], _, _, h, _ => ⟨rfl, h⟩
  | ev :: evs, ss, ss', h, acc => by
    have h1 := dispatch_sameSt rs ss ss' h ev acc
    simp only [runEvents]
    rw [h1.1]
    exact runEvents_sameSt rs evs _ _ h1.2 _

/-- `starting_new_file` forgets everything (its result does not depend on the state it finds),
or the rule has no state at all. -/
def Rule.HistoryFree (r : Rule τ) : Prop :=
  (r.hasStart = true ∧ ∀ s s', r.onStart s = r.onStart s') ∨ (∀ s s' : r.σ, s = s')

def AllHistoryFree : List (Rule τ) → Prop
  | [] => True
  | r :: rs => r.HistoryFree ∧ AllHistoryFree rs

theorem stepOne_fault_mono (r : Rule τ) (c : Comp r) (ev : Event τ) (acc : Acc)
    (h : (stepOne r c ev acc).2.fault = none) : acc.fault = none := by
  unfold stepOne at h
  by_cases hf : acc.fault.isSome
  · simp only [hf, if_true] at h; rw [h] at hf; cases hf
  · cases hx : acc.fault with
    | none => rfl
    | some x => rw [hx] at hf; simp at hf

theorem dispatch_fault_mono : (rs : List (Rule τ)) → (ss : States rs) → (ev : Event τ) → (acc : Acc) →
    (dispatch rs ss ev acc).2.fault = none → acc.fault = none
  | [], _, _, _, h => h
  | r :: rs, (c, cs), ev, acc, h => by
    simp only [dispatch] at h
    exact stepOne_fault_mono r c ev acc (dispatch_fault_mono rs cs ev _ h)

theorem stepOne_start_indep (r : Rule τ) (hr : r.HistoryFree) (c c' : Comp r) (acc : Acc) :
    (stepOne r c .start acc).2 = (stepOne r c' .start acc).2 ∧
    (acc.fault = none → (stepOne r c .start acc).1.st = (stepOne r c' .start acc).1.st) := by
  rcases hr with ⟨hs, hc⟩ | hsub
  · unfold stepOne
    by_cases hf : acc.fault.isSome
    · refine ⟨by simp [hf], fun h => ?_⟩
      rw [h] at hf; cases hf
    · have e : r.call c.st .start = r.call c'.st .start := by
        simp only [Rule.call]; rw [hc c.st c'.st]
      simp only [hf, Bool.false_eq_true, if_false, Rule.handles, hs, if_true, e]
      cases (r.call c'.st Event.start).2 <;> simp
  · have := stepOne_sameSt r c c' (hsub _ _) .start acc
    exact ⟨this.1, fun _ => this.2⟩

theorem dispatch_start_indep : (rs : List (Rule τ)) → AllHistoryFree rs → (ss ss' : States rs) →
    (acc : Acc) →
    (dispatch rs ss .start acc).2 = (dispatch rs ss' .start acc).2 ∧
    ((dispatch rs ss .start acc).2.fault = none →
      SameSt rs (dispatch rs ss .start acc).1 (dispatch rs ss' .start acc).1)
  | [], _, _, _, _ => ⟨rfl, fun _ => trivial⟩
  | r :: rs, h, (c, cs), (c', cs'), acc => by
    have h1 := stepOne_start_indep r h.1 c c' acc
    have h2 := dispatch_start_indep rs h.2 cs cs' (stepOne r c' .start acc).2
    simp only [dispatch]
    rw [h1.1]
    refine ⟨h2.1, fun hn => ?_⟩
    have hmid : (stepOne r c' .start acc).2.fault = none := dispatch_fault_mono rs cs _ _ hn
    have hacc : acc.fault = none := stepOne_fault_mono r c' _ _ hmid
    exact ⟨h1.2 hacc, h2.2 hn⟩

/-- **History independence of one file**: whatever state the earlier files left behind,
the printed failures and the error status of this file are the same. -/
theorem scanFile_indep (rs : List (Rule τ)) (h : AllHistoryFree rs) (ss ss' : States rs)
    (f : FileIn τ) : (scanFile rs ss f).2 = (scanFile rs ss' f).2 := by
  have h1 := dispatch_start_indep rs h ss ss' Acc.empty
  unfold scanFile
  simp only
  rw [h1.1]
  cases hf : (dispatch rs ss' Event.start Acc.empty).2.fault with
  | some x => rfl
  | none =>
    cases ht : f.toks with
    | none => rfl
    | some toks =>
      simp only
      have hs := h1.2 (by rw [h1.1]; exact hf)
      have h2 := runEvents_sameSt rs (bodyEvents toks f.lines) _ _ hs (dispatch rs ss' Event.start Acc.empty).2
      rw [h2.1]

end Verif.Model.Engine
