/-
  Lemmas about the inline recogniser models, part 1: every index loop equals a list-level scan (closed forms),
  hence no index error; bounds and progress of the returned indices.
-/
import Verif.Model.InlineRecog
import Verif.Lemmas.Recognisers
import Verif.Lemmas.Codec
namespace Verif.Model.InlineRecog
open Verif.Model.Recognisers

instance instDecEqExcept {ε α : Type} [DecidableEq ε] [DecidableEq α] : DecidableEq (Except ε α) := fun a b =>
  match a, b with
  | .ok x, .ok y => if h : x = y then isTrue (by rw [h]) else isFalse (by intro e; cases e; exact h rfl)
  | .error x, .error y => if h : x = y then isTrue (by rw [h]) else isFalse (by intro e; cases e; exact h rfl)
  | .ok _, .error _ => isFalse (by intro e; cases e)
  | .error _, .ok _ => isFalse (by intro e; cases e)

/-! ## closed forms of the scans -/

theorem pLoop_eq (s : Str) (p : Char → Bool) (i : Nat) : pLoop s p s.length i = .ok (scanTo s p i) := by
  unfold scanTo
  fun_induction pLoop s p s.length i with
  | case1 i h e he => simp [charAt_lt h] at he
  | case2 i h d hd hp ih =>
    rw [ih]
    rw [charAt_lt h] at hd
    injection hd with hd
    rw [List.drop_eq_getElem_cons h, List.takeWhile_cons, hd]
    rw [if_pos hp, List.length_cons]; congr 1; omega
  | case3 i h d hd hp =>
    rw [charAt_lt h] at hd
    injection hd with hd
    rw [List.drop_eq_getElem_cons h, List.takeWhile_cons, hd]
    rw [if_neg hp]; rfl
  | case4 i h =>
    rw [List.drop_eq_nil_of_le (by omega)]; simp

theorem collectUntilChar_eq (s : Str) (start : Nat) (c : Char) :
    collectUntilChar s start c =
      .ok (if start ≤ s.length then some (scanTo s (· != c) start, slice s start (scanTo s (· != c) start)) else none) := by
  unfold collectUntilChar
  split
  · rw [pLoop_eq]
  · rfl

theorem collectUntilCharVerified_eq (s : Str) (start : Nat) (c : Char) (h : start ≤ s.length) :
    collectUntilCharVerified s start c = .ok (scanTo s (· != c) start, slice s start (scanTo s (· != c) start)) := by
  unfold collectUntilCharVerified
  rw [collectUntilChar_eq]; simp [h]

theorem collectUntilOneOf_eq (s : Str) (start : Nat) (cs : Str) :
    collectUntilOneOf s start cs =
      .ok (if start ≤ s.length then
        some (scanTo s (fun d => !cs.contains d) start, slice s start (scanTo s (fun d => !cs.contains d) start)) else none) := by
  unfold collectUntilOneOf
  split
  · rw [pLoop_eq]
  · rfl

theorem collectUntilOneOfVerified_eq (s : Str) (start : Nat) (cs : Str) (h : start ≤ s.length) :
    collectUntilOneOfVerified s start cs =
      .ok (scanTo s (fun d => !cs.contains d) start, slice s start (scanTo s (fun d => !cs.contains d) start)) := by
  unfold collectUntilOneOfVerified
  rw [collectUntilOneOf_eq]; simp [h]

theorem collectWhileOneOfVerified_eq (s : Str) (start : Nat) (cs : Str) (h : start ≤ s.length) :
    collectWhileOneOfVerified s start cs = .ok (scanTo s cs.contains start, slice s start (scanTo s cs.contains start)) := by
  unfold collectWhileOneOfVerified
  rw [collectWhileOneOf_eq]; simp [h]

theorem collectWhileOneOfVerified_gt (s : Str) (start : Nat) (cs : Str) (h : s.length < start) :
    collectWhileOneOfVerified s start cs = .error .assertion := by
  unfold collectWhileOneOfVerified
  rw [collectWhileOneOf_eq]; simp [Nat.not_le.mpr h]

theorem extractAsciiWsVerified_eq (s : Str) (start : Nat) (h : start ≤ s.length) :
    extractAsciiWsVerified s start =
      .ok (scanTo s asciiWs.contains start, slice s start (scanTo s asciiWs.contains start)) := by
  unfold extractAsciiWsVerified
  rw [extractAsciiWs_eq]; simp [h]

theorem extractSpacesVerified_eq (s : Str) (start : Nat) (h : start ≤ s.length) :
    extractSpacesVerified s start =
      .ok (scanTo s [SP, TAB].contains start, slice s start (scanTo s [SP, TAB].contains start)) := by
  unfold extractSpacesVerified
  rw [extractSpaces_eq]; simp [h]

theorem isCharAtOneOf_true_lt {s : Str} {i : Nat} {cs : Str} (h : isCharAtOneOf s i cs = true) : i < s.length :=
  isCharAtOneOf_lt h

/-- a scan that starts on a matching character moves -/
theorem scanTo_gt {s : Str} {p : Char → Bool} {i : Nat} (h : i < s.length) (hp : p s[i] = true) : i < scanTo s p i := by
  unfold scanTo
  rw [List.drop_eq_getElem_cons h, List.takeWhile_cons, if_pos hp, List.length_cons]; omega

theorem slice_length_scan (s : Str) (p : Char → Bool) (i : Nat) (h : i ≤ s.length) :
    (slice s i (scanTo s p i)).length = scanTo s p i - i := by
  have h1 := scanTo_le s p i h
  unfold slice
  simp [List.length_drop, List.length_take]
  omega

/-- the character at the end of a scan does not satisfy the predicate -/
theorem scanTo_stop {s : Str} {p : Char → Bool} {i : Nat} (h : scanTo s p i < s.length) (hi : i ≤ s.length) :
    p s[scanTo s p i] = false := by
  unfold scanTo at h ⊢
  have key : ∀ (l : List Char) (hl : (l.takeWhile p).length < l.length), p l[(l.takeWhile p).length] = false := by
    intro l
    induction l with
    | nil => intro hl; simp at hl
    | cons c r ih =>
      intro hl
      by_cases hc : p c = true
      · simp only [List.takeWhile_cons, hc, if_true, List.length_cons] at hl ⊢
        simpa using ih (by omega)
      · simp only [List.takeWhile_cons, hc] at hl ⊢
        simpa using hc
  have hl : ((s.drop i).takeWhile p).length < (s.drop i).length := by
    rw [List.length_drop]; omega
  have := key (s.drop i) hl
  rw [List.getElem_drop] at this
  exact this

/-! ## raw HTML: closed forms -/

theorem parseRawTagName_eq (s : Str) (start : Nat) :
    parseRawTagName s start =
      .ok (if isCharAtOneOf s start tagNameStart then s.take (scanTo s tagNameChars.contains (start + 1)) else []) := by
  unfold parseRawTagName
  split
  · next h =>
    have hl := isCharAtOneOf_true_lt h
    rw [collectWhileOneOf_eq]
    simp [show start + 1 ≤ s.length by omega]
  · rfl

/-- the quoted-value branch as a pure function -/
def quotedEndP (s : Str) (vs : Nat) (q : Char) : Option Nat :=
  if isCharAt s (scanTo s (· != q) (vs + 1)) q then some (scanTo s (· != q) (vs + 1) + 1) else none

theorem quotedValueEnd_eq (s : Str) (vs : Nat) (q : Char) (h : vs < s.length) :
    quotedValueEnd s vs q = .ok (quotedEndP s vs q) := by
  unfold quotedValueEnd quotedEndP
  rw [collectUntilCharVerified_eq _ _ _ (by omega)]
  simp only
  split <;> simp_all

/-- the value forms as a pure function -/
def attrValueEndP (s : Str) (vs : Nat) : Option Nat :=
  if isCharAtOneOf s vs ['\''] then quotedEndP s vs '\''
  else if isCharAtOneOf s vs ['"'] then quotedEndP s vs '"'
  else some (scanTo s (fun d => !unqStop.contains d) vs)

theorem attrValueEnd_eq (s : Str) (vs : Nat) (h : vs ≤ s.length) : attrValueEnd s vs = .ok (attrValueEndP s vs) := by
  unfold attrValueEnd attrValueEndP
  split
  · next hq => exact quotedValueEnd_eq _ _ _ (isCharAtOneOf_true_lt hq)
  · split
    · next hq => exact quotedValueEnd_eq _ _ _ (isCharAtOneOf_true_lt hq)
    · rw [collectUntilOneOfVerified_eq _ _ _ h]

theorem quotedEndP_le {s : Str} {vs : Nat} {q : Char} {ve : Nat} (h : quotedEndP s vs q = some ve) :
    vs + 2 ≤ ve ∧ ve ≤ s.length := by
  unfold quotedEndP at h
  split at h
  · next hq =>
    injection h with h
    have := isCharAt_true_lt hq
    have := scanTo_ge s (· != q) (vs + 1)
    omega
  · cases h

theorem attrValueEndP_le {s : Str} {vs ve : Nat} (h : vs ≤ s.length) (hv : attrValueEndP s vs = some ve) :
    vs ≤ ve ∧ ve ≤ s.length := by
  unfold attrValueEndP at hv
  split at hv
  · have := quotedEndP_le hv; omega
  · split at hv
    · have := quotedEndP_le hv; omega
    · injection hv with hv
      have := scanTo_ge s (fun d => !unqStop.contains d) vs
      have := scanTo_le s (fun d => !unqStop.contains d) vs h
      omega

/-- `__parse_tag_attributes` as a pure function of scans -/
def tagAttrsP (s : Str) (start : Nat) : Option (Nat × Str) :=
  let pi := scanTo s attrNameChars.contains start
  let en := scanTo s asciiWs.contains pi
  if isCharAt s en '=' then
    (attrValueEndP s (scanTo s asciiWs.contains (en + 1))).map
      fun ve => (scanTo s asciiWs.contains ve, slice s ve (scanTo s asciiWs.contains ve))
  else some (en, slice s pi en)

theorem parseTagAttributes_eq (s : Str) (start : Nat) (h : start ≤ s.length) :
    parseTagAttributes s start = .ok (tagAttrsP s start) := by
  unfold parseTagAttributes tagAttrsP
  have h1 := scanTo_le s attrNameChars.contains start h
  have h2 := scanTo_le s asciiWs.contains _ h1
  rw [collectWhileOneOfVerified_eq _ _ _ h]
  simp only
  rw [extractAsciiWsVerified_eq _ _ h1]
  simp only
  split
  · next heq =>
    have h3 := isCharAt_true_lt heq
    have h4 := scanTo_le s asciiWs.contains (scanTo s asciiWs.contains (scanTo s attrNameChars.contains start) + 1) (by omega)
    rw [extractAsciiWsVerified_eq _ _ (by omega)]
    simp only
    rw [attrValueEnd_eq _ _ h4]
    cases hv : attrValueEndP s _ with
    | none => rfl
    | some ve =>
      have := attrValueEndP_le h4 hv
      simp only [Option.map_some]
      rw [extractAsciiWsVerified_eq _ _ this.2]
  · rfl

/-- the indices `__parse_tag_attributes` returns: inside the string and not before the end of the name -/
theorem tagAttrsP_bounds {s : Str} {start j : Nat} {ws : Str} (h : start ≤ s.length)
    (hr : tagAttrsP s start = some (j, ws)) : scanTo s attrNameChars.contains start ≤ j ∧ j ≤ s.length := by
  unfold tagAttrsP at hr
  have h1 := scanTo_le s attrNameChars.contains start h
  have g2 := scanTo_ge s asciiWs.contains (scanTo s attrNameChars.contains start)
  have h2 := scanTo_le s asciiWs.contains _ h1
  simp only at hr
  split at hr
  · next heq =>
    have h3 := isCharAt_true_lt heq
    have g4 := scanTo_ge s asciiWs.contains (scanTo s asciiWs.contains (scanTo s attrNameChars.contains start) + 1)
    have h4 := scanTo_le s asciiWs.contains (scanTo s asciiWs.contains (scanTo s attrNameChars.contains start) + 1) (by omega)
    cases hv : attrValueEndP s (scanTo s asciiWs.contains (scanTo s asciiWs.contains (scanTo s attrNameChars.contains start) + 1)) with
    | none => rw [hv] at hr; cases hr
    | some ve =>
      rw [hv] at hr
      have := attrValueEndP_le h4 hv
      simp only [Option.map_some, Option.some.injEq, Prod.mk.injEq] at hr
      have g5 := scanTo_ge s asciiWs.contains ve
      have h5 := scanTo_le s asciiWs.contains ve this.2
      omega
  · simp only [Option.some.injEq, Prod.mk.injEq] at hr
    omega

theorem contains_append {c : Char} {a b : Str} : (a ++ b).contains c = (a.contains c || b.contains c) := by
  simp [List.contains_eq_mem, List.mem_append]

theorem attrStart_sub {c : Char} (h : attrNameStart.contains c = true) : attrNameChars.contains c = true := by
  unfold attrNameStart at h
  unfold attrNameChars
  simp only [contains_append, Bool.or_eq_true] at h ⊢
  rcases h with h | h
  · exact Or.inl (Or.inl h)
  · right
    simp [List.contains_eq_mem] at h ⊢
    rcases h with h | h <;> simp [h]

/-- progress of one attribute: the name has at least one character -/
theorem tagAttrsP_progress {s : Str} {start j : Nat} {ws : Str} (h : isCharAtOneOf s start attrNameStart = true)
    (hr : tagAttrsP s start = some (j, ws)) : start < j ∧ j ≤ s.length := by
  have hl := isCharAtOneOf_true_lt h
  rw [isCharAtOneOf_lt' hl] at h
  have g0 := scanTo_gt (p := attrNameChars.contains) hl (attrStart_sub h)
  have hb := tagAttrsP_bounds (Nat.le_of_lt hl) hr
  omega

/-- the attribute loop as a pure function (same fuel discipline) -/
def attrLoopP (s : Str) : Nat → Nat → Str → Option (Option Nat)
  | 0, _, _ => none
  | fuel + 1, i, ws =>
    if !ws.isEmpty && isCharAtOneOf s i attrNameStart then
      match tagAttrsP s i with
      | none => some none
      | some (j, ws') => attrLoopP s fuel j ws'
    else some (some i)

/-- enough fuel: the loop returns, its index is inside the string -/
theorem attrLoop_ok (s : Str) : ∀ (fuel i : Nat) (ws : Str), s.length - i < fuel → i ≤ s.length →
    ∃ r, attrLoop s fuel i ws = .ok r ∧ attrLoopP s fuel i ws = some r ∧ ∀ j, r = some j → i ≤ j ∧ j ≤ s.length
  | 0, _, _, hf, _ => by omega
  | fuel + 1, i, ws, hf, hi => by
    rw [attrLoop, attrLoopP]
    split
    · next hc =>
      simp only [Bool.and_eq_true] at hc
      rw [parseTagAttributes_eq _ _ hi]
      cases hr : tagAttrsP s i with
      | none => exact ⟨none, rfl, rfl, by intro j hj; cases hj⟩
      | some r =>
        obtain ⟨j, ws'⟩ := r
        have hp := tagAttrsP_progress hc.2 hr
        obtain ⟨r, e1, e2, hb⟩ := attrLoop_ok s fuel j ws' (by omega) hp.2
        refine ⟨r, e1, e2, ?_⟩
        intro k hk
        have := hb k hk
        omega
    · exact ⟨some i, rfl, rfl, by intro j hj; injection hj with hj; omega⟩

/-- the fuel supplied is sufficient: more fuel does not change the result -/
theorem attrLoop_fuel (s : Str) : ∀ (f1 f2 i : Nat) (ws : Str), s.length - i < f1 → s.length - i < f2 → i ≤ s.length →
    attrLoop s f1 i ws = attrLoop s f2 i ws
  | 0, _, _, _, h1, _, _ => by omega
  | _, 0, _, _, _, h2, _ => by omega
  | f1 + 1, f2 + 1, i, ws, h1, h2, hi => by
    rw [attrLoop, attrLoop]
    split
    · next hc =>
      simp only [Bool.and_eq_true] at hc
      rw [parseTagAttributes_eq _ _ hi]
      cases hr : tagAttrsP s i with
      | none => rfl
      | some r =>
        obtain ⟨j, ws'⟩ := r
        have hp := tagAttrsP_progress hc.2 hr
        exact attrLoop_fuel s f1 f2 j ws' (by omega) (by omega) hp.2
    · rfl

/-- `__parse_raw_open_tag` never fails; a recognised tag ends inside the string, on a `>` -/
theorem parseRawOpenTag_ok (s : Str) :
    ∃ r, parseRawOpenTag s = .ok r ∧
      ∀ v e, r = some (v, e) → 2 ≤ e ∧ e ≤ s.length ∧ v = s.take (e - 1) ∧ s[e - 1]? = some '>' := by
  unfold parseRawOpenTag
  rw [parseRawTagName_eq]
  simp only
  by_cases hstart : isCharAtOneOf s 0 tagNameStart = true
  case neg =>
    simp only [hstart]
    exact ⟨none, rfl, by intro v e h; cases h⟩
  case pos =>
    simp only [hstart, if_true]
    have h0 := isCharAtOneOf_true_lt hstart
    have hlen : (s.take (scanTo s tagNameChars.contains (0 + 1))).length ≤ s.length := by
      rw [List.length_take]; omega
    have hlen1 : 1 ≤ (s.take (scanTo s tagNameChars.contains (0 + 1))).length := by
      have := scanTo_ge s tagNameChars.contains (0 + 1)
      rw [List.length_take]; omega
    have hne : (s.take (scanTo s tagNameChars.contains (0 + 1))).isEmpty = false := by
      cases hh : s.take (scanTo s tagNameChars.contains (0 + 1)) with
      | nil => rw [hh] at hlen1; simp at hlen1
      | cons _ _ => rfl
    simp only [hne, Bool.false_eq_true, if_false]
    rw [extractAsciiWsVerified_eq _ _ hlen]
    simp only
    generalize hpi : scanTo s asciiWs.contains (s.take (scanTo s tagNameChars.contains (0 + 1))).length = pi
    have hpi1 : 1 ≤ pi := by
      have := scanTo_ge s asciiWs.contains (s.take (scanTo s tagNameChars.contains (0 + 1))).length
      omega
    have hpi2 : pi ≤ s.length := by rw [← hpi]; exact scanTo_le _ _ _ hlen
    obtain ⟨r, e1, _, hb⟩ := attrLoop_ok s (s.length + 1) pi (slice s (s.take (scanTo s tagNameChars.contains (0 + 1))).length pi) (by omega) hpi2
    rw [e1]
    cases r with
    | none => exact ⟨none, rfl, by intro v e h; cases h⟩
    | some j =>
      have hj := hb j rfl
      simp only
      generalize hk : (if isCharAt s j '/' = true then j + 1 else j) = k
      have hkb : j ≤ k ∧ k ≤ j + 1 := by rw [← hk]; split <;> omega
      by_cases hgt : isCharAt s k '>' = true
      · simp only [hgt, if_true]
        refine ⟨_, rfl, ?_⟩
        intro v e he
        simp only [Option.some.injEq, Prod.mk.injEq] at he
        obtain ⟨hv, he⟩ := he
        have hlt := isCharAt_true_lt hgt
        subst he
        refine ⟨by omega, by omega, ?_, ?_⟩
        · simpa using hv.symm
        · simp only [Nat.add_sub_cancel]
          rw [isCharAt_lt hlt] at hgt
          rw [List.getElem?_eq_getElem hlt]
          simpa using hgt
      · simp only [hgt]
        exact ⟨none, rfl, by intro v e h; cases h⟩

theorem guardedIs_eq (s : Str) (i : Nat) (p : Char → Bool) :
    guardedIs s i p = .ok (match s[i]? with | some c => p c | none => false) := by
  unfold guardedIs
  split
  · next h => rw [charAt_lt h, List.getElem?_eq_getElem h]
  · next h => rw [List.getElem?_eq_none (by omega)]

theorem guardedIs_true_lt {s : Str} {i : Nat} {p : Char → Bool} (h : guardedIs s i p = .ok true) : i < s.length := by
  rw [guardedIs_eq] at h
  by_cases hl : i < s.length
  · exact hl
  · rw [List.getElem?_eq_none (by omega)] at h; simp at h

theorem closeTagWs_eq (s : Str) (pi : Nat) (h : pi ≤ s.length) :
    closeTagWs s pi = .ok (if pi != s.length then scanTo s [SP, TAB].contains pi else pi) := by
  unfold closeTagWs
  split
  · rw [extractSpacesVerified_eq _ _ h]
  · rfl

/-- `__parse_raw_close_tag` never fails and returns its argument or nothing -/
theorem parseRawCloseTag_ok (s : Str) : ∃ r, parseRawCloseTag s = .ok r ∧ ∀ v, r = some v → v = s ∧ 2 ≤ s.length := by
  unfold parseRawCloseTag
  by_cases h0 : isCharAt s 0 '/' = true
  case neg => exact ⟨none, by simp [h0], by intro v h; cases h⟩
  case pos =>
    simp only [h0, if_true]
    rw [parseRawTagName_eq]
    by_cases hstart : isCharAtOneOf s 1 tagNameStart = true
    case neg => exact ⟨none, by simp [hstart], by intro v h; cases h⟩
    case pos =>
      have h1 := isCharAtOneOf_true_lt hstart
      simp only [hstart, if_true]
      by_cases hne : (s.take (scanTo s tagNameChars.contains (1 + 1))).isEmpty = true
      case pos => exact ⟨none, by simp [hne], by intro v h; cases h⟩
      case neg =>
        simp only [hne]
        have hq : closeTagWs s (s.take (scanTo s tagNameChars.contains (1 + 1))).length = .ok
            (if ((s.take (scanTo s tagNameChars.contains (1 + 1))).length != s.length) = true then
              scanTo s [SP, TAB].contains (s.take (scanTo s tagNameChars.contains (1 + 1))).length
              else (s.take (scanTo s tagNameChars.contains (1 + 1))).length) :=
          closeTagWs_eq _ _ (by rw [List.length_take]; omega)
        generalize (if ((s.take (scanTo s tagNameChars.contains (1 + 1))).length != s.length) = true then
              scanTo s [SP, TAB].contains (s.take (scanTo s tagNameChars.contains (1 + 1))).length
              else (s.take (scanTo s tagNameChars.contains (1 + 1))).length) = q at hq
        rw [hq]
        simp only
        by_cases he : (q == s.length) = true
        · exact ⟨some s, by simp [he], by intro v h; injection h with h; exact ⟨h.symm, by omega⟩⟩
        · exact ⟨none, by simp [he], by intro v h; cases h⟩

/-- `__parse_raw_declaration` never fails and returns its argument or nothing -/
theorem parseRawDeclaration_ok (s : Str) : ∃ r, parseRawDeclaration s = .ok r ∧ ∀ v, r = some v → v = s ∧ 3 ≤ s.length := by
  unfold parseRawDeclaration
  split
  · next h0 =>
    have hl := isCharAtOneOf_true_lt h0
    rw [collectWhileOneOfVerified_eq _ _ _ (by omega)]
    simp only
    split
    · next hne =>
      have hlen := slice_length_scan s asciiUpper.contains 1 (by omega)
      have h2 := scanTo_le s asciiUpper.contains 1 (by omega)
      rw [collectWhileChar_eq]
      simp only [h2, if_true]
      split
      · next hc =>
        refine ⟨some s, rfl, ?_⟩
        intro v h; injection h with h
        refine ⟨h.symm, ?_⟩
        have hs : scanTo s (· == ' ') (scanTo s asciiUpper.contains 1) ≤ s.length := scanTo_le _ _ _ h2
        have : (slice s 1 (scanTo s asciiUpper.contains 1)).length ≠ 0 := by
          intro h0
          cases hh : slice s 1 (scanTo s asciiUpper.contains 1) with
          | nil => rw [hh] at hne; simp at hne
          | cons _ _ => rw [hh] at h0; simp at h0
        have hc' : scanTo s (· == ' ') (scanTo s asciiUpper.contains 1) - scanTo s asciiUpper.contains 1 ≠ 0 := by
          simpa using hc
        omega
      · exact ⟨none, rfl, by intro v h; cases h⟩
    · exact ⟨none, rfl, by intro v h; cases h⟩
  · exact ⟨none, rfl, by intro v h; cases h⟩

/-! ## `str.find` -/

theorem findSub_bound {pat : Str} : ∀ {l : Str} {p : Nat}, findSub pat l = some p → p + pat.length ≤ l.length
  | [], p, h => by
    unfold findSub at h
    split at h
    · next he => injection h with h; subst h; cases pat <;> simp_all
    · cases h
  | c :: r, p, h => by
    unfold findSub at h
    split at h
    · next hp =>
      injection h with h; subst h
      have := List.IsPrefix.length_le (List.isPrefixOf_iff_prefix.mp hp)
      simpa using this
    · cases hf : findSub pat r with
      | none => rw [hf] at h; cases h
      | some q =>
        rw [hf] at h
        simp only [Option.map_some, Option.some.injEq] at h
        have := findSub_bound hf
        simp only [List.length_cons]; omega

theorem pyFind_bound {s pat : Str} {start p : Nat} (h : pyFind s pat start = some p) :
    start ≤ p ∧ p + pat.length ≤ s.length := by
  unfold pyFind at h
  split at h
  · next hs =>
    cases hf : findSub pat (s.drop start) with
    | none => rw [hf] at h; cases h
    | some q =>
      rw [hf] at h
      simp only [Option.map_some, Option.some.injEq] at h
      have := findSub_bound hf
      rw [List.length_drop] at this
      omega
  · cases h

/-- `__process_raw_special`: a returned index lies inside the line; the only failure is the extra check on an empty comment body -/
theorem processRawSpecial_ok (rem start end_ : Str) (extra : Bool)
    (h : ¬ (extra = true ∧ start.isPrefixOf rem = true ∧ findSub end_ (rem.drop start.length) = some 0)) :
    ∃ r, processRawSpecial rem start end_ extra = .ok r ∧
      (r.2 = -1 ∨ (0 ≤ r.2 ∧ r.2 ≤ rem.length ∧ (start.length + end_.length : Int) ≤ r.2)) ∧ (r.1.isSome → r.2 ≠ -1) := by
  unfold processRawSpecial
  by_cases hp : start.isPrefixOf rem = true
  case neg => exact ⟨(none, -1), by simp [hp], Or.inl rfl, by simp⟩
  case pos =>
    simp only [hp, if_true]
    have hpl := List.IsPrefix.length_le (List.isPrefixOf_iff_prefix.mp hp)
    cases hf : findSub end_ (rem.drop start.length) with
    | none => exact ⟨(none, -1), rfl, Or.inl rfl, by simp⟩
    | some p =>
      have hb := findSub_bound hf
      rw [List.length_drop] at hb
      have hidx : (0 : Int) ≤ ((p + start.length + end_.length : Nat) : Int) ∧
          ((p + start.length + end_.length : Nat) : Int) ≤ rem.length ∧
          (start.length + end_.length : Int) ≤ ((p + start.length + end_.length : Nat) : Int) := by
        refine ⟨by omega, by omega, by omega⟩
      have hne : ((p + start.length + end_.length : Nat) : Int) ≠ -1 := by omega
      simp only
      cases extra with
      | false => exact ⟨(_, _), rfl, Or.inr hidx, fun _ => hne⟩
      | true =>
        have hp0 : p ≠ 0 := by
          intro h0; subst h0
          exact h ⟨rfl, hp, hf⟩
        have htl : 0 < ((rem.drop start.length).take p).length := by
          rw [List.length_take, List.length_drop]; omega
        simp only [Bool.not_true, Bool.false_eq_true, if_false]
        rw [charAt_lt htl]
        simp only
        cases hlast : ((rem.drop start.length).take p).getLast? with
        | none =>
          rw [List.getLast?_eq_none_iff] at hlast
          rw [hlast] at htl; simp at htl
        | some cl =>
          simp only
          by_cases c1 : (((rem.drop start.length).take p)[0] == '>') = true
          · exact ⟨(_, _), by rw [if_pos c1], Or.inr hidx, fun _ => hne⟩
          · rw [if_neg c1]
            by_cases c2 : (['-', '>'].isPrefixOf ((rem.drop start.length).take p)) = true
            · exact ⟨(_, _), by rw [if_pos c2], Or.inr hidx, fun _ => hne⟩
            · rw [if_neg c2]
              by_cases c3 : (cl == '-') = true
              · exact ⟨(_, _), by rw [if_pos c3], Or.inr hidx, fun _ => hne⟩
              · rw [if_neg c3]
                by_cases c4 : containsSubstr ((rem.drop start.length).take p) ['-', '-'] = true
                · exact ⟨(_, _), by rw [if_pos c4], Or.inr hidx, fun _ => hne⟩
                · exact ⟨(_, _), by rw [if_neg c4], Or.inr hidx, fun _ => hne⟩

/-- the excluded point is real: `<!---->` makes `remaining_line[0]` fail -/
theorem processRawSpecial_excluded :
    processRawSpecial ['!', '-', '-', '-', '-', '>'] ['!', '-', '-'] ['-', '-', '>'] true = .error .index := by
  decide

/-! ## `parse_raw_html` -/

theorem findSub_zero {pat : Str} : ∀ {l : Str}, findSub pat l = some 0 → pat.isPrefixOf l = true
  | [], h => by
    unfold findSub at h
    split at h
    · next he => cases pat <;> simp_all
    · cases h
  | c :: r, h => by
    unfold findSub at h
    split at h
    · next hp => exact hp
    · cases hf : findSub pat r with
      | none => rw [hf] at h; cases h
      | some q => rw [hf] at h; simp at h

/-- `str.find` hit: the text splits around the occurrence -/
theorem findSub_split {pat : Str} : ∀ {l : Str} {p : Nat}, findSub pat l = some p →
    l = l.take p ++ pat ++ l.drop (p + pat.length)
  | [], p, h => by
    unfold findSub at h
    split at h
    · next he => cases pat <;> simp_all
    · cases h
  | c :: r, p, h => by
    unfold findSub at h
    split at h
    · next hp =>
      injection h with h; subst h
      obtain ⟨t, ht⟩ := List.isPrefixOf_iff_prefix.mp hp
      rw [← ht]; simp
    · cases hf : findSub pat r with
      | none => rw [hf] at h; cases h
      | some q =>
        rw [hf] at h
        simp only [Option.map_some, Option.some.injEq] at h
        subst h
        have ih := findSub_split hf
        simp only [List.take_succ_cons, List.cons_append, List.cons.injEq, true_and]
        rw [show q + 1 + pat.length = (q + pat.length) + 1 by omega, List.drop_succ_cons]
        exact ih

/-- what a recognised raw-HTML form records: for a closing tag / declaration the characters up to the first `>`
(index `-1`), otherwise exactly the consumed characters of the remaining line without the final `>` -/
def Good (between rem : Str) (v : Str) (e : Int) : Prop :=
  (e = -1 ∧ v = between) ∨ (1 ≤ e ∧ e ≤ (rem.length : Int) ∧ v ++ ['>'] = rem.take e.toNat)

def InvA (between rem : Str) (st : Option Str × Int) : Prop := ∀ v, st.1 = some v → v ≠ [] ∧ Good between rem v st.2
def InvB (between rem : Str) (st : Option Str × Int) : Prop := InvA between rem st ∧ (st.1 = none → st.2 = -1)

theorem invA_falsy {between rem : Str} {st : Option Str × Int} (h : InvA between rem st) (hf : (!truthy st.1) = true) :
    st.1 = none := by
  cases hv : st.1 with
  | none => rfl
  | some v =>
    have := (h v hv).1
    rw [hv] at hf
    cases v with
    | nil => exact absurd rfl this
    | cons _ _ => simp [truthy] at hf

theorem invA_none (between rem : Str) (e : Int) : InvA between rem (none, e) := by
  intro v hv; cases hv

/-- `__process_raw_special` with the last character of the end marker being `>` -/
theorem processRawSpecial_good (between rem start end_ : Str) (extra : Bool)
    (h : ¬ (extra = true ∧ start.isPrefixOf rem = true ∧ findSub end_ (rem.drop start.length) = some 0))
    (hs : start ≠ []) (he : end_.drop (end_.length - 1) = ['>']) :
    ∃ r, processRawSpecial rem start end_ extra = .ok r ∧ InvA between rem r ∧ (extra = false → r.1 = none → r.2 = -1) := by
  unfold processRawSpecial
  by_cases hp : start.isPrefixOf rem = true
  case neg => exact ⟨(none, -1), by simp [hp], invA_none _ _ _, fun _ _ => rfl⟩
  case pos =>
    simp only [hp, if_true]
    obtain ⟨t, ht⟩ := List.isPrefixOf_iff_prefix.mp hp
    cases hf : findSub end_ (rem.drop start.length) with
    | none => exact ⟨(none, -1), rfl, invA_none _ _ _, fun _ _ => rfl⟩
    | some p =>
      have hb := findSub_bound hf
      have hsp := findSub_split hf
      have hdrop : rem.drop start.length = t := by rw [← ht]; simp
      rw [hdrop] at hb hsp hf ⊢
      have hend : 1 ≤ end_.length := by
        cases end_ with
        | nil => simp at he
        | cons _ _ => simp
      -- the recorded text is what was consumed, minus the final `>`
      have hgood : InvA between rem (some (start ++ t.take p ++ end_.dropLast), ((p + start.length + end_.length : Nat) : Int)) := by
        intro v hv
        simp only [Option.some.injEq] at hv
        subst hv
        have hlen : rem.length = start.length + t.length := by rw [← ht]; simp
        refine ⟨?_, Or.inr ⟨by simp only; omega, by simp only; omega, ?_⟩⟩
        · cases start with
          | nil => exact absurd rfl hs
          | cons _ _ => simp
        · simp only [Int.toNat_natCast]
          have e1 : start ++ t.take p ++ end_.dropLast ++ ['>'] = start ++ t.take p ++ end_ := by
            rw [← he, List.append_assoc (start ++ t.take p), List.dropLast_eq_take, List.take_append_drop]
          have e2 : rem = (start ++ t.take p ++ end_) ++ t.drop (p + end_.length) := by
            rw [← ht]; conv => lhs; rw [hsp]
            simp [List.append_assoc]
          rw [e1]; conv => rhs; rw [e2]
          rw [List.take_left']
          simp only [List.length_append, List.length_take]
          omega
      simp only
      cases extra with
      | false => exact ⟨(_, _), rfl, hgood, by intro _ hn; cases hn⟩
      | true =>
        have hp0 : p ≠ 0 := by
          intro h0; subst h0
          exact h ⟨rfl, hp, by rw [hdrop]; exact hf⟩
        have htl : 0 < (t.take p).length := by
          rw [List.length_take]; omega
        simp only [Bool.not_true, Bool.false_eq_true, if_false]
        rw [charAt_lt htl]
        simp only
        cases hlast : (t.take p).getLast? with
        | none =>
          rw [List.getLast?_eq_none_iff] at hlast
          rw [hlast] at htl; simp at htl
        | some cl =>
          simp only
          by_cases c1 : ((t.take p)[0] == '>') = true
          · exact ⟨(_, _), by rw [if_pos c1], invA_none _ _ _, by intro hh; cases hh⟩
          · rw [if_neg c1]
            by_cases c2 : (['-', '>'].isPrefixOf (t.take p)) = true
            · exact ⟨(_, _), by rw [if_pos c2], invA_none _ _ _, by intro hh; cases hh⟩
            · rw [if_neg c2]
              by_cases c3 : (cl == '-') = true
              · exact ⟨(_, _), by rw [if_pos c3], invA_none _ _ _, by intro hh; cases hh⟩
              · rw [if_neg c3]
                by_cases c4 : containsSubstr (t.take p) ['-', '-'] = true
                · exact ⟨(_, _), by rw [if_pos c4], invA_none _ _ _, by intro hh; cases hh⟩
                · exact ⟨(_, _), by rw [if_neg c4], hgood, by intro hh; cases hh⟩

theorem orTry_inv {P : Option Str × Int → Prop} {st : Option Str × Int} {f : Except Err (Option Str × Int)} (hst : P st)
    (hf : ∃ r, f = .ok r ∧ P r) : ∃ r, orTry st f = .ok r ∧ P r := by
  unfold orTry
  split
  · exact hf
  · exact ⟨st, rfl, hst⟩

def COMMENT_CRASH : Str := ['!', '-', '-', '-', '-', '>']

theorem comment_guard {rem : Str} (h : COMMENT_CRASH.isPrefixOf rem = false) :
    ¬ (true = true ∧ ['!', '-', '-'].isPrefixOf rem = true ∧
        findSub ['-', '-', '>'] (rem.drop ['!', '-', '-'].length) = some 0) := by
  rintro ⟨_, h1, h2⟩
  have h3 := findSub_zero h2
  rw [List.isPrefixOf_iff_prefix] at h1 h3
  obtain ⟨t, ht⟩ := h1
  obtain ⟨u, hu⟩ := h3
  have : COMMENT_CRASH.isPrefixOf rem = true := by
    rw [List.isPrefixOf_iff_prefix]
    refine ⟨u, ?_⟩
    rw [← ht] at hu
    simp only [List.length_cons, List.length_nil, List.drop_left'] at hu
    rw [← ht]
    have : t = ['-', '-', '>'] ++ u := by
      simpa using hu.symm
    rw [this]; rfl
  rw [this] at h; cases h

/-- `parse_raw_html` returns on every input except a remaining line that starts with `!---->`; what it records is
`Good`: the characters up to the first `>` with index `-1`, or exactly the consumed prefix of the remaining line minus its `>` -/
theorem parseRawHtml_ok (between remaining : Str) (h : COMMENT_CRASH.isPrefixOf remaining = false) :
    ∃ r, parseRawHtml between remaining = .ok r ∧ ∀ v e, r = some (v, e) → v ≠ [] ∧ Good between remaining v e := by
  unfold parseRawHtml
  obtain ⟨r0, hr0, hb0⟩ := parseRawOpenTag_ok remaining
  rw [hr0]
  simp only
  have hst0 : InvB between remaining (openSt r0) := by
    cases r0 with
    | none => exact ⟨invA_none _ _ _, fun _ => rfl⟩
    | some ve =>
      obtain ⟨v, e⟩ := ve
      obtain ⟨b1, b2, b3, b4⟩ := hb0 v e rfl
      refine ⟨?_, by intro hn; cases hn⟩
      intro w hw
      simp only [openSt, Option.some.injEq] at hw
      subst hw
      refine ⟨?_, Or.inr ⟨by simp only [openSt]; omega, by simp only [openSt]; omega, ?_⟩⟩
      · rw [b3]; intro hnil
        have := congrArg List.length hnil
        rw [List.length_take] at this; simp only [List.length_nil] at this; omega
      · simp only [openSt, Int.toNat_natCast]
        rw [b3]
        have : e = (e - 1) + 1 := by omega
        conv => rhs; rw [this, List.take_add_one]
        rw [b4]; rfl
  -- closing tag
  obtain ⟨c, hc, hcb⟩ := parseRawCloseTag_ok between
  have h1 : ∃ st1, orTryKeep (openSt r0) (parseRawCloseTag between) = .ok st1 ∧ InvB between remaining st1 := by
    unfold orTryKeep
    split
    · next hfal =>
      have hnone := invA_falsy hst0.1 hfal
      have hidx := hst0.2 hnone
      rw [hc]
      refine ⟨(c, (openSt r0).2), rfl, ?_, by intro _; exact hidx⟩
      intro v hv
      simp only at hv
      obtain ⟨e1, e2⟩ := hcb v hv
      refine ⟨by intro hn; rw [e1] at hn; rw [hn] at e2; simp at e2, Or.inl ⟨hidx, e1⟩⟩
    · exact ⟨_, rfl, hst0⟩
  obtain ⟨st1, h1, i1⟩ := h1
  rw [h1]; simp only
  unfold rawChain
  -- comment
  obtain ⟨st2, h2, i2⟩ := orTry_inv (P := InvA between remaining) i1.1
    (by
      obtain ⟨r, hr, hi, _⟩ := processRawSpecial_good between remaining ['!', '-', '-'] ['-', '-', '>'] true (comment_guard h) (by simp) (by decide)
      exact ⟨r, hr, hi⟩)
  rw [h2]; simp only
  -- processing instruction
  have h3 : ∃ st3, orTry st2 (processRawSpecial remaining ['?'] ['?', '>'] false) = .ok st3 ∧ InvB between remaining st3 := by
    obtain ⟨r, hr, hi, hn⟩ := processRawSpecial_good between remaining ['?'] ['?', '>'] false (by simp) (by simp) (by decide)
    unfold orTry
    split
    · exact ⟨r, hr, hi, hn rfl⟩
    · next hnf =>
      refine ⟨st2, rfl, i2, ?_⟩
      intro hn; rw [hn] at hnf; simp [truthy] at hnf
  obtain ⟨st3, h3, i3⟩ := h3
  rw [h3]; simp only
  -- CDATA
  obtain ⟨st4, h4, i4⟩ := orTry_inv (P := InvB between remaining) i3
    (by
      obtain ⟨r, hr, hi, hn⟩ := processRawSpecial_good between remaining CDATA_START [']', ']', '>'] false (by simp) (by simp [CDATA_START]) (by decide)
      exact ⟨r, hr, hi, hn rfl⟩)
  rw [h4]; simp only
  -- declaration
  obtain ⟨d, hd, hdb⟩ := parseRawDeclaration_ok between
  have h5 : ∃ st5, orTryKeep st4 (parseRawDeclaration between) = .ok st5 ∧ InvA between remaining st5 := by
    unfold orTryKeep
    split
    · next hfal =>
      have hnone := invA_falsy i4.1 hfal
      have hidx := i4.2 hnone
      rw [hd]
      refine ⟨(d, st4.2), rfl, ?_⟩
      intro v hv
      simp only at hv
      obtain ⟨e1, e2⟩ := hdb v hv
      refine ⟨by intro hn; rw [e1] at hn; rw [hn] at e2; simp at e2, Or.inl ⟨hidx, e1⟩⟩
    · exact ⟨_, rfl, i4.1⟩
  obtain ⟨st5, h5, i5⟩ := h5
  rw [h5]; simp only
  by_cases ht : truthy st5.1 = true
  · rw [if_pos ht]
    refine ⟨_, rfl, ?_⟩
    intro v e hve
    cases hv : st5.1 with
    | none => rw [hv] at ht; simp [truthy] at ht
    | some w =>
      rw [hv] at hve
      simp only [Option.map_some, Option.some.injEq, Prod.mk.injEq] at hve
      obtain ⟨e1, e2⟩ := hve
      subst e1 e2
      exact i5 w hv
  · rw [if_neg ht]
    exact ⟨none, rfl, by intro v e h; cases h⟩

/-- the excluded point is real (`<!---->…`): `parse_raw_html` raises IndexError -/
theorem parseRawHtml_excluded :
    parseRawHtml ['!', '-', '-', '-', '-'] ['!', '-', '-', '-', '-', '>', ' ', 'b'] = .error .index := by
  decide

end Verif.Model.InlineRecog
