/-
  Lemmas about the main-loop control model: the invariant, the strictly decreasing potential.
-/
import Verif.Model.MainLoop
namespace Verif.Model.MainLoop

/-! ## the bound `T` -/

theorem T_pos (r : Nat) : r + 1 ≤ T r := by
  induction r with
  | zero => simp [T]
  | succ r ih => simp [T]; omega

theorem T_mono {a b : Nat} (h : a ≤ b) : T a ≤ T b := by
  induction b with
  | zero => have : a = 0 := by omega
            subst this; exact Nat.le_refl _
  | succ b ih =>
    by_cases hb : a = b + 1
    · subst hb; exact Nat.le_refl _
    · have := ih (by omega); simp [T]; omega

theorem T_pred {r : Nat} (h : 0 < r) : T r = T (r - 1) + r + 2 := by
  cases r with
  | zero => omega
  | succ r => simp [T]; omega

/-- closed form: `2·T n = (n+1)(n+2) + 2n`. -/
theorem T_closed (n : Nat) : 2 * T n = (n + 1) * (n + 2) + 2 * n := by
  induction n with
  | zero => simp [T]
  | succ n ih =>
    simp only [T]
    have e1 : (n + 1 + 1) * (n + 1 + 2) = (n + 1) * (n + 2) + 2 * n + 4 := by
      simp only [Nat.add_mul, Nat.mul_add]; omega
    omega

/-! ## `keepOnGoing` -/

/-- the lines a requeue puts back in front, in physical order -/
def back : Option Requeue → List Line
  | some r => r.lines.reverse
  | none => []

section kog
variable (s : State) (ln : Int) (rq : Option Requeue) (sc stc : Bool) (p c : List Line)

theorem kog_pending : (keepOnGoing s ln rq sc stc p c).pending = p := by
  unfold keepOnGoing; cases rq <;> simp only <;> (repeat' split) <;> rfl

theorem kog_doc : (keepOnGoing s ln rq sc stc p c).doc = s.doc := by
  unfold keepOnGoing; cases rq <;> simp only <;> (repeat' split) <;> rfl

theorem kog_committed : (keepOnGoing s ln rq sc stc p c).committed = c := by
  unfold keepOnGoing; cases rq <;> simp only <;> (repeat' split) <;> rfl

theorem kog_running : (keepOnGoing s ln rq sc stc p c).running = s.running := by
  unfold keepOnGoing; cases rq <;> simp only <;> (repeat' split) <;> rfl

theorem kog_startedClose : (keepOnGoing s ln rq sc stc p c).startedClose = stc := by
  unfold keepOnGoing; cases rq <;> simp only <;> (repeat' split) <;> rfl

theorem kog_ignore : (keepOnGoing s ln rq sc stc p c).ignore = (match rq with | some r => r.force | none => false) := by
  unfold keepOnGoing; cases rq <;> simp only <;> (repeat' split) <;> rfl

theorem kog_lineNo : (keepOnGoing s ln rq sc stc p c).lineNo =
    (match rq with | some r => ln - ((r.lines.length : Int) - 1) | none => ln + 1) := by
  unfold keepOnGoing; cases rq <;> simp only <;> (repeat' split) <;> rfl

theorem kog_queue (h : stc = true → s.src = []) :
    (keepOnGoing s ln rq sc stc p c).cur.toList ++ (keepOnGoing s ln rq sc stc p c).requeue
      ++ (keepOnGoing s ln rq sc stc p c).src = back rq ++ s.requeue ++ s.src := by
  unfold keepOnGoing back
  cases rq with
  | none =>
    simp only
    split
    · next l rest he => simp [he]
    · next he =>
      split
      · next hs => simp [he, h hs]
      · split
        · next l rest hsrc => simp [he, hsrc]
        · next hsrc => simp [he, hsrc]
  | some r =>
    simp only
    split
    · next l rest he => simp [← he]
    · next he =>
      split
      · next hs => simp [he, h hs]
      · split
        · next l rest hsrc => simp [he, hsrc]
        · next hsrc => simp [he, hsrc]

theorem kog_close_iff (hsc : sc = false) :
    ((keepOnGoing s ln rq sc stc p c).startClose = true ↔ (keepOnGoing s ln rq sc stc p c).cur = none) := by
  unfold keepOnGoing; subst hsc
  cases rq <;> simp only <;> (repeat' split) <;> simp

theorem kog_close_empty (h : stc = true → s.src = []) :
    (keepOnGoing s ln rq sc stc p c).cur = none →
      (keepOnGoing s ln rq sc stc p c).requeue = [] ∧ (keepOnGoing s ln rq sc stc p c).src = [] := by
  unfold keepOnGoing
  cases rq <;> simp only <;> (repeat' split) <;> simp_all

theorem kog_started_src (h : stc = true → s.src = []) :
    stc = true → (keepOnGoing s ln rq sc stc p c).src = [] := by
  intro hs
  unfold keepOnGoing
  cases rq <;> simp only <;> (repeat' split) <;> simp_all

theorem kog_uncommitted (h : stc = true → s.src = []) :
    (keepOnGoing s ln rq sc stc p c).uncommitted = p.length + (back rq).length + s.requeue.length + s.src.length := by
  have hq := congrArg List.length (kog_queue s ln rq sc stc p c h)
  simp only [List.length_append] at hq
  unfold State.uncommitted
  rw [kog_pending]; omega

end kog

/-! ## the ghost document does not influence anything else -/

@[simp] theorem setDoc_doc (s : State) (d : List Line) : (s.setDoc d).doc = d := rfl
@[simp] theorem setDoc_committed (s : State) (d : List Line) : (s.setDoc d).committed = s.committed := rfl
@[simp] theorem setDoc_pending (s : State) (d : List Line) : (s.setDoc d).pending = s.pending := rfl
@[simp] theorem setDoc_cur (s : State) (d : List Line) : (s.setDoc d).cur = s.cur := rfl
@[simp] theorem setDoc_requeue (s : State) (d : List Line) : (s.setDoc d).requeue = s.requeue := rfl
@[simp] theorem setDoc_src (s : State) (d : List Line) : (s.setDoc d).src = s.src := rfl
@[simp] theorem setDoc_lineNo (s : State) (d : List Line) : (s.setDoc d).lineNo = s.lineNo := rfl
@[simp] theorem setDoc_ignore (s : State) (d : List Line) : (s.setDoc d).ignore = s.ignore := rfl
@[simp] theorem setDoc_startClose (s : State) (d : List Line) : (s.setDoc d).startClose = s.startClose := rfl
@[simp] theorem setDoc_startedClose (s : State) (d : List Line) : (s.setDoc d).startedClose = s.startedClose := rfl
@[simp] theorem setDoc_running (s : State) (d : List Line) : (s.setDoc d).running = s.running := rfl
@[simp] theorem setDoc_depth (s : State) (d : List Line) : (s.setDoc d).depth = s.depth := rfl
@[simp] theorem setDoc_potential (s : State) (d : List Line) : (s.setDoc d).potential = s.potential := rfl

/-! ## potential arithmetic -/

def pot (ign : Bool) (r p : Nat) : Nat :=
  if ign && 0 < r then T (r - 1) + 1 else T r - p

theorem potential_eq (s : State) :
    s.potential = if s.running then pot s.ignore s.uncommitted s.pending.length else 0 := rfl

theorem pot_pos {ign r p} (h : p ≤ r) : 0 < pot ign r p := by
  unfold pot; split
  · omega
  · have := T_pos r; omega

/-- new potential with nothing pending is at most `T r'` -/
theorem pot_le_T (ign : Bool) (r : Nat) : pot ign r 0 ≤ T r := by
  unfold pot; split
  · next h => simp at h; have := T_pred h.2; omega
  · omega

/-- start / continue a pending definition -/
theorem pot_hold {r p : Nat} (h : p + 1 ≤ r) : pot false r (p + 1) < pot false r p := by
  simp only [pot, Bool.false_and, Bool.false_eq_true, ↓reduceIte]
  have := T_pos r; omega

/-- plain consumption (the pending definition, if any, is committed with the line) -/
theorem pot_commit {ign : Bool} {r p : Nat} (h : p + 1 ≤ r) (hi : ign = true → p = 0) :
    pot false (r - p - 1) 0 < pot ign r p := by
  have h1 : pot false (r - p - 1) 0 = T (r - p - 1) := by simp [pot]
  rw [h1]
  unfold pot; split
  · next hc =>
    simp at hc; have := hi hc.1; subst this
    simp
  · have := T_pred (r := r) (by omega)
    have := T_mono (a := r - p - 1) (b := r - 1) (by omega)
    omega

/-- a requeue of `k` of the `p + 1` lines held (current line included) -/
theorem pot_requeue {force : Bool} {r p k : Nat} (hp : 0 < p) (hr : p + 1 ≤ r) (hk1 : 0 < k) (hk : k ≤ p + 1)
    (hf : k = p + 1 → force = true) :
    pot force (r - (p + 1 - k)) 0 < pot false r p := by
  have e2 : pot false r p = T r - p := by simp [pot]
  have hT := T_pred (r := r) (by omega)
  have hpos := T_pos r
  rw [e2]
  by_cases hw : k = p + 1
  · have := hf hw; subst this; subst hw
    have : r - (p + 1 - (p + 1)) = r := by omega
    rw [this]
    have : pot true r 0 = T (r - 1) + 1 := by simp [pot]; omega
    omega
  · have h1 := pot_le_T force (r - (p + 1 - k))
    have h2 := T_mono (a := r - (p + 1 - k)) (b := r - 1) (by omega)
    omega

/-- the closing requeue: `k` real lines of the `p` pending go back -/
theorem pot_close_requeue {force : Bool} {p k : Nat} (hp : 0 < p) (hk : k ≤ p)
    (hf : k + 1 = p + 1 → force = true) :
    pot force k 0 < pot false p p := by
  have e2 : pot false p p = T p - p := by simp [pot]
  have hT := T_pred (r := p) hp
  rw [e2]
  by_cases hw : k = p
  · have := hf (by omega); subst this; subst hw
    have : pot true k 0 = T (k - 1) + 1 := by simp [pot]; omega
    omega
  · have h1 := pot_le_T force k
    have h2 := T_mono (a := k) (b := p - 1) (by omega)
    omega


theorem T_add (a c : Nat) : T a + 3 * c ≤ T (a + c) := by
  induction c with
  | zero => simp
  | succ c ih =>
    have : a + (c + 1) = (a + c) + 1 := by omega
    rw [this]; simp only [T]; omega

/-- the pending definition is completed and the current line starts a new one -/
theorem pot_fresh {r p : Nat} (h : p + 1 ≤ r) : pot false (r - p) 1 < pot false r p := by
  simp only [pot, Bool.false_and, Bool.false_eq_true, ↓reduceIte]
  have h1 := T_add (r - p) p
  have : r - p + p = r := by omega
  rw [this] at h1
  have := T_pos (r - p)
  omega

/-! ## the invariant -/

structure Inv (all : List Line) (s : State) : Prop where
  layout : s.doc = s.committed ++ s.pending ++ s.cur.toList ++ s.requeue ++ s.src
  count : s.doc.length = all.length
  lineNo : s.lineNo = ((s.committed.length + s.pending.length + 1 : Nat) : Int)
  ign : s.ignore = true → s.pending = []
  closeIff : s.startClose = true ↔ s.cur = none
  closeEmpty : s.cur = none → s.requeue = [] ∧ s.src = []
  started : s.startedClose = true → s.src = []
  done : s.running = false → s.pending = [] ∧ s.cur = none

theorem inv_init (doc : List Line) : Inv doc (init doc) := by
  cases doc <;> constructor <;> simp [init]

theorem suffix_snoc {xs ys : List Line} {x y : Line} : xs ++ [x] <:+ ys ++ [y] ↔ x = y ∧ xs <:+ ys := by
  rw [← List.reverse_prefix, List.reverse_append, List.reverse_append]
  simp only [List.reverse_cons, List.reverse_nil, List.nil_append, List.singleton_append]
  rw [List.cons_prefix_cons, List.reverse_prefix]

theorem suffix_take {t p : List Line} (h : t <:+ p) : p.take (p.length - t.length) ++ t = p := by
  obtain ⟨u, rfl⟩ := h
  simp

theorem suffix_len {t p : List Line} (h : t <:+ p) : t.length ≤ p.length := h.length_le

/-- What a legal answer does, case by case.  `all` is the document.  Either the potential drops, or the
iteration is a block-quote restart: then the potential stays and the stack has shrunk. -/
theorem stepCore_spec {all : List Line} {s s' : State} {a : Answer}
    (hI : Inv all s) (hr : s.running = true) (hL : Legal s a) (hs : stepCore s a = .ok s') :
    Inv all s' ∧
      (if isSelfRequeue s a = true then s'.potential = s.potential ∧ a.depth < s.depth
       else s'.potential < s.potential) := by
  obtain ⟨hlay, hcnt, hln, hign, hci, hce, hst, -⟩ := hI
  unfold Legal at hL
  unfold stepCore at hs
  by_cases hc : s.startClose = true
  · -- closing iteration: never a restart
    have hself : isSelfRequeue s a = false := by simp [isSelfRequeue, hc]
    rw [hself]
    simp only [Bool.false_eq_true, ↓reduceIte]
    have hcur := hci.1 hc
    obtain ⟨hrq, hsrc⟩ := hce hcur
    simp only [hc, ↓reduceIte] at hs
    have hunc : s.uncommitted = s.pending.length := by simp [State.uncommitted, hcur, hrq, hsrc]
    cases har : a.requeue with
    | none =>
      simp only [har] at hs
      injection hs with hs; subst hs
      refine ⟨⟨?_, ?_, ?_, ?_, ?_, ?_, ?_, ?_⟩, ?_⟩
      · show s.doc = _
        rw [hlay]; simp [hcur, hrq, hsrc]
      · exact hcnt
      · simp [hln]
      · intro _; rfl
      · simp [hcur]
      · intro _; exact ⟨hrq, hsrc⟩
      · intro _; exact hsrc
      · intro _; exact ⟨rfl, hcur⟩
      · rw [potential_eq, potential_eq]; simp only [hr, ↓reduceIte]
        exact pot_pos (by omega)
    | some r =>
      obtain ⟨lines, force⟩ := r
      cases lines with
      | nil =>
        simp only [har] at hs
        injection hs with hs; subst hs
        refine ⟨⟨?_, ?_, ?_, ?_, ?_, ?_, ?_, ?_⟩, ?_⟩
        · show s.doc = _
          rw [hlay]; simp [hcur, hrq, hsrc]
        · exact hcnt
        · simp [hln]
        · intro _; rfl
        · simp [hcur]
        · intro _; exact ⟨hrq, hsrc⟩
        · intro _; exact hsrc
        · intro _; exact ⟨rfl, hcur⟩
        · rw [potential_eq, potential_eq]; simp only [hr, ↓reduceIte]
          exact pot_pos (by omega)
      | cons l ls =>
        rw [har] at hL
        simp only [LegalRq] at hL
        obtain ⟨-, -, hL⟩ := hL
        obtain ⟨hsuf, hhead, hforceP, hselfP⟩ := hL (by simp)
        have hl : l = [] := by simpa using hhead hc
        subst hl
        have hpne : s.pending ≠ [] := fun h => by have := (hselfP h).1; rw [hc] at this; cases this
        have hforce := hforceP hpne
        simp only [List.tail_cons] at hsuf
        have hpe : s.pending.isEmpty = false := by
          cases hp : s.pending with
          | nil => exact absurd hp hpne
          | cons _ _ => rfl
        simp only [har, hpe, List.isEmpty_nil, Bool.not_true, Bool.false_eq_true, ↓reduceIte] at hs
        injection hs with hs; subst hs
        have hsrc' : true = true → s.src = [] := fun _ => hsrc
        have hlen := suffix_len hsuf
        simp only [List.length_reverse] at hlen
        have htake := suffix_take hsuf
        simp only [List.length_reverse] at htake
        refine ⟨⟨?_, ?_, ?_, ?_, ?_, ?_, ?_, ?_⟩, ?_⟩
        · rw [kog_doc, kog_committed, kog_pending]
          have hq := kog_queue s (s.lineNo - 1) (some ⟨ls, force⟩) false true []
            (s.committed ++ s.pending.take (s.pending.length - ls.length)) hsrc'
          simp only [List.append_assoc] at hq ⊢
          rw [hq, hlay, hcur, hrq, hsrc]
          simp only [back, List.append_nil, Option.toList_none, List.nil_append]
          rw [htake]
        · rw [kog_doc]; exact hcnt
        · rw [kog_lineNo, kog_committed, kog_pending, hln]
          simp only [List.length_append, List.length_take, List.length_nil]
          omega
        · intro _; rw [kog_pending]
        · exact kog_close_iff _ _ _ _ _ _ _ rfl
        · exact kog_close_empty _ _ _ _ _ _ _ hsrc'
        · intro _; exact kog_started_src _ _ _ _ _ _ _ hsrc' rfl
        · rw [kog_running, hr]; intro h; cases h
        · rw [potential_eq, potential_eq, kog_running, kog_ignore, kog_pending,
            kog_uncommitted _ _ _ _ _ _ _ hsrc']
          simp only [hr, ↓reduceIte, hunc, back, hrq, hsrc, List.length_nil, List.length_reverse, Nat.add_zero,
            Nat.zero_add]
          have hi : s.ignore = false := by
            cases h : s.ignore with
            | false => rfl
            | true => exact absurd (hign h) hpne
          rw [hi]
          have hp0 : 0 < s.pending.length := List.length_pos_iff.mpr hpne
          exact pot_close_requeue hp0 hlen (by simpa using hforce)
  · -- a line is processed
    have hc' : s.startClose = false := by simpa using hc
    simp only [hc', Bool.false_eq_true, ↓reduceIte] at hs
    cases hcur : s.cur with
    | none => exact absurd (hci.2 hcur) hc
    | some l =>
      simp only [hcur] at hs
      have hsrc' : s.startedClose = true → s.src = [] := hst
      have hunc : s.uncommitted = s.pending.length + 1 + s.requeue.length + s.src.length := by
        simp [State.uncommitted, hcur]
      cases har : a.requeue with
      | some r =>
        simp only [har] at hs
        rw [har] at hL
        simp only [LegalRq] at hL
        obtain ⟨-, hne, hL⟩ := hL
        have hne' : r.lines ≠ [] := fun h => by have := hne h; rw [hc'] at this; cases this
        obtain ⟨hsuf, -, hforceP, hselfP⟩ := hL hne'
        obtain ⟨l0, prev, hl0⟩ : ∃ l0 prev, r.lines = l0 :: prev := by
          cases hr' : r.lines with
          | nil => exact absurd hr' hne'
          | cons x xs => exact ⟨x, xs, rfl⟩
        rw [hl0] at hsuf hs
        simp only [List.tail_cons] at hsuf
        injection hs with hs; subst hs
        have hlen := suffix_len hsuf
        simp only [List.length_reverse] at hlen
        have htake := suffix_take hsuf
        simp only [List.length_reverse] at htake
        have hlines : r.lines.length = prev.length + 1 := by rw [hl0]; rfl
        have htk : (s.pending ++ [l]).take (s.pending.length + 1 - (l0 :: prev).length)
            = s.pending.take (s.pending.length - prev.length) := by
          rw [List.length_cons]
          have : s.pending.length + 1 - (prev.length + 1) = s.pending.length - prev.length := by omega
          rw [this, List.take_append_of_le_length (by omega)]
        simp only [setDoc_potential]
        refine ⟨⟨?_, ?_, ?_, ?_, ?_, ?_, ?_, ?_⟩, ?_⟩
        · simp only [setDoc_doc, setDoc_committed, setDoc_pending, setDoc_cur, setDoc_requeue, setDoc_src]
          rw [kog_committed, kog_pending, htk]
          have hq := kog_queue s s.lineNo (some r) false s.startedClose []
            (s.committed ++ s.pending.take (s.pending.length - prev.length)) hsrc'
          simp only [List.append_assoc] at hq ⊢
          rw [hq]
          simp only [back, hl0, List.reverse_cons, List.append_assoc, List.nil_append, List.singleton_append]
          conv => lhs; rw [← htake]
          simp only [List.append_assoc]
        · simp only [setDoc_doc]
          rw [← hcnt, hlay, hcur]; simp
        · simp only [setDoc_lineNo, setDoc_committed, setDoc_pending]
          rw [kog_lineNo, kog_committed, kog_pending, hln, htk]
          simp only [List.length_append, List.length_take, List.length_nil, hlines]
          omega
        · simp only [setDoc_pending]; intro _; rw [kog_pending]
        · simp only [setDoc_startClose, setDoc_cur]; exact kog_close_iff _ _ _ _ _ _ _ rfl
        · simp only [setDoc_cur, setDoc_requeue, setDoc_src]; exact kog_close_empty _ _ _ _ _ _ _ hsrc'
        · simp only [setDoc_startedClose, setDoc_src]
          rw [kog_startedClose]; intro h; exact kog_started_src _ _ _ _ _ _ _ hsrc' h
        · simp only [setDoc_running]; rw [kog_running, hr]; intro h; cases h
        · rw [potential_eq, potential_eq, kog_running, kog_ignore, kog_pending,
            kog_uncommitted _ _ _ _ _ _ _ hsrc']
          simp only [hr, ↓reduceIte, hunc, back, List.length_nil, List.length_reverse, Nat.zero_add]
          by_cases hp : s.pending = []
          · -- (2) the block-quote restart: one line handed back, whatever its spelling
            obtain ⟨-, hig, hf, hd⟩ := hselfP hp
            have hself : isSelfRequeue s a = true := by simp [isSelfRequeue, har, hp, hc']
            rw [hself]; simp only [↓reduceIte]
            have h0 : prev.length ≤ 0 := by rw [hp] at hlen; exact hlen
            have h1 : r.lines.length = 1 := by rw [hlines]; omega
            rw [hig, hf, hp, h1]
            simp only [List.length_nil, Nat.zero_add]
            exact ⟨trivial, hd⟩
          · -- (1) handed back by the pending definition
            have hself : isSelfRequeue s a = false := by
              cases hpp : s.pending with
              | nil => exact absurd hpp hp
              | cons _ _ => simp [isSelfRequeue, hpp]
            rw [hself]; simp only [Bool.false_eq_true, ↓reduceIte]
            have hi : s.ignore = false := by
              cases h : s.ignore with
              | false => rfl
              | true => exact absurd (hign h) hp
            rw [hi]
            have hp0 : 0 < s.pending.length := List.length_pos_iff.mpr hp
            have := pot_requeue (force := r.force) (r := s.pending.length + 1 + s.requeue.length + s.src.length)
              (p := s.pending.length) (k := r.lines.length) hp0 (by omega) (by omega) (by omega) (hforceP hp)
            have e : s.pending.length + 1 + s.requeue.length + s.src.length - (s.pending.length + 1 - r.lines.length)
                = r.lines.length + s.requeue.length + s.src.length := by omega
            rw [e] at this
            exact this
      | none =>
        have hself : isSelfRequeue s a = false := by simp [isSelfRequeue, har]
        rw [hself]; simp only [Bool.false_eq_true, ↓reduceIte]
        simp only [har] at hs
        rw [har] at hL
        simp only [LegalRq, hc', Bool.false_eq_true, ↓reduceIte] at hL
        by_cases hh : a.hold = true
        · simp only [hh, ↓reduceIte] at hs
          have hi : s.ignore = false := by
            cases h : s.ignore with
            | false => rfl
            | true => have := hL hh (hign h); rw [h] at this; exact absurd this (by simp)
          by_cases hf : a.fresh = true
          · simp only [hf, ↓reduceIte] at hs
            injection hs with hs; subst hs
            refine ⟨⟨?_, ?_, ?_, ?_, ?_, ?_, ?_, ?_⟩, ?_⟩
            · rw [kog_doc, kog_committed, kog_pending]
              have hq := kog_queue s s.lineNo none false s.startedClose [l] (s.committed ++ s.pending) hsrc'
              simp only [List.append_assoc] at hq ⊢
              rw [hq, hlay, hcur]
              simp [back]
            · rw [kog_doc]; exact hcnt
            · rw [kog_lineNo, kog_committed, kog_pending, hln]
              simp only [List.length_append, List.length_singleton]
              omega
            · rw [kog_ignore]; intro h; exact absurd h (by simp)
            · exact kog_close_iff _ _ _ _ _ _ _ rfl
            · exact kog_close_empty _ _ _ _ _ _ _ hsrc'
            · rw [kog_startedClose]; intro h; exact kog_started_src _ _ _ _ _ _ _ hsrc' h
            · rw [kog_running, hr]; intro h; cases h
            · rw [potential_eq, potential_eq, kog_running, kog_ignore, kog_pending,
                kog_uncommitted _ _ _ _ _ _ _ hsrc']
              simp only [hr, ↓reduceIte, hunc, back, List.length_nil, List.length_singleton, Nat.add_zero, hi]
              have := pot_fresh (r := s.pending.length + 1 + s.requeue.length + s.src.length) (p := s.pending.length) (by omega)
              have e : s.pending.length + 1 + s.requeue.length + s.src.length - s.pending.length
                  = 1 + s.requeue.length + s.src.length := by omega
              rw [e] at this
              exact this
          · have hf' : a.fresh = false := by simpa using hf
            simp only [hf', Bool.false_eq_true, ↓reduceIte] at hs
            injection hs with hs; subst hs
            refine ⟨⟨?_, ?_, ?_, ?_, ?_, ?_, ?_, ?_⟩, ?_⟩
            · rw [kog_doc, kog_committed, kog_pending]
              have hq := kog_queue s s.lineNo none false s.startedClose (s.pending ++ [l]) s.committed hsrc'
              simp only [List.append_assoc] at hq ⊢
              rw [hq, hlay, hcur]
              simp [back]
            · rw [kog_doc]; exact hcnt
            · rw [kog_lineNo, kog_committed, kog_pending, hln]
              simp only [List.length_append, List.length_singleton]
              omega
            · rw [kog_ignore]; intro h; exact absurd h (by simp)
            · exact kog_close_iff _ _ _ _ _ _ _ rfl
            · exact kog_close_empty _ _ _ _ _ _ _ hsrc'
            · rw [kog_startedClose]; intro h; exact kog_started_src _ _ _ _ _ _ _ hsrc' h
            · rw [kog_running, hr]; intro h; cases h
            · rw [potential_eq, potential_eq, kog_running, kog_ignore, kog_pending,
                kog_uncommitted _ _ _ _ _ _ _ hsrc']
              simp only [hr, ↓reduceIte, hunc, back, List.length_nil, List.length_append, List.length_singleton,
                Nat.add_zero, hi]
              have := pot_hold (r := s.pending.length + 1 + s.requeue.length + s.src.length) (p := s.pending.length) (by omega)
              exact this
        · have hh' : a.hold = false := by simpa using hh
          simp only [hh', Bool.false_eq_true, ↓reduceIte] at hs
          injection hs with hs; subst hs
          refine ⟨⟨?_, ?_, ?_, ?_, ?_, ?_, ?_, ?_⟩, ?_⟩
          · rw [kog_doc, kog_committed, kog_pending]
            have hq := kog_queue s s.lineNo none false s.startedClose [] (s.committed ++ s.pending ++ [l]) hsrc'
            simp only [List.append_assoc] at hq ⊢
            rw [hq, hlay, hcur]
            simp [back]
          · rw [kog_doc]; exact hcnt
          · rw [kog_lineNo, kog_committed, kog_pending, hln]
            simp only [List.length_append, List.length_singleton, List.length_nil]
            omega
          · intro _; rw [kog_pending]
          · exact kog_close_iff _ _ _ _ _ _ _ rfl
          · exact kog_close_empty _ _ _ _ _ _ _ hsrc'
          · rw [kog_startedClose]; intro h; exact kog_started_src _ _ _ _ _ _ _ hsrc' h
          · rw [kog_running, hr]; intro h; cases h
          · rw [potential_eq, potential_eq, kog_running, kog_ignore, kog_pending,
              kog_uncommitted _ _ _ _ _ _ _ hsrc']
            simp only [hr, ↓reduceIte, hunc, back, List.length_nil, Nat.add_zero, Nat.zero_add]
            have := pot_commit (ign := s.ignore) (r := s.pending.length + 1 + s.requeue.length + s.src.length)
              (p := s.pending.length) (by omega) (fun h => by simp [hign h])
            have e : s.pending.length + 1 + s.requeue.length + s.src.length - s.pending.length - 1
                = s.requeue.length + s.src.length := by omega
            rw [e] at this
            exact this

theorem inv_depth {all : List Line} {s : State} (d : Nat) (h : Inv all s) : Inv all { s with depth := d } :=
  ⟨h.layout, h.count, h.lineNo, h.ign, h.closeIff, h.closeEmpty, h.started, h.done⟩

theorem potential_depth (s : State) (d : Nat) : ({ s with depth := d } : State).potential = s.potential := rfl

theorem step_eq {s s' : State} {a : Answer} (h : step s a = .ok s') :
    ∃ c, stepCore s a = .ok c ∧ s' = { c with depth := a.depth } := by
  unfold step at h
  cases hc : stepCore s a with
  | error e => rw [hc] at h; cases h
  | ok c => rw [hc] at h; injection h with h; exact ⟨c, rfl, h.symm⟩

theorem step_spec {all : List Line} {s s' : State} {a : Answer}
    (hI : Inv all s) (hr : s.running = true) (hL : Legal s a) (hs : step s a = .ok s') :
    Inv all s' ∧ s'.depth = a.depth ∧
      (if isSelfRequeue s a = true then s'.potential = s.potential ∧ s'.depth < s.depth
       else s'.potential < s.potential) := by
  obtain ⟨c, hc, rfl⟩ := step_eq hs
  obtain ⟨hI', hp⟩ := stepCore_spec hI hr hL hc
  exact ⟨inv_depth _ hI', rfl, hp⟩

/-- Under the protocol the main loop's own assertions never fire. -/
theorem legal_step_ok {all : List Line} {s : State} {a : Answer}
    (hI : Inv all s) (hL : Legal s a) : ∃ s', step s a = .ok s' := by
  suffices h : ∃ c, stepCore s a = .ok c by
    obtain ⟨c, hc⟩ := h
    exact ⟨_, by unfold step; rw [hc]⟩
  obtain ⟨-, -, -, -, hci, -, -, -⟩ := hI
  unfold Legal at hL
  unfold stepCore
  by_cases hc : s.startClose = true
  · simp only [hc, ↓reduceIte]
    cases har : a.requeue with
    | none => exact ⟨_, rfl⟩
    | some r =>
      obtain ⟨lines, force⟩ := r
      cases lines with
      | nil => exact ⟨_, rfl⟩
      | cons l ls =>
        rw [har] at hL
        simp only [LegalRq] at hL
        obtain ⟨-, -, hL⟩ := hL
        obtain ⟨-, hhead, -, hselfP⟩ := hL (by simp)
        have hl : l = [] := by simpa using hhead hc
        subst hl
        have hpne : s.pending ≠ [] := fun h => by have := (hselfP h).1; rw [hc] at this; cases this
        have hpe : s.pending.isEmpty = false := by
          cases hp : s.pending with
          | nil => exact absurd hp hpne
          | cons _ _ => rfl
        simp only [hpe, List.isEmpty_nil, Bool.not_true, Bool.false_eq_true, ↓reduceIte]
        exact ⟨_, rfl⟩
  · have hc' : s.startClose = false := by simpa using hc
    simp only [hc', Bool.false_eq_true, ↓reduceIte]
    cases hcur : s.cur with
    | none => exact absurd (hci.2 hcur) hc
    | some l =>
      simp only
      cases a.requeue with
      | some r => exact ⟨_, rfl⟩
      | none => simp only; repeat' split
                all_goals exact ⟨_, rfl⟩

/-- exact accounting: iterations ≤ potential drop + number of block-quote restarts -/
theorem legalRun_spec {all : List Line} {s t : State} {as : List Answer}
    (hI : Inv all s) (h : LegalRun s as t) :
    Inv all t ∧ t.potential + as.length ≤ s.potential + selfSteps s as := by
  induction h with
  | nil s => exact ⟨hI, by simp [selfSteps]⟩
  | @cons s s' t a as hr hL hs _ ih =>
    obtain ⟨hI', -, hp⟩ := step_spec hI hr hL hs
    obtain ⟨hIt, hle⟩ := ih hI'
    refine ⟨hIt, ?_⟩
    simp only [List.length_cons, selfSteps, hs]
    split at hp
    · next hself => rw [if_pos hself]; omega
    · next hself => rw [if_neg hself]; omega

/-- with a bound `K` on the stack depth: a weighted potential that drops at every iteration -/
theorem legalRun_depth {all : List Line} {s t : State} {as : List Answer} (K : Nat)
    (hI : Inv all s) (h : LegalRun s as t) (hK : ∀ a ∈ as, a.depth ≤ K) :
    (K + 1) * t.potential + t.depth + as.length ≤ (K + 1) * s.potential + s.depth := by
  induction h with
  | nil s => simp
  | @cons s s' t a as hr hL hs _ ih =>
    obtain ⟨hI', hd, hp⟩ := step_spec hI hr hL hs
    have hle := ih hI' (fun b hb => hK b (List.mem_cons_of_mem _ hb))
    have haK : s'.depth ≤ K := by rw [hd]; exact hK a (by simp)
    simp only [List.length_cons]
    split at hp
    · obtain ⟨he, hlt⟩ := hp
      rw [he] at hle; omega
    · have hm : (K + 1) * (s'.potential + 1) ≤ (K + 1) * s.potential := Nat.mul_le_mul_left _ hp
      rw [Nat.mul_add, Nat.mul_one] at hm
      omega

/-- a step that hands the current line back verbatim (or hands nothing back) leaves the document as it was -/
theorem step_doc_exact {all : List Line} {s s' : State} {a : Answer}
    (hI : Inv all s) (hs : step s a = .ok s') (hex : exactStep s a = true) : s'.doc = s.doc := by
  obtain ⟨c, hc, rfl⟩ := step_eq hs
  show c.doc = s.doc
  obtain ⟨hlay, -, -, -, -, -, -, -⟩ := hI
  unfold stepCore at hc
  split at hc
  · -- closing
    split at hc
    · split at hc
      · cases hc
      · split at hc
        · cases hc
        · injection hc with hc; subst hc; exact kog_doc _ _ _ _ _ _ _
    · injection hc with hc; subst hc; rfl
  · next hclose =>
    split at hc
    · cases hc
    · next l hcur =>
      split at hc
      · next r har =>
        injection hc with hc; subst hc
        simp only [setDoc_doc]
        split
        · next l' rest hl' =>
          unfold exactStep at hex
          have hsc : s.startClose = false := by simpa using hclose
          rw [hsc, hcur, har] at hex
          simp only [Bool.false_or, hl', beq_iff_eq] at hex
          subst hex
          rw [hlay, hcur]; simp
        · rfl
      · split at hc
        · split at hc <;> (injection hc with hc; subst hc; exact kog_doc _ _ _ _ _ _ _)
        · injection hc with hc; subst hc; exact kog_doc _ _ _ _ _ _ _

theorem legalRun_exact {all : List Line} {s t : State} {as : List Answer}
    (hI : Inv all s) (h : LegalRun s as t) (hex : allExact s as = true) : t.doc = s.doc := by
  induction h with
  | nil s => rfl
  | @cons s s' t a as hr hL hs _ ih =>
    simp only [allExact, hs, Bool.and_eq_true] at hex
    obtain ⟨hI', -, -⟩ := step_spec hI hr hL hs
    rw [ih hI' hex.2, step_doc_exact hI hs hex.1]

theorem potential_init (doc : List Line) : (init doc).potential = T doc.length := by
  cases doc <;> simp [State.potential, init, State.uncommitted, Nat.add_comm]

/-- `replay` accepts exactly the legal runs. -/
theorem replay_ok_iff {s t : State} {as : List Answer} {i : Nat} :
    replay s as i = .ok t ↔ LegalRun s as t := by
  induction as generalizing s i with
  | nil => simp only [replay]; constructor
           · intro h; injection h with h; subst h; exact .nil _
           · intro h; cases h; rfl
  | cons a as ih =>
    simp only [replay]
    constructor
    · intro h
      split at h
      · cases h
      · split at h
        · cases h
        · next hr hL =>
          split at h
          · cases h
          · next s' hs =>
            exact .cons (by simpa using hr) (by simpa using hL) hs (ih.1 h)
    · intro h
      cases h with
      | cons hr hL hs hrest =>
        simp only [hr, Bool.not_true, Bool.false_eq_true, ↓reduceIte, hL, not_true_eq_false, hs]
        exact ih.2 hrest

end Verif.Model.MainLoop
