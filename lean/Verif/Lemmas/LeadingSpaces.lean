/-
  Lemmas about `Verif.Model.LeadingSpaces` (the per-line prefix store of container tokens).
-/
import Verif.Model.LeadingSpaces
import Verif.Lemmas.Lines
namespace Verif.Lemmas.LeadingSpaces
open Verif.Model.LeadingSpaces
open Verif.Model.Lines (Str NL splitNL joinNL splitOn joinOn)
open Verif.Lemmas.Lines

/-! ## `rfind` -/

theorem rfindNL_none {s : Str} : rfindNL s = none ↔ NL ∉ s := by
  induction s with
  | nil => simp [rfindNL]
  | cons c cs ih =>
    unfold rfindNL
    cases h : rfindNL cs with
    | some i =>
      simp only [reduceCtorEq, List.mem_cons, not_or, false_iff, not_and, Decidable.not_not]
      intro _
      have : ¬ (NL ∉ cs) := fun hn => by rw [ih.mpr hn] at h; cases h
      exact Decidable.not_not.mp this
    | none =>
      have hcs := ih.mp h
      by_cases hc : c = NL
      · simp [hc]
      · simp only [hc, ↓reduceIte, List.mem_cons, not_or, true_iff]
        exact ⟨fun e => hc e.symm, hcs⟩

/-- the index `rfind` returns splits the string at its last newline -/
theorem rfindNL_some {s : Str} {i : Nat} (h : rfindNL s = some i) :
    s = s.take i ++ NL :: s.drop (i + 1) ∧ NL ∉ s.drop (i + 1) := by
  induction s generalizing i with
  | nil => cases h
  | cons c cs ih =>
    unfold rfindNL at h
    cases hr : rfindNL cs with
    | some j =>
      rw [hr] at h
      injection h with h; subst h
      obtain ⟨h1, h2⟩ := ih hr
      refine ⟨?_, by simpa using h2⟩
      simp only [List.take_succ_cons, List.drop_succ_cons, List.cons_append]
      rw [← h1]
    | none =>
      rw [hr] at h
      simp only at h
      split at h
      · next hc =>
        injection h with h; subst h
        subst hc
        exact ⟨by simp, by simpa using rfindNL_none.mp hr⟩
      · cases h

theorem rfindNL_append {s ws : Str} (h : NL ∉ ws) : rfindNL (s ++ NL :: ws) = some s.length := by
  induction s with
  | nil =>
    simp only [List.nil_append, List.length_nil]
    unfold rfindNL
    rw [rfindNL_none.mpr h]; simp
  | cons c cs ih =>
    simp only [List.cons_append, List.length_cons]
    unfold rfindNL
    rw [ih]

/-! ## `join` at the end -/

theorem joinOn_snoc (sep : Char) (ls : List Str) (p : Str) (h : ls ≠ []) :
    joinOn sep (ls ++ [p]) = joinOn sep ls ++ sep :: p := by
  induction ls with
  | nil => exact absurd rfl h
  | cons l ls ih =>
    cases ls with
    | nil => rfl
    | cons m ms =>
      rw [List.cons_append, List.cons_append, joinOn_cons_cons, joinOn_cons_cons]
      rw [← List.cons_append, ih (by simp)]
      simp

theorem count_joinOn (sep : Char) (ls : List Str) (hne : ls ≠ []) (h : ∀ l ∈ ls, sep ∉ l) :
    (joinOn sep ls).count sep + 1 = ls.length := by
  rw [← splitOn_length, splitOn_joinOn sep ls hne h]

/-! ## the list token -/

theorem foldl_add_some (ps ls : List Str) (h : ls ≠ []) :
    (ps.foldl ListTok.add ⟨some (joinNL ls)⟩) = ⟨some (joinNL (ls ++ ps))⟩ := by
  induction ps generalizing ls with
  | nil => simp
  | cons p ps ih =>
    rw [List.foldl_cons]
    have : ListTok.add ⟨some (joinNL ls)⟩ p = ⟨some (joinNL (ls ++ [p]))⟩ := by
      simp only [ListTok.add, joinNL]
      rw [joinOn_snoc NL ls p h]
    rw [this, ih (ls ++ [p]) (by simp)]
    simp

theorem storeAllList_nil : storeAllList [] = ⟨none⟩ := rfl

theorem storeAllList_cons (p : Str) (ps : List Str) : storeAllList (p :: ps) = ⟨some (joinNL (p :: ps))⟩ := by
  unfold storeAllList
  rw [List.foldl_cons]
  have : ListTok.add ListTok.new p = ⟨some (joinNL [p])⟩ := rfl
  rw [this, foldl_add_some ps [p] (by simp)]
  rfl

theorem drain_eq (s : Str) : ∀ (n idx : Nat), idx + n ≤ (splitNL s).length →
    drain (some s) n idx = .ok (((splitNL s).drop idx).take n)
  | 0, _, _ => by simp [drain]
  | n + 1, idx, h => by
    have hl : idx < (splitNL s).length := by omega
    unfold drain adjustPart
    simp only [List.getElem?_eq_getElem hl]
    rw [drain_eq s n (idx + 1) (by omega)]
    simp only
    rw [List.drop_eq_getElem_cons hl, List.take_succ_cons]

/-- past the end `__adjust` fails its assertion -/
theorem adjustPart_past (leading : Option Str) (idx : Nat) (h : partCount leading ≤ idx) (hs : leading ≠ none) :
    adjustPart leading idx = .error .assertion := by
  cases leading with
  | none => exact absurd rfl hs
  | some s =>
    unfold adjustPart
    simp only [partCount] at h
    simp only [List.getElem?_eq_none h]

/-! ## the block-quote token -/

theorem addLine_leading_empty (t : BqTok) (p : Str) (h : t.leading = []) : (t.addLine p).leading = p := by
  simp [BqTok.addLine, BqTok.add, BqTok.incIdx, h]

theorem addLine_leading_nonempty (t : BqTok) (p : Str) (h : t.leading ≠ []) :
    (t.addLine p).leading = t.leading ++ NL :: p := by
  simp [BqTok.addLine, BqTok.add, BqTok.incIdx, h]

theorem addLine_idx (t : BqTok) (p : Str) (tab : Option Str) : (t.addLine p tab).idx = t.idx + 1 := by
  simp [BqTok.addLine, BqTok.add, BqTok.incIdx]

theorem addLine_tabbed (t : BqTok) (p : Str) : (t.addLine p).tabbed = t.tabbed := by
  simp [BqTok.addLine, BqTok.add, BqTok.incIdx]

theorem foldl_addLine_tabbed (ps : List Str) (t : BqTok) :
    (ps.foldl (fun t p => t.addLine p) t).tabbed = t.tabbed := by
  induction ps generalizing t with
  | nil => rfl
  | cons p ps ih => rw [List.foldl_cons, ih, addLine_tabbed]

theorem foldl_addLine_idx (ps : List Str) (t : BqTok) :
    (ps.foldl (fun t p => t.addLine p) t).idx = t.idx + ps.length := by
  induction ps generalizing t with
  | nil => simp
  | cons p ps ih => rw [List.foldl_cons, ih, addLine_idx]; simp; omega

theorem joinOn_ne_nil_of_two (sep : Char) (l m : Str) (ls : List Str) : joinOn sep (l :: m :: ls) ≠ [] := by
  rw [joinOn_cons_cons]; simp

theorem foldl_addLine_nonempty (ps ls : List Str) (t : BqTok) (hls : ls ≠ []) (ht : t.leading = joinNL ls)
    (hne : t.leading ≠ []) :
    (ps.foldl (fun t p => t.addLine p) t).leading = joinNL (ls ++ ps) := by
  induction ps generalizing ls t with
  | nil => simpa using ht
  | cons p ps ih =>
    rw [List.foldl_cons]
    have h1 : (t.addLine p).leading = joinNL (ls ++ [p]) := by
      rw [addLine_leading_nonempty t p hne, ht]
      simp only [joinNL]
      rw [joinOn_snoc NL ls p hls]
    have h2 : (t.addLine p).leading ≠ [] := by
      rw [addLine_leading_nonempty t p hne]; simp
    rw [ih (ls ++ [p]) (t.addLine p) (by simp) h1 h2]
    simp

theorem foldl_addLine_empty (ps : List Str) (t : BqTok) (ht : t.leading = []) :
    (ps.foldl (fun t p => t.addLine p) t).leading = joinNL (ps.dropWhile (fun p => p.isEmpty)) := by
  induction ps generalizing t with
  | nil => simpa [joinNL, joinOn] using ht
  | cons p ps ih =>
    rw [List.foldl_cons]
    have hl := addLine_leading_empty t p ht
    by_cases hp : p = []
    · subst hp
      rw [ih (t.addLine []) hl]
      simp
    · have hd : (p :: ps).dropWhile (fun p => p.isEmpty) = p :: ps := by
        rw [List.dropWhile_cons]
        have : p.isEmpty = false := by cases p with | nil => exact absurd rfl hp | cons _ _ => rfl
        simp [this]
      rw [hd]
      have := foldl_addLine_nonempty ps [p] (t.addLine p) (by simp) (by rw [hl]; rfl) (by rw [hl]; exact hp)
      simpa using this

theorem storeAllBq_leading (ps : List Str) :
    (storeAllBq ps).leading = joinNL (ps.dropWhile (fun p => p.isEmpty)) :=
  foldl_addLine_empty ps BqTok.new rfl

theorem storeAllBq_tabbed (ps : List Str) : (storeAllBq ps).tabbed = [] :=
  foldl_addLine_tabbed ps BqTok.new

theorem storeAllBq_idx (ps : List Str) : (storeAllBq ps).idx = ps.length := by
  have := foldl_addLine_idx ps BqTok.new
  simpa [storeAllBq, BqTok.new] using this

theorem pyGet_nat {α : Type} (l : List α) (k : Nat) : pyGet l (k : Int) = l[k]? := by
  simp [pyGet]

/-- with no tabbed originals and an index inside the store, `calculate_next_bleading_space_part()` returns the part
at the index and moves the index on -/
theorem calcNext_nat (t : BqTok) (k : Nat) (hi : t.idx = k) (ht : t.tabbed = []) :
    t.calcNext = match (splitNL t.leading)[k]? with
      | some p => .ok (p, { t with idx := (k : Int) + 1 })
      | none => .error .index := by
  unfold BqTok.calcNext
  simp only [ht, List.isEmpty_nil, Bool.not_true, Bool.and_false, Bool.false_and, Bool.false_eq_true, ↓reduceIte,
    Int.add_zero, hi, pyGet_nat]
  cases (splitNL t.leading)[k]? <;> rfl

theorem drainBq_eq (s : Str) (tb : Bool) : ∀ (n k : Nat), k + n ≤ (splitNL s).length →
    drainBq n ⟨s, (k : Int), [], tb⟩ = .ok (((splitNL s).drop k).take n)
  | 0, _, _ => by simp [drainBq]
  | n + 1, k, h => by
    have hl : k < (splitNL s).length := by omega
    unfold drainBq
    rw [calcNext_nat ⟨s, (k : Int), [], tb⟩ k rfl rfl]
    simp only [List.getElem?_eq_getElem hl]
    have : ((k : Int) + 1) = ((k + 1 : Nat) : Int) := by omega
    rw [this, drainBq_eq s tb n (k + 1) (by omega)]
    simp only
    rw [List.drop_eq_getElem_cons hl, List.take_succ_cons]

theorem consumeAllBq_eq (t : BqTok) (ht : t.tabbed = []) : consumeAllBq t = .ok (splitNL t.leading) := by
  unfold consumeAllBq BqTok.resetIdx
  have := drainBq_eq t.leading t.kludge5 (splitNL t.leading).length 0 (by omega)
  simp only [List.drop_zero, List.take_length] at this
  rw [← this]
  congr 1
  cases t; simp_all

theorem dropWhile_noNL (ps : List Str) (h : ∀ p ∈ ps, NL ∉ p) :
    ∀ p ∈ ps.dropWhile (fun p => p.isEmpty), NL ∉ p :=
  fun p hp => h p ((List.dropWhile_sublist _).subset hp)

/-! ## the index invariant -/

theorem count_pos (t : BqTok) : 1 ≤ t.count := by
  unfold BqTok.count splitNL; rw [splitOn_length]; omega

theorem count_eq (t : BqTok) : t.count = t.leading.count NL + 1 := by
  unfold BqTok.count splitNL; rw [splitOn_length]

theorem count_NL_zero {s : Str} (h : NL ∉ s) : s.count NL = 0 := List.count_eq_zero.mpr h

/-- the index lies inside the store (as the code counts its parts) -/
def BqInv (t : BqTok) : Prop := 0 ≤ t.idx ∧ t.idx ≤ t.count

theorem calcNext_state {t : BqTok} {inc : Bool} {d : Int} {ao : Bool} {p : Str} {t' : BqTok}
    (h : t.calcNext inc d ao = .ok (p, t')) : t' = if inc then { t with idx := t.idx + 1 } else t := by
  unfold BqTok.calcNext at h
  simp only at h
  split at h
  · cases h
  · split at h
    · cases h
    · split at h
      · cases h
      · injection h with h
        injection h with _ h
        exact h.symm

theorem removeLast_inv (t : BqTok) (hI : BqInv t) (hL : 1 ≤ t.idx) : BqInv t.removeLast.2 := by
  obtain ⟨h0, h1⟩ := hI
  rw [count_eq] at h1
  unfold BqTok.removeLast
  cases hr : rfindNL t.leading with
  | none =>
    have := count_NL_zero (rfindNL_none.mp hr)
    simp only [BqInv, count_eq, List.count_nil]
    omega
  | some i =>
    obtain ⟨hs, hn⟩ := rfindNL_some hr
    have hc : t.leading.count NL = (t.leading.take i).count NL + 1 := by
      conv => lhs; rw [hs]
      rw [List.count_append, List.count_cons_self, count_NL_zero hn]
    simp only [BqInv, count_eq]
    omega

theorem add_inv (t : BqTok) (ws : Str) (skip : Bool) (tab : Option Str) (hI : BqInv t) : BqInv (t.add ws skip tab) := by
  obtain ⟨h0, h1⟩ := hI
  rw [count_eq] at h1
  unfold BqTok.add
  simp only [BqInv, count_eq]
  refine ⟨h0, ?_⟩
  cases skip with
  | true =>
    simp only [↓reduceIte, List.count_append]
    omega
  | false =>
    simp only [Bool.false_eq_true, ↓reduceIte]
    split
    · simp only [List.count_append, List.count_cons_self]
      omega
    · next hne =>
      have : t.leading = [] := by simpa using hne
      rw [this] at h1
      simp only [List.count_nil] at h1
      omega

theorem addLine_inv (t : BqTok) (ws : Str) (tab : Option Str) (hI : BqInv t) (hws : NL ∉ ws)
    (hL : t.leading ≠ [] ∨ t.idx = 0) : BqInv (t.addLine ws tab) := by
  obtain ⟨h0, h1⟩ := hI
  rw [count_eq] at h1
  unfold BqTok.addLine BqTok.incIdx BqTok.add
  simp only [BqInv, count_eq, Bool.false_eq_true, ↓reduceIte]
  have hz := count_NL_zero hws
  by_cases hne : t.leading = []
  · have hi : t.idx = 0 := by
      rcases hL with hL | hL
      · exact absurd hne hL
      · exact hL
    simp only [hne, ne_eq, not_true_eq_false, ↓reduceIte, hz, hi]
    omega
  · simp only [ne_eq, hne, not_false_eq_true, ↓reduceIte, List.count_append, List.count_cons_self, hz]
    omega

/-- one legal operation keeps the index inside the store -/
theorem bq_step_inv (t : BqTok) (op : BqOp) (hI : BqInv t) (hL : t.Legal op) : BqInv (t.apply op) := by
  cases op with
  | addLine ws tab => exact addLine_inv t ws tab hI hL.1 hL.2
  | add ws skip tab => exact add_inv t ws skip tab hI
  | removeLast => exact removeLast_inv t hI hL
  | next =>
    simp only [BqTok.apply]
    cases hc : t.calcNext with
    | error e => exact hI
    | ok v =>
      obtain ⟨p, t'⟩ := v
      have := calcNext_state hc
      simp only [↓reduceIte] at this
      subst this
      obtain ⟨h0, h1⟩ := hI
      have hL' : t.idx < t.count := hL
      simp only [BqInv, BqTok.count] at *
      omega
  | peek d =>
    simp only [BqTok.apply]
    cases hc : t.calcNext false d with
    | error e => exact hI
    | ok v =>
      obtain ⟨p, t'⟩ := v
      have := calcNext_state hc
      simp only [Bool.false_eq_true, ↓reduceIte] at this
      subst this
      exact hI
  | incIdx =>
    obtain ⟨h0, h1⟩ := hI
    have hL' : t.idx < t.count := hL
    simp only [BqTok.apply, BqTok.incIdx, BqInv, BqTok.count] at *
    omega
  | resetIdx =>
    have := count_pos t
    simp only [BqTok.apply, BqTok.resetIdx, BqInv, BqTok.count] at *
    omega
  | setIdx v =>
    have hL' : 0 ≤ v ∧ v ≤ t.count := hL
    simp only [BqTok.apply, BqInv, BqTok.count] at *
    exact hL'

theorem bq_run_inv {t : BqTok} {ops : List BqOp} {t' : BqTok} (h : BqTok.LegalRun t ops t') (hI : BqInv t) : BqInv t' := by
  induction h with
  | nil t => exact hI
  | cons hL _ ih => exact ih (bq_step_inv _ _ hI hL)

end Verif.Lemmas.LeadingSpaces
