/-
  LeanMark — `L_inline_balanced`: the inline event list of every leaf is well bracketed
  (`openEmph/closeEmph`, `openStrong/closeStrong`, `openLink/closeLink`, `openImage/closeImage` nest
  properly), for every reference map and every text.
-/
import Verif.Model.LeanMark.Inline
namespace Verif.Model.LeanMark

inductive ITag where
  | emph | strong | link | image
  deriving DecidableEq, Repr

def ipop (t : ITag) : List ITag → Option (List ITag)
  | x :: r => if x = t then some r else none
  | [] => none

def istep (st : List ITag) : IEv → Option (List ITag)
  | .openEmph _ => some (.emph :: st)
  | .closeEmph => ipop .emph st
  | .openStrong _ => some (.strong :: st)
  | .closeStrong => ipop .strong st
  | .openLink .. => some (.link :: st)
  | .closeLink => ipop .link st
  | .openImage .. => some (.image :: st)
  | .closeImage => ipop .image st
  | _ => some st

/-- balanced in every context (frame form: composes under concatenation). -/
def IBal (es : List IEv) : Prop := ∀ st, es.foldlM istep st = some st

/-- the usual statement: replay from the empty stack ends with the empty stack. -/
def IWellNested (es : List IEv) : Prop := es.foldlM istep [] = some []

theorem IBal.nil : IBal [] := fun _ => rfl

theorem IBal.append {a b : List IEv} (ha : IBal a) (hb : IBal b) : IBal (a ++ b) := by
  intro st
  simp [List.foldlM_append, ha st, hb st]

theorem IBal.wrap {body : List IEv} (o c : IEv) (t : ITag) (hb : IBal body)
    (ho : ∀ st, istep st o = some (t :: st)) (hc : ∀ st, istep (t :: st) c = some st) :
    IBal (o :: body ++ [c]) := by
  intro st
  simp [List.foldlM_cons, List.foldlM_append, ho st, hb (t :: st), hc st]

def Neutral (e : IEv) : Prop := ∀ st, istep st e = some st

theorem IBal.single {e : IEv} (h : Neutral e) : IBal [e] := by
  intro st; simp [List.foldlM_cons, h st]

def ItemOK : Item → Prop
  | .ev es => IBal es
  | .text .. => True
  | .delim .. => True
  | .bracket .. => True

def AllOK (l : List Item) : Prop := ∀ it ∈ l, ItemOK it

theorem neutral_text (s : List Char) (p : Pos) : Neutral (.text s p) := fun _ => rfl

theorem ItemOK.ofDelim (ch : Char) (n o : Nat) (a b : Bool) (p : Pos) : ItemOK (.delim ch n o a b p) := True.intro
theorem ItemOK.ofText (r : List Char) (p : Pos) : ItemOK (.text r p) := True.intro
theorem ItemOK.ofBracket (i a b : Bool) (p : Pos) (s : List Char) (o : Nat) : ItemOK (.bracket i a b p s o) :=
  True.intro

theorem itemEvents_bal {it : Item} (h : ItemOK it) : IBal (itemEvents it) := by
  cases it with
  | text r p => simp only [itemEvents]; exact IBal.single (neutral_text _ _)
  | ev es => exact h
  | delim ch n o a b p =>
    simp only [itemEvents]
    split
    · exact IBal.nil
    · exact IBal.single (neutral_text _ _)
  | bracket i a b p s o => simp only [itemEvents]; exact IBal.single (neutral_text _ _)

theorem flatMap_bal : ∀ (l : List Item), AllOK l → IBal (l.flatMap itemEvents)
  | [], _ => IBal.nil
  | it :: r, h => by
    simp only [List.flatMap_cons]
    exact (itemEvents_bal (h it List.mem_cons_self)).append
      (flatMap_bal r (fun x hx => h x (List.mem_cons_of_mem _ hx)))

theorem flattenRev_bal {l : List Item} (h : AllOK l) : IBal (flattenRev l) :=
  flatMap_bal _ (fun it hit => h it (List.mem_reverse.mp hit))

theorem AllOK.cons {it : Item} {l : List Item} (h1 : ItemOK it) (h2 : AllOK l) : AllOK (it :: l) := by
  intro x hx
  rcases List.mem_cons.mp hx with rfl | hx
  · exact h1
  · exact h2 x hx

theorem AllOK.tail {it : Item} {l : List Item} (h : AllOK (it :: l)) : AllOK l :=
  fun x hx => h x (List.mem_cons_of_mem _ hx)

theorem AllOK.append {a b : List Item} (ha : AllOK a) (hb : AllOK b) : AllOK (a ++ b) := by
  intro x hx
  rcases List.mem_append.mp hx with hx | hx
  · exact ha x hx
  · exact hb x hx

theorem AllOK.reverse {a : List Item} (ha : AllOK a) : AllOK a.reverse :=
  fun x hx => ha x (List.mem_reverse.mp hx)

/-! ## emphasis resolution -/
theorem findOpener_ok (ch : Char) (co : Nat) (cc : Bool) :
    ∀ (left inner : List Item), AllOK left → AllOK inner →
    ∀ r, findOpener ch co cc left inner = some r → AllOK r.1 ∧ AllOK r.2.2.2.2.2.2
  | [], _, _, _, r, h => by simp [findOpener] at h
  | it :: rest, inner, hl, hi, r, h => by
    unfold findOpener at h
    split at h
    · simp only at h
      split at h
      · simp only [Option.some.injEq] at h
        subst h
        exact ⟨hi.reverse, hl.tail⟩
      · exact findOpener_ok ch co cc rest (_ :: inner) hl.tail (AllOK.cons (hl _ List.mem_cons_self) hi) r h
    · exact findOpener_ok ch co cc rest (it :: inner) hl.tail (AllOK.cons (hl it List.mem_cons_self) hi) r h

theorem wrapStrong_ok {body : List IEv} (p : Pos) (hb : IBal body) : ItemOK (.ev (.openStrong p :: body ++ [.closeStrong])) :=
  IBal.wrap _ _ .strong hb (fun _ => rfl) (fun _ => by simp [istep, ipop])

theorem wrapEmph_ok {body : List IEv} (p : Pos) (hb : IBal body) : ItemOK (.ev (.openEmph p :: body ++ [.closeEmph])) :=
  IBal.wrap _ _ .emph hb (fun _ => rfl) (fun _ => by simp [istep, ipop])

theorem procEmph_ok : ∀ (fuel : Nat) (left right : List Item), AllOK left → AllOK right →
    AllOK (procEmph fuel left right)
  | 0, left, right, hl, hr => by
    unfold procEmph
    exact hr.reverse.append hl
  | fuel + 1, left, [], hl, _ => by
    unfold procEmph
    exact hl
  | fuel + 1, left, it :: rest, hl, hr => by
    unfold procEmph
    split
    · next ch n orig canOpen canClose pos =>
      split
      · split
        · next inner on oorig oCanOpen oCanClose opos older hfo =>
          have hf := findOpener_ok ch orig canOpen left [] hl (by intro x hx; simp at hx) _ hfo
          simp only at hf
          have hbody : IBal (flattenRev inner) := flattenRev_bal hf.1
          simp only
          repeat' split
          all_goals
            apply procEmph_ok
            · apply AllOK.cons
              · first | exact wrapStrong_ok _ hbody | exact wrapEmph_ok _ hbody
              · first | exact AllOK.cons (ItemOK.ofDelim ..) hf.2 | exact hf.2
            · first | exact AllOK.cons (ItemOK.ofDelim ..) hr.tail | exact hr.tail
        · apply procEmph_ok fuel _ _ _ hr.tail
          apply AllOK.cons _ hl
          split
          · exact hr _ List.mem_cons_self
          · exact ItemOK.ofDelim ..
      · exact procEmph_ok fuel _ _ (AllOK.cons (hr _ List.mem_cons_self) hl) hr.tail
    · exact procEmph_ok fuel _ _ (AllOK.cons (hr _ List.mem_cons_self) hl) hr.tail

theorem resolveEmph_bal {items : List Item} (h : AllOK items) : IBal (resolveEmph items) :=
  flattenRev_bal (procEmph_ok _ [] items (by intro x hx; simp at hx) h)

/-! ## links and images -/
theorem splitAtBracket_ok : ∀ (acc inner : List Item), AllOK acc → AllOK inner →
    ∀ r, splitAtBracket acc inner = some r → AllOK r.1 ∧ AllOK r.2.2
  | [], _, _, _, r, h => by simp [splitAtBracket] at h
  | it :: rest, inner, ha, hi, r, h => by
    unfold splitAtBracket at h
    split at h
    · simp only [Option.some.injEq] at h
      subst h
      exact ⟨hi, ha.tail⟩
    · exact splitAtBracket_ok rest (it :: inner) ha.tail (AllOK.cons (ha it List.mem_cons_self) hi) r h

theorem deactivateLinks_ok (l : List Item) (h : AllOK l) : AllOK (deactivateLinks l) := by
  fun_induction deactivateLinks l
  · exact h
  · rename_i ih
    exact AllOK.cons (ItemOK.ofBracket ..) (ih h.tail)
  · rename_i ih
    exact AllOK.cons (h _ List.mem_cons_self) (ih h.tail)

theorem markBracketAfter_ok (l : List Item) (h : AllOK l) : AllOK (markBracketAfter l) := by
  fun_induction markBracketAfter l
  · exact h
  · exact AllOK.cons (ItemOK.ofBracket ..) h.tail
  · rename_i ih
    exact AllOK.cons (h _ List.mem_cons_self) (ih h.tail)

theorem pushText_ok (st : ISt) (s : List Char) (h : AllOK st.acc) : AllOK (st.pushText s).acc := by
  unfold ISt.pushText
  split
  · next rev p rest heq =>
    simp only
    rw [heq] at h
    exact AllOK.cons (ItemOK.ofText ..) h.tail
  · exact AllOK.cons (ItemOK.ofText ..) h

theorem push_ok (st : ISt) (it : Item) (h : AllOK st.acc) (hi : ItemOK it) : AllOK (st.push it).acc :=
  AllOK.cons hi h

theorem neutral_ev {e : IEv} (h : Neutral e) : ItemOK (.ev [e]) := IBal.single h

theorem closeBracket_ok (refs : RefMap) (r : List Char) (st : ISt) (h : AllOK st.acc) :
    AllOK (closeBracket refs r st).acc := by
  unfold closeBracket
  split
  · exact pushText_ok _ _ h
  · next newer br older hsp =>
    have hs := splitAtBracket_ok st.acc [] h (by intro x hx; simp at hx) _ hsp
    simp only at hs
    split
    · next image active bracketAfter bpos srcAfter boff =>
      have hfail := fun (s : List Char) (x : List Char) (q : Pos) (st' : ISt)
          (he : st'.acc = newer.reverse ++ Item.text x q :: older) =>
        pushText_ok st' s (by rw [he]; exact hs.1.reverse.append (AllOK.cons (ItemOK.ofText ..) hs.2))
      simp only
      split
      · exact hfail _ _ _ _ rfl
      · split
        · exact hfail _ _ _ _ rfl
        · next dest title consumed _ =>
          have hb := resolveEmph_bal hs.1
          simp only
          apply AllOK.cons
          · split
            · exact IBal.wrap _ _ .image hb (fun _ => rfl) (fun _ => by simp [istep, ipop])
            · exact IBal.wrap _ _ .link hb (fun _ => rfl) (fun _ => by simp [istep, ipop])
          · split
            · exact hs.2
            · exact deactivateLinks_ok _ hs.2
    · exact h

theorem stripTrailingSpaces_ok (acc : List Item) (h : AllOK acc) : AllOK (stripTrailingSpaces acc).1 := by
  unfold stripTrailingSpaces
  split
  · simp only
    split
    · exact h.tail
    · exact AllOK.cons (ItemOK.ofText ..) h.tail
  · exact h

/-! ## the scanner -/
theorem handleNewline_ok (st : ISt) (h : AllOK st.acc) : AllOK (handleNewline st).acc := by
  have hstrip := stripTrailingSpaces_ok st.acc h
  unfold handleNewline
  simp only
  split
  · exact AllOK.cons (neutral_ev (fun _ => rfl)) hstrip
  · exact AllOK.cons (neutral_ev (fun _ => rfl)) hstrip

theorem handleBackslash_ok (r : List Char) (st : ISt) (h : AllOK st.acc) : AllOK (handleBackslash r st).acc := by
  unfold handleBackslash
  repeat' split
  all_goals first
    | exact pushText_ok _ _ h
    | exact AllOK.cons (neutral_ev (fun _ => rfl)) h

theorem handleTick_ok (r : List Char) (st : ISt) (h : AllOK st.acc) : AllOK (handleTick r st).acc := by
  unfold handleTick
  simp only
  split
  · exact AllOK.cons (neutral_ev (fun _ => rfl)) h
  · exact pushText_ok _ _ h

theorem handleDelim_ok (c : Char) (r : List Char) (st : ISt) (h : AllOK st.acc) :
    AllOK (handleDelim c r st).acc := by
  unfold handleDelim
  exact AllOK.cons (ItemOK.ofDelim ..) h

theorem handleOpenBracket_ok (r : List Char) (st : ISt) (h : AllOK st.acc) :
    AllOK (handleOpenBracket r st).acc :=
  AllOK.cons (ItemOK.ofBracket ..) (markBracketAfter_ok st.acc h)

theorem handleBang_ok (r : List Char) (st : ISt) (h : AllOK st.acc) : AllOK (handleBang r st).acc := by
  unfold handleBang
  split
  · exact AllOK.cons (ItemOK.ofBracket ..) (markBracketAfter_ok st.acc h)
  · exact pushText_ok _ _ h

theorem handleAmp_ok (r : List Char) (st : ISt) (h : AllOK st.acc) : AllOK (handleAmp r st).acc := by
  unfold handleAmp
  split
  · exact pushText_ok _ _ h
  · exact pushText_ok _ _ h

theorem handleLt_ok (r : List Char) (st : ISt) (h : AllOK st.acc) : AllOK (handleLt r st).acc := by
  unfold handleLt
  simp only
  repeat' split
  all_goals first
    | exact pushText_ok _ _ h
    | exact AllOK.cons (neutral_ev (fun _ => rfl)) h

theorem handle_ok (refs : RefMap) (c : Char) (r : List Char) (st : ISt) (h : AllOK st.acc) :
    AllOK (handle refs c r st).acc := by
  unfold handle
  repeat' split
  · exact handleNewline_ok st h
  · exact handleBackslash_ok r st h
  · exact handleTick_ok r st h
  · exact handleDelim_ok c r st h
  · exact handleOpenBracket_ok r st h
  · exact handleBang_ok r st h
  · exact closeBracket_ok refs r st h
  · exact handleAmp_ok r st h
  · exact handleLt_ok r st h
  · exact pushText_ok _ _ h

theorem advance_ok (s : ISt) (c : Char) (hs : AllOK s.acc) : AllOK (s.advance c).acc := by
  unfold ISt.advance
  repeat' split
  all_goals exact hs

theorem scan_ok (refs : RefMap) : ∀ (cs : List Char) (st : ISt), AllOK st.acc → AllOK (scan refs cs st).acc
  | [], _, h => h
  | c :: r, st, h => by
    unfold scan
    apply scan_ok refs r
    apply advance_ok
    by_cases hsk : st.skip > 0
    · simp only [hsk, ↓reduceIte]; exact h
    · simp only [hsk, ↓reduceIte]; exact handle_ok refs c r st h

theorem istep_text (st : List ITag) (a : List Char) (p : Pos) : istep st (.text a p) = some st := rfl

theorem mergeText_fold (es : List IEv) : ∀ (st : List ITag),
    (mergeText es).foldlM istep st = es.foldlM istep st := by
  fun_induction mergeText es
  · rename_i heq ih
    intro st
    have := ih st
    rw [heq] at this
    simpa [List.foldlM_cons, istep_text] using this
  · rename_i ih
    intro st
    simpa [List.foldlM_cons, istep_text] using ih st
  · rename_i ih
    intro st
    simp only [List.foldlM_cons, Option.bind_eq_bind]
    cases istep st _ with
    | none => rfl
    | some st' => exact ih st'
  · intro st; rfl

/-- **L_inline_balanced**: the inline events of any leaf, under any reference map, are well bracketed
    (in every context, hence in particular from the empty stack). -/
theorem L_inline_balanced (refs : RefMap) (lines : List PLine) : IBal (parseInlines refs lines) := by
  unfold parseInlines
  split
  · exact IBal.nil
  · intro st
    simp only
    rw [mergeText_fold]
    exact resolveEmph_bal (scan_ok refs _ _ (by intro x hx; simp at hx)).reverse st

theorem L_inline_wellNested (refs : RefMap) (lines : List PLine) : IWellNested (parseInlines refs lines) :=
  L_inline_balanced refs lines []

example : parseInlines [] [⟨1, 0, "*a [b](c) **d***".toList⟩] ≠ [] := by decide

end Verif.Model.LeanMark
