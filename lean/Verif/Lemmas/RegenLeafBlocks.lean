/-
  The regenerator on the token shapes of `RegenLeafSpec` (one leaf block at a time): what each block's tokens produce when
  the block stack is empty before them.
-/
import Verif.Lemmas.RegenLeafHandlers
import Verif.Model.RegenLeafSpec
import Verif.Lemmas.LeafFields
namespace Verif.Lemmas.RegenLeaf
open Verif.Model Verif.Model.RegenLeaf Verif.Model.RegenLeafSpec
open Verif.Model.Codec (Str plain SENT_START SENT_END WSPLIT)
open Verif.Model.Lines (splitOn joinOn splitNL joinNL NL)
open Verif.Lemmas.Lines

/-- The tokens `toks` form a closed block that produces `text`: run with an empty block stack (any rehydrate store, any
previous token, anything or nothing behind) they succeed, leave the block stack empty, and their texts concatenate to `text`. -/
def Closed (toks : List Tok) (text : Str) : Prop :=
  ∀ (more : Bool) (c : Ctx) (prev : Option Tok), c.stack = [] →
    ∃ parts c', runMore more c prev toks = .ok (parts, c') ∧ c'.stack = [] ∧ parts.flatten = text

theorem closed_nil : Closed [] [] := fun _ c _ hc => ⟨[], c, rfl, hc, rfl⟩

/-- closed blocks compose -/
theorem closed_append {a b : List Tok} {x y : Str} (ha : Closed a x) (hb : Closed b y) : Closed (a ++ b) (x ++ y) := by
  intro more c prev hc
  obtain ⟨pa, c1, h1, hs1, hx⟩ := ha (!b.isEmpty || more) c prev hc
  obtain ⟨pb, c2, h2, hs2, hy⟩ := hb more c1 (lastOr prev a) hs1
  refine ⟨pa ++ pb, c2, ?_, hs2, ?_⟩
  · rw [runMore_append, h1]; simp only; rw [h2]
  · rw [List.flatten_append, hx, hy]

theorem repeatString_char (ch : Char) (n : Nat) : repeatString [ch] (Int.ofNat n) = .ok (List.replicate n ch) := by
  simp [repeatString]

theorem repeatString_char' (ch : Char) (n : Nat) : repeatString [ch] (n : Int) = .ok (List.replicate n ch) := by
  simp [repeatString]

/-! ## blank line, thematic break -/

theorem closed_blank (ws : Str) : Closed [.blank ws] (ws ++ [NL]) := by
  intro more c prev hc
  exact ⟨[ws ++ [NL]], c, by simp [runMore, process], hc, by simp⟩

theorem closed_thematic (f : LeafFields.ThematicFields) : Closed (thematicToks f) (f.reassemble ++ [NL]) := by
  intro more c prev hc
  exact ⟨[f.lead ++ f.rest ++ [NL]], c, by simp [thematicToks, runMore, process], hc, by simp [LeafFields.ThematicFields.reassemble]⟩

/-! ## helpers -/

def trailsOf : PLine → List PLine → List Str
  | _, [] => [[]]
  | l0, m :: ms => l0.trail :: trailsOf m ms

theorem trailsOf_eq : ∀ (l0 : PLine) (rest : List PLine), (l0 :: rest).dropLast.map (·.trail) ++ [[]] = trailsOf l0 rest
  | _, [] => rfl
  | l0, m :: ms => by
    have : (l0 :: m :: ms).dropLast = l0 :: (m :: ms).dropLast := rfl
    rw [this, List.map_cons, List.cons_append, trailsOf_eq m ms, trailsOf]

theorem trailsOf_length : ∀ (l0 : PLine) (rest : List PLine), (trailsOf l0 rest).length = rest.length + 1
  | _, [] => rfl
  | l0, m :: ms => by simp [trailsOf, trailsOf_length m ms]

theorem lastTrail_cons_cons (l0 m : PLine) (ms : List PLine) : lastTrail (l0 :: m :: ms) = lastTrail (m :: ms) := by
  simp [lastTrail, List.getLast?_cons_cons]

theorem para_glue : ∀ (rest : List PLine) (pre : Str) (l0 : PLine),
    joinNL (List.zipWith (fun p ew => p ++ ew) ((pre ++ l0.body) :: rest.map (fun l => l.lead ++ l.body)) (trailsOf l0 rest))
      ++ lastTrail (l0 :: rest) = joinNL ((pre ++ l0.body ++ l0.trail) :: rest.map PLine.src)
  | [], pre, l0 => by simp [trailsOf, joinNL, joinOn, lastTrail]
  | m :: ms, pre, l0 => by
    have ih := para_glue ms m.lead m
    rw [lastTrail_cons_cons, trailsOf, List.map_cons, List.zipWith_cons_cons, List.map_cons]
    have hsrc : m.lead ++ m.body ++ m.trail = m.src := rfl
    rw [hsrc] at ih
    cases ms with
    | nil =>
      simp only [trailsOf, List.map_nil, List.zipWith_cons_cons, List.zipWith_nil_right, joinNL, joinOn_cons_cons, joinOn] at ih ⊢
      simp only [List.append_assoc, List.cons_append] at ih ⊢
      rw [ih]
    | cons k ks =>
      simp only [trailsOf, List.map_cons, List.zipWith_cons_cons, joinNL, joinOn_cons_cons] at ih ⊢
      simp only [List.append_assoc, List.cons_append] at ih ⊢
      rw [ih]

theorem NL_not_special : Codec.isSpecial NL = false := by decide

theorem plain_joinNL : ∀ (ls : List Str), (∀ l ∈ ls, plain l = true) → plain (joinNL ls) = true
  | [], _ => rfl
  | [l], h => h l (by simp)
  | l :: m :: ms, h => by
    have ih := plain_joinNL (m :: ms) (fun x hx => h x (by simp [hx]))
    unfold joinNL at ih ⊢
    rw [joinOn_cons_cons, plain_append, h l (by simp)]
    simp only [Bool.true_and]
    show plain ([NL] ++ joinOn NL (m :: ms)) = true
    rw [plain_append, ih]; rfl

theorem takeWhile_joinNL (x : Str) (xs : List Str) (hx : NL ∉ x) : (joinNL (x :: xs)).takeWhile (· != NL) = x := by
  have hx' : ∀ c ∈ x, (c != NL) = true := by
    intro c hc; simp; intro e; subst e; exact hx hc
  cases xs with
  | nil => simp only [joinNL, joinOn]; exact Verif.Model.LeafFields.takeWhile_eq_self _ x hx'
  | cons y ys =>
    unfold joinNL
    rw [joinOn_cons_cons, List.takeWhile_append_of_pos hx']
    simp

theorem not_mem_of_contains_false {s : Str} (h : s.contains NL = false) : NL ∉ s := by
  intro hm
  have : s.contains NL = true := by simpa using hm
  rw [h] at this; cases this

theorem PLine.ok_iff (l : PLine) : l.ok = true ↔ plain l.lead = true ∧ plain l.body = true ∧ plain l.trail = true ∧ NL ∉ l.lead ∧ NL ∉ l.body ∧ NL ∉ l.trail := by
  unfold PLine.ok
  simp only [Bool.and_eq_true, Bool.not_eq_true', and_assoc]
  constructor
  · intro ⟨a, b, c, d, e, f⟩
    exact ⟨a, b, c, not_mem_of_contains_false d, not_mem_of_contains_false e, not_mem_of_contains_false f⟩
  · intro ⟨a, b, c, d, e, f⟩
    refine ⟨a, b, c, ?_, ?_, ?_⟩ <;> simp [*]

theorem getRi_setRi (c : Ctx) (id v : Nat) (d : Nat) : (c.setRi id v).getRi id d = v := by
  simp [Ctx.getRi, Ctx.setRi]

theorem ctx_reset (c : Ctx) (hc : c.stack = []) (st : List (Nat × Nat)) : ({ stack := [], store := st } : Ctx) = { c with store := st } := by
  cases c; simp at hc; subst hc; rfl

theorem runMore_cons_ok {more : Bool} {c c1 : Ctx} {prev : Option Tok} {t : Tok} {ts : List Tok} {s : Str}
    (h : process c prev (!ts.isEmpty || more) t = .ok (s, c1)) :
    runMore more c prev (t :: ts) = match runMore more c1 (some t) ts with
      | .error e => .error e
      | .ok (ss, c2) => .ok (s :: ss, c2) := by
  rw [runMore, h]
  dsimp only
  cases runMore more c1 (some t) ts <;> rfl

/-! ## ATX heading -/

theorem ctx_restore (c : Ctx) (hc : c.stack = []) (b : Blk) : ({ (c.push b) with stack := [] } : Ctx) = c := by
  cases c; simp only at hc; subst hc; rfl

theorem closed_atx (f : LeafFields.AtxFields) (ht : plain f.text = true) (hw : plain f.wsAfter = true) :
    Closed (atxToks f) (f.reassemble ++ [NL]) := by
  intro more c prev hc
  have hs1 : (c.push .atx).stack = .atx :: [] := by simp [Ctx.push, hc]
  have hp1 : ∀ b, process c prev b (.atx f.lead f.hashes f.closing) = .ok (f.lead ++ List.replicate f.hashes '#', c.push .atx) := by
    intro b; simp only [process, hAtx, repeatString_char']
  have hp2 : ∀ p b, process (c.push .atx) p b (.text f.text f.wsAfter (some [])) = .ok (f.wsAfter ++ f.text, c.push .atx) := by
    intro p b; simp only [process]; exact hText_atx _ _ hs1 _ _ _ ht hw
  have hp3 : ∀ p b, process (c.push .atx) p b (.endAtx f.wsAtEnd (some f.wsBeforeEnd) f.closing) =
      .ok (f.wsBeforeEnd ++ List.replicate f.closing '#' ++ f.wsAtEnd ++ [NL], c) := by
    intro p b
    have hrep : (if (f.closing : Int) ≠ 0 then repeatString ['#'] (f.closing : Int) else .ok []) = .ok (List.replicate f.closing '#') := by
      by_cases h0 : (f.closing : Int) = 0
      · have : f.closing = 0 := by omega
        rw [if_neg (by simpa using h0), this]; rfl
      · rw [if_pos h0, repeatString_char']
    simp only [process, hEndAtx, pop_of_stack hs1, ctx_restore c hc, hrep]
  refine ⟨[f.lead ++ List.replicate f.hashes '#', f.wsAfter ++ f.text,
           f.wsBeforeEnd ++ List.replicate f.closing '#' ++ f.wsAtEnd ++ [NL]], c, ?_, hc, ?_⟩
  · unfold atxToks
    rw [runMore_cons_ok (hp1 _), runMore_cons_ok (hp2 _ _), runMore_cons_ok (hp3 _ _)]
    rfl
  · simp [LeafFields.AtxFields.reassemble, LeafFields.rep]

/-! ## paragraph -/

/-- the regenerated text of a paragraph, sentinels included -/
def paraOut (ls : List PLine) : Str := SENT_START :: joinNL (ls.map PLine.src) ++ [SENT_END, NL]

theorem map_ne_nil_cons {α β : Type} (f : α → β) (a : α) (l : List α) : (a :: l).map f ≠ [] := by simp

theorem joinNL_cons_append (pre x : Str) (xs : List Str) : joinNL ((pre ++ x) :: xs) = pre ++ joinNL (x :: xs) := by
  cases xs with
  | nil => rfl
  | cons y ys => simp [joinNL, joinOn_cons_cons]

theorem zipWith_map_map {α β γ δ : Type} (f : β → γ → δ) (g : α → β) (h : α → γ) (l : List α) :
    List.zipWith f (l.map g) (l.map h) = l.map (fun a => f (g a) (h a)) := by
  induction l with
  | nil => rfl
  | cons a l ih => simp [ih]

theorem joinNL_ne_nil_of_two (a b : Str) (ls : List Str) : joinNL (a :: b :: ls) ≠ [] := by
  unfold joinNL; rw [joinOn_cons_cons]; simp

theorem trailsOf_NL (l0 : PLine) (rest : List PLine) (h : ∀ l ∈ l0 :: rest, NL ∉ l.trail) : ∀ t ∈ trailsOf l0 rest, NL ∉ t := by
  induction rest generalizing l0 with
  | nil => intro t ht; simp [trailsOf] at ht; subst ht; simp
  | cons m ms ih =>
    intro t ht
    simp only [trailsOf, List.mem_cons] at ht
    rcases ht with rfl | ht
    · exact h l0 (by simp)
    · exact ih m (fun l hl => h l (by simp at hl ⊢; right; exact hl)) t ht

theorem trailsOf_ne_nil (l0 : PLine) (rest : List PLine) : trailsOf l0 rest ≠ [] := by
  cases rest <;> simp [trailsOf]

theorem closed_para (id : Nat) (l0 : PLine) (rest : List PLine) (hok : ∀ l ∈ l0 :: rest, l.ok = true) :
    Closed (paraToks id (l0 :: rest)) (paraOut (l0 :: rest)) := by
  intro more c prev hc
  have ok0 := (PLine.ok_iff l0).mp (hok l0 (by simp))
  have okr : ∀ l ∈ rest, _ := fun l hl => (PLine.ok_iff l).mp (hok l (by simp [hl]))
  have hleadsNL : ∀ l ∈ (l0 :: rest).map (·.lead), NL ∉ l := by
    intro l hl; simp at hl; rcases hl with rfl | ⟨a, ha, rfl⟩
    · exact ok0.2.2.2.1
    · exact (okr a ha).2.2.2.1
  have hbodiesNL : ∀ l ∈ (l0 :: rest).map (·.body), NL ∉ l := by
    intro l hl; simp at hl; rcases hl with rfl | ⟨a, ha, rfl⟩
    · exact ok0.2.2.2.2.1
    · exact (okr a ha).2.2.2.2.1
  have htrailNL : ∀ l ∈ l0 :: rest, NL ∉ l.trail := by
    intro l hl; simp at hl; rcases hl with rfl | ha
    · exact ok0.2.2.2.2.2
    · exact (okr l ha).2.2.2.2.2
  have hbodiesPlain : plain (joinNL ((l0 :: rest).map (·.body))) = true := by
    apply plain_joinNL
    intro l hl; simp at hl; rcases hl with rfl | ⟨a, ha, rfl⟩
    · exact ok0.2.1
    · exact (okr a ha).2.1
  generalize hleads : joinNL ((l0 :: rest).map (·.lead)) = leads at *
  generalize hbodies : joinNL ((l0 :: rest).map (·.body)) = bodies at *
  generalize hfin : lastTrail (l0 :: rest) = fin
  have hcl : countNl leads = rest.length := by
    rw [← hleads, countNl_joinNL_lines _ (by simp) hleadsNL]; simp
  have hcb : countNl bodies = rest.length := by
    rw [← hbodies, countNl_joinNL_lines _ (by simp) hbodiesNL]; simp
  -- token 1
  have hp1 : ∀ b, process c prev b (.para id leads fin) = .ok (SENT_START :: l0.lead, (c.push (.para id leads fin)).setRi id 0) := by
    intro b
    simp only [process, hPara]
    have : leads.takeWhile (· != NL) = l0.lead := by rw [← hleads]; exact takeWhile_joinNL l0.lead _ ok0.2.2.2.1
    rw [this, liftC_resolveAll_plain _ ok0.1]
  generalize hc1 : (c.push (.para id leads fin)).setRi id 0 = c1 at hp1
  have hs1 : c1.stack = .para id leads fin :: [] := by rw [← hc1]; simp [Ctx.push, Ctx.setRi, hc]
  have hr1 : c1.getRi id = 0 := by rw [← hc1]; exact getRi_setRi _ _ _ _
  have hpop : ∀ v, ({ (c1.setRi id v) with stack := [] } : Ctx).stack = [] := fun _ => rfl
  cases rest with
  | nil =>
    have hb : bodies = l0.body := by rw [← hbodies]; rfl
    have hnl : bodies.contains NL = false := by
      rw [hb]; simpa using ok0.2.2.2.2.1
    have hp2 : ∀ p b e, process c1 p b (.text bodies [] e) = .ok (bodies, c1) := by
      intro p b e
      simp only [process]
      rw [hText_para c1 [] id leads fin hs1 bodies [] e hbodiesPlain rfl, paraText_no_newline _ _ _ _ _ hnl]
      rfl
    have hp3 : ∀ p b r, process c1 p b (.endPara id leads r) = .ok (fin ++ [SENT_END, NL], { c1 with stack := [] }) := by
      intro p b r
      simp only [process, hEndPara, hs1]
      have : c1.getRi id r = countNl leads := by
        rw [hcl]; rw [← hc1]; exact getRi_setRi _ _ _ _
      rw [if_pos this]; rfl
    refine ⟨[SENT_START :: l0.lead, bodies, fin ++ [SENT_END, NL]], { c1 with stack := [] }, ?_, rfl, ?_⟩
    · unfold paraToks
      simp only [hleads, hbodies, hfin]
      rw [runMore_cons_ok (hp1 _), runMore_cons_ok (hp2 _ _ _), runMore_cons_ok (hp3 _ _ _)]
      rfl
    · rw [hb, ← hfin]
      simp [paraOut, lastTrail, PLine.src, joinNL, joinOn]
  | cons m ms =>
    have hnl : bodies.contains NL = true := by
      rw [contains_NL_iff, hcb]; simp
    have hsb : splitNL bodies = (l0 :: m :: ms).map (·.body) := by
      rw [← hbodies]; exact splitNL_joinNL _ (by simp) hbodiesNL
    have hsl : splitNL leads = (l0 :: m :: ms).map (·.lead) := by
      rw [← hleads]; exact splitNL_joinNL _ (by simp) hleadsNL
    -- the first recombine: leading white space in front of lines 1…
    have hm1NL : ∀ l ∈ l0.body :: (m :: ms).map (fun l => l.lead ++ l.body), NL ∉ l := by
      intro l hl; simp only [List.mem_cons, List.mem_map] at hl
      rcases hl with rfl | ⟨a, ha, rfl⟩
      · exact ok0.2.2.2.2.1
      · have := okr a (by simpa using ha)
        simp only [List.mem_append, not_or]; exact ⟨this.2.2.2.1, this.2.2.2.2.1⟩
    have hr1' : recombine bodies leads (c1.getRi id) false 1 false =
        .ok (joinNL (l0.body :: (m :: ms).map (fun l => l.lead ++ l.body)), (m :: ms).length) := by
      rw [hr1, recombine_pre bodies leads 0 (by rw [hcb, hcl]; simp), hsb, hsl, hcb]
      have ht : List.take (m :: ms).length (List.drop (0 + 1) ((l0 :: m :: ms).map (·.lead))) = (m :: ms).map (·.lead) := by
        simp only [Nat.zero_add, List.map_cons, List.drop_succ_cons, List.drop_zero]
        apply List.take_of_length_le; simp
      rw [ht]
      have hz : List.zipWith (fun p ew => ew ++ p) (List.drop 1 ((l0 :: m :: ms).map (·.body))) ((m :: ms).map (·.lead))
          = (m :: ms).map (fun l => l.lead ++ l.body) := by
        have := zipWith_map_map (fun (p ew : Str) => ew ++ p) (fun (l : PLine) => l.body) (fun l => l.lead) (m :: ms)
        simpa using this
      rw [hz]
      simp
    -- the second recombine: trailing white space behind every line
    have he : joinNL ((l0 :: m :: ms).dropLast.map (·.trail) ++ [[]]) = joinNL (trailsOf l0 (m :: ms)) := by
      rw [trailsOf_eq]
    have htNL := trailsOf_NL l0 (m :: ms) htrailNL
    obtain ⟨e0, es, hees⟩ : ∃ e0 es, joinNL (trailsOf l0 (m :: ms)) = e0 :: es := by
      have : joinNL (trailsOf l0 (m :: ms)) ≠ [] := by
        cases hms : ms with
        | nil => simp only [trailsOf]; exact joinNL_ne_nil_of_two _ _ _
        | cons k ks => simp only [trailsOf]; exact joinNL_ne_nil_of_two _ _ _
      cases hj : joinNL (trailsOf l0 (m :: ms)) with
      | nil => exact absurd hj this
      | cons a b => exact ⟨a, b, rfl⟩
    have hr2 : recombine (joinNL (l0.body :: (m :: ms).map (fun l => l.lead ++ l.body))) (e0 :: es) 0 true 0 true =
        .ok (joinNL (List.zipWith (fun p ew => p ++ ew) (l0.body :: (m :: ms).map (fun l => l.lead ++ l.body)) (trailsOf l0 (m :: ms))),
             (m :: ms).length + 1) := by
      have hc1' : countNl (joinNL (l0.body :: (m :: ms).map (fun l => l.lead ++ l.body))) = (m :: ms).length := by
        rw [countNl_joinNL_lines _ (by simp) hm1NL]; simp
      have hc2' : countNl (e0 :: es) = (m :: ms).length := by
        rw [← hees, countNl_joinNL_lines _ (trailsOf_ne_nil _ _) htNL, trailsOf_length]; simp
      rw [recombine_post_after _ _ (by rw [hc1', hc2']; exact Nat.le_refl _), hc1', splitNL_joinNL _ (by simp) hm1NL, ← hees,
        splitNL_joinNL _ (trailsOf_ne_nil _ _) htNL]
      have : List.take ((m :: ms).length + 1) (trailsOf l0 (m :: ms)) = trailsOf l0 (m :: ms) := by
        apply List.take_of_length_le; rw [trailsOf_length]; exact Nat.le_refl _
      rw [this]
    generalize hm2 : joinNL (List.zipWith (fun p ew => p ++ ew) (l0.body :: (m :: ms).map (fun l => l.lead ++ l.body)) (trailsOf l0 (m :: ms))) = m2 at hr2
    have hp2 : ∀ p b, process c1 p b (.text bodies [] (some (joinNL ((l0 :: m :: ms).dropLast.map (·.trail) ++ [[]])))) =
        .ok (m2, c1.setRi id (m :: ms).length) := by
      intro p b
      simp only [process]
      rw [hText_para c1 [] id leads fin hs1 bodies [] _ hbodiesPlain rfl, he, hees]
      unfold paraText
      rw [hnl, hr1']
      simp only [if_true, hr2]
      rfl
    have hs2 : (c1.setRi id (m :: ms).length).stack = .para id leads fin :: [] := by simp [Ctx.setRi, hs1]
    have hp3 : ∀ p b r, process (c1.setRi id (m :: ms).length) p b (.endPara id leads r) =
        .ok (fin ++ [SENT_END, NL], { (c1.setRi id (m :: ms).length) with stack := [] }) := by
      intro p b r
      simp only [process, hEndPara, hs2]
      have : (c1.setRi id (m :: ms).length).getRi id r = countNl leads := by
        rw [hcl]; exact getRi_setRi _ _ _ _
      rw [if_pos this]; rfl
    refine ⟨[SENT_START :: l0.lead, m2, fin ++ [SENT_END, NL]], { (c1.setRi id (m :: ms).length) with stack := [] }, ?_, rfl, ?_⟩
    · unfold paraToks
      simp only [hleads, hbodies, hfin]
      have h2 : (2 ≤ (l0 :: m :: ms).length) = True := by simp
      simp only [h2, if_true]
      rw [runMore_cons_ok (hp1 _), runMore_cons_ok (hp2 _ _), runMore_cons_ok (hp3 _ _ _)]
      rfl
    · have hg := para_glue (m :: ms) [] l0
      simp only [List.nil_append] at hg
      rw [hm2, hfin] at hg
      simp only [paraOut, List.flatten_cons, List.flatten_nil, List.append_nil, List.cons_append, List.append_assoc]
      have : joinNL ((l0 :: m :: ms).map PLine.src) = l0.lead ++ (m2 ++ fin) := by
        rw [List.map_cons, show l0.src = l0.lead ++ (l0.body ++ l0.trail) by simp [PLine.src], joinNL_cons_append, ← hg]
      rw [this]
      simp


end Verif.Lemmas.RegenLeaf
