/-
  LeanMark — block events point at their own opening character (part 3: the parser).

    L_opener    : for every reading `rd` and every document, every event of `eventsR rd lines` satisfies
                  `OpenerOK lines` (definition in LeanMarkOpenerDefs.lean)
    L_col_bound : every positioned event has `1 ≤ col ≤ length of its tab-expanded line`

  Proof: the invariant `OInv lines` (LeanMarkOpenerCore.lean) is preserved by every `Core` primitive under
  a hypothesis about the position it stamps; `openBlocks` / `stepLine` discharge those hypotheses from the
  cursor invariant `CurOK l cur` (the cursor is a faithful view of the tab-expanded current line) and the
  first-character facts of the line recognisers.
-/
import Verif.Lemmas.LeanMarkOpenerCore
import Verif.Lemmas.LeanMarkBalanced
namespace Verif.Model.LeanMark
variable {lines : List Line}
open Core

theorem charAt_cur {n : Nat} {l : Line} (hl : lines[n]? = some l) (col : Nat) :
    charAt lines ⟨n + 1, col + 1⟩ = (detab l)[col]? := by
  simp [charAt, hl]

/-- the cursor after an optional single column of white space. -/
theorem CurOK.skipOne {l : Line} {c : Cur} (h : CurOK l c) :
    CurOK l (if c.indent ≥ 1 then c.skipCols 1 else c) := by
  split
  · exact CurOK.skipCols 1 c h
  · exact h

theorem matchConts_ok {l : Line} : ∀ (st : List OpenC) (cur : Cur), CurOK l cur → CurOK l (matchConts st cur).2
  | [], cur, h => by unfold matchConts; exact h
  | c :: cs, cur, h => by
    unfold matchConts
    split
    · extract_lets c1
      obtain ⟨hc1, hp1, _, _⟩ := skipWs_facts h
      split
      · split
        · next r hr =>
          extract_lets c2 c3
          have hc2 : CurOK l c2 := hc1.after_char hp1 hr (by decide)
          have ih := matchConts_ok cs c3 hc2.skipOne
          generalize matchConts cs c3 = res at ih ⊢
          obtain ⟨a, b⟩ := res
          exact ih
        · exact h
      · exact h
    · have ih := matchConts_ok cs cur h
      generalize matchConts cs cur = res at ih ⊢
      obtain ⟨a, b⟩ := res
      exact ih
    · split
      · exact h
      · split
        · have ih := matchConts_ok cs _ (CurOK.skipCols c.m.contentIndent cur h)
          generalize matchConts cs (cur.skipCols c.m.contentIndent) = res at ih ⊢
          obtain ⟨a, b⟩ := res
          exact ih
        · split
          · have ih := matchConts_ok cs cur.skipWs (skipWs_facts h).1
            generalize matchConts cs cur.skipWs = res at ih ⊢
            obtain ⟨a, b⟩ := res
            exact ih
          · exact h
theorem openBlocks_ok (rd : Reading) {n : Nat} {l : Line} (hl : lines[n]? = some l) :
    ∀ (fuel : Nat) (s : Core (n + 1)) (cur : Cur) (k : Nat) (first : Bool), s.OK lines → CurOK l cur →
      (openBlocks rd fuel s cur k first).OK lines
  | 0, s, _, _, _, h, _ => by unfold openBlocks; exact h
  | fuel + 1, s, cur, k, first, h, hcur => by
    unfold openBlocks
    extract_lets ind indented c1 t allC sA sB isSetext s1 setextDone s2 maybeLazy contIsPara sQ c2 c3 lm0 lm c4
    have hsA : sA.OK lines := OK.closeToDepth h k
    have hsB : sB.OK lines := OK.touch hsA _
    have hs1 : s1.OK lines := by
      show Core.OK lines (if _ then _ else _)
      split
      · exact OK.closeSetext h _
      · exact h
    have hs2 : s2.OK lines := hs1
    obtain ⟨hc1, hp1, hcol1, -⟩ := skipWs_facts hcur
    have hlm0 : ∀ q, lm0 = some q → indented = false ∧ listMarker? t = some q := by
      intro q h0
      unfold lm0 at h0
      split at h0
      · next hni => exact ⟨by simpa using hni, h0⟩
      · cases h0
    clear_value lm0
    have hlm : ∀ q, lm = some q → indented = false ∧ listMarker? t = some q := by
      intro q heq
      apply hlm0
      unfold lm at heq
      split at heq
      · next o d s' w' h0' =>
        extract_lets after at heq
        split at heq
        · cases heq
        · rw [← heq]
      · cases heq
    clear_value lm
    split
    · split
      · exact h
      · exact OK.closeLeaf hsB
    · next hb =>
      have hb' : cur.blank = false := by simpa using hb
      obtain ⟨x, r, hxr, hx⟩ := skipWs_head hb'
      have hxs := isSpTab_false hx
      have hat : charAt lines ⟨n + 1, c1.col + 1⟩ = some x := by
        rw [charAt_cur hl]; exact hc1.char_at hp1 hxr hxs.2
      have ht : t = x :: r := hxr
      split
      · exact OK.touch hs1 k
      · split
        · next hq =>
          have hx' : x = '>' := by
            rw [ht] at hq
            simp only [Bool.and_eq_true, List.head?_cons, beq_iff_eq, Option.some.injEq] at hq
            exact hq.2
          have hsQ : sQ.OK lines := OK.pushQuote (OK.prep hs2 k) (hx' ▸ hat)
          have hc2 : CurOK l c2 := by
            have := hc1.after_char hp1 hxr hxs.2
            show CurOK l ⟨List.drop 1 t, _, 0⟩
            rw [ht]; exact this
          exact openBlocks_ok rd hl fuel sQ c3 _ false hsQ hc2.skipOne
        · split
          · next lvl body heq =>
            have hi : atx? t = some (lvl, body) := by
              split at heq
              · cases heq
              · exact heq
            obtain ⟨r', hr'⟩ := atx?_head hi
            have hx' : x = '#' := by rw [ht] at hr'; exact (List.cons.inj hr').1
            exact OK.emitLeaf (OK.prep hs2 k) _ (fun _ _ => by subst hx'; exact hat)
          · split
            · next ch len info heq =>
              have hi : fenceOpen? t = some (ch, len, info) := by
                split at heq
                · cases heq
                · exact heq
              obtain ⟨r', hr', hch⟩ := fenceOpen?_head hi
              have hx' : x = ch := by rw [ht] at hr'; exact (List.cons.inj hr').1
              exact OK.startFenced (OK.prep hs2 k) _ _ _ _ ⟨ch, hx' ▸ hat, hch⟩
            · split
              · next kind heq =>
                have hi : indented = false ∧ ∃ k', htmlStart? t = some k' := by
                  split at heq
                  · cases heq
                  · next hind =>
                    refine ⟨by simpa using hind, ?_⟩
                    split at heq
                    · next h7 => exact ⟨_, h7⟩
                    · exact ⟨_, heq⟩
                obtain ⟨hind, k', hk'⟩ := hi
                have hind3 : cur.indent ≤ 3 := by
                  have : ¬ (ind ≥ 4) := of_decide_eq_false hind
                  show ind ≤ 3
                  omega
                obtain ⟨r', hr'⟩ := htmlStart?_head hk'
                have hx' : x = '<' := by rw [ht] at hr'; exact (List.cons.inj hr').1
                have hH : HtmlOK lines ⟨n + 1, cur.col + 1⟩ := by
                  refine ⟨cur.indent, hind3, ?_, ?_⟩
                  · intro j hj
                    show charAt lines ⟨n + 1, cur.col + 1 + j⟩ = some ' '
                    rw [show cur.col + 1 + j = (cur.col + j) + 1 by omega, charAt_cur hl]
                    exact hcur.space_at hj
                  · show charAt lines ⟨n + 1, cur.col + 1 + cur.indent⟩ = some '<'
                    rw [show cur.col + 1 + cur.indent = cur.skipWs.col + 1 by omega, ← hx']
                    exact hat
                have hsH := OK.startHtml (OK.prep hs2 k) kind cur.text hH
                extract_lets sH
                split
                · exact OK.closeLeaf hsH
                · exact hsH
              · split
                · next htb =>
                  have hi : isTBreak t = true := by
                    simp only [Bool.and_eq_true] at htb
                    exact htb.2
                  obtain ⟨c, r', hr', hc⟩ := isTBreak_head hi
                  have hx' : x = c := by rw [ht] at hr'; exact (List.cons.inj hr').1
                  exact OK.emitLeaf (OK.prep hs2 k) _ (fun _ _ => ⟨c, by subst hx'; exact hat, hc⟩)
                · split
                  · next ord delim start w =>
                    obtain ⟨hind, hm⟩ := hlm _ rfl
                    obtain ⟨c, r', hr', hbul, hdig, hw, hnt⟩ := listMarker?_facts hm
                    have hx' : x = c := by rw [ht] at hr'; exact (List.cons.inj hr').1
                    subst hx'
                    extract_lets after emptyItem spaces
                    have hafter : CurOK l after := CurOK.after_chars w cur.skipWs hc1 hp1 hw hnt
                    have hL : OpenerOK lines (.open (.list ord delim start) ⟨n + 1, c1.col + 1⟩) := by
                      cases ord with
                      | false =>
                        obtain ⟨hd, hb⟩ := hbul rfl
                        subst hd
                        exact ⟨hat, hb⟩
                      | true => exact ⟨x, hat, hdig rfl⟩
                    have hI : OpenerOK lines (.open .item ⟨n + 1, c1.col + 1⟩) := by
                      cases ord with
                      | false => exact ⟨x, hat, Or.inl (hbul rfl).2⟩
                      | true => exact ⟨x, hat, Or.inr (hdig rfl)⟩
                    split
                    · next pad c4' hpc =>
                      have hc4 : CurOK l c4' := by
                        split at hpc
                        · rw [← (Prod.mk.inj hpc).2]; exact hafter
                        · split at hpc
                          · rw [← (Prod.mk.inj hpc).2]; exact CurOK.skipCols _ _ hafter
                          · rw [← (Prod.mk.inj hpc).2]; exact CurOK.skipCols _ _ hafter
                      have hsI := OK.touchAll (OK.pushItem (OK.closeToDepth hs2 k)
                        { contentIndent := ind + w + pad } hL hI)
                      extract_lets sI
                      split
                      · exact hsI
                      · exact openBlocks_ok rd hl fuel sI c4' _ false hsI hc4
                  · next heq =>
                    split
                    · next hcond =>
                      have hind4 : 4 ≤ cur.indent := by
                        simp only [Bool.and_eq_true] at hcond
                        exact of_decide_eq_true hcond.1
                      have hcol4 : c4.col = cur.col + 4 := skipCols_col 4 cur hind4
                      refine OK.startIndented (OK.prep hs2 k) _ _ ?_
                      rw [hcol4]
                      refine ⟨by show 5 ≤ cur.col + 4 + 1; omega, ?_, ?_⟩
                      · intro j hj
                        show charAt lines ⟨n + 1, cur.col + 4 + 1 - 4 + j⟩ = some ' '
                        rw [show cur.col + 4 + 1 - 4 + j = (cur.col + j) + 1 by omega, charAt_cur hl]
                        exact hcur.space_at (by omega)
                      · by_cases h5 : 4 < cur.indent
                        · rw [charAt_cur hl, hcur.space_at h5]; rfl
                        · have : cur.col + 4 = cur.skipWs.col := by omega
                          rw [this]
                          show (charAt lines ⟨n + 1, c1.col + 1⟩).isSome = true
                          rw [hat]; rfl
                    · have hpl : PLineOK lines ⟨n + 1, c1.col, t⟩ := ⟨x, by rw [ht]; rfl, hxs.1, hat⟩
                      split
                      · exact OK.touchAll (OK.addLine hs2 (fun _ _ => hpl))
                      · exact OK.startPara (OK.prep hs2 k) hpl

theorem stepLine_ok (rd : Reading) {n : Nat} {l : Line} (hl : lines[n]? = some l) (s : Core (n + 1))
    (h : s.OK lines) : (stepLine rd s l).OK lines := by
  unfold stepLine
  extract_lets cur
  split
  · next k c1 hm =>
    have hc1 : CurOK l c1 := by
      have := matchConts_ok s.stack.reverse cur (CurOK.ofLine l)
      rw [hm] at this
      exact this
    have hgen : (openBlocks rd (l.length + 1) s c1 k true).OK lines :=
      openBlocks_ok rd hl _ s c1 k true h hc1
    extract_lets allC general sH c2
    split
    · exact hgen
    · split
      · next hlf =>
        split
        · exact OK.closeFence (OK.touchAll h)
        · extract_lets c2'
          exact OK.touchAll (OK.addLine h (by
            intro ls hls
            rw [show s.raw.leaf = s.leaf from rfl, hlf] at hls
            cases hls))
      · next hlf =>
        split
        · exact hgen
        · have hs : sH.OK lines := OK.touchAll (OK.addLine h (by
            intro ls hls
            rw [show s.raw.leaf = s.leaf from rfl, hlf] at hls
            cases hls))
          split
          · exact OK.closeLeaf hs
          · exact hs
      · next hlf =>
        split
        · exact OK.addPending h _ _
        · split
          · exact OK.touchAll (OK.addLine h (by
              intro ls hls
              rw [show s.raw.leaf = s.leaf from rfl, hlf] at hls
              cases hls))
          · exact hgen
      · exact hgen

theorem foldl_step_ok (rd : Reading) : ∀ (ls pre : List Line) (s : BState), lines = pre ++ ls → s.n = pre.length →
    s.core.OK lines → (ls.foldl (step rd) s).core.OK lines
  | [], _, _, _, _, h => h
  | l :: ls, pre, s, hlines, hn, h => by
    simp only [List.foldl_cons]
    apply foldl_step_ok rd ls (pre ++ [l]) (step rd s l) (by simp [hlines])
      (by show s.n + 1 = (pre ++ [l]).length; simp [hn])
    show (stepLine rd s.core.nextLine l).OK lines
    apply stepLine_ok rd _ _ (OK.nextLine h)
    rw [hlines, hn]
    simp

theorem runR_ok (rd : Reading) (lines : List Line) : (runR rd lines).core.OK lines := by
  unfold runR finish
  exact OK.closeLeaf (OK.closeToDepth (foldl_step_ok rd lines [] BState.init rfl rfl OK.init) 0)

/-- **L_opener**: under every reading and for every document, the position of each block event points at
    the block's own opening character in the tab-expanded line (`OpenerOK`, by kind). -/
theorem L_opener (rd : Reading) (lines : List Line) : ∀ e ∈ eventsR rd lines, OpenerOK lines e := by
  intro e he
  unfold eventsR Core.out at he
  exact (runR_ok rd lines).out e (List.mem_reverse.mp he)

theorem L_opener_default (lines : List Line) : ∀ e ∈ events lines, OpenerOK lines e := L_opener {} lines

/-- position of an `open` / `leaf` event. -/
def Ev.pos? : Ev → Option Pos
  | .open _ p => some p
  | .close _ _ => none
  | .leaf _ p _ _ => some p

theorem charAt_some {p : Pos} {c : Char} (h : charAt lines p = some c) :
    ∃ l, lines[p.line - 1]? = some l ∧ p.col - 1 < (detab l).length := by
  unfold charAt at h
  cases hl : lines[p.line - 1]? with
  | none => rw [hl] at h; cases h
  | some l =>
    rw [hl] at h
    simp only [Option.bind_some] at h
    refine ⟨l, rfl, ?_⟩
    have := List.getElem?_eq_some_iff.mp h
    exact this.1

/-- an event that satisfies `OpenerOK` points inside its line. -/
theorem OpenerOK.inLine {e : Ev} (h : OpenerOK lines e) {p : Pos} (hp : e.pos? = some p) (hc : 1 ≤ p.col) :
    ∃ l, lines[p.line - 1]? = some l ∧ p.col ≤ (detab l).length := by
  have key : ∀ {c : Char}, charAt lines p = some c →
      ∃ l, lines[p.line - 1]? = some l ∧ p.col ≤ (detab l).length := by
    intro c hc'
    obtain ⟨l, hl, hlt⟩ := charAt_some hc'
    exact ⟨l, hl, by omega⟩
  cases e with
  | close k x => cases hp
  | «open» k q =>
    simp only [Ev.pos?, Option.some.injEq] at hp
    subst hp
    cases k with
    | quote => exact key h
    | item => obtain ⟨c, hc', _⟩ := h; exact key hc'
    | list o d st =>
      cases o with
      | false => exact key h.1
      | true => obtain ⟨c, hc', _⟩ := h; exact key hc'
  | leaf k q x pl =>
    simp only [Ev.pos?, Option.some.injEq] at hp
    subst hp
    cases k with
    | para => obtain ⟨c, hc', _⟩ := h; exact key hc'
    | heading lvl sx =>
      cases sx with
      | false => exact key h
      | true => obtain ⟨c, hc', _⟩ := h; exact key hc'
    | tbreak => obtain ⟨c, hc', _⟩ := h; exact key hc'
    | fenced info => obtain ⟨c, hc', _⟩ := h; exact key hc'
    | indented =>
      obtain ⟨_, _, hs⟩ := h
      cases hq : charAt lines q with
      | none => rw [hq] at hs; cases hs
      | some c => exact key hq
    | html =>
      obtain ⟨k, _, _, hk⟩ := h
      obtain ⟨l, hl, hlt⟩ := charAt_some hk
      exact ⟨l, hl, by simp only at hlt; omega⟩
    | lrd a b c => exact key h

/-- **L_col_bound**: the column of every `open` / `leaf` event lies inside its tab-expanded line
    (`1 ≤ col ≤ length`; in particular `col ≤ length + 1`). -/
theorem L_col_bound (rd : Reading) (lines : List Line) : ∀ e ∈ eventsR rd lines, ∀ p, e.pos? = some p →
    ∃ l, lines[p.line - 1]? = some l ∧ 1 ≤ p.col ∧ p.col ≤ (detab l).length := by
  intro e he p hp
  have hr := L_pos_rangeR rd lines e he
  have hc : 1 ≤ p.col := by
    cases e with
    | close k x => cases hp
    | «open» k q => simp only [Ev.pos?, Option.some.injEq] at hp; subst hp; exact hr.2.2
    | leaf k q x pl => simp only [Ev.pos?, Option.some.injEq] at hp; subst hp; exact hr.2.2.1
  obtain ⟨l, hl, hle⟩ := (L_opener rd lines e he).inLine hp hc
  exact ⟨l, hl, hc, hle⟩

/-! ## non-vacuity -/
/-- (line, column, character of the tab-expanded line there) of every positioned event. -/
def openers (lines : List Line) : List (Nat × Nat × Option Char) :=
  (events lines).filterMap fun e => e.pos?.map fun p => (p.line, p.col, charAt lines p)

/-- a tab inside a block quote, before a list marker: `>` col 1, the tab fills columns 2–4, `-` col 5. -/
example : openers [">\t- a".toList, "  1. x".toList, "> # h".toList] =
    [(1, 1, some '>'), (1, 5, some '-'), (1, 5, some '-'), (1, 7, some 'a'),
     (2, 3, some '1'), (2, 3, some '1'), (2, 6, some 'x'),
     (3, 1, some '>'), (3, 3, some '#')] := by decide

/-- indented code inside a list item after two tabs (the position is inside the second tab), an HTML
    block in the item, a link reference definition, a setext heading after a tab, a fence. -/
example : openers ["-\t\tcode".toList, "  <div>".toList, [], " [a]: /u".toList, "\ttext".toList,
      "===".toList, "~~~".toList] =
    [(1, 1, some '-'), (1, 1, some '-'), (1, 7, some ' '), (2, 3, some '<'),
     (4, 2, some '['), (5, 5, some 't'), (7, 1, some '~')] := by decide

example : detab ">\t- a".toList = ">   - a".toList := by decide

end Verif.Model.LeanMark
