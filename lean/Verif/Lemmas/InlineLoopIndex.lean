/-
  `index_any_of`: the dispatcher model's first-hit definition (`InlineLoop.indexAnyOf`) against the literal Python loop
  (`InlineRecog.indexAnyOf`: for every character of `find_any` one `str.find`, running minimum, `break` at 0) and against the
  position-by-position scan.
-/
import Verif.Model.InlineLoop
namespace Verif.Lemmas.InlineLoopIndex
open Verif.Model.Recognisers (Str)
open Verif.Model.InlineRecog (findSub pyFind indexAnyOfLoop)
open Verif.Model.InlineLoop (firstFrom)

/-- minimum of two `find` results, `none` (= −1, "not found") being the neutral element -/
def omin : Option Nat → Option Nat → Option Nat
  | none, b => b
  | a, none => a
  | some a, some b => some (min a b)

theorem omin_none_right (a : Option Nat) : omin a none = a := by cases a <;> rfl

theorem omin_assoc (a b c : Option Nat) : omin (omin a b) c = omin a (omin b c) := by
  cases a <;> cases b <;> cases c <;> simp [omin, Nat.min_assoc]

theorem omin_zero (b : Option Nat) : omin (some 0) b = some 0 := by cases b <;> simp [omin]

theorem omin_map_add (a b : Option Nat) (k : Nat) : (omin a b).map (· + k) = omin (a.map (· + k)) (b.map (· + k)) := by
  cases a <;> cases b <;> simp [omin]

/-- the minimum over the characters of `cs` of `s.find(c, start)` -/
def minFind (s : Str) (start : Nat) : Str → Option Nat
  | [] => none
  | c :: cs => omin (pyFind s [c] start) (minFind s start cs)

/-- the literal loop computes the running minimum: the early `break` at 0 returns what the full loop would return -/
theorem step_aux (v : Nat) (rest X : Option Nat) (hX : X = omin (some v) rest) :
    (if (v == 0) = true then some v else X) = omin (some v) rest := by
  by_cases h : v = 0
  · subst h; rw [omin_zero]; rfl
  · rw [if_neg (by simpa using h), hX]

theorem loop_eq_min (s : Str) (start : Nat) : ∀ (cs : Str) (first : Option Nat),
    indexAnyOfLoop s start cs first = omin first (minFind s start cs)
  | [], first => by simp [indexAnyOfLoop, minFind, omin_none_right]
  | c :: cs, first => by
    rw [indexAnyOfLoop, minFind]
    cases hf : pyFind s [c] start with
    | none => simp only [omin]; exact loop_eq_min s start cs first
    | some f =>
      cases first with
      | none =>
        show (if (f == 0) = true then some f else indexAnyOfLoop s start cs (some f)) = omin (some f) (minFind s start cs)
        exact step_aux f _ _ (loop_eq_min s start cs _)
      | some g =>
        rw [← omin_assoc]
        show (if (min g f == 0) = true then some (min g f) else indexAnyOfLoop s start cs (some (min g f))) =
          omin (some (min g f)) (minFind s start cs)
        exact step_aux (min g f) _ _ (loop_eq_min s start cs _)

/-! ## `str.find` of one character = first hit -/

theorem firstFrom_shift (cs : Str) : ∀ (l : Str) (k : Nat), firstFrom cs l k = (firstFrom cs l 0).map (· + k)
  | [], _ => rfl
  | a :: r, k => by
    rw [firstFrom, firstFrom]
    by_cases h : cs.contains a = true
    · simp only [h, if_true, Option.map_some, Nat.zero_add]
    · simp only [h, Bool.false_eq_true, if_false]
      rw [firstFrom_shift cs r (k + 1), firstFrom_shift cs r (0 + 1)]
      cases firstFrom cs r 0 <;> simp
      omega

theorem findSub_single (c : Char) : ∀ (l : Str), findSub [c] l = firstFrom [c] l 0
  | [] => rfl
  | a :: r => by
    rw [findSub, firstFrom]
    have hp : List.isPrefixOf [c] (a :: r) = (c == a) := by simp [List.isPrefixOf]
    have hc : [c].contains a = (a == c) := by rw [List.contains_cons, List.contains_nil, Bool.or_false]
    rw [hp, hc, findSub_single c r, firstFrom_shift [c] r (0 + 1)]
    by_cases h : a = c
    · subst h; simp
    · have h' : ¬ c = a := fun e => h e.symm
      simp [h, h']

theorem pyFind_single (s : Str) (c : Char) (start : Nat) : pyFind s [c] start = firstFrom [c] (s.drop start) start := by
  unfold pyFind
  by_cases h : start ≤ s.length
  · rw [if_pos h, findSub_single, ← firstFrom_shift]
  · rw [if_neg h, List.drop_eq_nil_of_le (by omega)]; rfl

/-- first hit of `c :: cs` = the earlier of the first hit of `c` and the first hit of `cs` -/
theorem firstFrom_cons (c : Char) (cs : Str) : ∀ (l : Str) (k : Nat),
    firstFrom (c :: cs) l k = omin (firstFrom [c] l k) (firstFrom cs l k)
  | [], _ => rfl
  | a :: r, k => by
    rw [firstFrom, firstFrom, firstFrom]
    have h1 : (c :: cs).contains a = ((a == c) || cs.contains a) := List.contains_cons
    have h2 : [c].contains a = (a == c) := by rw [List.contains_cons, List.contains_nil, Bool.or_false]
    rw [h1, h2]
    have hge : ∀ (x : Str) (j : Nat), firstFrom x r (k + 1) = some j → k < j := by
      intro x j hj
      rw [firstFrom_shift] at hj
      cases hx : firstFrom x r 0 with
      | none => rw [hx] at hj; cases hj
      | some v => rw [hx] at hj; simp at hj; omega
    by_cases hac : a = c
    · subst hac
      simp only [beq_self_eq_true, Bool.true_or, if_true]
      by_cases hcs : cs.contains a = true
      · simp only [hcs, if_true, omin, Nat.min_self]
      · simp only [hcs, Bool.false_eq_true, if_false]
        cases hx : firstFrom cs r (k + 1) with
        | none => rfl
        | some j => have := hge cs j hx; simp only [omin, Option.some.injEq]; omega
    · have : (a == c) = false := by simpa using hac
      simp only [this, Bool.false_or, Bool.false_eq_true, if_false]
      by_cases hcs : cs.contains a = true
      · simp only [hcs, if_true]
        cases hx : firstFrom [c] r (k + 1) with
        | none => rfl
        | some j => have := hge [c] j hx; simp only [omin, Option.some.injEq]; omega
      · simp only [hcs, Bool.false_eq_true, if_false]
        exact firstFrom_cons c cs r (k + 1)

theorem firstFrom_nil : ∀ (l : Str) (k : Nat), firstFrom [] l k = none
  | [], _ => rfl
  | a :: r, k => by rw [firstFrom]; simp [firstFrom_nil r (k + 1)]

theorem minFind_eq (s : Str) (start : Nat) : ∀ (cs : Str), minFind s start cs = firstFrom cs (s.drop start) start
  | [] => (firstFrom_nil _ _).symm
  | c :: cs => by rw [minFind, pyFind_single, minFind_eq s start cs, firstFrom_cons c cs]

/-! ## the position-by-position scan -/

/-- `for i in range(start, len(s)): if s[i] in cs: return i` … `return -1` -/
def scanFrom (s cs : Str) : Nat → Nat → Option Nat
  | 0, _ => none
  | fuel + 1, i =>
    match s[i]? with
    | none => none
    | some c => if cs.contains c then some i else scanFrom s cs fuel (i + 1)

theorem scanFrom_eq (s cs : Str) : ∀ (fuel i : Nat), fuel = s.length - i → scanFrom s cs fuel i = firstFrom cs (s.drop i) i
  | 0, i, h => by
    rw [List.drop_eq_nil_of_le (by omega)]; rfl
  | fuel + 1, i, h => by
    have hlt : i < s.length := by omega
    rw [scanFrom, List.getElem?_eq_getElem hlt, List.drop_eq_getElem_cons hlt, firstFrom]
    simp only
    rw [scanFrom_eq s cs fuel (i + 1) (by omega)]

end Verif.Lemmas.InlineLoopIndex
