/-
  Basic facts for the inline dispatcher model: `index_any_of`, slices, newline counts.
-/
import Verif.Model.InlineLoop
namespace Verif.Model.InlineLoop
open Verif.Model.Recognisers (Str slice)

/-! ## `index_any_of` -/

theorem firstFrom_some (cs : Str) : ∀ (l : Str) (k j : Nat), firstFrom cs l k = some j →
    k ≤ j ∧ j < k + l.length ∧ (∃ c, l[j - k]? = some c ∧ cs.contains c = true) ∧
      ∀ c ∈ l.take (j - k), cs.contains c = false := by
  intro l
  induction l with
  | nil => intro k j h; simp [firstFrom] at h
  | cons c r ih =>
    intro k j h
    rw [firstFrom] at h
    by_cases hc : cs.contains c = true
    · simp only [hc, ↓reduceIte, Option.some.injEq] at h
      subst h
      exact ⟨Nat.le_refl _, by simp, ⟨c, by simp, hc⟩, by simp⟩
    · simp only [hc, Bool.false_eq_true, ↓reduceIte] at h
      obtain ⟨h1, h2, ⟨d, h3, h4⟩, h5⟩ := ih (k + 1) j h
      have e : j - k = (j - (k + 1)) + 1 := by omega
      refine ⟨by omega, by simp only [List.length_cons]; omega, ⟨d, ?_, h4⟩, ?_⟩
      · rw [e, List.getElem?_cons_succ]; exact h3
      · intro x hx
        rw [e, List.take_succ_cons] at hx
        simp only [List.mem_cons] at hx
        rcases hx with hx | hx
        · subst hx; simpa using hc
        · exact h5 x hx

theorem firstFrom_none (cs : Str) : ∀ (l : Str) (k : Nat), firstFrom cs l k = none → ∀ c ∈ l, cs.contains c = false := by
  intro l
  induction l with
  | nil => intro k _ c hc; simp at hc
  | cons a r ih =>
    intro k h c hc
    rw [firstFrom] at h
    by_cases ha : cs.contains a = true
    · simp only [ha, ↓reduceIte] at h; cases h
    · simp only [ha, Bool.false_eq_true, ↓reduceIte] at h
      simp only [List.mem_cons] at hc
      rcases hc with hc | hc
      · subst hc; simpa using ha
      · exact ih _ h c hc

/-- what `index_any_of` returns: at or after the start, inside the text, on a start character, and no start character before it -/
theorem indexAnyOf_some {s cs : Str} {start j : Nat} (h : indexAnyOf s cs start = some j) :
    start ≤ j ∧ (∃ hlt : j < s.length, cs.contains s[j] = true) ∧ ∀ c ∈ slice s start j, cs.contains c = false := by
  unfold indexAnyOf at h
  obtain ⟨h1, h2, ⟨c, h3, h4⟩, h5⟩ := firstFrom_some cs _ _ _ h
  rw [List.getElem?_drop] at h3
  have e : start + (j - start) = j := by omega
  rw [e] at h3
  have hlt : j < s.length := by
    by_cases hh : j < s.length
    · exact hh
    · rw [List.getElem?_eq_none (by omega)] at h3; cases h3
  refine ⟨h1, ⟨hlt, ?_⟩, ?_⟩
  · rw [List.getElem?_eq_getElem hlt] at h3
    injection h3 with h3; rw [h3]; exact h4
  · intro x hx
    apply h5 x
    unfold slice at hx
    rw [List.take_drop]
    rwa [e]

theorem indexAnyOf_none {s cs : Str} {start : Nat} (h : indexAnyOf s cs start = none) :
    ∀ c ∈ s.drop start, cs.contains c = false :=
  firstFrom_none cs _ _ h

/-! ## slices -/

theorem drop_eq_slice_append (s : Str) {a b : Nat} (h : a ≤ b) : s.drop a = slice s a b ++ s.drop b := by
  unfold slice
  have : s.drop a = (s.take b ++ s.drop b).drop a := by rw [List.take_append_drop]
  rw [this, List.drop_append]
  congr 1
  rw [List.length_take]
  have : a - min b s.length = 0 ∨ s.drop b = [] := by
    by_cases hb : b ≤ s.length
    · left; omega
    · right; exact List.drop_eq_nil_of_le (by omega)
  rcases this with h0 | h0
  · rw [h0]; rfl
  · rw [h0]; simp

theorem slice_length_le (s : Str) (a b : Nat) : (slice s a b).length ≤ b - a := by
  unfold slice; simp only [List.length_drop, List.length_take]; omega

theorem slice_self (s : Str) (a : Nat) : slice s a a = [] := by
  have := slice_length_le s a a
  exact List.eq_nil_of_length_eq_zero (by omega)

/-- the character at an index inside the text opens the slice that starts there -/
theorem slice_cons (s : Str) {a b : Nat} (hl : a < s.length) (hb : a < b) : slice s a b = s[a] :: slice s (a + 1) b := by
  unfold slice
  rw [← List.drop_drop, show (1 : Nat) = 0 + 1 from rfl]
  have hne : a < (s.take b).length := by rw [List.length_take]; omega
  rw [List.drop_eq_getElem_cons hne]
  simp [List.getElem_take]

/-! ## newline counts -/

theorem countNl_append (a b : Str) : countNl (a ++ b) = countNl a + countNl b := by
  unfold countNl; exact List.count_append

theorem countNl_drop (s : Str) {a b : Nat} (h : a ≤ b) : countNl (s.drop a) = countNl (slice s a b) + countNl (s.drop b) := by
  rw [drop_eq_slice_append s h, countNl_append]

theorem countNl_cons_nl (r : Str) : countNl (NL :: r) = countNl r + 1 := by
  unfold countNl; simp

theorem splitNl_go_length : ∀ (s acc : Str), (InlineRecog.splitNl s acc).length = countNl s + 1
  | [], acc => by simp [InlineRecog.splitNl, countNl]
  | c :: r, acc => by
    rw [InlineRecog.splitNl]
    by_cases hc : (c == '\n') = true
    · simp only [hc, ↓reduceIte, List.length_cons]
      rw [splitNl_go_length r []]
      have : c = NL := by simpa [NL] using hc
      subst this; rw [countNl_cons_nl]
    · simp only [hc, Bool.false_eq_true, ↓reduceIte]
      rw [splitNl_go_length r (c :: acc)]
      have : c ≠ NL := by simpa [NL] using hc
      unfold countNl; rw [List.count_cons_of_ne this]

theorem splitNl_go_no_nl : ∀ (s acc : Str), NL ∉ acc → ∀ l ∈ InlineRecog.splitNl s acc, NL ∉ l
  | [], acc, ha, l, hl => by
    simp only [InlineRecog.splitNl, List.mem_singleton] at hl; subst hl
    simpa using ha
  | c :: r, acc, ha, l, hl => by
    rw [InlineRecog.splitNl] at hl
    by_cases hc : (c == '\n') = true
    · simp only [hc, ↓reduceIte, List.mem_cons] at hl
      rcases hl with hl | hl
      · subst hl; simpa using ha
      · exact splitNl_go_no_nl r [] (by simp) l hl
    · simp only [hc, Bool.false_eq_true, ↓reduceIte] at hl
      have : c ≠ NL := by simpa [NL] using hc
      exact splitNl_go_no_nl r (c :: acc) (by simp only [List.mem_cons, not_or]; exact ⟨Ne.symm this, ha⟩) l hl

/-- the parts of `s.split("\n")` hold no line break -/
theorem splitNl_no_nl (s : Str) : ∀ l ∈ splitNl s, NL ∉ l := splitNl_go_no_nl s [] (by simp)

theorem splitNl_length (s : Str) : (splitNl s).length = countNl s + 1 := splitNl_go_length s []

theorem countNl_pos_of_mem {s : Str} (h : NL ∈ s) : 0 < countNl s := List.count_pos_iff.mpr h

theorem countNl_zero_of_not_mem {s : Str} (h : NL ∉ s) : countNl s = 0 := List.count_eq_zero.mpr h

end Verif.Model.InlineLoop
