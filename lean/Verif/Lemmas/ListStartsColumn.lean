/-
  The content column `pre_list` computes, on the line: W + N of CommonMark §5.2 in tab-expanded columns.
-/
import Verif.Lemmas.ListStartsNest
namespace Verif.Model.ListStarts
open Verif.Model.Recognisers (Str calcLength slice)
open Verif.Model.ListStartsSpec (Marker MarkerAt isSpTab Blank blankB colsFrom contentOffset padding)

theorem marker_width_pos (m : Marker) : 1 ≤ m.width := by
  cases m <;> simp [Marker.width, Marker.text]

/-- the text after a recognised marker begins at index `start + W` -/
theorem marker_rest {line : Str} {start : Nat} {m : Marker} {rest : Str} (h : MarkerAt (line.drop start) m rest) :
    line.drop (start + m.width) = rest ∧ start + m.width ≤ line.length := by
  obtain ⟨-, hd, -⟩ := h
  constructor
  · rw [← List.drop_drop, hd]
    unfold Marker.width
    simp
  · have := congrArg List.length hd
    simp only [List.length_drop, List.length_append] at this
    have hw := marker_width_pos m
    unfold Marker.width at hw ⊢
    omega

/-- **the indent `pre_list` computes for a recognised marker** is `__calculate_indents` on: "the rest is blank", the marker width,
the columns the whitespace after the marker spans from the marker's end, the columns of the whitespace before it -/
theorem preIndents_marker {line : Str} {start : Nat} {m : Marker} {rest : Str} (h : MarkerAt (line.drop start) m rest)
    (ews adj : Str) (depth : Nat) :
    preIndents line (start + m.width - 1) ews (m.width - 1) adj depth =
      calcIndents (afterWs line (start + m.width)) line.length (m.width - 1)
        (colsFrom (start + m.width) (rest.takeWhile isSpTab)) (colsFrom 0 ews) adj depth ∧
      (afterWs line (start + m.width) == line.length) = blankB rest := by
  obtain ⟨hr, hle⟩ := marker_rest h
  have hw := marker_width_pos m
  have he : start + m.width - 1 + 1 = start + m.width := by omega
  constructor
  · unfold preIndents
    rw [he, slice_after, hr, ListStartsSpec.calcLength_eq_colsFrom, ListStartsSpec.calcLength_eq_colsFrom]
  · rw [atEol_view line _ hle, hr]

theorem colsFrom_takeWhile_zero_iff (col : Nat) (rest : Str) : colsFrom col (rest.takeWhile isSpTab) = 0 ↔
    rest.takeWhile isSpTab = [] := by
  constructor
  · intro h
    cases hl : rest.takeWhile isSpTab with
    | nil => rfl
    | cons c cs =>
      exfalso
      rw [hl] at h
      have := Recognisers.foldl_tabStep_ge (c :: cs) col
      unfold colsFrom at h
      rw [ListStartsSpec.advance_eq_foldl] at h
      simp only [List.length_cons] at this
      omega
  · intro h; rw [h]; simp [colsFrom, ListStartsSpec.advance]

theorem takeWhile_all_self {p : Char → Bool} (l : Str) (h : ∀ x ∈ l, p x = true) : l.takeWhile p = l := by
  induction l with
  | nil => rfl
  | cons a l ih =>
    rw [List.takeWhile_cons, if_pos (h a (List.mem_cons_self ..)), ih (fun x hx => h x (List.mem_cons_of_mem _ hx))]

end Verif.Model.ListStarts
