/-
  Each handler of the regenerator model on a block stack whose top is known, for marker-free fields.
-/
import Verif.Lemmas.RegenLeafRun
namespace Verif.Lemmas.RegenLeaf
open Verif.Model Verif.Model.RegenLeaf
open Verif.Model.Codec (Str plain SENT_START SENT_END WSPLIT)
open Verif.Model.Lines (splitOn joinOn splitNL joinNL NL)

theorem top_of_stack {c : Ctx} {b : Blk} {s : List Blk} (h : c.stack = b :: s) : c.top = .ok b := by
  unfold Ctx.top; rw [h]

theorem pop_of_stack {c : Ctx} {b : Blk} {s : List Blk} (h : c.stack = b :: s) : c.pop = .ok { c with stack := s } := by
  unfold Ctx.pop; rw [h]

theorem top_of_nil {c : Ctx} (h : c.stack = []) : c.top = .error .index := by
  unfold Ctx.top; rw [h]

theorem pop_of_nil {c : Ctx} (h : c.stack = []) : c.pop = .error .index := by
  unfold Ctx.pop; rw [h]

/-! ## text -/

theorem hText_link (c : Ctx) (s : List Blk) (h : c.stack = .link :: s) (tt ew : Str) (e : Option Str) :
    hText c tt ew e = .ok ([], c) := by
  unfold hText; rw [top_of_stack h]; rfl

theorem hText_atx (c : Ctx) (s : List Blk) (h : c.stack = .atx :: s) (tt ew : Str) (e : Option Str)
    (ht : plain tt = true) (hw : plain ew = true) : hText c tt ew e = .ok (ew ++ tt, c) := by
  unfold hText; rw [top_of_stack h]
  simp only [Blk.isLink, Bool.false_eq_true, if_false, liftC_removeAllN_plain true tt ht, liftC_removeAll_plain ew hw]

theorem hText_fcode (c : Ctx) (s : List Blk) (h : c.stack = .fcode :: s) (tt ew : Str) (e : Option Str)
    (ht : plain tt = true) (hw : plain ew = true) : hText c tt ew e = .ok (ew ++ tt, c) := by
  unfold hText; rw [top_of_stack h]
  simp only [Blk.isLink, Bool.false_eq_true, if_false, liftC_removeAllN_plain true tt ht, liftC_removeAll_plain ew hw]

theorem hText_html (c : Ctx) (s : List Blk) (h : c.stack = .html :: s) (tt ew : Str) (e : Option Str)
    (ht : plain tt = true) (hw : plain ew = true) : hText c tt ew e = .ok (ew ++ tt ++ [NL], c) := by
  unfold hText; rw [top_of_stack h]
  simp only [Blk.isLink, Bool.false_eq_true, if_false, liftC_removeAllN_plain true tt ht, liftC_removeAll_plain ew hw]

theorem hText_para (c : Ctx) (s : List Blk) (id : Nat) (pew fin : Str) (h : c.stack = .para id pew fin :: s) (tt ew : Str)
    (e : Option Str) (ht : plain tt = true) (hw : plain ew = true) :
    hText c tt ew e = match paraText c id pew tt e with
      | .error er => .error er
      | .ok (m, c') => .ok (ew ++ m, c') := by
  unfold hText; rw [top_of_stack h]
  simp only [Blk.isLink, Bool.false_eq_true, if_false, liftC_removeAllN_plain true tt ht, liftC_removeAll_plain ew hw]
  cases paraText c id pew tt e <;> rfl

theorem hText_setext (c : Ctx) (s : List Blk) (hc : Str) (n : Int) (fin : Str) (h : c.stack = .setext hc n fin :: s) (tt ew : Str)
    (e : Option Str) (ht : plain tt = true) (hw : plain ew = true) :
    hText c tt ew e = match setextText tt e with
      | .error er => .error er
      | .ok m => .ok (ew ++ m, c) := by
  unfold hText; rw [top_of_stack h]
  simp only [Blk.isLink, Bool.false_eq_true, if_false, liftC_removeAllN_plain true tt ht, liftC_removeAll_plain ew hw]
  cases setextText tt e <;> rfl

theorem hText_icode (c : Ctx) (s : List Blk) (cew ind : Str) (h : c.stack = .icode cew ind :: s) (tt ew : Str)
    (e : Option Str) (ht : plain tt = true) (hw : plain ew = true) :
    hText c tt ew e = match recombine tt (cew ++ ew ++ ind) 0 true 0 false with
      | .error er => .error er
      | .ok (r, _) => .ok (r ++ [NL], c) := by
  unfold hText; rw [top_of_stack h]
  simp only [Blk.isLink, Bool.false_eq_true, if_false, liftC_removeAllN_plain true tt ht, liftC_removeAll_plain ew hw]
  cases recombine tt (cew ++ ew ++ ind) 0 true 0 false <;> rfl

theorem paraText_no_newline (c : Ctx) (id : Nat) (pew main : Str) (e : Option Str) (h : main.contains NL = false) :
    paraText c id pew main e = .ok (main, c) := by
  unfold paraText; rw [h]; rfl

end Verif.Lemmas.RegenLeaf
