/-
  list_block_pre_list_helper.py: the whitespace values, `__calculate_indents` against the specification's W + N,
  the stack collaborators (`find_last_block_quote_on_stack`, `close_open_blocks_fn`) under the stack guard.
-/
import Verif.Lemmas.ListStartsNested
namespace Verif.Model.ListStarts
open Verif.Model.Recognisers (Str charAt slice isCharAtOneOf isWsAt extractSpacesVerified calcLength lenLe isStartUlist isStartOlist
  SP TAB scanTo digits thematicBodyB)
open Verif.Model.ListStartsSpec (Marker MarkerAt parseMarker followOkB isSpTab isDigit isDelim isBulletChar Blank blankB
  IsThematic ItemStart CanInterrupt numberOf colsFrom SameType contentOffset padding)

/-! ## `__calculate_whitespace_values` -/

theorem calcWsValues_eval {line : Str} {me : Nat} (h : me < line.length) (ews : Str) :
    calcWsValues line me ews =
      .ok ⟨afterWs line (me + 1), calcLength (slice line (me + 1) (afterWs line (me + 1))) (me + 1), calcLength ews 0,
        line.length⟩ := by
  unfold calcWsValues
  rw [extractSpacesVerified_eval (by omega), liftR_ok]
  rfl

theorem calcWsValues_err {line : Str} {me : Nat} (h : line.length ≤ me) (ews : Str) :
    calcWsValues line me ews = .error .assertion := by
  unfold calcWsValues
  rw [extractSpacesVerified_err (by omega)]
  rfl

/-- the whitespace after the marker is the leading whitespace of `rest` -/
theorem slice_after (line : Str) (j : Nat) : slice line j (afterWs line j) = (line.drop j).takeWhile isSpTab := by
  unfold afterWs
  rw [Recognisers.slice_scanTo]
  have hp : [SP, TAB].contains = isSpTab := funext wsContains_isSpTab
  rw [hp]

/-! ## `__calculate_indents` -/

/-- **the computed indent is the specification's content offset W + N** except in the two excluded situations -/
theorem calcIndents_spec (afterIdx size mwm1 wsAfter wsBefore : Nat) (adjWs : Str) (depth : Nat)
    (h1 : ¬ (afterIdx = size ∧ wsAfter ≠ 0 ∧ depth = 0 ∧ adjWs.length ≠ wsBefore))
    (h2 : ¬ (afterIdx = size ∧ 2 ≤ wsAfter ∧ wsAfter ≤ 4 ∧ depth ≠ 0)) :
    (calcIndents afterIdx size mwm1 wsAfter wsBefore adjWs depth).indent =
      (contentOffset wsBefore (mwm1 + 1) wsAfter (afterIdx == size) : Nat) := by
  unfold calcIndents contentOffset padding
  by_cases he : afterIdx = size
  · subst he
    simp only [beq_self_eq_true, Bool.true_and, ↓reduceIte]
    by_cases hw : wsAfter = 0
    · subst hw
      simp
      omega
    · by_cases hd : depth = 0
      · subst hd
        have : adjWs.length = wsBefore := by
          by_cases h : adjWs.length = wsBefore
          · exact h
          · exact absurd ⟨rfl, hw, rfl, h⟩ h1
        simp [hw, this]
        omega
      · have hw' : (wsAfter != 0) = true := by simp [hw]
        have hd' : (depth == 0) = false := by simp [hd]
        simp only [hw', hd', Bool.and_false, Bool.false_eq_true, ↓reduceIte, Bool.true_and]
        have hw0 : (wsAfter == 0) = false := by simp [hw]
        simp only [hw0, Bool.false_eq_true, ↓reduceIte]
        by_cases h4 : wsAfter > 4
        · simp only [h4, ↓reduceIte]
          omega
        · simp only [h4, ↓reduceIte]
          have : wsAfter = 1 := by
            by_cases h : 2 ≤ wsAfter
            · exact absurd ⟨rfl, h, by omega, hd⟩ h2
            · omega
          subst this
          omega
  · have he' : (afterIdx == size) = false := by simp [he]
    simp only [he', Bool.false_and, Bool.false_eq_true, ↓reduceIte]
    by_cases h4 : wsAfter > 4
    · have : wsAfter ≥ 5 := by omega
      simp only [h4, ↓reduceIte, this]
      omega
    · have : ¬ wsAfter ≥ 5 := by omega
      simp only [h4, ↓reduceIte, this]
      omega

/-- `remaining_whitespace`: the columns after the marker that are not part of the marker's padding are kept for the content
(non-blank items): indent + remaining = the column of the first content character -/
theorem calcIndents_conserved (afterIdx size mwm1 wsAfter wsBefore : Nat) (adjWs : Str) (depth : Nat) (h : afterIdx ≠ size) :
    (calcIndents afterIdx size mwm1 wsAfter wsBefore adjWs depth).indent +
        (calcIndents afterIdx size mwm1 wsAfter wsBefore adjWs depth).remaining =
      ((wsBefore + (mwm1 + 1) + wsAfter : Nat) : Int) := by
  unfold calcIndents
  have he' : (afterIdx == size) = false := by simp [h]
  simp only [he', Bool.false_and, Bool.false_eq_true, ↓reduceIte]
  by_cases h4 : wsAfter > 4
  · simp only [h4, ↓reduceIte]
    omega
  · simp only [h4, ↓reduceIte]
    omega

theorem calcIndents_wsAfter_le (afterIdx size mwm1 wsAfter wsBefore : Nat) (adjWs : Str) (depth : Nat) :
    (calcIndents afterIdx size mwm1 wsAfter wsBefore adjWs depth).wsAfter ≤ 4 ∧
      0 ≤ (calcIndents afterIdx size mwm1 wsAfter wsBefore adjWs depth).indent := by
  unfold calcIndents
  split
  · simp only; omega
  · simp only
    split <;> split <;> simp only <;> omega

end Verif.Model.ListStarts
