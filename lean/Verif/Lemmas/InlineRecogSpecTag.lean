/-
  Spec equivalence, part 3: the open-tag recogniser `__parse_raw_open_tag` against LeanMark's tag automaton
  (spec 6.6 "open tag").  The faithful function scans phase by phase with index arithmetic; the reference is a
  character automaton.  They are related through the "lenient" automaton `openTagGoX true`, which differs from the
  reference in ONE transition (`=` followed, after optional white space, by `>`: an empty unquoted value).
-/
import Verif.Lemmas.InlineRecogSpec
namespace Verif.Model.InlineRecog
open Verif.Model.Recognisers
open Verif.Model
open Verif.Model.LeanMark (TagSt isAlnum isAlpha isAttrStart isAttrChar isUnqChar)

/-- LeanMark's `openTagGo` with one extra transition when `lenient`: in state `afterEq` a `>` ends the tag. -/
def openTagGoX (lenient : Bool) : List Char → TagSt → Nat → Option Nat
  | [], _, _ => none
  | c :: r, st, n =>
    let ws := LeanMark.isWsChar c
    match st with
    | .tagName =>
      if isAlnum c || c == '-' then openTagGoX lenient r .tagName (n + 1)
      else if ws then openTagGoX lenient r .ws0 (n + 1)
      else if c == '/' then openTagGoX lenient r .slash (n + 1)
      else if c == '>' then some (n + 1) else none
    | .ws0 =>
      if ws then openTagGoX lenient r .ws0 (n + 1)
      else if isAttrStart c then openTagGoX lenient r .attrName (n + 1)
      else if c == '/' then openTagGoX lenient r .slash (n + 1)
      else if c == '>' then some (n + 1) else none
    | .attrName =>
      if isAttrChar c then openTagGoX lenient r .attrName (n + 1)
      else if ws then openTagGoX lenient r .wsAfterName (n + 1)
      else if c == '=' then openTagGoX lenient r .afterEq (n + 1)
      else if c == '/' then openTagGoX lenient r .slash (n + 1)
      else if c == '>' then some (n + 1) else none
    | .wsAfterName =>
      if ws then openTagGoX lenient r .wsAfterName (n + 1)
      else if c == '=' then openTagGoX lenient r .afterEq (n + 1)
      else if isAttrStart c then openTagGoX lenient r .attrName (n + 1)
      else if c == '/' then openTagGoX lenient r .slash (n + 1)
      else if c == '>' then some (n + 1) else none
    | .afterEq =>
      if ws then openTagGoX lenient r .afterEq (n + 1)
      else if c == '"' then openTagGoX lenient r .dq (n + 1)
      else if c == '\'' then openTagGoX lenient r .sq (n + 1)
      else if isUnqChar c then openTagGoX lenient r .unq (n + 1)
      else if lenient && c == '>' then some (n + 1)
      else none
    | .unq =>
      if isUnqChar c then openTagGoX lenient r .unq (n + 1)
      else if ws then openTagGoX lenient r .ws0 (n + 1)
      else if c == '>' then some (n + 1) else none
    | .dq => if c == '"' then openTagGoX lenient r .afterValue (n + 1) else openTagGoX lenient r .dq (n + 1)
    | .sq => if c == '\'' then openTagGoX lenient r .afterValue (n + 1) else openTagGoX lenient r .sq (n + 1)
    | .afterValue =>
      if ws then openTagGoX lenient r .ws0 (n + 1)
      else if c == '/' then openTagGoX lenient r .slash (n + 1)
      else if c == '>' then some (n + 1) else none
    | .slash => if c == '>' then some (n + 1) else none

/-- the strict automaton IS the reference -/
theorem openTagGoX_false : ∀ (l : List Char) (st : TagSt) (n : Nat), openTagGoX false l st n = LeanMark.openTagGo l st n
  | [], st, n => by cases st <;> rfl
  | c :: r, st, n => by
    cases st <;>
      simp only [openTagGoX, LeanMark.openTagGo, openTagGoX_false r, Bool.false_and, Bool.false_eq_true, if_false]

/-- the lenient open-tag scanner (`s` = the text after `<`) -/
def scanOpenTagX (lenient : Bool) (s : List Char) : Option Nat :=
  match s with
  | c :: r => if isAlpha c then openTagGoX lenient r .tagName 1 else none
  | [] => none

theorem scanOpenTagX_false (s : List Char) : scanOpenTagX false s = LeanMark.scanOpenTag s := by
  unfold scanOpenTagX LeanMark.scanOpenTag
  cases s with
  | nil => rfl
  | cons c r => simp only [openTagGoX_false]

/-! ## runs: the automaton passes over a maximal run of a character class without changing state -/

theorem run_generic (b : Bool) (σ : TagSt) (p : Char → Bool)
    (hstep : ∀ c r n, p c = true → openTagGoX b (c :: r) σ n = openTagGoX b r σ (n + 1)) :
    ∀ (l : List Char) (n : Nat), openTagGoX b l σ n = openTagGoX b (l.dropWhile p) σ (n + (l.takeWhile p).length)
  | [], n => by simp
  | c :: r, n => by
    by_cases h : p c = true
    · rw [hstep c r n h, run_generic b σ p hstep r (n + 1)]
      simp only [List.dropWhile_cons, List.takeWhile_cons, h, if_true, List.length_cons]
      congr 1; omega
    · simp only [List.dropWhile_cons, List.takeWhile_cons, h]
      rfl

theorem run_name (b : Bool) (l : List Char) (n : Nat) :
    openTagGoX b l .tagName n =
      openTagGoX b (l.dropWhile fun c => isAlnum c || c == '-') .tagName (n + (l.takeWhile fun c => isAlnum c || c == '-').length) :=
  run_generic b .tagName _ (by intro c r n h; rw [openTagGoX]; simp only [h, if_true]) l n

theorem run_ws0 (b : Bool) (l : List Char) (n : Nat) :
    openTagGoX b l .ws0 n = openTagGoX b (l.dropWhile LeanMark.isWsChar) .ws0 (n + (l.takeWhile LeanMark.isWsChar).length) :=
  run_generic b .ws0 _ (by intro c r n h; rw [openTagGoX]; simp only [h, if_true]) l n

theorem run_wsAfterName (b : Bool) (l : List Char) (n : Nat) :
    openTagGoX b l .wsAfterName n = openTagGoX b (l.dropWhile LeanMark.isWsChar) .wsAfterName (n + (l.takeWhile LeanMark.isWsChar).length) :=
  run_generic b .wsAfterName _ (by intro c r n h; rw [openTagGoX]; simp only [h, if_true]) l n

theorem run_afterEq (b : Bool) (l : List Char) (n : Nat) :
    openTagGoX b l .afterEq n = openTagGoX b (l.dropWhile LeanMark.isWsChar) .afterEq (n + (l.takeWhile LeanMark.isWsChar).length) :=
  run_generic b .afterEq _ (by intro c r n h; rw [openTagGoX]; simp only [h, if_true]) l n

theorem run_attrName (b : Bool) (l : List Char) (n : Nat) :
    openTagGoX b l .attrName n = openTagGoX b (l.dropWhile isAttrChar) .attrName (n + (l.takeWhile isAttrChar).length) :=
  run_generic b .attrName _ (by intro c r n h; rw [openTagGoX]; simp only [h, if_true]) l n

theorem run_unq (b : Bool) (l : List Char) (n : Nat) :
    openTagGoX b l .unq n = openTagGoX b (l.dropWhile isUnqChar) .unq (n + (l.takeWhile isUnqChar).length) :=
  run_generic b .unq _ (by intro c r n h; rw [openTagGoX]; simp only [h, if_true]) l n

theorem run_dq (b : Bool) (l : List Char) (n : Nat) :
    openTagGoX b l .dq n = openTagGoX b (l.dropWhile (· != '"')) .dq (n + (l.takeWhile (· != '"')).length) :=
  run_generic b .dq _ (by
    intro c r n h; rw [openTagGoX]
    have : (c == '"') = false := by simpa using h
    simp only [this, Bool.false_eq_true, if_false]) l n

theorem run_sq (b : Bool) (l : List Char) (n : Nat) :
    openTagGoX b l .sq n = openTagGoX b (l.dropWhile (· != '\'')) .sq (n + (l.takeWhile (· != '\'')).length) :=
  run_generic b .sq _ (by
    intro c r n h; rw [openTagGoX]
    have : (c == '\'') = false := by simpa using h
    simp only [this, Bool.false_eq_true, if_false]) l n

/-! ## index facts -/

local notation "A" => openTagGoX true

theorem drop_cons {s : Str} {k : Nat} (h : k < s.length) : s.drop k = s[k] :: s.drop (k + 1) :=
  List.drop_eq_getElem_cons h

theorem scanTo_succ {s : Str} {p : Char → Bool} {i : Nat} (h : i < s.length) (hp : p s[i] = true) :
    scanTo s p (i + 1) = scanTo s p i := by
  unfold scanTo
  rw [drop_cons h, List.takeWhile_cons, if_pos hp, List.length_cons]; omega

theorem scanTo_fix {s : Str} {p : Char → Bool} {i : Nat} (h : i < s.length) (hp : p s[i] = false) : scanTo s p i = i := by
  unfold scanTo
  rw [drop_cons h, List.takeWhile_cons, hp]; simp

theorem scanTo_end {s : Str} {p : Char → Bool} {i : Nat} (h : s.length ≤ i) : scanTo s p i = i := by
  unfold scanTo
  rw [List.drop_eq_nil_of_le h]; simp

theorem dropWhile_eq_drop (p : Char → Bool) : ∀ (l : List Char), l.dropWhile p = l.drop (l.takeWhile p).length
  | [] => rfl
  | c :: r => by
    by_cases h : p c = true
    · simp only [List.dropWhile_cons, List.takeWhile_cons, h, if_true, List.length_cons, List.drop_succ_cons]
      exact dropWhile_eq_drop p r
    · simp only [List.dropWhile_cons, List.takeWhile_cons, h]; rfl

/-- a run at an absolute position: the counter of the automaton is the index -/
theorem run_at (σ : TagSt) (p : Char → Bool)
    (hstep : ∀ c r n, p c = true → A (c :: r) σ n = A r σ (n + 1)) (s : Str) (k : Nat) :
    A (s.drop k) σ k = A (s.drop (scanTo s p k)) σ (scanTo s p k) := by
  rw [run_generic true σ p hstep (s.drop k) k, dropWhile_eq_drop, List.drop_drop]
  rfl

theorem step_name : ∀ c r n, (isAlnum c || c == '-') = true → A (c :: r) .tagName n = A r .tagName (n + 1) := by
  intro c r n h; rw [openTagGoX]; simp only [h, if_true]
theorem step_ws0 : ∀ c r n, LeanMark.isWsChar c = true → A (c :: r) .ws0 n = A r .ws0 (n + 1) := by
  intro c r n h; rw [openTagGoX]; simp only [h, if_true]
theorem step_wsAfterName : ∀ c r n, LeanMark.isWsChar c = true → A (c :: r) .wsAfterName n = A r .wsAfterName (n + 1) := by
  intro c r n h; rw [openTagGoX]; simp only [h, if_true]
theorem step_afterEq : ∀ c r n, LeanMark.isWsChar c = true → A (c :: r) .afterEq n = A r .afterEq (n + 1) := by
  intro c r n h; rw [openTagGoX]; simp only [h, if_true]
theorem step_attrName : ∀ c r n, isAttrChar c = true → A (c :: r) .attrName n = A r .attrName (n + 1) := by
  intro c r n h; rw [openTagGoX]; simp only [h, if_true]
theorem step_unq : ∀ c r n, isUnqChar c = true → A (c :: r) .unq n = A r .unq (n + 1) := by
  intro c r n h; rw [openTagGoX]; simp only [h, if_true]
theorem step_dq : ∀ c r n, (c != '"') = true → A (c :: r) .dq n = A r .dq (n + 1) := by
  intro c r n h; rw [openTagGoX]
  have : (c == '"') = false := by simpa using h
  simp only [this, Bool.false_eq_true, if_false]
theorem step_sq : ∀ c r n, (c != '\'') = true → A (c :: r) .sq n = A r .sq (n + 1) := by
  intro c r n h; rw [openTagGoX]
  have : (c == '\'') = false := by simpa using h
  simp only [this, Bool.false_eq_true, if_false]

/-! ## the end of a tag: optional `/`, then `>` -/

/-- the end of `__parse_raw_open_tag` at index `j` -/
def tailAt (s : Str) (j : Nat) : Option Nat :=
  if isCharAt s (if isCharAt s j '/' then j + 1 else j) '>' then some ((if isCharAt s j '/' then j + 1 else j) + 1) else none

/-- the same on the suffix: what the automaton does in a state that only accepts `/>` or `>` -/
def endL (l : List Char) (n : Nat) : Option Nat :=
  match l with
  | c :: r => if c == '/' then A r .slash (n + 1) else if c == '>' then some (n + 1) else none
  | [] => none

theorem slash_eq (l : List Char) (n : Nat) : A l .slash n = match l with | c :: _ => if c == '>' then some (n + 1) else none | [] => none := by
  cases l with
  | nil => rfl
  | cons c r => rw [openTagGoX]

theorem tailAt_eq (s : Str) (j : Nat) : tailAt s j = endL (s.drop j) j := by
  unfold tailAt endL
  by_cases hj : j < s.length
  · rw [drop_cons hj]
    simp only
    rw [isCharAt_lt hj]
    by_cases h1 : (s[j] == '/') = true
    · simp only [h1, if_true]
      rw [slash_eq]
      by_cases hj1 : j + 1 < s.length
      · rw [drop_cons hj1, isCharAt_lt hj1]
      · rw [isCharAt_ge (by omega), List.drop_eq_nil_of_le (by omega)]; rfl
    · simp only [h1, Bool.false_eq_true, if_false]
      rw [isCharAt_lt hj]
  · rw [List.drop_eq_nil_of_le (by omega)]
    simp only [isCharAt_ge (show s.length ≤ j by omega), Bool.false_eq_true, if_false]

/-! ## states that, at a character outside their class, only accept `/>` or `>` -/

theorem endL_afterValue (l : List Char) (n : Nat) (h : ∀ c r, l = c :: r → LeanMark.isWsChar c = false) :
    A l .afterValue n = endL l n := by
  cases l with
  | nil => rfl
  | cons c r => rw [openTagGoX, endL]; simp only [h c r rfl, Bool.false_eq_true, if_false]

theorem endL_unq (l : List Char) (n : Nat)
    (h : ∀ c r, l = c :: r → LeanMark.isWsChar c = false ∧ isUnqChar c = false) : A l .unq n = endL l n := by
  cases l with
  | nil => rfl
  | cons c r =>
    obtain ⟨h1, h2⟩ := h c r rfl
    rw [openTagGoX, endL]
    have h3 : (c == '/') = false := by
      cases hc : (c == '/') with
      | false => rfl
      | true => have : c = '/' := by simpa using hc
                subst this; revert h2; decide
    simp only [h1, h2, h3, Bool.false_eq_true, if_false]

theorem endL_afterEq (l : List Char) (n : Nat)
    (h : ∀ c r, l = c :: r → LeanMark.isWsChar c = false ∧ isUnqChar c = false ∧ c ≠ '"' ∧ c ≠ '\'') :
    A l .afterEq n = endL l n := by
  cases l with
  | nil => rfl
  | cons c r =>
    obtain ⟨h1, h2, h4, h5⟩ := h c r rfl
    rw [openTagGoX, endL]
    have h3 : (c == '/') = false := by
      cases hc : (c == '/') with
      | false => rfl
      | true => have : c = '/' := by simpa using hc
                subst this; revert h2; decide
    have h4' : (c == '"') = false := by simpa using h4
    have h5' : (c == '\'') = false := by simpa using h5
    simp only [h1, h2, h3, h4', h5', Bool.false_eq_true, if_false, Bool.true_and]

theorem endL_attrName (l : List Char) (n : Nat)
    (h : ∀ c r, l = c :: r → LeanMark.isWsChar c = false ∧ isAttrChar c = false ∧ c ≠ '=') : A l .attrName n = endL l n := by
  cases l with
  | nil => rfl
  | cons c r =>
    obtain ⟨h1, h2, h3⟩ := h c r rfl
    rw [openTagGoX, endL]
    have h3' : (c == '=') = false := by simpa using h3
    simp only [h1, h2, h3', Bool.false_eq_true, if_false]

theorem endL_ws0 (l : List Char) (n : Nat)
    (h : ∀ c r, l = c :: r → LeanMark.isWsChar c = false ∧ isAttrStart c = false) : A l .ws0 n = endL l n := by
  cases l with
  | nil => rfl
  | cons c r =>
    obtain ⟨h1, h2⟩ := h c r rfl
    rw [openTagGoX, endL]
    simp only [h1, h2, Bool.false_eq_true, if_false]

theorem endL_tagName (l : List Char) (n : Nat)
    (h : ∀ c r, l = c :: r → LeanMark.isWsChar c = false ∧ (isAlnum c || c == '-') = false) : A l .tagName n = endL l n := by
  cases l with
  | nil => rfl
  | cons c r =>
    obtain ⟨h1, h2⟩ := h c r rfl
    rw [openTagGoX, endL]
    simp only [h1, h2, Bool.false_eq_true, if_false]

theorem ws0_of_wsAfterName (l : List Char) (n : Nat)
    (h : ∀ c r, l = c :: r → LeanMark.isWsChar c = false ∧ c ≠ '=') : A l .wsAfterName n = A l .ws0 n := by
  cases l with
  | nil => rfl
  | cons c r =>
    obtain ⟨h1, h2⟩ := h c r rfl
    rw [openTagGoX, openTagGoX]
    have h2' : (c == '=') = false := by simpa using h2
    simp only [h1, h2', Bool.false_eq_true, if_false]

/-- the head of the suffix at the end of a scan is outside the scanned class -/
theorem head_after_scan (s : Str) (p : Char → Bool) (i : Nat) (hi : i ≤ s.length) :
    ∀ c r, s.drop (scanTo s p i) = c :: r → p c = false := by
  intro c r h
  have hlt : scanTo s p i < s.length := by
    by_cases hh : scanTo s p i < s.length
    · exact hh
    · rw [List.drop_eq_nil_of_le (by omega)] at h; cases h
  rw [drop_cons hlt] at h
  injection h with h1 _
  rw [← h1]
  exact scanTo_stop hlt hi

/-- white space after a value (or a name): the automaton goes to `ws0` and runs to the end of the white space -/
theorem ws_then (τ : TagSt) (hτ : ∀ c r n, LeanMark.isWsChar c = true → A (c :: r) τ n = A r .ws0 (n + 1))
    (s : Str) (v : Nat) (h : v < scanTo s LeanMark.isWsChar v) :
    A (s.drop v) τ v = A (s.drop (scanTo s LeanMark.isWsChar v)) .ws0 (scanTo s LeanMark.isWsChar v) := by
  have hv : v < s.length := by
    by_cases hh : v < s.length
    · exact hh
    · rw [scanTo_end (by omega)] at h; omega
  have hws : LeanMark.isWsChar s[v] = true := by
    cases hc : LeanMark.isWsChar s[v] with
    | true => rfl
    | false => rw [scanTo_fix hv hc] at h; omega
  rw [drop_cons hv, hτ _ _ _ hws, run_at .ws0 LeanMark.isWsChar step_ws0, scanTo_succ hv hws]

theorem ws_afterValue : ∀ c r n, LeanMark.isWsChar c = true → A (c :: r) .afterValue n = A r .ws0 (n + 1) := by
  intro c r n h; rw [openTagGoX]; simp only [h, if_true]

theorem ws_unq : ∀ c r n, LeanMark.isWsChar c = true → A (c :: r) .unq n = A r .ws0 (n + 1) := by
  intro c r n h; rw [openTagGoX]
  have : isUnqChar c = false := by unfold LeanMark.isUnqChar; simp [h]
  simp only [this, h, Bool.false_eq_true, if_false, if_true]

/-! ## the faithful scanner with the reference model's character classes -/

def quotedEndQ (s : Str) (vs : Nat) (q : Char) : Option Nat :=
  if isCharAt s (scanTo s (· != q) (vs + 1)) q then some (scanTo s (· != q) (vs + 1) + 1) else none

def attrValueEndQ (s : Str) (vs : Nat) : Option Nat :=
  if isCharAt s vs '\'' then quotedEndQ s vs '\''
  else if isCharAt s vs '"' then quotedEndQ s vs '"'
  else some (scanTo s isUnqChar vs)

def tagAttrsQ (s : Str) (start : Nat) : Option (Nat × Str) :=
  let pi := scanTo s isAttrChar start
  let en := scanTo s LeanMark.isWsChar pi
  if isCharAt s en '=' then
    (attrValueEndQ s (scanTo s LeanMark.isWsChar (en + 1))).map
      fun ve => (scanTo s LeanMark.isWsChar ve, slice s ve (scanTo s LeanMark.isWsChar ve))
  else some (en, slice s pi en)

theorem isCharAtOneOf_one (s : Str) (i : Nat) (c : Char) : isCharAtOneOf s i [c] = isCharAt s i c := by
  unfold isCharAtOneOf isCharAt
  cases s[i]? with
  | none => rfl
  | some d =>
    simp only [List.contains_cons, List.contains_nil, Bool.or_false]

theorem tagAttrsP_eq_Q (s : Str) (i : Nat) : tagAttrsP s i = tagAttrsQ s i := by
  unfold tagAttrsP tagAttrsQ attrValueEndP attrValueEndQ quotedEndP quotedEndQ
  simp only [scanTo_congr attrNameChars_eq, scanTo_congr asciiWs_eq, scanTo_congr unqStop_eq, isCharAtOneOf_one]

theorem finish_phase (τ : TagSt) (hws : ∀ c r n, LeanMark.isWsChar c = true → A (c :: r) τ n = A r .ws0 (n + 1))
    (s : Str) (ve : Nat)
    (hend : scanTo s LeanMark.isWsChar ve = ve → A (s.drop ve) τ ve = endL (s.drop ve) ve) :
    A (s.drop ve) τ ve =
      if scanTo s LeanMark.isWsChar ve = ve then tailAt s ve
      else A (s.drop (scanTo s LeanMark.isWsChar ve)) .ws0 (scanTo s LeanMark.isWsChar ve) := by
  by_cases h : scanTo s LeanMark.isWsChar ve = ve
  · rw [if_pos h, hend h, tailAt_eq]
  · rw [if_neg h]
    have := scanTo_ge s LeanMark.isWsChar ve
    exact ws_then τ hws s ve (by omega)

/-- a scan that does not move: the head is outside the class (or the text has ended) -/
theorem head_of_fix (s : Str) (p : Char → Bool) (i : Nat) (h : scanTo s p i = i) :
    ∀ c r, s.drop i = c :: r → p c = false := by
  intro c r hd
  have hlt : i < s.length := by
    by_cases hh : i < s.length
    · exact hh
    · rw [List.drop_eq_nil_of_le (by omega)] at hd; cases hd
  rw [drop_cons hlt] at hd
  injection hd with h1 _
  cases hp : p c with
  | false => rfl
  | true =>
    rw [← h1] at hp
    have := scanTo_gt hlt hp
    omega

theorem quoted_phase (q : Char) (σ : TagSt) (hq : σ = (if q == '"' then TagSt.dq else TagSt.sq))
    (hq2 : q = '"' ∨ q = '\'') (s : Str) (vs : Nat) (hvs : vs < s.length) (hc : s[vs] = q) :
    match quotedEndQ s vs q with
    | none => A (s.drop (vs + 1)) σ (vs + 1) = none
    | some ve => ve ≤ s.length ∧ A (s.drop (vs + 1)) σ (vs + 1) = A (s.drop ve) .afterValue ve := by
  have hstep : ∀ c r n, (c != q) = true → A (c :: r) σ n = A r σ (n + 1) := by
    rcases hq2 with h | h <;> subst h
    · simp only [beq_self_eq_true, if_true] at hq; subst hq; exact step_dq
    · have : ('\'' == '"') = false := by decide
      simp only [this, Bool.false_eq_true, if_false] at hq; subst hq; exact step_sq
  unfold quotedEndQ
  rw [run_at σ (· != q) hstep]
  by_cases hl : scanTo s (· != q) (vs + 1) < s.length
  · have hstop := scanTo_stop (p := (· != q)) hl (by omega)
    have heq : s[scanTo s (· != q) (vs + 1)] = q := by simpa using hstop
    rw [isCharAt_lt hl, heq]
    simp only [beq_self_eq_true, if_true]
    refine ⟨by omega, ?_⟩
    rw [drop_cons hl, heq]
    rcases hq2 with h | h <;> subst h
    · simp only [beq_self_eq_true, if_true] at hq; subst hq
      rw [openTagGoX]; simp only [beq_self_eq_true, if_true]
    · have : ('\'' == '"') = false := by decide
      simp only [this, Bool.false_eq_true, if_false] at hq; subst hq
      rw [openTagGoX]; simp only [beq_self_eq_true, if_true]
  · rw [isCharAt_ge (by omega)]
    simp only [Bool.false_eq_true, if_false]
    rw [List.drop_eq_nil_of_le (by omega)]
    cases σ <;> rfl

/-- from `=` to the end of the white space after the value -/
theorem value_phase (s : Str) (e : Nat) (he : e + 1 ≤ s.length) :
    match attrValueEndQ s (scanTo s LeanMark.isWsChar (e + 1)) with
    | none => A (s.drop (e + 1)) .afterEq (e + 1) = none
    | some ve => ve ≤ s.length ∧ e + 1 ≤ ve ∧
        A (s.drop (e + 1)) .afterEq (e + 1) =
          (if scanTo s LeanMark.isWsChar ve = ve then tailAt s ve
           else A (s.drop (scanTo s LeanMark.isWsChar ve)) .ws0 (scanTo s LeanMark.isWsChar ve)) := by
  rw [run_at .afterEq LeanMark.isWsChar step_afterEq s (e + 1)]
  have hge := scanTo_ge s LeanMark.isWsChar (e + 1)
  have hle := scanTo_le s LeanMark.isWsChar (e + 1) he
  have hhead := head_after_scan s LeanMark.isWsChar (e + 1) he
  generalize scanTo s LeanMark.isWsChar (e + 1) = vs at hge hle hhead ⊢
  unfold attrValueEndQ
  by_cases hvl : vs < s.length
  · have hws : LeanMark.isWsChar s[vs] = false := hhead _ _ (drop_cons hvl)
    rw [isCharAt_lt hvl, isCharAt_lt hvl]
    by_cases hsq : s[vs] = '\''
    · simp only [hsq, beq_self_eq_true, if_true]
      have hq := quoted_phase '\'' .sq (by decide) (Or.inr rfl) s vs hvl hsq
      have hstep : A (s.drop vs) .afterEq vs = A (s.drop (vs + 1)) .sq (vs + 1) := by
        rw [drop_cons hvl, hsq, openTagGoX]
        have h1 : LeanMark.isWsChar '\'' = false := by decide
        have h2 : ('\'' == '"') = false := by decide
        simp only [h1, h2, Bool.false_eq_true, if_false, beq_self_eq_true, if_true]
      cases hqe : quotedEndQ s vs '\'' with
      | none => rw [hqe] at hq; simp only at hq ⊢; rw [hstep, hq]
      | some ve =>
        rw [hqe] at hq
        simp only at hq ⊢
        have hve : vs + 2 ≤ ve := by
          unfold quotedEndQ at hqe
          split at hqe
          · injection hqe with hqe
            have := scanTo_ge s (· != '\'') (vs + 1); omega
          · cases hqe
        refine ⟨hq.1, by omega, ?_⟩
        rw [hstep, hq.2]
        exact finish_phase .afterValue ws_afterValue s ve
          (fun hfix => endL_afterValue _ _ (head_of_fix s LeanMark.isWsChar ve hfix))
    · have hsq' : (s[vs] == '\'') = false := by simpa using hsq
      simp only [hsq', Bool.false_eq_true, if_false]
      by_cases hdq : s[vs] = '"'
      · simp only [hdq, beq_self_eq_true, if_true]
        have hq := quoted_phase '"' .dq (by decide) (Or.inl rfl) s vs hvl hdq
        have hstep : A (s.drop vs) .afterEq vs = A (s.drop (vs + 1)) .dq (vs + 1) := by
          rw [drop_cons hvl, hdq, openTagGoX]
          have h1 : LeanMark.isWsChar '"' = false := by decide
          simp only [h1, Bool.false_eq_true, if_false, beq_self_eq_true, if_true]
        cases hqe : quotedEndQ s vs '"' with
        | none => rw [hqe] at hq; simp only at hq ⊢; rw [hstep, hq]
        | some ve =>
          rw [hqe] at hq
          simp only at hq ⊢
          have hve : vs + 2 ≤ ve := by
            unfold quotedEndQ at hqe
            split at hqe
            · injection hqe with hqe
              have := scanTo_ge s (· != '"') (vs + 1); omega
            · cases hqe
          refine ⟨hq.1, by omega, ?_⟩
          rw [hstep, hq.2]
          exact finish_phase .afterValue ws_afterValue s ve
            (fun hfix => endL_afterValue _ _ (head_of_fix s LeanMark.isWsChar ve hfix))
      · have hdq' : (s[vs] == '"') = false := by simpa using hdq
        simp only [hdq', Bool.false_eq_true, if_false]
        have hue := scanTo_le s isUnqChar vs hle
        have hug := scanTo_ge s isUnqChar vs
        refine ⟨hue, by omega, ?_⟩
        by_cases hunq : isUnqChar s[vs] = true
        · -- a non-empty unquoted value
          have hstep : A (s.drop vs) .afterEq vs = A (s.drop (vs + 1)) .unq (vs + 1) := by
            rw [drop_cons hvl, openTagGoX]
            simp only [hws, hsq', hdq', hunq, Bool.false_eq_true, if_false, if_true]
          rw [hstep, run_at .unq isUnqChar step_unq, scanTo_succ hvl hunq]
          exact finish_phase .unq ws_unq s _
            (fun hfix => endL_unq _ _ (fun c r hd =>
              ⟨head_of_fix s LeanMark.isWsChar _ hfix c r hd, head_after_scan s isUnqChar vs hle c r hd⟩))
        · -- the empty unquoted value: only the lenient automaton goes on
          have hunq' : isUnqChar s[vs] = false := by simpa using hunq
          rw [scanTo_fix hvl hunq', scanTo_fix hvl hws]
          simp only [if_true]
          rw [tailAt_eq]
          apply endL_afterEq
          intro c r hd
          rw [drop_cons hvl] at hd
          injection hd with h1 _
          rw [← h1]
          exact ⟨hws, hunq', hdq, hsq⟩
  · have hnil : s.drop vs = [] := List.drop_eq_nil_of_le (by omega)
    rw [isCharAt_ge (by omega), isCharAt_ge (by omega)]
    simp only [Bool.false_eq_true, if_false]
    rw [scanTo_end (p := isUnqChar) (show s.length ≤ vs by omega)]
    refine ⟨by omega, by omega, ?_⟩
    rw [scanTo_end (p := LeanMark.isWsChar) (show s.length ≤ vs by omega)]
    simp only [if_true]
    rw [tailAt_eq, hnil]
    rfl

/-! ## one attribute -/

theorem ws_cases {c : Char} (h : LeanMark.isWsChar c = true) :
    c = ' ' ∨ c = '\t' ∨ c = '\n' ∨ c = '\x0b' ∨ c = '\x0c' ∨ c = '\r' := by
  unfold LeanMark.isWsChar at h
  simp only [Bool.or_eq_true, beq_iff_eq] at h
  rcases h with ((((h | h) | h) | h) | h) | h <;> simp [h]

theorem attrStart_not_ws {c : Char} (h : isAttrStart c = true) : LeanMark.isWsChar c = false := by
  cases hw : LeanMark.isWsChar c with
  | false => rfl
  | true =>
    rcases ws_cases hw with e | e | e | e | e | e <;> (subst e; revert h; decide)

theorem attrStart_attrChar {c : Char} (h : isAttrStart c = true) : isAttrChar c = true := by
  rw [← attrNameStart_eq] at h
  rw [← attrNameChars_eq]
  exact attrStart_sub h

theorem attrChar_not_ws {c : Char} (h : LeanMark.isWsChar c = true) : isAttrChar c = false := by
  rcases ws_cases h with e | e | e | e | e | e <;> (subst e; decide)

theorem nameChar_not_ws {c : Char} (h : LeanMark.isWsChar c = true) : (isAlnum c || c == '-') = false := by
  rcases ws_cases h with e | e | e | e | e | e <;> (subst e; decide)

theorem slice_isEmpty {s : Str} {a b : Nat} (hab : a ≤ b) (hb : b ≤ s.length) : (slice s a b).isEmpty = decide (b = a) := by
  have hlen : (slice s a b).length = b - a := by
    unfold slice; rw [List.length_drop, List.length_take]; omega
  cases h : slice s a b with
  | nil => rw [h] at hlen; simp at hlen; simp; omega
  | cons _ _ => rw [h] at hlen; simp at hlen; simp; omega

/-- from the first character of an attribute name to the end of the white space after the attribute -/
theorem attr_phase (s : Str) (i : Nat) (hi : i < s.length) (hst : isAttrStart s[i] = true) :
    match tagAttrsQ s i with
    | none => A (s.drop i) .ws0 i = none
    | some (j, w) => i < j ∧ j ≤ s.length ∧ (∀ c r, s.drop j = c :: r → LeanMark.isWsChar c = false) ∧
        A (s.drop i) .ws0 i = (if w.isEmpty then tailAt s j else A (s.drop j) .ws0 j) := by
  have hws := attrStart_not_ws hst
  have hattr := attrStart_attrChar hst
  have hstep0 : A (s.drop i) .ws0 i = A (s.drop (scanTo s isAttrChar i)) .attrName (scanTo s isAttrChar i) := by
    rw [drop_cons hi, openTagGoX]
    simp only [hws, hst, Bool.false_eq_true, if_false, if_true]
    rw [run_at .attrName isAttrChar step_attrName, scanTo_succ hi hattr]
  rw [hstep0]
  have hagt : i < scanTo s isAttrChar i := scanTo_gt hi hattr
  have hale := scanTo_le s isAttrChar i (by omega)
  have hahead := head_after_scan s isAttrChar i (by omega)
  unfold tagAttrsQ
  simp only
  generalize scanTo s isAttrChar i = a at hagt hale hahead ⊢
  have hbge := scanTo_ge s LeanMark.isWsChar a
  have hble := scanTo_le s LeanMark.isWsChar a hale
  have hbhead := head_after_scan s LeanMark.isWsChar a hale
  -- the state in which the automaton reaches the end of the white space after the name
  have hreach : A (s.drop a) .attrName a =
      if scanTo s LeanMark.isWsChar a = a then A (s.drop a) .attrName a
      else A (s.drop (scanTo s LeanMark.isWsChar a)) .wsAfterName (scanTo s LeanMark.isWsChar a) := by
    by_cases hab : scanTo s LeanMark.isWsChar a = a
    · rw [if_pos hab]
    · rw [if_neg hab]
      have hal : a < s.length := by
        by_cases hh : a < s.length
        · exact hh
        · rw [scanTo_end (by omega)] at hab; exact absurd rfl hab
      have hwsa : LeanMark.isWsChar s[a] = true := by
        cases hc : LeanMark.isWsChar s[a] with
        | true => rfl
        | false => rw [scanTo_fix hal hc] at hab; exact absurd rfl hab
      rw [drop_cons hal, openTagGoX]
      simp only [attrChar_not_ws hwsa, hwsa, Bool.false_eq_true, if_false, if_true]
      rw [run_at .wsAfterName LeanMark.isWsChar step_wsAfterName, scanTo_succ hal hwsa]
  rw [hreach]
  generalize hb : scanTo s LeanMark.isWsChar a = b at hbge hble hbhead ⊢
  by_cases heq : isCharAt s b '=' = true
  · -- a value follows
    rw [if_pos heq]
    have hbl := isCharAt_true_lt heq
    have hbc : s[b] = '=' := by rw [isCharAt_lt hbl] at heq; simpa using heq
    have htoEq : (if b = a then A (s.drop a) .attrName a else A (s.drop b) .wsAfterName b) =
        A (s.drop (b + 1)) .afterEq (b + 1) := by
      have h1 : LeanMark.isWsChar '=' = false := by decide
      have h2 : isAttrChar '=' = false := by decide
      by_cases hab : b = a
      · rw [if_pos hab, ← hab, drop_cons hbl, hbc, openTagGoX]
        simp only [h1, h2, Bool.false_eq_true, if_false, beq_self_eq_true, if_true]
      · rw [if_neg hab, drop_cons hbl, hbc, openTagGoX]
        simp only [h1, Bool.false_eq_true, if_false, beq_self_eq_true, if_true]
    rw [htoEq]
    have hv := value_phase s b (by omega)
    cases hve : attrValueEndQ s (scanTo s LeanMark.isWsChar (b + 1)) with
    | none => rw [hve] at hv; simp only [Option.map_none] at hv ⊢; exact hv
    | some ve =>
      rw [hve] at hv
      simp only [Option.map_some] at hv ⊢
      obtain ⟨h1, h2, h3⟩ := hv
      have hjge := scanTo_ge s LeanMark.isWsChar ve
      have hjle := scanTo_le s LeanMark.isWsChar ve h1
      refine ⟨by omega, hjle, head_after_scan s LeanMark.isWsChar ve h1, ?_⟩
      rw [h3, slice_isEmpty hjge hjle]
      by_cases hj : scanTo s LeanMark.isWsChar ve = ve
      · simp only [hj, decide_true, if_true]
      · simp only [hj, decide_false, Bool.false_eq_true, if_false]
  · -- no value
    rw [if_neg heq]
    simp only
    refine ⟨by omega, hble, hbhead, ?_⟩
    have hne : ∀ c r, s.drop b = c :: r → c ≠ '=' := by
      intro c r hd hc
      have hbl : b < s.length := by
        by_cases hh : b < s.length
        · exact hh
        · rw [List.drop_eq_nil_of_le (by omega)] at hd; cases hd
      rw [drop_cons hbl] at hd
      injection hd with h1 _
      rw [isCharAt_lt hbl, h1, hc] at heq
      exact heq (by decide)
    rw [slice_isEmpty hbge hble]
    by_cases hab : b = a
    · subst hab
      simp only [decide_true, if_true]
      rw [tailAt_eq]
      apply endL_attrName
      intro c r hd
      exact ⟨hbhead c r hd, hahead c r hd, hne c r hd⟩
    · simp only [hab, decide_false, Bool.false_eq_true, if_false]
      apply ws0_of_wsAfterName
      intro c r hd
      exact ⟨hbhead c r hd, hne c r hd⟩

/-! ## the attribute loop and the whole tag -/

theorem isCharAtOneOf_attrStart (s : Str) (i : Nat) :
    isCharAtOneOf s i attrNameStart = (match s[i]? with | some d => isAttrStart d | none => false) := by
  unfold isCharAtOneOf
  cases s[i]? with
  | none => rfl
  | some d => simp only [attrNameStart_eq]

/-- the loop over the attributes and the end of the tag = the automaton from `ws0` (white space seen) or from a state
that only accepts the end of the tag (no white space) -/
theorem attr_loop (s : Str) : ∀ (fuel i : Nat) (ws : Str), s.length - i < fuel → i ≤ s.length →
    (∀ c r, s.drop i = c :: r → LeanMark.isWsChar c = false) →
    (match attrLoopP s fuel i ws with | some (some j) => tailAt s j | _ => none) =
      (if ws.isEmpty then tailAt s i else A (s.drop i) .ws0 i)
  | 0, _, _, hf, _, _ => by omega
  | fuel + 1, i, ws, hf, hi, hhead => by
    rw [attrLoopP]
    by_cases hcond : (!ws.isEmpty && isCharAtOneOf s i attrNameStart) = true
    · rw [if_pos hcond]
      simp only [Bool.and_eq_true, Bool.not_eq_true'] at hcond
      obtain ⟨hwne, hst⟩ := hcond
      have hil := isCharAtOneOf_true_lt hst
      rw [isCharAtOneOf_attrStart, List.getElem?_eq_getElem hil] at hst
      simp only at hst
      rw [hwne]
      simp only [Bool.false_eq_true, if_false]
      rw [tagAttrsP_eq_Q]
      have hp := attr_phase s i hil hst
      cases hq : tagAttrsQ s i with
      | none => rw [hq] at hp; simp only at hp ⊢; exact hp.symm
      | some r =>
        obtain ⟨j, w⟩ := r
        rw [hq] at hp
        simp only at hp ⊢
        obtain ⟨h1, h2, h3, h4⟩ := hp
        rw [h4]
        exact attr_loop s fuel j w (by omega) h2 h3
    · rw [if_neg hcond]
      simp only
      by_cases hwe : ws.isEmpty = true
      · rw [if_pos hwe]
      · rw [if_neg hwe]
        have hns : isCharAtOneOf s i attrNameStart = false := by
          cases hc : isCharAtOneOf s i attrNameStart with
          | false => rfl
          | true => simp [hwe, hc] at hcond
        rw [tailAt_eq]
        symm
        apply endL_ws0
        intro c r hd
        refine ⟨hhead c r hd, ?_⟩
        have hil : i < s.length := by
          by_cases hh : i < s.length
          · exact hh
          · rw [List.drop_eq_nil_of_le (by omega)] at hd; cases hd
        rw [drop_cons hil] at hd
        injection hd with h1 _
        rw [isCharAtOneOf_attrStart, List.getElem?_eq_getElem hil] at hns
        rw [← h1]; exact hns

theorem ws_tagName : ∀ c r n, LeanMark.isWsChar c = true → A (c :: r) .tagName n = A r .ws0 (n + 1) := by
  intro c r n h; rw [openTagGoX]
  simp only [nameChar_not_ws h, h, Bool.false_eq_true, if_false, if_true]

/-- `__parse_raw_open_tag` is the lenient automaton: same acceptance, same number of characters, the recorded text is the
consumed text without the final `>` -/
theorem parseRawOpenTag_auto (s : Str) :
    parseRawOpenTag s = .ok ((scanOpenTagX true s).map fun n => (s.take (n - 1), n)) := by
  unfold parseRawOpenTag
  rw [parseRawTagName_eq]
  simp only
  cases s with
  | nil => rfl
  | cons c r =>
    have hstart : isCharAtOneOf (c :: r) 0 tagNameStart = isAlpha c := by
      unfold isCharAtOneOf tagNameStart
      simp only [List.getElem?_cons_zero, asciiLetters_eq]
    rw [hstart]
    unfold scanOpenTagX
    by_cases ha : isAlpha c = true
    · simp only [ha, if_true]
      generalize hs : c :: r = s
      have hl0 : 0 < s.length := by rw [← hs]; simp
      have hc0 : s[0] = c := by subst hs; rfl
      have hname : (isAlnum s[0] || s[0] == '-') = true := by
        rw [hc0]; unfold LeanMark.isAlnum; simp [ha]
      have hk1 : 1 ≤ scanTo s tagNameChars.contains (0 + 1) := scanTo_ge _ _ _
      have hkle := scanTo_le s tagNameChars.contains (0 + 1) (by omega)
      have hlen : (s.take (scanTo s tagNameChars.contains (0 + 1))).length = scanTo s tagNameChars.contains (0 + 1) := by
        rw [List.length_take]; omega
      have hne : (s.take (scanTo s tagNameChars.contains (0 + 1))).isEmpty = false := by
        cases hh : s.take (scanTo s tagNameChars.contains (0 + 1)) with
        | nil => rw [hh] at hlen; simp only [List.length_nil] at hlen; omega
        | cons _ _ => rfl
      simp only [hne, Bool.false_eq_true, if_false]
      rw [hlen, extractAsciiWsVerified_eq _ _ hkle]
      simp only
      rw [scanTo_congr tagNameChars_eq, scanTo_congr asciiWs_eq] at *
      generalize hk : scanTo s (fun c => isAlnum c || c == '-') (0 + 1) = k at hk1 hkle ⊢
      have hkhead : ∀ c r, s.drop k = c :: r → (isAlnum c || c == '-') = false := by
        rw [← hk]; exact head_after_scan s _ (0 + 1) (by omega)
      have hpge := scanTo_ge s LeanMark.isWsChar k
      have hple := scanTo_le s LeanMark.isWsChar k hkle
      have hphead := head_after_scan s LeanMark.isWsChar k hkle
      obtain ⟨o, ho, hoP, _⟩ := attrLoop_ok s (s.length + 1) (scanTo s LeanMark.isWsChar k)
        (slice s k (scanTo s LeanMark.isWsChar k)) (by omega) hple
      rw [ho]
      have hloop := attr_loop s (s.length + 1) (scanTo s LeanMark.isWsChar k) (slice s k (scanTo s LeanMark.isWsChar k))
        (by omega) hple hphead
      rw [hoP] at hloop
      -- the automaton: over the name, then over the white space
      have hauto : A r .tagName 1 =
          (if (slice s k (scanTo s LeanMark.isWsChar k)).isEmpty then tailAt s (scanTo s LeanMark.isWsChar k)
           else A (s.drop (scanTo s LeanMark.isWsChar k)) .ws0 (scanTo s LeanMark.isWsChar k)) := by
        have hr : r = s.drop 1 := by rw [← hs]; rfl
        rw [hr, run_at .tagName (fun c => isAlnum c || c == '-') step_name s 1]
        rw [show scanTo s (fun c => isAlnum c || c == '-') 1 = k from hk]
        rw [slice_isEmpty hpge hple]
        by_cases hpk : scanTo s LeanMark.isWsChar k = k
        · simp only [hpk, decide_true, if_true]
          rw [tailAt_eq]
          apply endL_tagName
          intro c r hd
          exact ⟨head_of_fix s LeanMark.isWsChar k hpk c r hd, hkhead c r hd⟩
        · simp only [hpk, decide_false, Bool.false_eq_true, if_false]
          exact ws_then .tagName ws_tagName s k (by omega)
      rw [hauto, ← hloop]
      cases o with
      | none => rfl
      | some j =>
        simp only
        unfold tailAt
        by_cases hgt : isCharAt s (if isCharAt s j '/' = true then j + 1 else j) '>' = true
        · simp only [hgt, if_true, Option.map_some, Nat.add_sub_cancel]
        · simp only [hgt, Bool.false_eq_true, if_false, Option.map_none]
    · have ha' : isAlpha c = false := by simpa using ha
      simp only [ha', Bool.false_eq_true, if_false]
      rfl

/-! ## lenient = strict unless the tag has an empty unquoted value (`=`, optional white space, `>`) -/

/-- after an `=`: only white space up to a `>` -/
def emptyUnqAt : List Char → Bool
  | c :: r => if LeanMark.isWsChar c then emptyUnqAt r else c == '>'
  | [] => false

/-- the text contains `=`, optional white space, `>` -/
def hasEmptyUnq : List Char → Bool
  | [] => false
  | c :: r => (c == '=' && emptyUnqAt r) || hasEmptyUnq r

theorem hasEmptyUnq_tail {c : Char} {r : List Char} (h : hasEmptyUnq (c :: r) = false) : hasEmptyUnq r = false := by
  rw [hasEmptyUnq, Bool.or_eq_false_iff] at h; exact h.2

theorem lenient_eq_strict : ∀ (l : List Char) (st : TagSt) (n : Nat), hasEmptyUnq l = false →
    (st = .afterEq → emptyUnqAt l = false) → openTagGoX true l st n = openTagGoX false l st n
  | [], st, n, _, _ => by cases st <;> rfl
  | c :: r, st, n, h, hq => by
    have hr := hasEmptyUnq_tail h
    have heq : (c == '=') = true → emptyUnqAt r = false := by
      intro hc
      rw [hasEmptyUnq, Bool.or_eq_false_iff, hc, Bool.true_and] at h
      exact h.1
    have ih := fun st' (hst' : st' ≠ TagSt.afterEq) => lenient_eq_strict r st' (n + 1) hr (fun e => absurd e hst')
    have ihEq := fun (hq' : emptyUnqAt r = false) => lenient_eq_strict r .afterEq (n + 1) hr (fun _ => hq')
    cases st with
    | tagName =>
      rw [openTagGoX, openTagGoX]
      simp only [ih .tagName (by decide), ih .ws0 (by decide), ih .slash (by decide)]
    | ws0 =>
      rw [openTagGoX, openTagGoX]
      simp only [ih .ws0 (by decide), ih .attrName (by decide), ih .slash (by decide)]
    | attrName =>
      rw [openTagGoX, openTagGoX]
      simp only [ih .attrName (by decide), ih .wsAfterName (by decide), ih .slash (by decide)]
      by_cases hc : (c == '=') = true
      · simp only [hc, if_true, ihEq (heq hc)]
      · simp only [hc, Bool.false_eq_true, if_false]
    | wsAfterName =>
      rw [openTagGoX, openTagGoX]
      simp only [ih .attrName (by decide), ih .wsAfterName (by decide), ih .slash (by decide)]
      by_cases hc : (c == '=') = true
      · simp only [hc, if_true, ihEq (heq hc)]
      · simp only [hc, Bool.false_eq_true, if_false]
    | afterEq =>
      have hq' := hq rfl
      rw [emptyUnqAt] at hq'
      rw [openTagGoX, openTagGoX]
      simp only [ih .dq (by decide), ih .sq (by decide), ih .unq (by decide)]
      by_cases hw : LeanMark.isWsChar c = true
      · simp only [hw, if_true] at hq' ⊢
        exact ihEq hq'
      · simp only [hw, Bool.false_eq_true, if_false] at hq' ⊢
        simp only [hq', Bool.and_false, Bool.false_eq_true, if_false]
    | unq =>
      rw [openTagGoX, openTagGoX]
      simp only [ih .unq (by decide), ih .ws0 (by decide)]
    | dq =>
      rw [openTagGoX, openTagGoX]
      simp only [ih .dq (by decide), ih .afterValue (by decide)]
    | sq =>
      rw [openTagGoX, openTagGoX]
      simp only [ih .sq (by decide), ih .afterValue (by decide)]
    | afterValue =>
      rw [openTagGoX, openTagGoX]
      simp only [ih .ws0 (by decide), ih .slash (by decide)]
    | slash => rw [openTagGoX, openTagGoX]

/-- `__parse_raw_open_tag` = the specification's open tag, for every text without an empty unquoted attribute value -/
theorem rawOpenTag_spec (s : Str) (h : hasEmptyUnq s = false) :
    parseRawOpenTag s = .ok ((LeanMark.scanOpenTag s).map fun n => (s.take (n - 1), n)) := by
  rw [parseRawOpenTag_auto, ← scanOpenTagX_false]
  congr 2
  unfold scanOpenTagX
  cases s with
  | nil => rfl
  | cons c r =>
    by_cases ha : isAlpha c = true
    · simp only [ha, if_true]
      exact lenient_eq_strict r .tagName 1 (hasEmptyUnq_tail h) (by intro e; cases e)
    · simp only [ha]; rfl

/-- the excluded point is real: `<a b=>` is accepted by the code (text `a b=`, 5 characters) and is not an open tag -/
theorem rawOpenTag_spec_excluded :
    parseRawOpenTag ['a', ' ', 'b', '=', '>'] = .ok (some (['a', ' ', 'b', '='], 5)) ∧
    LeanMark.scanOpenTag ['a', ' ', 'b', '=', '>'] = none := by
  constructor
  · rw [parseRawOpenTag_auto]; decide
  · decide

end Verif.Model.InlineRecog
