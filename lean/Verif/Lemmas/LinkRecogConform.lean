/-
  The model's functions (index level) against the specification's scanners (LeanMark), assembled from the closed forms of
  Verif/Lemmas/LinkRecog.lean and the list-level equalities of Verif/Lemmas/LinkRecogSpec.lean.
-/
import Verif.Lemmas.LinkRecogSpec
namespace Verif.Model.LinkRecog
open Verif.Model.Recognisers
open Verif.Model.LeanMark (scanAngleGo scanRawDestGo scanTitleGo scanLabelGo isCtlOrSpace isAsciiPunct)

/-- a value error: the text was recognised, `chr()` failed on a numeric character reference inside it -/
def ValueErr {α : Type} (x : Except LErr α) : Prop := ∃ e, x = .error e ∧ (e = .value ∨ e = .surrogate)

theorem destFinish_view (s : Str) (i ni : Nat) (ex : Str) (a : Bool) :
    (ex.contains '\n' = true → destFinish s i ni ex a = .ok .fail) ∧
    (ex.contains '\n' = false →
      ValueErr (destFinish s i ni ex a) ∨
      ∃ enc, destFinish s i ni ex a = .ok ⟨some enc, some ex, ni, some (pySlice s i ni), some a⟩) := by
  have hne : ((ni : Int) != -1) = true := by simp only [bne_iff_ne, ne_eq]; omega
  unfold destFinish
  simp only [hne, Bool.true_and, NL]
  constructor
  · intro h; simp only [h, ↓reduceIte]
  · intro h
    simp only [h, Bool.false_eq_true, ↓reduceIte]
    have hsafe : Safe (if (!ex.isEmpty) = true then handleBackslashes ex else .ok ex) := by
      split
      · exact handleBackslashes_safe ex
      · exact Safe.ok _
    cases hb : (if (!ex.isEmpty) = true then handleBackslashes ex else .ok ex) with
    | error e => exact Or.inl ⟨e, rfl, hsafe e hb⟩
    | ok ex2 =>
      obtain ⟨enc, henc⟩ := encodeLinkDestination_returns ex2
      simp only [henc]
      exact Or.inr ⟨enc, rfl⟩

theorem destFinish_neg (s : Str) (i : Nat) (a : Bool) :
    destFinish s i (-1) [] a = .ok ⟨some [], some [], -1, some (pySlice s i (-1)), some a⟩ := by
  unfold destFinish
  simp only [bne_self_eq_false, Bool.false_and, Bool.false_eq_true, ↓reduceIte, encodeLinkDestination_nil]

/-- **angle destination**: if the text after `<` has no unescaped `<`, `__parse_link_destination` accepts exactly what
CommonMark's "sequence of characters between `<` and `>` that contains no line endings or unescaped `<` or `>`" accepts,
with the same raw text and the same end. -/
theorem dest_angle_conforms (s : Str) (i : Nat) (ha : isCharAt s i '<' = true)
    (hno : unescLt (angleTake (s.drop (i + 1))) = false) :
    match scanAngleGo (s.drop (i + 1)) [] false with
    | some (raw, n) =>
        ValueErr (parseLinkDestination s i) ∨
        ∃ enc, parseLinkDestination s i = .ok ⟨some enc, some raw, ((i + 1 + n : Nat) : Int), some (slice s i (i + 1 + n)), some true⟩
    | none => ∃ d, parseLinkDestination s i = .ok d ∧ d.newIndex = -1 := by
  have hlt := isCharAt_true_lt ha
  rw [angle_spec_aux, parseLinkDestination_eq s i (by omega)]
  simp only [hno, Bool.not_false, Bool.true_and, ha, ↓reduceIte, List.reverse_nil, List.nil_append, List.length_nil,
    Nat.zero_add]
  have hkle : angleSpan (s.drop (i + 1)) ≤ s.length - (i + 1) := by
    have := angleSpan_le (s.drop (i + 1)); simpa using this
  by_cases hok : angleOk (s.drop (i + 1)) = true
  · simp only [hok, ↓reduceIte]
    unfold angleOk at hok
    simp only [Bool.and_eq_true, Bool.not_eq_true'] at hok
    have hgt : isCharAt s (i + 1 + angleSpan (s.drop (i + 1))) '>' = true := by
      rw [isCharAt_drop, ← List.drop_drop]; exact hok.1
    have hl2 := isCharAt_true_lt hgt
    simp only [hgt, ↓reduceIte]
    have hv := (destFinish_view s i (i + 1 + angleSpan (s.drop (i + 1)) + 1) (angleTake (s.drop (i + 1))) true).2 hok.2
    have e : (((i + 1 + angleSpan (s.drop (i + 1)) : Nat) : Int) + 1) = ((i + 1 + angleSpan (s.drop (i + 1)) + 1 : Nat) : Int) := by
      omega
    rw [e]
    unfold angleTake at hv ⊢
    rcases hv with hv | ⟨enc, hv⟩
    · exact Or.inl hv
    · refine Or.inr ⟨enc, ?_⟩
      rw [hv, pySlice_nat s i _ (by omega) (by omega)]
      rfl
  · simp only [hok, Bool.false_eq_true, ↓reduceIte]
    by_cases hgt : isCharAt s (i + 1 + angleSpan (s.drop (i + 1))) '>' = true
    · simp only [hgt, ↓reduceIte]
      have hnl : (angleTake (s.drop (i + 1))).contains '\n' = true := by
        unfold angleOk at hok
        rw [isCharAt_drop, ← List.drop_drop] at hgt
        simp only [hgt, Bool.true_and, Bool.not_eq_true', Bool.not_eq_false] at hok
        exact hok
      have e : (((i + 1 + angleSpan (s.drop (i + 1)) : Nat) : Int) + 1) = ((i + 1 + angleSpan (s.drop (i + 1)) + 1 : Nat) : Int) := by
        omega
      rw [e]
      have := (destFinish_view s i (i + 1 + angleSpan (s.drop (i + 1)) + 1) (angleTake (s.drop (i + 1))) true).1 hnl
      unfold angleTake at this
      rw [this]
      exact ⟨_, rfl, rfl⟩
    · simp only [hgt, Bool.false_eq_true, ↓reduceIte, destFinish_neg]
      exact ⟨_, rfl, rfl⟩

/-- the non-angle scan never walks over a newline -/
theorem rawTake_no_nl : ∀ (l : Str) (d : Nat), (l.take (rawSpan d l).1).contains '\n' = false := by
  intro l
  induction l using esc_induction with
  | nil => intro d; simp [rawSpan_nil]
  | bs_end => intro d; simp [rawSpan_bs_end]
  | bs_pair x r ih =>
    intro d
    rw [rawSpan_bs_pair]
    by_cases hx : (x == '\n') = true
    · simp [hx]
    · simp only [hx, Bool.false_eq_true, ↓reduceIte, List.take_succ_cons, List.contains_cons, ih,
        Bool.or_false]
      have : ('\n' == x) = false := by rw [BEq.comm]; simpa using hx
      simp [this]
  | other c r hc ih =>
    intro d
    rw [rawSpan_other d c r hc]
    by_cases h2 : (c == '(') = true
    · have : c = '(' := by simpa using h2
      subst this
      have := ih (d + 1)
      simpa [List.take_succ_cons] using this
    · simp only [h2, Bool.false_eq_true, ↓reduceIte]
      by_cases h3 : (c == ')') = true
      · have : c = ')' := by simpa using h3
        subst this
        simp only [beq_self_eq_true, ↓reduceIte]
        split
        · have := ih (d - 1)
          simpa [List.take_succ_cons] using this
        · simp
      · simp only [h3, Bool.false_eq_true, ↓reduceIte]
        by_cases h4 : isCtlOrSpace c = true
        · simp [h4]
        · simp only [h4, Bool.false_eq_true, ↓reduceIte, List.take_succ_cons, List.contains_cons, ih, Bool.or_false]
          cases hcn : ('\n' == c)
          · rfl
          · rw [beq_iff_eq] at hcn; subst hcn; simp [isCtlOrSpace] at h4

theorem nonAngleSpan_eq_rawSpan (l : Str) : nonAngleSpan l = rawSpan 0 l := rfl

/-- **non-angle destination**: if no backslash is followed by a space or control character (other than a newline) inside
the text pymarkdown walks over, `__parse_link_destination` accepts exactly CommonMark's "nonempty sequence of characters
that does not start with `<`, does not include ASCII control characters or space character, and includes parentheses only
if (a) they are backslash-escaped or (b) they are part of a balanced pair of unescaped parentheses", same text, same end. -/
theorem dest_raw_conforms (s : Str) (i : Nat) (h : i ≤ s.length) (ha : isCharAt s i '<' = false)
    (hno : bsCtl ((s.drop i).take (rawSpan 0 (s.drop i)).1) = false) :
    match scanRawDestGo (s.drop i) 0 0 false with
    | some n =>
        if n = 0 then ∃ d, parseLinkDestination s i = .ok d ∧ d.newIndex = -1
        else ValueErr (parseLinkDestination s i) ∨
          ∃ enc, parseLinkDestination s i = .ok ⟨some enc, some ((s.drop i).take n), ((i + n : Nat) : Int), some (slice s i (i + n)), some false⟩
    | none => ∃ d, parseLinkDestination s i = .ok d ∧ d.newIndex = -1 := by
  rw [raw_spec_aux _ 0 0 hno, parseLinkDestination_eq s i h, nonAngleSpan_eq_rawSpan]
  simp only [ha, Bool.false_eq_true, ↓reduceIte, Nat.zero_add]
  have hkle : (rawSpan 0 (s.drop i)).1 ≤ s.length - i := by
    have := nonAngleSpan_le (s.drop i); rw [nonAngleSpan_eq_rawSpan] at this; simpa using this
  by_cases hm : ((rawSpan 0 (s.drop i)).2 == 0) = true
  · have hm' : ((rawSpan 0 (s.drop i)).2 != 0) = false := by simpa using hm
    simp only [hm, ↓reduceIte, hm', Bool.false_eq_true]
    by_cases hk : (rawSpan 0 (s.drop i)).1 = 0
    · simp only [hk, ↓reduceIte, List.take_zero, List.isEmpty_nil]
      exact ⟨_, rfl, rfl⟩
    · have hne : ((s.drop i).take (rawSpan 0 (s.drop i)).1).isEmpty = false := by
        have hl : ((s.drop i).take (rawSpan 0 (s.drop i)).1).length = (rawSpan 0 (s.drop i)).1 := by
          rw [List.length_take, List.length_drop]; omega
        cases hd : (s.drop i).take (rawSpan 0 (s.drop i)).1 with
        | nil => rw [hd] at hl; simp at hl; omega
        | cons c r => rfl
      simp only [hk, ↓reduceIte, hne, Bool.false_eq_true]
      have hv := (destFinish_view s i (i + (rawSpan 0 (s.drop i)).1) ((s.drop i).take (rawSpan 0 (s.drop i)).1) false).2
        (rawTake_no_nl (s.drop i) 0)
      rcases hv with hv | ⟨enc, hv⟩
      · exact Or.inl hv
      · refine Or.inr ⟨enc, ?_⟩
        rw [hv, pySlice_nat s i _ h (by omega)]
  · have hm' : ((rawSpan 0 (s.drop i)).2 != 0) = true := by simpa using hm
    simp only [hm, Bool.false_eq_true, ↓reduceIte, hm']
    exact ⟨_, rfl, rfl⟩

/-- **title**: after an opening `'` or `"`, `extract_bounded_string` accepts exactly CommonMark's "sequence of zero or more
characters between … quote characters, including a quote character only if it is backslash-escaped", for every input. -/
theorem title_quote_conforms (s : Str) (i : Nat) (o : Char) (ho : o = '\'' ∨ o = '"') (h : isCharAt s i o = true) :
    extractBoundedString s (i + 1) o none =
      .ok (match scanTitleGo o false (s.drop (i + 1)) [] false with
           | some (raw, n) => (i + 1 + n, some raw)
           | none => (s.length, none)) := by
  have hlt := isCharAt_true_lt h
  have h1 : o ≠ '\n' := by rcases ho with rfl | rfl <;> decide
  have h2 : o ≠ '\\' := by rcases ho with rfl | rfl <;> decide
  rw [extractBoundedString_eq s (i + 1) o none (by omega) h2 (by simp), title_quote_aux o h1 h2, boundedSpan_eq_bSpan]
  simp only [List.reverse_nil, List.nil_append, List.length_nil, Nat.zero_add]
  unfold titleOk titleTake
  rw [isCharAt_drop, ← List.drop_drop]
  by_cases hc : ((List.drop (bSpan none o 0 (s.drop (i + 1))).1 (s.drop (i + 1))).head? == some o &&
      (bSpan none o 0 (s.drop (i + 1))).2 == 0) = true
  · simp only [hc, ↓reduceIte]; rfl
  · simp only [hc, Bool.false_eq_true, ↓reduceIte]
    have := boundedSpan_fail_end none o (s.drop (i + 1)) (by rw [boundedSpan_eq_bSpan]; simpa using hc)
    rw [boundedSpan_eq_bSpan] at this
    simp only [List.length_drop] at this
    congr 2; omega

/-- **parenthesised title**: the same for `(`…`)` on every input where the text pymarkdown walks over has no unescaped
`(` (the specification forbids one; pymarkdown nests — see `title_paren_differs`). -/
theorem title_paren_conforms (s : Str) (i : Nat) (h : isCharAt s i '(' = true)
    (hno : unescOpen (titleTake (some '(') ')' (s.drop (i + 1))) = false) :
    extractBoundedString s (i + 1) ')' (some '(') =
      .ok (match scanTitleGo ')' true (s.drop (i + 1)) [] false with
           | some (raw, n) => (i + 1 + n, some raw)
           | none => (s.length, none)) := by
  have hlt := isCharAt_true_lt h
  rw [extractBoundedString_eq s (i + 1) ')' (some '(') (by omega) (by decide) (by decide), title_paren_aux,
    boundedSpan_eq_bSpan]
  simp only [hno, Bool.not_false, Bool.true_and, List.reverse_nil, List.nil_append, List.length_nil, Nat.zero_add]
  unfold titleOk titleTake
  rw [isCharAt_drop, ← List.drop_drop]
  by_cases hc : ((List.drop (bSpan (some '(') ')' 0 (s.drop (i + 1))).1 (s.drop (i + 1))).head? == some ')' &&
      (bSpan (some '(') ')' 0 (s.drop (i + 1))).2 == 0) = true
  · simp only [hc, ↓reduceIte]; rfl
  · simp only [hc, Bool.false_eq_true, ↓reduceIte]
    have := boundedSpan_fail_end (some '(') ')' (s.drop (i + 1)) (by rw [boundedSpan_eq_bSpan]; simpa using hc)
    rw [boundedSpan_eq_bSpan] at this
    simp only [List.length_drop] at this
    congr 2; omega

/-- **label**: `extract_link_label` (without the definition colon) accepts exactly CommonMark's link label — no unescaped
brackets inside, ends at the first unescaped `]` — as long as the label is at most 999 characters long; the
specification's limit is not implemented (see `label_limit_differs`). -/
theorem label_conforms (s : Str) (i : Nat) (h : i ≤ s.length) (hlen : labelSpan (s.drop i) ≤ 999) :
    match scanLabelGo (s.drop i) [] false with
    | some (raw, n) => extractLinkLabel s i false = .ok (true, ((i + n : Nat) : Int), some raw)
    | none => ∃ j, extractLinkLabel s i false = .ok (false, j, none) := by
  rw [label_spec_aux]
  unfold extractLinkLabel
  rw [labelLoop_eq s i h]
  simp only [List.length_nil, Nat.zero_add, hlen, decide_true, Bool.and_true, List.reverse_nil, List.nil_append]
  unfold labelOk labelTake
  rw [List.drop_drop, ← isCharAt_drop]
  by_cases h2 : isCharAt s (i + labelSpan (s.drop i)) ']' = true
  · have hl := isCharAt_true_lt h2
    have h1 : isCharAt s (i + labelSpan (s.drop i)) '[' = false := by
      rw [isCharAt_lt hl] at h2 ⊢
      have : s[i + labelSpan (s.drop i)] = ']' := by simpa using h2
      rw [this]; decide
    simp only [h2, ↓reduceIte, h1, Bool.false_eq_true, Bool.not_true]
    rfl
  · simp only [h2, Bool.false_eq_true, ↓reduceIte]
    by_cases h1 : isCharAt s (i + labelSpan (s.drop i)) '[' = true
    · simp only [h1, ↓reduceIte]; exact ⟨_, rfl⟩
    · simp only [h1, Bool.false_eq_true, ↓reduceIte, h2, Bool.not_false]; exact ⟨_, rfl⟩

end Verif.Model.LinkRecog
