/-
  Helper lemmas about `Verif.Model.Lines` (splitting, universal newlines, providers, spool).
-/
import Verif.Model.Lines
namespace Verif.Lemmas.Lines
open Verif.Model.Lines

/-! ### splitOn / joinOn -/

theorem splitOn_nil (sep : Char) : splitOn sep [] = [[]] := rfl

theorem splitOn_cons_sep (sep : Char) (cs : Str) : splitOn sep (sep :: cs) = [] :: splitOn sep cs := by
  simp [splitOn, splitAux]

theorem splitOn_cons_ne (sep c : Char) (cs : Str) (h : c ≠ sep) :
    splitOn sep (c :: cs) = (c :: (splitAux sep cs).1) :: (splitAux sep cs).2 := by
  simp [splitOn, splitAux, h]

theorem joinOn_cons_cons (sep : Char) (l m : Str) (ls : List Str) :
    joinOn sep (l :: m :: ls) = l ++ sep :: joinOn sep (m :: ls) := rfl

theorem joinOn_splitOn (sep : Char) (s : Str) : joinOn sep (splitOn sep s) = s := by
  induction s with
  | nil => rfl
  | cons c cs ih =>
    by_cases h : c = sep
    · subst h
      rw [splitOn_cons_sep]
      unfold splitOn at ih ⊢
      rw [joinOn_cons_cons, ih]; rfl
    · rw [splitOn_cons_ne _ _ _ h]
      unfold splitOn at ih
      cases hr : (splitAux sep cs).2 with
      | nil => rw [hr] at ih; simp [joinOn] at ih ⊢; exact ih
      | cons m ms =>
        rw [hr] at ih
        rw [joinOn_cons_cons] at ih ⊢
        simp [ih]

theorem splitOn_length (sep : Char) (s : Str) : (splitOn sep s).length = s.count sep + 1 := by
  induction s with
  | nil => rfl
  | cons c cs ih =>
    by_cases h : c = sep
    · subst h; rw [splitOn_cons_sep]; simp [ih]
    · rw [splitOn_cons_ne _ _ _ h]
      unfold splitOn at ih
      simp at ih ⊢
      simp [h]
      exact ih

theorem splitOn_noSep (sep : Char) (s : Str) : ∀ l ∈ splitOn sep s, sep ∉ l := by
  induction s with
  | nil => simp [splitOn, splitAux]
  | cons c cs ih =>
    by_cases h : c = sep
    · subst h; rw [splitOn_cons_sep]
      intro l hl; simp at hl
      rcases hl with rfl | hl
      · simp
      · exact ih l hl
    · rw [splitOn_cons_ne _ _ _ h]
      unfold splitOn at ih
      intro l hl; simp at hl
      rcases hl with rfl | hl
      · have := ih (splitAux sep cs).1 (by simp)
        simp; exact ⟨fun e => h e.symm, this⟩
      · exact ih l (by simp [hl])

theorem splitOn_of_noSep (sep : Char) (l : Str) (h : sep ∉ l) : splitOn sep l = [l] := by
  induction l with
  | nil => rfl
  | cons c cs ih =>
    simp at h
    have hc : c ≠ sep := fun e => h.1 e.symm
    rw [splitOn_cons_ne _ _ _ hc]
    have := ih h.2
    unfold splitOn at this
    simp at this
    simp [this.1, this.2]

/-- splitting distributes over a separator in the middle. -/
theorem splitAux_append_sep (sep : Char) (a b : Str) :
    splitAux sep (a ++ sep :: b) = ((splitAux sep a).1, (splitAux sep a).2 ++ splitOn sep b) := by
  induction a with
  | nil => simp [splitAux, splitOn]
  | cons c cs ih =>
    by_cases h : c = sep
    · subst h; simp [splitAux, ih]
    · simp [splitAux, h, ih]

theorem splitOn_append_sep (sep : Char) (a b : Str) :
    splitOn sep (a ++ sep :: b) = splitOn sep a ++ splitOn sep b := by
  simp [splitOn, splitAux_append_sep]

theorem splitOn_joinOn (sep : Char) (ls : List Str) (hne : ls ≠ []) (h : ∀ l ∈ ls, sep ∉ l) :
    splitOn sep (joinOn sep ls) = ls := by
  induction ls with
  | nil => exact absurd rfl hne
  | cons l ls ih =>
    cases ls with
    | nil => simp [joinOn]; exact splitOn_of_noSep sep l (h l (by simp))
    | cons m ms =>
      rw [joinOn_cons_cons, splitOn_append_sep]
      rw [ih (by simp) (fun x hx => h x (by simp [hx]))]
      have := splitOn_of_noSep sep l (h l (by simp))
      simp [this]

/-! ### universal newlines -/

theorem univNL_noCR (s : Str) : CR ∉ univNL s := by
  fun_induction univNL s <;> simp_all [CR, NL] <;> (intro e; exact absurd e.symm ‹_›)

theorem univNL_of_noCR (s : Str) (h : CR ∉ s) : univNL s = s := by
  fun_induction univNL s <;> simp_all

theorem univNL_idem (s : Str) : univNL (univNL s) = univNL s :=
  univNL_of_noCR _ (univNL_noCR s)

/-! ### readlines and the file provider -/

def chomp (l : Str) : Str := if endsNL l then dropLastChar l else l

/-- value of `did_line_end_in_newline` after the loop -/
def lastFlag : List Str → Bool → Bool
  | [], f => f
  | l :: ls, _ => lastFlag ls (endsNL l)

theorem fspLoop_spec (ls acc : List Str) (f : Bool) :
    fspLoop ls acc f = (acc ++ ls.map chomp, lastFlag ls f) := by
  induction ls generalizing acc f with
  | nil => simp [fspLoop, lastFlag]
  | cons l ls ih => simp [fspLoop, lastFlag, ih, chomp]

theorem readlines_eq_nil (t : Str) : readlines t = [] ↔ t = [] := by
  cases t with
  | nil => simp [readlines]
  | cons c cs =>
    unfold readlines
    split
    · simp
    · split <;> simp

theorem readlines_flatten (t : Str) : (readlines t).flatten = t := by
  induction t with
  | nil => rfl
  | cons c cs ih =>
    unfold readlines
    split
    · simp_all
    · split
      · rename_i h; rw [h] at ih; simp at ih; simp [← ih]
      · rename_i h; rw [h] at ih; simp at ih; simp [← ih]

theorem endsNL_cons (c : Char) (l : Str) (h : l ≠ []) : endsNL (c :: l) = endsNL l := by
  cases l with
  | nil => exact absurd rfl h
  | cons d ds => simp [endsNL, List.getLast?_cons_cons]

theorem endsNL_singleton_ne (c : Char) (h : c ≠ NL) : endsNL [c] = false := by
  simp [endsNL, h]

theorem chomp_cons (c : Char) (l : Str) (h : c ≠ NL) : chomp (c :: l) = c :: chomp l := by
  cases l with
  | nil => simp [chomp, endsNL, h]
  | cons d ds =>
    unfold chomp
    rw [endsNL_cons c (d :: ds) (by simp)]
    split <;> simp [dropLastChar]

theorem lastFlag_readlines (t : Str) (f : Bool) :
    lastFlag (readlines t) f = if t = [] then f else endsNL t := by
  induction t generalizing f with
  | nil => rfl
  | cons c cs ih =>
    simp only [List.cons_ne_nil, ↓reduceIte]
    unfold readlines
    split
    · rename_i h; subst h
      simp only [lastFlag]
      rw [ih]
      split
      · rename_i h; subst h; simp [endsNL]
      · rename_i h; rw [endsNL_cons _ _ h]
    · rename_i hc
      split
      · rename_i h
        have := (readlines_eq_nil cs).1 h; subst this
        simp [lastFlag]
      · rename_i l ls h
        have hcs : cs ≠ [] := fun e => by rw [(readlines_eq_nil cs).2 e] at h; cases h
        have := ih true
        rw [h] at this
        simp only [lastFlag, hcs, ↓reduceIte] at this ⊢
        rw [endsNL_cons _ _ hcs, ← this]
        cases l with
        | nil => rw [endsNL_singleton_ne c hc]; rfl
        | cons d ds => rw [endsNL_cons _ _ (by simp)]

theorem splitNL_readlines (t : Str) :
    splitNL t = if lastFlag (readlines t) true then (readlines t).map chomp ++ [[]] else (readlines t).map chomp := by
  induction t with
  | nil => rfl
  | cons c cs ih =>
    by_cases hc : c = NL
    · subst hc
      have : splitNL (NL :: cs) = [] :: splitNL cs := splitOn_cons_sep NL cs
      rw [this, ih]
      have hr : readlines (NL :: cs) = [NL] :: readlines cs := by simp [readlines]
      rw [hr]
      have hl : lastFlag ([NL] :: readlines cs) true = lastFlag (readlines cs) true := by
        simp only [lastFlag]; rfl
      rw [hl]
      have hch : chomp [NL] = [] := by simp [chomp, endsNL, dropLastChar]
      split <;> simp [hch]
    · have hs : splitNL (c :: cs) = (c :: (splitAux NL cs).1) :: (splitAux NL cs).2 := splitOn_cons_ne NL c cs hc
      rw [hs]
      unfold readlines
      simp only [hc, ↓reduceIte]
      split
      · rename_i h
        have := (readlines_eq_nil cs).1 h; subst this
        simp [splitAux, lastFlag, endsNL, hc, chomp]
      · rename_i l ls h
        rw [h] at ih
        have hl : lastFlag ((c :: l) :: ls) true = lastFlag (l :: ls) true := by
          simp only [lastFlag]
          cases l with
          | nil => rw [endsNL_singleton_ne c hc]; rfl
          | cons d ds => rw [endsNL_cons _ _ (by simp)]
        rw [hl]
        unfold splitNL splitOn at ih
        split
        · rename_i hf
          rw [if_pos hf] at ih
          simp at ih
          simp [ih.1, ih.2, chomp_cons c l hc]
        · rename_i hf
          rw [if_neg hf] at ih
          simp at ih
          simp [ih.1, ih.2, chomp_cons c l hc]

theorem fspOfReadlines_readlines (t : Str) :
    fspOfReadlines (readlines t) = ⟨splitNL t, if t = [] then true else endsNL t⟩ := by
  unfold fspOfReadlines
  rw [fspLoop_spec]
  simp only [List.nil_append]
  rw [splitNL_readlines, lastFlag_readlines]

theorem endsNL_NL_cons (cs : Str) : endsNL (NL :: cs) = if cs = [] then true else endsNL cs := by
  split
  · rename_i h; subst h; simp [endsNL]
  · rename_i h; exact endsNL_cons _ _ h

/-- the last line is empty exactly when the text is empty or ends in `\n` -/
theorem splitNL_getLast_nil_iff (t : Str) :
    (splitNL t).getLast? = some [] ↔ (if t = [] then true else endsNL t) = true := by
  induction t with
  | nil => simp [splitNL, splitOn, splitAux]
  | cons c cs ih =>
    simp only [List.cons_ne_nil, ↓reduceIte]
    by_cases hc : c = NL
    · subst hc
      have : splitNL (NL :: cs) = [] :: splitNL cs := splitOn_cons_sep NL cs
      rw [this, endsNL_NL_cons]
      have hne : splitNL cs = (splitAux NL cs).1 :: (splitAux NL cs).2 := rfl
      rw [hne, List.getLast?_cons_cons, ← hne]
      exact ih
    · have hs : splitNL (c :: cs) = (c :: (splitAux NL cs).1) :: (splitAux NL cs).2 := splitOn_cons_ne NL c cs hc
      have hne : splitNL cs = (splitAux NL cs).1 :: (splitAux NL cs).2 := rfl
      rw [hs]
      rw [hne] at ih
      cases htl : (splitAux NL cs).2 with
      | nil =>
        rw [htl] at ih hne
        simp only [List.getLast?_singleton, Option.some.injEq, List.cons_ne_nil, false_iff]
        by_cases hcs : cs = []
        · subst hcs; simp [endsNL, hc]
        · rw [endsNL_cons _ _ hcs]
          simp only [hcs, ↓reduceIte, List.getLast?_singleton, Option.some.injEq] at ih
          intro he
          have h1 := ih.2 he
          have h2 := joinOn_splitOn NL cs
          have h3 : splitOn NL cs = [[]] := by
            have : splitOn NL cs = splitNL cs := rfl
            rw [this, hne, h1]
          rw [h3] at h2
          exact hcs h2.symm
      | cons m ms =>
        rw [htl] at ih
        rw [List.getLast?_cons_cons] at ih ⊢
        have hcs : cs ≠ [] := by
          intro e; subst e; simp [splitAux] at htl
        rw [endsNL_cons _ _ hcs]
        simpa [hcs] using ih

/-! ### in-memory provider -/

theorem splitAux_of_split1Aux (s : Str) :
    (∀ a, split1Aux s = (a, none) → splitAux NL s = (a, [])) ∧
    (∀ a r, split1Aux s = (a, some r) → splitAux NL s = (a, splitOn NL r)) := by
  induction s with
  | nil => simp [split1Aux, splitAux]
  | cons c cs ih =>
    by_cases hc : c = NL
    · subst hc
      simp [split1Aux, splitAux, splitOn]
    · simp only [split1Aux, hc, ↓reduceIte, splitAux]
      constructor
      · intro a h
        simp at h
        have := ih.1 (split1Aux cs).1 (by rw [← h.2])
        simp [this, h.1]
      · intro a r h
        simp at h
        have := ih.2 (split1Aux cs).1 r (by rw [← h.2])
        simp [this, h.1]

theorem memDrain_eq_split (s : Str) : memDrain s = splitNL s := by
  fun_induction memDrain s with
  | case1 s a h =>
    have := (splitAux_of_split1Aux s).1 a h
    simp [splitNL, splitOn, this]
  | case2 s a r h ih =>
    have := (splitAux_of_split1Aux s).2 a r h
    simp [splitNL, splitOn, this, ih]

/-! ### delivery stream -/

theorem deliverFrom_text (total idx : Nat) (ls : List Str) :
    (deliverFrom total idx ls).map (·.text) = ls := by
  induction ls generalizing idx with
  | nil => rfl
  | cons l ls ih => simp [deliverFrom, ih]

theorem deliverFrom_numbers (total idx : Nat) (ls : List Str) :
    (deliverFrom total idx ls).map (·.number) = List.range' (idx + 1) ls.length := by
  induction ls generalizing idx with
  | nil => rfl
  | cons l ls ih => simp [deliverFrom, ih, List.range'_succ]

theorem deliverFrom_atEnd (total idx : Nat) (ls : List Str) :
    ∀ d ∈ deliverFrom total idx ls, d.atEnd = decide (d.number ≥ total) := by
  induction ls generalizing idx with
  | nil => simp [deliverFrom]
  | cons l ls ih =>
    intro d hd
    simp [deliverFrom] at hd
    rcases hd with rfl | hd
    · rfl
    · exact ih _ d hd

/-! ### spool -/

theorem writeText_lf (t : Str) : writeText .lf t = t := by
  induction t with
  | nil => rfl
  | cons c cs ih => by_cases h : c = NL <;> simp [writeText, h, ih]

theorem univNL_writeText_crlf (t : Str) (h : CR ∉ t) : univNL (writeText .crlf t) = t := by
  induction t with
  | nil => rfl
  | cons c cs ih =>
    simp at h
    by_cases hc : c = NL
    · subst hc
      simp [writeText, univNL, ih h.2]
    · have hcr : c ≠ CR := fun e => h.1 e.symm
      simp only [writeText, hc, ↓reduceIte]
      cases hw : writeText .crlf cs with
      | nil =>
        have := ih h.2; rw [hw] at this; simp [univNL] at this
        simp [univNL, hcr, ← this]
      | cons d ds =>
        have := ih h.2; rw [hw] at this
        simp [univNL, hcr, this]

end Verif.Lemmas.Lines
