/-
  Totality / termination of the emphasis loop on well-formed stacks, for every policy that raises nothing on
  well-formed tokens; fuel monotonicity for every input.  Core Lean only.
-/
import Verif.Lemmas.EmphasisPolicy
import Verif.Lemmas.EmphasisFlank
namespace Verif.Model.Emphasis

/-- the decisions raise nothing on tokens satisfying `OK`, and `OK` does not look at `rep` / `active` -/
structure PolicyTotal (pol : Policy) (OK : Special → Prop) : Prop where
  frame : ∀ t r a, OK t → OK { t with rep := r, active := a }
  closer_ok : ∀ t, OK t → ∃ b, pol.closer t = .ok b
  valid_ok : ∀ o ot c ct, OK ot → OK ct → pol.closer ct = .ok true → ∃ b, pol.valid o ot c ct = .ok b

/-- every entry is `OK` and every ACTIVE entry has a positive repeat count -/
def WF (OK : Special → Prop) (stk : List Special) : Prop :=
  ∀ (i : Nat) (t : Special), stk[i]? = some t → OK t ∧ (t.active = true → 1 ≤ t.rep)

theorem emphLen_cases (ot ct : Special) :
    (emphLen ot ct = 2 ∧ 2 ≤ ct.rep ∧ 2 ≤ ot.rep) ∨ (emphLen ot ct = 1 ∧ ¬ (2 ≤ ct.rep ∧ 2 ≤ ot.rep)) := by
  unfold emphLen
  by_cases h : ct.rep ≥ 2 ∧ ot.rep ≥ 2
  · exact Or.inl ⟨by simp [h], h.1, h.2⟩
  · exact Or.inr ⟨by simp [h], h⟩

theorem wf_step {OK : Special → Prop} (hframe : ∀ t r a, OK t → OK { t with rep := r, active := a })
    {stk : List Special} {o c : Nat} {blocks blocks' : List Block} {stk' : List Special}
    (hwf : WF OK stk) (h : PairStep stk o c blocks blocks' stk') : WF OK stk' := by
  cases h with
  | mk P M R ot ct ch tl tl' ho hc hch hcc hoa hca hP hM hR hoc =>
  have hne : o ≠ c := by omega
  have hL := emphLen_cases ot ct
  generalize emphLen ot ct = L at *
  have hro := (hwf o ot ho).2 hoa
  have hrc := (hwf c ct hc).2 hca
  intro i t' hget
  rw [getElem?_step _ _ _ _ _ _ _ hne] at hget
  cases hs : stk[i]? with
  | none => simp [hs] at hget
  | some t =>
    simp only [hs, Option.map_some, Option.some.injEq] at hget
    subst hget
    obtain ⟨hok, hpos⟩ := hwf i t hs
    refine ⟨hframe _ _ _ hok, ?_⟩
    intro hact
    simp only [Bool.and_eq_true, decide_eq_true_eq, Bool.not_eq_true', decide_eq_false_iff_not] at hact
    obtain ⟨⟨⟨ha, _⟩, hic⟩, hio⟩ := hact
    have hp := hpos ha
    by_cases hjc : i = c
    · subst hjc
      have : t = ct := by rw [hs] at hc; exact Option.some.inj hc
      subst this
      have hk := hic rfl
      simp only [true_or, if_true]
      omega
    · by_cases hjo : i = o
      · subst hjo
        have : t = ot := by rw [hs] at ho; exact Option.some.inj ho
        subst this
        have hk := hio rfl
        simp only [or_true, if_true]
        omega
      · simp only [hjc, hjo, or_self, if_false]; exact hp

/-! ## the termination measure -/
theorem sumRepeat_le_of (s s' : List Special) (hl : s'.length = s.length)
    (h : ∀ (j : Nat) (t t' : Special), s[j]? = some t → s'[j]? = some t' → t'.rep.toNat ≤ t.rep.toNat) : sumRepeat s' ≤ sumRepeat s := by
  induction s generalizing s' with
  | nil => cases s' <;> simp_all [sumRepeat]
  | cons a s ih =>
    cases s' with
    | nil => simp at hl
    | cons a' s' =>
      have h0 := h 0 a a' rfl rfl
      have := ih s' (by simpa using hl) (fun j t t' h1 h2 => h (j + 1) t t' (by simpa using h1) (by simpa using h2))
      simp only [sumRepeat]; omega

theorem sumRepeat_lt_of (s s' : List Special) (hl : s'.length = s.length)
    (h : ∀ (j : Nat) (t t' : Special), s[j]? = some t → s'[j]? = some t' → t'.rep.toNat ≤ t.rep.toNat)
    (c : Nat) (t t' : Special) (hc : s[c]? = some t) (hc' : s'[c]? = some t') (hlt : t'.rep.toNat < t.rep.toNat) :
    sumRepeat s' < sumRepeat s := by
  induction s generalizing s' c with
  | nil => simp at hc
  | cons a s ih =>
    cases s' with
    | nil => simp at hl
    | cons a' s' =>
      have htl : ∀ (j : Nat) (t t' : Special), s[j]? = some t → s'[j]? = some t' → t'.rep.toNat ≤ t.rep.toNat :=
        fun j t t' h1 h2 => h (j + 1) t t' (by simpa using h1) (by simpa using h2)
      cases c with
      | zero =>
        simp only [List.getElem?_cons_zero, Option.some.injEq] at hc hc'
        subst hc hc'
        have := sumRepeat_le_of s s' (by simpa using hl) htl
        simp only [sumRepeat]; omega
      | succ c =>
        have h0 := h 0 a a' rfl rfl
        have := ih s' (by simpa using hl) htl c (by simpa using hc) (by simpa using hc')
        simp only [sumRepeat]; omega

/-- fuel the loop needs from state `σ` -/
def need (σ : St) : Nat := (σ.stk.length - 1 - σ.cur) + sumRepeat σ.stk + 1

theorem sumRepeat_step {OK : Special → Prop} {stk : List Special} {o c : Nat} {blocks blocks' : List Block}
    {stk' : List Special} (hwf : WF OK stk) (h : PairStep stk o c blocks blocks' stk') :
    sumRepeat stk' < sumRepeat stk := by
  have hlen := length_step h
  cases h with
  | mk P M R ot ct ch tl tl' ho hc hch hcc hoa hca hP hM hR hoc =>
  have hne : o ≠ c := by omega
  have hL := emphLen_cases ot ct
  generalize emphLen ot ct = L at *
  have hrc := (hwf c ct hc).2 hca
  have hget := getElem?_step stk o c L (decide (ot.rep - (L : Int) ≠ 0)) (decide (ct.rep - (L : Int) ≠ 0)) (spIds M) hne
  refine sumRepeat_lt_of stk _ hlen ?_ c ct _ hc (by rw [hget c, hc]; rfl) ?_
  · intro j t t' h1 h2
    rw [hget j, h1] at h2
    simp only [Option.map_some, Option.some.injEq] at h2
    subst h2
    simp only
    split <;> omega
  · simp only [true_or, if_true]; omega

/-! ## totality -/
theorem findOpener_total (pol : Policy) (OK : Special → Prop) (ht : PolicyTotal pol OK) (stk : List Special)
    (hwf : WF OK stk) (c : Nat) (ct : Special) (hct : OK ct) (hcl : pol.closer ct = .ok true) (bottom : Int) :
    ∀ n, n ≤ stk.length → ∃ r, findOpener pol stk c ct bottom n = .ok r := by
  intro n
  induction n with
  | zero => intro _; exact ⟨none, rfl⟩
  | succ n ih =>
    intro hn
    simp only [findOpener]
    split
    · have hlt : n < stk.length := by omega
      rw [List.getElem?_eq_getElem hlt]
      simp only
      obtain ⟨b, hb⟩ := ht.valid_ok n stk[n] c ct (hwf n _ (List.getElem?_eq_getElem hlt)).1 hct hcl
      cases b with
      | true => exact ⟨some n, by simp [hb, bind, Except.bind, pure, Except.pure]⟩
      | false =>
        obtain ⟨r, hr⟩ := ih (by omega)
        exact ⟨r, by simp [hb, bind, Except.bind, hr]⟩
    · exact ⟨none, rfl⟩

theorem loop_total (pol : Policy) (hp : PolicyOK pol) (OK : Special → Prop) (ht : PolicyTotal pol OK) (bottom : Int) :
    ∀ (f : Nat) (σ : St), WF OK σ.stk → Inv σ.blocks σ.stk → need σ ≤ f → ∃ σ', loop pol bottom f σ = .ok σ' := by
  intro f
  induction f with
  | zero => intro σ _ _ hn; simp [need] at hn
  | succ f ih =>
    intro σ hwf hinv hn
    simp only [loop]
    split
    · rename_i hlt
      rw [List.getElem?_eq_getElem hlt]
      simp only
      have hgc : σ.stk[σ.cur + 1]? = some σ.stk[σ.cur + 1] := List.getElem?_eq_getElem hlt
      generalize σ.stk[σ.cur + 1] = ct at hgc
      have hokc := (hwf _ _ hgc).1
      have hadv : need ⟨σ.blocks, σ.stk, σ.cur + 1⟩ ≤ f := by simp only [need] at hn ⊢; omega
      obtain ⟨b, hb⟩ := ht.closer_ok ct hokc
      cases b with
      | false =>
        simp only [hb, bind, Except.bind, Bool.not_false, if_true]
        exact ih ⟨σ.blocks, σ.stk, σ.cur + 1⟩ hwf hinv hadv
      | true =>
        simp only [hb, bind, Except.bind, Bool.not_true, Bool.false_eq_true, if_false]
        obtain ⟨r, hr⟩ := findOpener_total pol OK ht σ.stk hwf (σ.cur + 1) ct hokc hb bottom (σ.cur + 1) (by omega)
        cases r with
        | none => simp only [hr]; exact ih ⟨σ.blocks, σ.stk, σ.cur + 1⟩ hwf hinv hadv
        | some o =>
          simp only [hr]
          obtain ⟨hlo, ot, hgo, hv⟩ := findOpener_some _ _ _ _ _ _ _ hr
          obtain ⟨ch, tl, tl', hch, hcc⟩ := hp.valid_head _ _ _ _ hv
          obtain ⟨b', s', hpp, hps⟩ := pairStep_of σ.blocks σ.stk o (σ.cur + 1) (σ.cur + 1) ot ct ch tl tl'
            hinv hlo hgo hgc (hp.valid_active _ _ _ _ hv) (hp.closer_active _ hb) hch hcc
          simp only [hpp]
          have hsum := sumRepeat_step hwf hps
          have hlen := length_step hps
          apply ih ⟨b', s', _⟩ (wf_step ht.frame hwf hps) (inv_step hinv hps)
          simp only [need] at hn ⊢
          split <;> omega
    · exact ⟨σ, rfl⟩

/-! ## more fuel never changes a result -/
theorem loop_fuel_succ (pol : Policy) (bottom : Int) :
    ∀ (f : Nat) (σ : St) (r : Except Err St), loop pol bottom f σ = r → r ≠ .error .fuel →
      loop pol bottom (f + 1) σ = r := by
  intro f
  induction f with
  | zero => intro σ r h hr; simp only [loop] at h; exact absurd h.symm hr
  | succ f ih =>
    intro σ r h hr
    rw [loop] at h ⊢
    split
    · rename_i hlt
      simp only [hlt, if_true] at h
      cases hg : σ.stk[σ.cur + 1]? with
      | none => simpa [hg] using h
      | some ct =>
        simp only [hg] at h ⊢
        cases hcl : pol.closer ct with
        | error e => simpa [hcl, bind, Except.bind] using h
        | ok b =>
          cases b with
          | false =>
            simp only [hcl, bind, Except.bind, Bool.not_false, if_true] at h ⊢
            exact ih _ _ h hr
          | true =>
            simp only [hcl, bind, Except.bind, Bool.not_true, Bool.false_eq_true, if_false] at h ⊢
            cases hf : findOpener pol σ.stk (σ.cur + 1) ct bottom (σ.cur + 1) with
            | error e => simpa [hf] using h
            | ok ro =>
              cases ro with
              | none => simp only [hf] at h ⊢; exact ih _ _ h hr
              | some o =>
                simp only [hf] at h ⊢
                cases hpp : processPair σ.blocks σ.stk o (σ.cur + 1) (σ.cur + 1) with
                | error e => simpa [hpp] using h
                | ok σ2 => simp only [hpp] at h ⊢; exact ih _ _ h hr
    · rename_i hlt
      simpa [hlt] using h

theorem loop_fuel_add (pol : Policy) (bottom : Int) (f k : Nat) (σ : St) (r : Except Err St)
    (h : loop pol bottom f σ = r) (hr : r ≠ .error .fuel) : loop pol bottom (f + k) σ = r := by
  induction k with
  | zero => exact h
  | succ k ih => exact loop_fuel_succ pol bottom (f + k) σ r ih hr

end Verif.Model.Emphasis

namespace Verif.Model.Emphasis

/-! ## the Python's decisions raise nothing on tokens as the parser creates them -/
/-- text non-empty; a token whose first character is an emphasis character carries both neighbour strings -/
def StaticOK (strike : Bool) (t : Special) : Prop :=
  t.text ≠ [] ∧ ∀ c tl, t.text = c :: tl → (emphChars strike).contains c = true → t.prec.isSome ∧ t.foll.isSome

theorem processThis_true_head {strike : Bool} {t : Special} (h : processThis strike t = .ok true) :
    ∃ c tl, t.text = c :: tl ∧ (emphChars strike).contains c = true := by
  unfold processThis at h
  cases ha : t.active with
  | false => simp [ha, pure, Except.pure] at h
  | true =>
    simp only [ha, Bool.not_true, Bool.false_eq_true, if_false] at h
    cases ht : t.text with
    | nil => simp [head0, ht, bind, Except.bind, throw, throwThe, MonadExceptOf.throw] at h
    | cons c tl =>
      simp only [head0, ht, bind, Except.bind, pure, Except.pure] at h
      cases hc : (emphChars strike).contains c with
      | false => rw [hc] at h; simp at h
      | true => exact ⟨c, tl, rfl, hc⟩

theorem isBoth_ok (strike : Bool) (t : Special) (c : Char) (tl ps fs : Str)
    (ht : t.text = c :: tl) (hc : (emphChars strike).contains c = true) (hp : t.prec = some ps) (hf : t.foll = some fs) :
    isBoth strike t = .ok (closerCore c t.text.length (precChar ps) (follChar fs) &&
      openerCore c t.text.length (precChar ps) (follChar fs)) := by
  unfold isBoth
  rw [potentialCloser_eq strike t c tl ps fs ht hc hp hf, potentialOpener_eq strike t c tl ps fs ht hc hp hf]
  cases closerCore c t.text.length (precChar ps) (follChar fs) <;> simp [bind, Except.bind, pure, Except.pure]

theorem validPair_ok (strike : Bool) (o c : Special) (ro rc : Int) (ho : StaticOK strike o) (hc : StaticOK strike c)
    (hcl : processThis strike c = .ok true) : ∃ b, validPair strike o c ro rc = .ok b := by
  obtain ⟨cc, tlc, htc, hcc⟩ := processThis_true_head hcl
  unfold validPair
  cases hto : o.text with
  | nil => exact ⟨false, rfl⟩
  | cons oc tlo =>
    simp only [head0, htc, bind, Except.bind, pure, Except.pure]
    by_cases hne : oc = cc
    · subst hne
      simp only [bne_self_eq_false, Bool.false_eq_true, if_false]
      cases ha : o.active with
      | false => exact ⟨false, by simp⟩
      | true =>
        simp only [Bool.not_true, Bool.false_eq_true, if_false]
        obtain ⟨hpo, hfo⟩ := ho.2 oc tlo hto hcc
        obtain ⟨hpc, hfc⟩ := hc.2 oc tlc htc hcc
        obtain ⟨ps, hps⟩ := Option.isSome_iff_exists.mp hpo
        obtain ⟨fs, hfs⟩ := Option.isSome_iff_exists.mp hfo
        obtain ⟨psc, hpsc⟩ := Option.isSome_iff_exists.mp hpc
        obtain ⟨fsc, hfsc⟩ := Option.isSome_iff_exists.mp hfc
        rw [potentialOpener_eq strike o oc tlo ps fs hto hcc hps hfs, isBoth_ok strike c oc tlc psc fsc htc hcc hpsc hfsc,
          isBoth_ok strike o oc tlo ps fs hto hcc hps hfs]
        simp only []
        split
        · split
          · exact ⟨_, rfl⟩
          · exact ⟨_, rfl⟩
        · exact ⟨_, rfl⟩
    · have : (oc != cc) = true := by simp [hne]
      exact ⟨false, by simp [this]⟩

theorem processThis_ok (strike : Bool) (t : Special) (ht : StaticOK strike t) : ∃ b, processThis strike t = .ok b := by
  unfold processThis
  cases ha : t.active with
  | false => exact ⟨false, rfl⟩
  | true =>
    simp only [Bool.not_true, Bool.false_eq_true, if_false]
    cases htx : t.text with
    | nil => exact absurd htx ht.1
    | cons c tl =>
      simp only [head0, htx, bind, Except.bind, pure, Except.pure]
      cases hc : (emphChars strike).contains c with
      | false => exact ⟨false, by simp⟩
      | true =>
        obtain ⟨hp, hf⟩ := ht.2 c tl htx hc
        obtain ⟨ps, hps⟩ := Option.isSome_iff_exists.mp hp
        obtain ⟨fs, hfs⟩ := Option.isSome_iff_exists.mp hf
        simp only [Bool.not_true, Bool.false_eq_true, if_false]
        rw [potentialCloser_eq strike t c tl ps fs htx hc hps hfs]
        exact ⟨_, rfl⟩

theorem pyPolicy_total (strike : Bool) : PolicyTotal (pyPolicy strike) (StaticOK strike) where
  frame := fun _ _ _ h => h
  closer_ok := fun t h => processThis_ok strike t h
  valid_ok := fun _ ot _ ct ho hc hcl => validPair_ok strike ot ct _ _ ho hc hcl

theorem origPolicy_total (strike : Bool) (orig : List Int) : PolicyTotal (origPolicy strike orig) (StaticOK strike) where
  frame := fun _ _ _ h => h
  closer_ok := fun t h => processThis_ok strike t h
  valid_ok := fun _ ot _ ct ho hc hcl => validPair_ok strike ot ct _ _ ho hc hcl

end Verif.Model.Emphasis
