/-
  LeanMark — `L_attr_safe`: every attribute value the HTML renderer writes is escaped.

  The renderer (Model/LeanMark/Html.lean) writes attributes in exactly two ways:
  * through `attr name value` (` name="…"`): `href` (links, autolinks), `src`, `title` (links and images), `class`
    (first word of a fenced block's info string), `start` (ordered lists) — theorem `attr_safe`;
  * `alt`: after `<img src="…" alt="` the image description is rendered with `ROut.img > 0` ("alt mode") until the
    matching `closeImage` writes the closing quote.  Theorem `alt_step_safe`: in alt mode every inline event appends
    only characters free of `<`, `>`, `"`, unless it is the `closeImage` that leaves alt mode, which appends exactly
    `"` + the title attribute + ` />`; `alt_run_safe` lifts this to any run of events during which alt mode is not left.
  Also: `html_deterministic_in_events` — the HTML is a function of the event stream alone (the reference map is
  computed from the stream's own link-reference-definition events).
-/
import Verif.Lemmas.LeanMarkEscape
namespace Verif.Model.LeanMark

/-- no raw `<`, `>`, `"` -/
def Safe (s : List Char) : Prop := ∀ x ∈ s, x ≠ '<' ∧ x ≠ '>' ∧ x ≠ '"'

theorem Safe.nil : Safe [] := by intro x hx; cases hx

theorem Safe.append {a b : List Char} (ha : Safe a) (hb : Safe b) : Safe (a ++ b) := by
  intro x hx
  rcases List.mem_append.mp hx with h | h
  · exact ha x h
  · exact hb x h

theorem Safe.esc (s : List Char) : Safe (escHtml s) := L_escape s

/-- **attr_safe**: ` name="value"` — the value between the quotes is `escHtml value`, which has no raw special. -/
theorem attr_safe (name : String) (value : List Char) :
    attr name value = (' ' :: name.toList ++ ['=', '"']) ++ escHtml value ++ ['"'] ∧ Safe (escHtml value) := by
  refine ⟨?_, Safe.esc value⟩
  simp [attr]

/-- the optional title attribute is an `attr`. -/
theorem titleAttr_eq (t : Option (List Char)) :
    titleAttr t = [] ∨ ∃ v, titleAttr t = attr "title" v := by
  cases t with
  | none => exact Or.inl rfl
  | some v => exact Or.inr ⟨v, rfl⟩

theorem lit_rev (o : ROut) (s : List Char) : (o.lit s).rev = s.reverse ++ o.rev := rfl
theorem lit_img (o : ROut) (s : List Char) : (o.lit s).img = o.img := rfl
theorem str_rev (o : ROut) (s : String) : (o.str s).rev = s.toList.reverse ++ o.rev := rfl
theorem str_img (o : ROut) (s : String) : (o.str s).img = o.img := rfl

theorem cr_appends (o : ROut) : ∃ s, o.cr.rev = s.reverse ++ o.rev ∧ Safe s ∧ o.cr.img = o.img := by
  unfold ROut.cr
  split
  · exact ⟨[], by simp, Safe.nil, rfl⟩
  · split
    · exact ⟨[], by simp, Safe.nil, rfl⟩
    · refine ⟨['\n'], by simp, ?_, rfl⟩
      intro x hx
      simp at hx
      subst hx
      decide

/-- what one inline event appends while an image description is being rendered. -/
theorem alt_step_safe (o : ROut) (e : IEv) (h : o.img > 0) :
    ∃ s, (renderInline o e).rev = s.reverse ++ o.rev ∧
      ((renderInline o e).img > 0 → Safe s) ∧
      ((renderInline o e).img = 0 → s = '"' :: (titleAttr o.imgTitle ++ " />".toList)) := by
  have hne : ¬ (o.img = 0) := by omega
  cases e with
  | text s p =>
    exact ⟨escHtml s, rfl, fun _ => Safe.esc s, fun h0 => absurd (by simpa [renderInline, lit_img] using h0) hne⟩
  | softbreak p =>
    refine ⟨['\n'], rfl, fun _ => ?_, fun h0 => absurd (by simpa [renderInline, lit_img] using h0) hne⟩
    intro x hx; simp at hx; subst hx; decide
  | hardbreak p =>
    simp only [renderInline, h, if_true]
    obtain ⟨s, h1, h2, h3⟩ := cr_appends o
    exact ⟨s, h1, fun _ => h2, fun h0 => absurd (h3 ▸ h0) hne⟩
  | code s p =>
    simp only [renderInline, h, if_true]
    exact ⟨escHtml s, rfl, fun _ => Safe.esc s, fun h0 => absurd (by simpa [lit_img] using h0) hne⟩
  | rawHtml s p =>
    simp only [renderInline, h, if_true]
    exact ⟨escHtml s, rfl, fun _ => Safe.esc s, fun h0 => absurd (by simpa [lit_img] using h0) hne⟩
  | autolink d t p =>
    simp only [renderInline, h, if_true]
    exact ⟨escHtml t, rfl, fun _ => Safe.esc t, fun h0 => absurd (by simpa [lit_img] using h0) hne⟩
  | openEmph p => simp only [renderInline, h, if_true]; exact ⟨[], by simp, fun _ => Safe.nil, fun h0 => absurd h0 hne⟩
  | closeEmph => simp only [renderInline, h, if_true]; exact ⟨[], by simp, fun _ => Safe.nil, fun h0 => absurd h0 hne⟩
  | openStrong p => simp only [renderInline, h, if_true]; exact ⟨[], by simp, fun _ => Safe.nil, fun h0 => absurd h0 hne⟩
  | closeStrong => simp only [renderInline, h, if_true]; exact ⟨[], by simp, fun _ => Safe.nil, fun h0 => absurd h0 hne⟩
  | openLink d t p => simp only [renderInline, h, if_true]; exact ⟨[], by simp, fun _ => Safe.nil, fun h0 => absurd h0 hne⟩
  | closeLink => simp only [renderInline, h, if_true]; exact ⟨[], by simp, fun _ => Safe.nil, fun h0 => absurd h0 hne⟩
  | openImage d t p =>
    simp only [renderInline, h, if_true]
    exact ⟨[], by simp, fun _ => Safe.nil, fun h0 => by have h0' : o.img + 1 = 0 := h0; omega⟩
  | closeImage =>
    simp only [renderInline]
    by_cases h1 : o.img > 1
    · simp only [h1, if_true]
      exact ⟨[], by simp, fun _ => Safe.nil, fun h0 => by have h0' : o.img - 1 = 0 := h0; omega⟩
    · have h2 : o.img = 1 := by omega
      simp only [h1, if_false, h2, beq_self_eq_true, if_true]
      refine ⟨'"' :: (titleAttr o.imgTitle ++ " />".toList), ?_, fun hp => by simp at hp, fun _ => rfl⟩
      simp [ROut.str, ROut.lit]

/-- **alt_run_safe**: as long as alt mode is not left, a run of inline events appends only safe characters. -/
theorem alt_run_safe : ∀ (es : List IEv) (o : ROut), o.img > 0 →
    (∀ k, k ≤ es.length → (renderInlines o (es.take k)).img > 0) →
    ∃ s, (renderInlines o es).rev = s.reverse ++ o.rev ∧ Safe s
  | [], o, _, _ => ⟨[], by simp [renderInlines], Safe.nil⟩
  | e :: es, o, h, hk => by
    have h1 : (renderInline o e).img > 0 := by
      have := hk 1 (by simp)
      simpa [renderInlines] using this
    obtain ⟨s1, hs1, hsafe1, _⟩ := alt_step_safe o e h
    have ih := alt_run_safe es (renderInline o e) h1 (by
      intro k hkl
      have := hk (k + 1) (by simp; omega)
      simpa [renderInlines] using this)
    obtain ⟨s2, hs2, hsafe2⟩ := ih
    refine ⟨s1 ++ s2, ?_, (hsafe1 h1).append hsafe2⟩
    show (List.foldl renderInline (renderInline o e) es).rev = _
    have : (renderInlines (renderInline o e) es).rev = s2.reverse ++ (renderInline o e).rev := hs2
    unfold renderInlines at this
    rw [this, hs1]
    simp

/-- **html_deterministic_in_events**: the HTML is a function of the event stream alone — two documents (or two
    readings) with the same stream render identically; the reference map used for links is `refMapOf` of the stream. -/
theorem html_deterministic_in_events (rd1 rd2 : Reading) (d1 d2 : List Char)
    (h : eventsR rd1 (docLines d1) = eventsR rd2 (docLines d2)) : htmlR rd1 d1 = htmlR rd2 d2 := by
  unfold htmlR
  rw [h]

theorem html_is_renderDoc (d : List Char) : html d = renderDoc (events (docLines d)) := rfl

theorem renderDoc_uses_only (evs : List Ev) :
    renderDoc evs = (renderBlocks (refMapOf evs) (looseness evs [] 0) evs [] 0 ⟨[], 0, none⟩).rev.reverse := rfl

/-! ## the attribute sites, on concrete documents -/
example : html "```a\"b<c>\n".toList = "<pre><code class=\"language-a&quot;b&lt;c&gt;\"></code></pre>\n".toList := by decide
example : html "[x](</a\"b> \"t<\")".toList = "<p><a href=\"/a%22b\" title=\"t&lt;\">x</a></p>\n".toList := by decide
example : html "![a<b c=\"d\">`\"`](/u)".toList =
    "<p><img src=\"/u\" alt=\"a&lt;b c=&quot;d&quot;&gt;&quot;\" /></p>\n".toList := by decide

end Verif.Model.LeanMark
