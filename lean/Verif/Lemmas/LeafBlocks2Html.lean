/-
  Lemmas for the HTML-block part of `Verif.Model.LeafBlocks2`: totality of the start classifier, closed forms of the
  special / normal classifiers on the text after `<`, the end conditions against "the line contains …".
-/
import Verif.Model.LeafBlocks2
import Verif.Model.HtmlBlockSpec
import Verif.Lemmas.InlineRecogBlock
import Verif.Lemmas.RecogSpec
namespace Verif.Model.LeafBlocks2
open Verif.Model.Recognisers Verif.Model.InlineRecog

/-! ## totality -/

theorem sevenTail_cases (line : Str) (idx : Nat) : sevenTail line idx = some 7 ∨ sevenTail line idx = none := by
  unfold sevenTail
  split
  · split <;> simp
  · simp

theorem adjustTag_ok (tag line : Str) (ci : Nat) : ∃ r, adjustTag tag line ci = .ok r := by
  unfold adjustTag
  rw [guardedIs_eq]
  exact ⟨_, rfl⟩

/-- `is_complete` is never `True` without an index -/
theorem isCompleteHtmlStartTag_true_some (tag line : Str) (next : Nat)
    (h : isCompleteHtmlStartTag tag line next = .ok (true, none)) : False := by
  unfold isCompleteHtmlStartTag at h
  simp only at h
  cases h1 : extractSpacesVerified line next with
  | error e => rw [h1] at h; cases h
  | ok r =>
    obtain ⟨nw0, ws0⟩ := r
    rw [h1] at h
    simp only at h
    cases h2 : startTagLoop line (isValidTagName tag && !block1Names.contains tag) (line.length + 1) ⟨nw0, ws0, true⟩ with
    | error e => rw [h2] at h; cases h
    | ok st =>
      rw [h2] at h
      simp only at h
      cases h3 : startTagTail line st.nw with
      | error e => rw [h3] at h; cases h
      | ok r3 =>
        obtain ⟨nw, isEnd⟩ := r3
        rw [h3] at h
        simp only at h
        injection h with h
        have ha := congrArg Prod.fst h
        have hb := congrArg Prod.snd h
        simp only at ha hb
        rw [hb] at ha
        simp at ha

/-- `__check_for_normal_html_blocks` returns for every tag and every index inside the line, unless the line ends with `/`. -/
theorem checkNormal_ok (tag line : Str) (ci : Nat) (hci : ci ≤ line.length) (hlast : line.getLast? ≠ some '/') :
    ∃ r, checkNormal tag line ci = .ok r ∧ (r = none ∨ r = some 1 ∨ r = some 6 ∨ r = some 7) := by
  unfold checkNormal
  split
  · exact ⟨_, rfl, by simp⟩
  · obtain ⟨⟨adj, isEnd⟩, hadj⟩ := adjustTag_ok tag line ci
    rw [hadj]
    simp only
    split
    · exact ⟨_, rfl, by simp⟩
    · split
      · obtain ⟨⟨ok, idx⟩, he⟩ := isCompleteHtmlEndTag_ok adj line ci hci
        rw [he]
        simp only
        split
        · rcases sevenTail_cases line idx with h | h <;> rw [h] <;> exact ⟨_, rfl, by simp⟩
        · exact ⟨_, rfl, by simp⟩
      · obtain ⟨⟨ok, idx⟩, hs⟩ := isCompleteHtmlStartTag_ok adj line ci hci hlast
        rw [hs]
        cases ok with
        | false => exact ⟨_, rfl, by simp⟩
        | true =>
          cases idx with
          | none =>
            -- `is_complete` with no index: the index is `none` only when `extract_spaces` got an index outside the line;
            -- then `x == some size` is false and `is_complete` is false
            exfalso
            exact isCompleteHtmlStartTag_true_some adj line ci hs
          | some i =>
            rcases sevenTail_cases line i with h | h <;> simp only [h] <;> exact ⟨_, rfl, by simp⟩

theorem determineType_ok (line : Str) (start : Nat) (inPara : Bool) (hs : start < line.length)
    (hlast : line.getLast? ≠ some '/') : ∃ r, determineType line start inPara = .ok r := by
  unfold determineType
  split
  · exact ⟨_, rfl⟩
  · rw [collectUntilOneOfVerified_eq _ _ _ (by omega)]
    simp only
    have hle := scanTo_le line (fun d => !([' ', '>'] : Str).contains d) (start + 1) (by omega)
    obtain ⟨r, hr, _⟩ := checkNormal_ok (pyLower (slice line (start + 1) (scanTo line (fun d => !([' ', '>'] : Str).contains d) (start + 1))))
      line _ hle hlast
    rw [hr]
    cases r with
    | none => exact ⟨_, rfl⟩
    | some t => simp only; split <;> exact ⟨_, rfl⟩

theorem isHtmlBlock_ok (line : Str) (start : Nat) (ws : Str) (inPara skip : Bool) (hlast : line.getLast? ≠ some '/') :
    ∃ r, isHtmlBlock line start ws inPara skip = .ok r := by
  unfold isHtmlBlock
  split
  · next h =>
    simp only [Bool.and_eq_true] at h
    exact determineType_ok line start inPara (isCharAt_true_lt h.2) hlast
  · exact ⟨_, rfl⟩

/-! ## a type-7 block never interrupts a paragraph -/

theorem determineType_para (line : Str) (start : Nat) (t : Nat) (tag : Str)
    (h : determineType line start true = .ok (some (t, tag))) : t ≠ 7 := by
  unfold determineType at h
  split at h
  · next t' hsp =>
    injection h with h; injection h with h
    have : t' = t := congrArg Prod.fst h
    subst this
    unfold checkSpecial at hsp
    intro h7
    subst h7
    split at hsp
    · cases hsp
    · split at hsp
      · split at hsp
        · cases hsp
        · split at hsp
          · cases hsp
          · split at hsp <;> cases hsp
      · split at hsp <;> cases hsp
  · split at h
    · cases h
    · next ci raw hcu =>
      simp only at h
      split at h
      · cases h
      · cases h
      · next t' hcn =>
        split at h
        · cases h
        · next hne =>
          injection h with h; injection h with h
          have : t' = t := congrArg Prod.fst h
          subst this
          intro h7
          subst h7
          simp at hne

/-! ## the end conditions: `pat in s` is "s contains pat" -/

theorem findSub_of_split (pat : Str) : ∀ (a b : Str), ∃ p, findSub pat (a ++ pat ++ b) = some p
  | [], b => by
    cases pat with
    | nil => cases b <;> simp [findSub]
    | cons c r =>
      refine ⟨0, ?_⟩
      simp only [List.nil_append, List.cons_append, findSub]
      rw [if_pos]
      rw [List.isPrefixOf_iff_prefix]
      exact ⟨b, by simp⟩
  | x :: a, b => by
    obtain ⟨p, hp⟩ := findSub_of_split pat a b
    simp only [List.cons_append, findSub]
    split
    · exact ⟨0, rfl⟩
    · rw [hp]; exact ⟨p + 1, rfl⟩

theorem containsSubstr_iff (s pat : Str) : containsSubstr s pat = true ↔ HtmlBlockSpec.Contains pat s := by
  unfold containsSubstr HtmlBlockSpec.Contains
  constructor
  · intro h
    rw [Option.isSome_iff_exists] at h
    obtain ⟨p, hp⟩ := h
    exact ⟨_, _, findSub_split hp⟩
  · rintro ⟨a, b, rfl⟩
    obtain ⟨p, hp⟩ := findSub_of_split pat a b
    rw [hp]; rfl

end Verif.Model.LeafBlocks2
