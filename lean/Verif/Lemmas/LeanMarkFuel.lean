/-
  LeanMark — fuel sufficiency: the explicit fuel of the three fuel-driven recursions of the model is never
  exhausted at the model's own call sites (adding fuel does not change the result).

    openBlocks_fuel_add   `cur.rest.length < fuel → openBlocks rd (fuel + m) s cur k first = openBlocks rd fuel s cur k first`
    stepLine_fuel         at the call site in `stepLine` (fuel = line length + 1)
    peelEmit_fuel_add     `ls.length ≤ fuel → peelEmit (fuel + m) r ls = peelEmit fuel r ls`   (call site: fuel = ls.length)
    lrdOnlyGo_fuel_add    the same for `lrdOnlyGo`
    procEmph_fuel_add     `emphFuel right ≤ fuel + 1 → procEmph (fuel + m) left right = procEmph fuel left right`
    resolveEmph_fuel      at the call site in `resolveEmph` (fuel = emphFuel items)
    (`closeTo`: `closeTo_depth` in LeanMarkBalanced.lean.)
-/
import Verif.Lemmas.LeanMarkOpener
import Verif.Lemmas.LeanMarkInline
namespace Verif.Model.LeanMark
open Core

/-! ## `openBlocks`: fuel = line length + 1 is never exhausted -/
theorem skipCols_rest_le : ∀ (n : Nat) (c : Cur), (c.skipCols n).rest.length ≤ c.rest.length
  | 0, c => by unfold Cur.skipCols; exact Nat.le_refl _
  | n + 1, c => by
    unfold Cur.skipCols
    split
    · exact skipCols_rest_le n _
    · split
      · next cs hr =>
        have := skipCols_rest_le n ⟨cs, c.col + 1, 0⟩
        rw [hr]; simp only [List.length_cons] at *; omega
      · next cs hr =>
        have := skipCols_rest_le n ⟨cs, c.col + 1, (4 - c.col % 4) - 1⟩
        rw [hr]; simp only [List.length_cons] at *; omega
      · exact Nat.le_refl _

theorem skipWs_rest_le (c : Cur) : c.skipWs.rest.length ≤ c.rest.length := skipCols_rest_le _ c

theorem listMarker?_w_pos {t : List Char} {ord : Bool} {d : Char} {st w : Nat}
    (h : listMarker? t = some (ord, d, st, w)) : 1 ≤ w := by
  unfold listMarker? at h
  split at h
  · next c r =>
    split at h
    · have key : ∀ {o : Option (Bool × Char × Nat × Nat)}, (o = some (false, c, 0, 1) ∨ o = none) →
          o = some (ord, d, st, w) → w = 1 := by
        intro o ho hh
        rcases ho with ho | ho
        · rw [ho] at hh
          simp only [Option.some.injEq, Prod.mk.injEq] at hh
          exact hh.2.2.2.symm
        · rw [ho] at hh; cases hh
      have h3 : w = 1 := by
        split at h
        · exact key (Or.inl rfl) h
        · split at h
          · exact key (Or.inl rfl) h
          · exact key (Or.inr rfl) h
      omega
    · split at h
      · simp only at h
        split at h
        · cases h
        · split at h
          · split at h
            · have h := ite_some_none h
              simp only [Prod.mk.injEq] at h
              omega
            · cases h
          · cases h
      · cases h
  · cases h

theorem lm_chain {b : Bool} {t : List Char} {P : Bool → Char → Nat → Nat → Bool} {q : Bool × Char × Nat × Nat}
    (h : (match (if b = true then listMarker? t else none) with
      | some (o, d, s, w) => if P o d s w = true then none else some (o, d, s, w)
      | none => none) = some q) : listMarker? t = some q := by
  split at h
  · next h0 =>
    split at h
    · cases h
    · split at h0
      · rw [h0, h]
      · cases h0
  · cases h

/-- the cursor after a block quote marker has consumed at least the `>`. -/
theorem quote_lt {cur : Cur} (hq : (!decide (cur.indent ≥ 4) && cur.skipWs.rest.head? == some '>') = true)
    {fuel : Nat} (h : cur.rest.length < fuel + 1) (c3 : Cur)
    (hc3 : c3.rest.length ≤ (cur.skipWs.rest.drop 1).length) : c3.rest.length < fuel := by
  have hle := skipWs_rest_le cur
  simp only [Bool.and_eq_true, beq_iff_eq] at hq
  cases ht : cur.skipWs.rest with
  | nil => rw [ht] at hq; simp at hq
  | cons x r =>
    rw [ht] at hc3 hle
    simp only [List.drop_succ_cons, List.drop_zero, List.length_cons] at hc3 hle
    omega

/-- the cursor after a list marker has consumed at least one character. -/
theorem list_lt {cur : Cur} {q : Bool × Char × Nat × Nat} (hm : listMarker? cur.skipWs.rest = some q)
    {fuel : Nat} (h : cur.rest.length < fuel + 1) (c4 : Cur)
    (hc4 : c4.rest.length ≤ (cur.skipWs.rest.drop q.2.2.2).length) : c4.rest.length < fuel := by
  obtain ⟨o, d, s, w⟩ := q
  have hle := skipWs_rest_le cur
  have hw := listMarker?_w_pos hm
  obtain ⟨c, r, hr, _, _, hwl, _⟩ := listMarker?_facts hm
  simp only [List.length_drop] at hc4
  omega

theorem openBlocks_fuel_succ (rd : Reading) {n : Nat} : ∀ (fuel : Nat) (s : Core (n + 1)) (cur : Cur) (k : Nat)
    (first : Bool), cur.rest.length < fuel →
      openBlocks rd (fuel + 1) s cur k first = openBlocks rd fuel s cur k first
  | 0, _, _, _, _, h => by omega
  | fuel + 1, s, cur, k, first, h => by
    have ih := openBlocks_fuel_succ rd (n := n) fuel
    unfold openBlocks
    simp only []
    by_cases hb : cur.blank = true
    · simp only [hb, ↓reduceIte]
    · simp only [hb, Bool.false_eq_true, ↓reduceIte]
      generalize (if (!decide (cur.indent ≥ 4) && first && isPara s.leaf && k == s.depth &&
          (setextLevel? cur.skipWs.rest).isSome) = true then s.closeSetext ((setextLevel? cur.skipWs.rest).getD 1)
        else s) = s1
      repeat' (first | rfl | split)
      all_goals apply ih
      · exact quote_lt ‹_› h _ (skipCols_rest_le _ _)
      · exact quote_lt ‹_› h _ (Nat.le_refl _)
      all_goals
        have hm := lm_chain ‹_ = some (_, _, _, _)›
        first
          | exact list_lt hm h _ (skipCols_rest_le _ _)
          | exact list_lt hm h _ (Nat.le_refl _)

theorem openBlocks_fuel_add (rd : Reading) {n : Nat} (fuel : Nat) (s : Core (n + 1)) (cur : Cur) (k : Nat)
    (first : Bool) (h : cur.rest.length < fuel) : ∀ m,
    openBlocks rd (fuel + m) s cur k first = openBlocks rd fuel s cur k first
  | 0 => rfl
  | m + 1 => by
    rw [← Nat.add_assoc, openBlocks_fuel_succ rd (fuel + m) s cur k first (by omega)]
    exact openBlocks_fuel_add rd fuel s cur k first h m

theorem matchConts_rest_le : ∀ (st : List OpenC) (cur : Cur), (matchConts st cur).2.rest.length ≤ cur.rest.length
  | [], cur => by unfold matchConts; exact Nat.le_refl _
  | c :: cs, cur => by
    unfold matchConts
    split
    · extract_lets c1
      have h1 : c1.rest.length ≤ cur.rest.length := skipWs_rest_le cur
      split
      · split
        · next r hr =>
          extract_lets c2 c3
          have h3 : c3.rest.length ≤ c1.rest.length := by
            have h2 : c2.rest.length ≤ c1.rest.length := by
              show r.length ≤ c1.rest.length
              rw [hr]; simp
            show (if _ then _ else _ : Cur).rest.length ≤ _
            split
            · exact Nat.le_trans (skipCols_rest_le 1 c2) h2
            · exact h2
          have ih := matchConts_rest_le cs c3
          generalize matchConts cs c3 = res at ih ⊢
          obtain ⟨a, b⟩ := res
          simp only at ih ⊢
          omega
        · exact Nat.le_refl _
      · exact Nat.le_refl _
    · have ih := matchConts_rest_le cs cur
      generalize matchConts cs cur = res at ih ⊢
      obtain ⟨a, b⟩ := res
      exact ih
    · split
      · exact Nat.le_refl _
      · split
        · have ih := matchConts_rest_le cs (cur.skipCols c.m.contentIndent)
          have := skipCols_rest_le c.m.contentIndent cur
          generalize matchConts cs (cur.skipCols c.m.contentIndent) = res at ih ⊢
          obtain ⟨a, b⟩ := res
          simp only at ih ⊢
          omega
        · split
          · have ih := matchConts_rest_le cs cur.skipWs
            have := skipWs_rest_le cur
            generalize matchConts cs cur.skipWs = res at ih ⊢
            obtain ⟨a, b⟩ := res
            simp only at ih ⊢
            omega
          · exact Nat.le_refl _

/-- **fuel of `openBlocks` at its call site**: `stepLine` gives it `l.length + 1`; any larger amount yields the
    same sink, i.e. the fuel-exhausted branch is not reached. -/
theorem stepLine_fuel (rd : Reading) {n : Nat} (s : Core (n + 1)) (l : Line) (m : Nat) :
    openBlocks rd (l.length + 1 + m) s (matchConts s.stack.reverse (Cur.ofLine l)).2
        (matchConts s.stack.reverse (Cur.ofLine l)).1 true =
      openBlocks rd (l.length + 1) s (matchConts s.stack.reverse (Cur.ofLine l)).2
        (matchConts s.stack.reverse (Cur.ofLine l)).1 true := by
  apply openBlocks_fuel_add
  have h1 := matchConts_rest_le s.stack.reverse (Cur.ofLine l)
  have h2 : (Cur.ofLine l).rest.length = l.length := rfl
  omega

/-! ## `peelEmit`, `lrdOnlyGo`: fuel = number of lines -/
theorem linesCovered_pos (s : List Char) (n : Nat) : 1 ≤ linesCovered s n := by
  unfold linesCovered
  simp only
  split
  · next h =>
    simp only [beq_iff_eq] at h
    have hmem : '\n' ∈ s.take n := List.mem_of_getLast? h
    have : '\n' ∈ (s.take n).filter (· == '\n') := List.mem_filter.mpr ⟨hmem, by simp⟩
    exact List.length_pos_of_mem this
  · omega

theorem peelEmit_fuel_succ : ∀ (fuel : Nat) (r : RawCore) (ls : List PLine), ls.length ≤ fuel →
    peelEmit (fuel + 1) r ls = peelEmit fuel r ls
  | 0, r, ls, h => by
    have : ls = [] := List.eq_nil_of_length_eq_zero (by omega)
    subst this; rfl
  | fuel + 1, r, [], _ => rfl
  | fuel + 1, r, l0 :: tl, h => by
    unfold peelEmit
    simp only
    split
    · rfl
    · split
      · rfl
      · next lab dest title nchars _ =>
        apply peelEmit_fuel_succ fuel
        have := linesCovered_pos (joinLines ((l0 :: tl).map (·.text))) nchars
        simp only [List.length_drop, List.length_cons] at h ⊢
        omega

theorem peelEmit_fuel_add (fuel : Nat) (r : RawCore) (ls : List PLine) (h : ls.length ≤ fuel) : ∀ m,
    peelEmit (fuel + m) r ls = peelEmit fuel r ls
  | 0 => rfl
  | m + 1 => by
    rw [← Nat.add_assoc, peelEmit_fuel_succ (fuel + m) r ls (by omega)]
    exact peelEmit_fuel_add fuel r ls h m

/-- at the call site in `RawCore.closeLeaf` (fuel = number of buffered paragraph lines). -/
theorem closeLeaf_peel_fuel (r : RawCore) (ls : List PLine) (m : Nat) :
    peelEmit (ls.length + m) r ls.reverse = peelEmit ls.length r ls.reverse :=
  peelEmit_fuel_add ls.length r ls.reverse (by simp) m

theorem lrdOnlyGo_fuel_succ : ∀ (fuel : Nat) (ls : List PLine), ls.length ≤ fuel →
    lrdOnlyGo (fuel + 1) ls = lrdOnlyGo fuel ls
  | 0, ls, h => by
    have : ls = [] := List.eq_nil_of_length_eq_zero (by omega)
    subst this; rfl
  | fuel + 1, [], _ => rfl
  | fuel + 1, l0 :: tl, h => by
    unfold lrdOnlyGo
    simp only
    split
    · rfl
    · split
      · rfl
      · next lab dest title nchars _ =>
        apply lrdOnlyGo_fuel_succ fuel
        have := linesCovered_pos (joinLines ((l0 :: tl).map (·.text))) nchars
        simp only [List.length_drop, List.length_cons] at h ⊢
        omega

theorem lrdOnlyGo_fuel_add (fuel : Nat) (ls : List PLine) (h : ls.length ≤ fuel) : ∀ m,
    lrdOnlyGo (fuel + m) ls = lrdOnlyGo fuel ls
  | 0 => rfl
  | m + 1 => by
    rw [← Nat.add_assoc, lrdOnlyGo_fuel_succ (fuel + m) ls (by omega)]
    exact lrdOnlyGo_fuel_add fuel ls h m

/-! ## `procEmph`: fuel = Σ (1 + run length) + 1 -/
theorem emphFuel_pos (l : List Item) : 1 ≤ emphFuel l := by
  cases l with
  | nil => simp [emphFuel]
  | cons it r => cases it <;> simp [emphFuel] <;> omega

theorem procEmph_fuel_succ : ∀ (fuel : Nat) (left right : List Item), emphFuel right ≤ fuel + 1 →
    procEmph (fuel + 1) left right = procEmph fuel left right
  | 0, left, right, h => by
    cases right with
    | nil => simp [procEmph]
    | cons it r =>
      have := emphFuel_pos r
      cases it <;> simp [emphFuel] at h <;> omega
  | fuel + 1, left, [], _ => by simp [procEmph]
  | fuel + 1, left, it :: rest, h => by
    have ih := procEmph_fuel_succ fuel
    unfold procEmph
    simp only []
    repeat' (first | rfl | split)
    all_goals apply ih
    all_goals (simp only [emphFuel] at h ⊢; omega)

theorem procEmph_fuel_add (fuel : Nat) (left right : List Item) (h : emphFuel right ≤ fuel + 1) : ∀ m,
    procEmph (fuel + m) left right = procEmph fuel left right
  | 0 => rfl
  | m + 1 => by
    rw [← Nat.add_assoc, procEmph_fuel_succ (fuel + m) left right (by omega)]
    exact procEmph_fuel_add fuel left right h m

/-- at the call site in `resolveEmph` (fuel = `emphFuel items`). -/
theorem resolveEmph_fuel (items : List Item) (m : Nat) :
    flattenRev (procEmph (emphFuel items + m) [] items) = resolveEmph items := by
  unfold resolveEmph
  rw [procEmph_fuel_add (emphFuel items) [] items (by omega) m]
end Verif.Model.LeanMark
