/-
  `__process_emphasis_pair` + `__mark_used_tokens` on a block list given as `P ++ sp o :: M ++ sp c :: R`:
  the index arithmetic of the Python computes exactly the high-level rewrite
  `P ++ [sp o]? ++ es :: M ++ ee :: [sp c]? ++ R` and deactivates exactly the special tokens of `M`.
-/
import Verif.Lemmas.EmphasisList
namespace Verif.Model.Emphasis

def keepIf (b : Bool) (x : Block) : List Block := if b then [x] else []

/-- the stack after `__mark_used_tokens` reduced (and, at 0, deactivated) the close and the open token -/
def markStk (stk : List Special) (o c : Nat) (L : Int) (ko kc : Bool) : List Special :=
  let s1 := reduce stk c L
  let s2 := if kc then s1 else deact s1 c
  let s3 := reduce s2 o L
  if ko then s3 else deact s3 o

theorem processPair_spec (P M R : List Block) (stk : List Special) (o c cur : Nat) (ot ct : Special)
    (ch : Char) (tl : Str)
    (hne : o ≠ c) (ho : stk[o]? = some ot) (hc : stk[c]? = some ct) (hch : ot.text = ch :: tl)
    (hoP : Block.sp o ∉ P) (hcP : Block.sp c ∉ P) (hcM : Block.sp c ∉ M) :
    processPair (P ++ .sp o :: M ++ .sp c :: R) stk o c cur =
      .ok ⟨P ++ keepIf (decide (ot.rep - emphLen ot ct ≠ 0)) (.sp o) ++ .es (emphLen ot ct) ch :: M
              ++ .ee (emphLen ot ct) ch :: keepIf (decide (ct.rep - emphLen ot ct ≠ 0)) (.sp c) ++ R,
           deactAll (spIds M) (markStk stk o c (emphLen ot ct)
              (decide (ot.rep - emphLen ot ct ≠ 0)) (decide (ct.rep - emphLen ot ct ≠ 0))),
           if ct.rep - emphLen ot ct ≠ 0 then cur - 1 else cur⟩ := by
  generalize hL : emphLen ot ct = L
  have h1 : idxOfE (Block.sp o) (P ++ .sp o :: M ++ .sp c :: R) = .ok P.length :=
    by simpa using idxOfE_append_cons (Block.sp o) P (M ++ .sp c :: R) hoP
  have h2 : insertAt (P ++ .sp o :: M ++ .sp c :: R) (P.length + 1) (.es L ch)
      = P ++ .sp o :: .es L ch :: M ++ .sp c :: R := by
    have := insertAt_append (P ++ [.sp o]) (M ++ .sp c :: R) (Block.es L ch)
    simpa using this
  have hcP' : Block.sp c ∉ P ++ .sp o :: .es L ch :: M := by
    simp [hcP, hcM]; exact fun e => hne e.symm
  have h3 : idxOfE (Block.sp c) (P ++ .sp o :: .es L ch :: M ++ .sp c :: R) = .ok (P.length + 2 + M.length) := by
    have := idxOfE_append_cons (Block.sp c) (P ++ .sp o :: .es L ch :: M) R hcP'
    simpa [Nat.add_assoc, Nat.add_comm, Nat.add_left_comm] using this
  have h4 : insertAt (P ++ .sp o :: .es L ch :: M ++ .sp c :: R) (P.length + 2 + M.length) (.ee L ch)
      = P ++ .sp o :: .es L ch :: M ++ .ee L ch :: .sp c :: R := by
    have := insertAt_append (P ++ .sp o :: .es L ch :: M) (.sp c :: R) (Block.ee L ch)
    simpa [Nat.add_assoc, Nat.add_comm, Nat.add_left_comm] using this
  unfold processPair
  simp only [getS, ho, hc, head0, hch, hL, h1, h2, h3, h4, bind, Except.bind, pure, Except.pure]
  have hcP'' : Block.sp c ∉ P ++ .sp o :: .es L ch :: M ++ [.ee L ch] := by
    simp [hcP, hcM]; exact fun e => hne e.symm
  have hrc : removeE (Block.sp c) (P ++ .sp o :: .es L ch :: M ++ .ee L ch :: .sp c :: R)
      = .ok (P ++ .sp o :: .es L ch :: M ++ .ee L ch :: R) := by
    have := removeE_append_cons (Block.sp c) (P ++ .sp o :: .es L ch :: M ++ [.ee L ch]) R hcP''
    simpa using this
  have hro : ∀ (bl X : List Block), bl = P ++ .sp o :: X → removeE (Block.sp o) bl = .ok (P ++ X) := by
    intro bl X hb; subst hb; exact removeE_append_cons (Block.sp o) P X hoP
  have hseg : ∀ (A X B bl : List Block) (n i : Nat) (s : List Special), bl = A ++ X ++ B → n = X.length → i = A.length →
      deactRange bl n i s = .ok (deactAll (spIds X) s) := by
    intro A X B bl n i s hb hn hi; subst hb hn hi; exact deactRange_segment A X B s
  by_cases hkc : ct.rep - (L : Int) = 0 <;> by_cases hko : ot.rep - (L : Int) = 0
  · simp only [hkc, hko, hrc, if_true]
    rw [hro _ (.es L ch :: M ++ .ee L ch :: R) (by simp)]
    simp only []
    rw [hseg (P ++ [.es L ch]) M (.ee L ch :: R) _ _ _ _ (by simp) (by simp <;> omega) (by simp)]
    simp [keepIf, markStk]
  · simp only [hkc, hko, hrc, if_true, if_false]
    rw [hseg (P ++ [.sp o]) (.es L ch :: M) (.ee L ch :: R) _ _ _ _ (by simp) (by simp <;> omega) (by simp)]
    simp [keepIf, markStk, hko]
  · simp only [hkc, hko, if_true, if_false]
    rw [hro _ (.es L ch :: M ++ .ee L ch :: .sp c :: R) (by simp)]
    simp only []
    rw [hseg (P ++ [.es L ch]) (M ++ [.ee L ch]) (.sp c :: R) _ _ _ _ (by simp) (by simp <;> omega) (by simp)]
    simp [keepIf, markStk, hkc]
  · simp only [hkc, hko, if_false]
    rw [hseg (P ++ [.sp o]) (.es L ch :: M ++ [.ee L ch]) (.sp c :: R) _ _ _ _ (by simp) (by simp <;> omega) (by simp)]
    simp [keepIf, markStk, hkc, hko]

end Verif.Model.Emphasis
