/-
  Helper lemmas for C19: canonical (normalised) spellings.
-/
import Verif.Model.FileScan
import Verif.Model.FileScanSpec
import Verif.Lemmas.FileScanBasic
import Verif.Lemmas.FileScanPath
import Verif.Lemmas.FileScanLoop
import Verif.Lemmas.FileScanWalk
namespace Verif.Lemmas.FileScan
open Verif.Model.FileScan

/-- A path component that is a name (not empty, `.` or `..`). -/
def NameComp (c : Str) : Prop := c ≠ [] ∧ c ≠ ['.'] ∧ c ≠ ['.', '.']

theorem normalised_iff {a : Str} : Normalised a ↔ ∀ c ∈ splitOn '/' a, NameComp c := Iff.rfl

/-! ### components of a split never contain the separator -/

theorem splitFirst_noSep_fst (sep : Char) : ∀ s : Str, sep ∉ (splitFirst sep s).1
  | [] => by simp [splitFirst]
  | c :: cs => by
    simp only [splitFirst]
    split
    · simp
    · rename_i h
      intro hm
      rcases List.mem_cons.mp hm with e | hm'
      · exact h e.symm
      · exact splitFirst_noSep_fst sep cs hm'

theorem splitFirst_noSep_snd (sep : Char) : ∀ s : Str, ∀ c ∈ (splitFirst sep s).2, sep ∉ c
  | [], c, h => by simp [splitFirst] at h
  | x :: xs, c, h => by
    simp only [splitFirst] at h
    split at h
    · rcases List.mem_cons.mp h with e | h'
      · subst e; exact splitFirst_noSep_fst sep xs
      · exact splitFirst_noSep_snd sep xs c h'
    · exact splitFirst_noSep_snd sep xs c h

theorem splitOn_noSep_mem {sep : Char} {s c : Str} (h : c ∈ splitOn sep s) : sep ∉ c := by
  rcases List.mem_cons.mp h with e | h'
  · subst e; exact splitFirst_noSep_fst sep s
  · exact splitFirst_noSep_snd sep s c h'

theorem validName_of_nameComp {s c : Str} (hm : c ∈ splitOn '/' s) (hc : NameComp c) : ValidName c :=
  ⟨hc.1, splitOn_noSep_mem hm, hc.2.1, hc.2.2⟩

theorem nameComp_of_validName {c : Str} (h : ValidName c) : NameComp c := ⟨h.1, h.2.2.1, h.2.2.2⟩

theorem normalised_of_validName {n : Str} (h : ValidName n) : Normalised n := by
  intro c hc
  rw [splitOn_noSep '/' h.2.1] at hc
  simp at hc; subst hc
  exact nameComp_of_validName h

/-! ### shape of normalised strings -/

theorem normalised_rel {s : Str} (h : Normalised s) : Rel s := by
  cases s with
  | nil => exact absurd rfl (h [] (by simp [splitOn, splitFirst])).1
  | cons c cs =>
    refine ⟨by simp, ?_⟩
    intro e
    simp at e; subst e
    exact absurd rfl (h [] (by simp [splitOn, splitFirst])).1

theorem normalised_last {s : Str} (h : Normalised s) : s.getLast? ≠ some '/' := by
  intro e
  have hs := eq_dropLast_append_of_getLast? e
  have : [] ∈ splitOn '/' s := by
    rw [hs, splitOn_append_sep]
    simp [splitOn, splitFirst]
  exact absurd rfl (h [] this).1

theorem pjoin_normalised {top d : Str} (ht : Normalised top) (hd : ValidName d) :
    pjoin top d = top ++ '/' :: d ∧ splitOn '/' (pjoin top d) = splitOn '/' top ++ [d] ∧
      Normalised (pjoin top d) := by
  have h1 : pjoin top d = top ++ '/' :: d := by
    simp [pjoin, validName_head hd, (normalised_rel ht).1, normalised_last ht]
  have h2 : splitOn '/' (pjoin top d) = splitOn '/' top ++ [d] := by
    rw [h1, splitOn_append_sep, splitOn_noSep '/' hd.2.1]
  refine ⟨h1, h2, ?_⟩
  intro c hc
  rw [h2] at hc
  rcases List.mem_append.mp hc with h | h
  · exact ht c h
  · simp at h; subst h; exact nameComp_of_validName hd

theorem walkRoot_normalised : ∀ (ns : List Str) {top : Str}, Normalised top →
    (∀ n ∈ ns, ValidName n) →
    splitOn '/' (walkRoot top ns) = splitOn '/' top ++ ns ∧ Normalised (walkRoot top ns)
  | [], top, ht, _ => by simpa [walkRoot] using ht
  | d :: ds, top, ht, hv => by
    obtain ⟨_, h2, h3⟩ := pjoin_normalised ht (hv d (by simp))
    obtain ⟨h4, h5⟩ := walkRoot_normalised ds h3 (fun n hn => hv n (List.mem_cons_of_mem _ hn))
    simp only [walkRoot, List.foldl_cons] at h4 h5 ⊢
    exact ⟨by rw [h4, h2]; simp, h5⟩

/-- The string the walk reports below a normalised `top`. -/
theorem walk_string_normalised {top : Str} {dirs : List Str} {f : Str} (ht : Normalised top)
    (hv : ∀ n ∈ dirs ++ [f], ValidName n) :
    splitOn '/' (stripOneSep (walkRoot top dirs) ++ '/' :: f) = splitOn '/' top ++ dirs ++ [f] ∧
      Normalised (stripOneSep (walkRoot top dirs) ++ '/' :: f) := by
  obtain ⟨h1, h2⟩ := walkRoot_normalised dirs ht (fun n hn => hv n (List.mem_append_left _ hn))
  have hf : ValidName f := hv f (by simp)
  rw [stripOneSep_slash_eq_pjoin (normalised_rel h2).1 (validName_head hf)]
  obtain ⟨_, h4, h5⟩ := pjoin_normalised h2 hf
  exact ⟨by rw [h4, h1], h5⟩

/-! ### resolution of normalised strings -/

theorem resC_none (t : Tree) : ∀ comps : List Str, resC t comps none = none
  | [] => rfl
  | c :: cs => by simp only [resC, List.foldl_cons, resStep]; exact resC_none t cs

theorem resC_names {t : Tree} : ∀ (comps : List Str) {Q P : Path}, (∀ c ∈ comps, NameComp c) →
    resC t comps (some Q) = some P → P = Q ++ comps
  | [], Q, P, _, h => by simp [resC] at h; simp [h]
  | c :: cs, Q, P, hc, h => by
    have hcn := hc c (by simp)
    simp only [resC, List.foldl_cons] at h
    have hstep : resStep t (some Q) c = some (Q ++ [c]) ∨ resStep t (some Q) c = none := by
      simp only [resStep, hcn.1, hcn.2.1, hcn.2.2, or_self, if_false]
      split
      · exact Or.inr rfl
      · split
        · exact Or.inl rfl
        · exact Or.inr rfl
    rcases hstep with hs | hs
    · rw [hs] at h
      have := resC_names cs (fun c' hc' => hc c' (List.mem_cons_of_mem _ hc')) h
      simp [this]
    · rw [hs] at h
      have := resC_none t cs
      simp only [resC] at this
      rw [this] at h; cases h

/-- A normalised string resolves to its own components. -/
theorem resolve_normalised {t : Tree} {s : Str} {P : Path} (hn : Normalised s)
    (h : resolve t s = some P) : P = splitOn '/' s := by
  rw [resolve_eq_resS (normalised_rel hn)] at h
  simpa using resC_names (splitOn '/' s) hn h

/-- …hence it is the canonical spelling of the file it names. -/
theorem normalised_render {t : Tree} {s : Str} {P : Path} (hn : Normalised s)
    (h : resolve t s = some P) : s = render P := by
  rw [resolve_normalised hn h, render, joinSlash_splitOn]

/-- Two normalised strings naming the same object are the same string. -/
theorem normalised_inj {t : Tree} {s₁ s₂ : Str} {P : Path} (h₁ : Normalised s₁) (h₂ : Normalised s₂)
    (r₁ : resolve t s₁ = some P) (r₂ : resolve t s₂ = some P) : s₁ = s₂ := by
  rw [normalised_render h₁ r₁, normalised_render h₂ r₂]

/-! ### what one path contributes is normalised -/

theorem processPath_files_normalised {t : Tree} (wf : WF t) {r : Bool} {exts : List Str} {p f : Str}
    (hn : Normalised p) (h : f ∈ (processPath t r exts p).files) : Normalised f := by
  simp only [processPath] at h
  split at h
  · simp at h
  · split at h
    · obtain ⟨q, rel, f', hmem, hsp, hl, _, rfl, _⟩ := mem_walkDir.mp h
      have hq := stripPrefix_eq_some.mp hsp
      have hrel := eq_dropLast_append_of_getLast? hl
      refine (walk_string_normalised hn ?_).2
      intro n hn'
      rw [← hrel] at hn'
      exact validName_of_mem wf hmem (by rw [hq]; exact List.mem_append_right _ hn')
    · split at h
      · simp at h; subst h; exact hn
      · simp at h

end Verif.Lemmas.FileScan
