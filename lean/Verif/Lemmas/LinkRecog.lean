/-
  Lemmas about the link recogniser models (Verif/Model/LinkRecog.lean).

  Part 1: every helper equals a list-level expression on the rest of the string (`s.drop i`).
  Part 2: a generic "collect until a break, then dispatch" loop `gLoop` and its list-level meaning `gSpan`;
          the four scanning loops of the model (angle destination, non-angle destination, label, bounded string)
          are instances, so each of them returns, makes progress, stays inside the string and returns exactly the
          slice of the source it walked over.
-/
import Verif.Lemmas.Recognisers
import Verif.Model.LinkRecog
namespace Verif.Model.LinkRecog
open Verif.Model.Recognisers

/-! ## basics -/

theorem charAtL_lt {s : Str} {i : Nat} (h : i < s.length) : charAtL s i = .ok s[i] := by
  simp [charAtL, List.getElem?_eq_getElem h]

theorem charAtL_ge {s : Str} {i : Nat} (h : s.length ≤ i) : charAtL s i = .error .index := by
  simp [charAtL, List.getElem?_eq_none h]

theorem slice_drop_take (s : Str) (i k : Nat) : slice s i (i + k) = (s.drop i).take k := by
  unfold slice; rw [List.drop_take]; simp

theorem slice_self (s : Str) (i : Nat) : slice s i i = [] := by
  have := slice_drop_take s i 0; simpa using this

theorem isCharAt_drop (s : Str) (i : Nat) (c : Char) : isCharAt s i c = ((s.drop i).head? == some c) := by
  unfold isCharAt; rw [List.head?_drop]
  cases s[i]? <;> simp

theorem isCharAtNot_drop (s : Str) (i : Nat) (c : Char) :
    isCharAtNot s i c = (match (s.drop i).head? with | some d => d != c | none => false) := by
  unfold isCharAtNot; rw [List.head?_drop]
  cases s[i]? <;> rfl

/-- number of leading characters of `l` that are not in `cs` -/
def brk (cs : Str) (l : Str) : Nat := (l.takeWhile (fun c => !cs.contains c)).length

theorem brk_le (cs l : Str) : brk cs l ≤ l.length := takeWhile_length_le _ _

theorem brk_nil (cs : Str) : brk cs [] = 0 := rfl

theorem brk_cons (cs : Str) (c : Char) (r : Str) :
    brk cs (c :: r) = if cs.contains c then 0 else brk cs r + 1 := by
  unfold brk; rw [List.takeWhile_cons]; cases cs.contains c <;> simp

/-- what stops a `brk` scan is the end of the string or a break character -/
theorem brk_stop (cs l : Str) : ∀ c r, l.drop (brk cs l) = c :: r → cs.contains c = true := by
  induction l with
  | nil => intro c r h; simp [brk] at h
  | cons d t ih =>
    intro c r h
    rw [brk_cons] at h
    by_cases hd : cs.contains d
    · simp only [hd, ↓reduceIte, List.drop_zero, List.cons.injEq] at h
      rw [← h.1]; exact hd
    · simp only [hd, Bool.false_eq_true, ↓reduceIte, List.drop_succ_cons] at h
      exact ih c r h

theorem cuoLoop_eq (s cs : Str) (i : Nat) :
    cuoLoop s cs s.length i = .ok (i + brk cs (s.drop i)) := by
  fun_induction cuoLoop s cs s.length i with
  | case1 i h e he => simp [charAtL_lt h] at he
  | case2 i h d hd hdc ih =>
    rw [ih]
    rw [charAtL_lt h] at hd; injection hd with hd
    rw [List.drop_eq_getElem_cons h, brk_cons, hd]
    simp only [Bool.not_eq_eq_eq_not, Bool.not_true] at hdc
    simp only [hdc, Bool.false_eq_true, ↓reduceIte]
    congr 1; omega
  | case3 i h d hd hdc =>
    rw [charAtL_lt h] at hd; injection hd with hd
    rw [List.drop_eq_getElem_cons h, brk_cons, hd]
    simp only [Bool.not_eq_eq_eq_not, Bool.not_true, Bool.not_eq_false] at hdc
    simp only [hdc, ↓reduceIte, Nat.add_zero]
  | case4 i h =>
    rw [List.drop_eq_nil_of_le (by omega)]; simp [brk]

theorem collectUntilOneOfVerified_eq (s : Str) (i : Nat) (cs : Str) (h : i ≤ s.length) :
    collectUntilOneOfVerified s i cs = .ok (i + brk cs (s.drop i), (s.drop i).take (brk cs (s.drop i))) := by
  unfold collectUntilOneOfVerified collectUntilOneOf
  simp only [h, ↓reduceIte, cuoLoop_eq, slice_drop_take]

theorem collectUntilOneOfVerified_gt (s : Str) (i : Nat) (cs : Str) (h : s.length < i) :
    collectUntilOneOfVerified s i cs = .error .assertion := by
  unfold collectUntilOneOfVerified collectUntilOneOf
  have : ¬ i ≤ s.length := by omega
  simp only [this, ↓reduceIte]

/-- characters `handle_inline_backslash` consumes, given the text after the backslash -/
def bsStep : Str → Nat
  | [] => 1
  | d :: _ => if d == NL then 1 else 2

theorem bsStep_pos (r : Str) : 1 ≤ bsStep r := by
  unfold bsStep; split <;> (try split) <;> omega

theorem bsStep_le (r : Str) : bsStep r ≤ r.length + 1 := by
  unfold bsStep; split <;> (try split) <;> simp <;> omega

theorem bsNewIndex_eq (s : Str) (j : Nat) : bsNewIndex s j = .ok (j + bsStep (s.drop (j + 1))) := by
  unfold bsNewIndex handleInlineBackslash
  by_cases h : j + 1 ≥ s.length
  · simp only [h, ↓reduceIte]
    rw [List.drop_eq_nil_of_le (by omega)]; rfl
  · simp only [h, ↓reduceIte]
    have hl : j + 1 < s.length := by omega
    rw [charAtL_lt hl, List.drop_eq_getElem_cons hl]
    simp only [bsStep]
    by_cases hn : (s[j + 1] == NL) = true
    · simp [hn]
    · simp only [hn, Bool.false_eq_true, ↓reduceIte]
      by_cases hp : bsPunct.contains s[j + 1] = true <;> simp only [hp, Bool.false_eq_true, ↓reduceIte]

/-! ## the generic scanning loop -/

/-- "collect until a break character; a backslash skips what `handle_inline_backslash` consumes; any other break
character is handed to `act`, which stops the loop (`none`) or consumes the character with a new state". -/
def gLoop {σ : Type} (s : Str) (breaks : Str) (act : Char → σ → Option σ) :
    Nat → Nat → σ → Str → Except LErr (Nat × σ × Str)
  | 0, _, _, _ => .error .fuel
  | fuel + 1, i, n, acc =>
    match collectUntilOneOfVerified s i breaks with
    | .error e => .error e
    | .ok (j, part) =>
      if isCharAt s j BS then
        match bsNewIndex s j with
        | .error e => .error e
        | .ok k => gLoop s breaks act fuel k n (acc ++ part ++ slice s j k)
      else
        match s[j]? with
        | none => .ok (j, n, acc ++ part)
        | some c =>
          match act c n with
          | none => .ok (j, n, acc ++ part)
          | some n' => gLoop s breaks act fuel (j + 1) n' (acc ++ part ++ [c])

/-- list-level meaning of `gLoop`: (number of characters walked over, final state). -/
def gSpan {σ : Type} (breaks : Str) (act : Char → σ → Option σ) : Str → σ → Nat × σ
  | [], n => (0, n)
  | c :: r, n =>
    if c == BS then
      match r with
      | [] => (1, n)
      | d :: r' =>
        if d == NL && breaks.contains NL then
          match act NL n with
          | none => (1, n)
          | some n' => ((gSpan breaks act r' n').1 + 2, (gSpan breaks act r' n').2)
        else ((gSpan breaks act r' n).1 + 2, (gSpan breaks act r' n).2)
    else if breaks.contains c then
      match act c n with
      | none => (0, n)
      | some n' => ((gSpan breaks act r n').1 + 1, (gSpan breaks act r n').2)
    else ((gSpan breaks act r n).1 + 1, (gSpan breaks act r n).2)

theorem take_take_drop (l : Str) (k m : Nat) : l.take k ++ (l.drop k).take m = l.take (k + m) := by
  rw [List.take_add]

theorem gSpan_nil {σ : Type} (breaks : Str) (act : Char → σ → Option σ) (n : σ) : gSpan breaks act [] n = (0, n) := by
  rw [gSpan.eq_def]

theorem gSpan_cons {σ : Type} (breaks : Str) (act : Char → σ → Option σ) (c : Char) (r : Str) (n : σ) :
    gSpan breaks act (c :: r) n =
      if c == BS then
        match r with
        | [] => (1, n)
        | d :: r' =>
          if d == NL && breaks.contains NL then
            match act NL n with
            | none => (1, n)
            | some n' => ((gSpan breaks act r' n').1 + 2, (gSpan breaks act r' n').2)
          else ((gSpan breaks act r' n).1 + 2, (gSpan breaks act r' n).2)
      else if breaks.contains c then
        match act c n with
        | none => (0, n)
        | some n' => ((gSpan breaks act r n').1 + 1, (gSpan breaks act r n').2)
      else ((gSpan breaks act r n).1 + 1, (gSpan breaks act r n).2) := by
  rw [gSpan.eq_def]; rfl

theorem gSpan_brk {σ : Type} (breaks : Str) (act : Char → σ → Option σ) (hb : breaks.contains BS = true)
    (l : Str) (n : σ) :
    gSpan breaks act l n =
      (brk breaks l + (gSpan breaks act (l.drop (brk breaks l)) n).1, (gSpan breaks act (l.drop (brk breaks l)) n).2) := by
  induction l with
  | nil => simp [brk, gSpan_nil]
  | cons c r ih =>
    rw [brk_cons]
    by_cases hc : breaks.contains c = true
    · simp only [hc, ↓reduceIte, List.drop_zero, Nat.zero_add]
    · have hne : (c == BS) = false := by
        cases h : c == BS
        · rfl
        · rw [beq_iff_eq] at h; rw [h] at hc; exact absurd hb hc
      simp only [hc, Bool.false_eq_true, ↓reduceIte, List.drop_succ_cons]
      rw [gSpan_cons]
      simp only [hne, Bool.false_eq_true, ↓reduceIte, hc]
      rw [ih]
      simp only [Prod.mk.injEq, and_true]
      omega

theorem gSpan_le_aux {σ : Type} (breaks : Str) (act : Char → σ → Option σ) :
    ∀ k (l : Str), l.length ≤ k → ∀ n, (gSpan breaks act l n).1 ≤ l.length := by
  intro k
  induction k with
  | zero =>
    intro l hl n
    cases l with
    | nil => simp [gSpan_nil]
    | cons c r => simp at hl
  | succ k ih =>
    intro l hl n
    cases l with
    | nil => simp [gSpan_nil]
    | cons c r =>
      rw [gSpan_cons]
      simp only [List.length_cons] at hl ⊢
      split
      · cases r with
        | nil => simp
        | cons d r' =>
          simp only [List.length_cons] at hl ⊢
          have h1 := fun n => ih r' (by omega) n
          split
          · split
            · simp
            · have := h1 ‹σ›; omega
          · have := h1 n; simp only; omega
      · have h1 := fun n => ih r (by omega) n
        split
        · split
          · simp
          · have := h1 ‹σ›; simp only; omega
        · have := h1 n; simp only; omega

theorem gSpan_le {σ : Type} (breaks : Str) (act : Char → σ → Option σ) (l : Str) (n : σ) :
    (gSpan breaks act l n).1 ≤ l.length := gSpan_le_aux breaks act l.length l (Nat.le_refl _) n

/-- the generic loop returns, and what it returns is the list-level span: new index = `i + span`, the text is the
accumulator plus exactly the characters walked over. -/
theorem gLoop_eq {σ : Type} (s : Str) (breaks : Str) (act : Char → σ → Option σ) (hb : breaks.contains BS = true) :
    ∀ fuel i n acc, i ≤ s.length → s.length - i < fuel →
      gLoop s breaks act fuel i n acc =
        .ok (i + (gSpan breaks act (s.drop i) n).1, (gSpan breaks act (s.drop i) n).2,
             acc ++ (s.drop i).take (gSpan breaks act (s.drop i) n).1) := by
  intro fuel
  induction fuel with
  | zero => intro i n acc _ h; omega
  | succ fuel ih =>
    intro i n acc hi hf
    rw [gLoop, collectUntilOneOfVerified_eq s i breaks hi]
    simp only
    rw [gSpan_brk breaks act hb (s.drop i) n]
    generalize hk : brk breaks (s.drop i) = k
    have hkle : k ≤ s.length - i := by
      have := brk_le breaks (s.drop i); rw [hk] at this; simpa using this
    have hdrop : (s.drop i).drop k = s.drop (i + k) := by rw [List.drop_drop]
    rw [hdrop]
    cases hrest : s.drop (i + k) with
    | nil =>
      have hlen : s.length ≤ i + k := by
        have := congrArg List.length hrest; simp at this; omega
      rw [isCharAt_ge hlen, List.getElem?_eq_none hlen]
      simp [gSpan_nil]
    | cons c r =>
      have hlt : i + k < s.length := by
        have := congrArg List.length hrest; simp at this; omega
      have hc : s[i + k] = c := by
        have := List.drop_eq_getElem_cons hlt; rw [hrest] at this; injection this with h1 _; exact h1.symm
      have hr : s.drop (i + k + 1) = r := by
        have := List.drop_eq_getElem_cons hlt; rw [hrest] at this; injection this with _ h2; exact h2.symm
      have hbc : breaks.contains c = true := brk_stop breaks (s.drop i) c r (by rw [hk, hdrop, hrest])
      rw [isCharAt_lt hlt, hc, List.getElem?_eq_getElem hlt, hc]
      rw [gSpan_cons]
      by_cases hbs : (c == BS) = true
      · simp only [hbs, ↓reduceIte]
        rw [bsNewIndex_eq, hr]
        simp only
        have hble := bsStep_le r
        have hbpos := bsStep_pos r
        have hrlen : r.length + (i + k + 1) = s.length := by
          have := congrArg List.length hrest; simp at this; omega
        have hA : i + k + bsStep r ≤ s.length := by omega
        have hB : s.length - (i + k + bsStep r) < fuel := by omega
        rw [ih _ n _ hA hB]
        have hdr : s.drop (i + k + bsStep r) = r.drop (bsStep r - 1) := by
          rw [show i + k + bsStep r = (i + k + 1) + (bsStep r - 1) by omega, ← List.drop_drop, hr]
        rw [hdr, slice_drop_take, hrest]
        cases r with
        | nil =>
          simp [bsStep, gSpan_nil, take_take_drop]
          refine ⟨by omega, ?_⟩
          rw [← take_take_drop (s.drop i) k 1, hdrop, hrest]; simp
        | cons d r' =>
          by_cases hd : (d == NL) = true
          · have hbs1 : bsStep (d :: r') = 1 := by simp [bsStep, hd]
            rw [hbs1]
            simp only [Nat.sub_self, List.drop_zero, hd, Bool.true_and]
            have hdn : d = NL := by simpa using hd
            subst hdn
            rw [gSpan_cons breaks act NL r' n]
            have hnb : (NL == BS) = false := by decide
            simp only [hnb, Bool.false_eq_true, ↓reduceIte]
            have e1 : ∀ m, acc ++ List.take k (s.drop i) ++ List.take 1 (c :: NL :: r') ++ List.take m (NL :: r')
                = acc ++ List.take (k + (m + 1)) (s.drop i) := by
              intro m
              rw [← take_take_drop (s.drop i) k (m + 1), hdrop, hrest]
              simp [List.take_succ_cons]
            by_cases hnl : breaks.contains NL = true
            · simp only [hnl, ↓reduceIte]
              cases hact : act NL n with
              | none =>
                simp only [Nat.add_zero, List.take_zero, List.append_nil]
                have := e1 0
                simp only [List.take_zero, List.append_nil, Nat.zero_add] at this
                rw [this]
                simp [Nat.add_assoc]
              | some n' =>
                simp only
                rw [e1]
                simp only [Except.ok.injEq, Prod.mk.injEq, and_true]
                omega
            · simp only [hnl, Bool.false_eq_true, ↓reduceIte]
              rw [e1]
              simp only [Except.ok.injEq, Prod.mk.injEq, and_true]
              omega
          · have hbs2 : bsStep (d :: r') = 2 := by simp [bsStep, hd]
            rw [hbs2]
            simp only [hd, Bool.false_and, Bool.false_eq_true, ↓reduceIte, Nat.add_one_sub_one, List.drop_succ_cons,
              List.drop_zero]
            have e2 : ∀ m, acc ++ List.take k (s.drop i) ++ List.take 2 (c :: d :: r') ++ List.take m r'
                = acc ++ List.take (k + (m + 2)) (s.drop i) := by
              intro m
              rw [← take_take_drop (s.drop i) k (m + 2), hdrop, hrest]
              simp [List.take_succ_cons]
            rw [e2]
            simp only [Except.ok.injEq, Prod.mk.injEq, and_true]
            omega
      · simp only [hbs, Bool.false_eq_true, ↓reduceIte, hbc]
        cases hact : act c n with
        | none =>
          simp
        | some n' =>
          simp only
          rw [ih _ n' _ (by omega) (by omega), hr]
          have e3 : ∀ m, acc ++ List.take k (s.drop i) ++ [c] ++ List.take m r
              = acc ++ List.take (k + (m + 1)) (s.drop i) := by
            intro m
            rw [← take_take_drop (s.drop i) k (m + 1), hdrop, hrest]
            simp [List.take_succ_cons]
          rw [e3]
          simp only [Except.ok.injEq, Prod.mk.injEq, and_true]
          omega

/-- pre-collecting does not change the generic loop -/
theorem gLoop_collect {σ : Type} (s : Str) (breaks : Str) (act : Char → σ → Option σ) (fuel i : Nat) (n : σ) (acc : Str)
    (hi : i ≤ s.length) :
    gLoop s breaks act fuel i n acc =
      gLoop s breaks act fuel (i + brk breaks (s.drop i)) n (acc ++ (s.drop i).take (brk breaks (s.drop i))) := by
  cases fuel with
  | zero => rfl
  | succ f =>
    have hk := brk_le breaks (s.drop i)
    simp only [List.length_drop] at hk
    rw [gLoop, gLoop, collectUntilOneOfVerified_eq s i breaks hi,
      collectUntilOneOfVerified_eq s (i + brk breaks (s.drop i)) breaks (by omega)]
    have h0 : brk breaks (s.drop (i + brk breaks (s.drop i))) = 0 := by
      rw [← List.drop_drop]
      cases hr : (s.drop i).drop (brk breaks (s.drop i)) with
      | nil => rfl
      | cons c r => rw [brk_cons, brk_stop breaks (s.drop i) c r hr]; rfl
    simp only [h0, Nat.add_zero, List.take_zero, List.append_nil]

/-! ## the four scanning loops as instances -/

def actNone {σ : Type} : Char → σ → Option σ := fun _ _ => none

def actParen : Char → Nat → Option Nat := fun c n =>
  if c == '(' then some (n + 1) else if c == ')' then (if n != 0 then some (n - 1) else none) else none

def actBounded (start : Option Char) (close : Char) : Char → Int → Option Int := fun c n =>
  if start == some c then some (n + 1) else if c == close then (if n != 0 then some (n - 1) else none) else none

theorem isCharAt_getElem? (s : Str) (j : Nat) (c : Char) : isCharAt s j c = (s[j]? == some c) := by
  unfold isCharAt; cases s[j]? <;> simp

theorem angleLoop_gLoop (s : Str) : ∀ fuel i acc,
    angleLoop s fuel i acc =
      match gLoop s angleBreaks (actNone (σ := Unit)) fuel i () acc with
      | .ok (j, _, a) => .ok (j, a)
      | .error e => .error e := by
  intro fuel
  induction fuel with
  | zero => intro i acc; rfl
  | succ f ih =>
    intro i acc
    rw [angleLoop, gLoop]
    cases collectUntilOneOfVerified s i angleBreaks with
    | error e => rfl
    | ok p =>
      obtain ⟨j, part⟩ := p
      simp only
      cases hb : isCharAt s j BS with
      | true =>
        simp only [Bool.not_true, Bool.false_eq_true, ↓reduceIte]
        cases bsNewIndex s j with
        | error e => rfl
        | ok k => simp only; rw [ih]
      | false =>
        simp only [Bool.not_false, ↓reduceIte, actNone]
        cases s[j]? <;> rfl

theorem nonAngleLoop_gLoop (s : Str) : ∀ fuel i n acc,
    nonAngleLoop s fuel i n acc = gLoop s nonAngleBreaks actParen fuel i n acc := by
  intro fuel
  induction fuel with
  | zero => intro i n acc; rfl
  | succ f ih =>
    intro i n acc
    rw [nonAngleLoop, gLoop]
    cases collectUntilOneOfVerified s i nonAngleBreaks with
    | error e => rfl
    | ok p =>
      obtain ⟨j, part⟩ := p
      simp only
      cases hb : isCharAt s j BS with
      | true =>
        simp only [↓reduceIte]
        cases bsNewIndex s j with
        | error e => rfl
        | ok k => simp only; rw [ih]
      | false =>
        simp only [Bool.false_eq_true, ↓reduceIte]
        rw [isCharAt_getElem?, isCharAt_getElem?]
        cases hc : s[j]? with
        | none => simp
        | some c =>
          simp only [actParen]
          by_cases h1 : (c == '(') = true
          · have : c = '(' := by simpa using h1
            subst this
            simp only [beq_self_eq_true, ↓reduceIte]
            rw [ih]
          · have h1' : (some c == some '(') = false := by simpa using h1
            simp only [h1', Bool.false_eq_true, ↓reduceIte, h1]
            by_cases h2 : (c == ')') = true
            · have : c = ')' := by simpa using h2
              subst this
              simp only [beq_self_eq_true, ↓reduceIte]
              by_cases hn : (n != 0) = true
              · simp only [hn, ↓reduceIte]; rw [ih]
              · simp only [hn, Bool.false_eq_true, ↓reduceIte]
            · have h2' : (some c == some ')') = false := by simpa using h2
              simp only [h2', Bool.false_eq_true, ↓reduceIte, h2]

theorem labelLoop_gLoop (s : Str) : ∀ fuel i acc,
    labelLoop s fuel i acc =
      match gLoop s labelBreaks (actNone (σ := Unit)) fuel i () acc with
      | .ok (j, _, a) => .ok (if isCharAt s j '[' then none else some (j, a))
      | .error e => .error e := by
  intro fuel
  induction fuel with
  | zero => intro i acc; rfl
  | succ f ih =>
    intro i acc
    rw [labelLoop, gLoop]
    cases collectUntilOneOfVerified s i labelBreaks with
    | error e => rfl
    | ok p =>
      obtain ⟨j, part⟩ := p
      simp only
      cases hb : isCharAt s j BS with
      | true =>
        simp only [↓reduceIte]
        cases bsNewIndex s j with
        | error e => rfl
        | ok k => simp only; rw [ih]
      | false =>
        simp only [Bool.false_eq_true, ↓reduceIte, actNone]
        cases hc : s[j]? with
        | none => simp only; split <;> rfl
        | some c => simp only; split <;> rfl

theorem boundedBreaks_mem (start : Option Char) (close c : Char)
    (h : (boundedBreaks start close).contains c = true) : c = BS ∨ c = close ∨ start = some c := by
  unfold boundedBreaks at h
  cases start with
  | none => simp at h; rcases h with h | h <;> simp [h]
  | some st => simp at h; rcases h with h | h | h <;> simp [h]

theorem boundedBreaks_bs (start : Option Char) (close : Char) : (boundedBreaks start close).contains BS = true := by
  unfold boundedBreaks; cases start <;> simp

theorem drop_stop_of_brk (breaks s : Str) (i : Nat) :
    ∀ c r, s.drop (i + brk breaks (s.drop i)) = c :: r → breaks.contains c = true := by
  intro c r h
  rw [← List.drop_drop] at h
  exact brk_stop breaks (s.drop i) c r h

/-- the three things `__handle_next_extract_bounded_string_item` can do, by the character at `next` -/
def itemThen (s : Str) (breaks : Str) (ni : Nat) (nest : Int) (acc : Str) : Except LErr (Nat × Int × Str) :=
  match collectUntilOneOfVerified s ni breaks with
  | .error e => .error e
  | .ok (nexter, data) => .ok (nexter, nest, acc ++ data)

theorem boundedItem_bs (s : Str) (next : Nat) (acc : Str) (start : Option Char) (nest : Int) (close : Char) (breaks : Str)
    (hlt : next < s.length) (hc : s[next] = BS) :
    boundedItem s next acc start nest close breaks =
      itemThen s breaks (next + bsStep (s.drop (next + 1))) nest (acc ++ slice s next (next + bsStep (s.drop (next + 1)))) := by
  unfold boundedItem itemThen
  simp only [isCharAt_lt hlt, hc, beq_self_eq_true, ↓reduceIte, bsNewIndex_eq]
  cases (collectUntilOneOfVerified s (next + bsStep (s.drop (next + 1))) breaks) <;> rfl

theorem boundedItem_start (s : Str) (next : Nat) (acc : Str) (c : Char) (nest : Int) (close : Char) (breaks : Str)
    (hlt : next < s.length) (hc : s[next] = c) (hbs : c ≠ BS) :
    boundedItem s next acc (some c) nest close breaks = itemThen s breaks (next + 1) (nest + 1) (acc ++ [c]) := by
  unfold boundedItem itemThen
  have : (c == BS) = false := by simpa using hbs
  simp only [isCharAt_lt hlt, hc, this, Bool.false_eq_true, ↓reduceIte, beq_self_eq_true]
  cases (collectUntilOneOfVerified s (next + 1) breaks) <;> rfl

theorem boundedItem_close (s : Str) (next : Nat) (acc : Str) (start : Option Char) (nest : Int) (c : Char) (breaks : Str)
    (hlt : next < s.length) (hc : s[next] = c) (hbs : c ≠ BS) (hst : start ≠ some c) :
    boundedItem s next acc start nest c breaks = itemThen s breaks (next + 1) (nest - 1) (acc ++ [c]) := by
  unfold boundedItem itemThen
  have : (c == BS) = false := by simpa using hbs
  simp only [isCharAt_lt hlt, hc, this, Bool.false_eq_true, ↓reduceIte, beq_self_eq_true]
  cases start with
  | none => simp only; cases (collectUntilOneOfVerified s (next + 1) breaks) <;> rfl
  | some st =>
    have : (c == st) = false := by
      cases h : c == st
      · rfl
      · rw [beq_iff_eq] at h; subst h; exact absurd rfl hst
    simp only [this, Bool.false_eq_true, ↓reduceIte]
    cases (collectUntilOneOfVerified s (next + 1) breaks) <;> rfl

theorem boundedLoop_gLoop (s : Str) (start : Option Char) (close : Char)
    (h1 : close ≠ BS) (h3 : start ≠ some close) :
    ∀ fuel next nest acc, next ≤ s.length →
      (∀ c r, s.drop next = c :: r → (boundedBreaks start close).contains c = true) →
      boundedLoop s start close (boundedBreaks start close) fuel next nest acc
        = gLoop s (boundedBreaks start close) (actBounded start close) fuel next nest acc := by
  intro fuel
  induction fuel with
  | zero => intro next nest acc _ _; rfl
  | succ f ih =>
    intro next nest acc hle hstop
    rw [boundedLoop, gLoop, collectUntilOneOfVerified_eq s next _ hle]
    by_cases hlt : next < s.length
    · have hdrop := List.drop_eq_getElem_cons hlt
      have hbc := hstop _ _ hdrop
      have hb0 : brk (boundedBreaks start close) (s.drop next) = 0 := by rw [hdrop, brk_cons, hbc]; rfl
      simp only [hlt, ↓reduceIte, charAtL_lt hlt, hb0, Nat.add_zero, List.take_zero, List.append_nil]
      rw [isCharAt_lt hlt, List.getElem?_eq_getElem hlt]
      -- what both sides do after a step to `(ni, nest', acc')`
      have cont : ∀ ni nest' acc', ni ≤ s.length →
          (match itemThen s (boundedBreaks start close) ni nest' acc' with
            | .error e => .error e
            | .ok (n2, nest2, acc2) => boundedLoop s start close (boundedBreaks start close) f n2 nest2 acc2)
          = gLoop s (boundedBreaks start close) (actBounded start close) f ni nest' acc' := by
        intro ni nest' acc' hni
        unfold itemThen
        rw [collectUntilOneOfVerified_eq s ni _ hni]
        simp only
        have hk := brk_le (boundedBreaks start close) (s.drop ni)
        simp only [List.length_drop] at hk
        rw [ih _ _ _ (by omega) (drop_stop_of_brk _ s ni), ← gLoop_collect _ _ _ _ _ _ _ hni]
      by_cases hbs : (s[next] == BS) = true
      · have hcb : s[next] = BS := by simpa using hbs
        have hne : (s[next] != close) = true := by rw [hcb]; simp; exact fun h => h1 h.symm
        simp only [hne, Bool.true_or, ↓reduceIte, hbs]
        rw [boundedItem_bs s next acc start nest close _ hlt hcb, bsNewIndex_eq]
        have hble := bsStep_le (s.drop (next + 1))
        simp only [List.length_drop] at hble
        exact cont _ _ _ (by omega)
      · simp only [hbs, Bool.false_eq_true, ↓reduceIte]
        have hbs' : s[next] ≠ BS := by simpa using hbs
        rcases boundedBreaks_mem start close s[next] hbc with hx | hx | hx
        · exact absurd hx hbs'
        · -- the close character
          have hst : (start == some s[next]) = false := by
            cases hs : start == some s[next]
            · rfl
            · rw [beq_iff_eq] at hs; rw [hx] at hs; exact absurd hs h3
          simp only [actBounded, hst, Bool.false_eq_true, ↓reduceIte]
          simp only [hx, beq_self_eq_true, bne_self_eq_false, Bool.false_or, ↓reduceIte]
          by_cases hn : (nest != 0) = true
          · simp only [hn, ↓reduceIte]
            rw [boundedItem_close s next acc start nest close _ hlt hx (by rw [← hx]; exact hbs') h3]
            exact cont _ _ _ (by omega)
          · simp only [hn, Bool.false_eq_true, ↓reduceIte]
        · -- the start character
          subst hx
          have hcc : (s[next] != close) = true := by
            simp only [bne_iff_ne, ne_eq]
            intro h; rw [h] at h3; exact h3 rfl
          simp only [hcc, Bool.true_or, ↓reduceIte, actBounded, beq_self_eq_true]
          rw [boundedItem_start s next acc s[next] nest close _ hlt rfl hbs']
          exact cont _ _ _ (by omega)
    · have hge : s.length ≤ next := by omega
      have hnil : s.drop next = [] := List.drop_eq_nil_of_le hge
      simp only [hlt, ↓reduceIte, hnil, brk_nil, Nat.add_zero, List.take_nil, List.append_nil]
      rw [isCharAt_ge hge, List.getElem?_eq_none hge]
      simp

/-! ## closed forms of the four scanners -/

/-- characters of an angle destination after `<`, up to (not including) the closing `>` or the end -/
def angleSpan (l : Str) : Nat := (gSpan angleBreaks (actNone (σ := Unit)) l ()).1
/-- (characters of a non-angle destination, parenthesis depth where it stopped) -/
def nonAngleSpan (l : Str) : Nat × Nat := gSpan nonAngleBreaks actParen l 0
/-- characters of a label after `[`, up to the first unescaped `[` / `]` or the end -/
def labelSpan (l : Str) : Nat := (gSpan labelBreaks (actNone (σ := Unit)) l ()).1
/-- (characters of a bounded string after the opening character, nesting where it stopped) -/
def boundedSpan (start : Option Char) (close : Char) (l : Str) : Nat × Int :=
  gSpan (boundedBreaks start close) (actBounded start close) l 0

theorem angleSpan_le (l : Str) : angleSpan l ≤ l.length := gSpan_le _ _ _ _
theorem nonAngleSpan_le (l : Str) : (nonAngleSpan l).1 ≤ l.length := gSpan_le _ _ _ _
theorem labelSpan_le (l : Str) : labelSpan l ≤ l.length := gSpan_le _ _ _ _
theorem boundedSpan_le (start : Option Char) (close : Char) (l : Str) : (boundedSpan start close l).1 ≤ l.length :=
  gSpan_le _ _ _ _

theorem parseAngleDest_eq (s : Str) (i : Nat) (h : i < s.length) :
    parseAngleDest s i =
      .ok (if isCharAt s (i + 1 + angleSpan (s.drop (i + 1))) '>'
           then (((i + 1 + angleSpan (s.drop (i + 1)) : Nat) : Int) + 1, (s.drop (i + 1)).take (angleSpan (s.drop (i + 1))))
           else (-1, [])) := by
  unfold parseAngleDest
  rw [angleLoop_gLoop, gLoop_eq s angleBreaks _ (by decide) _ _ _ _ (by omega) (by omega)]
  simp only [List.nil_append, angleSpan]
  split <;> rename_i hc <;> simp only [hc, ↓reduceIte, Bool.false_eq_true]

theorem parseNonAngleDest_eq (s : Str) (i : Nat) (h : i ≤ s.length) :
    parseNonAngleDest s i =
      .ok (if (nonAngleSpan (s.drop i)).2 != 0 then (-1, none)
           else (((i + (nonAngleSpan (s.drop i)).1 : Nat) : Int), some ((s.drop i).take (nonAngleSpan (s.drop i)).1))) := by
  unfold parseNonAngleDest
  rw [nonAngleLoop_gLoop, gLoop_eq s nonAngleBreaks _ (by decide) _ _ _ _ h (by omega)]
  simp only [List.nil_append, nonAngleSpan]
  split <;> rename_i hc <;> simp only [hc, ↓reduceIte, Bool.false_eq_true]

theorem labelLoop_eq (s : Str) (i : Nat) (h : i ≤ s.length) :
    labelLoop s (s.length + 1) i [] =
      .ok (if isCharAt s (i + labelSpan (s.drop i)) '[' then none
           else some (i + labelSpan (s.drop i), (s.drop i).take (labelSpan (s.drop i)))) := by
  rw [labelLoop_gLoop, gLoop_eq s labelBreaks _ (by decide) _ _ _ _ h (by omega)]
  simp only [List.nil_append, labelSpan]
  split <;> rename_i hc <;> simp only [hc, ↓reduceIte, Bool.false_eq_true]

theorem extractBoundedString_eq (s : Str) (i : Nat) (close : Char) (start : Option Char) (h : i ≤ s.length)
    (h1 : close ≠ BS) (h3 : start ≠ some close) :
    extractBoundedString s i close start =
      .ok (if isCharAt s (i + (boundedSpan start close (s.drop i)).1) close && (boundedSpan start close (s.drop i)).2 == 0
           then (i + (boundedSpan start close (s.drop i)).1 + 1, some ((s.drop i).take (boundedSpan start close (s.drop i)).1))
           else (i + (boundedSpan start close (s.drop i)).1, none)) := by
  unfold extractBoundedString
  simp only
  rw [collectUntilOneOfVerified_eq s i _ h]
  simp only
  have hk := brk_le (boundedBreaks start close) (s.drop i)
  simp only [List.length_drop] at hk
  rw [boundedLoop_gLoop s start close h1 h3 _ _ _ _ (by omega) (drop_stop_of_brk _ s i)]
  have := gLoop_collect s (boundedBreaks start close) (actBounded start close) (s.length + 1) i 0 [] h
  simp only [List.nil_append] at this
  rw [← this, gLoop_eq s _ _ (boundedBreaks_bs start close) _ _ _ _ h (by omega)]
  simp only [List.nil_append, boundedSpan]
  split <;> rename_i hc <;> simp only [hc, ↓reduceIte, Bool.false_eq_true]

/-! ## `handle_backslashes`, character references, `__encode_link_destination` -/

/-- the only errors that are real: `ValueError` from `chr`, and a surrogate the model cannot represent.
Never `IndexError`, `AssertionError`, or a loop that does not end. -/
def Safe {α : Type} (x : Except LErr α) : Prop := ∀ e, x = .error e → e = .value ∨ e = .surrogate

/-- "returns normally" -/
def ReturnsL {α : Type} (x : Except LErr α) : Prop := ∃ r, x = .ok r

theorem Safe.ok {α : Type} (a : α) : Safe (Except.ok a : Except LErr α) := by intro e h; cases h

theorem ReturnsL.safe {α : Type} {x : Except LErr α} (h : ReturnsL x) : Safe x := by
  obtain ⟨r, hr⟩ := h; rw [hr]; exact Safe.ok r

theorem collectWhileOneOfVerifiedL_eq (s : Str) (start : Nat) (cs : Str) (h : start ≤ s.length) :
    collectWhileOneOfVerifiedL s start cs = .ok (scanTo s cs.contains start, slice s start (scanTo s cs.contains start)) := by
  unfold collectWhileOneOfVerifiedL collectWhileOneOfVerified
  rw [collectWhileOneOf_eq]; simp only [h, ↓reduceIte]; rfl

theorem indexAnyOfFrom_some (cs : Str) : ∀ (l : Str) (k j : Nat), indexAnyOfFrom cs l k = some j →
    k ≤ j ∧ j < k + l.length ∧ ∃ c, l[j - k]? = some c ∧ cs.contains c = true := by
  intro l
  induction l with
  | nil => intro k j h; simp [indexAnyOfFrom] at h
  | cons c r ih =>
    intro k j h
    rw [indexAnyOfFrom] at h
    by_cases hc : cs.contains c = true
    · simp only [hc, ↓reduceIte, Option.some.injEq] at h
      subst h
      exact ⟨Nat.le_refl _, by simp, c, by simp, hc⟩
    · simp only [hc, Bool.false_eq_true, ↓reduceIte] at h
      obtain ⟨h1, h2, d, h3, h4⟩ := ih (k + 1) j h
      refine ⟨by omega, by simp only [List.length_cons]; omega, d, ?_, h4⟩
      have : j - k = (j - (k + 1)) + 1 := by omega
      rw [this, List.getElem?_cons_succ]; exact h3

theorem indexAnyOf_some {s cs : Str} {start j : Nat} (h : indexAnyOf s cs start = some j) :
    start ≤ j ∧ ∃ hlt : j < s.length, cs.contains s[j] = true := by
  unfold indexAnyOf at h
  obtain ⟨h1, h2, c, h3, h4⟩ := indexAnyOfFrom_some cs _ _ _ h
  rw [List.getElem?_drop] at h3
  have e : start + (j - start) = j := by omega
  rw [e] at h3
  have hlt : j < s.length := by
    by_cases hh : j < s.length
    · exact hh
    · rw [List.getElem?_eq_none (by omega)] at h3; cases h3
  refine ⟨h1, hlt, ?_⟩
  rw [List.getElem?_eq_getElem hlt] at h3
  injection h3 with h3; rw [h3]; exact h4

theorem handleInlineBackslash_ok (s : Str) (i : Nat) (sig : Bool) (h : i < s.length) :
    ∃ ni ns, handleInlineBackslash s i sig = .ok (ni, ns) ∧ i < ni ∧ ni ≤ s.length := by
  unfold handleInlineBackslash
  by_cases h1 : i + 1 ≥ s.length
  · simp only [h1, ↓reduceIte]; exact ⟨_, _, rfl, by omega, by omega⟩
  · simp only [h1, ↓reduceIte]
    rw [charAtL_lt (by omega)]
    simp only
    split
    · exact ⟨_, _, rfl, by omega, by omega⟩
    · split <;> exact ⟨_, _, rfl, by omega, by omega⟩

theorem pyChr_safe (n : Nat) : Safe (pyChr n) := by
  unfold pyChr
  intro e h
  split at h
  · injection h with h; exact Or.inl h.symm
  · split at h
    · injection h with h; exact Or.inr h.symm
    · cases h

/-- outcome of a character reference handler: it returns with an index strictly after `lo` and inside the string, or
fails with one of the two real errors -/
def RefOk (s : Str) (lo : Nat) (x : Except LErr (Str × Nat)) : Prop :=
  (∃ ns ni, x = .ok (ns, ni) ∧ lo < ni ∧ ni ≤ s.length) ∨ x = .error .value ∨ x = .error .surrogate

theorem namedRef_returns (s : Str) (j : Nat) (h : j ≤ s.length) (hj : 0 < j) :
    ∃ ns ni, namedRef s j = .ok (ns, ni) ∧ j - 1 < ni ∧ ni ≤ s.length := by
  unfold namedRef
  rw [collectWhileOneOf_eq]
  simp only [h, ↓reduceIte, liftE]
  have hle := scanTo_le s lettersDigits.contains j h
  have hge := scanTo_ge s lettersDigits.contains j
  split
  · exact ⟨_, _, rfl, by omega, by omega⟩
  · split
    · next hlt =>
      rw [charAtL_lt hlt]
      simp only
      split
      · split <;> exact ⟨_, _, rfl, by omega, by omega⟩
      · exact ⟨_, _, rfl, by omega, by omega⟩
    · exact ⟨_, _, rfl, by omega, by omega⟩

theorem namedRef_ok (s : Str) (j : Nat) (h : j ≤ s.length) (hj : 0 < j) : RefOk s (j - 1) (namedRef s j) :=
  Or.inl (namedRef_returns s j h hj)

theorem numericRefHex_eq (s : Str) (k : Nat) (h : k < s.length) :
    numericRefHex s k =
      .ok (['&', '#', s[k]] ++ slice s (k + 1) (scanTo s hexDigits.contains (k + 1)), scanTo s hexDigits.contains (k + 1),
        if 1 ≤ scanTo s hexDigits.contains (k + 1) - (k + 1) && scanTo s hexDigits.contains (k + 1) - (k + 1) ≤ 6
        then some (pyInt 16 (slice s (k + 1) (scanTo s hexDigits.contains (k + 1)))) else none) := by
  unfold numericRefHex
  rw [charAtL_lt h, collectWhileOneOfVerifiedL_eq s (k + 1) hexDigits (by omega)]

theorem numericRefDecimal_eq (s : Str) (k : Nat) (h : k ≤ s.length) :
    numericRefDecimal s k =
      .ok (['&', '#'] ++ slice s k (scanTo s digits.contains k), scanTo s digits.contains k,
        if 1 ≤ scanTo s digits.contains k - k && scanTo s digits.contains k - k ≤ 7
        then some (pyInt 10 (slice s k (scanTo s digits.contains k))) else none) := by
  unfold numericRefDecimal
  rw [collectWhileOneOfVerifiedL_eq s k digits h]

theorem numericFinish_ok (s : Str) (newString : Str) (newIndex lo : Nat) (tr : Option Nat) (h1 : lo < newIndex)
    (h2 : newIndex ≤ s.length) : RefOk s lo (numericFinish s newString newIndex tr) := by
  unfold numericFinish
  cases tr with
  | none => exact Or.inl ⟨_, _, rfl, h1, h2⟩
  | some n =>
    simp only
    split
    · next hlt =>
      rw [charAtL_lt hlt]
      simp only
      split
      · split
        · exact Or.inl ⟨_, _, rfl, by omega, by omega⟩
        · have hs := pyChr_safe n
          cases hp : pyChr n with
          | ok ch => exact Or.inl ⟨_, _, rfl, by omega, by omega⟩
          | error e =>
            rcases hs e hp with h | h
            · subst h; exact Or.inr (Or.inl rfl)
            · subst h; exact Or.inr (Or.inr rfl)
      · exact Or.inl ⟨_, _, rfl, h1, h2⟩
    · exact Or.inl ⟨_, _, rfl, h1, h2⟩

theorem numericRef_ok (s : Str) (j : Nat) (h : j < s.length) : RefOk s j (numericRef s j) := by
  unfold numericRef
  simp only
  by_cases hk : j + 1 < s.length
  · simp only [hk, ↓reduceIte, charAtL_lt hk]
    by_cases hx : ['x', 'X'].contains s[j + 1] = true
    · simp only [hx, ↓reduceIte, numericRefHex_eq s (j + 1) hk, numericRefOf]
      have hle := scanTo_le s hexDigits.contains (j + 1 + 1) (by omega)
      have hge := scanTo_ge s hexDigits.contains (j + 1 + 1)
      exact numericFinish_ok s _ _ j _ (by omega) hle
    · simp only [hx, Bool.false_eq_true, ↓reduceIte, numericRefDecimal_eq s (j + 1) (by omega), numericRefOf]
      have hle := scanTo_le s digits.contains (j + 1) (by omega)
      have hge := scanTo_ge s digits.contains (j + 1)
      exact numericFinish_ok s _ _ j _ (by omega) hle
  · simp only [hk, ↓reduceIte, Bool.false_eq_true, numericRefDecimal_eq s (j + 1) (by omega), numericRefOf]
    have hle := scanTo_le s digits.contains (j + 1) (by omega)
    have hge := scanTo_ge s digits.contains (j + 1)
    exact numericFinish_ok s _ _ j _ (by omega) hle

theorem handleCharacterReference_ok (s : Str) (i : Nat) (h : i < s.length) :
    RefOk s i (handleCharacterReference s i) := by
  unfold handleCharacterReference
  simp only
  split
  · next hlt =>
    rw [charAtL_lt hlt]
    simp only
    split
    · obtain h1 | h1 := numericRef_ok s (i + 1) hlt
      · obtain ⟨ns, ni, e, h2, h3⟩ := h1
        exact Or.inl ⟨ns, ni, e, by omega, h3⟩
      · exact Or.inr h1
    · exact namedRef_ok s (i + 1) (by omega) (by omega)
  · exact namedRef_ok s (i + 1) (by omega) (by omega)

/-- `handle_backslashes` never raises `IndexError` / `AssertionError` and its loop ends -/
theorem hbLoop_safe (s : Str) : ∀ fuel start acc, start ≤ s.length → s.length - start < fuel →
    Safe (hbLoop s fuel start acc) := by
  intro fuel
  induction fuel with
  | zero => intro start acc _ h; omega
  | succ f ih =>
    intro start acc hle hf
    rw [hbLoop]
    cases hi : indexAnyOf s [BS, '&'] start with
    | none => exact Safe.ok _
    | some next =>
      obtain ⟨h1, hlt, hmem⟩ := indexAnyOf_some hi
      simp only [charAtL_lt hlt]
      by_cases hb : (s[next] == BS) = true
      · simp only [hb, ↓reduceIte]
        obtain ⟨ni, ns, e, h2, h3⟩ := handleInlineBackslash_ok s next false hlt
        rw [e]
        exact ih _ _ h3 (by omega)
      · simp only [hb, Bool.false_eq_true, ↓reduceIte]
        have ha : (s[next] == '&') = true := by
          simp only [List.contains_cons, List.contains_nil, Bool.or_false, Bool.or_eq_true] at hmem
          rcases hmem with h | h
          · exact absurd h hb
          · exact h
        simp only [ha, ↓reduceIte]
        rcases handleCharacterReference_ok s next hlt with ⟨ns, ni, e, h2, h3⟩ | e | e
        · rw [e]; exact ih _ _ h3 (by omega)
        · rw [e]; intro e' he; injection he with he; exact Or.inl he.symm
        · rw [e]; intro e' he; injection he with he; exact Or.inr he.symm

theorem handleBackslashes_safe (s : Str) : Safe (handleBackslashes s) :=
  hbLoop_safe s _ 0 [] (Nat.zero_le _) (by omega)

/-- the only failures of `handle_backslashes` come from a numeric character reference: without `&#` it returns -/
theorem hbLoop_returns (s : Str) (hno : ∀ i, i + 1 < s.length → ¬ (s[i]? = some '&' ∧ s[i + 1]? = some '#')) :
    ∀ fuel start acc, start ≤ s.length → s.length - start < fuel → ReturnsL (hbLoop s fuel start acc) := by
  intro fuel
  induction fuel with
  | zero => intro start acc _ h; omega
  | succ f ih =>
    intro start acc hle hf
    rw [hbLoop]
    cases hi : indexAnyOf s [BS, '&'] start with
    | none => exact ⟨_, rfl⟩
    | some next =>
      obtain ⟨h1, hlt, hmem⟩ := indexAnyOf_some hi
      simp only [charAtL_lt hlt]
      by_cases hb : (s[next] == BS) = true
      · simp only [hb, ↓reduceIte]
        obtain ⟨ni, ns, e, h2, h3⟩ := handleInlineBackslash_ok s next false hlt
        rw [e]
        exact ih _ _ h3 (by omega)
      · simp only [hb, Bool.false_eq_true, ↓reduceIte]
        have ha : (s[next] == '&') = true := by
          simp only [List.contains_cons, List.contains_nil, Bool.or_false, Bool.or_eq_true] at hmem
          rcases hmem with h | h
          · exact absurd h hb
          · exact h
        simp only [ha, ↓reduceIte]
        have hnamed : handleCharacterReference s next = namedRef s (next + 1) := by
          unfold handleCharacterReference
          simp only
          split
          · next hlt2 =>
            rw [charAtL_lt hlt2]
            simp only
            split
            · next hh =>
              exfalso
              apply hno next hlt2
              rw [List.getElem?_eq_getElem hlt, List.getElem?_eq_getElem hlt2]
              simp only [beq_iff_eq] at ha hh
              rw [ha, hh]; exact ⟨rfl, rfl⟩
            · rfl
          · rfl
        rw [hnamed]
        obtain ⟨ns, ni, e, h2, h3⟩ := namedRef_returns s (next + 1) (by omega) (by omega)
        rw [e]; exact ih _ _ h3 (by omega)

theorem slice_length (s : Str) (a k : Nat) : (slice s a (a + k)).length = min k (s.length - a) := by
  rw [slice_drop_take]; simp

/-- `__encode_link_destination` returns for every string: its `assert` cannot fire and the `%XX` look-ahead stays inside -/
theorem encLoop_returns (s : Str) : ∀ fuel pi acc, pi ≤ s.length →
    (∀ c r, s.drop pi = c :: r → specialDest.contains c = true) → s.length - pi < fuel →
    ReturnsL (encLoop s fuel pi acc) := by
  intro fuel
  induction fuel with
  | zero => intro pi acc _ _ h; omega
  | succ f ih =>
    intro pi acc hle hstop hf
    rw [encLoop]
    by_cases hlt : pi < s.length
    · simp only [hlt, ↓reduceIte, charAtL_lt hlt]
      have hmem := hstop _ _ (List.drop_eq_getElem_cons hlt)
      have cont : ∀ pi' acc', pi < pi' → pi' ≤ s.length →
          ReturnsL (match collectUntilOneOfVerified s pi' specialDest with
            | .error e => .error e
            | .ok (pi2, before) => encLoop s f pi2 (acc' ++ quote before)) := by
        intro pi' acc' h1 h2
        rw [collectUntilOneOfVerified_eq s pi' _ h2]
        simp only
        have hk := brk_le specialDest (s.drop pi')
        simp only [List.length_drop] at hk
        exact ih _ _ (by omega) (drop_stop_of_brk _ s pi') (by omega)
      by_cases hp : (s[pi] == '%') = true
      · simp only [hp, ↓reduceIte]
        have hl := slice_length s (pi + 1) 2
        generalize slice s (pi + 1) (pi + 1 + 2) = g at hl
        rcases g with _ | ⟨a, _ | ⟨b, _ | ⟨c, r⟩⟩⟩
        · exact cont _ _ (by omega) (by omega)
        · exact cont _ _ (by omega) (by omega)
        · simp only [List.length_cons, List.length_nil] at hl
          by_cases hx : pyIntHex2Ok a b = true
          · simp only [hx, ↓reduceIte]; exact cont _ _ (by omega) (by omega)
          · simp only [hx, Bool.false_eq_true, ↓reduceIte]; exact cont _ _ (by omega) (by omega)
        · exact cont _ _ (by omega) (by omega)
      · simp only [hp, Bool.false_eq_true, ↓reduceIte]
        have ha : (s[pi] == '&') = true := by
          simp only [specialDest, List.contains_cons, List.contains_nil, Bool.or_false, Bool.or_eq_true] at hmem
          rcases hmem with h | h
          · exact absurd h hp
          · exact h
        simp only [ha, ↓reduceIte]
        exact cont _ _ (by omega) (by omega)
    · simp only [hlt, ↓reduceIte]; exact ⟨_, rfl⟩

theorem encodeLinkDestination_returns (s : Str) : ReturnsL (encodeLinkDestination s) := by
  unfold encodeLinkDestination
  rw [collectUntilOneOfVerified_eq s 0 _ (Nat.zero_le _)]
  simp only
  have hk := brk_le specialDest (s.drop 0)
  simp only [List.length_drop] at hk
  exact encLoop_returns s _ _ _ (by omega) (drop_stop_of_brk _ s 0) (by omega)

/-! ## `__parse_link_destination` -/

theorem encodeLinkDestination_nil : encodeLinkDestination [] = .ok [] := by
  unfold encodeLinkDestination
  rw [collectUntilOneOfVerified_eq [] 0 _ (Nat.le_refl _)]
  rfl

theorem pySlice_nat (s : Str) (a b : Nat) (ha : a ≤ s.length) (hb : b ≤ s.length) : pySlice s a b = slice s a b := by
  unfold pySlice
  simp only
  have h1 : ¬ ((a : Int) < 0) := by omega
  have h2 : ¬ ((b : Int) < 0) := by omega
  simp only [h1, h2, ↓reduceIte]
  have e1 : (min (a : Int) (s.length : Int)).toNat = a := by omega
  have e2 : (min (b : Int) (s.length : Int)).toNat = b := by omega
  rw [e1, e2]

theorem parseLinkDestination_eq (s : Str) (i : Nat) (h : i ≤ s.length) :
    parseLinkDestination s i =
      if isCharAt s i '<' then
        (if isCharAt s (i + 1 + angleSpan (s.drop (i + 1))) '>' then
          destFinish s i (((i + 1 + angleSpan (s.drop (i + 1)) : Nat) : Int) + 1)
            ((s.drop (i + 1)).take (angleSpan (s.drop (i + 1)))) true
         else destFinish s i (-1) [] true)
      else
        (if (nonAngleSpan (s.drop i)).2 != 0 then .ok .fail
         else if ((s.drop i).take (nonAngleSpan (s.drop i)).1).isEmpty then .ok .fail
         else destFinish s i ((i + (nonAngleSpan (s.drop i)).1 : Nat) : Int)
            ((s.drop i).take (nonAngleSpan (s.drop i)).1) false) := by
  unfold parseLinkDestination
  simp only
  by_cases ha : isCharAt s i '<' = true
  · have hlt := isCharAt_true_lt ha
    simp only [ha, ↓reduceIte, parseAngleDest_eq s i hlt]
    split <;> rfl
  · simp only [ha, Bool.false_eq_true, ↓reduceIte, parseNonAngleDest_eq s i h]
    by_cases hn : ((nonAngleSpan (s.drop i)).2 != 0) = true
    · simp only [hn, ↓reduceIte]
    · simp only [hn, Bool.false_eq_true, ↓reduceIte]
      by_cases he : ((s.drop i).take (nonAngleSpan (s.drop i)).1).isEmpty = true
      · simp only [he, ↓reduceIte]
      · have he' : ((s.drop i).take (nonAngleSpan (s.drop i)).1).isEmpty = false := by simpa using he
        simp only [he', Bool.false_eq_true, ↓reduceIte]

theorem destFinish_spec (s : Str) (i : Nat) (ni : Int) (ex : Str) (angle : Bool) :
    Safe (destFinish s i ni ex angle) ∧
    ∀ d, destFinish s i ni ex angle = .ok d →
      d = .fail ∨ (∃ enc, d = ⟨some enc, some ex, ni, some (pySlice s i ni), some angle⟩ ∧ (ni ≠ -1 → ex.contains NL = false) ∧
        (ex = [] → enc = [])) := by
  unfold destFinish
  by_cases h1 : (ni != -1 && ex.contains NL) = true
  · simp only [h1, ↓reduceIte]
    exact ⟨Safe.ok _, fun d hd => Or.inl (by injection hd with hd; exact hd.symm)⟩
  · simp only [h1, Bool.false_eq_true, ↓reduceIte]
    have hnl : ni ≠ -1 → ex.contains NL = false := by
      intro hne
      simp only [Bool.and_eq_true, bne_iff_ne, ne_eq, not_and, Bool.not_eq_true] at h1
      exact h1 hne
    have hsafe : Safe (if (ni != -1 && !ex.isEmpty) = true then handleBackslashes ex else .ok ex) := by
      split
      · exact handleBackslashes_safe ex
      · exact Safe.ok _
    cases hb : (if (ni != -1 && !ex.isEmpty) = true then handleBackslashes ex else .ok ex) with
    | error e =>
      simp only
      refine ⟨?_, fun d hd => by cases hd⟩
      intro e' he'; injection he' with he'; subst he'; exact hsafe e hb
    | ok ex2 =>
      simp only
      obtain ⟨enc, henc⟩ := encodeLinkDestination_returns ex2
      rw [henc]
      simp only
      refine ⟨Safe.ok _, fun d hd => Or.inr ⟨enc, ?_, hnl, ?_⟩⟩
      · injection hd with hd; exact hd.symm
      · intro he; subst he
        simp only [List.isEmpty_nil, Bool.not_true, Bool.and_false, Bool.false_eq_true, ↓reduceIte] at hb
        injection hb with hb; subst hb
        rw [encodeLinkDestination_nil] at henc; injection henc with henc; exact henc.symm

theorem slice_bracket (s : Str) (i k : Nat) (o c : Char) (h1 : isCharAt s i o = true) (h2 : isCharAt s (i + 1 + k) c = true) :
    slice s i (i + 1 + k + 1) = o :: (s.drop (i + 1)).take k ++ [c] := by
  have hl1 := isCharAt_true_lt h1
  have hl2 := isCharAt_true_lt h2
  rw [isCharAt_lt hl1] at h1
  rw [isCharAt_lt hl2] at h2
  simp only [beq_iff_eq] at h1 h2
  rw [show i + 1 + k + 1 = i + (k + 2) by omega, slice_drop_take, List.drop_eq_getElem_cons hl1, h1]
  rw [List.take_succ_cons, ← take_take_drop _ k 1, List.drop_drop, List.drop_eq_getElem_cons hl2, h2]
  simp

theorem slice_angle (s : Str) (i k : Nat) (h1 : isCharAt s i '<' = true) (h2 : isCharAt s (i + 1 + k) '>' = true) :
    slice s i (i + 1 + k + 1) = '<' :: (s.drop (i + 1)).take k ++ ['>'] := slice_bracket s i k '<' '>' h1 h2

/-- what `__parse_link_destination` returns: never an index / assertion / fuel error; and one of the failure tuple, the
"angle start without end" tuple (index `-1`), or a destination that ends at `ni` with `i < ni ≤ len`, whose stored raw text
is the source slice and reassembles from the pre-escape text and the angle flag. -/
theorem parseLinkDestination_spec (s : Str) (i : Nat) (h : i ≤ s.length) :
    Safe (parseLinkDestination s i) ∧
    ∀ d, parseLinkDestination s i = .ok d →
      d = .fail ∨
      (d.newIndex = -1 ∧ d.angle = some true ∧ d.exLink = some [] ∧ d.preLink = some []) ∨
      (∃ (ni : Nat) (pre enc : Str),
        d = ⟨some enc, some pre, (ni : Int), some (slice s i ni), some (isCharAt s i '<')⟩ ∧ i < ni ∧ ni ≤ s.length ∧
        slice s i ni = (if isCharAt s i '<' then '<' :: pre ++ ['>'] else pre) ∧ pre.contains NL = false ∧
        (isCharAt s i '<' = false → pre ≠ []) ∧ (pre = [] → enc = [])) := by
  rw [parseLinkDestination_eq s i h]
  by_cases ha : isCharAt s i '<' = true
  · have hlt := isCharAt_true_lt ha
    simp only [ha, ↓reduceIte]
    generalize hk : angleSpan (s.drop (i + 1)) = k
    have hkle : k ≤ s.length - (i + 1) := by
      have := angleSpan_le (s.drop (i + 1)); rw [hk] at this; simpa using this
    by_cases hc : isCharAt s (i + 1 + k) '>' = true
    · have hl2 := isCharAt_true_lt hc
      simp only [hc, ↓reduceIte]
      obtain ⟨hs, hd⟩ := destFinish_spec s i (((i + 1 + k : Nat) : Int) + 1) ((s.drop (i + 1)).take k) true
      refine ⟨hs, fun d hdd => ?_⟩
      rcases hd d hdd with h1 | ⟨enc, h1, h2, h5⟩
      · exact Or.inl h1
      · refine Or.inr (Or.inr ⟨i + 1 + k + 1, _, enc, ?_, by omega, by omega, ?_, h2 (by omega), fun hf => (by cases hf), h5⟩)
        · rw [h1, show (((i + 1 + k : Nat) : Int) + 1) = ((i + 1 + k + 1 : Nat) : Int) by omega,
            pySlice_nat s i _ h (by omega)]
        · exact slice_angle s i k ha hc
    · simp only [hc, Bool.false_eq_true, ↓reduceIte]
      obtain ⟨hs, hd⟩ := destFinish_spec s i (-1) [] true
      refine ⟨hs, fun d hdd => ?_⟩
      rcases hd d hdd with h1 | ⟨enc, h1, _, _⟩
      · exact Or.inl h1
      · right; left
        have henc : enc = [] := by
          unfold destFinish at hdd
          simp only [bne_self_eq_false, Bool.false_and, Bool.false_eq_true, ↓reduceIte, encodeLinkDestination_nil] at hdd
          rw [h1] at hdd
          injection hdd with hdd; injection hdd with h3 _; injection h3 with h3; exact h3.symm
        rw [h1, henc]; exact ⟨rfl, rfl, rfl, rfl⟩
  · have ha' : isCharAt s i '<' = false := by simpa using ha
    simp only [ha', Bool.false_eq_true, ↓reduceIte]
    generalize hk : (nonAngleSpan (s.drop i)).1 = k
    have hkle : k ≤ s.length - i := by
      have := nonAngleSpan_le (s.drop i); rw [hk] at this; simpa using this
    by_cases hn : ((nonAngleSpan (s.drop i)).2 != 0) = true
    · simp only [hn, ↓reduceIte]
      exact ⟨Safe.ok _, fun d hd => Or.inl (by injection hd with hd; exact hd.symm)⟩
    · simp only [hn, Bool.false_eq_true, ↓reduceIte]
      by_cases he : ((s.drop i).take k).isEmpty = true
      · simp only [he, ↓reduceIte]
        exact ⟨Safe.ok _, fun d hd => Or.inl (by injection hd with hd; exact hd.symm)⟩
      · simp only [he, Bool.false_eq_true, ↓reduceIte]
        obtain ⟨hs, hd⟩ := destFinish_spec s i ((i + k : Nat) : Int) ((s.drop i).take k) false
        refine ⟨hs, fun d hdd => ?_⟩
        rcases hd d hdd with h1 | ⟨enc, h1, h2, h5⟩
        · exact Or.inl h1
        · have hne : (s.drop i).take k ≠ [] := by
            intro h0; rw [h0] at he; exact he rfl
          have hkpos : 0 < k := by
            cases k with
            | zero => simp at hne
            | succ k => omega
          refine Or.inr (Or.inr ⟨i + k, _, enc, ?_, by omega, by omega, ?_, h2 (by omega), fun _ => hne, h5⟩)
          · rw [h1, pySlice_nat s i _ h (by omega), slice_drop_take]
          · exact slice_drop_take s i k

/-! ## where a scan stops -/

/-- a scan stops before the end only at a break character (not a backslash) on which `act` says stop -/
theorem gSpan_stop_aux {σ : Type} (breaks : Str) (act : Char → σ → Option σ) (hb : breaks.contains BS = true) :
    ∀ k (l : Str), l.length ≤ k → ∀ n c r, l.drop (gSpan breaks act l n).1 = c :: r →
      c ≠ BS ∧ breaks.contains c = true ∧ act c (gSpan breaks act l n).2 = none := by
  intro k
  induction k with
  | zero =>
    intro l hl n c r h
    cases l with
    | nil => simp [gSpan_nil] at h
    | cons c r => simp at hl
  | succ k ih =>
    intro l hl n c r h
    cases l with
    | nil => simp [gSpan_nil] at h
    | cons x t =>
      simp only [List.length_cons] at hl
      rw [gSpan_cons] at h ⊢
      by_cases hx : (x == BS) = true
      · simp only [hx, ↓reduceIte] at h ⊢
        cases t with
        | nil => simp at h
        | cons d r' =>
          simp only [List.length_cons] at hl
          simp only at h ⊢
          by_cases hd : (d == NL && breaks.contains NL) = true
          · simp only [hd, ↓reduceIte] at h ⊢
            simp only [Bool.and_eq_true, beq_iff_eq] at hd
            cases hact : act NL n with
            | none =>
              simp only [hact] at h ⊢
              simp only [List.drop_succ_cons, List.drop_zero, List.cons.injEq] at h
              rw [← h.1, hd.1]
              exact ⟨by decide, hd.2, hact⟩
            | some n' =>
              simp only [hact] at h ⊢
              simp only [List.drop_succ_cons] at h
              exact ih r' (by omega) n' c r h
          · simp only [hd, Bool.false_eq_true, ↓reduceIte] at h ⊢
            simp only [List.drop_succ_cons] at h
            exact ih r' (by omega) n c r h
      · simp only [hx, Bool.false_eq_true, ↓reduceIte] at h ⊢
        by_cases hbx : breaks.contains x = true
        · simp only [hbx, ↓reduceIte] at h ⊢
          cases hact : act x n with
          | none =>
            simp only [hact] at h ⊢
            simp only [List.drop_zero, List.cons.injEq] at h
            rw [← h.1]
            exact ⟨by simpa using hx, hbx, hact⟩
          | some n' =>
            simp only [hact] at h ⊢
            simp only [List.drop_succ_cons] at h
            exact ih t (by omega) n' c r h
        · simp only [hbx, Bool.false_eq_true, ↓reduceIte] at h ⊢
          simp only [List.drop_succ_cons] at h
          exact ih t (by omega) n c r h

theorem gSpan_stop {σ : Type} (breaks : Str) (act : Char → σ → Option σ) (hb : breaks.contains BS = true)
    (l : Str) (n : σ) (c : Char) (r : Str) (h : l.drop (gSpan breaks act l n).1 = c :: r) :
    c ≠ BS ∧ breaks.contains c = true ∧ act c (gSpan breaks act l n).2 = none :=
  gSpan_stop_aux breaks act hb l.length l (Nat.le_refl _) n c r h

theorem actBounded_none (st : Option Char) (c x : Char) (m : Int) (h : actBounded st c x m = none)
    (hx : (boundedBreaks st c).contains x = true) (hbs : x ≠ BS) : x = c ∧ m = 0 := by
  unfold actBounded at h
  by_cases h1 : (st == some x) = true
  · simp [h1] at h
  · simp only [h1, Bool.false_eq_true, ↓reduceIte] at h
    by_cases h2 : (x == c) = true
    · simp only [h2, ↓reduceIte] at h
      by_cases h3 : (m != 0) = true
      · simp [h3] at h
      · exact ⟨by simpa using h2, by simpa using h3⟩
    · exfalso
      rcases boundedBreaks_mem st c x hx with hh | hh | hh
      · exact hbs hh
      · rw [hh] at h2; simp at h2
      · rw [hh] at h1; simp at h1

/-- `extract_bounded_string` fails only by running to the end of the string -/
theorem boundedSpan_fail_end (st : Option Char) (c : Char) (l : Str)
    (hf : ((l.drop (boundedSpan st c l).1).head? == some c && (boundedSpan st c l).2 == 0) = false) :
    (boundedSpan st c l).1 = l.length := by
  have hle := boundedSpan_le st c l
  by_cases hlt : (boundedSpan st c l).1 < l.length
  · exfalso
    have hd := List.drop_eq_getElem_cons hlt
    obtain ⟨h1, h2, h4⟩ := gSpan_stop _ _ (boundedBreaks_bs st c) l 0 _ _ hd
    obtain ⟨hx, hz⟩ := actBounded_none st c _ _ h4 h2 h1
    rw [hd] at hf
    simp only [List.head?_cons, hx, beq_self_eq_true, Bool.true_and] at hf
    unfold boundedSpan at hf
    rw [hz] at hf
    simp at hf
  · omega

/-! ## `__parse_link_title`, `extract_link_label` -/

theorem handleBackslashes_nil : handleBackslashes [] = .ok [] := rfl

/-- one bounding form of `__parse_link_title`: opener `o` at `i`, then `extract_bounded_string` -/
theorem boundedTitle_spec (s : Str) (i : Nat) (o c : Char) (st : Option Char) (ho : isCharAt s i o = true)
    (h1 : c ≠ BS) (h3 : st ≠ some c) :
    ∃ (n : Nat) (r : Option Str), extractBoundedString s (i + 1) c st = .ok (n, r) ∧ i < n ∧ n ≤ s.length ∧
      (∀ raw, r = some raw → slice s i n = o :: raw ++ [c] ∧ i + 1 < n) ∧ (r = none → n = s.length) := by
  have hlt := isCharAt_true_lt ho
  rw [extractBoundedString_eq s (i + 1) c st (by omega) h1 h3]
  generalize hk : (boundedSpan st c (s.drop (i + 1))).1 = k
  have hkle : k ≤ s.length - (i + 1) := by
    have := boundedSpan_le st c (s.drop (i + 1)); rw [hk] at this; simpa using this
  by_cases hc : (isCharAt s (i + 1 + k) c && (boundedSpan st c (s.drop (i + 1))).2 == 0) = true
  · simp only [hc, ↓reduceIte]
    have hc1 : isCharAt s (i + 1 + k) c = true := by
      simp only [Bool.and_eq_true] at hc; exact hc.1
    have hl2 := isCharAt_true_lt hc1
    refine ⟨_, _, rfl, by omega, by omega, fun raw hr => ?_, fun hr => by cases hr⟩
    injection hr with hr
    rw [← hr]
    exact ⟨slice_bracket s i k o c ho hc1, by omega⟩
  · simp only [hc, Bool.false_eq_true, ↓reduceIte]
    refine ⟨_, _, rfl, by omega, by omega, fun raw hr => (by cases hr), fun _ => ?_⟩
    have hc' : ((s.drop (i + 1 + k)).head? == some c && (boundedSpan st c (s.drop (i + 1))).2 == 0) = false := by
      rw [← isCharAt_drop]; simpa using hc
    rw [← List.drop_drop, ← hk] at hc'
    have := boundedSpan_fail_end st c (s.drop (i + 1)) hc'
    rw [hk] at this
    simp only [List.length_drop] at this
    omega

/-- the three outcomes of `__parse_link_title` -/
inductive TitleOut (s : Str) (i : Nat) : Option Str × Option Str × Int × Str → Prop
  | noTitle : TitleOut s i (some [], some [], -1, [])
  | unterminated (b : Str) : i < s.length → TitleOut s i (none, none, (s.length : Int), b)
  | title (n : Nat) (tv raw : Str) (o c : Char) : i + 1 < n → n ≤ s.length → slice s i n = o :: raw ++ [c] →
      (o = '\'' ∧ c = '\'' ∨ o = '"' ∧ c = '"' ∨ o = '(' ∧ c = ')') → (raw = [] → tv = []) →
      TitleOut s i (some tv, some raw, (n : Int), [o])

theorem appendTextNoSig_nil : appendTextNoSig [] = [] := rfl

theorem parseLinkTitle_spec (s : Str) (i : Nat) :
    Safe (parseLinkTitle s i) ∧ ∀ r, parseLinkTitle s i = .ok r → TitleOut s i r := by
  unfold parseLinkTitle
  -- the common tail, given the result of the bounded string extraction
  have tail : ∀ (o c : Char) (st : Option Char), isCharAt s i o = true → c ≠ BS → st ≠ some c →
      (o = '\'' ∧ c = '\'' ∨ o = '"' ∧ c = '"' ∨ o = '(' ∧ c = ')') →
      Safe (titleFinish (titleBranch [o] (extractBoundedString s (i + 1) c st))) ∧
      ∀ r, titleFinish (titleBranch [o] (extractBoundedString s (i + 1) c st)) = .ok r → TitleOut s i r := by
    intro o c st ho h1 h3 hoc
    obtain ⟨n, r, he, hn1, hn2, hr, hnone⟩ := boundedTitle_spec s i o c st ho h1 h3
    simp only [he, titleBranch]
    cases r with
    | none =>
      simp only [titleFinish]
      refine ⟨Safe.ok _, fun r hr' => ?_⟩
      injection hr' with hr'; rw [← hr']
      rw [hnone rfl]
      exact TitleOut.unterminated [o] (by have := hnone rfl; omega)
    | some raw =>
      simp only [titleFinish]
      obtain ⟨hsl, hn3⟩ := hr raw rfl
      cases hb : handleBackslashes raw with
      | error e =>
        simp only
        refine ⟨?_, fun r hr' => by cases hr'⟩
        intro e' he'; injection he' with he'; subst he'; exact handleBackslashes_safe raw e hb
      | ok t2 =>
        simp only
        refine ⟨Safe.ok _, fun r hr' => ?_⟩
        injection hr' with hr'; rw [← hr']
        refine TitleOut.title n _ raw o c hn3 hn2 hsl hoc ?_
        intro h0; subst h0
        rw [handleBackslashes_nil] at hb; injection hb with hb; rw [← hb]; rfl
  by_cases h1 : isCharAt s i '\'' = true
  · simp only [h1, ↓reduceIte]
    exact tail '\'' '\'' none h1 (by decide) (by simp) (Or.inl ⟨rfl, rfl⟩)
  · simp only [h1, Bool.false_eq_true, ↓reduceIte]
    by_cases h2 : isCharAt s i '"' = true
    · simp only [h2, ↓reduceIte]
      exact tail '"' '"' none h2 (by decide) (by simp) (Or.inr (Or.inl ⟨rfl, rfl⟩))
    · simp only [h2, Bool.false_eq_true, ↓reduceIte]
      by_cases h3 : isCharAt s i '(' = true
      · simp only [h3, ↓reduceIte]
        exact tail '(' ')' (some '(') h3 (by decide) (by decide) (Or.inr (Or.inr ⟨rfl, rfl⟩))
      · simp only [h3, Bool.false_eq_true, ↓reduceIte, titleFinish, handleBackslashes_nil, appendTextNoSig_nil]
        refine ⟨Safe.ok _, fun r hr' => ?_⟩
        injection hr' with hr'; rw [← hr']
        exact TitleOut.noTitle

/-- the outcomes of `extract_link_label` -/
inductive LabelOut (s : Str) (i : Nat) (colon : Bool) : Bool × Int × Option Str → Prop
  | fail : LabelOut s i colon (false, -1, none)
  | noEnd (n : Nat) : i ≤ n → n ≤ s.length → LabelOut s i colon (false, (n : Int), none)
  | ok (n : Nat) (lab : Str) : i < n → n ≤ s.length →
      slice s i n = lab ++ (if colon then [']', ':'] else [']']) →
      lab = (s.drop i).take (labelSpan (s.drop i)) → LabelOut s i colon (true, (n : Int), some lab)

theorem slice_snoc (s : Str) (i k : Nat) (c : Char) (h : isCharAt s (i + k) c = true) :
    slice s i (i + k + 1) = (s.drop i).take k ++ [c] := by
  have hl := isCharAt_true_lt h
  rw [isCharAt_lt hl] at h
  simp only [beq_iff_eq] at h
  rw [show i + k + 1 = i + (k + 1) by omega, slice_drop_take, ← take_take_drop _ k 1, List.drop_drop,
    List.drop_eq_getElem_cons hl, h]
  simp

theorem slice_snoc2 (s : Str) (i k : Nat) (c d : Char) (h : isCharAt s (i + k) c = true)
    (h2 : isCharAt s (i + k + 1) d = true) :
    slice s i (i + k + 1 + 1) = (s.drop i).take k ++ [c, d] := by
  have := slice_snoc s i (k + 1) d (by rw [show i + (k + 1) = i + k + 1 by omega]; exact h2)
  rw [show i + (k + 1) + 1 = i + k + 1 + 1 by omega] at this
  rw [this, ← slice_drop_take, show i + (k + 1) = i + k + 1 by omega, slice_snoc s i k c h]
  simp

theorem extractLinkLabel_spec (s : Str) (i : Nat) (colon : Bool) (h : i ≤ s.length) :
    ∃ r, extractLinkLabel s i colon = .ok r ∧ LabelOut s i colon r := by
  unfold extractLinkLabel
  rw [labelLoop_eq s i h]
  generalize hk : labelSpan (s.drop i) = k
  have hkle : k ≤ s.length - i := by
    have := labelSpan_le (s.drop i); rw [hk] at this; simpa using this
  by_cases h1 : isCharAt s (i + k) '[' = true
  · simp only [h1, ↓reduceIte]; exact ⟨_, rfl, LabelOut.fail⟩
  · simp only [h1, Bool.false_eq_true, ↓reduceIte]
    by_cases h2 : isCharAt s (i + k) ']' = true
    · have hl := isCharAt_true_lt h2
      simp only [h2, Bool.not_true, Bool.false_eq_true, ↓reduceIte]
      cases colon with
      | true =>
        simp only [↓reduceIte]
        by_cases h3 : isCharAt s (i + k + 1) ':' = true
        · have hl3 := isCharAt_true_lt h3
          simp only [h3, Bool.not_true, Bool.false_eq_true, ↓reduceIte]
          refine ⟨_, rfl, ?_⟩
          have := LabelOut.ok (s := s) (i := i) (colon := true) (i + k + 1 + 1) ((s.drop i).take k) (by omega) (by omega)
            (by simp only [↓reduceIte]; exact slice_snoc2 s i k ']' ':' h2 h3) (by rw [hk])
          simpa using this
        · simp only [h3, Bool.not_false, ↓reduceIte]; exact ⟨_, rfl, LabelOut.fail⟩
      | false =>
        simp only [Bool.false_eq_true, ↓reduceIte]
        refine ⟨_, rfl, ?_⟩
        exact LabelOut.ok (i + k + 1) _ (by omega) (by omega)
          (by simp only [Bool.false_eq_true, ↓reduceIte]; exact slice_snoc s i k ']' h2) (by rw [hk])
    · simp only [h2, Bool.not_false, ↓reduceIte]
      exact ⟨_, rfl, LabelOut.noEnd (i + k) (by omega) (by omega)⟩

end Verif.Model.LinkRecog
