/-
  `is_ulist_start` / `is_olist_start` with TWO list tokens near the top of the stack (child and parent of
  `__determine_child_and_parent_tokens`): the indentation clause of `__adjust_whitespace_for_nested_lists` in columns.
-/
import Verif.Lemmas.ListStartsNested
namespace Verif.Model.ListStarts
open Verif.Model.Recognisers (Str lenLe TAB thematicBodyB)
open Verif.Model.ListStartsSpec (MarkerAt IsThematic ItemStart colsFrom blankB parseMarker)

/-- two list tokens among the tokens the recognisers look at: `child` (inner) on top or directly below a non-list top, `parent`
(outer) directly below it -/
def ChildParent (top : Entry) (t2 t3 : Option Entry) (child parent : Entry) : Prop :=
  (top = child ∧ child.isList = true ∧ t2 = some parent ∧ parent.isList = true) ∨
  (top.isList = false ∧ t2 = some child ∧ child.isList = true ∧ t3 = some parent ∧ parent.isList = true)

theorem cpPure_childParent {top : Entry} {t2 t3 : Option Entry} {child parent : Entry} (h : ChildParent top t2 t3 child parent) :
    cpPure top t2 t3 = (some child, some parent) := by
  unfold cpPure
  rcases h with ⟨h1, h2, h3, h4⟩ | ⟨h1, h2, h3, h4, h5⟩
  · subst h1
    rw [h2, h3]
    simp [Option.filter, h4]
  · rw [h1, h2, h4]
    simp [Option.filter, h3, h5]

/-- the indentation clause of the code with a child and a parent list, `n` = width of the whitespace that is checked:
strictly between the two indents the parent's indent is taken off; the limit is ALWAYS `3 + parent indent` -/
def twoClause (child parent : Entry) (n : Nat) : Prop :=
  if parent.indent < n ∧ n < child.indent then n - parent.indent ≤ 3 + parent.indent else n ≤ 3 + parent.indent

instance (child parent : Entry) (n : Nat) : Decidable (twoClause child parent n) := by unfold twoClause; infer_instance

theorem adjust_two_snd (child parent : Entry) (a : Str) (start : Nat) :
    (adjustPure (some child, some parent) a start).2 = parent.indent := by
  unfold adjustPure
  simp only
  split <;> rfl

theorem adjust_two_fst (child parent : Entry) (a : Str) (start : Nat) (hnt : TAB ∉ a) :
    lenLe (adjustPure (some child, some parent) a start).1 (3 + parent.indent) = true ↔ twoClause child parent a.length := by
  unfold adjustPure twoClause
  simp only
  by_cases hc : parent.indent < a.length ∧ a.length < child.indent
  · rw [if_pos hc, if_pos (by simpa using hc), lenLe_iff_cols, colsFrom_notab _ (notab_drop hnt _), List.length_drop]
  · rw [if_neg hc, if_neg (by simpa using hc), lenLe_iff_cols, colsFrom_notab _ hnt]

theorem thematicWs_cols (ews : Str) (p : Nat) (hnt : TAB ∉ ews) : lenLe (thematicWs ews p) 3 = true ↔ ews.length - p ≤ 3 := by
  rw [lenLe_iff_cols]
  unfold thematicWs
  split
  · rw [colsFrom_notab _ (notab_drop hnt _), List.length_drop]
  · rename_i h
    have : p = 0 := by simpa using h
    rw [colsFrom_notab _ hnt, this]; simp

/-- `is_ulist_start` with two lists near the top, every `adj_ws`, tab-free whitespace: the verdict in columns -/
theorem ulist_two {top : Entry} {t2 t3 : Option Entry} {child parent : Entry} (hcp : ChildParent top t2 t3 child parent)
    (line : Str) (start : Nat) (ews : Str) (adjWs : Option Str) (hnta : TAB ∉ exWsOf ews adjWs) (hnte : TAB ∉ ews) :
    (ulistPure top t2 t3 line start ews false adjWs).isStart = true ↔
      ∃ c rest, twoClause child parent (exWsOf ews adjWs).length ∧ MarkerAt (line.drop start) (.bullet c) rest ∧
        ¬ (ews.length - parent.indent ≤ 3 ∧ IsThematic (line.drop start)) ∧
        paraRefuses top t2 (blankB rest) false start = false ∧ blockWithin top t2 start = false := by
  rw [ulistPure_isStart, cpPure_childParent hcp, adjust_two_snd]
  simp only [Bool.or_false, Bool.and_eq_true, Bool.not_eq_true', Bool.and_eq_false_iff]
  rw [adjust_two_fst _ _ _ _ hnta]
  constructor
  · rintro ⟨⟨⟨⟨hi, hm⟩, ht⟩, hp⟩, hb⟩
    obtain ⟨c, rest, hma⟩ := (isBulletMarker_iff _).mp hm
    refine ⟨c, rest, hi, hma, ?_, ?_, hb⟩
    · rintro ⟨h1, h2⟩
      rcases ht with ht | ht
      · rw [(thematicWs_cols ews _ hnte).mpr h1] at ht; cases ht
      · rw [(ListStartsSpec.thematicBodyB_iff_IsThematic _).mpr h2] at ht; cases ht
    · rw [bullet_rest hma] at hp; exact hp
  · rintro ⟨c, rest, hi, hma, hnth, hp, hb⟩
    refine ⟨⟨⟨⟨hi, (isBulletMarker_iff _).mpr ⟨c, rest, hma⟩⟩, ?_⟩, ?_⟩, hb⟩
    · cases h1 : lenLe (thematicWs ews parent.indent) 3
      · left; rfl
      · right
        cases hbb : thematicBodyB (line.drop start)
        · rfl
        · exact absurd ⟨(thematicWs_cols ews _ hnte).mp h1, (ListStartsSpec.thematicBodyB_iff_IsThematic _).mp hbb⟩ hnth
    · rw [bullet_rest hma]; exact hp

/-- `is_olist_start` with two lists near the top, every `adj_ws`, tab-free checked whitespace: the verdict in columns -/
theorem olist_two {top : Entry} {t2 t3 : Option Entry} {child parent : Entry} (hcp : ChildParent top t2 t3 child parent)
    (line : Str) (start : Nat) (ews : Str) (adjWs : Option Str) (hnta : TAB ∉ exWsOf ews adjWs) :
    (olistPure top t2 t3 line start ews false adjWs).isStart = true ↔
      ∃ ds dl rest, twoClause child parent (exWsOf ews adjWs).length ∧ MarkerAt (line.drop start) (.ordered ds dl) rest ∧
        paraRefuses top t2 (blankB rest) (ds != ['1']) start = false ∧ blockWithin top t2 (start + ds.length) = false := by
  rw [olistPure_isStart, cpPure_childParent hcp, adjust_two_snd]
  simp only [Bool.or_false, Bool.and_eq_true, Bool.not_eq_true']
  rw [adjust_two_fst _ _ _ _ hnta]
  constructor
  · rintro ⟨⟨⟨hi, hm⟩, hp⟩, hb⟩
    obtain ⟨ds, dl, rest, hma⟩ := (isOrderedMarker_iff _).mp hm
    obtain ⟨he, -, hrest⟩ := ordered_parts hma
    rw [hrest, notOneB_eq hma] at hp
    rw [he] at hb
    exact ⟨ds, dl, rest, hi, hma, hp, hb⟩
  · rintro ⟨ds, dl, rest, hi, hma, hp, hb⟩
    obtain ⟨he, -, hrest⟩ := ordered_parts hma
    refine ⟨⟨⟨hi, (isOrderedMarker_iff _).mpr ⟨ds, dl, rest, hma⟩⟩, ?_⟩, ?_⟩
    · rw [hrest, notOneB_eq hma]; exact hp
    · rw [he]; exact hb

/-- the column the CommonMark reading (§5.2, "indented relative to the container") counts the indentation from: the inner list's
content column at or right of it, the outer list's content column from there to the inner one, the margin left of both -/
def twoBase (child parent : Entry) (n : Nat) : Nat :=
  if n ≥ child.indent then child.indent else if n ≥ parent.indent then parent.indent else 0

/-- where the code's clause and the CommonMark reading agree (absolute whitespace of width `n`) -/
def TwoAgree (child parent : Entry) (n : Nat) : Prop :=
  parent.indent ≤ child.indent ∧
  (child.indent ≤ n → n ≤ 3 + parent.indent ∨ 3 + child.indent < n) ∧
  (parent.indent < n → n < child.indent → n ≤ 3 + parent.indent ∨ 3 + 2 * parent.indent < n) ∧
  (n < parent.indent → n ≤ 3)

theorem twoClause_agree {child parent : Entry} {n : Nat} (h : TwoAgree child parent n) :
    twoClause child parent n ↔ n - twoBase child parent n ≤ 3 := by
  obtain ⟨h0, h1, h2, h3⟩ := h
  unfold twoClause twoBase
  by_cases ha : child.indent ≤ n
  · rw [if_neg (by omega), if_pos ha]
    have := h1 ha
    omega
  · by_cases hb : parent.indent ≤ n
    · rw [if_neg ha, if_pos hb]
      by_cases hc : parent.indent < n
      · rw [if_pos ⟨hc, by omega⟩]
        have := h2 hc (by omega)
        omega
      · rw [if_neg (by omega)]; omega
    · rw [if_neg ha, if_neg hb, if_neg (by omega)]
      have := h3 (by omega)
      omega

theorem twoClause_thematic {child parent : Entry} {n : Nat} (h : TwoAgree child parent n) (hk : twoClause child parent n) :
    n - parent.indent ≤ 3 := by
  obtain ⟨h0, h1, h2, h3⟩ := h
  unfold twoClause at hk
  by_cases hc : parent.indent < n ∧ n < child.indent
  · rw [if_pos hc] at hk
    have := h2 hc.1 hc.2
    omega
  · rw [if_neg hc] at hk; omega

end Verif.Model.ListStarts
