/-
  LeanMark — the block phase does not depend on absolute line numbers (part 1: the sink).

  `renRaw ρ r` renumbers every line number stored in a sink state (positions, end lines, payload line
  numbers, the `lastLine` of open containers, the buffered leaf, the ghost field `last`) by `ρ`.
  For a monotone `ρ` that keeps positive numbers positive the invariant `Inv n` is carried to `Inv (ρ n)`,
  so a `Core n` can be renumbered as a whole (`Core.ren`), and every raw operation and every primitive of
  `Core` commutes with renumbering: the primitive applied to the renumbered sink, stamping the renumbered
  current line, gives the renumbered result.  All observations the block parser makes of the sink
  (`depth`, kinds, `contentIndent`, `hasChild`, the leaf's kind / fence data / texts, `lastIsSetextHeading`)
  are invariant.
-/
import Verif.Model.LeanMark.Block
namespace Verif.Model.LeanMark

/-! ## renumbering -/
def renPos (ρ : Nat → Nat) (p : Pos) : Pos := ⟨ρ p.line, p.col⟩
def renPL (ρ : Nat → Nat) (l : PLine) : PLine := ⟨ρ l.line, l.col0, l.text⟩

/-- renumber every line number inside an event: position, end line, payload line numbers. -/
def renEv (ρ : Nat → Nat) : Ev → Ev
  | .open k p => .open k (renPos ρ p)
  | .close k e => .close k (ρ e)
  | .leaf k p e pl => .leaf k (renPos ρ p) (ρ e) (pl.map (renPL ρ))

/-- add `k` to every line number inside an event. -/
def shiftEv (k : Nat) : Ev → Ev := renEv (· + k)

def renMeta (ρ : Nat → Nat) (m : Meta) : Meta := { m with lastLine := ρ m.lastLine }
def renOC (ρ : Nat → Nat) (o : OpenC) : OpenC := ⟨o.k, renMeta ρ o.m⟩

def renLeaf (ρ : Nat → Nat) : OpenLeaf → OpenLeaf
  | .none => .none
  | .para ls => .para (ls.map (renPL ρ))
  | .fenced p ch len ind info ls => .fenced (renPos ρ p) ch len ind info (ls.map (renPL ρ))
  | .indented p ls pend => .indented (renPos ρ p) (ls.map (renPL ρ)) (pend.map (renPL ρ))
  | .html p kind ls => .html (renPos ρ p) kind (ls.map (renPL ρ))

def renRaw (ρ : Nat → Nat) (r : RawCore) : RawCore :=
  ⟨r.outRev.map (renEv ρ), r.stack.map (renOC ρ), renLeaf ρ r.leaf, ρ r.last⟩

/-- a renumbering: monotone, positive numbers stay positive. -/
structure Renum (ρ : Nat → Nat) : Prop where
  mono : ∀ {a b}, a ≤ b → ρ a ≤ ρ b
  pos : ∀ {a}, 1 ≤ a → 1 ≤ ρ a

theorem Renum.shift (k : Nat) : Renum (· + k) := ⟨fun h => Nat.add_le_add_right h k, fun h => Nat.le_trans h (Nat.le_add_right _ k)⟩

/-! ## the invariant is carried along -/
theorem stepEv_ren (ρ : Nat → Nat) (st : List Kind) (e : Ev) : stepEv st (renEv ρ e) = stepEv st e := by
  cases e <;> rfl

theorem foldlM_stepEv_ren (ρ : Nat → Nat) : ∀ (es : List Ev) (st : List Kind),
    (es.map (renEv ρ)).foldlM stepEv st = es.foldlM stepEv st
  | [], _ => rfl
  | e :: es, st => by
    simp only [List.map_cons, List.foldlM_cons, stepEv_ren]
    cases stepEv st e with
    | none => rfl
    | some s1 => exact foldlM_stepEv_ren ρ es s1

theorem replay_ren (ρ : Nat → Nat) (es : List Ev) : replay (es.map (renEv ρ)) = replay es :=
  foldlM_stepEv_ren ρ es []

theorem kinds_ren (ρ : Nat → Nat) (st : List OpenC) : kinds (st.map (renOC ρ)) = kinds st := by
  unfold kinds
  rw [List.map_map]
  rfl

theorem line_renEv (ρ : Nat → Nat) (e : Ev) : (renEv ρ e).line = e.line.map ρ := by
  cases e <;> rfl

variable {ρ : Nat → Nat}

theorem LineOK.ren (hρ : Renum ρ) {n : Nat} {l : PLine} (h : LineOK n l) : LineOK (ρ n) (renPL ρ l) :=
  ⟨hρ.pos h.1, hρ.mono h.2⟩

theorem EvOK.ren (hρ : Renum ρ) {n : Nat} : ∀ {e : Ev}, EvOK n e → EvOK (ρ n) (renEv ρ e)
  | .open _ _, he => ⟨hρ.pos he.1, hρ.mono he.2.1, he.2.2⟩
  | .close _ _, he => hρ.mono he
  | .leaf _ _ _ _, he =>
    ⟨hρ.pos he.1, hρ.mono he.2.1, he.2.2.1, hρ.mono he.2.2.2.1, fun l hl => by
      obtain ⟨a, ha, rfl⟩ := List.mem_map.mp hl
      exact (he.2.2.2.2 a ha).ren hρ⟩

theorem Bound.ren (hρ : Renum ρ) {b : Nat} {es : List Ev} (h : Bound b es) : Bound (ρ b) (es.map (renEv ρ)) := by
  intro e he l hl
  obtain ⟨a, ha, rfl⟩ := List.mem_map.mp he
  rw [line_renEv] at hl
  cases hal : a.line with
  | none => rw [hal] at hl; cases hl
  | some l' =>
    rw [hal] at hl
    simp only [Option.map_some, Option.some.injEq] at hl
    subst hl
    exact hρ.mono (h a ha l' hal)

theorem MonoRev.ren (hρ : Renum ρ) : ∀ {es : List Ev}, MonoRev es → MonoRev (es.map (renEv ρ))
  | [], _ => trivial
  | e :: r, h => by
    refine ⟨MonoRev.ren hρ h.1, ?_⟩
    intro l hl
    rw [line_renEv] at hl
    cases hel : e.line with
    | none => rw [hel] at hl; cases hl
    | some l' =>
      rw [hel] at hl
      simp only [Option.map_some, Option.some.injEq] at hl
      subst hl
      exact (h.2 l' hel).ren hρ

theorem Chron.ren (hρ : Renum ρ) {ls : List PLine} (h : Chron ls) : Chron (ls.map (renPL ρ)) := by
  unfold Chron at *
  rw [List.pairwise_map]
  exact h.imp (fun hab => hρ.mono hab)

theorem allLineOK_ren (hρ : Renum ρ) {n : Nat} {ls : List PLine} (h : ∀ l ∈ ls, LineOK n l) :
    ∀ l ∈ ls.map (renPL ρ), LineOK (ρ n) l := by
  intro l hl
  obtain ⟨a, ha, rfl⟩ := List.mem_map.mp hl
  exact (h a ha).ren hρ

theorem LeafOK.ren (hρ : Renum ρ) {n last : Nat} : ∀ {lf : OpenLeaf}, LeafOK n last lf →
    LeafOK (ρ n) (ρ last) (renLeaf ρ lf)
  | .none, _ => trivial
  | .para ls, h => by
    refine ⟨?_, ?_⟩
    · intro l hl
      obtain ⟨a, ha, rfl⟩ := List.mem_map.mp hl
      exact ⟨(h.1 a ha).1.ren hρ, hρ.mono (h.1 a ha).2⟩
    · show Chron (ls.map (renPL ρ)).reverse
      rw [← List.map_reverse]
      exact h.2.ren hρ
  | .fenced .., h => ⟨hρ.pos h.1, hρ.mono h.2.1, h.2.2.1, hρ.mono h.2.2.2.1, allLineOK_ren hρ h.2.2.2.2⟩
  | .indented .., h =>
    ⟨hρ.pos h.1, hρ.mono h.2.1, h.2.2.1, hρ.mono h.2.2.2.1, allLineOK_ren hρ h.2.2.2.2.1,
     allLineOK_ren hρ h.2.2.2.2.2⟩
  | .html .., h => ⟨hρ.pos h.1, hρ.mono h.2.1, h.2.2.1, hρ.mono h.2.2.2.1, allLineOK_ren hρ h.2.2.2.2⟩

theorem renLeaf_eq_none {lf : OpenLeaf} : renLeaf ρ lf = .none ↔ lf = .none := by
  cases lf <;> simp [renLeaf]

theorem Inv.ren (hρ : Renum ρ) {n : Nat} {r : RawCore} (h : Inv n r) : Inv (ρ n) (renRaw ρ r) where
  bal := by
    show replay (r.outRev.map (renEv ρ)).reverse = some (kinds (r.stack.map (renOC ρ)))
    rw [← List.map_reverse, replay_ren, kinds_ren]
    exact h.bal
  rng := by
    intro e he
    obtain ⟨a, ha, rfl⟩ := List.mem_map.mp he
    exact (h.rng a ha).ren hρ
  stk := by
    intro o ho
    obtain ⟨a, ha, rfl⟩ := List.mem_map.mp ho
    exact hρ.mono (h.stk a ha)
  lf := h.lf.ren hρ
  mono := h.mono.ren hρ
  bnd := h.bnd.ren hρ
  lastLe := hρ.mono h.lastLe
  sok := by
    show StackOK (kinds (r.stack.map (renOC ρ)))
    rw [kinds_ren]; exact h.sok
  ltop := by
    show renLeaf ρ r.leaf = .none ∨ topIsList (kinds (r.stack.map (renOC ρ))) = false
    rw [kinds_ren, renLeaf_eq_none]
    exact h.ltop

/-! ## raw operations commute with renumbering -/
theorem texts_ren (ρ : Nat → Nat) (ls : List PLine) : (ls.map (renPL ρ)).map (·.text) = ls.map (·.text) := by
  rw [List.map_map]; rfl

theorem lastLineOf_ren (ρ : Nat → Nat) (ls : List PLine) (d : Nat) :
    lastLineOf (ls.map (renPL ρ)) (ρ d) = ρ (lastLineOf ls d) := by
  cases ls <;> rfl

theorem renRaw_emit (ρ : Nat → Nat) (r : RawCore) (e : Ev) (st : List OpenC) (lf : OpenLeaf) :
    renRaw ρ (r.emit e st lf) = (renRaw ρ r).emit (renEv ρ e) (st.map (renOC ρ)) (renLeaf ρ lf) := by
  simp only [RawCore.emit, renRaw, List.map_cons, line_renEv]
  cases e.line <;> rfl

theorem renRaw_emitLeaf (ρ : Nat → Nat) (r : RawCore) (k : LeafKind) (p : Pos) (e : Nat) (pl : List PLine) :
    renRaw ρ (r.emitLeaf k p e pl) = (renRaw ρ r).emitLeaf k (renPos ρ p) (ρ e) (pl.map (renPL ρ)) := by
  unfold RawCore.emitLeaf
  rw [renRaw_emit]
  rfl

theorem peelEmit_ren (ρ : Nat → Nat) : ∀ (fuel : Nat) (r : RawCore) (ls : List PLine),
    peelEmit fuel (renRaw ρ r) (ls.map (renPL ρ)) =
      (renRaw ρ (peelEmit fuel r ls).1, (peelEmit fuel r ls).2.map (renPL ρ))
  | 0, r, ls => rfl
  | fuel + 1, r, [] => rfl
  | fuel + 1, r, l0 :: tl => by
    have htl : (tl.map (renPL ρ)).map (·.text) = tl.map (·.text) := texts_ren ρ tl
    have ht0 : (renPL ρ l0).text = l0.text := rfl
    simp only [peelEmit, List.map_cons, ht0, htl]
    cases hb : (l0.text.head? != some '[') with
    | true => simp only [↓reduceIte, List.map_cons]
    | false =>
      simp only [Bool.false_eq_true, ↓reduceIte]
      cases hp : parseLRD (joinLines (l0.text :: tl.map (·.text))) with
      | none => simp only [List.map_cons]
      | some q =>
        obtain ⟨lab, dest, title, nchars⟩ := q
        simp only []
        have hc : renPL ρ l0 :: tl.map (renPL ρ) = (l0 :: tl).map (renPL ρ) := rfl
        rw [hc, ← List.map_take, ← List.map_drop, ← List.map_reverse]
        refine Eq.trans ?_ (peelEmit_ren ρ fuel _ _)
        rw [renRaw_emitLeaf, ← lastLineOf_ren ρ]
        rfl

/-- end line of a closing fence / (level, line) of a setext underline, renumbered. -/
def renSx (ρ : Nat → Nat) (sx : Option (Nat × Nat)) : Option (Nat × Nat) := sx.map fun p => (p.1, ρ p.2)

theorem renRaw_clear (ρ : Nat → Nat) (r : RawCore) :
    renRaw ρ { r with leaf := .none } = { renRaw ρ r with leaf := .none } := rfl

theorem closeLeaf_ren (ρ : Nat → Nat) (r : RawCore) (fe : Option Nat) (sx : Option (Nat × Nat)) :
    (renRaw ρ r).closeLeaf (fe.map ρ) (renSx ρ sx) = renRaw ρ (r.closeLeaf fe sx) := by
  have hleaf : (renRaw ρ r).leaf = renLeaf ρ r.leaf := rfl
  unfold RawCore.closeLeaf
  rw [hleaf]
  cases hl : r.leaf with
  | none => rfl
  | para ls =>
    simp only [renLeaf]
    have hp := peelEmit_ren ρ ls.length { r with leaf := .none } ls.reverse
    rw [renRaw_clear, List.map_reverse] at hp
    rw [List.length_map, hp]
    generalize peelEmit ls.length { r with leaf := .none } ls.reverse = res
    obtain ⟨r1, rest⟩ := res
    cases rest with
    | nil => rfl
    | cons p0 tl =>
      cases sx with
      | none =>
        simp only [renSx, Option.map_none, List.map_cons]
        rw [show (renPL ρ p0).line = ρ p0.line from rfl, lastLineOf_ren, renRaw_emitLeaf]
        rfl
      | some q =>
        obtain ⟨lvl, e⟩ := q
        simp only [renSx, Option.map_some, List.map_cons]
        rw [renRaw_emitLeaf]
        rfl
  | fenced pos ch len ind info ls =>
    simp only [renLeaf]
    rw [renRaw_emitLeaf, List.map_reverse]
    cases fe with
    | none => simp only [Option.map_none, Option.getD_none]; rw [← lastLineOf_ren ρ]; rfl
    | some e => rfl
  | indented pos ls pend =>
    simp only [renLeaf]
    rw [renRaw_emitLeaf, List.map_reverse, ← lastLineOf_ren ρ]; rfl
  | html pos kind ls =>
    simp only [renLeaf]
    rw [renRaw_emitLeaf, List.map_reverse, ← lastLineOf_ren ρ]; rfl

theorem closeLeaf_ren0 (ρ : Nat → Nat) (r : RawCore) :
    (renRaw ρ r).closeLeaf none none = renRaw ρ (r.closeLeaf none none) := closeLeaf_ren ρ r none none

theorem mapMetaGo_ren (ρ : Nat → Nat) (f g : Nat → OpenC → Meta)
    (hfg : ∀ i o, g i (renOC ρ o) = renMeta ρ (f i o)) :
    ∀ l : List OpenC, mapMetaGo g (l.map (renOC ρ)) = (mapMetaGo f l).map (renOC ρ)
  | [] => rfl
  | o :: r => by
    simp only [List.map_cons, mapMetaGo, List.length_map, hfg, mapMetaGo_ren ρ f g hfg r]
    rfl

theorem mapMeta_ren (ρ : Nat → Nat) (r : RawCore) (f g : Nat → OpenC → Meta)
    (hfg : ∀ i o, g i (renOC ρ o) = renMeta ρ (f i o)) :
    (renRaw ρ r).mapMeta g = renRaw ρ (r.mapMeta f) := by
  simp only [RawCore.mapMeta, renRaw, mapMetaGo_ren ρ f g hfg]

theorem markChild_ren (ρ : Nat → Nat) (r : RawCore) : (renRaw ρ r).markChild = renRaw ρ r.markChild := by
  unfold RawCore.markChild
  apply mapMeta_ren
  intro i o
  show (if i + 1 == (r.stack.map (renOC ρ)).length then _ else _) = _
  rw [List.length_map]
  split <;> rfl

theorem dropList_ren (ρ : Nat → Nat) (r : RawCore) : (renRaw ρ r).dropList = renRaw ρ r.dropList := by
  have hst : (renRaw ρ r).stack = r.stack.map (renOC ρ) := rfl
  unfold RawCore.dropList
  rw [hst]
  cases hs : r.stack with
  | nil => rfl
  | cons t rest =>
    simp only [List.map_cons]
    show (if isListK t.k = true then _ else _) = _
    split
    · rw [renRaw_emit]; rfl
    · rfl

theorem ready_ren (ρ : Nat → Nat) (r : RawCore) : (renRaw ρ r).ready = renRaw ρ r.ready := by
  unfold RawCore.ready
  rw [closeLeaf_ren0, dropList_ren, markChild_ren]

/-! ## raw forms of the primitives that are defined by dependent matches -/
def RawCore.popC (r : RawCore) : RawCore :=
  match (r.closeLeaf none none).stack with
  | [] => r.closeLeaf none none
  | t :: rest => (r.closeLeaf none none).emit (.close t.k t.m.lastLine) rest .none

def RawCore.pushItem (r : RawCore) (ln : Nat) (ord : Bool) (delim : Char) (start col0 : Nat) (m : Meta) : RawCore :=
  if Core.sameListTop (r.closeLeaf none none).stack ord delim then
    (r.closeLeaf none none).emit (.open .item ⟨ln, col0 + 1⟩)
      (⟨.item, { m with lastLine := ln }⟩ :: (r.closeLeaf none none).stack) .none
  else
    (r.ready.emit (.open (.list ord delim start) ⟨ln, col0 + 1⟩)
        (⟨.list ord delim start, { lastLine := ln }⟩ :: r.ready.stack) .none).emit
      (.open .item ⟨ln, col0 + 1⟩)
      (⟨.item, { m with lastLine := ln }⟩ :: ⟨.list ord delim start, { lastLine := ln }⟩ :: r.ready.stack) .none

def RawCore.addLine (r : RawCore) (ln col0 : Nat) (text : List Char) : RawCore :=
  match r.leaf with
  | .none => r
  | .para ls => { r with leaf := .para (⟨ln, col0, text⟩ :: ls) }
  | .fenced pos ch len ind info ls => { r with leaf := .fenced pos ch len ind info (⟨ln, col0, text⟩ :: ls) }
  | .indented pos ls pend => { r with leaf := .indented pos (⟨ln, col0, text⟩ :: (pend ++ ls)) [] }
  | .html pos kind ls => { r with leaf := .html pos kind (⟨ln, col0, text⟩ :: ls) }

def RawCore.addPending (r : RawCore) (ln col0 : Nat) (text : List Char) : RawCore :=
  match r.leaf with
  | .indented pos ls pend => { r with leaf := .indented pos ls (⟨ln, col0, text⟩ :: pend) }
  | _ => r

namespace Core
variable {n : Nat}

theorem popC_raw (c : Core n) : c.popC.raw = c.raw.popC := by
  unfold Core.popC RawCore.popC
  split
  · next h => simp only [h]
  · next t rest h => simp only [h]

theorem pushItem_raw (c : Core (n + 1)) (ord : Bool) (delim : Char) (start col0 : Nat) (m : Meta) :
    (c.pushItem ord delim start col0 m).raw = c.raw.pushItem (n + 1) ord delim start col0 m := by
  unfold Core.pushItem RawCore.pushItem
  simp only
  split <;> rfl

theorem addLine_raw (c : Core (n + 1)) (col0 : Nat) (text : List Char) :
    (c.addLine col0 text).raw = c.raw.addLine (n + 1) col0 text := by
  unfold Core.addLine RawCore.addLine
  simp only
  split <;> (rename_i h; simp only [h, Core.setLeaf])

theorem addPending_raw (c : Core (n + 1)) (col0 : Nat) (text : List Char) :
    (c.addPending col0 text).raw = c.raw.addPending (n + 1) col0 text := by
  unfold Core.addPending RawCore.addPending
  simp only
  split
  · next h => simp only [h, Core.setLeaf]
  · next h => 
    split
    · next h' => exact absurd h' (h _ _ _)
    · rfl

end Core

theorem renRaw_stack (ρ : Nat → Nat) (r : RawCore) : (renRaw ρ r).stack = r.stack.map (renOC ρ) := rfl
theorem renRaw_leaf (ρ : Nat → Nat) (r : RawCore) : (renRaw ρ r).leaf = renLeaf ρ r.leaf := rfl
theorem renRaw_outRev (ρ : Nat → Nat) (r : RawCore) : (renRaw ρ r).outRev = r.outRev.map (renEv ρ) := rfl

theorem popC_ren (ρ : Nat → Nat) (r : RawCore) : (renRaw ρ r).popC = renRaw ρ r.popC := by
  unfold RawCore.popC
  rw [closeLeaf_ren0, renRaw_stack]
  cases hs : (r.closeLeaf none none).stack with
  | nil => rfl
  | cons t rest =>
    simp only [List.map_cons]
    rw [renRaw_emit]; rfl

theorem sameListTop_ren (ρ : Nat → Nat) (st : List OpenC) (ord : Bool) (delim : Char) :
    Core.sameListTop (st.map (renOC ρ)) ord delim = Core.sameListTop st ord delim := by
  cases st <;> rfl

theorem pushItem_ren (ρ : Nat → Nat) (r : RawCore) (ln : Nat) (ord : Bool) (delim : Char) (start col0 : Nat)
    (m : Meta) :
    (renRaw ρ r).pushItem (ρ ln) ord delim start col0 m = renRaw ρ (r.pushItem ln ord delim start col0 m) := by
  unfold RawCore.pushItem
  rw [closeLeaf_ren0, ready_ren, renRaw_stack, renRaw_stack, sameListTop_ren]
  split
  · rw [renRaw_emit]; rfl
  · rw [renRaw_emit, renRaw_emit]; rfl

theorem addLine_ren (ρ : Nat → Nat) (r : RawCore) (ln col0 : Nat) (text : List Char) :
    (renRaw ρ r).addLine (ρ ln) col0 text = renRaw ρ (r.addLine ln col0 text) := by
  unfold RawCore.addLine
  rw [renRaw_leaf]
  cases hl : r.leaf with
  | none => rfl
  | para ls => rfl
  | fenced pos ch len ind info ls => rfl
  | indented pos ls pend =>
    simp only [renLeaf, renRaw, List.map_cons, List.map_append]
    rfl
  | html pos kind ls => rfl

theorem addPending_ren (ρ : Nat → Nat) (r : RawCore) (ln col0 : Nat) (text : List Char) :
    (renRaw ρ r).addPending (ρ ln) col0 text = renRaw ρ (r.addPending ln col0 text) := by
  unfold RawCore.addPending
  rw [renRaw_leaf]
  cases hl : r.leaf <;> rfl

/-! ## renumbering a sink; the primitives of `Core` commute with it -/
namespace Core
variable {n : Nat}

theorem ext {a b : Core n} (h : a.raw = b.raw) : a = b := by
  cases a; cases b; cases h; rfl

/-- the sink with every line number renumbered by `ρ`; its index is `m = ρ n`. -/
def ren (hρ : Renum ρ) (c : Core n) (m : Nat) (hm : m = ρ n) : Core m := ⟨renRaw ρ c.raw, hm ▸ c.inv.ren hρ⟩

variable (hρ : Renum ρ)

@[simp] theorem ren_raw (c : Core n) (m : Nat) (hm : m = ρ n) : (c.ren hρ m hm).raw = renRaw ρ c.raw := rfl

/-! ### observations -/
theorem ren_depth (c : Core n) (m : Nat) (hm : m = ρ n) : (c.ren hρ m hm).depth = c.depth := by
  simp [depth, renRaw]

theorem ren_stack (c : Core n) (m : Nat) (hm : m = ρ n) : (c.ren hρ m hm).stack = c.stack.map (renOC ρ) := rfl

theorem ren_leaf (c : Core n) (m : Nat) (hm : m = ρ n) : (c.ren hρ m hm).leaf = renLeaf ρ c.leaf := rfl

theorem ren_out (c : Core n) (m : Nat) (hm : m = ρ n) : (c.ren hρ m hm).out = c.out.map (renEv ρ) := by
  simp [out, renRaw]

theorem ren_lastIsSetextHeading (c : Core n) (m : Nat) (hm : m = ρ n) :
    (c.ren hρ m hm).lastIsSetextHeading = c.lastIsSetextHeading := by
  unfold lastIsSetextHeading
  rw [ren_raw, renRaw_outRev]
  cases c.raw.outRev with
  | nil => rfl
  | cons e r =>
    cases e with
    | «open» k p => rfl
    | close k x => rfl
    | leaf k p x pl =>
      cases k with
      | heading lvl sx => cases sx <;> rfl
      | _ => rfl

theorem ren_ite (p : Prop) [Decidable p] (a b : Core n) (m : Nat) (hm : m = ρ n) :
    (if p then a.ren hρ m hm else b.ren hρ m hm) = (if p then a else b).ren hρ m hm := by
  split <;> rfl

/-! ### primitives on any line -/
theorem ren_closeLeaf (c : Core n) (m : Nat) (hm : m = ρ n) :
    (c.ren hρ m hm).closeLeaf = c.closeLeaf.ren hρ m hm := ext (closeLeaf_ren0 ρ c.raw)

theorem ren_popC (c : Core n) (m : Nat) (hm : m = ρ n) : (c.ren hρ m hm).popC = c.popC.ren hρ m hm := by
  apply ext
  rw [popC_raw, ren_raw, ren_raw, popC_raw, popC_ren]

theorem ren_closeTo (m : Nat) (hm : m = ρ n) : ∀ (fuel : Nat) (c : Core n) (d : Nat),
    closeTo fuel (c.ren hρ m hm) d = (closeTo fuel c d).ren hρ m hm
  | 0, _, _ => rfl
  | fuel + 1, c, d => by
    unfold closeTo
    rw [ren_depth, ren_popC, ren_closeTo m hm fuel]
    split <;> rfl

theorem ren_closeToDepth (c : Core n) (m : Nat) (hm : m = ρ n) (d : Nat) :
    (c.ren hρ m hm).closeToDepth d = (c.closeToDepth d).ren hρ m hm := by
  unfold closeToDepth
  rw [ren_depth, ren_closeTo]

theorem ren_dropDanglingList (c : Core n) (m : Nat) (hm : m = ρ n) :
    (c.ren hρ m hm).dropDanglingList = c.dropDanglingList.ren hρ m hm := by
  unfold dropDanglingList
  rw [ren_stack, ren_popC]
  cases hs : c.stack with
  | nil => rfl
  | cons t rest =>
    simp only [List.map_cons]
    show (if isListK t.k = true then _ else _) = _
    split <;> rfl

/-! ### primitives that stamp the current line: `c : Core (n + 1)`, renumbered index `m + 1 = ρ (n + 1)` -/
variable (c : Core (n + 1)) (m : Nat) (hm : m + 1 = ρ (n + 1))

theorem ren_closeFence : (c.ren hρ (m + 1) hm).closeFence = c.closeFence.ren hρ (m + 1) hm := by
  apply ext
  show (renRaw ρ c.raw).closeLeaf (some (m + 1)) none = renRaw ρ (c.raw.closeLeaf (some (n + 1)) none)
  rw [hm]
  exact closeLeaf_ren ρ c.raw (some (n + 1)) none

theorem ren_closeSetext (lvl : Nat) :
    (c.ren hρ (m + 1) hm).closeSetext lvl = (c.closeSetext lvl).ren hρ (m + 1) hm := by
  apply ext
  show (renRaw ρ c.raw).closeLeaf none (some (lvl, m + 1)) = renRaw ρ (c.raw.closeLeaf none (some (lvl, n + 1)))
  rw [hm]
  exact closeLeaf_ren ρ c.raw none (some (lvl, n + 1))

theorem ren_pushQuote (col0 : Nat) :
    (c.ren hρ (m + 1) hm).pushQuote col0 = (c.pushQuote col0).ren hρ (m + 1) hm := by
  apply ext
  show (renRaw ρ c.raw).ready.emit (.open .quote ⟨m + 1, col0 + 1⟩)
      (⟨.quote, { lastLine := m + 1 }⟩ :: (renRaw ρ c.raw).ready.stack) .none =
    renRaw ρ (c.raw.ready.emit (.open .quote ⟨n + 1, col0 + 1⟩)
      (⟨.quote, { lastLine := n + 1 }⟩ :: c.raw.ready.stack) .none)
  rw [hm, ready_ren, renRaw_emit]
  rfl

theorem ren_pushItem (ord : Bool) (delim : Char) (start col0 : Nat) (mt : Meta) :
    (c.ren hρ (m + 1) hm).pushItem ord delim start col0 mt =
      (c.pushItem ord delim start col0 mt).ren hρ (m + 1) hm := by
  apply ext
  rw [pushItem_raw, ren_raw, ren_raw, pushItem_raw, hm, pushItem_ren]

theorem ren_emitLeaf (k : LeafKind) (col0 : Nat) (payload : List (Nat × List Char)) :
    (c.ren hρ (m + 1) hm).emitLeaf k col0 payload = (c.emitLeaf k col0 payload).ren hρ (m + 1) hm := by
  apply ext
  show (renRaw ρ c.raw).ready.emitLeaf k ⟨m + 1, col0 + 1⟩ (m + 1)
      (payload.map fun (c0, t) => ⟨m + 1, c0, t⟩) =
    renRaw ρ (c.raw.ready.emitLeaf k ⟨n + 1, col0 + 1⟩ (n + 1) (payload.map fun (c0, t) => ⟨n + 1, c0, t⟩))
  rw [hm, ready_ren, renRaw_emitLeaf, List.map_map]
  rfl

theorem ren_startWith (lf : OpenLeaf) (hlf : ∀ last, last ≤ n + 1 → LeafOK (n + 1) last lf)
    (hlf' : ∀ last, last ≤ m + 1 → LeafOK (m + 1) last (renLeaf ρ lf)) :
    (c.ren hρ (m + 1) hm).startWith (renLeaf ρ lf) hlf' = (c.startWith lf hlf).ren hρ (m + 1) hm := by
  apply ext
  show { (renRaw ρ c.raw).ready with leaf := renLeaf ρ lf } = renRaw ρ { c.raw.ready with leaf := lf }
  rw [ready_ren]
  rfl

theorem ren_startPara (col0 : Nat) (text : List Char) :
    (c.ren hρ (m + 1) hm).startPara col0 text = (c.startPara col0 text).ren hρ (m + 1) hm := by
  apply ext
  show { (renRaw ρ c.raw).ready with leaf := .para [⟨m + 1, col0, text⟩] } =
    renRaw ρ { c.raw.ready with leaf := .para [⟨n + 1, col0, text⟩] }
  rw [hm, ready_ren]
  rfl

theorem ren_startFenced (col0 : Nat) (ch : Char) (len ind : Nat) (info : List Char) :
    (c.ren hρ (m + 1) hm).startFenced col0 ch len ind info =
      (c.startFenced col0 ch len ind info).ren hρ (m + 1) hm := by
  apply ext
  show { (renRaw ρ c.raw).ready with leaf := .fenced ⟨m + 1, col0 + 1⟩ ch len ind info [] } =
    renRaw ρ { c.raw.ready with leaf := .fenced ⟨n + 1, col0 + 1⟩ ch len ind info [] }
  rw [hm, ready_ren]
  rfl

theorem ren_startIndented (col0 tcol0 : Nat) (text : List Char) :
    (c.ren hρ (m + 1) hm).startIndented col0 tcol0 text =
      (c.startIndented col0 tcol0 text).ren hρ (m + 1) hm := by
  apply ext
  show { (renRaw ρ c.raw).ready with leaf := .indented ⟨m + 1, col0 + 1⟩ [⟨m + 1, tcol0, text⟩] [] } =
    renRaw ρ { c.raw.ready with leaf := .indented ⟨n + 1, col0 + 1⟩ [⟨n + 1, tcol0, text⟩] [] }
  rw [hm, ready_ren]
  rfl

theorem ren_startHtml (col0 kind : Nat) (text : List Char) :
    (c.ren hρ (m + 1) hm).startHtml col0 kind text = (c.startHtml col0 kind text).ren hρ (m + 1) hm := by
  apply ext
  show { (renRaw ρ c.raw).ready with leaf := .html ⟨m + 1, col0 + 1⟩ kind [⟨m + 1, col0, text⟩] } =
    renRaw ρ { c.raw.ready with leaf := .html ⟨n + 1, col0 + 1⟩ kind [⟨n + 1, col0, text⟩] }
  rw [hm, ready_ren]
  rfl

theorem ren_addLine (col0 : Nat) (text : List Char) :
    (c.ren hρ (m + 1) hm).addLine col0 text = (c.addLine col0 text).ren hρ (m + 1) hm := by
  apply ext
  rw [addLine_raw, ren_raw, ren_raw, addLine_raw, hm, addLine_ren]

theorem ren_addPending (col0 : Nat) (text : List Char) :
    (c.ren hρ (m + 1) hm).addPending col0 text = (c.addPending col0 text).ren hρ (m + 1) hm := by
  apply ext
  rw [addPending_raw, ren_raw, ren_raw, addPending_raw, hm, addPending_ren]

theorem ren_touch (k : Nat) : (c.ren hρ (m + 1) hm).touch k = (c.touch k).ren hρ (m + 1) hm := by
  apply ext
  show (renRaw ρ c.raw).mapMeta _ = renRaw ρ (c.raw.mapMeta _)
  apply mapMeta_ren
  intro i o
  show (if i < k then _ else _) = renMeta ρ (if i < k then _ else _)
  rw [hm]
  split <;> rfl

theorem ren_touchAll : (c.ren hρ (m + 1) hm).touchAll = c.touchAll.ren hρ (m + 1) hm := by
  unfold touchAll
  rw [ren_depth, ren_touch]

theorem ren_prep (k : Nat) : (c.ren hρ (m + 1) hm).prep k = (c.prep k).ren hρ (m + 1) hm := by
  unfold prep
  rw [ren_closeToDepth, ren_dropDanglingList, ren_touchAll]

end Core

end Verif.Model.LeanMark
