/-
  The acceptance conjunction specialised to the stack contexts of the specification theorems:
  no list on the stack; a paragraph on top; one list on top (absolute-whitespace convention).
-/
import Verif.Lemmas.ListStartsMarker
namespace Verif.Model.ListStarts
open Verif.Model.Recognisers (Str charAt slice isCharAtOneOf isWsAt extractSpacesVerified calcLength lenLe isStartUlist isStartOlist
  SP TAB scanTo digits thematicBodyB)
open Verif.Model.ListStartsSpec (Marker MarkerAt parseMarker followOkB isSpTab isDigit isDelim isBulletChar Blank blankB
  IsThematic ItemStart CanInterrupt numberOf colsFrom)

/-- no list token anywhere on the stack -/
def ListFree (st : Stack) : Prop := ∀ e ∈ st, e.isList = false

theorem optFree {st : Stack} (hf : ListFree st) {top : Entry} {r : Stack} (h : st.reverse = top :: r) (k : Nat) :
    ∀ e, r[k]? = some e → e.isList = false := by
  intro e he
  apply hf
  apply StackOK.mem_of_rev h
  exact List.mem_cons_of_mem _ (List.mem_of_getElem? he)

theorem cpPure_free {top : Entry} {t2 t3 : Option Entry} (h1 : top.isList = false) (h2 : ∀ e, t2 = some e → e.isList = false) :
    cpPure top t2 t3 = (none, none) := by
  unfold cpPure
  rw [h1]
  simp only [Bool.false_eq_true, ↓reduceIte]
  cases t2 with
  | none => rfl
  | some e => simp [h2 e rfl]

theorem paraRefuses_free {top : Entry} {t2 : Option Entry} (h2 : ∀ e, t2 = some e → e.isList = false) (b n : Bool) (s : Nat) :
    paraRefuses top t2 b n s = (top.isPara && (b || n)) := by
  unfold paraRefuses
  cases t2 with
  | none => simp
  | some e => simp [h2 e rfl]

theorem blockWithin_free {top : Entry} {t2 : Option Entry} (h2 : ∀ e, t2 = some e → e.isList = false) (m : Nat) :
    blockWithin top t2 m = false := by
  unfold blockWithin
  cases t2 with
  | none => simp
  | some e => simp [h2 e rfl]

/-- `is_ulist_start` on a stack without lists (`adj_ws = None`, no `skip_whitespace_check`) -/
theorem ulist_free {st : Stack} (hOK : StackOK st) (hf : ListFree st) {top : Entry} {r : Stack} (h : st.reverse = top :: r)
    (line : Str) (start : Nat) (ews : Str) :
    ∃ res, isUlistStart st line (start : Int) ews false none = .ok res ∧
      (res.isStart = true ↔
        ∃ c rest, ItemStart (colsFrom 0 ews) (line.drop start) (.bullet c) rest ∧
          ¬ (top.isPara = true ∧ Blank rest)) := by
  refine ⟨_, by rw [isUlistStart_nat, isUlistStartN_eval hOK h], ?_⟩
  rw [ulistPure_isStart]
  have h1 : top.isList = false := hf top (StackOK.mem_of_rev h (List.mem_cons_self ..))
  have h2 := optFree hf h 0
  rw [cpPure_free h1 h2, paraRefuses_free h2, blockWithin_free h2]
  simp only [adjustPure, exWsOf, Option.getD_none, thematicWs, ne_eq, not_true_eq_false, ↓reduceIte, Bool.or_false,
    Nat.add_zero, Bool.not_false, Bool.and_true, Bool.and_eq_true, Bool.not_eq_true', Bool.and_eq_false_iff]
  rw [lenLe_iff_cols]
  constructor
  · rintro ⟨⟨⟨hi, hm⟩, ht⟩, hp⟩
    obtain ⟨c, rest, hma⟩ := (isBulletMarker_iff _).mp hm
    refine ⟨c, rest, ⟨hi, hma, ?_⟩, ?_⟩
    · intro hth
      have := (ListStartsSpec.thematicBodyB_iff_IsThematic _).mpr hth
      rcases ht with ht | ht
      · rw [(lenLe_iff_cols ews 3).mpr hi] at ht; cases ht
      · rw [this] at ht; cases ht
    · rintro ⟨hpa, hbl⟩
      rw [bullet_rest hma] at hp
      rcases hp with hp | hp
      · rw [hpa] at hp; cases hp
      · rw [(blank_iff_blankB rest).mp hbl] at hp; cases hp
  · rintro ⟨c, rest, ⟨hi, hma, hnt⟩, hp⟩
    refine ⟨⟨⟨hi, (isBulletMarker_iff _).mpr ⟨c, rest, hma⟩⟩, ?_⟩, ?_⟩
    · right
      cases hb : thematicBodyB (line.drop start)
      · rfl
      · exact absurd ((ListStartsSpec.thematicBodyB_iff_IsThematic _).mp hb) hnt
    · rw [bullet_rest hma]
      cases hpa : top.isPara
      · left; rfl
      · right
        cases hb : blankB rest
        · rfl
        · exact absurd ⟨hpa, (blank_iff_blankB rest).mpr hb⟩ hp

/-- `is_olist_start` on a stack without lists (`adj_ws = None`, no `skip_whitespace_check`) -/
theorem olist_free {st : Stack} (hOK : StackOK st) (hf : ListFree st) {top : Entry} {r : Stack} (h : st.reverse = top :: r)
    (line : Str) (start : Nat) (ews : Str) :
    ∃ res, isOlistStart st line (start : Int) ews false none = .ok res ∧
      (res.isStart = true ↔
        ∃ ds dl rest, ItemStart (colsFrom 0 ews) (line.drop start) (.ordered ds dl) rest ∧
          ¬ (top.isPara = true ∧ (Blank rest ∨ ds ≠ ['1']))) := by
  refine ⟨_, by rw [isOlistStart_nat, isOlistStartN_eval hOK h], ?_⟩
  rw [olistPure_isStart]
  have h1 : top.isList = false := hf top (StackOK.mem_of_rev h (List.mem_cons_self ..))
  have h2 := optFree hf h 0
  rw [cpPure_free h1 h2, paraRefuses_free h2, blockWithin_free h2]
  simp only [adjustPure, exWsOf, Option.getD_none, Bool.or_false, Nat.add_zero, Bool.not_false, Bool.and_true,
    Bool.and_eq_true, Bool.not_eq_true', Bool.and_eq_false_iff, Bool.or_eq_false_iff]
  rw [lenLe_iff_cols]
  constructor
  · rintro ⟨⟨hi, hm⟩, hp⟩
    obtain ⟨ds, dl, rest, hma⟩ := (isOrderedMarker_iff _).mp hm
    refine ⟨ds, dl, rest, ⟨hi, hma, ordered_not_thematic hma⟩, ?_⟩
    rintro ⟨hpa, hbn⟩
    rw [(ordered_parts hma).2.2, notOneB_eq hma] at hp
    rcases hp with hp | ⟨hp1, hp2⟩
    · rw [hpa] at hp; cases hp
    · rcases hbn with hbl | hne
      · rw [(blank_iff_blankB rest).mp hbl] at hp1; cases hp1
      · simp only [bne_eq_false_iff_eq] at hp2
        exact hne hp2
  · rintro ⟨ds, dl, rest, ⟨hi, hma, -⟩, hp⟩
    refine ⟨⟨hi, (isOrderedMarker_iff _).mpr ⟨ds, dl, rest, hma⟩⟩, ?_⟩
    rw [(ordered_parts hma).2.2, notOneB_eq hma]
    cases hpa : top.isPara
    · left; rfl
    · right
      constructor
      · cases hb : blankB rest
        · rfl
        · exact absurd ⟨hpa, Or.inl ((blank_iff_blankB rest).mpr hb)⟩ hp
      · simp only [bne_eq_false_iff_eq]
        by_cases hne : ds = ['1']
        · exact hne
        · exact absurd ⟨hpa, Or.inr hne⟩ hp

/-! ## evaluation of concrete points -/

theorem isUlistStart_evalOK {st : Stack} (hOK : StackOK st) {top : Entry} {r : Stack} (h : st.reverse = top :: r)
    (line : Str) (n : Nat) (ews : Str) (skip : Bool) (adj : Option Str) :
    isUlistStart st line (n : Int) ews skip adj = .ok (ulistPure top r[0]? r[1]? line n ews skip adj) := by
  rw [isUlistStart_nat, isUlistStartN_eval hOK h]

theorem isOlistStart_evalOK {st : Stack} (hOK : StackOK st) {top : Entry} {r : Stack} (h : st.reverse = top :: r)
    (line : Str) (n : Nat) (ews : Str) (skip : Bool) (adj : Option Str) :
    isOlistStart st line (n : Int) ews skip adj = .ok (olistPure top r[0]? r[1]? line n ews skip adj) := by
  rw [isOlistStart_nat, isOlistStartN_eval hOK h]

/-- `ItemStart` from the three executable tests -/
theorem itemStart_of_decide {cols : Nat} {d : Str} {m : Marker} {rest : Str} (hc : cols ≤ 3)
    (hm : parseMarker d = some (m, rest)) (ht : ListStartsSpec.isThematicB d = false) : ItemStart cols d m rest :=
  ⟨hc, ListStartsSpec.parseMarker_sound hm, fun h => by rw [(ListStartsSpec.isThematicB_iff d).mpr h] at ht; cases ht⟩

/-- the recognisers on a stack whose only token is a paragraph / fenced / HTML block: `token_stack[-2]` -/
theorem phaseOne_single_err {st : Stack} {top : Entry} (h : st.reverse = [top])
    (hk : top.isPara = true ∨ top.kind = .fenced ∨ top.kind = .html) (line : Str) (me : Nat) (n1 : Bool)
    (hm : me < line.length) : phaseOne st line me n1 = .error .index := by
  unfold phaseOne
  dsimp only
  rw [extractSpacesVerified_eval (by omega), liftR_ok, negAt1 h, negAt2 h]
  simp only [bind_ok, List.getElem?_nil]
  rcases hk with hk | hk | hk
  · rw [if_pos hk]; rfl
  · have hp : top.isPara = false := by unfold Entry.isPara; rw [hk]; rfl
    rw [hp]
    simp [hk, pure_eq, bind_ok]
    rfl
  · have hp : top.isPara = false := by unfold Entry.isPara; rw [hk]; rfl
    rw [hp]
    simp [hk, pure_eq, bind_ok]
    rfl

theorem ulistCore_phaseOne_err {st : Stack} {line : Str} {start : Nat} {ews : Str} {skip : Bool} {cw : Str} {pi : Nat} {e : Err}
    (hc : (lenLe cw (3 + pi) || skip) = true) (hb : bulletB line start (thematicWs ews pi) = true)
    (hp : phaseOne st line start false = .error e) : ulistCore st line start ews skip cw pi = .error e := by
  unfold ulistCore
  have htw : (if pi ≠ 0 then List.drop pi ews else ews) = thematicWs ews pi := rfl
  rw [htw, if_pos hc, isStartUlist_eval, liftR_ok, hb]
  simp only [bind_ok, Bool.not_true, Bool.false_eq_true, ↓reduceIte]
  rw [hp]; rfl

theorem ulistCore_phaseTwo_err {st : Stack} {line : Str} {start : Nat} {ews : Str} {skip : Bool} {cw : Str} {pi : Nat} {e : Err}
    {after : Nat} {c : Char}
    (hc : (lenLe cw (3 + pi) || skip) = true) (hb : bulletB line start (thematicWs ews pi) = true)
    (hp : phaseOne st line start false = .ok (true, after)) (hch : charAt line start = .ok c)
    (h2 : phaseTwo st c true false after line start = .error e) : ulistCore st line start ews skip cw pi = .error e := by
  unfold ulistCore
  have htw : (if pi ≠ 0 then List.drop pi ews else ews) = thematicWs ews pi := rfl
  rw [htw, if_pos hc, isStartUlist_eval, liftR_ok, hb]
  simp only [bind_ok, Bool.not_true, Bool.false_eq_true, ↓reduceIte]
  rw [hp]
  simp only [bind_ok, Bool.not_true, Bool.false_eq_true, ↓reduceIte]
  rw [hch, liftR_ok]
  simp only [bind_ok]
  rw [h2]; rfl

/-- `list_character[-1]` of an empty `list_character` -/
theorem phaseTwo_nochar_err {st : Stack} {top t2 : Entry} {r2 : Stack} (h : st.reverse = top :: t2 :: r2)
    (hp : top.isPara = true) (hl : t2.isList = true) (ho : t2.isOrdered = false) (hc : t2.listChar = []) (xx : Char)
    (n1 : Bool) (after : Nat) (line : Str) (start : Nat) :
    phaseTwo st xx true n1 after line start = .error .index := by
  unfold phaseTwo
  rw [negAt1 h]
  simp only [bind_ok, hp, ↓reduceIte]
  unfold startsWithinPara
  rw [negAt2 h]
  simp only [List.getElem?_cons_zero, bind_ok, hl, ho, hc, lastChar, Bool.not_true, Bool.false_eq_true, ↓reduceIte,
    Bool.and_false, List.getLast?_nil]
  rfl

end Verif.Model.ListStarts
