/-
  C04 helper: removing a point token (and renumbering the later back-pointers) keeps a stream accepted.
-/
import Verif.Lemmas.WellFormed
namespace Verif.Lemmas.WellFormed
open Verif.Model.WellFormed

def shIdx (k j : Nat) : Nat := if j > k then j - 1 else j

def shStack (k : Nat) (st : Stack) : Stack := st.map fun x => (shIdx k x.1, x.2)

theorem parent_shStack (k : Nat) (st : Stack) : parent (shStack k st) = parent st := by
  cases st <;> simp [shStack, parent]

theorem shiftTok_atom {k : Nat} {t : Tok} (h : t.kind = .atom) : shiftTok k t = t := by
  simp [shiftTok, h]
theorem shiftTok_start {k : Nat} {t : Tok} (h : t.kind = .start) : shiftTok k t = t := by
  simp [shiftTok, h]
theorem shiftTok_end {k p : Nat} {t : Tok} (h : t.kind = .end_ p) :
    (shiftTok k t).kind = .end_ (shIdx k p) ∧ (shiftTok k t).name = t.name ∧ (shiftTok k t).cls = t.cls := by
  simp only [shiftTok, h, shIdx]
  by_cases hp : p > k <;> simp [hp, h]

theorem gStep_shift {P : Spec} {k : Nat}
    (hEnd : ∀ j s e, P.endOK j s e = true → P.endOK (shIdx k j) s (shiftTok k e) = true)
    {st st' : Stack} {i : Nat} {t : Tok} (hk : k ≤ i) (h : gStep P st (i + 1) t = some st') :
    gStep P (shStack k st) i (shiftTok k t) = some (shStack k st') := by
  unfold gStep at h
  split at h
  · rename_i hat
    rw [shiftTok_atom hat]
    unfold gStep
    simp only [hat, parent_shStack]
    split at h
    · rename_i ha; simp only [Option.some.injEq] at h; subst h; simp [ha]
    · simp at h
  · rename_i hst
    rw [shiftTok_start hst]
    unfold gStep
    simp only [hst, parent_shStack]
    split at h
    · rename_i ha
      simp only [Option.some.injEq] at h; subst h
      have : shIdx k (i + 1) = i := by simp only [shIdx]; split <;> omega
      simp [ha, shStack, this]
    · simp at h
  · rename_i p hen
    have hs := shiftTok_end (k := k) hen
    unfold gStep
    rw [hs.1]
    split at h
    · simp at h
    · rename_i j s r
      split at h
      · rename_i hE
        simp only [Option.some.injEq] at h; subst h
        simp [shStack, hEnd j s t hE]
      · simp at h

theorem gRun_shift {P : Spec} {k : Nat}
    (hEnd : ∀ j s e, P.endOK j s e = true → P.endOK (shIdx k j) s (shiftTok k e) = true) :
    ∀ (ts : List Tok) (st fin : Stack) (i : Nat), k ≤ i → gRun P st (i + 1) ts = some fin →
      gRun P (shStack k st) i (ts.map (shiftTok k)) = some (shStack k fin)
  | [], st, fin, i, _, h => by
    simp only [gRun, Option.some.injEq] at h; subst h; simp [gRun]
  | t :: ts, st, fin, i, hk, h => by
    simp only [gRun] at h
    cases hs : gStep P st (i + 1) t with
    | none => simp [hs] at h
    | some st' =>
      simp only [hs, Option.bind_some] at h
      simp only [List.map_cons, gRun, gStep_shift hEnd hk hs, Option.bind_some]
      exact gRun_shift hEnd ts st' fin (i + 1) (by omega) h

theorem gStep_bound {P : Spec} {st st' : Stack} {i : Nat} {t : Tok}
    (hb : ∀ x ∈ st, x.1 < i) (h : gStep P st i t = some st') : ∀ x ∈ st', x.1 < i + 1 := by
  unfold gStep at h
  split at h
  · split at h
    · simp only [Option.some.injEq] at h; subst h
      intro x hx; have := hb x hx; omega
    · simp at h
  · split at h
    · simp only [Option.some.injEq] at h; subst h
      intro x hx
      simp only [List.mem_cons] at hx
      rcases hx with rfl | hx
      · simp
      · have := hb x hx; omega
    · simp at h
  · split at h
    · simp at h
    · split at h
      · simp only [Option.some.injEq] at h; subst h
        intro x hx; have := hb x (List.mem_cons_of_mem _ hx); omega
      · simp at h

theorem gRun_bound {P : Spec} : ∀ (ts : List Tok) (st fin : Stack) (i : Nat),
    (∀ x ∈ st, x.1 < i) → gRun P st i ts = some fin → ∀ x ∈ fin, x.1 < i + ts.length
  | [], st, fin, i, hb, h => by
    simp only [gRun, Option.some.injEq] at h; subst h; simpa using hb
  | t :: ts, st, fin, i, hb, h => by
    simp only [gRun] at h
    cases hs : gStep P st i t with
    | none => simp [hs] at h
    | some st' =>
      simp only [hs, Option.bind_some] at h
      have := gRun_bound ts st' fin (i + 1) (gStep_bound hb hs) h
      intro x hx; have := this x hx; simp only [List.length_cons]; omega

theorem shStack_id {k : Nat} {st : Stack} (h : ∀ x ∈ st, x.1 < k) : shStack k st = st := by
  unfold shStack
  conv => rhs; rw [← List.map_id st]
  apply List.map_congr_left
  intro x hx
  have := h x hx
  have : shIdx k x.1 = x.1 := by simp only [shIdx]; split <;> omega
  simp [this]

/-- generic: dropping an atom keeps the tree run accepting -/
theorem gRun_drop {P : Spec} (pre post : List Tok) (a : Tok)
    (hEnd : ∀ j s e, P.endOK j s e = true → P.endOK (shIdx pre.length j) s (shiftTok pre.length e) = true)
    (ha : a.kind = .atom) (h : gRun P [] 0 (pre ++ a :: post) = some []) :
    gRun P [] 0 (pre ++ post.map (shiftTok pre.length)) = some [] := by
  rw [gRun_append] at h ⊢
  cases h1 : gRun P [] 0 pre with
  | none => simp [h1] at h
  | some st =>
    simp only [h1, Option.bind_some, Nat.zero_add, gRun] at h ⊢
    have hb : ∀ x ∈ st, x.1 < pre.length := by
      have := gRun_bound pre [] st 0 (by simp) h1
      simpa using this
    cases h2 : gStep P st pre.length a with
    | none => simp [h2] at h
    | some st2 =>
      simp only [h2, Option.bind_some] at h
      have : st2 = st := by
        unfold gStep at h2
        simp only [ha] at h2
        split at h2
        · simp only [Option.some.injEq] at h2; exact h2.symm
        · simp at h2
      subst this
      have := gRun_shift hEnd post st2 [] pre.length (Nat.le_refl _) h
      rw [shStack_id hb] at this
      simpa [shStack] using this

theorem wfSpec_shift (k j : Nat) (s e : Tok) (h : wfSpec.endOK j s e = true) :
    wfSpec.endOK (shIdx k j) s (shiftTok k e) = true := by
  simp only [wfSpec, Spec.and, balSpec, clsSpec, Bool.and_true, Bool.and_eq_true, beq_iff_eq] at h ⊢
  have := shiftTok_end (k := k) h.1
  exact ⟨this.1, by rw [this.2.1]; exact h.2⟩

/-! positional part -/

theorem posRun_append : ∀ (xs ys : List Tok) (ph : Phase) (i : Nat),
    posRun ph i (xs ++ ys) = (posRun ph i xs).bind fun ph' => posRun ph' (i + xs.length) ys
  | [], ys, ph, i => by simp [posRun]
  | x :: xs, ys, ph, i => by
    simp only [List.cons_append, posRun, List.length_cons]
    cases posStep ph i x with
    | error r => simp
    | ok ph' =>
      simp only
      rw [posRun_append xs ys ph' (i + 1)]
      congr 1; funext p; congr 1; omega

/-- `ple a b`: phase `a` allows at most what phase `b` allows -/
def ple : Phase → Phase → Bool
  | _, .body => true
  | .afterEOS, .afterEOS => true
  | .afterPragma, .afterEOS => true
  | .afterPragma, .afterPragma => true
  | _, _ => false

theorem isFront_shift (k : Nat) (t : Tok) : isFront (shiftTok k t) = isFront t := by
  unfold shiftTok isFront
  split
  · rename_i p hp
    have e1 : ∀ q, (Kind.end_ q == Kind.atom) = false := by intro q; rfl
    split <;> simp [hp, e1]
  · rfl
theorem isEOS_shift (k : Nat) (t : Tok) : isEOS (shiftTok k t) = isEOS t := by
  unfold shiftTok isEOS
  split
  · rename_i p hp
    have e1 : ∀ q, (Kind.end_ q == Kind.atom) = false := by intro q; rfl
    split <;> simp [hp, e1]
  · rfl
theorem isPragma_shift (k : Nat) (t : Tok) : isPragma (shiftTok k t) = isPragma t := by
  unfold shiftTok isPragma
  split
  · rename_i p hp
    have e1 : ∀ q, (Kind.end_ q == Kind.atom) = false := by intro q; rfl
    split <;> simp [hp, e1]
  · rfl

theorem posStep_mono {k : Nat} {a b a' : Phase} {i j : Nat} {t : Tok} (hle : ple a b = true)
    (h : posStep a (i + 1) t = .ok a') :
    ∃ b', posStep b j (shiftTok k t) = .ok b' ∧ ple a' b' = true := by
  unfold posStep at h ⊢
  simp only [isFront_shift, isEOS_shift, isPragma_shift]
  cases a <;> cases b <;> simp only [ple] at hle <;> try (simp at hle)
  all_goals
    by_cases hf : isFront t = true <;> by_cases hp : isPragma t = true <;> by_cases he : isEOS t = true <;>
      simp_all [ple, pragma_not_front, pragma_not_eos, eos_not_front] <;> (try subst h) <;> (try rfl)

theorem posRun_mono {k : Nat} : ∀ (ts : List Tok) (a b : Phase) (i j : Nat), ple a b = true →
    (posRun a (i + 1) ts).isSome = true → (posRun b j (ts.map (shiftTok k))).isSome = true
  | [], a, b, i, j, _, _ => by simp [posRun]
  | t :: ts, a, b, i, j, hle, h => by
    simp only [posRun] at h
    cases hs : posStep a (i + 1) t with
    | error r => simp [hs] at h
    | ok a' =>
      simp only [hs] at h
      obtain ⟨b', hb', hle'⟩ := posStep_mono (k := k) (j := j) hle hs
      simp only [List.map_cons, posRun, hb']
      exact posRun_mono ts a' b' (i + 1) (j + 1) hle' h

theorem posStep_ple {ph ph' : Phase} {i : Nat} {t : Tok} (h : posStep ph i t = .ok ph') : ple ph' ph = true := by
  unfold posStep at h
  cases ph <;> simp only at h
  · split at h
    · cases h
    · split at h
      · cases h; rfl
      · split at h <;> (cases h; rfl)
  · split at h
    · cases h; rfl
    · cases h
  · cases h

theorem posRun_drop (pre post : List Tok) (a : Tok)
    (h : (posRun .body 0 (pre ++ a :: post)).isSome = true) :
    (posRun .body 0 (pre ++ post.map (shiftTok pre.length))).isSome = true := by
  rw [posRun_append] at h ⊢
  cases h1 : posRun .body 0 pre with
  | none => simp [h1] at h
  | some ph =>
    simp only [h1, Option.bind_some, Nat.zero_add, posRun] at h ⊢
    cases h2 : posStep ph pre.length a with
    | error r => simp [h2] at h
    | ok ph2 =>
      simp only [h2] at h
      exact posRun_mono post ph2 ph pre.length pre.length (posStep_ple h2) h

theorem dropAt_eq {ts : List Tok} {k : Nat} {a : Tok} (h : ts[k]? = some a) :
    ∃ pre post, ts = pre ++ a :: post ∧ pre.length = k ∧ dropAt ts k = pre ++ post.map (shiftTok k) := by
  have hk : k < ts.length := by
    rcases Nat.lt_or_ge k ts.length with h' | h'
    · exact h'
    · rw [List.getElem?_eq_none h'] at h; cases h
  have hget : ts[k] = a := by
    rw [List.getElem?_eq_getElem hk] at h; exact Option.some.inj h
  refine ⟨ts.take k, ts.drop (k + 1), ?_, ?_, rfl⟩
  · rw [← hget, List.getElem_cons_drop hk, List.take_append_drop]
  · rw [List.length_take]; omega

end Verif.Lemmas.WellFormed
