/-
  Locality: tokens that differ in style fields only leave the same context behind.
-/
import Verif.Lemmas.RegenLeafHandlers
import Verif.Model.RegenLeafSpec
namespace Verif.Lemmas.RegenLeaf
open Verif.Model Verif.Model.RegenLeaf Verif.Model.RegenLeafSpec
open Verif.Model.Codec (Str)

theorem styleEq_prevView {t t' : Tok} (h : StyleEq t t') : prevView (some t) = prevView (some t') := by
  cases h <;> rfl

theorem styleEq_forced {t t' : Tok} (h : StyleEq t t') : forcedFenceEnd t = forcedFenceEnd t' := by
  cases h <;> rfl

theorem runMore_prev (more : Bool) (c : Ctx) (p1 p2 : Option Tok) (h : prevView p1 = prevView p2) :
    ∀ (ts : List Tok), runMore more c p1 ts = runMore more c p2 ts
  | [] => rfl
  | t :: ts => by rw [runMore, runMore, process_prev c p1 p2 _ t h]

/-- results of the text handler: the context does not depend on the token's own `extracted_whitespace` -/
theorem hText_ctx (c : Ctx) (tt ew ew' : Str) (e : Option Str) (s s' : Str) (c1 c1' : Ctx)
    (h : hText c tt ew e = .ok (s, c1)) (h' : hText c tt ew' e = .ok (s', c1')) : c1 = c1' := by
  unfold hText at h h'
  cases ht : c.top with
  | error er => rw [ht] at h; cases h
  | ok t =>
    rw [ht] at h h'
    simp only at h h'
    by_cases hl : t.isLink = true
    · rw [if_pos hl] at h h'
      simp only [Except.ok.injEq, Prod.mk.injEq] at h h'
      rw [← h.2, ← h'.2]
    · rw [if_neg hl] at h h'
      cases hm : liftC (Codec.removeAllN true tt) with
      | error er => rw [hm] at h; cases h
      | ok main =>
        rw [hm] at h h'
        simp only at h h'
        cases hw : liftC (Codec.removeAll ew) with
        | error er => rw [hw] at h; cases h
        | ok lead =>
          cases hw' : liftC (Codec.removeAll ew') with
          | error er => rw [hw'] at h'; cases h'
          | ok lead' =>
            rw [hw] at h
            rw [hw'] at h'
            simp only at h h'
            cases t with
            | icode cew ind =>
              -- the recombined text depends on the leading white space, the context does not
              simp only at h h'
              cases hr : recombine main (cew ++ lead ++ ind) 0 true 0 false with
              | error er => rw [hr] at h; cases h
              | ok r =>
                cases hr' : recombine main (cew ++ lead' ++ ind) 0 true 0 false with
                | error er => rw [hr'] at h'; cases h'
                | ok r' =>
                  rw [hr] at h; rw [hr'] at h'
                  simp only [Except.ok.injEq, Prod.mk.injEq] at h h'
                  rw [← h.2, ← h'.2]
            | html =>
              simp only [Except.ok.injEq, Prod.mk.injEq] at h h'
              rw [← h.2, ← h'.2]
            | para id pew fin =>
              simp only at h h'
              cases hp : paraText c id pew main e with
              | error er => rw [hp] at h; cases h
              | ok r =>
                rw [hp] at h h'
                simp only [Except.ok.injEq, Prod.mk.injEq] at h h'
                rw [← h.2, ← h'.2]
            | setext hc n fin =>
              simp only at h h'
              cases hp : setextText main e with
              | error er => rw [hp] at h; cases h
              | ok r =>
                rw [hp] at h h'
                simp only [Except.ok.injEq, Prod.mk.injEq] at h h'
                rw [← h.2, ← h'.2]
            | atx =>
              simp only [Except.ok.injEq, Prod.mk.injEq] at h h'
              rw [← h.2, ← h'.2]
            | fcode =>
              simp only [Except.ok.injEq, Prod.mk.injEq] at h h'
              rw [← h.2, ← h'.2]
            | link => exact absurd rfl hl

theorem hAtx_ctx {c c1 : Ctx} {ew s : Str} {h : Int} (hh : hAtx c ew h = .ok (s, c1)) : c1 = c.push .atx := by
  unfold hAtx at hh
  cases hr : repeatString ['#'] h with
  | error e => rw [hr] at hh; cases hh
  | ok r => rw [hr] at hh; simp only [Except.ok.injEq, Prod.mk.injEq] at hh; exact hh.2.symm

theorem hFcode_ctx {c c1 : Ctx} {ew fc s a b cc d e : Str} {n : Int} (hh : hFcode c ew fc n a b cc d e = .ok (s, c1)) : c1 = c.push .fcode := by
  unfold hFcode at hh
  cases hr : repeatString fc n with
  | error er => rw [hr] at hh; cases hh
  | ok r => rw [hr] at hh; simp only [Except.ok.injEq, Prod.mk.injEq] at hh; exact hh.2.symm

theorem hEmph_ctx {c c1 : Ctx} {ch s : Str} {n : Int} (hh : hEmph c ch n = .ok (s, c1)) : c1 = c := by
  unfold hEmph at hh
  cases ht : c.top with
  | error e => rw [ht] at hh; cases hh
  | ok t =>
    rw [ht] at hh
    simp only at hh
    split at hh
    · simp only [Except.ok.injEq, Prod.mk.injEq] at hh; exact hh.2.symm
    · cases hr : repeatString ch n with
      | error e => rw [hr] at hh; cases hh
      | ok r => rw [hr] at hh; simp only [Except.ok.injEq, Prod.mk.injEq] at hh; exact hh.2.symm

theorem hEndAtx_ctx {c c1 : Ctx} {ew s : Str} {x : Option Str} {tr : Int} (hh : hEndAtx c ew x tr = .ok (s, c1)) : c.pop = .ok c1 := by
  unfold hEndAtx at hh
  cases hp : c.pop with
  | error e => rw [hp] at hh; cases hh
  | ok c' =>
    rw [hp] at hh
    simp only at hh
    cases x with
    | none => cases hh
    | some xx =>
      simp only at hh
      split at hh
      · cases hh
      · simp only [Except.ok.injEq, Prod.mk.injEq] at hh; rw [hh.2]

theorem hEndFcode_ctx {c c1 : Ctx} {prev : Option Tok} {hn : Bool} {ew s fc : Str} {xd : Option Str} {forced : Bool}
    (hh : hEndFcode c prev hn ew xd forced fc = .ok (s, c1)) : c.pop = .ok c1 := by
  unfold hEndFcode at hh
  cases hp : c.pop with
  | error e => rw [hp] at hh; cases hh
  | ok c' =>
    rw [hp] at hh
    simp only at hh
    split at hh
    · split at hh
      · cases hh
      · split at hh
        · cases hh
        · split at hh
          · cases hh
          · simp only [Except.ok.injEq, Prod.mk.injEq] at hh; rw [hh.2]
      · cases hh
    · split at hh
      · cases hh
      · simp only [Except.ok.injEq, Prod.mk.injEq] at hh; rw [hh.2]

/-- **the context a token leaves behind does not depend on its style fields** -/
theorem process_styleEq_ctx {t t' : Tok} (hst : StyleEq t t') (c : Ctx) (prev prev' : Option Tok) (hn hn' : Bool) (s s' : Str) (c1 c1' : Ctx)
    (h : process c prev hn t = .ok (s, c1)) (h' : process c prev' hn' t' = .ok (s', c1')) : c1 = c1' := by
  cases hst with
  | refl t =>
    -- the same token: the context is a function of the token and the context (`previous_token` / `next_token` only choose the text)
    cases t
    case endFcode ew xd forced fc =>
      simp only [process] at h h'
      have := hEndFcode_ctx h; have := hEndFcode_ctx h'
      simp_all
    all_goals (simp only [process] at h h'; rw [h] at h'; simp only [Except.ok.injEq, Prod.mk.injEq] at h'; exact h'.2)
  | atx ew ew' hh hh' tr tr' =>
    simp only [process] at h h'
    rw [hAtx_ctx h, hAtx_ctx h']
  | endAtx ew ew' x x' tr tr' =>
    simp only [process] at h h'
    have := hEndAtx_ctx h; have := hEndAtx_ctx h'
    simp_all
  | tbreak ew ew' r r' =>
    simp only [process, Except.ok.injEq, Prod.mk.injEq] at h h'
    rw [← h.2, ← h'.2]
  | blank ew ew' =>
    simp only [process, Except.ok.injEq, Prod.mk.injEq] at h h'
    rw [← h.2, ← h'.2]
  | fcode ew ew' fc fc' n n' a b cc d e a' b' cc' d' e' =>
    simp only [process] at h h'
    rw [hFcode_ctx h, hFcode_ctx h']
  | endFcode ew ew' xd xd' forced fc fc' =>
    simp only [process] at h h'
    have := hEndFcode_ctx h; have := hEndFcode_ctx h'
    simp_all
  | emph ch ch' n n' =>
    simp only [process] at h h'
    rw [hEmph_ctx h, hEmph_ctx h']
  | endEmph ch ch' n n' =>
    simp only [process] at h h'
    rw [hEmph_ctx h, hEmph_ctx h']
  | textEw tt ew ew' e =>
    simp only [process] at h h'
    exact hText_ctx c tt ew ew' e s s' c1 c1' h h'

end Verif.Lemmas.RegenLeaf
