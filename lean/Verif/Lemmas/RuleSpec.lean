/-
  Helper lemmas for Verif.Props.C06: numbered lines, `perLine`, tab columns (faithful = documented),
  the editor view of lines.
-/
import Verif.Lemmas.LineRules
import Verif.Model.RuleSpec.Lines
import Verif.Model.RuleSpec.Headings
import Verif.Model.RuleSpec.Blocks
namespace Verif.Model.LineRules
open Verif.Model

/-! ## tab columns: faithful = documented -/
theorem tabIdx_shift (l : Line) (k : Nat) : tabIdx l (k + 1) = (tabIdx l k).map (· + 1) := by
  induction l generalizing k with
  | nil => rfl
  | cons c cs ih =>
    simp only [tabIdx]
    split
    · simp [ih]
    · exact ih (k + 1)

theorem tabCols_eq (l : Line) (col : Nat) :
    RuleSpec.tabCols l col = (tabIdx l 0).map (fun k => col + (detabGo col (l.take k)).length + 1) := by
  induction l generalizing col with
  | nil => rfl
  | cons c cs ih =>
    simp only [RuleSpec.tabCols, tabIdx]
    split
    · rename_i h
      have hc : c = '\t' := by simpa using h
      subst hc
      simp only [List.map_cons, List.take_zero, detabGo, List.length_nil, Nat.add_zero, Nat.zero_add]
      rw [tabIdx_shift, List.map_map, ih]
      congr 1
      apply List.map_congr_left
      intro k _
      simp only [Function.comp, List.take_succ_cons, detabGo]
      simp
      omega
    · rename_i h
      rw [tabIdx_shift, List.map_map, ih]
      apply List.map_congr_left
      intro k _
      simp only [Function.comp, List.take_succ_cons, detabGo, h]
      simp
      omega

theorem scan010_cols_eq (l : Line) :
    (tabIdx l 0).map (fun k => (detab (l.take k)).length + 1) = RuleSpec.tabCols l 0 := by
  rw [tabCols_eq]; simp [detab]

theorem tabCols_nil_of_no_tab (l : Line) (col : Nat) (h : l.contains '\t' = false) : RuleSpec.tabCols l col = [] := by
  induction l generalizing col with
  | nil => rfl
  | cons c cs ih =>
    simp only [List.contains_cons, Bool.or_eq_false_iff] at h
    simp only [RuleSpec.tabCols]
    have : (c == '\t') = false := by
      have := h.1
      rw [Bool.eq_false_iff] at this ⊢
      intro e; apply this; simp at e; simp [e]
    simp [this, ih _ h.2]

end Verif.Model.LineRules

namespace Verif.Model.RuleSpec
open Verif.Model.LeanMark

theorem mem_numberedFrom {α : Type} (ls : List α) (n i : Nat) (x : α) :
    (i, x) ∈ numberedFrom n ls ↔ n ≤ i ∧ ls[i - n]? = some x := by
  induction ls generalizing n with
  | nil => simp [numberedFrom]
  | cons y ys ih =>
    simp only [numberedFrom, List.mem_cons, Prod.mk.injEq, ih]
    constructor
    · rintro (⟨rfl, rfl⟩ | ⟨h1, h2⟩)
      · simp
      · refine ⟨by omega, ?_⟩
        have : i - n = (i - (n + 1)) + 1 := by omega
        rw [this]; simpa using h2
    · rintro ⟨h1, h2⟩
      by_cases e : i = n
      · subst e; simp at h2; exact Or.inl ⟨rfl, h2.symm⟩
      · right
        refine ⟨by omega, ?_⟩
        have : i - n = (i - (n + 1)) + 1 := by omega
        rw [this] at h2; simpa using h2

theorem mem_numbered_one {α : Type} (ls : List α) (i : Nat) (x : α) :
    (i, x) ∈ numberedFrom 1 ls ↔ 1 ≤ i ∧ ls[i - 1]? = some x := mem_numberedFrom ls 1 i x

theorem lineAt_eq_some (ls : List Line) (i : Nat) (l : Line) :
    lineAt ls i = some l ↔ 1 ≤ i ∧ ls[i - 1]? = some l := by
  unfold lineAt
  by_cases h : i = 0
  · simp [h]
  · simp [h]; omega

/-- a verdict of a per-line rule comes from exactly one line of the document -/
theorem mem_perLine (f : Nat → Line → List Hit) (ls : List Line) (h : Hit) :
    h ∈ perLine f ls ↔ ∃ i l, lineAt ls i = some l ∧ h ∈ f i l := by
  unfold perLine
  simp only [List.mem_flatMap, Prod.exists]
  constructor
  · rintro ⟨i, l, hm, hh⟩
    exact ⟨i, l, (lineAt_eq_some ls i l).2 ((mem_numbered_one ls i l).1 hm), hh⟩
  · rintro ⟨i, l, hl, hh⟩
    exact ⟨i, l, (mem_numbered_one ls i l).2 ((lineAt_eq_some ls i l).1 hl), hh⟩

theorem numberedFrom_map_fst_length {α : Type} (ls : List α) (n : Nat) : (numberedFrom n ls).length = ls.length := by
  induction ls generalizing n with
  | nil => rfl
  | cons y ys ih => simp [numberedFrom, ih]

/-! ## the editor view of lines -/
theorem getLast?_cons_eq (c x : Char) (cs : List Char) :
    (c :: cs).getLast? = some x ↔ (cs = [] ∧ c = x) ∨ cs.getLast? = some x := by
  cases cs with
  | nil => simp
  | cons d ds => simp [List.getLast?_cons_cons]

theorem splitLinesGo_last_empty (doc acc : List Char) (out : List Line) :
    (splitLinesGo doc acc out).getLast? = some [] ↔ (doc = [] ∧ acc = []) ∨ doc.getLast? = some '\n' := by
  induction doc generalizing acc out with
  | nil => simp [splitLinesGo]
  | cons c cs ih =>
    simp only [splitLinesGo]
    split
    · rename_i h
      have hc : c = '\n' := by simpa using h
      subst hc
      rw [ih, getLast?_cons_eq]
      simp
    · rename_i h
      have hc : c ≠ '\n' := by simpa using h
      rw [ih, getLast?_cons_eq]
      simp [hc]

theorem splitLinesGo_ne_nil (doc acc : List Char) (out : List Line) : splitLinesGo doc acc out ≠ [] := by
  induction doc generalizing acc out with
  | nil => simp [splitLinesGo]
  | cons c cs ih => simp only [splitLinesGo]; split <;> exact ih _ _

/-- the last line of the editor view is empty iff the document is empty or ends with a newline character -/
theorem rawLines_last_empty (doc : List Char) :
    (rawLines doc).getLast? = some [] ↔ doc = [] ∨ doc.getLast? = some '\n' := by
  unfold rawLines
  rw [splitLinesGo_last_empty]; simp

end Verif.Model.RuleSpec
