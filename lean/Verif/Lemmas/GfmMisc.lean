/-
  Small facts used by `Verif.Props.GfmRender`: the node of a start token, sufficiency of the scan fuel.
-/
import Verif.Lemmas.GfmReset
namespace Verif.Lemmas.GfmMisc
open Verif.Model.GfmRender Verif.Lemmas.GfmBasic Verif.Lemmas.GfmCalcTotal

/-- every start token of a well-formed forest has its content and its end token behind it -/
theorem start_node {par : Option Kind} {a : Nat} {F : List Tok} (h : GForest par a F) :
    ∀ (j : Nat) (s : Tok) (k : Kind), F[j]? = some s → s.kind? = some k → Kind.isStart k = true →
      ∃ body e f rest, F.drop (j + 1) = body ++ e :: rest ∧ GForest (some k) (a + j + 1) body ∧
        e.body = .end_ k (a + j) f := by
  induction h with
  | nil => intro j s k hj; simp at hj
  | @atom par a t k0 rest hk0 hst0 _ _ ih =>
    intro j s k hj hk hst
    cases j with
    | zero =>
      simp only [List.getElem?_cons_zero, Option.some.injEq] at hj
      subst hj
      rw [hk0] at hk; cases hk
      rw [hst0] at hst; cases hst
    | succ j' =>
      simp only [List.getElem?_cons_succ] at hj
      obtain ⟨body, e, f, r, h1, h2, h3⟩ := ih j' s k hj hk hst
      refine ⟨body, e, f, r, by simpa using h1, ?_, ?_⟩
      · exact gforest_idx h2 (by omega)
      · rw [h3]; congr 1; omega
  | @node par a s0 k0 body0 e0 f0 rest0 hk0 _ _ hb0 he0 _ ihb ihr =>
    intro j s k hj hk hst
    cases j with
    | zero =>
      simp only [List.getElem?_cons_zero, Option.some.injEq] at hj
      subst hj
      rw [hk0] at hk; cases hk
      exact ⟨body0, e0, f0, rest0, by simp, by simpa using hb0, by simpa using he0⟩
    | succ j' =>
      simp only [List.getElem?_cons_succ] at hj
      rcases Nat.lt_or_ge j' body0.length with hlt | hge
      · rw [List.getElem?_append_left hlt] at hj
        obtain ⟨body, e, f, r, h1, h2, h3⟩ := ihb j' s k hj hk hst
        refine ⟨body, e, f, r ++ e0 :: rest0, ?_, gforest_idx h2 (by omega), by rw [h3]; congr 1; omega⟩
        simp only [List.drop_succ_cons]
        rw [List.drop_append_of_le_length (by omega), h1]
        simp
      · rw [List.getElem?_append_right hge] at hj
        rcases Nat.eq_or_lt_of_le hge with heq | hgt
        · rw [← heq] at hj
          simp only [Nat.sub_self, List.getElem?_cons_zero, Option.some.injEq] at hj
          subst hj
          obtain ⟨le, be⟩ := e0
          simp only at he0; subst he0
          simp [Tok.kind?, Body.kind?] at hk
        · have hj' : rest0[j' - body0.length - 1]? = some s := by
            have : j' - body0.length = (j' - body0.length - 1) + 1 := by omega
            rw [this, List.getElem?_cons_succ] at hj; exact hj
          obtain ⟨body, e, f, r, h1, h2, h3⟩ := ihr _ s k hj' hk hst
          refine ⟨body, e, f, r, ?_, gforest_idx h2 (by omega), by rw [h3]; congr 1; omega⟩
          simp only [List.drop_succ_cons]
          rw [List.drop_append, List.drop_of_length_le (by omega)]
          have e1 : j' + 1 - body0.length = (j' - body0.length - 1 + 1) + 1 := by omega
          simp only [List.nil_append, e1, List.drop_succ_cons]
          exact h1

theorem pyGet_ok_bound {α : Type} (l : List α) (i : Int) (a : α) (h : pyGet l i = .ok a) : -(l.length : Int) ≤ i := by
  unfold pyGet at h
  by_cases h0 : 0 ≤ i
  · omega
  · simp only [h0, if_false] at h
    by_cases h1 : 0 ≤ (l.length : Int) + i
    · omega
    · simp [h1] at h

theorem scanDownF_fuel {α : Type} (l : List α) (p : α → Bool) :
    ∀ (fuel : Nat) (i : Int), (i + l.length + 2).toNat < fuel →
      scanDownF l p fuel i ≠ .error .hang ∧ ∀ fuel', fuel ≤ fuel' → scanDownF l p fuel' i = scanDownF l p fuel i := by
  intro fuel
  induction fuel with
  | zero => intro i h; omega
  | succ f ih =>
    intro i h
    cases hg : pyGet l i with
    | error e =>
      have he : e ≠ .hang := by
        unfold pyGet at hg
        split at hg
        · split at hg <;> simp at hg; subst hg; simp
        · split at hg
          · split at hg <;> simp at hg; subst hg; simp
          · simp at hg; subst hg; simp
      refine ⟨by simp [scanDownF, hg, he], ?_⟩
      intro fuel' hf
      cases fuel' with
      | zero => omega
      | succ f' => simp [scanDownF, hg]
    | ok a =>
      have hb := pyGet_ok_bound l i a hg
      by_cases hp : p a = true
      · refine ⟨by simp [scanDownF, hg, hp], ?_⟩
        intro fuel' hf
        cases fuel' with
        | zero => omega
        | succ f' => simp [scanDownF, hg, hp]
      · have hlt : ((i - 1) + l.length + 2).toNat < f := by omega
        obtain ⟨h1, h2⟩ := ih (i - 1) hlt
        refine ⟨by simpa [scanDownF, hg, hp] using h1, ?_⟩
        intro fuel' hf
        cases fuel' with
        | zero => omega
        | succ f' =>
          simp only [scanDownF, hg, hp, Bool.false_eq_true, if_false]
          exact h2 f' (by omega)

theorem scanDown_fuel {α : Type} (l : List α) (p : α → Bool) (i : Int) (extra : Nat) :
    scanDownF l p ((i + l.length + 2).toNat + 1 + extra) i = scanDown l p i ∧ scanDown l p i ≠ .error .hang := by
  obtain ⟨h1, h2⟩ := scanDownF_fuel l p ((i + l.length + 2).toNat + 1) i (by omega)
  exact ⟨h2 _ (by omega), h1⟩

/-- the loop of `__handle_text_token_normal_enhanced`: a result other than fuel exhaustion does not depend on the fuel -/
theorem enhLoop_fuel (tt : Verif.Model.Codec.Str) : ∀ (f : Nat) (next : Nat) (pre cur : Verif.Model.Codec.Str)
    (lines : List Verif.Model.Codec.Str), enhLoop tt f next pre cur lines ≠ .error .hang →
    ∀ f', f ≤ f' → enhLoop tt f' next pre cur lines = enhLoop tt f next pre cur lines := by
  intro f
  induction f with
  | zero => intro next pre cur lines h; simp [enhLoop] at h
  | succ f ih =>
    intro next pre cur lines h f' hf
    cases f' with
    | zero => omega
    | succ f' =>
      simp only [enhLoop] at h ⊢
      by_cases h1 : next < tt.length
      · simp only [h1, if_true] at h ⊢
        by_cases h2 : (tt[next]? == some Verif.Model.Codec.AL) = true
        · simp only [h2, if_true] at h ⊢
          cases hc : collectUntil tt (findAL tt (findAL tt (next + 1) + 1).toNat + 1) with
          | none => rfl
          | some np =>
            obtain ⟨n', p'⟩ := np
            simp only [hc] at h ⊢
            exact ih _ _ _ _ h f' (by omega)
        · simp only [h2, Bool.false_eq_true, if_false] at h ⊢
          cases hc : collectUntil tt ((next : Int) + 1) with
          | none => rfl
          | some np =>
            obtain ⟨n', p'⟩ := np
            simp only [hc] at h ⊢
            exact ih _ _ _ _ h f' (by omega)
      · simp only [h1, if_false]

end Verif.Lemmas.GfmMisc
