import Verif.Model.LeafPos
import Verif.Lemmas.RecogSpec
/-
  Lemmas for the leaf-position model: what each recogniser guarantees about the character at `index_number`, the shape of the
  leading white space, and the relation between a column of the tab-expanded line and the physical line.
-/
namespace Verif.Lemmas.LeafPos
open Verif.Model.Recognisers Verif.Model.LeafPos

/-! ## the character the recogniser saw at `start` -/

theorem isCharAt_get {s : Str} {i : Nat} {c : Char} (h : isCharAt s i c = true) : s[i]? = some c := by
  unfold isCharAt at h
  split at h
  · next d hd => rw [hd]; simp only [beq_iff_eq] at h; rw [h]
  · cases h

theorem isCharAtOneOf_get {s : Str} {i : Nat} {cs : Str} (h : isCharAtOneOf s i cs = true) :
    ∃ c, s[i]? = some c ∧ c ∈ cs := by
  unfold isCharAtOneOf at h
  split at h
  · next d hd => exact ⟨d, hd, by simpa using h⟩
  · cases h

theorem charAt_ok {s : Str} {i : Nat} {c : Char} (h : charAt s i = .ok c) : s[i]? = some c := by
  unfold charAt at h
  split at h
  · next d hd => cases h; exact hd
  · cases h

theorem atx_char (L : Str) (i : Nat) (ws : Str) (skip : Bool) (r : Nat × Nat × Str)
    (h : isAtxHeading L i ws skip = .ok (some r)) : L[i]? = some '#' := by
  unfold isAtxHeading at h
  split at h
  · next hc =>
    simp only [Bool.and_eq_true] at hc
    exact isCharAt_get hc.2
  · cases h

theorem thematic_char (L : Str) (i : Nat) (ws : Str) (skip allow : Bool) (r : Char × Nat)
    (h : isThematicBreak L i ws skip allow = .ok (some r)) : L[i]? = some r.1 ∧ r.1 ∈ ['*', '_', '-'] := by
  unfold isThematicBreak at h
  simp only at h
  split at h
  · next hc =>
    simp only [Bool.and_eq_true] at hc
    obtain ⟨c, hc1, hc2⟩ := isCharAtOneOf_get hc.2
    split at h
    · cases h
    · next sc hsc =>
      have := charAt_ok hsc
      rw [hc1] at this
      cases this
      split at h
      · cases h
      · split at h
        · cases h; exact ⟨hc1, hc2⟩
        · cases h
  · cases h

theorem fencedCodeBlock_char (L : Str) (i : Nat) (ws : Str) (skip : Bool) (r : Nat × Nat × Nat)
    (h : isFencedCodeBlock L i ws skip = .ok (some r)) : ∃ c, L[i]? = some c ∧ c ∈ ['~', '`'] := by
  unfold isFencedCodeBlock at h
  split at h
  · next hc =>
    simp only [Bool.and_eq_true] at hc
    exact isCharAtOneOf_get hc.2
  · cases h

theorem fenceOpen_char (L : Str) (i : Nat) (ws : Str) (h : isFenceOpen L i ws = .ok true) :
    ∃ c, L[i]? = some c ∧ c ∈ ['~', '`'] := by
  unfold isFenceOpen at h
  cases hf : isFencedCodeBlock L i ws with
  | error e => rw [hf] at h; cases h
  | ok o =>
    cases o with
    | none => rw [hf] at h; cases h
    | some r => exact fencedCodeBlock_char L i ws false r hf

theorem setext_char (L : Str) (i : Nat) (ws : Str) (h : isSetextUnderline L i ws = .ok true) :
    ∃ c, L[i]? = some c ∧ c ∈ ['-', '='] := by
  unfold isSetextUnderline at h
  split at h
  · next hc =>
    simp only [Bool.and_eq_true] at hc
    exact isCharAtOneOf_get hc.2
  · cases h

/-! ## leading white space -/

theorem leadWs_idx_le (L : Str) : (leadWs L).1 ≤ L.length := by
  rw [leadWs_eq]; exact takeWhile_length_le _ _

theorem leadWs_len (L : Str) : (leadWs L).2.length = (leadWs L).1 := by rw [leadWs_eq]

theorem leadWs_take (L : Str) : L.take (leadWs L).1 = (leadWs L).2 := by
  rw [leadWs_eq]; exact take_takeWhile_length _ _

/-- the character at `index_number`, when there is one, is not a space or tab -/
theorem leadWs_next (L : Str) (c : Char) (h : L[(leadWs L).1]? = some c) : isWsChar c = false := by
  rw [leadWs_eq] at h
  simp only at h
  have hd : (L.drop (L.takeWhile isWsChar).length).head? = some c := by
    rw [List.head?_drop]; exact h
  rw [drop_takeWhile_length] at hd
  cases hh : L.dropWhile isWsChar with
  | nil => rw [hh] at hd; cases hd
  | cons a r =>
    rw [hh] at hd
    simp only [List.head?_cons, Option.some.injEq] at hd
    subst hd
    exact head_dropWhile_not hh

theorem leadWs_ws (L : Str) : ∀ x ∈ (leadWs L).2, isWsChar x = true := by
  rw [leadWs_eq]; exact takeWhile_all _ _

/-! ## positions inside `prefix ++ text` -/

theorem get_append_indent (P L : Str) (i : Nat) : (P ++ L)[i + P.length]? = L[i]? := by
  rw [List.getElem?_append_right (by omega)]
  congr 1; omega

/-! ## tab expansion -/

theorem expandTabs_no_tab (s : Str) (col : Nat) : TAB ∉ expandTabs col s := by
  induction s generalizing col with
  | nil => simp [expandTabs]
  | cons c cs ih =>
    simp only [expandTabs]
    split
    · intro h
      rcases List.mem_append.mp h with h | h
      · have := List.eq_of_mem_replicate h
        exact absurd this (by decide)
      · exact ih _ h
    · next hc =>
      intro h
      rcases List.mem_cons.mp h with h | h
      · exact hc (by rw [← h]; simp)
      · exact ih _ h

/-- a character of the tab-expanded line that is not a space is a character of the physical line, standing at that visual column -/
theorem expandTabs_source (s : Str) (col j : Nat) (c : Char) (h : (expandTabs col s)[j]? = some c) (hc : c ≠ SP) :
    ∃ k, s[k]? = some c ∧ (expandTabs col (s.take k)).length = j := by
  induction s generalizing col j with
  | nil => simp [expandTabs] at h
  | cons x xs ih =>
    simp only [expandTabs] at h
    split at h
    · next hx =>
      by_cases hj : j < (col + 4) / 4 * 4 - col
      · rw [List.getElem?_append_left (by simpa using hj)] at h
        rw [List.getElem?_replicate] at h
        simp only [hj, ↓reduceIte, Option.some.injEq] at h
        exact absurd h.symm hc
      · rw [List.getElem?_append_right (by simpa using Nat.le_of_not_lt hj)] at h
        simp only [List.length_replicate] at h
        obtain ⟨k, hk1, hk2⟩ := ih _ _ h
        refine ⟨k + 1, by simpa using hk1, ?_⟩
        simp only [List.take_succ_cons, expandTabs, hx, ↓reduceIte, List.length_append, List.length_replicate, hk2]
        omega
    · next hx =>
      cases j with
      | zero =>
        simp only [List.getElem?_cons_zero, Option.some.injEq] at h
        exact ⟨0, by simp [h], by simp [expandTabs]⟩
      | succ j =>
        simp only [List.getElem?_cons_succ] at h
        obtain ⟨k, hk1, hk2⟩ := ih _ _ h
        have hx' : (x == TAB) = false := by simpa using hx
        refine ⟨k + 1, by simpa using hk1, ?_⟩
        simp only [List.take_succ_cons, expandTabs, hx', Bool.false_eq_true, ↓reduceIte, List.length_cons, hk2]

theorem leafView_eq (orig : Str) (indent : Nat) :
    leafView orig indent = .ok (expandTabs 0 orig, (expandTabs 0 orig).drop indent) := by
  unfold leafView; rw [detabify_spec]

theorem calcLength_no_tab (w : Str) (n : Nat) (h : TAB ∉ w) : calcLength w n = w.length := by
  unfold calcLength
  suffices hs : ∀ n, w.foldl tabStep n = n + w.length by rw [hs]; omega
  induction w with
  | nil => intro n; rfl
  | cons c cs ih =>
    intro n
    have hc : (c == TAB) = false := by
      cases hh : c == TAB with
      | false => rfl
      | true => rw [beq_iff_eq] at hh; subst hh; exact absurd List.mem_cons_self h
    simp only [List.foldl_cons, tabStep, hc, Bool.false_eq_true, ↓reduceIte, List.length_cons]
    rw [ih (fun hm => h (List.mem_cons_of_mem _ hm))]
    omega

end Verif.Lemmas.LeafPos
