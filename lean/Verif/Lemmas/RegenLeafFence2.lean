/-
  The shape of a line the modelled closing-fence recogniser accepts (`LeafFields.fieldsFenceClose`, i.e.
  `__check_for_fenced_end`): indentation of white space of width ≤ 3, a run of the fence character (`~` or `` ` ``),
  trailing spaces / tabs — hence no `:` anywhere in it.
-/
import Verif.Lemmas.LeafFields
namespace Verif.Model.LeafFields
open Verif.Model.Recognisers

theorem mem_takeWhile_sat {p : Char → Bool} : ∀ {l : Str} {x : Char}, x ∈ l.takeWhile p → p x = true
  | [], _, h => by cases h
  | a :: l, x, h => by
    by_cases ha : p a = true
    · rw [List.takeWhile_cons_of_pos ha] at h
      rcases List.mem_cons.mp h with rfl | h
      · exact ha
      · exact mem_takeWhile_sat h
    · rw [List.takeWhile_cons_of_neg ha] at h; cases h

/-- **shape of an accepted closing fence line**: the stored indentation is white space of width ≤ 3, the fence character
is `~` or `` ` ``, the stored trailing piece is spaces / tabs only. -/
theorem fieldsFenceClose_shape (line : Str) (fc : Char) (fn : Nat) (f : FenceCloseFields)
    (h : fieldsFenceClose line fc fn = .ok (some f)) :
    (∀ x ∈ f.lead, isWsChar x = true) ∧ lenLe f.lead 3 = true ∧ (fc = '~' ∨ fc = '`') ∧ fn ≤ f.count ∧
    (∀ x ∈ f.trail, isWsChar x = true) := by
  unfold fieldsFenceClose at h
  rw [leadWs_eq] at h
  simp only at h
  cases hd : line.drop (line.takeWhile isWsChar).length with
  | nil => rw [isFencedCodeBlock_nil _ _ _ hd] at h; cases h
  | cons c r =>
    obtain ⟨hl, hc⟩ := drop_cons_of hd
    obtain ⟨hiJ, hJ, hrep⟩ := fence_head line _ c r hd
    rw [isFencedCodeBlock_eval line _ _ c r hd] at h
    by_cases hcond : (lenLe (List.takeWhile isWsChar line) 3 && ['~', '`'].contains c) = true
    · by_cases h3 : 3 ≤ ((c :: r).takeWhile (· == c)).length
      · rw [if_pos hcond, if_pos h3] at h
        simp only at h
        unfold extractSpacesVerified at h
        rw [extractSpaces_eq] at h
        simp only [hJ, ↓reduceIte] at h
        rw [charAt_lt hl, hc] at h
        simp only at h
        split at h
        · next hcond2 =>
          injection h with h
          injection h with h
          subst h
          simp only [Bool.and_eq_true, beq_iff_eq, ge_iff_le, decide_eq_true_eq] at hcond2
          obtain ⟨⟨⟨hfc, hcnt⟩, _⟩, _⟩ := hcond2
          subst hfc
          simp only [Bool.and_eq_true] at hcond
          refine ⟨fun x hx => (mem_takeWhile_sat hx), hcond.1, ?_, hcnt, ?_⟩
          · have := hcond.2
            simp only [List.contains_cons, List.contains_nil, Bool.or_false, Bool.or_eq_true, beq_iff_eq] at this
            exact this
          · intro x hx
            rw [slice_scanTo, wsContains_eq] at hx
            exact mem_takeWhile_sat hx
        · cases h
      · rw [if_pos hcond, if_neg h3] at h; cases h
    · rw [if_neg hcond] at h; cases h

/-- **an accepted closing fence line contains no `:`** (the hypothesis `regen_leaf_roundtrip` assumed). -/
theorem fieldsFenceClose_no_colon (line : Str) (fc : Char) (fn : Nat) (f : FenceCloseFields)
    (h : fieldsFenceClose line fc fn = .ok (some f)) : line.contains ':' = false := by
  obtain ⟨h1, _, h2, _, h3⟩ := fieldsFenceClose_shape line fc fn f h
  have hr := fieldsFenceClose_reassemble line fc fn f h
  have hws : isWsChar ':' = false := by decide
  cases hc : line.contains ':' with
  | false => rfl
  | true =>
    exfalso
    have hm : ':' ∈ line := by simpa using hc
    rw [← hr] at hm
    unfold FenceCloseFields.reassemble rep at hm
    simp only [List.mem_append, List.mem_replicate] at hm
    rcases hm with (hm | hm) | hm
    · have := h1 _ hm; rw [hws] at this; cases this
    · rcases h2 with e | e <;> (rw [e] at hm; exact absurd hm.2 (by decide))
    · have := h3 _ hm; rw [hws] at this; cases this

end Verif.Model.LeafFields
