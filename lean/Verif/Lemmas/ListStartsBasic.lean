/-
  Basic lemmas for the list-start model: stack indexing seen from the top, the guard `StackOK` the callers guarantee,
  and evaluation of every function of list_block_starts_helper.py as a pure function of the three topmost stack tokens.
-/
import Verif.Model.ListStarts
import Verif.Lemmas.Recognisers
import Verif.Lemmas.RecogSpec
namespace Verif.Model.ListStarts
open Verif.Model.Recognisers (Str charAt slice isCharAtOneOf isWsAt extractSpacesVerified calcLength lenLe isStartUlist isStartOlist
  SP TAB scanTo digits thematicBodyB)

/-- "returns normally" -/
def Returns {α : Type} (x : Except Err α) : Prop := ∃ r, x = .ok r

theorem Returns.ok {α : Type} (a : α) : Returns (Except.ok a : Except Err α) := ⟨a, rfl⟩
theorem Returns.pure {α : Type} (a : α) : Returns (pure a : Except Err α) := ⟨a, rfl⟩

theorem bind_ok {α β : Type} (a : α) (f : α → Except Err β) : (Except.ok a >>= f) = f a := rfl
theorem bind_err {α β : Type} (e : Err) (f : α → Except Err β) : ((Except.error e : Except Err α) >>= f) = .error e := rfl
theorem pure_eq {α : Type} (a : α) : (pure a : Except Err α) = .ok a := rfl

theorem liftR_ok {α : Type} (a : α) : liftR (Except.ok a : Except Recognisers.Err α) = .ok a := rfl

/-! ## stack indexing, from the top -/

theorem negAt_rev (st : Stack) (k : Nat) :
    negAt st (k + 1) = match st.reverse[k]? with
      | some e => .ok e
      | none => .error .index := by
  unfold negAt
  by_cases h : k + 1 ≤ st.length
  · rw [if_pos h]
    have : st.reverse[k]? = st[st.length - (k + 1)]? := by
      rw [List.getElem?_reverse (by omega)]
      congr 1; omega
    rw [this]
    cases st[st.length - (k + 1)]? <;> rfl
  · rw [if_neg h]
    have : st.reverse[k]? = none := by
      apply List.getElem?_eq_none
      simp; omega
    rw [this]

theorem negAt1 {st : Stack} {top : Entry} {r : Stack} (h : st.reverse = top :: r) : negAt st 1 = .ok top := by
  rw [negAt_rev, h]; rfl

theorem negAt2 {st : Stack} {top : Entry} {r : Stack} (h : st.reverse = top :: r) :
    negAt st 2 = match r[0]? with | some e => .ok e | none => .error .index := by
  rw [negAt_rev, h]; rfl

theorem negAt3 {st : Stack} {top : Entry} {r : Stack} (h : st.reverse = top :: r) :
    negAt st 3 = match r[1]? with | some e => .ok e | none => .error .index := by
  rw [negAt_rev, h]; rfl

theorem negAt_nil (k : Nat) : negAt [] k = .error .index := by
  unfold negAt
  split
  · next h => simp at h; subst h; rfl
  · rfl

theorem len_of_rev {st : Stack} {top : Entry} {r : Stack} (h : st.reverse = top :: r) : st.length = r.length + 1 := by
  have := congrArg List.length h
  simpa using this

/-! ## the guard -/

/-- What the callers guarantee of `parser_state.token_stack`: the document token at the bottom and nowhere else, and every list
token carries its marker text (`"-"`, `"12."`) in `list_character`. -/
structure StackOK (st : Stack) : Prop where
  bottom : ∃ d rest, st = d :: rest ∧ d.kind = .document ∧ ∀ e ∈ rest, e.kind ≠ .document
  chars : ∀ e ∈ st, e.isList = true → e.listChar ≠ []

theorem StackOK.rev {st : Stack} (h : StackOK st) : ∃ top r, st.reverse = top :: r := by
  obtain ⟨d, rest, hst, -, -⟩ := h.bottom
  subst hst
  cases hr : (d :: rest).reverse with
  | nil => simp at hr
  | cons a r => exact ⟨a, r, rfl⟩

/-- a non-document top has a token below it -/
theorem StackOK.below {st : Stack} (h : StackOK st) {top : Entry} {r : Stack} (hrev : st.reverse = top :: r)
    (hk : top.kind ≠ .document) : ∃ t2 r2, r = t2 :: r2 := by
  obtain ⟨d, rest, hst, hd, -⟩ := h.bottom
  subst hst
  cases r with
  | cons t2 r2 => exact ⟨t2, r2, rfl⟩
  | nil =>
    exfalso
    have h2 : (d :: rest) = [top] := by
      have := congrArg List.reverse hrev
      simpa using this
    injection h2 with h3 h4
    subst h3
    exact hk hd

theorem StackOK.mem_of_rev {st : Stack} {top : Entry} {r : Stack} (hrev : st.reverse = top :: r) {e : Entry}
    (he : e ∈ top :: r) : e ∈ st := by
  rw [← hrev] at he
  exact List.mem_reverse.mp he

/-! ## `__determine_child_and_parent_tokens`, `__adjust_whitespace_for_nested_lists` -/

/-- `__determine_child_and_parent_tokens` as a function of the three topmost tokens -/
def cpPure (top : Entry) (t2 t3 : Option Entry) : Option Entry × Option Entry :=
  if top.isList then (some top, t2.filter Entry.isList)
  else match t2 with
    | some e2 => if e2.isList then (some e2, t3.filter Entry.isList) else (none, none)
    | none => (none, none)

theorem childParent_eval {st : Stack} {top : Entry} {r : Stack} (h : st.reverse = top :: r) :
    childParent st = .ok (cpPure top r[0]? r[1]?) := by
  have hl := len_of_rev h
  unfold childParent
  rw [negAt1 h, negAt2 h, negAt3 h]
  simp only [bind_ok, hl]
  rcases r with _ | ⟨t2, r2⟩
  · simp [cpPure]
    split <;> rfl
  · rcases r2 with _ | ⟨t3, r3⟩
    · simp only [cpPure, List.length_cons, List.length_nil, List.getElem?_cons_zero, List.getElem?_cons_succ, List.getElem?_nil]
      cases h1 : top.isList <;> cases h2 : t2.isList <;> simp [Option.filter, h2, pure, Except.pure, bind_ok]
    · simp only [cpPure, List.length_cons, List.getElem?_cons_zero, List.getElem?_cons_succ]
      cases h1 : top.isList <;> cases h2 : t2.isList <;> cases h3 : t3.isList <;>
        simp [Option.filter, h2, h3, pure, Except.pure, bind_ok]

theorem childParent_nil : childParent [] = .error .index := by
  unfold childParent
  rw [negAt_nil]; rfl

/-- the indent of the item the list is in: its last `[li]` token's, or the list token's own -/
def itemLevel (c : Entry) : Nat :=
  match c.lastNew with
  | some n => n
  | none => c.indent

/-- `__adjust_whitespace_for_nested_lists` on the (child, parent) pair -/
def adjustPure (cp : Option Entry × Option Entry) (adjWs : Str) (start : Nat) : Str × Nat :=
  match cp with
  | (some c, some p) =>
    if adjWs.length > p.indent && adjWs.length < c.indent then (adjWs.drop p.indent, p.indent) else (adjWs, p.indent)
  | (some c, none) =>
    (adjWs, if start ≥ itemLevel c then c.indent else 0)
  | (none, _) => (adjWs, 0)

theorem adjustWs_eval {st : Stack} {top : Entry} {r : Stack} (h : st.reverse = top :: r) (a : Str) (s : Nat) :
    adjustWs st a s = .ok (adjustPure (cpPure top r[0]? r[1]?) a s) := by
  unfold adjustWs
  rw [childParent_eval h]
  simp only [bind_ok]
  rcases cpPure top r[0]? r[1]? with ⟨_ | c, _ | p⟩ <;> simp only [adjustPure]
  · rfl
  · rfl
  · unfold itemLevel
    cases c.lastNew <;> rfl
  · split <;> rfl

theorem adjustWs_nil (a : Str) (s : Nat) : adjustWs [] a s = .error .index := by
  unfold adjustWs
  rw [childParent_nil]; rfl

/-! ## phase one / phase two -/

/-- index after the spaces and tabs that follow position `i` -/
def afterWs (line : Str) (i : Nat) : Nat := scanTo line [SP, TAB].contains i

theorem extractSpacesVerified_eval {line : Str} {i : Nat} (h : i ≤ line.length) :
    extractSpacesVerified line i = .ok (afterWs line i, slice line i (afterWs line i)) := by
  unfold extractSpacesVerified
  rw [Recognisers.extractSpaces_eq, if_pos h]
  rfl

theorem extractSpacesVerified_err {line : Str} {i : Nat} (h : line.length < i) :
    extractSpacesVerified line i = .error .assertion := by
  unfold extractSpacesVerified
  rw [Recognisers.extractSpaces_eq, if_neg (by omega)]

def optIsList : Option Entry → Bool
  | some e => e.isList
  | none => false

/-- `__is_start_phase_one` (its verdict) as a function of the two topmost tokens -/
def p1Pure (top : Entry) (t2 : Option Entry) (line : Str) (markerEnd : Nat) (isNotOne : Bool) : Bool :=
  let start := markerEnd + 1
  let atEol := afterWs line start == line.length
  let paraCont := top.isPara && !optIsList t2 && (atEol || isNotOne)
  let blockWithin := (top.kind == .fenced || top.kind == .html) &&
    (match t2 with
      | some e => e.isList && decide (start > e.mtIndent)
      | none => false)
  !paraCont && !blockWithin && (isWsAt line start || start == line.length)

theorem phaseOne_eval {st : Stack} {top : Entry} {r : Stack} (h : st.reverse = top :: r) (line : Str) (markerEnd : Nat)
    (isNotOne : Bool) (hm : markerEnd < line.length)
    (hr : top.isPara = true ∨ top.kind = .fenced ∨ top.kind = .html → r ≠ []) :
    phaseOne st line markerEnd isNotOne = .ok (p1Pure top r[0]? line markerEnd isNotOne, afterWs line (markerEnd + 1)) := by
  unfold phaseOne
  dsimp only
  rw [extractSpacesVerified_eval (by omega), liftR_ok, negAt1 h, negAt2 h]
  simp only [bind_ok]
  rcases r with _ | ⟨t2, r2⟩
  · have hp : top.isPara = false := by
      cases hp : top.isPara
      · rfl
      · exact absurd rfl (hr (Or.inl hp))
    have hf : (top.kind == .fenced || top.kind == .html) = false := by
      cases hf : (top.kind == .fenced || top.kind == .html)
      · rfl
      · simp only [Bool.or_eq_true, beq_iff_eq] at hf
        exact absurd rfl (hr (Or.inr hf))
    simp [p1Pure, hp, hf, optIsList, pure_eq, bind_ok]
  · simp only [List.getElem?_cons_zero, p1Pure, optIsList, pure_eq, bind_ok]
    cases hp : top.isPara <;> cases hf : (top.kind == .fenced || top.kind == .html) <;> simp [pure_eq, bind_ok]

/-- `__is_start_phase_two` as a function of the two topmost tokens.  The `is_first_item_in_list` half of
`__calculate_starts_within_paragraph` does not appear: `is_sub_list` implies it (`first_item_clause_inert`). -/
def p2Pure (top : Entry) (t2 : Option Entry) (isNotOne : Bool) (afterAll : Nat) (line : Str) (start : Nat) : Bool :=
  !(top.isPara && (afterAll == line.length || isNotOne) &&
    (match t2 with
      | some e => e.isList && decide (start ≥ e.indent)
      | none => false))

/-- `__calculate_starts_within_paragraph`: `is_first_item_in_list` -/
def firstPure (t2 : Entry) (start : Nat) (isUnordered : Bool) (xx : Char) : Bool :=
  if !t2.isList then true
  else if isUnordered && t2.isOrdered then true
  else if xx != t2.listChar.getLast?.getD xx then true
  else decide (start ≥ t2.indent)

theorem lastChar_eval {s : Str} (h : s ≠ []) (d : Char) : lastChar s = .ok (s.getLast?.getD d) := by
  unfold lastChar
  cases hs : s.getLast? with
  | none => exact absurd (List.getLast?_eq_none_iff.mp hs) h
  | some c => rfl

theorem startsWithinPara_eval {st : Stack} {top t2 : Entry} {r2 : Stack} (h : st.reverse = top :: t2 :: r2) (start : Nat)
    (isUnordered : Bool) (xx : Char) (hc : t2.isList = true → t2.listChar ≠ []) :
    startsWithinPara st start isUnordered xx =
      .ok (firstPure t2 start isUnordered xx, t2.isList && decide (start ≥ t2.indent)) := by
  unfold startsWithinPara
  rw [negAt2 h]
  simp only [List.getElem?_cons_zero, bind_ok, firstPure]
  cases hl : t2.isList
  · simp [pure_eq, bind_ok]
  · simp only [Bool.not_true, Bool.false_eq_true, ↓reduceIte]
    split
    · simp [pure_eq, bind_ok]
    · rw [lastChar_eval (hc hl) xx]
      simp only [bind_ok]
      split <;> simp [pure_eq, bind_ok]

theorem phaseTwo_eval {st : Stack} {top : Entry} {r : Stack} (h : st.reverse = top :: r) (xx : Char) (isUnordered isNotOne : Bool)
    (afterAll : Nat) (line : Str) (start : Nat)
    (hr : top.isPara = true → ∃ t2 r2, r = t2 :: r2 ∧ (t2.isList = true → t2.listChar ≠ [])) :
    phaseTwo st xx isUnordered isNotOne afterAll line start = .ok (p2Pure top r[0]? isNotOne afterAll line start) := by
  unfold phaseTwo
  rw [negAt1 h]
  simp only [bind_ok]
  cases hp : top.isPara
  · simp [p2Pure, hp, pure_eq, bind_ok]
  · obtain ⟨t2, r2, hr2, hc⟩ := hr hp
    subst hr2
    rw [if_pos rfl, startsWithinPara_eval h start isUnordered xx hc]
    simp only [bind_ok, pure_eq, p2Pure, hp, List.getElem?_cons_zero, Bool.true_and]
    congr 1
    -- `first && sub = sub`
    simp only [firstPure]
    cases hl : t2.isList <;> cases hs : decide (start ≥ t2.indent) <;> simp

end Verif.Model.ListStarts
