/-
  Lemmas about the recogniser models: every index loop equals a list-level scan, hence no index error.
-/
import Verif.Model.Recognisers
namespace Verif.Model.Recognisers

/-! ## basics -/

theorem charAt_lt {s : Str} {i : Nat} (h : i < s.length) : charAt s i = .ok s[i] := by
  simp [charAt, List.getElem?_eq_getElem h]

theorem charAt_ge {s : Str} {i : Nat} (h : s.length ≤ i) : charAt s i = .error .index := by
  simp [charAt, List.getElem?_eq_none h]

theorem isCharAtOneOf_lt' {s : Str} {i : Nat} {cs : Str} (h : i < s.length) :
    isCharAtOneOf s i cs = cs.contains s[i] := by
  simp [isCharAtOneOf, List.getElem?_eq_getElem h]

theorem isCharAtOneOf_ge {s : Str} {i : Nat} {cs : Str} (h : s.length ≤ i) : isCharAtOneOf s i cs = false := by
  simp [isCharAtOneOf, List.getElem?_eq_none h]

theorem isCharAt_lt {s : Str} {i : Nat} {c : Char} (h : i < s.length) : isCharAt s i c = (s[i] == c) := by
  simp [isCharAt, List.getElem?_eq_getElem h]

theorem isCharAt_ge {s : Str} {i : Nat} {c : Char} (h : s.length ≤ i) : isCharAt s i c = false := by
  simp [isCharAt, List.getElem?_eq_none h]

theorem isCharAt_true_lt {s : Str} {i : Nat} {c : Char} (h : isCharAt s i c = true) : i < s.length := by
  by_cases hl : i < s.length
  · exact hl
  · rw [isCharAt_ge (by omega)] at h; cases h

theorem isWsChar_eq (c : Char) : [SP, TAB].contains c = isWsChar c := by
  simp [isWsChar, List.contains, List.elem, SP, TAB]
  cases h1 : c == ' ' <;> cases h2 : c == '\t' <;> simp_all

/-! ## forward scans -/

theorem scanOneOf_eq (s cs : Str) (i : Nat) :
    scanOneOf s cs i = i + ((s.drop i).takeWhile cs.contains).length := by
  fun_induction scanOneOf s cs i with
  | case1 i h ih =>
    have hl := isCharAtOneOf_lt h
    rw [ih, List.drop_eq_getElem_cons hl, List.takeWhile_cons]
    rw [isCharAtOneOf_lt' hl] at h
    rw [if_pos h, List.length_cons]; omega
  | case2 i h =>
    by_cases hl : i < s.length
    · rw [List.drop_eq_getElem_cons hl, List.takeWhile_cons]
      rw [isCharAtOneOf_lt' hl] at h
      rw [if_neg h]; rfl
    · rw [List.drop_eq_nil_of_le (by omega)]; simp

theorem takeWhile_length_le {α : Type} (p : α → Bool) (l : List α) : (l.takeWhile p).length ≤ l.length :=
  (List.takeWhile_sublist p).length_le

theorem scanOneOf_le (s cs : Str) (i : Nat) (h : i ≤ s.length) : scanOneOf s cs i ≤ s.length := by
  rw [scanOneOf_eq]
  have := takeWhile_length_le cs.contains (s.drop i)
  simp at this; omega

theorem scanOneOf_ge (s cs : Str) (i : Nat) : i ≤ scanOneOf s cs i := by
  rw [scanOneOf_eq]; omega

theorem cwcLoop_eq (s : Str) (c : Char) (i : Nat) :
    cwcLoop s c s.length i = .ok (i + ((s.drop i).takeWhile (· == c)).length) := by
  fun_induction cwcLoop s c s.length i with
  | case1 i h e he => simp [charAt_lt h] at he
  | case2 i h d hd hdc ih =>
    rw [ih]
    rw [charAt_lt h] at hd
    injection hd with hd
    rw [List.drop_eq_getElem_cons h, List.takeWhile_cons, hd]
    simp [hdc]; omega
  | case3 i h d hd hdc =>
    rw [charAt_lt h] at hd
    injection hd with hd
    rw [List.drop_eq_getElem_cons h, List.takeWhile_cons, hd]
    simp [hdc]
  | case4 i h =>
    rw [List.drop_eq_nil_of_le (by omega)]; simp

theorem cwoLoop_eq (s cs : Str) (i : Nat) :
    cwoLoop s cs s.length i = .ok (i + ((s.drop i).takeWhile cs.contains).length) := by
  fun_induction cwoLoop s cs s.length i with
  | case1 i h e he => simp [charAt_lt h] at he
  | case2 i h d hd hdc ih =>
    rw [ih]
    rw [charAt_lt h] at hd
    injection hd with hd
    rw [List.drop_eq_getElem_cons h, List.takeWhile_cons, hd]
    rw [if_pos hdc, List.length_cons]; congr 1; omega
  | case3 i h d hd hdc =>
    rw [charAt_lt h] at hd
    injection hd with hd
    rw [List.drop_eq_getElem_cons h, List.takeWhile_cons, hd]
    rw [if_neg hdc]; rfl
  | case4 i h =>
    rw [List.drop_eq_nil_of_le (by omega)]; simp

/-- index reached by a forward scan from `i` -/
def scanTo (s : Str) (p : Char → Bool) (i : Nat) : Nat := i + ((s.drop i).takeWhile p).length

theorem scanTo_le (s : Str) (p : Char → Bool) (i : Nat) (h : i ≤ s.length) : scanTo s p i ≤ s.length := by
  unfold scanTo
  have := takeWhile_length_le p (s.drop i)
  simp at this; omega

theorem scanTo_ge (s : Str) (p : Char → Bool) (i : Nat) : i ≤ scanTo s p i := by unfold scanTo; omega

theorem collectWhileChar_eq (s : Str) (start : Nat) (c : Char) :
    collectWhileChar s start c =
      .ok (if start ≤ s.length then some (scanTo s (· == c) start - start, scanTo s (· == c) start) else none) := by
  unfold collectWhileChar
  split
  · rw [cwcLoop_eq]; rfl
  · rfl

theorem collectWhileCharVerified_eq (s : Str) (start : Nat) (c : Char) (h : start ≤ s.length) :
    collectWhileCharVerified s start c = .ok (scanTo s (· == c) start - start, scanTo s (· == c) start) := by
  unfold collectWhileCharVerified
  rw [collectWhileChar_eq]; simp [h]

theorem collectWhileOneOf_eq (s : Str) (start : Nat) (cs : Str) :
    collectWhileOneOf s start cs =
      .ok (if start ≤ s.length then some (scanTo s cs.contains start, slice s start (scanTo s cs.contains start)) else none) := by
  unfold collectWhileOneOf
  split
  · rw [cwoLoop_eq]; rfl
  · rfl

theorem extractSpaces_eq (s : Str) (start : Nat) :
    extractSpaces s start =
      if start ≤ s.length then some (scanTo s [SP, TAB].contains start, slice s start (scanTo s [SP, TAB].contains start)) else none := by
  unfold extractSpaces
  split
  · simp only [scanOneOf_eq]; rfl
  · rfl

theorem extractAsciiWs_eq (s : Str) (start : Nat) :
    extractAsciiWs s start =
      if start ≤ s.length then some (scanTo s asciiWs.contains start, slice s start (scanTo s asciiWs.contains start)) else none := by
  unfold extractAsciiWs
  split
  · simp only [scanOneOf_eq]; rfl
  · rfl

/-! ## backward scans -/

theorem cbwLoop_ok (s cs : Str) (e : Nat) (h : e ≤ s.length) : ∃ j, cbwLoop s cs e = .ok j ∧ j ≤ e := by
  induction e with
  | zero => exact ⟨0, rfl, Nat.le_refl _⟩
  | succ e ih =>
    unfold cbwLoop
    rw [charAt_lt (by omega)]
    simp only
    split
    · obtain ⟨j, hj, hle⟩ := ih (by omega)
      exact ⟨j, hj, by omega⟩
    · exact ⟨e + 1, rfl, Nat.le_refl _⟩

theorem sfeLoop_le (s : Str) (j : Nat) : sfeLoop s j ≤ j := by
  induction j with
  | zero => simp [sfeLoop]
  | succ j ih => unfold sfeLoop; split <;> omega

theorem atxHashLoop_ok (s : Str) (e cnt : Nat) (h : e ≤ s.length) :
    ∃ j n, atxHashLoop s e cnt = .ok (j, n) ∧ j ≤ e := by
  induction e generalizing cnt with
  | zero => exact ⟨0, cnt, rfl, Nat.le_refl _⟩
  | succ e ih =>
    unfold atxHashLoop
    rw [charAt_lt (by omega)]
    simp only
    split
    · obtain ⟨j, n, hj, hle⟩ := ih (cnt + 1) (by omega)
      exact ⟨j, n, hj, by omega⟩
    · exact ⟨e + 1, cnt, rfl, Nat.le_refl _⟩


/-! ## thematic break loop -/

/-- list view of the thematic-break loop: `(characters consumed, marker characters counted)` -/
def tbScan (c : Char) (allow : Bool) : Str → Nat × Nat
  | [] => (0, 0)
  | d :: ds =>
    if allow && isWsChar d then ((tbScan c allow ds).1 + 1, (tbScan c allow ds).2)
    else if d == c then ((tbScan c allow ds).1 + 1, (tbScan c allow ds).2 + 1)
    else (0, 0)

theorem isWsAt_lt {s : Str} {i : Nat} (h : i < s.length) : isWsAt s i = isWsChar s[i] := by
  unfold isWsAt; rw [isCharAtOneOf_lt' h, isWsChar_eq]

theorem isWsAt_ge {s : Str} {i : Nat} (h : s.length ≤ i) : isWsAt s i = false := by
  unfold isWsAt; exact isCharAtOneOf_ge h

theorem tbLoop_eq (s : Str) (c : Char) (allow : Bool) (i cnt : Nat) :
    tbLoop s c allow s.length i cnt =
      .ok (i + (tbScan c allow (s.drop i)).1, cnt + (tbScan c allow (s.drop i)).2) := by
  fun_induction tbLoop s c allow s.length i cnt with
  | case1 i cnt h hw ih =>
    rw [ih, List.drop_eq_getElem_cons h]
    rw [isWsAt_lt h] at hw
    simp only [tbScan, hw, ↓reduceIte]
    congr 2; omega
  | case2 i cnt h hw e he => simp [charAt_lt h] at he
  | case3 i cnt h hw d hd hdc ih =>
    rw [ih, List.drop_eq_getElem_cons h]
    rw [charAt_lt h] at hd; injection hd with hd
    subst hd
    rw [isWsAt_lt h] at hw
    simp only [tbScan, hw, hdc, Bool.false_eq_true, ↓reduceIte]
    congr 2 <;> omega
  | case4 i cnt h hw d hd hdc =>
    rw [List.drop_eq_getElem_cons h]
    rw [charAt_lt h] at hd; injection hd with hd
    subst hd
    rw [isWsAt_lt h] at hw
    simp only [tbScan, hw, hdc, Bool.false_eq_true, ↓reduceIte]
    rfl
  | case5 i cnt h =>
    rw [List.drop_eq_nil_of_le (by omega)]; rfl

/-! ## totality -/

/-- "returns normally" -/
def Returns {α : Type} (x : Except Err α) : Prop := ∃ r, x = .ok r

theorem collectWhileChar_total (s : Str) (start : Nat) (c : Char) : Returns (collectWhileChar s start c) :=
  ⟨_, collectWhileChar_eq s start c⟩

theorem collectWhileOneOf_total (s : Str) (start : Nat) (cs : Str) : Returns (collectWhileOneOf s start cs) :=
  ⟨_, collectWhileOneOf_eq s start cs⟩

theorem collectWhileSpaces_total (s : Str) (start : Nat) : Returns (collectWhileSpaces s start) :=
  collectWhileOneOf_total s start _

theorem collectBackwardsOneOf_total (s : Str) (e : Int) (cs : Str) : Returns (collectBackwardsOneOf s e cs) := by
  unfold collectBackwardsOneOf
  split
  · next h =>
    simp only
    have hle : (if e = -1 then s.length else e.toNat) ≤ s.length := by split <;> omega
    obtain ⟨j, hj, _⟩ := cbwLoop_ok s cs _ hle
    rw [hj]; exact ⟨_, rfl⟩
  · exact ⟨_, rfl⟩

theorem collectBackwardsSpacesVerified_ok (s : Str) (e : Nat) (h : e ≤ s.length) :
    ∃ n j, collectBackwardsSpacesVerified s e = .ok (n, j) ∧ j ≤ e := by
  unfold collectBackwardsSpacesVerified collectBackwardsOneOf
  have h1 : (-1 : Int) ≤ (e : Int) ∧ (e : Int) ≤ s.length := by omega
  have h2 : ((e : Int) = -1) = False := by simp
  simp only [h1, and_self, ↓reduceIte, h2, Int.toNat_natCast]
  obtain ⟨j, hj, hle⟩ := cbwLoop_ok s [SP, TAB] e h
  rw [hj]
  exact ⟨_, _, rfl, hle⟩

theorem isThematicBreak_total (line : Str) (start : Nat) (ws : Str) (skip allow : Bool) :
    Returns (isThematicBreak line start ws skip allow) := by
  unfold isThematicBreak
  simp only
  split
  · next h =>
    simp only [Bool.and_eq_true] at h
    have hl := isCharAtOneOf_lt h.2
    rw [charAt_lt hl]
    simp only [tbLoop_eq]
    split <;> exact ⟨_, rfl⟩
  · exact ⟨_, rfl⟩

theorem isAtxHeading_total (line : Str) (start : Nat) (ws : Str) (skip : Bool) :
    Returns (isAtxHeading line start ws skip) := by
  unfold isAtxHeading
  split
  · next h =>
    simp only [Bool.and_eq_true] at h
    have hl := isCharAt_true_lt h.2
    rw [collectWhileCharVerified_eq _ _ _ (by omega)]
    simp only
    unfold collectWhileSpaces
    rw [collectWhileOneOf_eq]
    have := scanTo_le line (· == '#') start (by omega)
    simp only [this, ↓reduceIte]
    split <;> exact ⟨_, rfl⟩
  · exact ⟨_, rfl⟩

theorem extractSpacesFromEnd_le (s : Str) : (extractSpacesFromEnd s none).1 ≤ s.length := by
  unfold extractSpacesFromEnd
  split
  · simp
  · simp only; exact sfeLoop_le s s.length

theorem atxAdjust_total (remaining : Str) : Returns (atxAdjust remaining) := by
  unfold atxAdjust
  have hle := extractSpacesFromEnd_le remaining
  generalize extractSpacesFromEnd remaining none = p at hle
  obtain ⟨e0, w0⟩ := p
  simp only at hle ⊢
  obtain ⟨j, n, hj, hje⟩ := atxHashLoop_ok remaining e0 0 hle
  rw [hj]
  simp only
  split
  · split
    · next hpos =>
      split
      · have hlen : (List.take j remaining).length = j := by simp; omega
        have : ((List.take j remaining).length : Int) - 1 = ((j - 1 : Nat) : Int) := by rw [hlen]; omega
        rw [this]
        obtain ⟨a, b, hab, _⟩ := collectBackwardsSpacesVerified_ok (List.take j remaining) (j - 1) (by rw [hlen]; omega)
        rw [hab]; exact ⟨_, rfl⟩
      · exact ⟨_, rfl⟩
    · exact ⟨_, rfl⟩
  · exact ⟨_, rfl⟩

theorem isFencedCodeBlock_total (line : Str) (start : Nat) (ws : Str) (skip : Bool) :
    Returns (isFencedCodeBlock line start ws skip) := by
  unfold isFencedCodeBlock
  split
  · next h =>
    simp only [Bool.and_eq_true] at h
    have hl := isCharAtOneOf_lt h.2
    rw [charAt_lt hl]
    simp only
    rw [collectWhileCharVerified_eq _ _ _ (by omega)]
    simp only
    rw [extractAsciiWs_eq]
    have := scanTo_le line (· == line[start]) start (by omega)
    simp only [this, ↓reduceIte]
    split <;> exact ⟨_, rfl⟩
  · exact ⟨_, rfl⟩

/-- what `isFencedCodeBlock` returns when it accepts -/
theorem isFencedCodeBlock_some {line : Str} {start : Nat} {ws : Str} {skip : Bool} {r : Nat × Nat × Nat}
    (h : isFencedCodeBlock line start ws skip = .ok (some r)) :
    start < line.length ∧ r.2.1 ≤ line.length := by
  unfold isFencedCodeBlock at h
  split at h
  · next hc =>
    simp only [Bool.and_eq_true] at hc
    have hl := isCharAtOneOf_lt hc.2
    rw [charAt_lt hl] at h
    simp only at h
    rw [collectWhileCharVerified_eq _ _ _ (by omega)] at h
    simp only at h
    rw [extractAsciiWs_eq] at h
    have hle := scanTo_le line (· == line[start]) start (by omega)
    simp only [hle, ↓reduceIte] at h
    split at h
    · injection h with h; injection h with h; subst h
      exact ⟨hl, hle⟩
    · cases h
  · cases h

theorem isFenceOpen_total (line : Str) (start : Nat) (ws : Str) : Returns (isFenceOpen line start ws) := by
  unfold isFenceOpen
  obtain ⟨r, hr⟩ := isFencedCodeBlock_total line start ws false
  rw [hr]
  cases r with
  | none => exact ⟨_, rfl⟩
  | some r =>
    obtain ⟨hl, _⟩ := isFencedCodeBlock_some hr
    obtain ⟨a, b, c⟩ := r
    simp only [charAt_lt hl]
    exact ⟨_, rfl⟩

theorem isFenceClose_total (line : Str) (start : Nat) (ws : Str) (fc : Char) (fn : Nat) :
    Returns (isFenceClose line start ws fc fn) := by
  unfold isFenceClose
  obtain ⟨r, hr⟩ := isFencedCodeBlock_total line start ws false
  rw [hr]
  cases r with
  | none => exact ⟨_, rfl⟩
  | some r =>
    obtain ⟨hl, hle⟩ := isFencedCodeBlock_some hr
    obtain ⟨a, b, c⟩ := r
    simp only at hle ⊢
    unfold extractSpacesVerified
    rw [extractSpaces_eq]
    simp only [hle, ↓reduceIte, charAt_lt hl]
    exact ⟨_, rfl⟩

theorem isSetextUnderline_total (line : Str) (start : Nat) (ws : Str) : Returns (isSetextUnderline line start ws) := by
  unfold isSetextUnderline
  split
  · next h =>
    simp only [Bool.and_eq_true] at h
    have hl := isCharAtOneOf_lt h.2
    simp only [charAt_lt hl]
    rw [collectWhileCharVerified_eq _ _ _ (by omega)]
    simp only
    unfold extractSpacesVerified
    rw [extractSpaces_eq]
    have := scanTo_le (line.drop start) (· == line[start]) 0 (by omega)
    simp only [this, ↓reduceIte]
    exact ⟨_, rfl⟩
  · exact ⟨_, rfl⟩

theorem isStartUlist_total (line : Str) (start : Nat) (ws : Str) : Returns (isStartUlist line start ws) := by
  unfold isStartUlist
  split
  · obtain ⟨r, hr⟩ := isThematicBreak_total line start ws false true
    rw [hr]; exact ⟨_, rfl⟩
  · exact ⟨_, rfl⟩

theorem isStartOlist_ok (line : Str) (start : Nat) :
    ∃ b r, isStartOlist line start = .ok (b, r) ∧
      (b = true → ∃ i nd n1, r = some (i, nd, n1) ∧ i < line.length) := by
  unfold isStartOlist
  split
  · next h =>
    have hl := isCharAtOneOf_lt h
    unfold collectWhileOneOfVerified
    rw [collectWhileOneOf_eq]
    have : start ≤ line.length := by omega
    simp only [this, ↓reduceIte]
    refine ⟨_, _, rfl, ?_⟩
    intro hb
    simp only [Bool.and_eq_true] at hb
    exact ⟨_, _, _, rfl, isCharAtOneOf_lt hb.2⟩
  · exact ⟨false, none, rfl, by intro h; cases h⟩

theorem startPhaseOne_total (line : Str) (m : Nat) (n1 p : Bool) (h : m < line.length) :
    Returns (startPhaseOne line m n1 p) := by
  unfold startPhaseOne extractSpacesVerified
  have : m + 1 ≤ line.length := by omega
  simp only [extractSpaces_eq, this, ↓reduceIte]
  exact ⟨_, rfl⟩

theorem isUlistStart_total (line : Str) (start : Nat) (ws : Str) (skip inPara : Bool) :
    Returns (isUlistStart line start ws skip inPara) := by
  unfold isUlistStart
  split
  · obtain ⟨b, hb⟩ := isStartUlist_total line start ws
    rw [hb]
    cases b with
    | false => exact ⟨_, rfl⟩
    | true =>
      have hl : start < line.length := by
        unfold isStartUlist at hb
        split at hb
        · next hc => exact isCharAtOneOf_lt hc
        · cases hb
      obtain ⟨r, hr⟩ := startPhaseOne_total line start false inPara hl
      simp only [hr]; exact ⟨_, rfl⟩
  · exact ⟨_, rfl⟩

theorem isOlistStart_total (line : Str) (start : Nat) (ws : Str) (skip inPara : Bool) :
    Returns (isOlistStart line start ws skip inPara) := by
  unfold isOlistStart
  split
  · obtain ⟨b, r, hbr, himp⟩ := isStartOlist_ok line start
    rw [hbr]
    cases b with
    | false => exact ⟨_, rfl⟩
    | true =>
      obtain ⟨i, nd, n1, hr, hl⟩ := himp rfl
      subst hr
      obtain ⟨q, hq⟩ := startPhaseOne_total line i n1 inPara hl
      simp only [hq]; exact ⟨_, rfl⟩
  · exact ⟨_, rfl⟩

theorem isWsAt_true_lt {s : Str} {i : Nat} (h : isWsAt s i = true) : i < s.length := isCharAtOneOf_lt h

theorem bqLoop_total (s : Str) (i cnt last : Nat) (h : i ≤ s.length) : Returns (bqLoop s s.length i cnt last) := by
  fun_induction bqLoop s s.length i cnt last with
  | case1 i cnt last hlt => omega
  | case2 i cnt last hlt i1 he => exact ⟨_, rfl⟩
  | case3 i cnt last hlt i1 he hn => exact ⟨_, rfl⟩
  | case4 i cnt last hlt i1 he hn ih =>
    apply ih
    have h1 : i1 ≤ s.length := by
      simp only [i1]
      split
      · next hw => have := isWsAt_true_lt hw; omega
      · omega
    have : i1 ≠ s.length := by simpa using he
    omega

/-- `count_block_quote_starts` returns whenever the index it is given lies inside the line
(the caller's guard `is_block_quote_start` ensures a `>` there). -/
theorem countBqStarts_total (line : Str) (start : Nat) (h : start < line.length) : Returns (countBqStarts line start) :=
  bqLoop_total line (start + 1) 1 (start + 1) (by omega)


/-! ## detabify -/

theorem findTab_some {s : Str} {n : Nat} (h : findTab s = some n) : ∃ hl : n < s.length, s[n] = TAB := by
  induction s generalizing n with
  | nil => cases h
  | cons c cs ih =>
    unfold findTab at h
    split at h
    · next hc =>
      injection h with h; subst h
      exact ⟨by simp, by simpa using hc⟩
    · cases hf : findTab cs with
      | none => rw [hf] at h; cases h
      | some m =>
        rw [hf] at h
        simp only [Option.map_some] at h
        injection h with h; subst h
        obtain ⟨hl, hm⟩ := ih hf
        exact ⟨by simp; omega, by simpa using hm⟩

theorem scanTo_step {s : Str} {p : Char → Bool} {i : Nat} (h : i < s.length) (hp : p s[i] = true) :
    i + 1 ≤ scanTo s p i := by
  unfold scanTo
  rw [List.drop_eq_getElem_cons h, List.takeWhile_cons, if_pos hp, List.length_cons]
  omega

theorem detabLoop_total (delta fuel : Nat) (st : DetabState) (h : st.src.length < fuel) :
    Returns (detabLoop delta fuel st) := by
  induction fuel generalizing st with
  | zero => omega
  | succ fuel ih =>
    unfold detabLoop
    cases hf : findTab st.src with
    | none => exact ⟨_, rfl⟩
    | some nt =>
      obtain ⟨hl, htab⟩ := findTab_some hf
      simp only
      obtain ⟨a, j, hb, hj⟩ := collectBackwardsSpacesVerified_ok st.src nt (by omega)
      rw [hb]
      simp only
      unfold collectWhileSpaces
      rw [collectWhileOneOf_eq]
      have : nt ≤ st.src.length := by omega
      simp only [this, ↓reduceIte]
      apply ih
      simp only [List.length_drop]
      have hs := scanTo_step (p := [SP, TAB].contains) hl (by rw [htab]; decide)
      omega

theorem detabify_total (s : Str) (delta : Nat) : Returns (detabify s delta) := by
  unfold detabify
  split
  · exact ⟨_, rfl⟩
  · exact detabLoop_total _ _ _ (by simp)

end Verif.Model.Recognisers
