/-
  The specification side (Model/ListStartsSpec.lean): the executable decision procedures the driver evaluates are sound and complete
  for the declarative statements; the tab-stop rule of the specification is the code's `calculate_length`; the marker sentence is
  LeanMark's `listMarker?` (the reference C03 compares whole documents with).
-/
import Verif.Model.ListStartsSpec
import Verif.Model.LeanMark.Block
import Verif.Lemmas.RecogSpec
namespace Verif.Model.ListStartsSpec
open Verif.Model.Recognisers (calcLength tabStep thematicBodyB ThematicBody)

/-! ## character classes -/

theorem isSpTab_iff (c : Char) : isSpTab c = true ↔ (c = ' ' ∨ c = '\t') := by
  simp [isSpTab]

theorem isDelim_iff (c : Char) : isDelim c = true ↔ (c = '.' ∨ c = ')') := by
  simp [isDelim]

theorem isBulletChar_iff (c : Char) : isBulletChar c = true ↔ (c = '-' ∨ c = '+' ∨ c = '*') := by
  simp [isBulletChar, or_assoc]

theorem followOkB_iff (rest : Str) : followOkB rest = true ↔ FollowOK rest := by
  unfold FollowOK
  cases rest with
  | nil => simp [followOkB]
  | cons c r =>
    simp only [followOkB, isSpTab_iff]
    constructor
    · intro h; exact Or.inr ⟨c, r, rfl, h⟩
    · rintro (h | ⟨c', r', h, hc⟩)
      · cases h
      · injection h with h1 h2; subst h1; exact hc

theorem bullet_not_digit {c : Char} (h : isBulletChar c = true) : isDigit c = false := by
  rw [isBulletChar_iff] at h
  rcases h with h | h | h <;> subst h <;> decide

theorem delim_not_digit {c : Char} (h : isDelim c = true) : isDigit c = false := by
  rw [isDelim_iff] at h
  rcases h with h | h <;> subst h <;> decide

theorem digit_not_bullet {c : Char} (h : isDigit c = true) : isBulletChar c = false := by
  cases hb : isBulletChar c
  · rfl
  · rw [bullet_not_digit hb] at h; cases h

/-! ## `parseMarker` decides `MarkerAt` -/

theorem takeWhile_append_of_all {p : Char → Bool} (a : Str) (c : Char) (r : Str) (ha : ∀ x ∈ a, p x = true) (hc : p c = false) :
    (a ++ c :: r).takeWhile p = a ∧ (a ++ c :: r).dropWhile p = c :: r := by
  induction a with
  | nil => simp [hc]
  | cons x a ih =>
    have hx := ha x (List.mem_cons_self ..)
    have := ih (fun y hy => ha y (List.mem_cons_of_mem _ hy))
    simp [hx, this]

theorem mem_takeWhile_true {p : Char → Bool} {l : Str} {x : Char} (h : x ∈ l.takeWhile p) : p x = true := by
  induction l with
  | nil => simp at h
  | cons a l ih =>
    rw [List.takeWhile_cons] at h
    split at h
    · next ha =>
      cases h with
      | head => exact ha
      | tail _ h => exact ih h
    · simp at h

theorem parseMarker_sound {d : Str} {m : Marker} {rest : Str} (h : parseMarker d = some (m, rest)) : MarkerAt d m rest := by
  unfold parseMarker at h
  cases d with
  | nil => cases h
  | cons c r =>
    simp only at h
    split at h
    · next hb =>
      split at h
      · next hf =>
        injection h with h; injection h with h1 h2
        subst h1; subst h2
        exact ⟨(isBulletChar_iff c).mp hb, rfl, (followOkB_iff _).mp hf⟩
      · cases h
    · next hb =>
      split at h
      · next hlen =>
        simp only [Bool.and_eq_true, decide_eq_true_eq] at hlen
        split at h
        · next dl r2 hdrop =>
          split at h
          · next hdf =>
            simp only [Bool.and_eq_true] at hdf
            injection h with h; injection h with h1 h2
            subst h1; subst h2
            refine ⟨⟨hlen.1, hlen.2, ?_, (isDelim_iff dl).mp hdf.1⟩, ?_, (followOkB_iff _).mp hdf.2⟩
            · intro x hx
              exact mem_takeWhile_true hx
            · have := List.takeWhile_append_dropWhile (p := isDigit) (l := c :: r)
              rw [hdrop] at this
              simp only [Marker.text, List.append_assoc, List.singleton_append]
              exact this.symm
          · cases h
        · cases h
      · cases h

theorem parseMarker_complete {d : Str} {m : Marker} {rest : Str} (h : MarkerAt d m rest) : parseMarker d = some (m, rest) := by
  obtain ⟨hv, hd, hf⟩ := h
  cases m with
  | bullet c =>
    simp only [Marker.text, List.singleton_append] at hd
    subst hd
    simp only [parseMarker, (isBulletChar_iff c).mpr hv, (followOkB_iff rest).mpr hf, ↓reduceIte]
  | ordered ds dl =>
    obtain ⟨h1, h9, hall, hdl⟩ := hv
    simp only [Marker.text, List.append_assoc, List.singleton_append] at hd
    have hdd : isDigit dl = false := delim_not_digit ((isDelim_iff dl).mpr hdl)
    obtain ⟨htw, hdw⟩ := takeWhile_append_of_all (p := isDigit) ds dl rest hall hdd
    cases ds with
    | nil => simp at h1
    | cons x ds' =>
      have hx := hall x (List.mem_cons_self ..)
      subst hd
      unfold parseMarker
      simp only [List.cons_append, digit_not_bullet hx, Bool.false_eq_true, ↓reduceIte]
      have e : (x :: (ds' ++ dl :: rest)) = (x :: ds') ++ dl :: rest := rfl
      simp only [e, htw, hdw]
      have : (decide (1 ≤ (x :: ds').length) && decide ((x :: ds').length ≤ 9)) = true := by
        simp only [Bool.and_eq_true, decide_eq_true_eq]; exact ⟨h1, h9⟩
      simp only [this, ↓reduceIte, (isDelim_iff dl).mpr hdl, (followOkB_iff rest).mpr hf, Bool.and_self]

theorem parseMarker_iff (d : Str) (m : Marker) (rest : Str) : parseMarker d = some (m, rest) ↔ MarkerAt d m rest :=
  ⟨parseMarker_sound, parseMarker_complete⟩

/-- a line begins with at most one list marker -/
theorem MarkerAt_unique {d : Str} {m m' : Marker} {rest rest' : Str} (h : MarkerAt d m rest) (h' : MarkerAt d m' rest') :
    m = m' ∧ rest = rest' := by
  have a := parseMarker_complete h
  have b := parseMarker_complete h'
  rw [a] at b
  injection b with b; injection b with b1 b2
  exact ⟨b1, b2⟩

/-! ## blank, thematic -/

theorem blankB_iff (rest : Str) : blankB rest = true ↔ Blank rest := by
  unfold blankB Blank
  simp only [List.all_eq_true, isSpTab_iff]

theorem IsThematic_iff_ThematicBody (d : Str) : IsThematic d ↔ ThematicBody d := Iff.rfl

theorem isThematicB_iff (d : Str) : isThematicB d = true ↔ IsThematic d := by
  unfold IsThematic
  cases d with
  | nil => simp [isThematicB]
  | cons c rest =>
    simp only [isThematicB, Bool.and_eq_true, Bool.or_eq_true, beq_iff_eq, List.all_eq_true, decide_eq_true_eq, or_assoc]
    constructor
    · rintro ⟨⟨hc, hall⟩, h3⟩
      exact ⟨c, rest, hc, rfl, hall, h3⟩
    · rintro ⟨c', rest', hc, hd, hall, h3⟩
      injection hd with h1 h2
      subst h1; subst h2
      exact ⟨⟨hc, hall⟩, h3⟩

/-- the code's `thematicBodyB` (Lemmas/RecogSpec) decides the same sentence -/
theorem thematicBodyB_iff_IsThematic (d : Str) : thematicBodyB d = true ↔ IsThematic d :=
  Recognisers.thematicBodyB_iff d

/-! ## tab stops: the code's `calculate_length` is the specification's rule -/

theorem nextTabStop_eq (n : Nat) : nextTabStop n = (n + 4) / 4 * 4 := by
  unfold nextTabStop; omega

theorem advance_eq_foldl (col : Nat) (ws : Str) : advance col ws = ws.foldl tabStep col := by
  induction ws generalizing col with
  | nil => rfl
  | cons c cs ih =>
    simp only [advance, List.foldl_cons, tabStep, Recognisers.TAB]
    rw [ih, nextTabStop_eq]
    rfl

/-- `TabHelper.calculate_length(ws, start_index = col)` = the columns `ws` spans from column `col` (§2.2) -/
theorem calcLength_eq_colsFrom (ws : Str) (col : Nat) : calcLength ws col = colsFrom col ws := by
  unfold calcLength colsFrom
  rw [advance_eq_foldl]

theorem colsFrom_spaces (col k : Nat) : colsFrom col (List.replicate k ' ') = k := by
  unfold colsFrom
  rw [advance_eq_foldl]
  have := Recognisers.foldl_tabStep_spaces k col
  simp only [Recognisers.SP] at this
  rw [this]; omega

/-! ## the marker sentence is LeanMark's scanner (the reference of C03) -/

theorem leanmark_isDigit (c : Char) : LeanMark.isDigit c = isDigit c := by
  unfold LeanMark.isDigit isDigit digitChars
  by_cases h : ('0' ≤ c && c ≤ '9') = true
  · rw [h]
    simp only [Bool.and_eq_true, decide_eq_true_eq] at h
    have h0 : 48 ≤ c.toNat := h.1
    have h9 : c.toNat ≤ 57 := h.2
    have : c = '0' ∨ c = '1' ∨ c = '2' ∨ c = '3' ∨ c = '4' ∨ c = '5' ∨ c = '6' ∨ c = '7' ∨ c = '8' ∨ c = '9' := by
      have hc : ∀ k, c.toNat = k → c = Char.ofNat k := fun k hk => by rw [← hk]; simp
      have : c.toNat = 48 ∨ c.toNat = 49 ∨ c.toNat = 50 ∨ c.toNat = 51 ∨ c.toNat = 52 ∨ c.toNat = 53 ∨ c.toNat = 54 ∨
          c.toNat = 55 ∨ c.toNat = 56 ∨ c.toNat = 57 := by omega
      rcases this with h | h | h | h | h | h | h | h | h | h <;> simp [hc _ h]
    symm
    simp only [List.contains_cons, List.contains_nil, Bool.or_false, Bool.or_eq_true, beq_iff_eq]
    rcases this with h | h | h | h | h | h | h | h | h | h <;> simp [h]
  · simp only [Bool.not_eq_true] at h
    rw [h]
    symm
    cases hd : ['0', '1', '2', '3', '4', '5', '6', '7', '8', '9'].contains c
    · rfl
    · exfalso
      simp only [List.contains_cons, List.contains_nil, Bool.or_false, Bool.or_eq_true, beq_iff_eq] at hd
      rcases hd with h' | h' | h' | h' | h' | h' | h' | h' | h' | h' <;> subst h' <;> simp at h

theorem leanmark_isDigit_fun : LeanMark.isDigit = isDigit := funext leanmark_isDigit

theorem leanmark_isSpTab_fun : LeanMark.isSpTab = isSpTab := rfl

/-- what LeanMark's scanner returns for a marker: (ordered, bullet / delimiter, start number, width) -/
def leanmarkView : Marker → Bool × Char × Nat × Nat
  | .bullet c => (false, c, 0, 1)
  | .ordered ds dl => (true, dl, numberOf ds, ds.length + 1)

theorem drop_takeWhile_len (p : Char → Bool) (l : Str) : l.drop (l.takeWhile p).length = l.dropWhile p :=
  Recognisers.drop_takeWhile_length p l

/-- **the marker sentence of this specification is LeanMark's `listMarker?`** (the scanner of the reference model of C03) -/
theorem parseMarker_eq_leanmark (d : Str) :
    LeanMark.listMarker? d = (parseMarker d).map (fun x => leanmarkView x.1) := by
  cases d with
  | nil => rfl
  | cons c r =>
    unfold LeanMark.listMarker? parseMarker
    simp only [leanmark_isDigit_fun]
    by_cases hb : isBulletChar c = true
    · have hb' : (c == '-' || c == '+' || c == '*') = true := hb
      rw [if_pos hb', if_pos hb]
      cases r with
      | nil => simp [followOkB, leanmarkView]
      | cons x r' =>
        have hxx : LeanMark.isSpTab x = isSpTab x := rfl
        simp only [followOkB, hxx]
        by_cases hx : isSpTab x = true
        · simp [hx, leanmarkView]
        · simp [hx]
    · have hb' : ¬ (c == '-' || c == '+' || c == '*') = true := hb
      rw [if_neg hb', if_neg hb]
      by_cases hd : isDigit c = true
      · rw [if_pos hd]
        have hpos : 1 ≤ ((c :: r).takeWhile isDigit).length := by
          rw [List.takeWhile_cons, if_pos hd]; simp
        rw [drop_takeWhile_len]
        by_cases h9 : ((c :: r).takeWhile isDigit).length > 9
        · rw [if_pos h9]
          have : (decide (1 ≤ ((c :: r).takeWhile isDigit).length) && decide (((c :: r).takeWhile isDigit).length ≤ 9)) = false := by
            simp; omega
          rw [this]; rfl
        · rw [if_neg h9]
          have : (decide (1 ≤ ((c :: r).takeWhile isDigit).length) && decide (((c :: r).takeWhile isDigit).length ≤ 9)) = true := by
            simp; omega
          rw [this]
          simp only [↓reduceIte]
          cases hdw : (c :: r).dropWhile isDigit with
          | nil => rfl
          | cons dl r2 =>
            simp only
            have hde : (dl == '.' || dl == ')') = isDelim dl := rfl
            rw [hde]
            cases hdl : isDelim dl
            · simp
            · simp only [↓reduceIte, Bool.true_and]
              cases r2 with
              | nil => simp [followOkB, leanmarkView, numberOf]
              | cons x r3 =>
                have hxx : LeanMark.isSpTab x = isSpTab x := rfl
                simp only [followOkB, hxx]
                by_cases hx : isSpTab x = true
                · simp [hx, leanmarkView, numberOf]
                · simp [hx]
      · rw [if_neg hd]
        have : ((c :: r).takeWhile isDigit) = [] := by
          rw [List.takeWhile_cons, if_neg hd]
        rw [this]
        simp

end Verif.Model.ListStartsSpec
