/-
  List looseness, part A: the token tree of a well-formed stream (`GTree` = `GForest` together with the forest
  `treeOf` computes), locating a node, token classes inside the children of a flat list.
-/
import Verif.Model.GfmSpec
import Verif.Lemmas.GfmBasic
namespace Verif.Lemmas.GfmLoose
open Verif.Model.GfmRender Verif.Model.GfmSpec Verif.Lemmas.GfmBasic
open Verif.Model.WellFormed (Cls)

/-- `GForest` together with the forest of nodes the segment denotes. -/
inductive GTree : Option Kind → Nat → List Tok → List Node → Prop
  | nil {par i} : GTree par i [] []
  | atom {par i t k rest ns} : t.kind? = some k → Kind.isStart k = false → atomOK par k = true →
      GTree par (i + 1) rest ns → GTree par i (t :: rest) (.leaf i t :: ns)
  | node {par i s k body e f rest ks ns} : s.kind? = some k → Kind.isStart k = true → startOK par k = true →
      GTree (some k) (i + 1) body ks → e.body = .end_ k i f →
      GTree par (i + 1 + body.length + 1) rest ns →
      GTree par i (s :: (body ++ e :: rest)) (.node i s ks e :: ns)

theorem gtree_of_gforest {par : Option Kind} {i : Nat} {ts : List Tok} (h : GForest par i ts) :
    ∃ ns, GTree par i ts ns := by
  induction h with
  | nil => exact ⟨[], .nil⟩
  | atom hk hs ha _ ih =>
    obtain ⟨ns, h⟩ := ih
    exact ⟨_, .atom hk hs ha h⟩
  | node hk hs ho _ he _ ihb ihr =>
    obtain ⟨ks, hb⟩ := ihb
    obtain ⟨ns, hr⟩ := ihr
    exact ⟨_, .node hk hs ho hb he hr⟩

/-! ### `treeOf` computes the forest -/

theorem isStartTok_of_kind {t : Tok} {k : Kind} (hk : t.kind? = some k) : isStartTok t = Kind.isStart k := by
  unfold isStartTok Kind.isStart
  rw [hk]

theorem treeGo_cons_notEnd {t : Tok} {k : Kind} (hk : t.kind? = some k) (ts : List Tok) (i : Nat)
    (frs : List Frame) (acc : List Node) :
    treeGo (t :: ts) i frs acc =
      if isStartTok t then treeGo ts (i + 1) (⟨i, t, acc⟩ :: frs) [] else treeGo ts (i + 1) frs (.leaf i t :: acc) := by
  obtain ⟨l, b⟩ := t
  cases b <;> simp [Tok.kind?, Body.kind?] at hk <;> simp only [treeGo]

theorem treeGo_cons_end {t : Tok} {k : Kind} {p : Nat} {f : Bool} (he : t.body = .end_ k p f) (ts : List Tok) (i : Nat)
    (fr : Frame) (frs : List Frame) (acc : List Node) :
    treeGo (t :: ts) i (fr :: frs) acc = treeGo ts (i + 1) frs (.node fr.i fr.s acc.reverse t :: fr.saved) := by
  obtain ⟨l, b⟩ := t
  simp only at he
  subst he
  simp only [treeGo]

theorem treeGo_gtree {par : Option Kind} {j : Nat} {seg : List Tok} {ns : List Node} (h : GTree par j seg ns) :
    ∀ (rest : List Tok) (frs : List Frame) (acc : List Node),
      treeGo (seg ++ rest) j frs acc = treeGo rest (j + seg.length) frs (ns.reverse ++ acc) := by
  induction h with
  | nil => intro rest frs acc; simp
  | @atom par i t k rest0 ns hk hs ha _ ih =>
    intro rest frs acc
    rw [List.cons_append, treeGo_cons_notEnd hk, isStartTok_of_kind hk, hs]
    simp only [Bool.false_eq_true, if_false]
    rw [ih]
    simp only [List.length_cons, List.reverse_cons, List.append_assoc, List.singleton_append]
    congr 1; omega
  | @node par i s k body e f rest0 ks ns hk hs ho _ he _ ihb ihr =>
    intro rest frs acc
    rw [List.cons_append, treeGo_cons_notEnd hk, isStartTok_of_kind hk, hs]
    simp only [if_true, List.append_assoc, List.cons_append]
    rw [ihb, treeGo_cons_end he, ihr]
    simp only [List.length_cons, List.length_append, List.reverse_cons, List.append_assoc, List.singleton_append,
      List.append_nil, List.reverse_reverse]
    congr 1; omega

theorem treeOf_gtree {ts : List Tok} {ns : List Node} (h : GTree none 0 ts ns) : treeOf ts = some ns := by
  have := treeGo_gtree h [] [] []
  simp only [List.append_nil] at this
  unfold treeOf
  rw [this]
  simp [treeGo]

/-! ### locating a node -/

theorem gtree_find {par : Option Kind} {j : Nat} {seg : List Tok} {ns : List Node} (h : GTree par j seg ns) :
    ∀ {i : Nat} {s e : Tok} {kids : List Node}, findIn i ns = some (.node i s kids e) →
      ∃ pre body rest k f, seg = pre ++ s :: (body ++ e :: rest) ∧ j + pre.length = i ∧ s.kind? = some k ∧
        Kind.isStart k = true ∧ e.body = .end_ k i f ∧ GTree (some k) (i + 1) body kids := by
  induction h with
  | nil => intro i s e kids hf; simp [findIn] at hf
  | @atom par j t k rest0 ns hk hs ha _ ih =>
    intro i s e kids hf
    simp only [findIn, Node.find] at hf
    by_cases hij : (i == j) = true
    · simp [hij] at hf
    · simp only [hij, Bool.false_eq_true, if_false] at hf
      obtain ⟨pre, body, rest, k', f, h1, h2, h3, h4, h5, h6⟩ := ih hf
      refine ⟨t :: pre, body, rest, k', f, by simp [h1], by simp only [List.length_cons]; omega, h3, h4, h5, h6⟩
  | @node par j s0 k0 body0 e0 f0 rest0 ks ns hk hs ho hb he _ ihb ihr =>
    intro i s e kids hf
    simp only [findIn, Node.find] at hf
    by_cases hij : (i == j) = true
    · simp only [hij, if_true, Option.some.injEq, Node.node.injEq] at hf
      obtain ⟨h1, h2, h3, h4⟩ := hf
      have : i = j := by simpa using hij
      subst h2 h3 h4 this
      exact ⟨[], body0, rest0, k0, f0, by simp, by simp, hk, hs, he, hb⟩
    · simp only [hij, Bool.false_eq_true, if_false] at hf
      cases hfk : findIn i ks with
      | some r =>
        rw [hfk] at hf
        simp only [Option.some.injEq] at hf
        subst hf
        obtain ⟨pre, body, rest, k', f, h1, h2, h3, h4, h5, h6⟩ := ihb hfk
        refine ⟨s0 :: pre, body, rest ++ e0 :: rest0, k', f, by simp [h1], by simp only [List.length_cons]; omega,
          h3, h4, h5, h6⟩
      | none =>
        rw [hfk] at hf
        simp only at hf
        obtain ⟨pre, body, rest, k', f, h1, h2, h3, h4, h5, h6⟩ := ihr hf
        refine ⟨s0 :: (body0 ++ e0 :: pre), body, rest, k', f, by simp [h1],
          by simp only [List.length_cons, List.length_append]; omega, h3, h4, h5, h6⟩

/-! ### token tests by kind -/

theorem isKind_of_kind {t : Tok} {k : Kind} (hk : t.kind? = some k) (k' : Kind) : t.isKind k' = (k == k') := by
  unfold Tok.isKind
  rw [hk]
  cases k <;> cases k' <;> rfl

theorem isEndOf_of_kind {t : Tok} {k : Kind} (hk : t.kind? = some k) (k' : Kind) : t.isEndOf k' = false := by
  obtain ⟨l, b⟩ := t
  cases b <;> simp [Tok.kind?, Body.kind?] at hk <;> rfl

theorem isEndToken_of_kind {t : Tok} {k : Kind} (hk : t.kind? = some k) : t.isEndToken = (k == .eos) := by
  obtain ⟨l, b⟩ := t
  cases b <;> simp [Tok.kind?, Body.kind?] at hk <;> subst hk <;> rfl

theorem isKind_of_end {t : Tok} {k : Kind} {p : Nat} {f : Bool} (he : t.body = .end_ k p f) (k' : Kind) :
    t.isKind k' = false := by
  obtain ⟨l, b⟩ := t
  simp only at he; subst he; rfl

theorem isEndOf_of_end {t : Tok} {k : Kind} {p : Nat} {f : Bool} (he : t.body = .end_ k p f) (k' : Kind) :
    t.isEndOf k' = (k == k') := by
  obtain ⟨l, b⟩ := t
  simp only at he; subst he; rfl

theorem isEndToken_of_end {t : Tok} {k : Kind} {p : Nat} {f : Bool} (he : t.body = .end_ k p f) :
    t.isEndToken = true := by
  obtain ⟨l, b⟩ := t
  simp only at he; subst he; rfl

/-- neither opens nor closes a container -/
def quiet (t : Tok) : Bool := !t.isListStart && !t.isBqStart && !t.isBqEnd && !t.isListEnd
/-- a token the looseness loop steps over without looking back: `quiet`, no `li`, no BLANK, no definition -/
def inl (t : Tok) : Bool := quiet t && !t.isLi && !t.isBlank && !t.isLrd

/-- the tests of a non-end token, by kind -/
theorem tests_of_kind {t : Tok} {k : Kind} (hk : t.kind? = some k) :
    t.isListStart = (k == .ulist || k == .olist) ∧ t.isBqStart = (k == .bquote) ∧ t.isBqEnd = false ∧
    t.isListEnd = false ∧ t.isLi = (k == .li) ∧ t.isBlank = (k == .blank) ∧ t.isLrd = (k == .lrd) ∧
    t.isEndToken = (k == .eos) ∧
    t.isBlock = (k == .bquote || (k == .ulist || k == .olist) || k == .tbreak || k == .atx || k == .setext
      || k == .icode || k == .fcode || k == .htmlBlock || k == .para) := by
  simp only [Tok.isListStart, Tok.isBqStart, Tok.isBqEnd, Tok.isListEnd, Tok.isLi, Tok.isBlank, Tok.isLrd,
    Tok.isBlock, isKind_of_kind hk, isEndOf_of_kind hk, isEndToken_of_kind hk, Bool.or_self, and_self]

/-- the tests of an end token -/
theorem tests_of_end {t : Tok} {k : Kind} {p : Nat} {f : Bool} (he : t.body = .end_ k p f) :
    t.isListStart = false ∧ t.isBqStart = false ∧ t.isBqEnd = (k == .bquote) ∧
    t.isListEnd = (k == .ulist || k == .olist) ∧ t.isLi = false ∧ t.isBlank = false ∧ t.isLrd = false ∧
    t.isEndToken = true ∧ t.isBlock = false := by
  simp only [Tok.isListStart, Tok.isBqStart, Tok.isBqEnd, Tok.isListEnd, Tok.isLi, Tok.isBlank, Tok.isLrd,
    Tok.isBlock, isKind_of_end he, isEndOf_of_end he, isEndToken_of_end he, Bool.or_self, and_self]

/-! ### inside a leaf block: only inline tokens -/

theorem inlineCtx_not_block {p : Kind} (h : inlineCtx (some p) = true) :
    blockCtx (some p) = false ∧ listCtx (some p) = false := by
  cases p <;> simp_all [inlineCtx, blockCtx, listCtx, Kind.cls]

theorem atomOK_inline {p k : Kind} (h : inlineCtx (some p) = true) (ha : atomOK (some p) k = true) :
    k.cls = .inline := by
  obtain ⟨h1, h2⟩ := inlineCtx_not_block h
  unfold atomOK at ha
  cases hc : k.cls <;> simp [hc, h1, h2] at ha ⊢

theorem startOK_inline {p k : Kind} (h : inlineCtx (some p) = true) (ha : startOK (some p) k = true) :
    k.cls = .inline := by
  obtain ⟨h1, h2⟩ := inlineCtx_not_block h
  unfold startOK at ha
  cases hc : k.cls <;> simp [hc, h1] at ha ⊢

theorem inl_of_inline_kind {t : Tok} {k : Kind} (hk : t.kind? = some k) (hc : k.cls = .inline) : inl t = true := by
  obtain ⟨h1, h2, h3, h4, h5, h6, h7, _, _⟩ := tests_of_kind hk
  simp only [inl, quiet, h1, h2, h3, h4, h5, h6, h7]
  cases k <;> simp_all [Kind.cls]

theorem inl_of_inline_end {t : Tok} {k : Kind} {p : Nat} {f : Bool} (he : t.body = .end_ k p f)
    (hc : k.cls = .inline ∨ k.cls = .leaf) : inl t = true := by
  obtain ⟨h1, h2, h3, h4, h5, h6, h7, _, _⟩ := tests_of_end he
  simp only [inl, quiet, h1, h2, h3, h4, h5, h6, h7]
  cases k <;> simp_all [Kind.cls]

theorem gtree_inline {par : Option Kind} {j : Nat} {seg : List Tok} {ns : List Node} (h : GTree par j seg ns) :
    inlineCtx par = true → ∀ t ∈ seg, inl t = true := by
  induction h with
  | nil => intro _ t ht; simp at ht
  | @atom par j t k rest0 ns hk hs ha _ ih =>
    intro hp u hu
    rcases List.mem_cons.mp hu with rfl | hu
    · cases par with
      | none => simp [inlineCtx] at hp
      | some p => exact inl_of_inline_kind hk (atomOK_inline hp ha)
    · exact ih hp u hu
  | @node par j s0 k0 body0 e0 f0 rest0 ks ns hk hs ho hb he _ ihb ihr =>
    intro hp u hu
    cases par with
    | none => simp [inlineCtx] at hp
    | some p =>
      have hk0 : k0.cls = .inline := startOK_inline hp ho
      rcases List.mem_cons.mp hu with rfl | hu
      · exact inl_of_inline_kind hk hk0
      · rcases List.mem_append.mp hu with hu | hu
        · exact ihb (by simp [inlineCtx, hk0]) u hu
        · rcases List.mem_cons.mp hu with rfl | hu
          · exact inl_of_inline_end he (Or.inl hk0)
          · exact ihr hp u hu

end Verif.Lemmas.GfmLoose
