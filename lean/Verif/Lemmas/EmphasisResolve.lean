/-
  From the loop to `resolveWith`: the initial state satisfies the invariant, the two closing passes
  (`__reset_token_text`, `__clear_remaining_emphasis`) touch neither the block list nor the repeat counts.
  Core Lean only.
-/
import Verif.Lemmas.EmphasisCons
namespace Verif.Model.Emphasis

/-! ## `createStack` -/
/-- the repeat counts of character `ch` in the input list -/
def inputCount (ch : Char) : List Item → Int
  | [] => 0
  | .plain :: r => inputCount ch r
  | .special t :: r => (if t.text.head? = some ch then t.rep else 0) + inputCount ch r

def specials : List Item → List Special
  | [] => []
  | .plain :: r => specials r
  | .special t :: r => t :: specials r

theorem createFrom_snd (tag id : Nat) (items : List Item) : (createFrom tag id items).2 = specials items := by
  induction items generalizing tag id with
  | nil => rfl
  | cons x r ih => cases x <;> simp [createFrom, specials, ih]

theorem createFrom_spIds (tag id : Nat) (items : List Item) :
    spIds (createFrom tag id items).1 = List.range' id (specials items).length := by
  induction items generalizing tag id with
  | nil => rfl
  | cons x r ih =>
    cases x with
    | plain => simp [createFrom, specials, ih]
    | special t => simp [createFrom, specials, ih, List.range'_succ]

/-- no emphasis token in the list -/
def noEmph : List Block → Bool
  | [] => true
  | .es _ _ :: _ => false
  | .ee _ _ :: _ => false
  | _ :: r => noEmph r

theorem createFrom_noEmph (tag id : Nat) (items : List Item) : noEmph (createFrom tag id items).1 = true := by
  induction items generalizing tag id with
  | nil => rfl
  | cons x r ih => cases x <;> simp [createFrom, noEmph, ih]

theorem nestRun_noEmph (act : Nat → Bool) (b : List Block) (h : noEmph b = true) : nestRun act [] b = some [] := by
  induction b with
  | nil => rfl
  | cons x b ih => cases x <;> simp_all [noEmph, nestRun]

theorem createFrom_weight (pre : List Special) (tag : Nat) (items : List Item) (ch : Char) :
    weight (charOf (pre ++ specials items)) (pre ++ specials items) ch (createFrom tag pre.length items).1
      = inputCount ch items := by
  induction items generalizing pre tag with
  | nil => rfl
  | cons x r ih =>
    cases x with
    | plain => simpa [createFrom, specials, weight, inputCount] using ih pre (tag + 1)
    | special t =>
      have h := ih (pre ++ [t]) (tag + 1)
      simp only [List.length_append, List.length_cons, List.length_nil, Nat.zero_add, List.append_assoc,
        List.cons_append, List.nil_append] at h
      simp only [createFrom, specials, weight, inputCount, h]
      simp [charOf, repOf]

theorem inv_init (items : List Item) : Inv (createStack items).1 (createStack items).2 := by
  refine ⟨?_, ?_, ?_⟩
  · rw [createStack, createFrom_spIds]; exact List.pairwise_lt_range'
  · intro i hi
    rw [createStack, createFrom_spIds]
    rw [createStack, createFrom_snd] at hi
    have : i < (specials items).length := by
      rcases Nat.lt_or_ge i (specials items).length with h | h
      · exact h
      · simp [isActive, List.getElem?_eq_none h] at hi
    simp [List.mem_range', this]
  · exact nestRun_noEmph _ _ (createFrom_noEmph _ _ _)

/-! ## the closing passes -/
theorem getElem?_resetText (b : List Block) (stk : List Special) (j : Nat) :
    ∃ f : Special → Special, (resetText b stk)[j]? = stk[j]?.map f ∧
      ∀ t, (f t).rep = t.rep ∧ (f t).active = t.active ∧ (f t).prec = t.prec ∧ (f t).foll = t.foll := by
  induction b generalizing stk with
  | nil => exact ⟨id, by simp [resetText], fun t => ⟨rfl, rfl, rfl, rfl⟩⟩
  | cons x b ih =>
    cases x with
    | sp i =>
      obtain ⟨f, hf, hp⟩ := ih (upd stk i fun t => { t with text := pySlice t.text t.rep })
      by_cases hji : j = i
      · subst hji
        refine ⟨fun t => f { t with text := pySlice t.text t.rep }, ?_, fun t => hp _⟩
        simp only [resetText, hf, getElem?_upd, if_true]
        cases stk[j]? <;> simp
      · exact ⟨f, by simp only [resetText, hf, getElem?_upd, hji, if_false], hp⟩
    | plain t => simpa [resetText] using ih stk
    | es n c => simpa [resetText] using ih stk
    | ee n c => simpa [resetText] using ih stk

theorem repOf_resetText (b : List Block) (stk : List Special) (j : Nat) : repOf (resetText b stk) j = repOf stk j := by
  obtain ⟨f, hf, hp⟩ := getElem?_resetText b stk j
  simp only [repOf, hf]
  cases stk[j]? <;> simp [(hp _).1]

theorem length_resetText (b : List Block) (stk : List Special) : (resetText b stk).length = stk.length := by
  induction b generalizing stk with
  | nil => rfl
  | cons x b ih => cases x <;> simp [resetText, ih, length_upd]

theorem getElem?_clearFrom (n i : Nat) (stk : List Special) (j : Nat) :
    (clearFrom n i stk)[j]? = stk[j]?.map fun t => if i ≤ j ∧ j < i + n then { t with active := false } else t := by
  induction n generalizing i stk with
  | zero => simp [clearFrom]; cases stk[j]? <;> simp; omega
  | succ n ih =>
    simp only [clearFrom, ih, deact, getElem?_upd]
    by_cases hji : j = i
    · subst hji
      cases stk[j]? <;> simp
    · cases stk[j]? <;> simp [hji]
      have h1 : (i + 1 ≤ j ∧ j < i + 1 + n) ↔ (i ≤ j ∧ j < i + (n + 1)) := by omega
      simp [h1]

theorem repOf_clearFrom (n i : Nat) (stk : List Special) (j : Nat) : repOf (clearFrom n i stk) j = repOf stk j := by
  simp only [repOf, getElem?_clearFrom]
  cases stk[j]? <;> simp
  split <;> rfl

theorem length_clearFrom (n i : Nat) (stk : List Special) : (clearFrom n i stk).length = stk.length := by
  induction n generalizing i stk with
  | zero => rfl
  | succ n ih => simp [clearFrom, ih]

/-! ## inversion of `resolveWithFuel` -/
/-- the result of the two closing passes on a loop state -/
def finish (cur0 : Nat) (σ : St) : Result :=
  let stk := resetText σ.blocks σ.stk
  ⟨σ.blocks, clearFrom (stk.length - cur0) cur0 stk⟩

theorem resolveWithFuel_ok {pol : Policy} {fuel : Nat} {wall : Option Nat} {items : List Item} {out : Result}
    (h : resolveWithFuel pol fuel wall items = .ok out) :
    ∃ (bottom : Int) (σ : St), findWall (createStack items).1 wall = .ok bottom ∧
      (loop pol bottom fuel ⟨(createStack items).1, (createStack items).2, (bottom + 1).toNat⟩ = .ok σ ∨
        σ = ⟨(createStack items).1, (createStack items).2, (bottom + 1).toNat⟩) ∧
      out = finish (bottom + 1).toNat σ := by
  unfold resolveWithFuel at h
  cases hw : findWall (createStack items).1 wall with
  | error e => simp [hw, bind, Except.bind] at h
  | ok bottom =>
    simp only [hw, bind, Except.bind] at h
    split at h
    · cases h
    · rename_i σ hσ
      simp only [pure, Except.pure, Except.ok.injEq] at h
      refine ⟨bottom, σ, rfl, ?_, by rw [← h]; rfl⟩
      split at hσ
      · exact Or.inl hσ
      · simp only [pure, Except.pure, Except.ok.injEq] at hσ; exact Or.inr hσ.symm

/-- every successful `resolveWith` ends in a loop state that satisfies the invariant and any predicate that holds
    initially and is preserved by pairing steps. -/
theorem resolve_reaches {pol : Policy} (hp : PolicyOK pol) {fuel : Nat} {wall : Option Nat} {items : List Item}
    {out : Result} (Good : List Block → List Special → Prop)
    (hinit : Good (createStack items).1 (createStack items).2)
    (hstep : ∀ blocks stk o c blocks' stk', Inv blocks stk → Good blocks stk →
      (∃ ct, stk[c]? = some ct ∧ pol.closer ct = .ok true) →
      PairStep stk o c blocks blocks' stk' → Good blocks' stk')
    (h : resolveWithFuel pol fuel wall items = .ok out) :
    ∃ (cur0 : Nat) (σ : St), Inv σ.blocks σ.stk ∧ Good σ.blocks σ.stk ∧ out = finish cur0 σ := by
  obtain ⟨bottom, σ, _, hl, ho⟩ := resolveWithFuel_ok h
  rcases hl with hl | hl
  · obtain ⟨h1, h2⟩ := loop_preserves pol hp bottom Good hstep fuel _ _ (inv_init items) hinit hl
    exact ⟨_, σ, h1, h2, ho⟩
  · subst hl
    exact ⟨_, _, inv_init items, hinit, ho⟩

end Verif.Model.Emphasis
