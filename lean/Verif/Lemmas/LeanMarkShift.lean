/-
  LeanMark — the block phase does not depend on absolute line numbers (part 2: the parser).

    L_shift        `eventsFromR rd k ls = (eventsR rd ls).map (shiftEv k)`: numbering the first line `k + 1` adds `k`
                   to every line number in the stream (positions, end lines, payload line numbers), nothing else
    L_shift_from   the same between any two starting numbers
    L_shift_num    the same for explicitly numbered lines (`eventsNumR`), no condition on the numbers
    L_renumber     explicitly numbered lines with strictly increasing numbers, any strictly monotone renumbering
                   `ρ`: `eventsNumR rd (ρ start) (renumbered lines) = (eventsNumR rd start lines).map (renEv ρ)` —
                   the events depend on the numbers of the lines only through the positions they stamp
    L_nums_pos     every line number in the stream of a document numbered from 1 is ≥ 1

  Method: `Core.ren` (LeanMarkShiftCore.lean) renumbers a sink as a whole and commutes with every primitive;
  every observation the parser makes of the sink is invariant; hence `openBlocks`, `stepLine`, `finish` commute
  with renumbering (`openBlocks_ren`, `stepLine_ren`, `BRen.fin`): the parser's decisions never read a line number.
-/
import Verif.Lemmas.LeanMarkShiftCore
import Verif.Lemmas.LeanMarkBalanced
import Verif.Lemmas.LeanMarkLow
namespace Verif.Model.LeanMark
open Core

variable {ρ : Nat → Nat}

/-! ## what the parser reads of the sink is invariant -/
theorem matchConts_ren (ρ : Nat → Nat) : ∀ (st : List OpenC) (cur : Cur),
    matchConts (st.map (renOC ρ)) cur = matchConts st cur
  | [], _ => rfl
  | c :: cs, cur => by
    simp only [List.map_cons, matchConts]
    have hk : (renOC ρ c).k = c.k := rfl
    have hh : (renOC ρ c).m.hasChild = c.m.hasChild := rfl
    have hc : (renOC ρ c).m.contentIndent = c.m.contentIndent := rfl
    simp only [hk, hh, hc, matchConts_ren ρ cs]

theorem quoteDepth_ren (ρ : Nat → Nat) : ∀ (st : List OpenC) (n i best : Nat),
    quoteDepth (st.map (renOC ρ)) n i best = quoteDepth st n i best
  | [], _, _, _ => rfl
  | c :: cs, n, i, best => by
    simp only [List.map_cons, quoteDepth]
    have hk : (renOC ρ c).k = c.k := rfl
    simp only [hk, quoteDepth_ren ρ cs]

theorem isPara_ren (ρ : Nat → Nat) (lf : OpenLeaf) : isPara (renLeaf ρ lf) = isPara lf := by
  cases lf <;> rfl

theorem lrdOnlyGo_ren (ρ : Nat → Nat) : ∀ (fuel : Nat) (ls : List PLine),
    lrdOnlyGo fuel (ls.map (renPL ρ)) = lrdOnlyGo fuel ls
  | 0, ls => by simp [lrdOnlyGo]
  | _ + 1, [] => rfl
  | fuel + 1, l0 :: tl => by
    have htl : (tl.map (renPL ρ)).map (·.text) = tl.map (·.text) := texts_ren ρ tl
    have ht0 : (renPL ρ l0).text = l0.text := rfl
    simp only [lrdOnlyGo, List.map_cons, ht0, htl]
    have hc : renPL ρ l0 :: tl.map (renPL ρ) = (l0 :: tl).map (renPL ρ) := rfl
    simp only [hc, ← List.map_drop, lrdOnlyGo_ren ρ fuel]

theorem lrdOnly_ren (ρ : Nat → Nat) (lf : OpenLeaf) : lrdOnly (renLeaf ρ lf) = lrdOnly lf := by
  cases lf with
  | para ls =>
    simp only [renLeaf, lrdOnly, List.length_map, ← List.map_reverse, lrdOnlyGo_ren]
  | _ => rfl

/-! ## phases 2 and 3 commute with renumbering -/
theorem openBlocks_ren (hρ : Renum ρ) (rd : Reading) {n : Nat} (m : Nat) (hm : m + 1 = ρ (n + 1)) :
    ∀ (fuel : Nat) (s : Core (n + 1)) (cur : Cur) (k : Nat) (first : Bool),
      openBlocks rd fuel (s.ren hρ (m + 1) hm) cur k first = (openBlocks rd fuel s cur k first).ren hρ (m + 1) hm
  | 0, _, _, _, _ => rfl
  | fuel + 1, s, cur, k, first => by
    have ih := openBlocks_ren hρ rd m hm fuel
    unfold openBlocks
    simp only [ren_depth, ren_leaf, ren_stack, isPara_ren, lrdOnly_ren, ren_closeToDepth, ren_touch, ren_closeLeaf,
      ren_closeSetext, ren_lastIsSetextHeading, ren_prep, ren_pushQuote, ren_emitLeaf, ren_startFenced,
      ren_startHtml, ren_pushItem, ren_touchAll, ren_startIndented, ren_addLine, ren_startPara, ih,
      ← List.map_reverse, quoteDepth_ren, ren_ite]
    by_cases hb : cur.blank = true
    · simp only [hb, ↓reduceIte]
    · simp only [hb, Bool.false_eq_true, ↓reduceIte]
      generalize (if (!decide (cur.indent ≥ 4) && first && isPara s.leaf && k == s.depth &&
          (setextLevel? cur.skipWs.rest).isSome) = true then s.closeSetext ((setextLevel? cur.skipWs.rest).getD 1)
        else s) = s1
      repeat' (first | rfl | split)

/-! ## one line -/
theorem stepLine_ren (hρ : Renum ρ) (rd : Reading) {n : Nat} (m : Nat) (hm : m + 1 = ρ (n + 1))
    (s : Core (n + 1)) (l : Line) :
    stepLine rd (s.ren hρ (m + 1) hm) l = (stepLine rd s l).ren hρ (m + 1) hm := by
  unfold stepLine
  simp only [ren_stack, ← List.map_reverse, matchConts_ren, ren_depth, ren_leaf, openBlocks_ren]
  generalize matchConts s.stack.reverse (Cur.ofLine l) = res
  obtain ⟨k, c1⟩ := res
  simp only
  cases hl : s.leaf with
  | none => simp only [renLeaf]; split <;> rfl
  | para ls => simp only [renLeaf]; split <;> rfl
  | fenced pos ch len fi info ls =>
    simp only [renLeaf, ren_touchAll, ren_closeFence, ren_addLine, ren_ite]
  | indented pos ls pend =>
    simp only [renLeaf, ren_touchAll, ren_addPending, ren_addLine, ren_ite]
  | html pos kind ls =>
    simp only [renLeaf, ren_touchAll, ren_closeLeaf, ren_addLine, ren_ite]

/-! ## whole runs -/
/-- `s'` is the parser state `s` with every line number renumbered by `ρ`. -/
def BRen (ρ : Nat → Nat) (s s' : BState) : Prop := s'.n = ρ s.n ∧ s'.core.raw = renRaw ρ s.core.raw

theorem BRen.init (ρ : Nat → Nat) (start : Nat) : BRen ρ (BState.initAt start) (BState.initAt (ρ start)) :=
  ⟨rfl, rfl⟩

theorem BRen.fin (hρ : Renum ρ) {s s' : BState} (h : BRen ρ s s') : BRen ρ (finish s) (finish s') := by
  obtain ⟨n, c⟩ := s
  obtain ⟨n', c'⟩ := s'
  obtain ⟨hn, hr⟩ := h
  simp only at hn hr
  have hc : c' = c.ren hρ n' hn := Core.ext hr
  subst hc
  refine ⟨hn, ?_⟩
  show (((c.ren hρ n' hn).closeToDepth 0).closeLeaf).raw = renRaw ρ ((c.closeToDepth 0).closeLeaf).raw
  rw [ren_closeToDepth, ren_closeLeaf]
  rfl

/-- the effective number `max p (n + 1)` that `stepNum` gives a line numbered `p` after line `n`. -/
@[reducible] def effNum (n p : Nat) : Nat := n + (p - (n + 1)) + 1

theorem stepNum_n (rd : Reading) (s : BState) (p : Nat × Line) : (stepNum rd s p).n = effNum s.n p.1 := rfl

theorem BRen.num (hρ : Renum ρ) (rd : Reading) {s s' : BState} (h : BRen ρ s s') (p : Nat × Line)
    (hd : effNum (ρ s.n) (ρ p.1) = ρ (effNum s.n p.1)) :
    BRen ρ (stepNum rd s p) (stepNum rd s' (ρ p.1, p.2)) := by
  obtain ⟨n, c⟩ := s
  obtain ⟨n', c'⟩ := s'
  obtain ⟨hn, hr⟩ := h
  simp only at hn hr hd
  subst hn
  refine ⟨hd, ?_⟩
  show (stepLine rd (c'.skip (ρ p.1 - (ρ n + 1))).nextLine p.2).raw =
    renRaw ρ (stepLine rd (c.skip (p.1 - (n + 1))).nextLine p.2).raw
  have hc : (c'.skip (ρ p.1 - (ρ n + 1))).nextLine =
      ((c.skip (p.1 - (n + 1))).nextLine).ren hρ (ρ n + (ρ p.1 - (ρ n + 1)) + 1) hd := Core.ext hr
  rw [hc, stepLine_ren]
  rfl

/-- the renumbering commutes with the effective numbers along the run. -/
def Good (ρ : Nat → Nat) : Nat → List (Nat × Line) → Prop
  | _, [] => True
  | n, p :: r => effNum (ρ n) (ρ p.1) = ρ (effNum n p.1) ∧ Good ρ (effNum n p.1) r

theorem BRen.fold (hρ : Renum ρ) (rd : Reading) : ∀ (nls : List (Nat × Line)) {s s' : BState}, BRen ρ s s' →
    Good ρ s.n nls →
    BRen ρ (nls.foldl (stepNum rd) s) ((nls.map fun p => (ρ p.1, p.2)).foldl (stepNum rd) s')
  | [], _, _, h, _ => h
  | p :: r, s, s', h, hg => by
    simp only [List.map_cons, List.foldl_cons]
    exact BRen.fold hρ rd r (h.num hρ rd p hg.1) hg.2

theorem eventsNumR_ren (hρ : Renum ρ) (rd : Reading) (start : Nat) (nls : List (Nat × Line))
    (hg : Good ρ start nls) :
    eventsNumR rd (ρ start) (nls.map fun p => (ρ p.1, p.2)) = (eventsNumR rd start nls).map (renEv ρ) := by
  have h := (BRen.fold hρ rd nls (BRen.init ρ start) hg).fin hρ
  unfold eventsNumR runNumR Core.out
  rw [h.2, renRaw_outRev, List.map_reverse]

/-! ### strictly monotone renumbering of strictly increasing line numbers -/
theorem Renum.ofStrict (hs : ∀ a b, a < b → ρ a < ρ b) : Renum ρ where
  mono := by
    intro a b hab
    rcases Nat.lt_or_eq_of_le hab with h | h
    · exact Nat.le_of_lt (hs a b h)
    · subst h; exact Nat.le_refl _
  pos := by
    intro a ha
    have := hs 0 a (by omega)
    omega

/-- all numbers exceed `start` and increase strictly. -/
def Increasing : Nat → List (Nat × Line) → Prop
  | _, [] => True
  | n, p :: r => n < p.1 ∧ Increasing p.1 r

theorem effNum_of_lt {n p : Nat} (h : n < p) : effNum n p = p := by unfold effNum; omega

theorem Good.ofIncreasing (hs : ∀ a b, a < b → ρ a < ρ b) : ∀ (nls : List (Nat × Line)) (n : Nat),
    Increasing n nls → Good ρ n nls
  | [], _, _ => trivial
  | p :: r, n, h => by
    refine ⟨?_, ?_⟩
    · rw [effNum_of_lt h.1, effNum_of_lt (hs _ _ h.1)]
    · rw [effNum_of_lt h.1]; exact Good.ofIncreasing hs r p.1 h.2

/-- **L_renumber**: the block events depend on the numbers of the lines only through the positions they
    stamp: renumbering the lines by a strictly monotone `ρ` renumbers every line number in the stream
    (positions, end lines, payload line numbers) and changes nothing else. -/
theorem L_renumber (hs : ∀ a b, a < b → ρ a < ρ b) (rd : Reading) (start : Nat) (nls : List (Nat × Line))
    (hinc : Increasing start nls) :
    eventsNumR rd (ρ start) (nls.map fun p => (ρ p.1, p.2)) = (eventsNumR rd start nls).map (renEv ρ) :=
  eventsNumR_ren (Renum.ofStrict hs) rd start nls (Good.ofIncreasing hs nls start hinc)

/-! ### shifts (no condition on the numbers) -/
theorem Good.shift (k : Nat) : ∀ (nls : List (Nat × Line)) (n : Nat), Good (· + k) n nls
  | [], _ => trivial
  | p :: r, n => ⟨by simp only [effNum]; omega, Good.shift k r _⟩

theorem L_shift_num (rd : Reading) (start k : Nat) (nls : List (Nat × Line)) :
    eventsNumR rd (start + k) (nls.map fun p => (p.1 + k, p.2)) = (eventsNumR rd start nls).map (shiftEv k) :=
  eventsNumR_ren (Renum.shift k) rd start nls (Good.shift k nls start)

/-! ### consecutively numbered lines -/
/-- `ls` numbered `n, n + 1, …`. -/
def numbered : Nat → List Line → List (Nat × Line)
  | _, [] => []
  | n, l :: ls => (n, l) :: numbered (n + 1) ls

theorem BState.ext' {a b : BState} (hn : a.n = b.n) (hr : a.core.raw = b.core.raw) : a = b := by
  obtain ⟨n, c⟩ := a
  obtain ⟨n', c'⟩ := b
  simp only at hn hr
  subst hn
  rw [Core.ext hr]

theorem step_eq_stepNum (rd : Reading) (s : BState) (l : Line) : step rd s l = stepNum rd s (s.n + 1, l) := by
  unfold step stepNum
  simp only
  have hd : s.n + 1 - (s.n + 1) = 0 := Nat.sub_self _
  generalize s.n + 1 - (s.n + 1) = d at hd ⊢
  subst hd
  rfl

theorem foldl_step_eq (rd : Reading) : ∀ (ls : List Line) (s : BState) (n : Nat), n = s.n + 1 →
    ls.foldl (step rd) s = (numbered n ls).foldl (stepNum rd) s
  | [], _, _, _ => rfl
  | l :: ls, s, n, hn => by
    subst hn
    simp only [List.foldl_cons, numbered]
    rw [← step_eq_stepNum]
    exact foldl_step_eq rd ls (step rd s l) (s.n + 1 + 1) rfl

theorem eventsFromR_eq_num (rd : Reading) (start : Nat) (ls : List Line) :
    eventsFromR rd start ls = eventsNumR rd start (numbered (start + 1) ls) := by
  unfold eventsFromR runFromR eventsNumR runNumR
  rw [foldl_step_eq rd ls (BState.initAt start) (start + 1) rfl]

theorem numbered_shift (k : Nat) : ∀ (ls : List Line) (n : Nat),
    numbered (n + k) ls = (numbered n ls).map fun p => (p.1 + k, p.2)
  | [], _ => rfl
  | l :: ls, n => by
    simp only [numbered, List.map_cons]
    rw [show n + k + 1 = (n + 1) + k by omega, numbered_shift k ls (n + 1)]

theorem eventsFromR_zero (rd : Reading) (ls : List Line) : eventsFromR rd 0 ls = eventsR rd ls := rfl

/-- **L_shift** (general start): numbering the first line `start + k + 1` instead of `start + 1` adds `k` to
    every line number in the stream and changes nothing else. -/
theorem L_shift_from (rd : Reading) (start k : Nat) (ls : List Line) :
    eventsFromR rd (start + k) ls = (eventsFromR rd start ls).map (shiftEv k) := by
  rw [eventsFromR_eq_num, eventsFromR_eq_num, show start + k + 1 = (start + 1) + k by omega, numbered_shift]
  exact L_shift_num rd start k _

/-- **L_shift**: the block phase does not depend on absolute line numbers. -/
theorem L_shift (rd : Reading) (k : Nat) (ls : List Line) :
    eventsFromR rd k ls = (eventsR rd ls).map (shiftEv k) := by
  have h := L_shift_from rd 0 k ls
  rw [Nat.zero_add] at h
  exact h

/-! ## the numbers inside an event -/
/-- `P` holds of every line number inside the event (position, end line, payload lines). -/
def Ev.allNums (P : Nat → Prop) : Ev → Prop
  | .open _ p => P p.line
  | .close _ e => P e
  | .leaf _ p e pl => P p.line ∧ P e ∧ ∀ l ∈ pl, P l.line

theorem renEv_congr {f g : Nat → Nat} : ∀ {e : Ev}, e.allNums (fun x => f x = g x) → renEv f e = renEv g e
  | .open _ _, h => by simp only [renEv, renPos]; rw [show f _ = g _ from h]
  | .close _ _, h => by simp only [renEv]; rw [show f _ = g _ from h]
  | .leaf _ _ _ pl, h => by
    obtain ⟨h1, h2, h3⟩ := h
    simp only [renEv, renPos]
    rw [show f _ = g _ from h1, show f _ = g _ from h2]
    congr 1
    apply List.map_congr_left
    intro l hl
    simp only [renPL]
    rw [h3 l hl]

theorem renEv_renEv (f g : Nat → Nat) (e : Ev) : renEv f (renEv g e) = renEv (fun x => f (g x)) e := by
  cases e with
  | «open» k p => rfl
  | close k x => rfl
  | leaf k p x pl =>
    simp only [renEv, renPos, List.map_map]
    rfl

theorem renEv_id (e : Ev) : renEv (fun x => x) e = e := by
  have hpl : (renPL fun x => x) = id := by funext l; rfl
  cases e with
  | «open» k p => rfl
  | close k x => rfl
  | leaf k p x pl => simp only [renEv, hpl, List.map_id]; rfl

theorem shiftEv_zero (e : Ev) : shiftEv 0 e = e := renEv_id e

theorem map_renEv_renEv (f g : Nat → Nat) (es : List Ev) :
    (es.map (renEv g)).map (renEv f) = es.map (renEv fun x => f (g x)) := by
  rw [List.map_map]
  apply List.map_congr_left
  intro e _
  exact renEv_renEv f g e

theorem map_renEv_congr {f g : Nat → Nat} {es : List Ev} (h : ∀ e ∈ es, e.allNums (fun x => f x = g x)) :
    es.map (renEv f) = es.map (renEv g) :=
  List.map_congr_left fun e he => renEv_congr (h e he)

theorem Ev.allNums.imp {P Q : Nat → Prop} (hPQ : ∀ x, P x → Q x) : ∀ {e : Ev}, e.allNums P → e.allNums Q
  | .open _ _, h => hPQ _ h
  | .close _ _, h => hPQ _ h
  | .leaf _ _ _ _, h => ⟨hPQ _ h.1, hPQ _ h.2.1, fun l hl => hPQ _ (h.2.2 l hl)⟩

/-- **L_nums_pos**: every line number that occurs in the stream of a document numbered from 1 is ≥ 1
    (`L_pos_range` for positions and payload lines, `L_endline_pos` for end lines). -/
theorem L_nums_pos (rd : Reading) (ls : List Line) : ∀ e ∈ eventsR rd ls, e.allNums (1 ≤ ·) := by
  intro e he
  have h1 := L_pos_rangeR rd ls e he
  have h2 := L_endline_pos rd 0 ls e he
  cases e with
  | «open» k p => exact h1.1
  | close k x => exact h2
  | leaf k p x pl => exact ⟨h1.1, h2, fun l hl => (h1.2.2.2.2 l hl).1⟩

/-! ## non-vacuity -/
example : eventsFromR {} 2 ["> - a".toList, [], "# h".toList] =
    (events ["> - a".toList, [], "# h".toList]).map (shiftEv 2) := L_shift {} 2 _

example : (eventsFromR {} 2 ["> a".toList]) =
    [.open .quote ⟨3, 1⟩, .leaf .para ⟨3, 3⟩ 3 [⟨3, 2, ['a']⟩], .close .quote 3] := by rfl

/-- withheld lines (a gap in the numbering) look like blank-free jumps: the paragraph continues. -/
example : eventsNumR {} 0 [(1, "a".toList), (3, "b".toList)] =
    [.leaf .para ⟨1, 1⟩ 3 [⟨1, 0, ['a']⟩, ⟨3, 0, ['b']⟩]] := by rfl

end Verif.Model.LeanMark
