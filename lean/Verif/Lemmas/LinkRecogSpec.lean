/-
  The link recognisers of pymarkdown (faithful models, Verif/Model/LinkRecog.lean) against the CommonMark 0.31
  definitions as written down in LeanMark (Verif/Model/LeanMark/Text.lean: `scanAngleGo`, `scanRawDestGo`, `scanTitleGo`,
  `scanLabelGo`).  For every piece: the list-level meaning of the model's loop (`…Span`, Verif/Lemmas/LinkRecog.lean) is
  compared with the specification's scanner — equal for ALL inputs where that is true, and with the exact condition (and
  the specification's verdict) where it is not.
-/
import Verif.Lemmas.LinkRecogBody
import Verif.Model.LeanMark.Text
namespace Verif.Model.LinkRecog
open Verif.Model.Recognisers
open Verif.Model.LeanMark (scanAngleGo scanRawDestGo scanTitleGo scanLabelGo isCtlOrSpace isAsciiPunct)

theorem esc_induction (P : Str → Prop) (nil : P []) (bs_end : P ['\\'])
    (bs_pair : ∀ d r, P r → P ('\\' :: d :: r)) (other : ∀ c r, c ≠ '\\' → P r → P (c :: r)) : ∀ l, P l := by
  intro l
  have : ∀ k (l : Str), l.length ≤ k → P l := by
    intro k
    induction k with
    | zero => intro l h; cases l with
      | nil => exact nil
      | cons c r => simp at h
    | succ k ih =>
      intro l h
      cases l with
      | nil => exact nil
      | cons c r =>
        simp only [List.length_cons] at h
        by_cases hc : c = '\\'
        · subst hc
          cases r with
          | nil => exact bs_end
          | cons d r' =>
            simp only [List.length_cons] at h
            exact bs_pair d r' (ih r' (by omega))
        · exact other c r hc (ih r (by omega))
  exact this l.length l (Nat.le_refl _)

def unescLt : Str → Bool
  | [] => false
  | c :: r =>
    if c == '\\' then
      match r with
      | [] => false
      | _ :: r' => unescLt r'
    else if c == '<' then true else unescLt r

theorem unescLt_bs_pair (d : Char) (r : Str) : unescLt ('\\' :: d :: r) = unescLt r := by
  rw [unescLt.eq_def]; rfl
theorem unescLt_other (c : Char) (r : Str) (h : c ≠ '\\') : unescLt (c :: r) = (c == '<' || unescLt r) := by
  rw [unescLt.eq_def]
  have : (c == '\\') = false := by simpa using h
  simp only [this, Bool.false_eq_true, ↓reduceIte]
  cases c == '<' <;> rfl

theorem angleSpan_nil : angleSpan [] = 0 := by simp [angleSpan, gSpan_nil]
theorem angleSpan_bs_end : angleSpan ['\\'] = 1 := by
  simp [angleSpan, gSpan_cons, BS]
theorem angleSpan_bs_pair (d : Char) (r : Str) : angleSpan ('\\' :: d :: r) = angleSpan r + 2 := by
  unfold angleSpan
  rw [gSpan_cons]
  have : angleBreaks.contains NL = false := by decide
  simp only [BS, beq_self_eq_true, ↓reduceIte, this, Bool.and_false, Bool.false_eq_true]
theorem angleSpan_other (c : Char) (r : Str) (h : c ≠ '\\') :
    angleSpan (c :: r) = if c == '>' then 0 else angleSpan r + 1 := by
  unfold angleSpan
  rw [gSpan_cons]
  have h1 : (c == BS) = false := by simpa [BS] using h
  simp only [h1, Bool.false_eq_true, ↓reduceIte, actNone]
  by_cases h2 : (c == '>') = true
  · have : c = '>' := by simpa using h2
    subst this
    simp [angleBreaks]
  · have h3 : angleBreaks.contains c = false := by
      simp only [angleBreaks, List.contains_cons, List.contains_nil, Bool.or_false, Bool.or_eq_false_iff]
      exact ⟨by simpa using h2, h1⟩
    simp only [h3, Bool.false_eq_true, ↓reduceIte, h2]

/-- raw text of an angle destination (after `<`) -/
def angleTake (r : Str) : Str := r.take (angleSpan r)
/-- pymarkdown accepts what follows `<`: a `>` ends it and no newline inside -/
def angleOk (r : Str) : Bool := ((r.drop (angleSpan r)).head? == some '>') && !(angleTake r).contains '\n'

theorem angleTake_bs_pair (d : Char) (r : Str) : angleTake ('\\' :: d :: r) = '\\' :: d :: angleTake r := by
  simp [angleTake, angleSpan_bs_pair, List.take_succ_cons]
theorem angleTake_other (c : Char) (r : Str) (h : c ≠ '\\') :
    angleTake (c :: r) = if c == '>' then [] else c :: angleTake r := by
  unfold angleTake
  rw [angleSpan_other c r h]
  split <;> simp [List.take_succ_cons]
theorem angleOk_bs_pair (d : Char) (r : Str) : angleOk ('\\' :: d :: r) = (d != '\n' && angleOk r) := by
  unfold angleOk
  rw [angleTake_bs_pair, angleSpan_bs_pair]
  simp only [List.drop_succ_cons, List.contains_cons]
  have : ('\n' == '\\') = false := by decide
  rw [this]
  rw [BEq.comm (a := '\n') (b := d)]
  cases h1 : ((List.drop (angleSpan r) r).head? == some '>') <;> cases h2 : (d == '\n') <;> simp [bne, h2]
theorem angleOk_other (c : Char) (r : Str) (h : c ≠ '\\') :
    angleOk (c :: r) = if c == '>' then true else (c != '\n' && angleOk r) := by
  unfold angleOk
  rw [angleTake_other c r h, angleSpan_other c r h]
  by_cases h2 : (c == '>') = true
  · simp [h2]
  · simp only [h2, Bool.false_eq_true, ↓reduceIte, List.drop_succ_cons, List.contains_cons]
    rw [BEq.comm (a := '\n') (b := c)]
    cases h1 : ((List.drop (angleSpan r) r).head? == some '>') <;> cases h3 : (c == '\n') <;> simp [bne, h3]

theorem angle_spec_aux : ∀ (r acc : Str),
    scanAngleGo r acc false =
      if !unescLt (angleTake r) && angleOk r
      then some (acc.reverse ++ angleTake r, acc.length + angleSpan r + 1) else none := by
  intro r
  induction r using esc_induction with
  | nil => intro acc; simp [scanAngleGo, angleOk, angleSpan_nil]
  | bs_end => intro acc; simp [scanAngleGo, angleOk, angleSpan_bs_end]
  | bs_pair d r ih =>
    intro acc
    rw [angleSpan_bs_pair, angleTake_bs_pair, angleOk_bs_pair, unescLt_bs_pair]
    rw [scanAngleGo]
    simp only [show ('\\' == '\n') = false by decide, Bool.false_eq_true, ↓reduceIte, beq_self_eq_true]
    rw [scanAngleGo]
    by_cases hd : (d == '\n') = true
    · have : d = '\n' := by simpa using hd
      simp [this]
    · have hd' : (d != '\n') = true := by simpa using hd
      simp only [hd, Bool.false_eq_true, ↓reduceIte, ih, hd', Bool.true_and]
      split
      · simp only [List.reverse_cons, List.append_assoc, List.cons_append, List.nil_append, List.length_cons,
          Option.some.injEq, Prod.mk.injEq, true_and]; omega
      · rfl
  | other c r hc ih =>
    intro acc
    rw [angleSpan_other c r hc, angleTake_other c r hc, angleOk_other c r hc]
    have h1 : (c == '\\') = false := by simpa using hc
    rw [scanAngleGo]
    by_cases hn : (c == '\n') = true
    · have : c = '\n' := by simpa using hn
      subst this
      simp [unescLt_other _ _ hc]
    · simp only [hn, Bool.false_eq_true, ↓reduceIte, h1]
      have hn' : (c != '\n') = true := by simpa using hn
      by_cases hlt : (c == '<') = true
      · have : c = '<' := by simpa using hlt
        subst this
        simp [unescLt_other _ _ hc]
      · simp only [hlt, Bool.false_eq_true, ↓reduceIte]
        by_cases hgt : (c == '>') = true
        · simp [hgt, unescLt]
        · simp only [hgt, Bool.false_eq_true, ↓reduceIte, ih, hn', Bool.true_and, unescLt_other _ _ hc, hlt, Bool.false_or]
          split
          · simp only [List.reverse_cons, List.append_assoc, List.cons_append, List.nil_append, List.length_cons,
              Option.some.injEq, Prod.mk.injEq, true_and]; omega
          · rfl


/-! ## non-angle destination -/

theorem ofNat_toNat_small : ∀ n, n < 33 → (Char.ofNat n).toNat = n := by decide

theorem range_map_contains (c : Char) : ((List.range 33).map Char.ofNat).contains c = decide (c.toNat < 33) := by
  rw [Bool.eq_iff_iff]
  simp only [List.contains_iff_mem, List.mem_map, List.mem_range, decide_eq_true_eq]
  constructor
  · rintro ⟨n, hn, rfl⟩
    rw [ofNat_toNat_small n hn]; exact hn
  · intro h
    exact ⟨c.toNat, h, by simp⟩

theorem nonAngleBreaks_contains (c : Char) :
    nonAngleBreaks.contains c = (isCtlOrSpace c || c == '(' || c == ')' || c == '\\') := by
  unfold nonAngleBreaks isCtlOrSpace
  rw [List.contains_append, range_map_contains]
  simp only [List.contains_cons, List.contains_nil, Bool.or_false, BS]
  have h7 : (c == '\x7f') = (c.toNat == 127) := by
    rw [Bool.eq_iff_iff]; simp only [beq_iff_eq]
    constructor
    · intro h; subst h; rfl
    · intro h; rw [← Char.ofNat_toNat c, h]
  rw [h7]
  have : decide (c.toNat < 33) = decide (c.toNat ≤ 32) := by
    rw [Bool.eq_iff_iff]; simp only [decide_eq_true_eq]; omega
  rw [this]
  simp only [Bool.or_assoc]

/-- list view of the non-angle destination scan started at parenthesis depth `d`: (characters, final depth) -/
def rawSpan (d : Nat) (l : Str) : Nat × Nat := gSpan nonAngleBreaks actParen l d

theorem rawSpan_nil (d : Nat) : rawSpan d [] = (0, d) := by simp [rawSpan, gSpan_nil]
theorem rawSpan_bs_end (d : Nat) : rawSpan d ['\\'] = (1, d) := by simp [rawSpan, gSpan_cons, BS]
theorem rawSpan_bs_pair (d : Nat) (x : Char) (r : Str) :
    rawSpan d ('\\' :: x :: r) = if x == '\n' then (1, d) else ((rawSpan d r).1 + 2, (rawSpan d r).2) := by
  unfold rawSpan
  rw [gSpan_cons]
  have h1 : nonAngleBreaks.contains '\n' = true := by decide
  have h2 : actParen '\n' d = none := by simp [actParen]
  simp only [BS, NL, beq_self_eq_true, ↓reduceIte, h1, Bool.and_true, h2]
theorem rawSpan_other (d : Nat) (c : Char) (r : Str) (h : c ≠ '\\') :
    rawSpan d (c :: r) =
      if c == '(' then ((rawSpan (d + 1) r).1 + 1, (rawSpan (d + 1) r).2)
      else if c == ')' then (if d != 0 then ((rawSpan (d - 1) r).1 + 1, (rawSpan (d - 1) r).2) else (0, d))
      else if isCtlOrSpace c then (0, d)
      else ((rawSpan d r).1 + 1, (rawSpan d r).2) := by
  unfold rawSpan
  rw [gSpan_cons, nonAngleBreaks_contains c]
  have h1 : (c == BS) = false := by simpa [BS] using h
  have h1' : (c == '\\') = false := h1
  simp only [h1, Bool.false_eq_true, ↓reduceIte, h1', Bool.or_false, actParen]
  by_cases h2 : (c == '(') = true
  · simp [h2]
  · by_cases h3 : (c == ')') = true
    · simp only [h2, Bool.false_eq_true, ↓reduceIte, h3, Bool.or_true]
      by_cases hd : (d != 0) = true
      · simp [hd]
      · first | done | simp [hd]
    · simp only [h2, h3, Bool.or_false, Bool.false_eq_true, ↓reduceIte]

/-- a backslash followed by a space or control character other than a newline occurs -/
def bsCtl : Str → Bool
  | [] => false
  | c :: r =>
    if c == '\\' then
      match r with
      | [] => false
      | x :: r' => (isCtlOrSpace x && x != '\n') || bsCtl r'
    else bsCtl r

theorem bsCtl_bs_pair (x : Char) (r : Str) : bsCtl ('\\' :: x :: r) = ((isCtlOrSpace x && x != '\n') || bsCtl r) := by
  rw [bsCtl.eq_def]; rfl
theorem bsCtl_other (c : Char) (r : Str) (h : c ≠ '\\') : bsCtl (c :: r) = bsCtl r := by
  rw [bsCtl.eq_def]
  have : (c == '\\') = false := by simpa using h
  simp only [this, Bool.false_eq_true, ↓reduceIte]

theorem punct_not_ctl (x : Char) (h : isAsciiPunct x = true) : isCtlOrSpace x = false := by
  unfold isAsciiPunct at h
  unfold isCtlOrSpace
  simp only [Bool.or_eq_true, Bool.and_eq_true, decide_eq_true_eq] at h
  simp only [Bool.or_eq_false_iff, decide_eq_false_iff_not, beq_eq_false_iff_ne, ne_eq]
  omega

theorem raw_spec_aux : ∀ (l : Str) (n d : Nat), bsCtl (l.take (rawSpan d l).1) = false →
    scanRawDestGo l n d false = if (rawSpan d l).2 == 0 then some (n + (rawSpan d l).1) else none := by
  intro l
  induction l using esc_induction with
  | nil => intro n d _; simp [scanRawDestGo, rawSpan_nil]
  | bs_end => intro n d _; simp [scanRawDestGo, rawSpan_bs_end]
  | bs_pair x r ih =>
    intro n d hb
    rw [rawSpan_bs_pair] at hb ⊢
    rw [scanRawDestGo]
    simp only [Bool.false_eq_true, ↓reduceIte, beq_self_eq_true]
    rw [scanRawDestGo]
    simp only [↓reduceIte]
    by_cases hx : (x == '\n') = true
    · have : x = '\n' := by simpa using hx
      subst this
      simp [isAsciiPunct, isCtlOrSpace]
    · simp only [hx, Bool.false_eq_true, ↓reduceIte, List.take_succ_cons, bsCtl_bs_pair, Bool.or_eq_false_iff,
        Bool.and_eq_false_iff] at hb ⊢
      have hx' : (x != '\n') = true := by simpa using hx
      have hctl : isCtlOrSpace x = false := by
        rcases hb.1 with h | h
        · exact h
        · rw [hx'] at h; cases h
      have e : n + 1 + 1 = n + 2 := rfl
      by_cases hp : isAsciiPunct x = true
      · simp only [hp, ↓reduceIte, ih _ _ hb.2]
        split <;> simp <;> omega
      · simp only [hp, Bool.false_eq_true, ↓reduceIte, hctl]
        have h1 : (x == '(') = false := by
          cases h : x == '('
          · rfl
          · rw [beq_iff_eq] at h; subst h; simp [isAsciiPunct] at hp
        have h2 : (x == ')') = false := by
          cases h : x == ')'
          · rfl
          · rw [beq_iff_eq] at h; subst h; simp [isAsciiPunct] at hp
        simp only [h1, h2, Bool.false_eq_true, ↓reduceIte, ih _ _ hb.2]
        split <;> simp <;> omega
  | other c r hc ih =>
    intro n d hb
    rw [rawSpan_other d c r hc] at hb ⊢
    have h1 : (c == '\\') = false := by simpa using hc
    rw [scanRawDestGo]
    simp only [Bool.false_eq_true, ↓reduceIte, h1]
    by_cases h2 : (c == '(') = true
    · have : c = '(' := by simpa using h2
      subst this
      simp only [beq_self_eq_true, ↓reduceIte, List.take_succ_cons, bsCtl_other _ _ hc] at hb ⊢
      have : isCtlOrSpace '(' = false := by decide
      simp only [this, Bool.false_eq_true, ↓reduceIte, ih _ _ hb]
      split <;> simp <;> omega
    · simp only [h2, Bool.false_eq_true, ↓reduceIte] at hb ⊢
      by_cases h3 : (c == ')') = true
      · have : c = ')' := by simpa using h3
        subst this
        have hc' : isCtlOrSpace ')' = false := by decide
        simp only [beq_self_eq_true, ↓reduceIte, hc', Bool.false_eq_true, show (')' == '(') = false by decide] at hb ⊢
        by_cases hd : (d != 0) = true
        · have hd0 : (d == 0) = false := by simpa using hd
          simp only [hd, ↓reduceIte, List.take_succ_cons, bsCtl_other _ _ hc, hd0, Bool.false_eq_true] at hb ⊢
          rw [ih _ _ hb]
          split <;> simp <;> omega
        · have hd0 : (d == 0) = true := by simpa using hd
          simp [hd, hd0]
      · simp only [h3, Bool.false_eq_true, ↓reduceIte] at hb ⊢
        by_cases h4 : isCtlOrSpace c = true
        · simp [h4]
        · simp only [h4, Bool.false_eq_true, ↓reduceIte, List.take_succ_cons, bsCtl_other _ _ hc] at hb ⊢
          rw [ih _ _ hb]
          split <;> simp <;> omega

/-! ## label -/

theorem labelSpan_nil : labelSpan [] = 0 := by simp [labelSpan, gSpan_nil]
theorem labelSpan_bs_end : labelSpan ['\\'] = 1 := by simp [labelSpan, gSpan_cons, BS]
theorem labelSpan_bs_pair (d : Char) (r : Str) : labelSpan ('\\' :: d :: r) = labelSpan r + 2 := by
  unfold labelSpan
  rw [gSpan_cons]
  have : labelBreaks.contains NL = false := by decide
  simp only [BS, beq_self_eq_true, ↓reduceIte, this, Bool.and_false, Bool.false_eq_true]
theorem labelSpan_other (c : Char) (r : Str) (h : c ≠ '\\') :
    labelSpan (c :: r) = if c == '[' || c == ']' then 0 else labelSpan r + 1 := by
  unfold labelSpan
  rw [gSpan_cons]
  have h1 : (c == BS) = false := by simpa [BS] using h
  have h3 : labelBreaks.contains c = (c == '[' || c == ']') := by
    simp only [labelBreaks, List.contains_cons, List.contains_nil, Bool.or_false, h1, Bool.or_assoc]
  simp only [h1, Bool.false_eq_true, ↓reduceIte, actNone, h3]
  split <;> rfl

theorem labelSpan_replicate (n : Nat) (r : Str) : labelSpan (List.replicate n 'a' ++ ']' :: r) = n := by
  induction n with
  | zero => simp [labelSpan_other]
  | succ n ih =>
    rw [List.replicate_succ, List.cons_append, labelSpan_other _ _ (by decide), ih]
    simp

/-- raw label text (after `[`) -/
def labelTake (r : Str) : Str := r.take (labelSpan r)
/-- the scan stopped at a `]` (not at an unescaped `[`, not at the end) -/
def labelOk (r : Str) : Bool := (r.drop (labelSpan r)).head? == some ']'

theorem labelTake_bs_pair (d : Char) (r : Str) : labelTake ('\\' :: d :: r) = '\\' :: d :: labelTake r := by
  simp [labelTake, labelSpan_bs_pair, List.take_succ_cons]
theorem labelTake_other (c : Char) (r : Str) (h : c ≠ '\\') :
    labelTake (c :: r) = if c == '[' || c == ']' then [] else c :: labelTake r := by
  unfold labelTake
  rw [labelSpan_other c r h]
  split <;> simp [List.take_succ_cons]
theorem labelOk_bs_pair (d : Char) (r : Str) : labelOk ('\\' :: d :: r) = labelOk r := by
  simp [labelOk, labelSpan_bs_pair]
theorem labelOk_other (c : Char) (r : Str) (h : c ≠ '\\') :
    labelOk (c :: r) = if c == '[' then false else if c == ']' then true else labelOk r := by
  unfold labelOk
  rw [labelSpan_other c r h]
  by_cases h1 : (c == '[') = true
  · have : c = '[' := by simpa using h1
    subst this; simp
  · by_cases h2 : (c == ']') = true
    · have : c = ']' := by simpa using h2
      subst this; simp
    · simp [h1, h2]

theorem label_spec_aux : ∀ (r acc : Str),
    scanLabelGo r acc false =
      if labelOk r && decide (acc.length + labelSpan r ≤ 999)
      then some (acc.reverse ++ labelTake r, acc.length + labelSpan r + 1) else none := by
  intro r
  induction r using esc_induction with
  | nil => intro acc; simp [scanLabelGo, labelOk, labelSpan_nil]
  | bs_end => intro acc; simp [scanLabelGo, labelOk, labelSpan_bs_end]
  | bs_pair d r ih =>
    intro acc
    rw [labelSpan_bs_pair, labelTake_bs_pair, labelOk_bs_pair]
    rw [scanLabelGo]
    simp only [Bool.false_eq_true, ↓reduceIte, beq_self_eq_true]
    rw [scanLabelGo]
    simp only [↓reduceIte, ih, List.length_cons]
    have e : acc.length + 1 + 1 + labelSpan r = acc.length + (labelSpan r + 2) := by omega
    simp only [e]
    split
    · simp only [List.reverse_cons, List.append_assoc, List.cons_append, List.nil_append,
        Option.some.injEq, Prod.mk.injEq, true_and]
    · rfl
  | other c r hc ih =>
    intro acc
    rw [labelSpan_other c r hc, labelTake_other c r hc, labelOk_other c r hc]
    have h1 : (c == '\\') = false := by simpa using hc
    rw [scanLabelGo]
    simp only [Bool.false_eq_true, ↓reduceIte, h1]
    by_cases h2 : (c == '[') = true
    · simp [h2]
    · simp only [h2, Bool.false_eq_true, ↓reduceIte, Bool.false_or]
      by_cases h3 : (c == ']') = true
      · simp [h3]
      · simp only [h3, Bool.false_eq_true, ↓reduceIte, ih, List.length_cons]
        have e : acc.length + 1 + labelSpan r = acc.length + (labelSpan r + 1) := by omega
        simp only [e]
        split
        · simp only [List.reverse_cons, List.append_assoc, List.cons_append, List.nil_append,
            Option.some.injEq, Prod.mk.injEq, true_and]
        · rfl


/-! ## title -/

/-- list view of `extract_bounded_string` started at nesting `m`: (characters, final nesting) -/
def bSpan (st : Option Char) (c : Char) (m : Int) (l : Str) : Nat × Int :=
  gSpan (boundedBreaks st c) (actBounded st c) l m

theorem boundedSpan_eq_bSpan (st : Option Char) (c : Char) (l : Str) : boundedSpan st c l = bSpan st c 0 l := rfl

theorem boundedBreaks_nl (st : Option Char) (c : Char) (h1 : c ≠ '\n') (h2 : st ≠ some '\n') :
    (boundedBreaks st c).contains NL = false := by
  unfold boundedBreaks
  cases st with
  | none =>
    simp only [List.contains_cons, List.contains_nil, Bool.or_false, NL, BS, Bool.or_eq_false_iff]
    exact ⟨by decide, by simpa using fun h => h1 h.symm⟩
  | some x =>
    simp only [List.contains_cons, List.contains_nil, Bool.or_false, NL, BS, Bool.or_eq_false_iff]
    refine ⟨by decide, by simpa using fun h => h1 h.symm, ?_⟩
    simp only [beq_eq_false_iff_ne, ne_eq]
    intro h; apply h2; rw [h]

theorem bSpan_nil (st : Option Char) (c : Char) (m : Int) : bSpan st c m [] = (0, m) := by simp [bSpan, gSpan_nil]
theorem bSpan_bs_end (st : Option Char) (c : Char) (m : Int) : bSpan st c m ['\\'] = (1, m) := by
  simp [bSpan, gSpan_cons, BS]
theorem bSpan_bs_pair (st : Option Char) (c : Char) (m : Int) (d : Char) (r : Str) (h1 : c ≠ '\n') (h2 : st ≠ some '\n') :
    bSpan st c m ('\\' :: d :: r) = ((bSpan st c m r).1 + 2, (bSpan st c m r).2) := by
  unfold bSpan
  rw [gSpan_cons]
  simp only [BS, beq_self_eq_true, ↓reduceIte, boundedBreaks_nl st c h1 h2, Bool.and_false, Bool.false_eq_true]
theorem bSpan_other (st : Option Char) (c : Char) (m : Int) (x : Char) (r : Str) (h : x ≠ '\\') :
    bSpan st c m (x :: r) =
      if st == some x then ((bSpan st c (m + 1) r).1 + 1, (bSpan st c (m + 1) r).2)
      else if x == c then (if m != 0 then ((bSpan st c (m - 1) r).1 + 1, (bSpan st c (m - 1) r).2) else (0, m))
      else ((bSpan st c m r).1 + 1, (bSpan st c m r).2) := by
  unfold bSpan
  rw [gSpan_cons]
  have h1 : (x == BS) = false := by simpa [BS] using h
  have hbr : (boundedBreaks st c).contains x = (x == c || st == some x) := by
    unfold boundedBreaks
    cases st with
    | none => simp only [List.contains_cons, List.contains_nil, Bool.or_false, h1, Bool.false_or]; rw [show ((none : Option Char) == some x) = false from rfl, Bool.or_false]
    | some y =>
      simp only [List.contains_cons, List.contains_nil, Bool.or_false, h1, Bool.false_or, Option.some.injEq, beq_iff_eq]
      rw [Bool.eq_iff_iff]; simp only [Bool.or_eq_true, beq_iff_eq, Option.some.injEq]
      constructor <;> rintro (h | h) <;> simp [h]
  simp only [h1, Bool.false_eq_true, ↓reduceIte, hbr, actBounded]
  by_cases h2 : (st == some x) = true
  · simp [h2]
  · simp only [h2, Bool.false_eq_true, ↓reduceIte, Bool.or_false]
    by_cases h3 : (x == c) = true
    · simp only [h3, ↓reduceIte]
      by_cases h4 : (m != 0) = true
      · simp [h4]
      · simp [h4]
    · simp [h3]

/-- an unescaped `(` occurs -/
def unescOpen : Str → Bool
  | [] => false
  | c :: r =>
    if c == '\\' then
      match r with
      | [] => false
      | _ :: r' => unescOpen r'
    else if c == '(' then true else unescOpen r

theorem unescOpen_bs_pair (d : Char) (r : Str) : unescOpen ('\\' :: d :: r) = unescOpen r := by
  rw [unescOpen.eq_def]; rfl
theorem unescOpen_other (c : Char) (r : Str) (h : c ≠ '\\') : unescOpen (c :: r) = (c == '(' || unescOpen r) := by
  rw [unescOpen.eq_def]
  have : (c == '\\') = false := by simpa using h
  simp only [this, Bool.false_eq_true, ↓reduceIte]
  cases c == '(' <;> rfl

/-- raw title text (after the opening character) -/
def titleTake (st : Option Char) (c : Char) (r : Str) : Str := r.take (bSpan st c 0 r).1
/-- `extract_bounded_string` found the closing character at nesting 0 -/
def titleOk (st : Option Char) (c : Char) (r : Str) : Bool :=
  ((r.drop (bSpan st c 0 r).1).head? == some c) && (bSpan st c 0 r).2 == 0

/-- quote-bounded titles: the specification's scanner and pymarkdown's agree on every input -/
theorem title_quote_aux (c : Char) (h1 : c ≠ '\n') (h2 : c ≠ '\\') : ∀ (r acc : Str),
    scanTitleGo c false r acc false =
      if titleOk none c r
      then some (acc.reverse ++ titleTake none c r, acc.length + (bSpan none c 0 r).1 + 1) else none := by
  have hc2 : (c == '\\') = false := by simpa using h2
  intro r
  induction r using esc_induction with
  | nil => intro acc; simp [scanTitleGo, titleOk, bSpan_nil]
  | bs_end =>
    intro acc
    simp [scanTitleGo, titleOk, bSpan_bs_end]
  | bs_pair d r ih =>
    intro acc
    unfold titleOk titleTake at ih ⊢
    rw [bSpan_bs_pair none c 0 d r h1 (by simp)]
    rw [scanTitleGo]
    simp only [Bool.false_eq_true, ↓reduceIte, beq_self_eq_true]
    rw [scanTitleGo]
    simp only [↓reduceIte, ih, List.length_cons, List.drop_succ_cons, List.take_succ_cons]
    split
    · simp only [List.reverse_cons, List.append_assoc, List.cons_append, List.nil_append,
        Option.some.injEq, Prod.mk.injEq, true_and]; omega
    · rfl
  | other x r hx ih =>
    intro acc
    unfold titleOk titleTake at ih ⊢
    rw [bSpan_other none c 0 x r hx]
    have hx1 : (x == '\\') = false := by simpa using hx
    rw [scanTitleGo]
    simp only [Bool.false_eq_true, ↓reduceIte, hx1, Bool.false_and]
    have hn : ((none : Option Char) == some x) = false := rfl
    simp only [hn, Bool.false_eq_true, ↓reduceIte]
    by_cases h3 : (x == c) = true
    · have : x = c := by simpa using h3
      subst this
      simp
    · simp only [h3, Bool.false_eq_true, ↓reduceIte, ih, List.length_cons, List.drop_succ_cons, List.take_succ_cons]
      split
      · simp only [List.reverse_cons, List.append_assoc, List.cons_append, List.nil_append,
          Option.some.injEq, Prod.mk.injEq, true_and]; omega
      · rfl

/-- parenthesised titles: the specification rejects an unescaped `(` inside, pymarkdown nests; they agree exactly when
there is none -/
theorem title_paren_aux : ∀ (r acc : Str),
    scanTitleGo ')' true r acc false =
      if !unescOpen (titleTake (some '(') ')' r) && titleOk (some '(') ')' r
      then some (acc.reverse ++ titleTake (some '(') ')' r, acc.length + (bSpan (some '(') ')' 0 r).1 + 1) else none := by
  intro r
  induction r using esc_induction with
  | nil => intro acc; simp [scanTitleGo, titleOk, bSpan_nil]
  | bs_end =>
    intro acc
    simp [scanTitleGo, titleOk, bSpan_bs_end]
  | bs_pair d r ih =>
    intro acc
    unfold titleOk titleTake at ih ⊢
    rw [bSpan_bs_pair (some '(') ')' 0 d r (by decide) (by decide)]
    rw [scanTitleGo]
    simp only [Bool.false_eq_true, ↓reduceIte, beq_self_eq_true, show ('\\' == ')') = false by decide]
    rw [scanTitleGo]
    simp only [↓reduceIte, ih, List.length_cons, List.drop_succ_cons, List.take_succ_cons, unescOpen_bs_pair]
    split
    · simp only [List.reverse_cons, List.append_assoc, List.cons_append, List.nil_append,
        Option.some.injEq, Prod.mk.injEq, true_and]; omega
    · rfl
  | other x r hx ih =>
    intro acc
    unfold titleOk titleTake at ih ⊢
    rw [bSpan_other (some '(') ')' 0 x r hx]
    have hx1 : (x == '\\') = false := by simpa using hx
    rw [scanTitleGo]
    simp only [Bool.false_eq_true, ↓reduceIte, hx1, Bool.true_and]
    by_cases h3 : (x == ')') = true
    · have : x = ')' := by simpa using h3
      subst this
      simp [unescOpen]
    · simp only [h3, Bool.false_eq_true, ↓reduceIte]
      by_cases h4 : (x == '(') = true
      · have : x = '(' := by simpa using h4
        subst this
        simp [List.take_succ_cons, unescOpen_other]
      · have h5 : (some '(' == some x) = false := by
          simp only [beq_eq_false_iff_ne, ne_eq, Option.some.injEq]
          intro h; rw [← h] at h4; simp at h4
        simp only [h4, Bool.false_eq_true, ↓reduceIte, h5, ih, List.length_cons, List.drop_succ_cons,
          List.take_succ_cons, unescOpen_other _ _ hx, Bool.false_or]
        split
        · simp only [List.reverse_cons, List.append_assoc, List.cons_append, List.nil_append,
            Option.some.injEq, Prod.mk.injEq, true_and]; omega
        · rfl


end Verif.Model.LinkRecog
