/-
  Structure of a well-formed stream as seen from one position: the stack of open start tokens (`anc`, innermost first,
  index and token) and what follows the position (`GCloses`): the rest of the innermost open scope, its end token, the
  rest of the next scope, …  One token moves the description on (`gcloses_step`).

  On it: the forward scan of `reset_list_looseness` (`resetScan`) skips complete forests, ignores the end tokens of open
  scopes that are no lists, and stops at the end token of the innermost open LIST (`resetScan_closes`); with
  `findOwning_of_end` the function returns that list's stored flag (`reset_value`).
-/
import Verif.Lemmas.GfmReset
import Verif.Model.GfmSpec
namespace Verif.Lemmas.GfmTight
open Verif.Model.GfmRender Verif.Model.GfmSpec Verif.Lemmas.GfmBasic Verif.Lemmas.GfmScan
open Verif.Lemmas.GfmCalcTotal Verif.Lemmas.GfmReset

/-- `anc` = the open start tokens at stream index `i` (innermost first); `l` = the stream from `i` on. -/
def GCloses : List (Nat × Tok) → Nat → List Tok → Prop
  | [], i, l => GForest none i l
  | (j, s) :: anc, i, l => ∃ k body e f rest, s.kind? = some k ∧ l = body ++ e :: rest ∧ GForest (some k) i body ∧
      e.body = .end_ k j f ∧ GCloses anc (i + body.length + 1) rest

theorem gcloses_idx {anc : List (Nat × Tok)} {i j : Nat} {l : List Tok} (h : GCloses anc i l) (e : i = j) :
    GCloses anc j l := e ▸ h

/-- one token: a point token, a start token (pushed), or the end token of the innermost open scope (popped) -/
theorem gcloses_step {anc : List (Nat × Tok)} {i : Nat} {t : Tok} {rest : List Tok} (h : GCloses anc i (t :: rest)) :
    (∃ k, t.kind? = some k ∧ Kind.isStart k = false ∧ GCloses anc (i + 1) rest) ∨
    (∃ k, t.kind? = some k ∧ Kind.isStart k = true ∧ GCloses ((i, t) :: anc) (i + 1) rest) ∨
    (∃ j s anc' k f, anc = (j, s) :: anc' ∧ s.kind? = some k ∧ t.body = .end_ k j f ∧ GCloses anc' (i + 1) rest) := by
  cases anc with
  | nil =>
    simp only [GCloses] at h
    cases h with
    | @atom _ _ _ k _ hk hst _ hrest => exact Or.inl ⟨k, hk, hst, hrest⟩
    | @node _ _ _ k body e f rest' hk hst _ hbody he hrest =>
      refine Or.inr (Or.inl ⟨k, hk, hst, ?_⟩)
      exact ⟨k, body, e, f, rest', hk, rfl, hbody, he, hrest⟩
  | cons p anc' =>
    obtain ⟨j, s⟩ := p
    obtain ⟨k, body, e, f, rest', hk, hl, hbody, he, hrest⟩ := h
    cases body with
    | nil =>
      simp only [List.nil_append, List.cons.injEq] at hl
      obtain ⟨rfl, rfl⟩ := hl
      exact Or.inr (Or.inr ⟨j, s, anc', k, f, rfl, hk, he, hrest⟩)
    | cons t' body' =>
      simp only [List.cons_append, List.cons.injEq] at hl
      obtain ⟨rfl, rfl⟩ := hl
      cases hbody with
      | @atom _ _ _ k2 _ hk2 hst2 _ hb' =>
        refine Or.inl ⟨k2, hk2, hst2, ?_⟩
        refine ⟨k, body', e, f, rest', hk, rfl, hb', he, gcloses_idx hrest (by simp; omega)⟩
      | @node _ _ _ k2 body2 e2 f2 rest2 hk2 hst2 _ hb2 he2 hr2 =>
        refine Or.inr (Or.inl ⟨k2, hk2, hst2, ?_⟩)
        refine ⟨k2, body2, e2, f2, rest2 ++ e :: rest', hk2, by simp, hb2, he2, ?_⟩
        exact ⟨k, rest2, e, f, rest', hk, rfl, hr2, he, gcloses_idx hrest (by simp; omega)⟩

/-! ### the forward scan of `reset_list_looseness` -/

/-- the scan passes a complete forest with its counter unchanged -/
theorem resetScan_skip {par : Option Kind} {a : Nat} {F : List Tok} (h : GForest par a F) :
    ∀ (rest : List Tok) (sc : Nat), resetScan (F ++ rest) a sc = resetScan rest (a + F.length) sc := by
  induction h with
  | nil => intro rest sc; rfl
  | @atom par a t k rest' hk hst _ _ ih =>
    intro rest sc
    obtain ⟨hs1, hs2⟩ := start_isList hk
    have h1 : t.isListStart = false := by
      rw [hs1]; cases k <;> simp_all [Kind.isStart, Kind.requiresEnd]
    have e1 : a + (t :: rest').length = (a + 1) + rest'.length := by simp; omega
    simp only [List.cons_append, resetScan, h1, hs2, Bool.false_eq_true, if_false]
    rw [ih rest sc, e1]
  | @node par a s k body e f rest' hk _ _ _ he _ ihb ihr =>
    intro rest sc
    obtain ⟨hs1, hs2⟩ := start_isList hk
    obtain ⟨he1, he2⟩ := end_isList he
    have e1 : a + (s :: (body ++ e :: rest')).length = (a + 1 + body.length + 1) + rest'.length := by
      simp; omega
    have e0 : (s :: (body ++ e :: rest')) ++ rest = s :: (body ++ (e :: (rest' ++ rest))) := by simp
    rw [e0, e1]
    rcases listKind_cases k with hl | hl
    · have hb : (k == .ulist || k == .olist) = true := by rcases hl with rfl | rfl <;> rfl
      rw [hb] at hs1 he1
      simp only [resetScan, hs1, if_true]
      rw [ihb (e :: (rest' ++ rest)) (sc + 1)]
      simp only [resetScan, he2, he1, Bool.false_eq_true, if_false, if_true]
      have : (sc + 1 == 0) = false := by simp
      simp only [this, Bool.false_eq_true, if_false, Nat.add_sub_cancel]
      exact ihr rest sc
    · have hb : (k == .ulist || k == .olist) = false := by
        cases k <;> simp_all
      rw [hb] at hs1 he1
      simp only [resetScan, hs1, hs2, Bool.false_eq_true, if_false]
      rw [ihb (e :: (rest' ++ rest)) sc]
      simp only [resetScan, he2, he1, Bool.false_eq_true, if_false]
      exact ihr rest sc

/-- the innermost open list -/
def firstList (anc : List (Nat × Tok)) : Option (Nat × Tok) := anc.find? fun p => p.2.isListStart

/-- from any position of a well-formed stream the scan stops at the end token of the innermost open list, or runs off
the stream when no list is open -/
theorem resetScan_closes : ∀ (anc : List (Nat × Tok)) (i : Nat) (l : List Tok), GCloses anc i l →
    match firstList anc with
    | none => resetScan l i 0 = none
    | some (j, _) => ∃ m e k f, resetScan l i 0 = some m ∧ i ≤ m ∧ l[m - i]? = some e ∧ e.body = .end_ k j f ∧
        e.isListEnd = true
  | [], i, l, h => by
    simp only [GCloses] at h
    have := resetScan_skip h [] 0
    simp only [List.append_nil] at this
    simp only [firstList, List.find?_nil]
    rw [this]; rfl
  | (j, s) :: anc, i, l, h => by
    obtain ⟨k, body, e, f, rest, hk, rfl, hbody, he, hrest⟩ := h
    obtain ⟨hs1, _⟩ := start_isList hk
    obtain ⟨he1, he2⟩ := end_isList he
    have hskip := resetScan_skip hbody (e :: rest) 0
    rcases listKind_cases k with hl | hl
    · have hb : (k == .ulist || k == .olist) = true := by rcases hl with rfl | rfl <;> rfl
      rw [hb] at hs1 he1
      simp only [firstList, List.find?_cons, hs1]
      refine ⟨i + body.length, e, k, f, ?_, by omega, ?_, he, he1⟩
      · rw [hskip]; simp [resetScan, he2, he1]
      · have : i + body.length - i = body.length := by omega
        rw [this]; simp
    · have hb : (k == .ulist || k == .olist) = false := by
        cases k <;> simp_all
      rw [hb] at hs1 he1
      have ih := resetScan_closes anc (i + body.length + 1) rest hrest
      have hscan : resetScan (body ++ e :: rest) i 0 = resetScan rest (i + body.length + 1) 0 := by
        rw [hskip]; simp [resetScan, he2, he1]
      simp only [firstList, List.find?_cons, hs1]
      simp only [firstList] at ih
      rw [hscan]
      cases hf : List.find? (fun p => p.2.isListStart) anc with
      | none => rw [hf] at ih; exact ih
      | some q =>
        rw [hf] at ih
        obtain ⟨j', s'⟩ := q
        obtain ⟨m, e', k', f', h1, h2, h3, h4, h5⟩ := ih
        refine ⟨m, e', k', f', h1, by omega, ?_, h4, h5⟩
        have e3 : m - i = body.length + ((m - (i + body.length + 1)) + 1) := by omega
        rw [e3, List.getElem?_append_right (by omega)]
        have e4 : body.length + (m - (i + body.length + 1) + 1) - body.length = (m - (i + body.length + 1)) + 1 := by omega
        rw [e4, List.getElem?_cons_succ]; exact h3

/-- the flag `reset_list_looseness` computes, read off the open scopes -/
def resetFlag (anc : List (Nat × Tok)) (st : St) : Bool :=
  match firstList anc with
  | none => true
  | some (j, _) => st.isLooseAt j

/-- **`reset_list_looseness` at index `h`** (a container end): the stored flag of the innermost list that is open at
`h + 1`, looking through block quotes; `True` if there is none. -/
theorem reset_value {ts : List Tok} (hG : GForest none 0 ts) (anc : List (Nat × Tok)) (h : Nat)
    (hc : GCloses anc (h + 1) (ts.drop (h + 1))) (st : St) :
    resetListLooseness ts st h = .ok (resetFlag anc st) := by
  have hs := resetScan_closes anc (h + 1) _ hc
  unfold resetListLooseness resetFlag
  cases hf : firstList anc with
  | none => rw [hf] at hs; simp only at hs; rw [hs]
  | some q =>
    obtain ⟨j, s⟩ := q
    rw [hf] at hs
    obtain ⟨m, e, k, f, h1, h2, h3, h4, h5⟩ := hs
    rw [h1]
    have he' : ts[m]? = some e := by
      rw [List.getElem?_drop] at h3
      have : h + 1 + (m - (h + 1)) = m := by omega
      rw [this] at h3; exact h3
    obtain ⟨p, k', f', hb, _, hfo, _⟩ := findOwning_of_end hG m e he' h5
    rw [h4] at hb
    simp only [Body.end_.injEq] at hb
    obtain ⟨_, rfl, _⟩ := hb
    simp only [hfo, bind, Except.bind, pure, Except.pure]

end Verif.Lemmas.GfmTight
