/-
  General facts about the main loop of the regenerator model (`runFrom`): length, prefixes, concatenation of runs,
  what `next_token` and `previous_token` are used for.
-/
import Verif.Lemmas.RegenLeaf
namespace Verif.Lemmas.RegenLeaf
open Verif.Model Verif.Model.RegenLeaf
open Verif.Model.Codec (Str)

/-- The main loop over a list of tokens that is followed by further tokens iff `more`: `next_token is not None` for the last
token of the list is `more`. -/
def runMore (more : Bool) (c : Ctx) (prev : Option Tok) : List Tok → R (List Str × Ctx)
  | [] => .ok ([], c)
  | t :: ts =>
    match process c prev (!ts.isEmpty || more) t with
    | .error e => .error e
    | .ok (s, c') =>
      match runMore more c' (some t) ts with
      | .error e => .error e
      | .ok (ss, c'') => .ok (s :: ss, c'')

theorem runFrom_eq_runMore (c : Ctx) (prev : Option Tok) (ts : List Tok) : runFrom c prev ts = runMore false c prev ts := by
  induction ts generalizing c prev with
  | nil => rfl
  | cons t ts ih =>
    rw [runFrom, runMore]
    simp only [Bool.or_false]
    cases process c prev (!ts.isEmpty) t with
    | error e => rfl
    | ok r =>
      obtain ⟨s, c'⟩ := r
      simp only [ih]
      cases runMore false c' (some t) ts <;> rfl

/-- `previous_token` after a list of tokens -/
def lastOr (prev : Option Tok) (ts : List Tok) : Option Tok :=
  match ts.getLast? with
  | some t => some t
  | none => prev

theorem lastOr_cons (prev : Option Tok) (t : Tok) (ts : List Tok) : lastOr prev (t :: ts) = lastOr (some t) ts := by
  cases ts with
  | nil => rfl
  | cons u us =>
    unfold lastOr
    rw [List.getLast?_cons_cons, List.getLast?_eq_some_getLast (l := u :: us) (by simp)]

/-- **Runs compose**: the loop over `a ++ b` is the loop over `a` (followed by more tokens iff `b` is not empty or `more`),
then the loop over `b` from the context reached, `previous_token` being the last token of `a`. -/
theorem runMore_append (more : Bool) (a b : List Tok) (c : Ctx) (prev : Option Tok) :
    runMore more c prev (a ++ b) =
      match runMore (!b.isEmpty || more) c prev a with
      | .error e => .error e
      | .ok (pa, c') =>
        match runMore more c' (lastOr prev a) b with
        | .error e => .error e
        | .ok (pb, c'') => .ok (pa ++ pb, c'') := by
  induction a generalizing c prev with
  | nil =>
    simp only [List.nil_append, runMore, lastOr, List.getLast?_nil]
    cases runMore more c prev b with
    | error e => rfl
    | ok r => obtain ⟨pb, c''⟩ := r; rfl
  | cons t ts ih =>
    rw [List.cons_append, runMore, runMore]
    have hflag : (!(ts ++ b).isEmpty || more) = (!ts.isEmpty || (!b.isEmpty || more)) := by
      cases ts <;> cases b <;> simp
    rw [hflag]
    cases process c prev (!ts.isEmpty || (!b.isEmpty || more)) t with
    | error e => rfl
    | ok r =>
      obtain ⟨s, c1⟩ := r
      simp only
      rw [ih c1 (some t), lastOr_cons]
      cases runMore (!b.isEmpty || more) c1 (some t) ts with
      | error e => rfl
      | ok r2 =>
        obtain ⟨pa, c2⟩ := r2
        simp only
        cases runMore more c2 (lastOr (some t) ts) b with
        | error e => rfl
        | ok r3 => obtain ⟨pb, c3⟩ := r3; rfl

theorem runMore_length (more : Bool) : ∀ (ts : List Tok) (c : Ctx) (prev : Option Tok) (parts : List Str) (c' : Ctx),
    runMore more c prev ts = .ok (parts, c') → parts.length = ts.length
  | [], c, prev, parts, c', h => by simp [runMore] at h; rw [h.1]; rfl
  | t :: ts, c, prev, parts, c', h => by
    rw [runMore] at h
    cases hp : process c prev (!ts.isEmpty || more) t with
    | error e => rw [hp] at h; cases h
    | ok r =>
      obtain ⟨s, c1⟩ := r
      rw [hp] at h
      simp only at h
      cases hr : runMore more c1 (some t) ts with
      | error e => rw [hr] at h; cases h
      | ok r2 =>
        obtain ⟨ss, c2⟩ := r2
        rw [hr] at h
        simp only [Except.ok.injEq, Prod.mk.injEq] at h
        rw [← h.1, List.length_cons, List.length_cons, runMore_length more ts c1 (some t) ss c2 hr]

theorem runFrom_length (ts : List Tok) (c : Ctx) (prev : Option Tok) (parts : List Str) (c' : Ctx)
    (h : runFrom c prev ts = .ok (parts, c')) : parts.length = ts.length := by
  rw [runFrom_eq_runMore] at h
  exact runMore_length false ts c prev parts c' h

/-- the run over one token -/
theorem runMore_single (more : Bool) (c : Ctx) (prev : Option Tok) (t : Tok) :
    runMore more c prev [t] = match process c prev more t with
      | .error e => .error e
      | .ok (s, c') => .ok ([s], c') := by
  rw [runMore]
  simp only [List.isEmpty_nil, Bool.not_true, Bool.false_or]
  cases process c prev more t with
  | error e => rfl
  | ok r => obtain ⟨s, c'⟩ := r; rfl

/-- `next_token` is only looked at by the end of a fenced code block that was forced closed. -/
theorem process_hasNext (c : Ctx) (prev : Option Tok) (b1 b2 : Bool) (t : Tok) (h : forcedFenceEnd t = false) :
    process c prev b1 t = process c prev b2 t := by
  cases t <;> try rfl
  case endFcode ew xd forced fchar =>
    simp only [forcedFenceEnd] at h
    subst h
    simp only [process, hEndFcode]
    rfl

/-- a run does not depend on `more` when its last token is not a forced fence end -/
theorem runMore_more (b1 b2 : Bool) : ∀ (ts : List Tok) (c : Ctx) (prev : Option Tok),
    (∀ t, ts.getLast? = some t → forcedFenceEnd t = false) → runMore b1 c prev ts = runMore b2 c prev ts
  | [], _, _, _ => rfl
  | [t], c, prev, h => by
    rw [runMore_single, runMore_single, process_hasNext c prev b1 b2 t (h t rfl)]
  | t :: u :: ts, c, prev, h => by
    rw [runMore, runMore]
    simp only [List.isEmpty_cons, Bool.not_false, Bool.true_or]
    cases process c prev true t with
    | error e => rfl
    | ok r =>
      obtain ⟨s, c1⟩ := r
      simp only
      rw [runMore_more b1 b2 (u :: ts) c1 (some t) (fun x hx => h x (by rw [List.getLast?_cons_cons]; exact hx))]

/-- `previous_token` is only looked at by the end of a fenced code block: whether it exists, is a blank line, is the
fenced block's start token. -/
def prevView (p : Option Tok) : Option (Bool × Bool) := p.map fun t => (t.isBlank, t.isFcode)

theorem process_prev (c : Ctx) (p1 p2 : Option Tok) (b : Bool) (t : Tok) (h : prevView p1 = prevView p2) :
    process c p1 b t = process c p2 b t := by
  cases t <;> try rfl
  case endFcode ew xd forced fchar =>
    simp only [process, hEndFcode]
    cases p1 <;> cases p2 <;> simp only [prevView, Option.map_some, Option.map_none, Option.some.injEq, Prod.mk.injEq] at h
    · rfl
    · cases h
    · cases h
    · simp only [h.1, h.2]

end Verif.Lemmas.RegenLeaf
