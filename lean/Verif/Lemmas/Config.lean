/-
  Helper lemmas about the flat property map and section lookup of `Verif.Model.Config`.
-/
import Verif.Model.Config
namespace Verif.Lemmas.Config
open Verif.Model.Config

theorem get?_insert (m : PMap) (k k' : Key) (v : Value) :
    (m.insert k v).get? k' = if k = k' then some v else m.get? k' := by
  induction m with
  | nil => simp [PMap.insert, PMap.get?]
  | cons h t ih =>
    obtain ⟨a, b⟩ := h
    by_cases hak : a = k
    · subst hak
      simp only [PMap.insert, if_true, PMap.get?]
      by_cases h : a = k' <;> simp [h]
    · simp only [PMap.insert, hak, if_false, PMap.get?]
      by_cases hak' : a = k'
      · subst hak'
        have : ¬ k = a := fun h => hak h.symm
        simp [this]
      · simp [hak', ih]

theorem get?_applyLayer (l : Layer) (m : PMap) (k : Key) :
    (applyLayer m l).get? k = (Layer.get? l k <|> m.get? k) := by
  induction l generalizing m with
  | nil => simp [applyLayer, Layer.get?, PMap.get?]
  | cons kv t ih =>
    have h1 : applyLayer m (kv :: t) = applyLayer (m.insert kv.1 kv.2) t := rfl
    have h2 : Layer.get? (kv :: t) k = (applyLayer (PMap.insert [] kv.1 kv.2) t).get? k := rfl
    rw [h1, h2, ih, ih, get?_insert, get?_insert]
    cases Layer.get? t k <;> by_cases h : kv.1 = k <;> simp [h, PMap.get?]

theorem get?_foldl (ls : List Layer) (m : PMap) (k : Key) :
    (ls.foldl applyLayer m).get? k = (ls.reverse.findSome? (fun l => Layer.get? l k) <|> m.get? k) := by
  induction ls generalizing m with
  | nil => simp
  | cons l t ih =>
    simp only [List.foldl_cons, List.reverse_cons, List.findSome?_append]
    rw [ih, get?_applyLayer]
    cases List.findSome? (fun l => Layer.get? l k) t.reverse <;> cases hl : Layer.get? l k <;> simp [hl]

/-- Keys of a map after one write. -/
theorem any_insert (p : Key → Bool) (m : PMap) (k : Key) (v : Value) :
    (m.insert k v).any (fun kv => p kv.1) = (m.any (fun kv => p kv.1) || p k) := by
  induction m with
  | nil => simp [PMap.insert]
  | cons h t ih =>
    obtain ⟨a, b⟩ := h
    by_cases hak : a = k
    · subst hak; simp [PMap.insert]
      cases p a <;> simp
    · simp [PMap.insert, hak, ih, Bool.or_assoc]

theorem any_applyLayer (p : Key → Bool) (l : Layer) (m : PMap) :
    (applyLayer m l).any (fun kv => p kv.1) = (m.any (fun kv => p kv.1) || l.any (fun kv => p kv.1)) := by
  induction l generalizing m with
  | nil => simp [applyLayer]
  | cons kv t ih =>
    have h1 : applyLayer m (kv :: t) = applyLayer (m.insert kv.1 kv.2) t := rfl
    rw [h1, ih, any_insert]
    simp [Bool.or_assoc]

theorem any_foldl (p : Key → Bool) (ls : List Layer) (m : PMap) :
    (ls.foldl applyLayer m).any (fun kv => p kv.1)
      = (m.any (fun kv => p kv.1) || ls.any (fun l => l.any (fun kv => p kv.1))) := by
  induction ls generalizing m with
  | nil => simp
  | cons l t ih => simp [ih, any_applyLayer, Bool.or_assoc]

/-- A bound key is one of the map's keys. -/
theorem any_of_get? (m : PMap) (k : Key) (v : Value) (p : Key → Bool) (hp : p k = true)
    (h : m.get? k = some v) : m.any (fun kv => p kv.1) = true := by
  induction m with
  | nil => simp [PMap.get?] at h
  | cons hd t ih =>
    obtain ⟨a, b⟩ := hd
    by_cases hak : a = k
    · subst hak; simp [hp]
    · simp only [PMap.get?, hak, if_false] at h
      simp [ih h]

theorem get?_none_of_not_any (m : PMap) (k : Key) (p : Key → Bool) (hp : p k = true)
    (h : m.any (fun kv => p kv.1) = false) : m.get? k = none := by
  cases hg : m.get? k with
  | none => rfl
  | some v => rw [any_of_get? m k v p hp hg] at h; cases h

theorem find?_unique {α : Type} [DecidableEq α] (p : α → Bool) (l : List α) (i : α)
    (hi : i ∈ l) (h : ∀ j ∈ l, j ≠ i → p j = false) :
    l.find? p = if p i then some i else none := by
  induction l with
  | nil => cases hi
  | cons a t ih =>
    by_cases hai : a = i
    · subst hai
      cases hp : p a
      · -- nothing else in t can satisfy p
        have hnone : t.find? p = none := by
          apply List.find?_eq_none.2
          intro x hx
          by_cases hxa : x = a
          · subst hxa; simp [hp]
          · simp [h x (List.mem_cons_of_mem _ hx) hxa]
        simp [List.find?, hp, hnone]
      · simp [List.find?, hp]
    · have hpa : p a = false := h a (List.mem_cons_self) hai
      have hi' : i ∈ t := by
        cases hi with
        | head => exact absurd rfl hai
        | tail _ h' => exact h'
      simp [List.find?, hpa, ih hi' (fun j hj => h j (List.mem_cons_of_mem _ hj))]

theorem find?_first {α : Type} (p : α → Bool) (pre post : List α) (i : α)
    (hpre : ∀ j ∈ pre, p j = false) (hi : p i = true) :
    (pre ++ i :: post).find? p = some i := by
  induction pre with
  | nil => simp [hi]
  | cons a t ih =>
    have : p a = false := hpre a List.mem_cons_self
    simp [this, ih (fun j hj => hpre j (List.mem_cons_of_mem _ hj))]

theorem isSectionKey_itemKey (i item : String) : isSectionKey i (itemKey i item) = true := by
  simp [isSectionKey, itemKey]

theorem isSectionKey_enabledKey (i : String) : isSectionKey i (enabledKey i) = true := by
  simp [isSectionKey, enabledKey]

/-! ## vocabulary of the C17 statements and the lemmas behind them -/

/-- What the four sources say about one key, most specific first. -/
def chain (L : Layers) (k : Key) : Option Value :=
  L.set.get? k <|> L.config.get? k <|> L.dflt.get? k <|> L.pyproject.get? k


/-- The merged map in closed form. -/
theorem merged_get? (L : Layers) (k : Key) : L.merged.get? k = chain L k := by
  simp only [Layers.merged, Layers.toList, merge, get?_foldl, chain]
  simp only [PMap.get?]
  simp only [List.reverse_cons, List.reverse_nil, List.nil_append, List.cons_append, List.findSome?_cons, List.findSome?_nil]
  cases L.set.get? k <;> cases L.config.get? k <;> cases L.dflt.get? k <;> cases L.pyproject.get? k <;> rfl


/-- The four file/argument sources with their documentation names, in the model's load order. -/
def Layers.named (L : Layers) : List (LayerName × Layer) :=
  [(.pyproject, L.pyproject), (.defaultFile, L.dflt), (.configFile, L.config), (.setArg, L.set)]


/-- Every key of the rule's other identifiers is absent from every layer: the configuration
addresses the rule by `i` only. -/
def ConsistentlyNamed (r : Rule) (i : String) (L : Layers) : Prop :=
  ∀ j ∈ r.identifiers, j ≠ i → ∀ l ∈ L.toList, ∀ kv ∈ l, isSectionKey j kv.1 = false

theorem no_section_of_consistent (r : Rule) (i j : String) (L : Layers) (hc : ConsistentlyNamed r i L)
    (hj : j ∈ r.identifiers) (hji : j ≠ i) : hasSection L.merged j = false := by
  unfold hasSection Layers.merged merge
  rw [any_foldl (isSectionKey j)]
  simp only [List.any_nil, Bool.false_or, List.any_eq_false]
  intro l hl
  simp only [Bool.not_eq_true, List.any_eq_false]
  intro kv hkv
  simpa using hc j hj hji l hl kv hkv

theorem findSection_consistent (r : Rule) (i : String) (L : Layers) (hi : i ∈ r.identifiers)
    (hc : ConsistentlyNamed r i L) :
    findSection r L.merged = if hasSection L.merged i then some i else none := by
  unfold findSection
  exact find?_unique _ _ i hi (fun j hj hji => no_section_of_consistent r i j L hc hj hji)

/-- The decision for a consistently named rule, in closed form: command line, else the most
specific layer that binds `plugins.<i>.enabled`, else the rule default; a non-boolean value
there counts as "not set" in lenient mode and stops the run in strict mode. -/
def decision (r : Rule) (i : String) (L : Layers) (strict : Bool) (c : CmdLine) : Except Err Bool :=
  match cmdSetting r c with
  | some b => .ok b
  | none =>
    match chain L (enabledKey i) with
    | none => .ok r.enabledByDefault
    | some (.bool b) => .ok b
    | some _ => if strict then .error (.wrongType (enabledKey i)) else .ok r.enabledByDefault

theorem enabledIn_consistent (r : Rule) (i : String) (L : Layers) (strict : Bool) (c : CmdLine)
    (hi : i ∈ r.identifiers) (hc : ConsistentlyNamed r i L) :
    enabledIn r L.merged strict c = decision r i L strict c := by
  unfold enabledIn decision
  cases hcmd : cmdSetting r c with
  | some b => rfl
  | none =>
    simp only
    rw [findSection_consistent r i L hi hc, ← merged_get?]
    cases hs : hasSection L.merged i with
    | false =>
      have : L.merged.get? (enabledKey i) = none :=
        get?_none_of_not_any _ _ (isSectionKey i) (isSectionKey_enabledKey i) hs
      simp [this]
    | true =>
      simp only [if_true, getBool, typedBool]
      cases hg : L.merged.get? (enabledKey i) with
      | none => rfl
      | some v => cases v <;> cases strict <;> rfl


/-- The six-layer order of the documentation as one Boolean function (all values Boolean or
lenient mode): command-line disable ▸ command-line enable ▸ --set ▸ --config ▸ default file ▸
pyproject.toml ▸ rule default. -/
def sixLayer (r : Rule) (i : String) (L : Layers) (c : CmdLine) : Bool :=
  match cmdSetting r c with
  | some b => b
  | none =>
    match chain L (enabledKey i) with
    | some (.bool b) => b
    | _ => r.enabledByDefault


/-- Two configurations say the same thing about a rule, one through identifier `i`, the other
through identifier `j`: layer by layer, `plugins.<i>.<tail>` and `plugins.<j>.<tail>` are bound alike. -/
def SameUnder (i j : String) (L L' : Layers) : Prop :=
  ∀ tail : List String, tail ≠ [] →
    L.pyproject.get? ("plugins" :: i :: tail) = L'.pyproject.get? ("plugins" :: j :: tail) ∧
    L.dflt.get? ("plugins" :: i :: tail) = L'.dflt.get? ("plugins" :: j :: tail) ∧
    L.config.get? ("plugins" :: i :: tail) = L'.config.get? ("plugins" :: j :: tail) ∧
    L.set.get? ("plugins" :: i :: tail) = L'.set.get? ("plugins" :: j :: tail)

theorem chain_same (i j : String) (L L' : Layers) (h : SameUnder i j L L') (tail : List String) (ht : tail ≠ []) :
    chain L ("plugins" :: i :: tail) = chain L' ("plugins" :: j :: tail) := by
  obtain ⟨h1, h2, h3, h4⟩ := h tail ht
  simp [chain, h1, h2, h3, h4]

/-- Forget which key an error names. -/
def outcome {α : Type} : Except Err α → Option α
  | .ok a => some a
  | .error _ => none


/-- The section a consistently named rule reads its settings from holds exactly what the layers
say under `i` (and nothing when no layer mentions the rule). -/
theorem setting_consistent (r : Rule) (i : String) (L : Layers) (strict : Bool) (item : String) (ty : Ty)
    (valid : Value → Bool) (dflt : Option Value) (hi : i ∈ r.identifiers) (hc : ConsistentlyNamed r i L) :
    outcome (setting r L.merged strict item ty valid dflt)
      = outcome (typed (chain L (itemKey i item)) strict (itemKey i item) ty valid dflt) := by
  unfold setting settingsSection getProp
  rw [findSection_consistent r i L hi hc]
  cases hs : hasSection L.merged i with
  | true => simp only [if_true]; rw [merged_get?]
  | false =>
    simp only [Bool.false_eq_true, if_false]
    have h1 : L.merged.get? (itemKey i item) = none :=
      get?_none_of_not_any _ _ (isSectionKey i) (isSectionKey_itemKey i item) hs
    have h2 : L.merged.get? (itemKey r.id item) = none := by
      by_cases hid : r.id = i
      · rw [hid]; exact h1
      · exact get?_none_of_not_any _ _ (isSectionKey r.id) (isSectionKey_itemKey r.id item)
          (no_section_of_consistent r i r.id L hc (by simp [Rule.identifiers]) hid)
    rw [← merged_get?, h1, h2]
    rfl

/-- `typed` up to the key named in the error. -/
theorem outcome_typed_key (found : Option Value) (strict : Bool) (k k' : Key) (ty : Ty) (valid : Value → Bool)
    (dflt : Option Value) :
    outcome (typed found strict k ty valid dflt) = outcome (typed found strict k' ty valid dflt) := by
  unfold typed
  cases found with
  | none => rfl
  | some v => cases h1 : v.hasType ty <;> cases h2 : valid v <;> cases strict <;> simp [outcome, h1, h2]


end Verif.Lemmas.Config
