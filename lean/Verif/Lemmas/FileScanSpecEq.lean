/-
  Helper lemmas for C19: on normalised arguments the code's per-argument behaviour is the
  documented one.
-/
import Verif.Model.FileScan
import Verif.Model.FileScanSpec
import Verif.Lemmas.FileScanPath
import Verif.Lemmas.FileScanLoop
import Verif.Lemmas.FileScanWalk
import Verif.Lemmas.FileScanNorm
import Verif.Lemmas.FileScanGlob
namespace Verif.Lemmas.FileScan
open Verif.Model.FileScan

/-- Extensions are `.` + alphanumerics (argparse checks it); all the proofs need is: no `/`. -/
def NoSlash (exts : List Str) : Prop := ∀ e ∈ exts, '/' ∉ e

theorem suffix_no_sep {sep : Char} {e n : Str} (hs : sep ∉ e) : ∀ {a : Str}, e <:+ a ++ sep :: n → e <:+ n
  | [], h => by
    rcases List.suffix_cons_iff.mp h with h' | h'
    · subst h'; exact absurd (by simp) hs
    · exact h'
  | x :: a, h => by
    rcases List.suffix_cons_iff.mp h with h' | h'
    · subst h'; exact absurd (by simp) hs
    · exact suffix_no_sep hs h'

/-- For a normalised spelling the suffix test on the string is the suffix test on the name. -/
theorem ext_suffix_last {p : Str} {P : Path} {n e : Str} (hP : splitOn '/' p = P)
    (hl : P.getLast? = some n) (he : '/' ∉ e) (hs : e <:+ p) : e <:+ n := by
  have hj := joinSlash_splitOn p
  rw [hP, eq_dropLast_append_of_getLast? hl] at hj
  cases hinit : P.dropLast with
  | nil => rw [hinit] at hj; simp [joinSlash] at hj; rw [hj]; exact hs
  | cons a as =>
    rw [hinit, joinSlash_concat n (by simp)] at hj
    rw [← hj] at hs
    exact suffix_no_sep he hs

theorem eligible_iff_last {t : Tree} (wf : WF t) {exts : List Str} (hx : NoSlash exts) {p : Str}
    {P : Path} (hn : Normalised p) (hres : resolve t p = some P) (hd : kindAt t P ≠ some .dir) :
    eligible t exts p = true ↔ eligibleLast exts P = true := by
  have hfile : kindAt t P = some .file := by
    have := resolve_some_kind wf hres
    cases hk : kindAt t P with
    | none => simp [hk] at this
    | some k => cases k with
      | file => rfl
      | dir => exact absurd hk hd
  obtain ⟨n, hl, hsuf⟩ := resolve_file_last wf hres hfile
  have hP := (resolve_normalised hn hres).symm
  simp only [eligible, isFile, hres, hfile, beq_self_eq_true, Bool.true_and, eligibleLast, hl,
    eligibleName, List.any_eq_true, endsWith, List.isSuffixOf_iff_suffix]
  constructor
  · rintro ⟨e, he, hs⟩; exact ⟨e, he, ext_suffix_last hP hl (hx e he) hs⟩
  · rintro ⟨e, he, hs⟩; exact ⟨e, he, hs.trans hsuf⟩

theorem processPath_found_spec {t : Tree} (wf : WF t) {r : Bool} {exts : List Str} (hx : NoSlash exts)
    {p : Str} (hn : Normalised p) :
    (processPath t r exts p).found = (specPath t r exts p).isSome := by
  simp only [processPath, specPath]
  cases hres : resolve t p with
  | none => rfl
  | some P =>
    simp only []
    by_cases hd : kindAt t P = some .dir
    · simp [hd]
    · simp only [hd, if_false]
      have := eligible_iff_last wf hx hn hres hd
      by_cases he : eligible t exts p = true
      · simp [he, this.mp he]
      · have he' : ¬ eligibleLast exts P = true := fun h => he (this.mpr h)
        simp [he, he']

theorem processPath_sound_spec {t : Tree} (wf : WF t) {r : Bool} {exts : List Str} (hx : NoSlash exts)
    {p f : Str} (hn : Normalised p) (h : f ∈ (processPath t r exts p).files) :
    ∃ Fs, specPath t r exts p = some Fs ∧ ∃ F ∈ Fs, f = render F := by
  simp only [processPath] at h
  cases hres : resolve t p with
  | none => simp [hres] at h
  | some P =>
    simp only [hres] at h
    have hP := resolve_normalised hn hres
    by_cases hd : kindAt t P = some .dir
    · simp only [hd, if_true] at h
      obtain ⟨q, rel, f', hmem, hsp, hl, hr, rfl, he⟩ := mem_walkDir.mp h
      have hq := stripPrefix_eq_some.mp hsp
      have hrel := eq_dropLast_append_of_getLast? hl
      have hvalid : ∀ n ∈ rel.dropLast ++ [f'], ValidName n := by
        intro n hn'
        rw [← hrel] at hn'
        exact validName_of_mem wf hmem (by rw [hq]; exact List.mem_append_right _ hn')
      obtain ⟨hsplit, _⟩ := walk_string_normalised (top := p) (dirs := rel.dropLast) (f := f') hn hvalid
      refine ⟨dirFiles t r exts P, by simp [specPath, hres, hd], q, ?_, ?_⟩
      · simp only [dirFiles, List.mem_map, List.mem_filter, Bool.and_eq_true, beq_iff_eq]
        refine ⟨(q, .file), ⟨hmem, ⟨rfl, ?_⟩, ?_⟩, rfl⟩
        · simp only [isUnder, hsp]
          cases rel with
          | nil => simp at hl
          | cons x rest =>
            cases rest with
            | nil => rfl
            | cons y l =>
              simp only
              rcases hr with hr | hr
              · exact hr
              · simp at hr
        · have hlast : q.getLast? = some f' := by rw [hq]; simp [List.getLast?_append, hl]
          simp only [eligibleLast, hlast, eligibleName, List.any_eq_true, endsWith,
            List.isSuffixOf_iff_suffix]
          simp only [eligible, Bool.and_eq_true, List.any_eq_true, endsWith,
            List.isSuffixOf_iff_suffix] at he
          obtain ⟨_, e, hee, hs⟩ := he
          exact ⟨e, hee, suffix_no_sep (hx e hee) hs⟩
      · rw [render, ← joinSlash_splitOn (stripOneSep (walkRoot p rel.dropLast) ++ '/' :: f'), hsplit,
          ← hP, List.append_assoc, ← hrel, ← hq]
    · simp only [hd, if_false] at h
      by_cases he : eligible t exts p = true
      · simp only [he, if_true, List.mem_singleton] at h
        subst h
        have hel := (eligible_iff_last wf hx hn hres hd).mp he
        exact ⟨[P], by simp [specPath, hres, hd, hel], P, by simp, normalised_render hn hres⟩
      · simp [he] at h

theorem processPath_complete_spec {t : Tree} (wf : WF t) {r : Bool} {exts : List Str} {p : Str}
    (hn : Normalised p) {Fs : List Path} (hs : specPath t r exts p = some Fs) {F : Path} (hF : F ∈ Fs) :
    render F ∈ (processPath t r exts p).files := by
  obtain ⟨f, hf, hr⟩ := processPath_complete wf hs hF
  have := normalised_render (processPath_files_normalised wf hn hf) hr
  rw [← this]; exact hf

/-! ### per argument -/

theorem argFails_spec {t : Tree} (wf : WF t) {r : Bool} {exts : List Str} (hx : NoSlash exts) {a : Str}
    (hn : Normalised a) : argFails t r exts a = (specArg t r exts a).isNone := by
  simp only [argFails, specArg]
  split
  · split <;> simp_all
  · rw [processPath_found_spec wf hx hn]
    cases specPath t r exts a <;> rfl

theorem contrib_spec {t : Tree} (wf : WF t) {r : Bool} {exts : List Str} (hx : NoSlash exts) {a : Str}
    (hn : Normalised a) {f : Str} :
    f ∈ contrib t r exts a ↔ f ∈ ((specArg t r exts a).getD []).map render := by
  simp only [contrib, specArg]
  by_cases hg : isGlobArg a = true
  · simp only [hg, if_true]
    constructor
    · intro h
      obtain ⟨g, hgm, hf⟩ := List.mem_flatMap.mp h
      obtain ⟨Fs, hs, F, hF, rfl⟩ := processPath_sound_spec wf hx (glob_normalised wf hn hgm) hf
      have hne : (glob t a).isEmpty = false := by
        cases hgl : glob t a with
        | nil => rw [hgl] at hgm; simp at hgm
        | cons _ _ => rfl
      simp only [hne, Bool.false_eq_true, if_false, Option.getD_some]
      exact List.mem_map.mpr ⟨F, List.mem_flatMap.mpr ⟨g, hgm, by simp [hs, hF]⟩, rfl⟩
    · intro h
      split at h
      · simp at h
      · simp only [Option.getD_some] at h
        obtain ⟨F, hF, rfl⟩ := List.mem_map.mp h
        obtain ⟨g, hgm, hFg⟩ := List.mem_flatMap.mp hF
        cases hs : specPath t r exts g with
        | none => simp [hs] at hFg
        | some Fs =>
          simp only [hs, Option.getD_some] at hFg
          exact List.mem_flatMap.mpr ⟨g, hgm, processPath_complete_spec wf (glob_normalised wf hn hgm) hs hFg⟩
  · simp only [hg, Bool.false_eq_true, if_false]
    constructor
    · intro h
      obtain ⟨Fs, hs, F, hF, rfl⟩ := processPath_sound_spec wf hx hn h
      simp only [hs, Option.getD_some]
      exact List.mem_map.mpr ⟨F, hF, rfl⟩
    · intro h
      cases hs : specPath t r exts a with
      | none => simp [hs] at h
      | some Fs =>
        simp only [hs, Option.getD_some] at h
        obtain ⟨F, hF, rfl⟩ := List.mem_map.mp h
        exact processPath_complete_spec wf hn hs hF

end Verif.Lemmas.FileScan
