/-
  Lemmas about the inline link body `( ws dest ws title ws )`: `__parse_inline_link_properties`,
  `__process_inline_link_body`, and what the Markdown regenerator writes from the stored fields.
-/
import Verif.Lemmas.LinkRecog
namespace Verif.Model.LinkRecog
open Verif.Model.Recognisers

/-! ## white space and slices -/

/-- index after the ASCII white space that starts at `i` -/
def wsTo (s : Str) (i : Nat) : Nat := scanTo s asciiWs.contains i

theorem wsTo_ge (s : Str) (i : Nat) : i ≤ wsTo s i := scanTo_ge _ _ _
theorem wsTo_le (s : Str) (i : Nat) (h : i ≤ s.length) : wsTo s i ≤ s.length := scanTo_le _ _ _ h

theorem extractAsciiWsVerified_eq (s : Str) (i : Nat) (h : i ≤ s.length) :
    extractAsciiWsVerified s i = .ok (wsTo s i, slice s i (wsTo s i)) := by
  unfold extractAsciiWsVerified
  rw [extractAsciiWs_eq]; simp only [h, ↓reduceIte]; rfl

theorem takeWhile_dropWhile_nil {α : Type} (p : α → Bool) (l : List α) : (l.dropWhile p).takeWhile p = [] := by
  induction l with
  | nil => rfl
  | cons a t ih =>
    rw [List.dropWhile_cons]
    by_cases h : p a = true
    · simp only [h, ↓reduceIte]; exact ih
    · simp only [h, Bool.false_eq_true, ↓reduceIte, List.takeWhile_cons]

theorem drop_takeWhile_length {α : Type} (p : α → Bool) (l : List α) : l.drop (l.takeWhile p).length = l.dropWhile p := by
  induction l with
  | nil => rfl
  | cons a t ih =>
    rw [List.takeWhile_cons, List.dropWhile_cons]
    by_cases h : p a = true
    · simp only [h, ↓reduceIte, List.length_cons, List.drop_succ_cons]; exact ih
    · simp only [h, Bool.false_eq_true, ↓reduceIte, List.length_nil, List.drop_zero]

theorem wsTo_idem (s : Str) (i : Nat) : wsTo s (wsTo s i) = wsTo s i := by
  unfold wsTo scanTo
  rw [← List.drop_drop, drop_takeWhile_length, takeWhile_dropWhile_nil]; rfl

theorem slice_append (s : Str) (a b c : Nat) (h1 : a ≤ b) (h2 : b ≤ c) : slice s a b ++ slice s b c = slice s a c := by
  obtain ⟨k, rfl⟩ := Nat.exists_eq_add_of_le h1
  obtain ⟨m, rfl⟩ := Nat.exists_eq_add_of_le h2
  rw [slice_drop_take, slice_drop_take, Nat.add_assoc, slice_drop_take, ← List.drop_drop, take_take_drop]

theorem slice_cons (s : Str) (i n : Nat) (c : Char) (h : isCharAt s i c = true) (hn : i < n) :
    slice s i n = c :: slice s (i + 1) n := by
  have hl := isCharAt_true_lt h
  rw [isCharAt_lt hl] at h
  simp only [beq_iff_eq] at h
  obtain ⟨k, rfl⟩ := Nat.exists_eq_add_of_le hn
  show slice s i (i + 1 + k) = c :: slice s (i + 1) (i + 1 + k)
  rw [show i + 1 + k = i + (k + 1) by omega, slice_drop_take, List.drop_eq_getElem_cons hl, h, List.take_succ_cons,
    ← slice_drop_take, show i + 1 + k = i + (k + 1) by omega]

theorem slice_snoc1 (s : Str) (i n : Nat) (c : Char) (h : isCharAt s n c = true) (hn : i ≤ n) :
    slice s i (n + 1) = slice s i n ++ [c] := by
  obtain ⟨k, rfl⟩ := Nat.exists_eq_add_of_le hn
  rw [slice_snoc s i k c h, slice_drop_take]

/-! ## the pieces of the body and their reassembly -/

/-- closing character of a title opened by `o` -/
def closeOf (o : Char) : Char := if o == '(' then ')' else o

/-- the destination as written in the source: the stored pre-escape text, in angle brackets if the flag says so -/
def destPiece (l : LHP) : Str :=
  if l.didUseAngle == some true then '<' :: (l.preInlineLink.getD []) ++ ['>'] else l.preInlineLink.getD []

/-- the title as written in the source: bounding character, stored pre-escape text, closing character -/
def titlePiece (l : LHP) : Str :=
  match l.bounding with
  | [o] => o :: (l.preInlineTitle.getD []) ++ [closeOf o]
  | _ => []

/-- the consumed source span, reassembled from the stored raw fields -/
def bodyPieces (l : LHP) : Str :=
  '(' :: l.beforeLinkWs ++ destPiece l ++ l.beforeTitleWs ++ titlePiece l ++ l.afterTitleWs ++ [')']

/-- the fields of an accepted inline link are all defined and consistent -/
structure LhpWf (l : LHP) : Prop where
  link : ∃ p q, l.preInlineLink = some p ∧ l.inlineLink = some q ∧ (p = [] → q = [])
  title : ∃ p q, l.preInlineTitle = some p ∧ l.inlineTitle = some q ∧ (p = [] → q = [])
  angle : ∃ a, l.didUseAngle = some a
  bound : (l.bounding = [] ∧ l.preInlineTitle = some [] ∧ l.afterTitleWs = []) ∨
          l.bounding = ['\''] ∨ l.bounding = ['"'] ∨ l.bounding = ['(']

/-- outcome of `__parse_inline_link_properties` started at `n0` -/
inductive PropsOut (s : Str) (n0 : Nat) (ws0 : Str) : Int × LHP → Prop
  | fail (l : LHP) : PropsOut s n0 ws0 (-1, l)
  | untermTitle (l : LHP) : (∃ a, l.didUseAngle = some a) → PropsOut s n0 ws0 ((s.length : Int), l)
  | ok (n : Nat) (l : LHP) : n0 < n → n ≤ s.length → l.beforeLinkWs = ws0 →
      slice s n0 n = destPiece l ++ l.beforeTitleWs ++ titlePiece l ++ l.afterTitleWs → LhpWf l →
      (isCharAt s n ')' = true ∨ n = s.length ∨ l.bounding ≠ []) →
      PropsOut s n0 ws0 ((n : Int), l)

theorem Safe.of_error_safe {α β : Type} {x : Except LErr α} (hs : Safe x) {e : LErr} (h : x = .error e) :
    Safe (Except.error e : Except LErr β) := by
  intro e' he'; injection he' with he'; subst he'; exact hs e h

theorem parseInlineLinkProperties_spec (s : Str) (n0 : Nat) (l0 : LHP) (h : n0 ≤ s.length) :
    Safe (parseInlineLinkProperties s n0 l0) ∧
    ∀ r, parseInlineLinkProperties s n0 l0 = .ok r → PropsOut s n0 l0.beforeLinkWs r := by
  unfold parseInlineLinkProperties
  obtain ⟨hds, hdd⟩ := parseLinkDestination_spec s n0 h
  cases hd : parseLinkDestination s n0 with
  | error e => exact ⟨Safe.of_error_safe hds hd, fun r hr => by cases hr⟩
  | ok d =>
    simp only
    rcases hdd d hd with hf | ⟨hf, _⟩ | ⟨ni, pre, enc, hdeq, hni1, hni2, hsl, hnl, hne, hpe⟩
    · -- no destination
      subst hf
      simp only [DestResult.fail, bne_self_eq_false, Bool.false_eq_true, ↓reduceIte]
      exact ⟨Safe.ok _, fun r hr => by injection hr with hr; rw [← hr]; exact PropsOut.fail _⟩
    · -- `<` without `>`
      simp only [hf, bne_self_eq_false, Bool.false_eq_true, ↓reduceIte]
      exact ⟨Safe.ok _, fun r hr => by injection hr with hr; rw [← hr]; exact PropsOut.fail _⟩
    · -- a destination ending at `ni`
      subst hdeq
      have hne1 : ((ni : Int) != -1) = true := by simp only [bne_iff_ne, ne_eq]; omega
      simp only [hne1, ↓reduceIte, Int.toNat_natCast, extractAsciiWsVerified_eq s ni hni2]
      have hw1 := wsTo_ge s ni
      have hw2 := wsTo_le s ni hni2
      generalize hn1 : wsTo s ni = n1 at *
      by_cases hcp : isCharAtNot s n1 ')' = true
      · -- something other than `)` follows: a title, or nothing
        simp only [hcp, ↓reduceIte]
        obtain ⟨hts, htt⟩ := parseLinkTitle_spec s n1
        cases ht : parseLinkTitle s n1 with
        | error e => exact ⟨Safe.of_error_safe hts ht, fun r hr => by cases hr⟩
        | ok tr =>
          obtain ⟨t, pt, n2, b⟩ := tr
          simp only
          have hto := htt _ ht
          cases hto with
          | noTitle =>
            simp only [bne_self_eq_false, Bool.false_eq_true, ↓reduceIte]
            exact ⟨Safe.ok _, fun r hr => by injection hr with hr; rw [← hr]; exact PropsOut.fail _⟩
          | unterminated b hlt =>
            have hne2 : ((s.length : Int) != -1) = true := by simp only [bne_iff_ne, ne_eq]; omega
            simp only [hne2, ↓reduceIte, Int.toNat_natCast, extractAsciiWsVerified_eq s s.length (Nat.le_refl _)]
            have hwl : wsTo s s.length = s.length := by
              have := wsTo_ge s s.length; have := wsTo_le s s.length (Nat.le_refl _); omega
            rw [hwl]
            exact ⟨Safe.ok _, fun r hr => by injection hr with hr; rw [← hr]; exact PropsOut.untermTitle _ ⟨_, rfl⟩⟩
          | title n tv raw o c hn3 hn4 hsl2 hoc hraw =>
            have hne2 : ((n : Int) != -1) = true := by simp only [bne_iff_ne, ne_eq]; omega
            simp only [hne2, ↓reduceIte, Int.toNat_natCast, extractAsciiWsVerified_eq s n hn4]
            have hw3 := wsTo_ge s n
            have hw4 := wsTo_le s n hn4
            refine ⟨Safe.ok _, fun r hr => ?_⟩
            injection hr with hr; rw [← hr]
            refine PropsOut.ok (wsTo s n) _ (by omega) hw4 rfl ?_ ?_ (Or.inr (Or.inr (by simp)))
            · -- reassembly
              have hco : closeOf o = c := by
                rcases hoc with ⟨h1, h2⟩ | ⟨h1, h2⟩ | ⟨h1, h2⟩ <;> subst h1 <;> subst h2 <;> rfl
              simp only [destPiece, titlePiece, Option.getD_some, hco]
              rw [← slice_append s n0 ni (wsTo s n) (by omega) (by omega),
                ← slice_append s ni n1 (wsTo s n) (by omega) (by omega),
                ← slice_append s n1 n (wsTo s n) (by omega) (by omega), hsl, hsl2]
              by_cases ha : isCharAt s n0 '<' = true
              · simp only [ha, ↓reduceIte, beq_self_eq_true, List.append_assoc, List.cons_append]
              · have ha' : isCharAt s n0 '<' = false := by simpa using ha
                simp only [ha', Bool.false_eq_true, ↓reduceIte, List.append_assoc, List.cons_append]
                rfl
            · -- well-formedness
              refine ⟨⟨pre, enc, rfl, rfl, ?_⟩, ⟨raw, tv, rfl, rfl, hraw⟩, ⟨_, rfl⟩, ?_⟩
              · exact hpe
              · rcases hoc with ⟨h1, _⟩ | ⟨h1, _⟩ | ⟨h1, _⟩ <;> subst h1 <;> simp
      · -- `)` or the end of the string follows
        simp only [hcp, Bool.false_eq_true, ↓reduceIte, hne1, Int.toNat_natCast, extractAsciiWsVerified_eq s n1 hw2]
        have hidem : wsTo s n1 = n1 := by rw [← hn1]; exact wsTo_idem s ni
        rw [hidem, slice_self]
        refine ⟨Safe.ok _, fun r hr => ?_⟩
        injection hr with hr; rw [← hr]
        refine PropsOut.ok n1 _ (by omega) hw2 rfl ?_ ?_ ?_
        · simp only [destPiece, titlePiece, Option.getD_some, List.append_nil]
          rw [← slice_append s n0 ni n1 (by omega) (by omega), hsl]
          by_cases ha : isCharAt s n0 '<' = true
          · simp only [ha, ↓reduceIte, beq_self_eq_true]
          · have ha' : isCharAt s n0 '<' = false := by simpa using ha
            simp only [ha', Bool.false_eq_true, ↓reduceIte]
            rfl
        · refine ⟨⟨pre, enc, rfl, rfl, ?_⟩, ⟨[], [], rfl, rfl, fun _ => rfl⟩, ⟨_, rfl⟩, Or.inl ⟨rfl, rfl, rfl⟩⟩
          exact hpe
        · by_cases hl : n1 < s.length
          · left
            rw [isCharAtNot_drop, List.head?_drop, List.getElem?_eq_getElem hl] at hcp
            rw [isCharAt_lt hl]
            simpa using hcp
          · right; left; omega

/-- outcome of `__process_inline_link_body` started at the `(` at index `i` -/
inductive BodyOut (s : Str) (i : Nat) : Int × LHP → Prop
  | fail (l : LHP) : BodyOut s i (-1, l)
  | ok (n : Nat) (l : LHP) : i + 2 ≤ n → n ≤ s.length → slice s i n = bodyPieces l → LhpWf l →
      BodyOut s i ((n : Int), l)

theorem lhp_angle_eta (l : LHP) (a : Bool) (h : l.didUseAngle = some a) : { l with didUseAngle := some a } = l := by
  cases l; simp only at h; subst h; rfl

theorem processInlineLinkBody_spec (s : Str) (i : Nat) (h : isCharAt s i '(' = true) :
    Safe (processInlineLinkBody s i) ∧ ∀ r, processInlineLinkBody s i = .ok r → BodyOut s i r := by
  have hlt := isCharAt_true_lt h
  unfold processInlineLinkBody
  rw [extractAsciiWsVerified_eq s (i + 1) (by omega)]
  simp only
  have hw1 := wsTo_ge s (i + 1)
  have hw2 := wsTo_le s (i + 1) (by omega)
  generalize hn0 : wsTo s (i + 1) = n0 at *
  by_cases hc : isCharAt s n0 ')' = true
  · have hl0 := isCharAt_true_lt hc
    have hne : ((n0 : Int) != -1) = true := by simp only [bne_iff_ne, ne_eq]; omega
    simp only [hc, Bool.not_true, Bool.false_eq_true, ↓reduceIte, processInlineLinkBodyFinal, hne, Int.toNat_natCast]
    refine ⟨Safe.ok _, fun r hr => ?_⟩
    injection hr with hr; rw [← hr]
    refine BodyOut.ok (n0 + 1) _ (by omega) (by omega) ?_ ?_
    · rw [slice_snoc1 s i n0 ')' hc (by omega), slice_cons s i n0 '(' h (by omega)]
      simp [bodyPieces, destPiece, titlePiece]
    · exact ⟨⟨[], [], rfl, rfl, fun _ => rfl⟩, ⟨[], [], rfl, rfl, fun _ => rfl⟩, ⟨false, rfl⟩, Or.inl ⟨rfl, rfl, rfl⟩⟩
  · simp only [hc, Bool.not_false, ↓reduceIte]
    obtain ⟨hps, hpp⟩ := parseInlineLinkProperties_spec s n0 { beforeLinkWs := slice s (i + 1) n0 } hw2
    cases hp : parseInlineLinkProperties s n0 { beforeLinkWs := slice s (i + 1) n0 } with
    | error e => exact ⟨Safe.of_error_safe hps hp, fun r hr => by cases hr⟩
    | ok pr =>
      obtain ⟨n, l⟩ := pr
      simp only
      have hpo := hpp _ hp
      cases hpo with
      | fail =>
        simp only [processInlineLinkBodyFinal, bne_self_eq_false, Bool.false_eq_true, ↓reduceIte]
        exact ⟨Safe.ok _, fun r hr => by injection hr with hr; rw [← hr]; exact BodyOut.fail _⟩
      | untermTitle _ hang =>
        obtain ⟨a, ha⟩ := hang
        have hne : ((s.length : Int) != -1) = true := by simp only [bne_iff_ne, ne_eq]; omega
        simp only [processInlineLinkBodyFinal, hne, ↓reduceIte, ha, Int.toNat_natCast, isCharAt_ge (Nat.le_refl s.length),
          Bool.false_eq_true]
        exact ⟨Safe.ok _, fun r hr => by injection hr with hr; rw [← hr]; exact BodyOut.fail _⟩
      | ok n _ hn1 hn2 hws hsl hwf hnext =>
        obtain ⟨a, ha⟩ := hwf.angle
        have hne : ((n : Int) != -1) = true := by simp only [bne_iff_ne, ne_eq]; omega
        simp only [processInlineLinkBodyFinal, hne, ↓reduceIte, ha, Int.toNat_natCast]
        by_cases hcl : isCharAt s n ')' = true
        · have hl2 := isCharAt_true_lt hcl
          simp only [hcl, ↓reduceIte]
          refine ⟨Safe.ok _, fun r hr => ?_⟩
          injection hr with hr; rw [← hr, lhp_angle_eta l a ha]
          refine BodyOut.ok (n + 1) l (by omega) (by omega) ?_ hwf
          rw [slice_snoc1 s i n ')' hcl (by omega), slice_cons s i n '(' h (by omega),
            ← slice_append s (i + 1) n0 n (by omega) (by omega), hsl, bodyPieces, hws]
          simp
        · simp only [hcl, Bool.false_eq_true, ↓reduceIte]
          exact ⟨Safe.ok _, fun r hr => by injection hr with hr; rw [← hr]; exact BodyOut.fail _⟩

/-! ## the regenerator's concatenation -/

theorem activeOf_pre (p q : Str) (h : p = [] → q = []) : activeOf (some p) (some q) = p := by
  unfold activeOf
  by_cases hpq : p = q
  · subst hpq; simp
  · have : (some p == some q) = false := by simpa using hpq
    simp only [this, Bool.false_eq_true, ↓reduceIte, Option.getD_some]
    by_cases hp : p = []
    · exact absurd (by rw [hp, h hp]) hpq
    · have : p.isEmpty = false := by cases p <;> simp_all
      simp [this]

/-- `__rehydrate_inline_link_text_from_token_type_inline` writes back exactly the stored pieces — unless a title was
present and empty (`""`, `''`, `()`), which the `if link_token.active_link_title:` test drops together with the white
space after it. -/
theorem rehydrate_eq_pieces (l : LHP) (hw : LhpWf l) (ht : l.bounding ≠ [] → l.preInlineTitle ≠ some []) :
    rehydrateInlineBody l = bodyPieces l := by
  obtain ⟨⟨p, q, hp, hq, hpq⟩, ⟨tp, tq, htp, htq, htpq⟩, ⟨a, ha⟩, hb⟩ := hw
  unfold rehydrateInlineBody bodyPieces destPiece titlePiece
  simp only [hp, hq, htp, htq, ha, activeOf_pre p q hpq, activeOf_pre tp tq htpq, Option.getD_some]
  rcases hb with ⟨hb1, hb2, hb3⟩ | hb | hb | hb
  · rw [htp] at hb2; injection hb2 with hb2; subst hb2
    simp [hb1, hb3]
  all_goals
    have hne : tp ≠ [] := by
      intro h0; apply ht (by rw [hb]; simp); rw [htp, h0]
    have hemp : tp.isEmpty = false := by cases tp <;> simp_all
    simp [hb, hemp, closeOf]

/-! ## link reference definitions -/

theorem extractLinkDestination_spec (s : Str) (start : Nat) (blank : Bool) (h : start ≤ s.length) :
    Safe (extractLinkDestination s start blank) ∧
    ∀ b n o, extractLinkDestination s start blank = .ok (b, n, o) →
      (b = false ∧ o = none ∧ (n = -1 ∨ n = (s.length : Int))) ∨
      (b = true ∧ ∃ (n' : Nat) (link pre ws raw : Str), n = (n' : Int) ∧ start < n' ∧ n' ≤ s.length ∧
        o = some (some link, some pre, ws, some raw) ∧ slice s start n' = ws ++ raw) := by
  unfold extractLinkDestination
  rw [collectWhileOneOfVerifiedL_eq s start asciiWs h]
  have hw1 : start ≤ wsTo s start := wsTo_ge s start
  have hw2 := wsTo_le s start h
  simp only
  unfold wsTo at hw1 hw2
  generalize hn : scanTo s asciiWs.contains start = aw at *
  by_cases he : (aw == s.length && !blank) = true
  · simp only [he, ↓reduceIte]
    refine ⟨Safe.ok _, fun b n o hr => ?_⟩
    injection hr with hr; injection hr with h1 h2; injection h2 with h2 h3
    simp only [Bool.and_eq_true, beq_iff_eq] at he
    exact Or.inl ⟨h1.symm, h3.symm, Or.inr (by rw [← h2, he.1])⟩
  · simp only [he, Bool.false_eq_true, ↓reduceIte]
    obtain ⟨hds, hdd⟩ := parseLinkDestination_spec s aw hw2
    cases hd : parseLinkDestination s aw with
    | error e => exact ⟨Safe.of_error_safe hds hd, fun b n o hr => by cases hr⟩
    | ok d =>
      simp only
      rcases hdd d hd with hf | ⟨hf, _⟩ | ⟨ni, pre, enc, hdeq, hni1, hni2, hsl, _, _, _⟩
      · subst hf
        simp only [DestResult.fail, beq_self_eq_true, ↓reduceIte]
        refine ⟨Safe.ok _, fun b n o hr => ?_⟩
        injection hr with hr; injection hr with h1 h2; injection h2 with h2 h3
        exact Or.inl ⟨h1.symm, h3.symm, Or.inl h2.symm⟩
      · simp only [hf, beq_self_eq_true, ↓reduceIte]
        refine ⟨Safe.ok _, fun b n o hr => ?_⟩
        injection hr with hr; injection hr with h1 h2; injection h2 with h2 h3
        exact Or.inl ⟨h1.symm, h3.symm, Or.inl h2.symm⟩
      · subst hdeq
        have hne : ((ni : Int) == -1) = false := by simp only [beq_eq_false_iff_ne, ne_eq]; omega
        simp only [hne, Bool.false_eq_true, ↓reduceIte]
        refine ⟨Safe.ok _, fun b n o hr => ?_⟩
        injection hr with hr; injection hr with h1 h2; injection h2 with h2 h3
        refine Or.inr ⟨h1.symm, ni, enc, pre, _, _, h2.symm, by omega, hni2, h3.symm, ?_⟩
        rw [slice_append s start aw ni (by omega) (by omega)]

theorem extractLinkTitle_spec (s : Str) (i : Nat) (blank : Bool) (h : i ≤ s.length) :
    Safe (extractLinkTitle s i blank) ∧
    ∀ b n o, extractLinkTitle s i blank = .ok (b, n, o) → b = true →
      ∃ (n' : Nat) (t pt ws raw : Str), n = (n' : Int) ∧ i ≤ n' ∧ n' ≤ s.length ∧ o = some (t, pt, ws, raw) ∧
        slice s i n' = ws ++ raw := by
  unfold extractLinkTitle
  rw [extractAsciiWsVerified_eq s i h]
  simp only
  have hw1 := wsTo_ge s i
  have hw2 := wsTo_le s i h
  generalize hn : wsTo s i = ni at *
  by_cases he : (ni == s.length && !blank) = true
  · simp only [he, ↓reduceIte]
    refine ⟨Safe.ok _, fun b n o hr hb => ?_⟩
    injection hr with hr; injection hr with h1 _; rw [← h1] at hb; cases hb
  · simp only [he, Bool.false_eq_true, ↓reduceIte]
    by_cases hw : (!(slice s i ni).isEmpty && decide (ni < s.length)) = true
    · simp only [hw, ↓reduceIte]
      obtain ⟨hts, htt⟩ := parseLinkTitle_spec s ni
      cases ht : parseLinkTitle s ni with
      | error e => exact ⟨Safe.of_error_safe hts ht, fun b n o hr => by cases hr⟩
      | ok tr =>
        obtain ⟨t, pt, n2, bb⟩ := tr
        have hto := htt _ ht
        cases hto with
        | noTitle =>
          simp only [beq_self_eq_true, ↓reduceIte]
          refine ⟨Safe.ok _, fun b n o hr hb => ?_⟩
          injection hr with hr; injection hr with h1 _; rw [← h1] at hb; cases hb
        | unterminated b hlt =>
          simp only
          refine ⟨Safe.ok _, fun b n o hr hb => ?_⟩
          injection hr with hr; injection hr with h1 _; rw [← h1] at hb; cases hb
        | title n tv raw o c hn3 hn4 hsl2 hoc hraw =>
          have hne : ((n : Int) == -1) = false := by simp only [beq_eq_false_iff_ne, ne_eq]; omega
          simp only [hne, Bool.false_eq_true, ↓reduceIte]
          refine ⟨Safe.ok _, fun b n' o' hr _ => ?_⟩
          injection hr with hr; injection hr with h1 h2; injection h2 with h2 h3
          refine ⟨n, _, _, _, _, h2.symm, by omega, hn4, h3.symm, ?_⟩
          rw [pySlice_nat s ni n hw2 hn4, slice_append s i ni n (by omega) (by omega)]
    · simp only [hw, Bool.false_eq_true, ↓reduceIte]
      refine ⟨Safe.ok _, fun b n o hr _ => ?_⟩
      injection hr with hr; injection hr with h1 h2; injection h2 with h2 h3
      exact ⟨ni, _, _, _, _, h2.symm, hw1, hw2, h3.symm, by rw [slice_self, List.append_nil]⟩

theorem verifyLinkDefinitionEnd_spec (s : Str) (i : Nat) (h : i ≤ s.length) :
    ∃ r, verifyLinkDefinitionEnd s i = .ok r ∧
      (r.1 = true → r.2.1 = (s.length : Int) ∧ r.2.2 = some (slice s i s.length)) := by
  unfold verifyLinkDefinitionEnd
  rw [extractAsciiWsVerified_eq s i h]
  simp only
  have hw2 := wsTo_le s i h
  by_cases hl : wsTo s i < s.length
  · simp only [hl, ↓reduceIte]; exact ⟨_, rfl, fun hb => by cases hb⟩
  · simp only [hl, ↓reduceIte]
    have : wsTo s i = s.length := by omega
    exact ⟨_, rfl, fun _ => by simp [this]⟩

theorem indexAnyOf_ge {s cs : Str} {start j : Nat} (h : indexAnyOf s cs start = some j) : start ≤ j :=
  (indexAnyOf_some h).1

theorem lrdBsLoop_returns (r : Str) : ∀ fuel found, 0 < fuel → (∀ f, found = some f → r.length + 1 ≤ fuel + f) →
    ReturnsL (lrdBsLoop r fuel found) := by
  intro fuel
  induction fuel with
  | zero => intro found h0 _; omega
  | succ n ih =>
    intro found _ hf
    rw [lrdBsLoop.eq_def]
    cases found with
    | none => exact ⟨_, rfl⟩
    | some f =>
      simp only
      by_cases hl : f + 1 < r.length
      · simp only [hl, ↓reduceIte]
        have := hf f rfl
        apply ih _ (by omega)
        intro f' hf'
        have := indexAnyOf_ge hf'
        omega
      · simp only [hl, ↓reduceIte]; exact ⟨_, rfl⟩

theorem isLinkReferenceDefinition_returns (line : Str) (start : Nat) (ws : Str) (inPara : Bool) :
    ∃ b, isLinkReferenceDefinition line start ws inPara = .ok b ∧ (b = true → start < line.length) := by
  unfold isLinkReferenceDefinition
  by_cases hp : inPara = true
  · simp only [hp, ↓reduceIte]; exact ⟨_, rfl, fun h => by cases h⟩
  · simp only [hp, Bool.false_eq_true, ↓reduceIte]
    by_cases hc : (lenLe ws 3 && isCharAtOneOf line start ['[']) = true
    · simp only [hc, ↓reduceIte]
      have hlt : start < line.length := by
        simp only [Bool.and_eq_true] at hc; exact isCharAtOneOf_lt hc.2
      cases hg : (line.drop (start + 1)).getLast? with
      | none => exact ⟨_, rfl, fun _ => hlt⟩
      | some c =>
        simp only
        by_cases hb : (c == BS) = true
        · simp only [hb, ↓reduceIte]
          obtain ⟨x, hx⟩ := lrdBsLoop_returns (line.drop (start + 1)) ((line.drop (start + 1)).length + 1)
            (findBsFrom (line.drop (start + 1)) start) (by omega) (fun f _ => by omega)
          rw [hx]
          exact ⟨_, rfl, fun _ => hlt⟩
        · simp only [hb, Bool.false_eq_true, ↓reduceIte]; exact ⟨_, rfl, fun _ => hlt⟩
    · simp only [hc, Bool.false_eq_true, ↓reduceIte]; exact ⟨_, rfl, fun h => by cases h⟩

/-- `parse_link_reference_definition` (pure part): never an index / assertion / fuel error; an accepted definition ends at
the end of the text handed in. -/
theorem parseLinkReferenceDefinition_spec (line : Str) (start : Nat) (ws : Str) (blank inPara : Bool) :
    Safe (parseLinkReferenceDefinition line start ws blank inPara) ∧
    ∀ n t, parseLinkReferenceDefinition line start ws blank inPara = .ok (true, n, some t) →
      n = (line.length : Int) ∧ t.newIndex = n ∧ t.normLabel ≠ [] := by
  unfold parseLinkReferenceDefinition
  obtain ⟨b, hb, hblt⟩ := isLinkReferenceDefinition_returns line start ws inPara
  rw [hb]
  cases b with
  | false => exact ⟨Safe.ok _, fun n t hr => by cases hr⟩
  | true =>
    simp only
    have hlt := hblt rfl
    obtain ⟨lr, hl, hlo⟩ := extractLinkLabel_spec line (start + 1) true (by omega)
    rw [hl]
    cases hlo with
    | fail => exact ⟨Safe.ok _, fun n t hr => by cases hr⟩
    | noEnd n _ _ => exact ⟨Safe.ok _, fun n t hr => by cases hr⟩
    | ok n1 lab hn1 hn2 _ _ =>
      simp only [Int.toNat_natCast]
      obtain ⟨hds, hdd⟩ := extractLinkDestination_spec line n1 blank hn2
      cases hd : extractLinkDestination line n1 blank with
      | error e => exact ⟨Safe.of_error_safe hds hd, fun n t hr => by cases hr⟩
      | ok dr =>
        obtain ⟨db, dn, dopt⟩ := dr
        rcases hdd _ _ _ hd with ⟨h1, h2, _⟩ | ⟨h1, n2, link, pre, dws, raw, h2, hn3, hn4, h3, _⟩
        · subst h1; subst h2
          exact ⟨Safe.ok _, fun n t hr => by cases hr⟩
        · subst h1; subst h2; subst h3
          simp only [Int.toNat_natCast]
          obtain ⟨hts, htt⟩ := extractLinkTitle_spec line n2 blank hn4
          cases ht : extractLinkTitle line n2 blank with
          | error e => exact ⟨Safe.of_error_safe hts ht, fun n t hr => by cases hr⟩
          | ok tr =>
            obtain ⟨tb, tn, topt⟩ := tr
            cases tb with
            | false => exact ⟨Safe.ok _, fun n t hr => by cases hr⟩
            | true =>
              obtain ⟨n3, tt, tpt, tws, traw, h4, hn5, hn6, h5, _⟩ := htt _ _ _ ht rfl
              subst h4; subst h5
              simp only [Int.toNat_natCast]
              obtain ⟨er, he, hee⟩ := verifyLinkDefinitionEnd_spec line n3 hn6
              rw [he]
              obtain ⟨eb, en, eopt⟩ := er
              cases eb with
              | false => exact ⟨Safe.ok _, fun n t hr => by cases hr⟩
              | true =>
                obtain ⟨h6, h7⟩ := hee rfl
                simp only at h6 h7
                subst h6; subst h7
                simp only
                by_cases hnorm : (normalizeLinkLabel lab).isEmpty = true
                · simp only [hnorm, ↓reduceIte]
                  exact ⟨Safe.ok _, fun n t hr => by
                    injection hr with hr; injection hr with h1 _; cases h1⟩
                · simp only [hnorm, Bool.false_eq_true, ↓reduceIte]
                  refine ⟨Safe.ok _, fun n t hr => ?_⟩
                  injection hr with hr; injection hr with _ h2; injection h2 with h2 h3
                  injection h3 with h3
                  subst h2; subst h3
                  refine ⟨rfl, rfl, ?_⟩
                  intro h0; simp only at h0; rw [h0] at hnorm; exact hnorm rfl

end Verif.Model.LinkRecog
