/-
  The Python's two decisions (`pyPolicy`) and the original-length variant (`origPolicy`) satisfy `PolicyOK`.
-/
import Verif.Lemmas.EmphasisResolve
namespace Verif.Model.Emphasis

theorem processThis_true {strike : Bool} {t : Special} (h : processThis strike t = .ok true) : t.active = true := by
  unfold processThis at h
  cases ha : t.active with
  | true => rfl
  | false => simp [ha, pure, Except.pure] at h

theorem validPair_true {strike : Bool} {o c : Special} {ro rc : Int} (h : validPair strike o c ro rc = .ok true) :
    o.active = true ∧ ∃ ch tl tl', o.text = ch :: tl ∧ c.text = ch :: tl' := by
  unfold validPair at h
  cases hot : o.text with
  | nil => simp [hot, pure, Except.pure] at h
  | cons oc tl =>
    simp only [hot] at h
    cases hct : c.text with
    | nil => simp [head0, hct, bind, Except.bind, throw, throwThe, MonadExceptOf.throw] at h
    | cons cc tl' =>
      simp only [head0, hct, bind, Except.bind, pure, Except.pure] at h
      by_cases hne : oc = cc
      · subst hne
        simp only [bne_self_eq_false, Bool.false_eq_true, if_false] at h
        cases ha : o.active with
        | false => simp [ha] at h
        | true => exact ⟨rfl, oc, tl, tl', rfl, rfl⟩
      · have : (oc != cc) = true := by simp [hne]
        simp [this] at h

theorem pyPolicy_ok (strike : Bool) : PolicyOK (pyPolicy strike) where
  closer_active := fun _ h => processThis_true h
  valid_active := fun _ _ _ _ h => (validPair_true h).1
  valid_head := fun _ _ _ _ h => (validPair_true h).2

theorem origPolicy_ok (strike : Bool) (orig : List Int) : PolicyOK (origPolicy strike orig) where
  closer_active := fun _ h => processThis_true h
  valid_active := fun _ _ _ _ h => (validPair_true h).1
  valid_head := fun _ _ _ _ h => (validPair_true h).2

end Verif.Model.Emphasis
