/-
  The main loop of `resolve_inline_emphasis` for an arbitrary decision policy: every successful run is a sequence of
  `PairStep`s, hence preserves `Inv` and any predicate that `PairStep` preserves.  Core Lean only.
-/
import Verif.Lemmas.EmphasisInv
namespace Verif.Model.Emphasis

/-- what the structural theorems need from the two decisions: only active tokens are paired, and opener and closer
    start with the same character. -/
structure PolicyOK (pol : Policy) : Prop where
  closer_active : ∀ t, pol.closer t = .ok true → t.active = true
  valid_active : ∀ o ot c ct, pol.valid o ot c ct = .ok true → ot.active = true
  valid_head : ∀ o ot c ct, pol.valid o ot c ct = .ok true → ∃ ch tl tl', ot.text = ch :: tl ∧ ct.text = ch :: tl'

theorem findOpener_some (pol : Policy) (stk : List Special) (c : Nat) (ct : Special) (bottom : Int) (n o : Nat)
    (h : findOpener pol stk c ct bottom n = .ok (some o)) :
    o < n ∧ ∃ ot, stk[o]? = some ot ∧ pol.valid o ot c ct = .ok true := by
  induction n with
  | zero => simp [findOpener, pure, Except.pure] at h
  | succ n ih =>
    simp only [findOpener] at h
    split at h
    · cases hg : stk[n]? with
      | none => simp [hg] at h
      | some ot =>
        simp only [hg] at h
        cases hv : pol.valid n ot c ct with
        | error e => simp [hv, bind, Except.bind] at h
        | ok b =>
          cases b with
          | true =>
            simp [hv, bind, Except.bind, pure, Except.pure] at h
            subst h
            exact ⟨by omega, ot, hg, hv⟩
          | false =>
            simp [hv, bind, Except.bind] at h
            obtain ⟨h1, h2⟩ := ih h
            exact ⟨by omega, h2⟩
    · simp [pure, Except.pure] at h

/-- one iteration of the loop either leaves blocks and stack alone or performs a `PairStep` -/
theorem loop_preserves (pol : Policy) (hp : PolicyOK pol) (bottom : Int)
    (Good : List Block → List Special → Prop)
    (hstep : ∀ blocks stk o c blocks' stk', Inv blocks stk → Good blocks stk →
      (∃ ct, stk[c]? = some ct ∧ pol.closer ct = .ok true) →
      PairStep stk o c blocks blocks' stk' → Good blocks' stk') :
    ∀ (fuel : Nat) (σ σ' : St), Inv σ.blocks σ.stk → Good σ.blocks σ.stk → loop pol bottom fuel σ = .ok σ' →
      Inv σ'.blocks σ'.stk ∧ Good σ'.blocks σ'.stk := by
  intro fuel
  induction fuel with
  | zero => intro σ σ' _ _ h; simp [loop] at h
  | succ f ih =>
    intro σ σ' hinv hgood h
    simp only [loop] at h
    split at h
    · cases hg : σ.stk[σ.cur + 1]? with
      | none => simp [hg] at h
      | some ct =>
        simp only [hg] at h
        cases hcl : pol.closer ct with
        | error e => simp [hcl, bind, Except.bind] at h
        | ok b =>
          cases b with
          | false =>
            simp only [hcl, bind, Except.bind, Bool.not_false, if_true] at h
            exact ih ⟨σ.blocks, σ.stk, σ.cur + 1⟩ _ hinv hgood h
          | true =>
            simp only [hcl, bind, Except.bind, Bool.not_true, Bool.false_eq_true, if_false] at h
            cases hf : findOpener pol σ.stk (σ.cur + 1) ct bottom (σ.cur + 1) with
            | error e => simp [hf] at h
            | ok r =>
              cases r with
              | none => simp only [hf] at h; exact ih ⟨σ.blocks, σ.stk, σ.cur + 1⟩ _ hinv hgood h
              | some o =>
                simp only [hf] at h
                obtain ⟨hlt, ot, hgo, hv⟩ := findOpener_some _ _ _ _ _ _ _ hf
                obtain ⟨ch, tl, tl', hch, hcc⟩ := hp.valid_head _ _ _ _ hv
                obtain ⟨b', s', hpp, hps⟩ := pairStep_of σ.blocks σ.stk o (σ.cur + 1) (σ.cur + 1) ot ct ch tl tl'
                  hinv hlt hgo hg (hp.valid_active _ _ _ _ hv) (hp.closer_active _ hcl) hch hcc
                simp only [hpp] at h
                exact ih ⟨b', s', _⟩ _ (inv_step hinv hps) (hstep _ _ _ _ _ _ hinv hgood ⟨ct, hg, hcl⟩ hps) h
    · simp only [pure, Except.pure, Except.ok.injEq] at h
      subst h; exact ⟨hinv, hgood⟩

end Verif.Model.Emphasis
