/-
  The indented code block as a closed block of the regenerator: `icode-block`, one text token, `end-icode-block`.
-/
import Verif.Lemmas.RegenLeafDoc
namespace Verif.Lemmas.RegenLeaf
open Verif.Model Verif.Model.RegenLeaf Verif.Model.RegenLeafSpec
open Verif.Model.Codec (Str plain)
open Verif.Model.Lines (splitOn joinOn splitNL joinNL NL)
open Verif.Lemmas.Lines

theorem zipWith_ne_nil {α β γ : Type} (f : α → β → γ) : ∀ (a : List α) (b : List β), a ≠ [] → a.length = b.length → List.zipWith f a b ≠ []
  | [], _, h, _ => absurd rfl h
  | _ :: _, [], _, hl => by simp at hl
  | _ :: _, _ :: _, _, _ => by simp

/-- A closed indented code block.  The white space the handler recombines — the block token's `extracted_whitespace`, the text
token's `extracted_whitespace`, the block token's `indented_whitespace`, concatenated — has the lines `wss`; the text token's text
has the lines `txts`; as many of the one as of the other.  The block regenerates to line `i` of the white space in front of line
`i` of the text, every line followed by a newline. -/
theorem closed_icode (cew ind ew tt : Str) (wss txts : List Str) (hws : cew ++ ew ++ ind = joinNL wss) (htt : tt = joinNL txts)
    (hlen : txts.length = wss.length) (hne : txts ≠ []) (hnw : ∀ l ∈ wss, NL ∉ l) (hnt : ∀ l ∈ txts, NL ∉ l)
    (hpt : plain tt = true) (hpe : plain ew = true) :
    Closed [.icode cew ind, .text tt ew none, .endIcode] (terminated (List.zipWith (fun p w => w ++ p) txts wss)) := by
  intro more c prev hc
  subst htt
  have hs1 : (c.push (.icode cew ind)).stack = .icode cew ind :: [] := by simp [Ctx.push, hc]
  have hwne : wss ≠ [] := by intro e; rw [e] at hlen; exact hne (List.length_eq_zero_iff.mp hlen)
  have hc1 : countNl (joinNL txts) = txts.length - 1 := countNl_joinNL_lines txts hne hnt
  have hc2 : countNl (cew ++ ew ++ ind) = wss.length - 1 := by rw [hws]; exact countNl_joinNL_lines wss hwne hnw
  have hpos : 0 < txts.length := List.length_pos_iff.mpr hne
  have hrec := recombine_post_before (joinNL txts) (cew ++ ew ++ ind) (by omega)
  rw [hws, splitNL_joinNL wss hwne hnw, hc1, splitNL_joinNL txts hne hnt,
    List.take_of_length_le (by omega)] at hrec
  have hp2 : ∀ p b, process (c.push (.icode cew ind)) p b (.text (joinNL txts) ew none) =
      .ok (joinNL (List.zipWith (fun p w => w ++ p) txts wss) ++ [NL], c.push (.icode cew ind)) := by
    intro p b
    simp only [process]
    rw [hText_icode _ _ cew ind hs1 (joinNL txts) ew none hpt hpe, hws, hrec]
  refine ⟨[[], joinNL (List.zipWith (fun p w => w ++ p) txts wss) ++ [NL], []], c, ?_, hc, ?_⟩
  · rw [runMore_cons_ok (show process c prev _ (.icode cew ind) = .ok ([], c.push (.icode cew ind)) from rfl),
      runMore_cons_ok (hp2 _ _),
      runMore_cons_ok (show process (c.push (.icode cew ind)) _ _ .endIcode = .ok ([], c) by
        simp only [process, pop_of_stack hs1, ctx_restore c hc])]
    simp [runMore]
  · rw [terminated_eq _ (zipWith_ne_nil _ _ _ hne hlen)]
    simp

end Verif.Lemmas.RegenLeaf
