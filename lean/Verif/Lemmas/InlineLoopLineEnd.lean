/-
  The line-end helper of the inline dispatcher (`InlineLineEndHelper.__handle_line_end`, model `InlineLoop.handleLineEnd`):
  where the characters of the pending line go.
-/
import Verif.Lemmas.InlineLoopContent
import Verif.Lemmas.RecogSpec
namespace Verif.Lemmas.InlineLoopLineEnd
open Verif.Model Verif.Model.InlineLoop
open Verif.Model.Recognisers (Str slice SP TAB scanOneOf)

theorem mem_takeWhile_sat {p : Char → Bool} : ∀ {l : Str} {x : Char}, x ∈ l.takeWhile p → p x = true
  | [], _, h => by cases h
  | a :: l, x, h => by
    by_cases ha : p a = true
    · rw [List.takeWhile_cons_of_pos ha] at h
      rcases List.mem_cons.mp h with rfl | h
      · exact ha
      · exact mem_takeWhile_sat h
    · rw [List.takeWhile_cons_of_neg ha] at h; cases h

/-- `collect_backwards_while_character(line, -1, " ")` splits the line into a front and its trailing spaces -/
theorem stripEnd_spec (s : Str) :
    (stripEnd s).1 ++ (stripEnd s).2 = s ∧ (∀ c ∈ (stripEnd s).2, c = ' ') ∧ (stripEnd s).1.getLast? ≠ some ' ' := by
  unfold stripEnd
  simp only
  have hle : (s.reverse.takeWhile (· == ' ')).length ≤ s.length := by
    have := Recognisers.takeWhile_length_le (· == ' ') s.reverse
    simpa using this
  refine ⟨List.take_append_drop _ _, ?_, ?_⟩
  · intro c hc
    have hd : s.drop (s.length - (s.reverse.takeWhile (· == ' ')).length) =
        (s.reverse.take (s.reverse.takeWhile (· == ' ')).length).reverse := by
      rw [List.reverse_take, List.reverse_reverse]; simp
    rw [hd, Recognisers.take_takeWhile_length, List.mem_reverse] at hc
    simpa using mem_takeWhile_sat hc
  · intro hl
    -- the character before the trailing run is a space: contradiction with the maximality of `takeWhile`
    generalize hn : (s.reverse.takeWhile (· == ' ')).length = n at hle hl
    have hk : 0 < s.length - n := by
      by_cases h0 : s.length - n = 0
      · rw [h0] at hl; simp at hl
      · omega
    rw [List.getLast?_take] at hl
    have hne : s.length - n ≠ 0 := by omega
    simp only [hne, if_false] at hl
    have hidx : s.length - n - 1 < s.length := by omega
    have hget : s[s.length - n - 1]? = some ' ' := by
      cases hg : s[s.length - n - 1]? with
      | none => rw [List.getElem?_eq_none_iff] at hg; omega
      | some c => rw [hg] at hl; simpa using hl
    have hrev : s.reverse[n]? = some ' ' := by
      rw [List.getElem?_reverse (by omega)]
      have : s.length - 1 - n = s.length - n - 1 := by omega
      rw [this]; exact hget
    -- but index `n` of the reversed string is where `takeWhile` stopped
    have hstop : ∀ (l : Str) (m : Nat), (l.takeWhile (· == ' ')).length = m → l[m]? ≠ some ' ' := by
      intro l
      induction l with
      | nil => intro m _ h; simp at h
      | cons a r ih =>
        intro m hm h
        by_cases ha : (a == ' ') = true
        · simp only [List.takeWhile_cons, ha, if_true, List.length_cons] at hm
          subst hm
          rw [List.getElem?_cons_succ] at h
          exact ih _ rfl h
        · simp only [List.takeWhile_cons, ha, Bool.false_eq_true, if_false, List.length_nil] at hm
          subst hm
          simp only [List.getElem?_cons_zero, Option.some.injEq] at h
          subst h; simp at ha
    exact hstop s.reverse n hn hrev

end Verif.Lemmas.InlineLoopLineEnd
