/-
  The code's flanking tests, opener / closer tests and rule of 3 are the CommonMark definitions
  (`Verif.Model.Emphasis.Spec`) over the code's two character classes.  Core Lean only.
-/
import Verif.Model.EmphasisSpec
import Verif.Lemmas.EmphasisFlank
namespace Verif.Model.Emphasis
open Spec

/-- the code's classes as predicates -/
def CodeWs (c : Char) : Prop := isWs c = true
def CodePunct (c : Char) : Prop := isPunct c = true

theorem isWs_space : isWs ' ' = true := by decide
set_option maxRecDepth 8000 in
theorem isPunct_space : isPunct ' ' = false := by decide

theorem isWs_precChar (prec : Str) : isWs (precChar prec) = true ↔ PrecWs CodeWs prec := by
  unfold precChar PrecWs CodeWs
  cases h : prec.getLast? with
  | none => simp [List.getLast?_eq_none_iff.mp h, isWs_space]
  | some c =>
    have : prec ≠ [] := fun e => by simp [e] at h
    simp [this]

theorem isPunct_precChar (prec : Str) : isPunct (precChar prec) = true ↔ PrecPunct CodePunct prec := by
  unfold precChar PrecPunct CodePunct
  cases h : prec.getLast? with
  | none => simp [isPunct_space]
  | some c => simp

theorem isWs_follChar (foll : Str) : isWs (follChar foll) = true ↔ FollWs CodeWs foll := by
  unfold follChar FollWs CodeWs
  cases foll with
  | nil => simp [isWs_space]
  | cons c r => simp

theorem isPunct_follChar (foll : Str) : isPunct (follChar foll) = true ↔ FollPunct CodePunct foll := by
  unfold follChar FollPunct CodePunct
  cases foll with
  | nil => simp [isPunct_space]
  | cons c r => simp

theorem leftFl_iff (prec foll : Str) :
    leftFl (precChar prec) (follChar foll) = true ↔ LeftFlanking CodeWs CodePunct prec foll := by
  unfold leftFl LeftFlanking
  rw [← isWs_follChar, ← isPunct_follChar, ← isWs_precChar, ← isPunct_precChar]
  cases isWs (follChar foll) <;> cases isPunct (follChar foll) <;> cases isWs (precChar prec) <;>
    cases isPunct (precChar prec) <;> simp

theorem rightFl_iff (prec foll : Str) :
    rightFl (precChar prec) (follChar foll) = true ↔ RightFlanking CodeWs CodePunct prec foll := by
  unfold rightFl RightFlanking
  rw [← isWs_follChar, ← isPunct_follChar, ← isWs_precChar, ← isPunct_precChar]
  cases isWs (follChar foll) <;> cases isPunct (follChar foll) <;> cases isWs (precChar prec) <;>
    cases isPunct (precChar prec) <;> simp

theorem openerCore_iff (ch : Char) (n : Nat) (prec foll : Str) :
    openerCore ch n (precChar prec) (follChar foll) = true ↔ CanOpen CodeWs CodePunct ch n prec foll := by
  unfold openerCore CanOpen
  rw [← leftFl_iff, ← rightFl_iff, ← isPunct_precChar]
  by_cases h1 : ch = '*'
  · simp [h1]
  · by_cases h2 : ch = '~'
    · subst h2; simp
    · simp only [beq_iff_eq, h1, h2, if_false]
      cases leftFl (precChar prec) (follChar foll) <;> cases rightFl (precChar prec) (follChar foll) <;>
        cases isPunct (precChar prec) <;> simp

theorem closerCore_iff (ch : Char) (n : Nat) (prec foll : Str) :
    closerCore ch n (precChar prec) (follChar foll) = true ↔ CanClose CodeWs CodePunct ch n prec foll := by
  unfold closerCore CanClose
  rw [← leftFl_iff, ← rightFl_iff, ← isPunct_follChar]
  by_cases h1 : ch = '*'
  · simp [h1]
  · by_cases h2 : ch = '~'
    · subst h2; simp
    · simp only [beq_iff_eq, h1, h2, if_false]
      cases leftFl (precChar prec) (follChar foll) <;> cases rightFl (precChar prec) (follChar foll) <;>
        cases isPunct (follChar foll) <;> simp

theorem rule3_iff (ob cb : Bool) (ro rc : Int) :
    ((if cb || ob then rule3 ro rc else true) = true) ↔ RuleOf3 (ob = true) (cb = true) ro rc := by
  unfold rule3 RuleOf3
  cases ob <;> cases cb <;> simp <;> omega

/-- the code's whitespace class is exactly the specification's -/
theorem isWs_iff (c : Char) : isWs c = true ↔ UnicodeWhitespace c := by
  unfold isWs UnicodeWhitespace
  simp only [Gen.EmphChars.whitespace, List.contains_eq_mem, List.mem_cons, List.not_mem_nil, or_false,
    decide_eq_true_eq]
  omega

end Verif.Model.Emphasis

namespace Verif.Model.Emphasis
open Spec

set_option maxRecDepth 8000 in
theorem punct_ascii_in_first_chunk : ∀ x ∈ Gen.EmphChars.punctuation, x < 128 → x ∈ Gen.EmphChars.punct0 := by decide +kernel

theorem punct0_sub : ∀ x ∈ Gen.EmphChars.punct0, x ∈ Gen.EmphChars.punctuation := by
  intro x hx
  unfold Gen.EmphChars.punctuation
  repeat (first | exact hx | apply List.mem_append_left)

theorem punct0_ascii : ∀ n : Fin 128, n.val ∈ Gen.EmphChars.punct0 ↔ AsciiPunctuation (Char.ofNat n.val) := by decide +kernel

/-- on ASCII the code's punctuation table is the specification's "ASCII punctuation character" -/
theorem isPunct_ascii (c : Char) (h : c.toNat < 128) : isPunct c = true ↔ AsciiPunctuation c := by
  have hc : Char.ofNat c.toNat = c := by simp
  have h0 := punct0_ascii ⟨c.toNat, h⟩
  simp only [hc] at h0
  rw [← h0]
  simp only [isPunct, List.contains_eq_mem, decide_eq_true_eq]
  exact ⟨fun hm => punct_ascii_in_first_chunk _ hm h, fun hm => punct0_sub _ hm⟩

end Verif.Model.Emphasis
