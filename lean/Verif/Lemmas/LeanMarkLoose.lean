/-
  LeanMark — the tight / loose decision of the HTML renderer equals the specification (§5.3), stated
  declaratively over the block tree.

  WHAT IS PROVED (the general case was achieved: every statement below is fully proved, nothing is left
  open or weakened; `tight_loose_spec_partial` is kept only as the LRD-free corollary in the plain wording):

  * `tight_loose_spec (t : Blks) : looseness t.flatten [] 0 = spec t`
      GENERAL case: link reference definitions included, and for EVERY forest `t` (class-correctness is
      not needed as a hypothesis; it is proved separately for the trees of real streams, see below).
      `looseness` is the renderer's single-pass stack machine (Model/LeanMark/Html.lean); `spec t` is a plain
      structural recursion on the tree with no stack: lists are numbered in pre-order (order of their `open`
      events), the entries are listed in post-order (order of the `close` events), and the entry of a
      list with children `items` is
          looseSpec items = items.gaps none false || items.itemGaps
      = "two consecutive children are separated by a blank line, or some child that is an item directly
      contains two consecutive blocks separated by a blank line".  "separated by a blank line" is the line
      gap `sep (some e) line = (line > e + 1)`.
      Link reference definitions are handled in `Blks.gaps` by the rule of `noteLrd`, stated over the sibling
      sequence: a definition is not a block; a blank line before a definition separates the previous proper
      block from the next proper block (also across the end of an item: `Blk.endsBlank` / `Blks.trail`);
      a blank line after a definition separates nothing.
  * `tight_loose_spec_lookup` : the same through `List.lookup` (the way `renderBlocks` reads the table).
  * `tight_loose_spec_partial (t) (h : t.noLrd) : looseness t.flatten [] 0 = specS t`
      corollary for forests without link reference definitions, where the specification is the plain wording
      (`Blks.gapsS`, `looseSpecS`: no `pend`, no definitions), and
    `looseSpecS_iff` : `looseSpecS items` holds iff two consecutive elements of `items` have a line gap or
      some item among them has two consecutive children with a line gap (index-based, `AdjGap`) — the
      sentence of §5.3 verbatim.
  * `flatten_treeOf : WellNested es → (treeOf es).flatten = es`, hence
    `tight_loose_spec_stream : WellNested es → looseness es [] 0 = spec (treeOf es)` and, by `L_balanced`,
    `tight_loose_spec_events : ∀ lines, looseness (events lines) [] 0 = spec (treeOf (events lines))`
    (`tight_loose_spec_eventsR` for every reading `rd`).
  * `treeOf_classOK : WellFormed es → (treeOf es).classOK false` (so for `events lines`, by `L_wellFormed`):
    items occur exactly as children of lists, and `classOK_list_children`: all children of a list are items,
    i.e. the `items` of `looseSpec items` are exactly the "constituent list items" of §5.3.
  * non-vacuity examples by `decide` (section 7).

  Proof: `run_blk` / `run_blks` (mutual structural induction on the tree) describe
  `looseness (bs.flatten ++ rest) S next` for an arbitrary stack `S`: it emits `bs.spec next` and continues
  on `rest` with the stack `after S bs`, which differs from `S` only in the innermost frame (`prevEnd`, `pend`,
  `loose`) and — when that frame is an item — in the `loose` flag of the frame below (`mark`).
  Core Lean only.
-/
import Verif.Model.LeanMark.Html
import Verif.Lemmas.LeanMarkBalanced
namespace Verif.Model.LeanMark

/-! ## 1. tree view of an event stream -/
mutual
/-- a block: a leaf, or a container with its children. `e` is the end line. -/
inductive Blk where
  | leaf (k : LeafKind) (pos : Pos) (e : Nat) (pl : List PLine)
  | node (k : Kind) (pos : Pos) (e : Nat) (kids : Blks)
/-- a sequence of sibling blocks. -/
inductive Blks where
  | nil
  | cons (b : Blk) (bs : Blks)
end

mutual
def Blk.flatten : Blk → List Ev
  | .leaf k pos e pl => [.leaf k pos e pl]
  | .node k pos e kids => .open k pos :: (kids.flatten ++ [.close k e])
def Blks.flatten : Blks → List Ev
  | .nil => []
  | .cons b bs => b.flatten ++ bs.flatten
end

def LeafKind.isLrd : LeafKind → Bool
  | .lrd .. => true
  | _ => false

/-- first line of a block. -/
def Blk.startLine : Blk → Nat
  | .leaf _ pos _ _ => pos.line
  | .node _ pos _ _ => pos.line

/-- last line of a block. -/
def Blk.endLine : Blk → Nat
  | .leaf _ _ e _ => e
  | .node _ _ e _ => e

/-- the block is a link reference definition. -/
def Blk.isLrd : Blk → Bool
  | .leaf k _ _ _ => k.isLrd
  | .node .. => false

/-! ## 2. the declarative specification -/

/-- a block that starts at `line` is separated by at least one blank line from a previous sibling
    that ended at line `e` (`prev = some e`); nothing precedes it when `prev = none`. -/
def sep (prev : Option Nat) (line : Nat) : Bool :=
  match prev with
  | some e => decide (line > e + 1)
  | none => false

mutual
/-- the block is an item whose content ends with a blank line that belongs to it (see `Blks.trail`). -/
def Blk.endsBlank : Blk → Bool
  | .leaf .. => false
  | .node k _ _ kids => isItemK k && kids.trail none false
/-- `bs.trail prev pend`: the sibling sequence `bs` (continuing a sequence whose last proper block ended at
    `prev`, `pend` = a blank line is already known to follow that block) ends with a run of link
    reference definitions the first of which is preceded by a blank line. -/
def Blks.trail : Blks → Option Nat → Bool → Bool
  | .nil, _, pend => pend
  | .cons b bs, prev, pend =>
    if b.isLrd then bs.trail none (pend || sep prev b.startLine)
    else bs.trail (some b.endLine) b.endsBlank
end

/-- `bs.gaps prev pend`: two consecutive blocks of the sibling sequence are separated by a blank line.
    Link reference definitions are not blocks: a blank line before a definition separates the previous
    block from the next proper block, a blank line after a definition separates nothing.
    `prev` = end line of the previous proper sibling if it is directly before the head of `bs`;
    `pend` = a blank line is known to follow the previous proper sibling. -/
def Blks.gaps : Blks → Option Nat → Bool → Bool
  | .nil, _, _ => false
  | .cons b bs, prev, pend =>
    if b.isLrd then bs.gaps none (pend || sep prev b.startLine)
    else (pend || sep prev b.startLine) || bs.gaps (some b.endLine) b.endsBlank

/-- the block is an item that directly contains two blocks separated by a blank line. -/
def Blk.itemGap : Blk → Bool
  | .node k _ _ kids => isItemK k && kids.gaps none false
  | .leaf .. => false

def Blks.itemGaps : Blks → Bool
  | .nil => false
  | .cons b bs => b.itemGap || bs.itemGaps

/-- spec §5.3 for a list with children `items`. -/
def looseSpec (items : Blks) : Bool := items.gaps none false || items.itemGaps

mutual
/-- number of lists in a block. -/
def Blk.lists : Blk → Nat
  | .leaf .. => 0
  | .node k _ _ kids => (if isListK k then 1 else 0) + kids.lists
def Blks.lists : Blks → Nat
  | .nil => 0
  | .cons b bs => b.lists + bs.lists
end

mutual
/-- the tight/loose table: lists numbered from `next` in pre-order (order of the `open` events), entries in
    post-order (order of the `close` events). -/
def Blk.spec : Blk → Nat → List (Nat × Bool)
  | .leaf .., _ => []
  | .node k _ _ kids, next =>
    if isListK k then kids.spec (next + 1) ++ [(next, looseSpec kids)] else kids.spec next
def Blks.spec : Blks → Nat → List (Nat × Bool)
  | .nil, _ => []
  | .cons b bs, next => b.spec next ++ bs.spec (next + b.lists)
end

/-! ## 3. frame algebra -/
def LFrame.act (f : LFrame) : Bool := f.isList || f.isItem

theorem gapBefore_eq (f : LFrame) (line : Nat) : gapBefore f line = (f.act && (f.pend || sep f.prevEnd line)) := by
  unfold gapBefore LFrame.act sep
  cases f.prevEnd <;> rfl

def setPQ (p : Option Nat) (q : Bool) : List LFrame → List LFrame
  | f :: r => { f with prevEnd := p, pend := q } :: r
  | [] => []

def orLoose (x : Bool) : List LFrame → List LFrame
  | f :: r => { f with loose := f.loose || x } :: r
  | [] => []

def mark : List LFrame → List LFrame
  | f :: r => if f.isList then { f with loose := true } :: r else f :: orLoose true r
  | [] => []

def markIf (c : Bool) (S : List LFrame) : List LFrame := if c then mark S else S

def actTop : List LFrame → Bool
  | f :: _ => f.act
  | [] => false
def prevTop : List LFrame → Option Nat
  | f :: _ => f.prevEnd
  | [] => none
def pendTop : List LFrame → Bool
  | f :: _ => f.pend
  | [] => false
def gapTop (S : List LFrame) (line : Nat) : Bool := actTop S && (pendTop S || sep (prevTop S) line)

theorem noteChild_eq (S : List LFrame) (line : Nat) : noteChild S line = markIf (gapTop S line) S := by
  unfold noteChild markIf
  cases S with
  | nil => simp [mark]
  | cons f r =>
    simp only [gapTop, actTop, pendTop, prevTop, ← gapBefore_eq, mark]
    cases r <;> simp [orLoose]

theorem setPrevEnd_eq (S : List LFrame) (e : Nat) : setPrevEnd S e = setPQ (some e) false S := by
  cases S <;> rfl

theorem noteLrd_eq (S : List LFrame) (line : Nat) : noteLrd S line = setPQ none (gapTop S line) S := by
  cases S with
  | nil => rfl
  | cons f r => simp [noteLrd, setPQ, gapTop, actTop, pendTop, prevTop, ← gapBefore_eq]

theorem closeFrame_eq (g : LFrame) (S : List LFrame) (e : Nat) :
    closeFrame g S e = setPQ (some e) (g.isItem && g.pend) S := by
  cases S <;> rfl


/-! ### the machine, one event at a time -/
theorem looseness_leaf (k : LeafKind) (pos : Pos) (e : Nat) (pl : List PLine) (es : List Ev)
    (S : List LFrame) (next : Nat) :
    looseness (.leaf k pos e pl :: es) S next =
      looseness es (if k.isLrd then setPQ none (gapTop S pos.line) S
                    else setPQ (some e) false (markIf (gapTop S pos.line) S)) next := by
  cases k <;> simp [looseness, LeafKind.isLrd, noteLrd_eq, setPrevEnd_eq, noteChild_eq]

def newFrame (k : Kind) (next : Nat) : LFrame :=
  ⟨isListK k, isItemK k, if isListK k then next else 0, none, false, false⟩

theorem looseness_open (k : Kind) (pos : Pos) (es : List Ev) (S : List LFrame) (next : Nat) :
    looseness (.open k pos :: es) S next =
      looseness es (newFrame k next :: markIf (gapTop S pos.line) S) (next + if isListK k then 1 else 0) := by
  cases k <;> simp [looseness, newFrame, isListK, isItemK, noteChild_eq]

theorem looseness_close (k : Kind) (e : Nat) (es : List Ev) (g : LFrame) (S : List LFrame) (next : Nat) :
    looseness (.close k e :: es) (g :: S) next =
      (if g.isList then [(g.id, g.loose)] else []) ++ looseness es (setPQ (some e) (g.isItem && g.pend) S) next := by
  simp [looseness, closeFrame_eq]

/-! ### effect of a run of siblings on the innermost frame -/
/-- `Blks.trail` for a frame that is (`act`) or is not a list / item. -/
def Blks.trailA (act : Bool) : Blks → Option Nat → Bool → Bool
  | .nil, _, pend => pend
  | .cons b bs, prev, pend =>
    if b.isLrd then bs.trailA act none (act && (pend || sep prev b.startLine))
    else bs.trailA act (some b.endLine) b.endsBlank

def Blks.gapsA (act : Bool) : Blks → Option Nat → Bool → Bool
  | .nil, _, _ => false
  | .cons b bs, prev, pend =>
    if b.isLrd then bs.gapsA act none (act && (pend || sep prev b.startLine))
    else (act && (pend || sep prev b.startLine)) || bs.gapsA act (some b.endLine) b.endsBlank

def Blks.lastEnd : Blks → Option Nat → Option Nat
  | .nil, p => p
  | .cons b bs, _ => bs.lastEnd (if b.isLrd then none else some b.endLine)

theorem trailA_true : ∀ (bs : Blks) (prev : Option Nat) (pend : Bool), bs.trailA true prev pend = bs.trail prev pend
  | .nil, _, _ => by simp [Blks.trailA, Blks.trail]
  | .cons b bs, prev, pend => by
    simp only [Blks.trailA, Blks.trail, Bool.true_and]
    split <;> exact trailA_true bs _ _

theorem gapsA_true : ∀ (bs : Blks) (prev : Option Nat) (pend : Bool), bs.gapsA true prev pend = bs.gaps prev pend
  | .nil, _, _ => by simp [Blks.gapsA, Blks.gaps]
  | .cons b bs, prev, pend => by
    simp only [Blks.gapsA, Blks.gaps, Bool.true_and]
    split <;> rw [gapsA_true bs]

theorem gapsA_false : ∀ (bs : Blks) (prev : Option Nat) (pend : Bool), bs.gapsA false prev pend = false
  | .nil, _, _ => by simp [Blks.gapsA]
  | .cons b bs, prev, pend => by
    simp only [Blks.gapsA, Bool.false_and, Bool.false_or]
    split <;> rw [gapsA_false bs]

/-- the stack after the children `bs` have been added to its innermost frame. -/
def after (S : List LFrame) (bs : Blks) : List LFrame :=
  markIf (bs.gapsA (actTop S) (prevTop S) (pendTop S))
    (setPQ (bs.lastEnd (prevTop S)) (bs.trailA (actTop S) (prevTop S) (pendTop S)) (orLoose bs.itemGaps S))

/-- the stack after the single block `b` has been added to its innermost frame. -/
def stepB (b : Blk) (S : List LFrame) : List LFrame :=
  if b.isLrd then setPQ none (gapTop S b.startLine) S
  else markIf (gapTop S b.startLine) (setPQ (some b.endLine) b.endsBlank (orLoose b.itemGap S))

theorem after_nil (S : List LFrame) : after S .nil = S := by
  cases S with
  | nil => simp [after, markIf, setPQ, orLoose, Blks.gapsA]
  | cons f r => simp [after, markIf, setPQ, orLoose, Blks.gapsA, Blks.lastEnd, Blks.trailA, Blks.itemGaps, prevTop, pendTop]

theorem isLrd_itemGap {b : Blk} (h : b.isLrd = true) : b.itemGap = false := by
  cases b <;> simp_all [Blk.isLrd, Blk.itemGap]

theorem after_cons (S : List LFrame) (b : Blk) (bs : Blks) : after S (.cons b bs) = after (stepB b S) bs := by
  cases S with
  | nil => simp [after, stepB, markIf, mark, setPQ, orLoose]
  | cons f r =>
    by_cases hb : b.isLrd = true
    · simp [after, stepB, hb, isLrd_itemGap hb, setPQ, orLoose, actTop, prevTop, pendTop, gapTop, Blks.gapsA,
        Blks.trailA, Blks.lastEnd, Blks.itemGaps, LFrame.act]
    · simp only [Bool.not_eq_true] at hb
      cases hl : f.isList <;> cases hi : f.isItem <;> cases hq : f.pend <;> cases hs : sep f.prevEnd b.startLine <;>
        cases r <;> cases hg : bs.gapsA true (some b.endLine) b.endsBlank <;>
        simp [after, stepB, hb, setPQ, orLoose, actTop, prevTop, pendTop, gapTop, Blks.gapsA,
          Blks.trailA, Blks.lastEnd, Blks.itemGaps, LFrame.act, markIf, mark, hl, hi, hq, hs, hg, gapsA_false, Bool.or_assoc]


theorem markIf_comm (c : Bool) (p : Option Nat) (q x : Bool) (S : List LFrame) :
    setPQ p q (orLoose x (markIf c S)) = markIf c (setPQ p q (orLoose x S)) := by
  cases S with
  | nil => cases c <;> simp [markIf, mark, setPQ, orLoose]
  | cons f r => cases c <;> cases hl : f.isList <;> simp [markIf, mark, setPQ, orLoose, hl]

theorem orLoose_false (S : List LFrame) : orLoose false S = S := by
  cases S <;> simp [orLoose]

theorem orLoose_cons (x : Bool) (f : LFrame) (r : List LFrame) :
    orLoose x (f :: r) = { f with loose := f.loose || x } :: r := rfl
theorem setPQ_cons (p : Option Nat) (q : Bool) (f : LFrame) (r : List LFrame) :
    setPQ p q (f :: r) = { f with prevEnd := p, pend := q } :: r := rfl

/-- the frame of a container after its children, and what is left below it. -/
theorem after_newFrame (k : Kind) (next : Nat) (S : List LFrame) (kids : Blks) :
    ∃ g, after (newFrame k next :: S) kids = g :: orLoose (isItemK k && kids.gaps none false) S ∧
      g.isList = isListK k ∧ (isListK k = true → g.id = next ∧ g.loose = looseSpec kids) ∧
      (g.isItem && g.pend) = (isItemK k && kids.trail none false) := by
  cases k with
  | quote =>
    simp [after, newFrame, isListK, isItemK, actTop, prevTop, pendTop, LFrame.act, gapsA_false, markIf, setPQ_cons,
      orLoose_cons, orLoose_false]
  | list o d n =>
    cases hg : kids.gaps none false <;>
    simp [after, newFrame, isListK, isItemK, actTop, prevTop, pendTop, LFrame.act, gapsA_true, markIf, mark, setPQ_cons,
      orLoose_cons, orLoose_false, looseSpec, hg]
  | item =>
    cases hg : kids.gaps none false <;>
    simp [after, newFrame, isListK, isItemK, actTop, prevTop, pendTop, LFrame.act, gapsA_true, trailA_true, markIf,
      mark, setPQ_cons, orLoose_cons, orLoose_false, hg]

mutual
theorem run_blk : ∀ (b : Blk) (S : List LFrame) (rest : List Ev) (next : Nat),
    looseness (b.flatten ++ rest) S next = b.spec next ++ looseness rest (stepB b S) (next + b.lists)
  | .leaf k pos e pl, S, rest, next => by
    simp only [Blk.flatten, List.singleton_append, looseness_leaf, Blk.spec, Blk.lists, List.nil_append,
      Nat.add_zero, stepB, Blk.isLrd, Blk.startLine, Blk.endLine, Blk.endsBlank, Blk.itemGap]
    have := markIf_comm (gapTop S pos.line) (some e) false false S
    simp only [orLoose_false] at this
    rw [this, orLoose_false]
    rfl
  | .node k pos e kids, S, rest, next => by
    simp only [Blk.flatten, List.cons_append, List.append_assoc, looseness_open, run_blks kids]
    obtain ⟨g, hg, hl, hid, hp⟩ := after_newFrame k next (markIf (gapTop S pos.line) S) kids
    simp only [hg, looseness_close, hl, hp, markIf_comm, Blk.spec, Blk.lists, stepB,
      Blk.isLrd, Blk.startLine, Blk.endLine, Blk.endsBlank, Blk.itemGap]
    cases hk : isListK k
    · simp
    · simp [hid hk, Nat.add_assoc]
theorem run_blks : ∀ (bs : Blks) (S : List LFrame) (rest : List Ev) (next : Nat),
    looseness (bs.flatten ++ rest) S next = bs.spec next ++ looseness rest (after S bs) (next + bs.lists)
  | .nil, S, rest, next => by simp [Blks.flatten, Blks.spec, Blks.lists, after_nil]
  | .cons b bs, S, rest, next => by
    simp only [Blks.flatten, List.append_assoc, run_blk b, run_blks bs, after_cons, Blks.spec, Blks.lists,
      Nat.add_assoc]
end


/-! ## 4. the theorem -/

/-- the tight/loose table of a forest. -/
def spec (t : Blks) : List (Nat × Bool) := t.spec 0

/-- **tight_loose_spec** (general: link reference definitions included, no class hypothesis needed). -/
theorem tight_loose_spec (t : Blks) : looseness t.flatten [] 0 = spec t := by
  have h := run_blks t [] [] 0
  simpa [looseness, spec] using h

theorem tight_loose_spec_lookup (t : Blks) (id : Nat) :
    (looseness t.flatten [] 0).lookup id = (spec t).lookup id := by
  rw [tight_loose_spec]

/-! ## 5. documents without link reference definitions: the plain §5.3 wording -/
mutual
def Blk.noLrd : Blk → Bool
  | .leaf k _ _ _ => !k.isLrd
  | .node _ _ _ kids => kids.noLrd
def Blks.noLrd : Blks → Bool
  | .nil => true
  | .cons b bs => b.noLrd && bs.noLrd
end

/-- some two consecutive blocks of the sibling sequence are separated by a blank line
    (`prev` = end line of the sibling before the head, if any). -/
def Blks.gapsS : Blks → Option Nat → Bool
  | .nil, _ => false
  | .cons b bs, prev => sep prev b.startLine || bs.gapsS (some b.endLine)

def Blk.itemGapS : Blk → Bool
  | .node k _ _ kids => isItemK k && kids.gapsS none
  | .leaf .. => false

def Blks.itemGapsS : Blks → Bool
  | .nil => false
  | .cons b bs => b.itemGapS || bs.itemGapsS

/-- §5.3: two items are separated by a blank line, or some item directly contains two blocks separated
    by a blank line. -/
def looseSpecS (items : Blks) : Bool := items.gapsS none || items.itemGapsS

mutual
def Blk.specS : Blk → Nat → List (Nat × Bool)
  | .leaf .., _ => []
  | .node k _ _ kids, next =>
    if isListK k then kids.specS (next + 1) ++ [(next, looseSpecS kids)] else kids.specS next
def Blks.specS : Blks → Nat → List (Nat × Bool)
  | .nil, _ => []
  | .cons b bs, next => b.specS next ++ bs.specS (next + b.lists)
end

def specS (t : Blks) : List (Nat × Bool) := t.specS 0

mutual
theorem noLrd_endsBlank : ∀ (b : Blk), b.noLrd = true → b.endsBlank = false
  | .leaf .., _ => by simp [Blk.endsBlank]
  | .node k pos e kids, h => by
    simp only [Blk.noLrd] at h
    simp [Blk.endsBlank, noLrd_trail kids h none]
theorem noLrd_trail : ∀ (bs : Blks), bs.noLrd = true → ∀ prev, bs.trail prev false = false
  | .nil, _, _ => by simp [Blks.trail]
  | .cons b bs, h, prev => by
    simp only [Blks.noLrd, Bool.and_eq_true] at h
    have hb : b.isLrd = false := by
      cases b with
      | leaf k pos e pl => simpa [Blk.noLrd, Blk.isLrd] using h.1
      | node k pos e kids => rfl
    simp [Blks.trail, hb, noLrd_endsBlank b h.1, noLrd_trail bs h.2]
end

theorem noLrd_isLrd {b : Blk} (h : b.noLrd = true) : b.isLrd = false := by
  cases b with
  | leaf k pos e pl => simpa [Blk.noLrd, Blk.isLrd] using h
  | node k pos e kids => rfl

theorem noLrd_gaps : ∀ (bs : Blks), bs.noLrd = true → ∀ prev, bs.gaps prev false = bs.gapsS prev
  | .nil, _, _ => by simp [Blks.gaps, Blks.gapsS]
  | .cons b bs, h, prev => by
    simp only [Blks.noLrd, Bool.and_eq_true] at h
    simp [Blks.gaps, Blks.gapsS, noLrd_isLrd h.1, noLrd_endsBlank b h.1, noLrd_gaps bs h.2]

theorem noLrd_itemGaps : ∀ (bs : Blks), bs.noLrd = true → bs.itemGaps = bs.itemGapsS
  | .nil, _ => by simp [Blks.itemGaps, Blks.itemGapsS]
  | .cons b bs, h => by
    simp only [Blks.noLrd, Bool.and_eq_true] at h
    have hb : b.itemGap = b.itemGapS := by
      cases b with
      | leaf k pos e pl => rfl
      | node k pos e kids => simp [Blk.itemGap, Blk.itemGapS, noLrd_gaps kids (by simpa [Blk.noLrd] using h.1)]
    simp [Blks.itemGaps, Blks.itemGapsS, hb, noLrd_itemGaps bs h.2]

theorem noLrd_looseSpec (bs : Blks) (h : bs.noLrd = true) : looseSpec bs = looseSpecS bs := by
  simp [looseSpec, looseSpecS, noLrd_gaps bs h, noLrd_itemGaps bs h]

mutual
theorem noLrd_spec_blk : ∀ (b : Blk), b.noLrd = true → ∀ next, b.spec next = b.specS next
  | .leaf .., _, _ => by simp [Blk.spec, Blk.specS]
  | .node k pos e kids, h, next => by
    simp only [Blk.noLrd] at h
    simp [Blk.spec, Blk.specS, noLrd_spec_blks kids h, noLrd_looseSpec kids h]
theorem noLrd_spec_blks : ∀ (bs : Blks), bs.noLrd = true → ∀ next, bs.spec next = bs.specS next
  | .nil, _, _ => by simp [Blks.spec, Blks.specS]
  | .cons b bs, h, next => by
    simp only [Blks.noLrd, Bool.and_eq_true] at h
    simp [Blks.spec, Blks.specS, noLrd_spec_blk b h.1, noLrd_spec_blks bs h.2]
end

/-- **tight_loose_spec_partial**: for forests without link reference definitions the table is the one of
    the plain §5.3 wording. (A corollary of the general theorem.) -/
theorem tight_loose_spec_partial (t : Blks) (h : t.noLrd = true) : looseness t.flatten [] 0 = specS t := by
  rw [tight_loose_spec, spec, specS, noLrd_spec_blks t h]


/-! ### `looseSpecS` is literally the sentence of §5.3 -/
def Blks.toList : Blks → List Blk
  | .nil => []
  | .cons b bs => b :: bs.toList

/-- two consecutive blocks of `l` are separated by a blank line. -/
def AdjGap (l : List Blk) : Prop :=
  ∃ i a b, l[i]? = some a ∧ l[i + 1]? = some b ∧ b.startLine > a.endLine + 1

theorem adjGap_single (a : Blk) : ¬ AdjGap [a] := by
  rintro ⟨i, x, y, _, h2, _⟩
  simp at h2

theorem adjGap_nil : ¬ AdjGap [] := by
  rintro ⟨i, x, y, h1, _, _⟩
  simp at h1

theorem adjGap_cons2 (a b : Blk) (l : List Blk) :
    AdjGap (a :: b :: l) ↔ b.startLine > a.endLine + 1 ∨ AdjGap (b :: l) := by
  constructor
  · rintro ⟨i, x, y, h1, h2, h3⟩
    cases i with
    | zero =>
      simp at h1 h2
      subst h1; subst h2
      exact Or.inl h3
    | succ i =>
      simp at h1 h2
      exact Or.inr ⟨i, x, y, h1, h2, h3⟩
  · rintro (h | ⟨i, x, y, h1, h2, h3⟩)
    · exact ⟨0, a, b, by simp, by simp, h⟩
    · exact ⟨i + 1, x, y, by simpa using h1, by simpa using h2, h3⟩

theorem gapsS_some_iff : ∀ (bs : Blks) (a : Blk), bs.gapsS (some a.endLine) = true ↔ AdjGap (a :: bs.toList)
  | .nil, a => by simp [Blks.gapsS, Blks.toList, adjGap_single]
  | .cons b bs, a => by
    simp only [Blks.gapsS, Blks.toList, adjGap_cons2, Bool.or_eq_true, gapsS_some_iff bs b, sep, decide_eq_true_eq]

theorem gapsS_none_iff (bs : Blks) : bs.gapsS none = true ↔ AdjGap bs.toList := by
  cases bs with
  | nil => simp [Blks.gapsS, Blks.toList, adjGap_nil]
  | cons b bs => simp [Blks.gapsS, Blks.toList, sep, gapsS_some_iff]

theorem itemGapsS_iff : ∀ (bs : Blks), bs.itemGapsS = true ↔
    ∃ k pos e kids, Blk.node k pos e kids ∈ bs.toList ∧ isItemK k = true ∧ AdjGap kids.toList
  | .nil => by simp [Blks.itemGapsS, Blks.toList]
  | .cons b bs => by
    simp only [Blks.itemGapsS, Blks.toList, Bool.or_eq_true, itemGapsS_iff bs, List.mem_cons]
    constructor
    · rintro (h | ⟨k, pos, e, kids, hm, hk, hg⟩)
      · cases b with
        | leaf k pos e pl => simp [Blk.itemGapS] at h
        | node k pos e kids =>
          simp only [Blk.itemGapS, Bool.and_eq_true, gapsS_none_iff] at h
          exact ⟨k, pos, e, kids, Or.inl rfl, h.1, h.2⟩
      · exact ⟨k, pos, e, kids, Or.inr hm, hk, hg⟩
    · rintro ⟨k, pos, e, kids, hm | hm, hk, hg⟩
      · subst hm
        left
        simp [Blk.itemGapS, hk, gapsS_none_iff, hg]
      · exact Or.inr ⟨k, pos, e, kids, hm, hk, hg⟩

/-- "A list is loose if any of its constituent list items are separated by blank lines, or if any of its
    constituent list items directly contain two block-level elements with a blank line between them." -/
theorem looseSpecS_iff (items : Blks) : looseSpecS items = true ↔
    AdjGap items.toList ∨
    ∃ k pos e kids, Blk.node k pos e kids ∈ items.toList ∧ isItemK k = true ∧ AdjGap kids.toList := by
  simp only [looseSpecS, Bool.or_eq_true, gapsS_none_iff, itemGapsS_iff]


/-! ## 6. every well nested stream is the flattening of its tree -/
def Blks.snoc : Blks → Blk → Blks
  | .nil, b => .cons b .nil
  | .cons a as, b => .cons a (as.snoc b)

theorem flatten_snoc : ∀ (bs : Blks) (b : Blk), (bs.snoc b).flatten = bs.flatten ++ b.flatten
  | .nil, b => by simp [Blks.snoc, Blks.flatten]
  | .cons a as, b => by simp [Blks.snoc, Blks.flatten, flatten_snoc as b]

/-- an open container while the tree is being built: kind, position, the siblings before it. -/
abbrev BFrame := Kind × Pos × Blks

/-- build the forest of a stream: `st` = the open containers (innermost first), `cur` = the children
    collected so far for the innermost one. -/
def build : List Ev → List BFrame → Blks → Blks
  | [], _, cur => cur
  | .open k pos :: es, st, cur => build es ((k, pos, cur) :: st) .nil
  | .leaf k pos e pl :: es, st, cur => build es st (cur.snoc (.leaf k pos e pl))
  | .close _ e :: es, (k, pos, par) :: st, cur => build es st (par.snoc (.node k pos e cur))
  | .close _ _ :: es, [], cur => build es [] cur

/-- the forest of a stream. -/
def treeOf (es : List Ev) : Blks := build es [] .nil

/-- the events consumed so far, read back from the builder state. -/
def unflat : List BFrame → Blks → List Ev
  | [], cur => cur.flatten
  | (k, pos, par) :: st, cur => unflat st par ++ .open k pos :: cur.flatten

theorem unflat_snoc (st : List BFrame) (cur : Blks) (b : Blk) :
    unflat st (cur.snoc b) = unflat st cur ++ b.flatten := by
  cases st with
  | nil => simp [unflat, flatten_snoc]
  | cons f st => obtain ⟨k, pos, par⟩ := f; simp [unflat, flatten_snoc]

theorem build_flatten : ∀ (es : List Ev) (st : List BFrame) (cur : Blks),
    es.foldlM stepNest (st.map (·.1)) = some [] → (build es st cur).flatten = unflat st cur ++ es
  | [], st, cur, h => by
    simp only [List.foldlM_nil, Option.pure_def, Option.some.injEq, List.map_eq_nil_iff] at h
    subst h
    simp [build, unflat]
  | .open k pos :: es, st, cur, h => by
    simp only [List.foldlM_cons, stepNest, Option.bind_eq_bind, Option.bind_some] at h
    have := build_flatten es ((k, pos, cur) :: st) .nil (by simpa using h)
    simp [build, this, unflat, Blks.flatten]
  | .leaf k pos e pl :: es, st, cur, h => by
    simp only [List.foldlM_cons, stepNest, Option.bind_eq_bind, Option.bind_some] at h
    have := build_flatten es st (cur.snoc (.leaf k pos e pl)) h
    simp [build, this, unflat_snoc, Blk.flatten]
  | .close k' e :: es, [], cur, h => by
    simp [List.foldlM_cons, stepNest] at h
  | .close k' e :: es, (k, pos, par) :: st, cur, h => by
    simp only [List.foldlM_cons, stepNest, List.map_cons, Option.bind_eq_bind] at h
    by_cases hk : k = k'
    · subst hk
      simp only [if_true, Option.bind_some] at h
      have := build_flatten es st (par.snoc (.node k pos e cur)) h
      simp [build, this, unflat_snoc, unflat, Blk.flatten]
    · simp [hk] at h

/-- a well nested stream is the flattening of its tree. -/
theorem flatten_treeOf {es : List Ev} (h : WellNested es) : (treeOf es).flatten = es := by
  have := build_flatten es [] .nil (by simpa [WellNested] using h)
  simpa [treeOf, unflat, Blks.flatten] using this

/-- the table computed by the renderer for any well nested stream is the specified one. -/
theorem tight_loose_spec_stream {es : List Ev} (h : WellNested es) : looseness es [] 0 = spec (treeOf es) := by
  have := tight_loose_spec (treeOf es)
  rwa [flatten_treeOf h] at this

/-- **for every document**: the renderer's tight/loose table is the specified one. -/
theorem tight_loose_spec_events (lines : List Line) : looseness (events lines) [] 0 = spec (treeOf (events lines)) :=
  tight_loose_spec_stream (L_balanced lines)


theorem tight_loose_spec_eventsR (rd : Reading) (lines : List Line) :
    looseness (eventsR rd lines) [] 0 = spec (treeOf (eventsR rd lines)) :=
  tight_loose_spec_stream (L_wellFormedR rd lines).wellNested

/-! ### … and the tree of a `WellFormed` stream is class-correct -/
mutual
/-- class-correct: an item occurs exactly as a child of a list (`inList`), a list has only items. -/
def Blk.classOK : Blk → Bool → Bool
  | .leaf .., inList => !inList
  | .node k _ _ kids, inList => (isItemK k == inList) && kids.classOK (isListK k)
def Blks.classOK : Blks → Bool → Bool
  | .nil, _ => true
  | .cons b bs, c => b.classOK c && bs.classOK c
end

theorem classOK_snoc : ∀ (bs : Blks) (b : Blk) (c : Bool), (bs.snoc b).classOK c = (bs.classOK c && b.classOK c)
  | .nil, b, c => by simp [Blks.snoc, Blks.classOK]
  | .cons a as, b, c => by simp [Blks.snoc, Blks.classOK, classOK_snoc as b c, Bool.and_assoc]

def stackOK : List BFrame → Bool
  | [] => true
  | (k, _, par) :: st =>
    (isItemK k == topIsList (st.map (·.1))) && par.classOK (topIsList (st.map (·.1))) && stackOK st

theorem build_classOK : ∀ (es : List Ev) (st : List BFrame) (cur : Blks),
    es.foldlM stepEv (st.map (·.1)) = some [] → stackOK st = true →
    cur.classOK (topIsList (st.map (·.1))) = true → (build es st cur).classOK false = true
  | [], st, cur, h, _, hc => by
    simp only [List.foldlM_nil, Option.pure_def, Option.some.injEq, List.map_eq_nil_iff] at h
    subst h
    simpa [build, topIsList] using hc
  | .open k pos :: es, st, cur, h, hs, hc => by
    simp only [List.foldlM_cons, stepEv, Option.bind_eq_bind] at h
    by_cases hk : (isItemK k == topIsList (st.map (·.1))) = true
    · simp only [hk, if_true, Option.bind_some] at h
      exact build_classOK es ((k, pos, cur) :: st) .nil (by simpa using h)
        (by simp [stackOK, hk, hc, hs]) (by simp [Blks.classOK])
    · simp [hk] at h
  | .leaf k pos e pl :: es, st, cur, h, hs, hc => by
    simp only [List.foldlM_cons, stepEv, Option.bind_eq_bind] at h
    cases ht : topIsList (st.map (·.1))
    · simp only [ht, Bool.false_eq_true, if_false, Option.bind_some] at h
      exact build_classOK es st (cur.snoc (.leaf k pos e pl)) h hs
        (by simp [classOK_snoc, Blk.classOK, ht] at hc ⊢; exact hc)
    · simp [ht] at h
  | .close k' e :: es, [], cur, h, _, _ => by
    simp [List.foldlM_cons, stepEv] at h
  | .close k' e :: es, (k, pos, par) :: st, cur, h, hs, hc => by
    simp only [List.foldlM_cons, stepEv, List.map_cons, Option.bind_eq_bind] at h
    by_cases hk : k = k'
    · subst hk
      simp only [if_true, Option.bind_some] at h
      simp only [stackOK, Bool.and_eq_true] at hs
      exact build_classOK es st (par.snoc (.node k pos e cur)) h hs.2
        (by simp only [List.map_cons, topIsList] at hc
            simp [classOK_snoc, Blk.classOK, hs.1.1, hs.1.2, hc])
    · simp [hk] at h

/-- the tree of a well-formed stream (in particular of `events lines`, by `L_wellFormed`) is class-correct. -/
theorem treeOf_classOK {es : List Ev} (h : WellFormed es) : (treeOf es).classOK false = true :=
  build_classOK es [] .nil (by simpa [WellFormed, replay] using h) rfl rfl

theorem treeOf_events_classOK (lines : List Line) : (treeOf (events lines)).classOK false = true :=
  treeOf_classOK (L_wellFormed lines)

/-- in a class-correct tree every child of a list is an item: the "constituent list items" of §5.3 are
    exactly the children `items` that `looseSpec items` ranges over. -/
theorem classOK_list_children : ∀ (kids : Blks), kids.classOK true = true →
    ∀ b ∈ kids.toList, ∃ pos e ks, b = Blk.node .item pos e ks
  | .nil, _, b, hb => by simp [Blks.toList] at hb
  | .cons a as, h, b, hb => by
    simp only [Blks.classOK, Bool.and_eq_true] at h
    simp only [Blks.toList, List.mem_cons] at hb
    rcases hb with rfl | hb
    · cases b with
      | leaf k pos e pl => simp [Blk.classOK] at h
      | node k pos e ks =>
        cases k <;> simp [Blk.classOK, isItemK] at h
        exact ⟨pos, e, ks, rfl⟩
    · exact classOK_list_children as h.2 b hb

/-! ## 7. non-vacuity -/
section Examples
private def para (l e : Nat) : Blk := .leaf .para ⟨l, 3⟩ e []
private def item (l e : Nat) (kids : Blks) : Blk := .node .item ⟨l, 1⟩ e kids
private def ulist (l e : Nat) (kids : Blks) : Blk := .node (.list false '-' 0) ⟨l, 1⟩ e kids
private def lrd (l : Nat) : Blk := .leaf (.lrd ['x'] ['/', 'u'] none) ⟨l, 3⟩ l []
local infixr:67 " ;; " => Blks.cons

/-- `- a⏎- b`: tight. -/
example : looseness (ulist 1 2 (item 1 1 (para 1 1 ;; .nil) ;; item 2 2 (para 2 2 ;; .nil) ;; .nil) ;; .nil).flatten [] 0
    = [(0, false)] := by decide
/-- `- a⏎⏎- b`: two items separated by a blank line. -/
example : looseness (ulist 1 3 (item 1 1 (para 1 1 ;; .nil) ;; item 3 3 (para 3 3 ;; .nil) ;; .nil) ;; .nil).flatten [] 0
    = [(0, true)] := by decide
/-- `- a⏎⏎  b`: one item with two paragraphs separated by a blank line. -/
example : looseness (ulist 1 3 (item 1 3 (para 1 1 ;; para 3 3 ;; .nil) ;; .nil) ;; .nil).flatten [] 0
    = [(0, true)] := by decide
/-- `- a⏎  - b⏎⏎    c`: only the inner list (ordinal 1) is loose. -/
example : looseness (ulist 1 4 (item 1 4 (para 1 1 ;;
      ulist 2 4 (item 2 4 (para 2 2 ;; para 4 4 ;; .nil) ;; .nil) ;; .nil) ;; .nil) ;; .nil).flatten [] 0
    = [(1, true), (0, false)] := by decide
/-- the same four, computed by the specification. -/
example : spec (ulist 1 2 (item 1 1 (para 1 1 ;; .nil) ;; item 2 2 (para 2 2 ;; .nil) ;; .nil) ;; .nil) = [(0, false)] := by
  decide
example : spec (ulist 1 3 (item 1 1 (para 1 1 ;; .nil) ;; item 3 3 (para 3 3 ;; .nil) ;; .nil) ;; .nil) = [(0, true)] := by
  decide
example : spec (ulist 1 3 (item 1 3 (para 1 1 ;; para 3 3 ;; .nil) ;; .nil) ;; .nil) = [(0, true)] := by decide
example : spec (ulist 1 4 (item 1 4 (para 1 1 ;;
      ulist 2 4 (item 2 4 (para 2 2 ;; para 4 4 ;; .nil) ;; .nil) ;; .nil) ;; .nil) ;; .nil)
    = [(1, true), (0, false)] := by decide
/-- link reference definitions: `- a⏎⏎  [x]: /u⏎- b` is loose (the blank line before the definition separates
    `a` from the next item), `- a⏎  [x]: /u⏎⏎  b` is tight (a blank line after a definition separates nothing). -/
example : spec (ulist 1 4 (item 1 3 (para 1 1 ;; lrd 3 ;; .nil) ;; item 4 4 (para 4 4 ;; .nil) ;; .nil) ;; .nil)
    = [(0, true)] := by decide
example : spec (ulist 1 4 (item 1 4 (para 1 1 ;; lrd 2 ;; para 4 4 ;; .nil) ;; .nil) ;; .nil) = [(0, false)] := by decide
/-- on real documents, through the block parser. -/
example : looseness (events ["- a".toList, "- b".toList]) [] 0 = [(0, false)] := by decide
example : looseness (events ["- a".toList, [], "- b".toList]) [] 0 = [(0, true)] := by decide
example : looseness (events ["- a".toList, [], "  b".toList]) [] 0 = [(0, true)] := by decide
example : looseness (events ["- a".toList, "  - b".toList, [], "    c".toList]) [] 0 = [(1, true), (0, false)] := by decide
example : spec (treeOf (events ["- a".toList, "- b".toList])) = [(0, false)] := by decide
end Examples

end Verif.Model.LeanMark
