/-
  The HTML generator and escaping (core Lean only).

  The generator (`Verif.Model.GfmRender`) escapes nothing itself, except in the URI-autolink handler.  This file proves

  * `render_escapes`        if every token field the generator copies is already escaped (`PayloadsEscaped`), every
                            attribute value and every non-opaque payload of the output is `Safe` — for ALL token lists;
  * `uri_autolink_escapes`  the one handler that escapes does it right (in `GfmEscapeSafe`);
  * `text_escape_safe`      the escaping function on text, tied to the in-band marker codec (in `GfmEscapeSafe`);
  * `render_provenance`     every chunk of the output is the renderer's own structure or comes from a named field of a
                            token of the stream through a named function (`ChunkFrom`);
  * witnesses: the hypothesis of `render_escapes` is needed (fenced info string, e-mail autolink, image alt text), and
    a non-vacuity example.

  The walk along the token loop is done once, generically in a chunk predicate (`GfmEscapeEff.transformRun_generic`).
-/
import Verif.Lemmas.GfmEscapeSafe
import Verif.Lemmas.GfmEscapeEff
namespace Verif.Lemmas.GfmEscape
open Verif.Model.GfmRender Verif.Model.GfmSpec
open Verif.Model.Codec (Str)

/-! ## 1. `render_escapes` -/

theorem Escaped_iff (o : Out) : Escaped o = true ↔ ∀ c ∈ o, Chunk.escaped c = true := by
  simp [Escaped, List.all_eq_true]

theorem Escaped_append (a b : Out) : Escaped (a ++ b) = (Escaped a && Escaped b) := by
  simp [Escaped, List.all_append]

theorem attrsSafe_of_fixed {as : List Attr} (h : attrsFixed as = true) : attrsSafe as = true := by
  simp only [attrsFixed, attrsSafe, List.all_eq_true] at h ⊢
  intro a ha
  simp [h a ha]

theorem escaped_of_structural {c : Chunk} (h : structural c = true) : Chunk.escaped c = true := by
  cases c with
  | opn t as => exact attrsSafe_of_fixed h
  | void v as => exact attrsSafe_of_fixed h
  | cls t => rfl
  | nl => rfl
  | payload s x => cases h

theorem Safe_mailto : Safe (lit "mailto:") = true := by decide
theorem Safe_language : Safe (lit "language-") = true := by decide

/-- the token-derived chunks of a token whose fields are escaped (in the mode it is processed in) are escaped -/
theorem escaped_of_tokChunk {m : Mode} {t : Tok} {c : Chunk} (he : tokEscaped m t = true) (h : tokChunk m t c) :
    Chunk.escaped c = true := by
  obtain ⟨ln, b⟩ := t
  cases b with
  | text tt ws ew =>
    simp only [tokChunk] at h
    obtain ⟨a, ha, h⟩ := h
    simp only [tokEscaped, ha] at he
    split at h
    · rename_i hc
      obtain ⟨l, hl, rfl⟩ := h
      simp only [hc, if_true, hl] at he
      simp [Chunk.escaped, he]
    · split at h
      · obtain ⟨l, hl, rfl⟩ := h
        simp [Chunk.escaped, srcOpaque]
      · rename_i hc hh
        split at h
        · rename_i hs
          subst h
          simp only [hc, hh, hs, if_true, Bool.false_eq_true, if_false] at he
          simp [Chunk.escaped, he]
        · rename_i hs
          obtain ⟨s, hsn, rfl⟩ := h
          simp only [hc, hh, hs, Bool.false_eq_true, if_false, hsn] at he
          simp [Chunk.escaped, he]
  | codeSpan sp =>
    simp only [tokChunk] at h
    obtain ⟨s, hs, rfl⟩ := h
    simp only [tokEscaped, hs] at he
    simp [Chunk.escaped, he]
  | rawHtml tag =>
    simp only [tokChunk] at h
    obtain ⟨s, hs, rfl⟩ := h
    simp [Chunk.escaped, srcOpaque]
  | uriAutolink text http =>
    simp only [tokChunk] at h
    rcases h with rfl | rfl
    · simp [Chunk.escaped, attrsSafe, (uri_autolink_escapes text http).1]
    · simp [Chunk.escaped, (uri_autolink_escapes text http).2]
  | emailAutolink text =>
    simp only [tokChunk] at h
    simp only [tokEscaped] at he
    rcases h with rfl | rfl
    · simp [Chunk.escaped, attrsSafe, Safe_append Safe_mailto he]
    · simp [Chunk.escaped, he]
  | link u ti =>
    simp only [tokChunk] at h
    simp only [tokEscaped, Bool.and_eq_true] at he
    subst h
    cases hti : ti.isEmpty <;> simp [Chunk.escaped, attrsSafe, he.1, he.2]
  | image u a ti =>
    simp only [tokChunk] at h
    simp only [tokEscaped, Bool.and_eq_true] at he
    subst h
    cases hti : ti.isEmpty <;> simp [Chunk.escaped, attrsSafe, he.1.1, he.1.2, he.2]
  | fcode info =>
    simp only [tokChunk] at h
    simp only [tokEscaped] at he
    subst h
    cases hi : info.isEmpty <;> simp [Chunk.escaped, attrsSafe, codeAttrs, hi, Safe_append Safe_language he]
  | _ => simp [tokChunk] at h

theorem tokQ_escaped : ∀ (ts : List Tok) (m : Mode), payloadsEscapedFrom ts m = true →
    TokQ (fun c => Chunk.escaped c = true) ts m
  | [], _, _ => trivial
  | t :: ts, m, h => by
    simp only [payloadsEscapedFrom, Bool.and_eq_true] at h
    exact ⟨fun c hc => escaped_of_tokChunk h.1 hc, tokQ_escaped ts _ h.2⟩

/-- **The generator does not break escaping.**  For every token list (well-formed or not) whose copied fields are
already escaped — text after `resolve_all_from_text` in the mode the text handler runs in, code-span text, link URIs /
titles, image alt text, e-mail autolink text, the info string of a fenced code block — every attribute value and every
payload of the output, except raw HTML (inline tag, HTML-block line), is `Safe`. -/
theorem render_escapes (ts : List Tok) (hp : PayloadsEscaped ts) (st : St) (o : Out)
    (h : transformRun ts = .ok (st, o)) : Escaped o = true :=
  (Escaped_iff o).2
    (transformRun_generic (Q := fun c => Chunk.escaped c = true) (fun _ hc => escaped_of_structural hc) ts
      (tokQ_escaped ts {} hp) st o h)

/-! ## 4. Provenance -/

/-- **Where a chunk of the output can come from**, for the token stream `ts`.

* `own`: the renderer's own structure — an opening tag / void element whose attributes are all constants of the
  renderer (`Src.fixed`), a closing tag, a newline;
* every payload is a named field of a token OF THE STREAM, passed through `resolve_all_from_text` (`resolve`) — and for a
  text token in a paragraph through `__handle_text_token_normal` (`textNormal`) — or, for the URI autolink, through
  the escaping function (`htmlEscape`; `uriPreEscape` then `percentEncode` for the `href`);
* every non-constant attribute value is a named field of a token of the stream (`href` = `link_uri` / `mailto:` +
  autolink text / the escaped autolink; `src`, `alt`, `title`; `class="language-…"` = the info string). -/
inductive ChunkFrom (ts : List Tok) : Chunk → Prop
  | own (c : Chunk) (h : structural c = true) : ChunkFrom ts c
  | text (ln : Nat) (tt ws : Str) (ew : Option Str) (a s : Str) (hm : ⟨ln, .text tt ws ew⟩ ∈ ts)
      (ha : resolve tt = .ok a) (hs : s = a ∨ textNormal tt ew a = .ok s) : ChunkFrom ts (.payload .text s)
  | codeBlockText (ln : Nat) (tt ws : Str) (ew : Option Str) (l a : Str) (hm : ⟨ln, .text tt ws ew⟩ ∈ ts)
      (hl : resolve ws = .ok l) (ha : resolve tt = .ok a) : ChunkFrom ts (.payload .codeBlockText (l ++ a))
  | htmlBlockText (ln : Nat) (tt ws : Str) (ew : Option Str) (l a : Str) (hm : ⟨ln, .text tt ws ew⟩ ∈ ts)
      (hl : resolve ws = .ok l) (ha : resolve tt = .ok a) : ChunkFrom ts (.payload .htmlBlockText (l ++ a))
  | codeSpan (ln : Nat) (sp s : Str) (hm : ⟨ln, .codeSpan sp⟩ ∈ ts) (hs : resolve sp = .ok s) :
      ChunkFrom ts (.payload .codeSpan s)
  | rawHtml (ln : Nat) (tag s : Str) (hm : ⟨ln, .rawHtml tag⟩ ∈ ts) (hs : resolve tag = .ok s) :
      ChunkFrom ts (.payload .rawHtml ('<' :: (s ++ ['>'])))
  | autolinkBody (ln : Nat) (text : Str) (http : Bool) (hm : ⟨ln, .uriAutolink text http⟩ ∈ ts) :
      ChunkFrom ts (.payload .autolinkBody (htmlEscape text))
  | autolinkOpen (ln : Nat) (text : Str) (http : Bool) (hm : ⟨ln, .uriAutolink text http⟩ ∈ ts) :
      ChunkFrom ts (.opn .a
        [⟨lit "href", (if http then lit "http://" else []) ++ percentEncode (uriPreEscape text), .href⟩])
  | emailBody (ln : Nat) (text : Str) (hm : ⟨ln, .emailAutolink text⟩ ∈ ts) : ChunkFrom ts (.payload .emailBody text)
  | emailOpen (ln : Nat) (text : Str) (hm : ⟨ln, .emailAutolink text⟩ ∈ ts) :
      ChunkFrom ts (.opn .a [⟨lit "href", lit "mailto:" ++ text, .href⟩])
  | linkOpen (ln : Nat) (uri title : Str) (hm : ⟨ln, .link uri title⟩ ∈ ts) :
      ChunkFrom ts (.opn .a
        ([⟨lit "href", uri, .href⟩] ++ (if title.isEmpty then [] else [⟨lit "title", title, .title⟩])))
  | image (ln : Nat) (uri alt title : Str) (hm : ⟨ln, .image uri alt title⟩ ∈ ts) :
      ChunkFrom ts (.void .img
        ([⟨lit "src", uri, .src⟩, ⟨lit "alt", alt, .alt⟩]
          ++ (if title.isEmpty then [] else [⟨lit "title", title, .title⟩])))
  | codeOpen (ln : Nat) (info : Str) (hm : ⟨ln, .fcode info⟩ ∈ ts) :
      ChunkFrom ts (.opn .code [⟨lit "class", lit "language-" ++ info, .cls⟩])

theorem chunkFrom_of_tokChunk {ts : List Tok} {m : Mode} {t : Tok} {c : Chunk} (hm : t ∈ ts) (h : tokChunk m t c) :
    ChunkFrom ts c := by
  obtain ⟨ln, b⟩ := t
  cases b with
  | text tt ws ew =>
    simp only [tokChunk] at h
    obtain ⟨a, ha, h⟩ := h
    split at h
    · obtain ⟨l, hl, rfl⟩ := h
      exact .codeBlockText ln tt ws ew l a hm hl ha
    · split at h
      · obtain ⟨l, hl, rfl⟩ := h
        exact .htmlBlockText ln tt ws ew l a hm hl ha
      · split at h
        · subst h
          exact .text ln tt ws ew a a hm ha (Or.inl rfl)
        · obtain ⟨s, hs, rfl⟩ := h
          exact .text ln tt ws ew a s hm ha (Or.inr hs)
  | codeSpan sp =>
    simp only [tokChunk] at h
    obtain ⟨s, hs, rfl⟩ := h
    exact .codeSpan ln sp s hm hs
  | rawHtml tag =>
    simp only [tokChunk] at h
    obtain ⟨s, hs, rfl⟩ := h
    exact .rawHtml ln tag s hm hs
  | uriAutolink text http =>
    simp only [tokChunk] at h
    rcases h with rfl | rfl
    · exact .autolinkOpen ln text http hm
    · exact .autolinkBody ln text http hm
  | emailAutolink text =>
    simp only [tokChunk] at h
    rcases h with rfl | rfl
    · exact .emailOpen ln text hm
    · exact .emailBody ln text hm
  | link u ti =>
    simp only [tokChunk] at h
    subst h
    exact .linkOpen ln u ti hm
  | image u a ti =>
    simp only [tokChunk] at h
    subst h
    exact .image ln u a ti hm
  | fcode info =>
    simp only [tokChunk] at h
    subst h
    cases hi : info.isEmpty with
    | true => exact .own _ (by simp [structural, attrsFixed, codeAttrs, hi])
    | false =>
      simp only [codeAttrs, hi, Bool.false_eq_true, if_false]
      exact .codeOpen ln info hm
  | _ => simp [tokChunk] at h

theorem tokQ_chunkFrom (ts : List Tok) : ∀ (rest : List Tok) (m : Mode), (∀ t ∈ rest, t ∈ ts) →
    TokQ (ChunkFrom ts) rest m
  | [], _, _ => trivial
  | t :: rest, _, h =>
    ⟨fun _ hc => chunkFrom_of_tokChunk (h t List.mem_cons_self) hc,
     tokQ_chunkFrom ts rest _ fun t' ht' => h t' (List.mem_cons_of_mem _ ht')⟩

/-- **Token payloads reach the output only through the named functions**: every chunk of the output of the
generator is listed by `ChunkFrom` — for every token list on which the generator does not raise. -/
theorem render_provenance (ts : List Tok) (st : St) (o : Out) (h : transformRun ts = .ok (st, o)) :
    ∀ c ∈ o, ChunkFrom ts c :=
  transformRun_generic (Q := ChunkFrom ts) (fun c hc => .own c hc) ts (tokQ_chunkFrom ts ts {} fun _ ht => ht) st o h

/-! ## 5. Witnesses -/

/-- `some (Escaped o)` for the output `o` of the run, `none` if the generator raises -/
def escapedRun (w : List Tok) : Option Bool :=
  match transformRun w with
  | .ok (_, o) => some (Escaped o)
  | .error _ => none

theorem unescaped_of_escapedRun {w : List Tok} (h : escapedRun w = some false) :
    ∃ st o, transformRun w = .ok (st, o) ∧ Escaped o = false := by
  unfold escapedRun at h
  split at h
  · rename_i st o heq
    exact ⟨st, o, heq, by simpa using h⟩
  · cases h

/-- the fenced info string: pymarkdown produces this token for the document "```a"b" — the `class` attribute is broken
by the quote -/
def wFence : List Tok := [⟨1, .fcode "a\"b".toList⟩, ⟨0, .end_ .fcode 0 true⟩]

/-- the e-mail autolink of the document `<a&b@c.de>` -/
def wEmail : List Tok := [⟨1, .para⟩, ⟨1, .emailAutolink "a&b@c.de".toList⟩, ⟨0, .end_ .para 0 true⟩]

/-- image alt text built from raw inline HTML -/
def wImage : List Tok := [⟨1, .para⟩, ⟨1, .image "/u".toList "a<b>".toList []⟩, ⟨0, .end_ .para 0 true⟩]

theorem fence_info_unescaped :
    ¬ PayloadsEscaped wFence ∧ ∃ st o, transformRun wFence = .ok (st, o) ∧ Escaped o = false :=
  ⟨by decide, unescaped_of_escapedRun (by decide)⟩

theorem email_autolink_unescaped :
    ¬ PayloadsEscaped wEmail ∧ ∃ st o, transformRun wEmail = .ok (st, o) ∧ Escaped o = false :=
  ⟨by decide, unescaped_of_escapedRun (by decide)⟩

theorem image_alt_unescaped :
    ¬ PayloadsEscaped wImage ∧ ∃ st o, transformRun wImage = .ok (st, o) ∧ Escaped o = false :=
  ⟨by decide, unescaped_of_escapedRun (by decide)⟩

/-- the rendered HTML of the three witnesses -/
example : transform wFence = .ok "<pre><code class=\"language-a\"b\"></code></pre>".toList := by decide
example : transform wEmail = .ok "<p><a href=\"mailto:a&b@c.de\">a&b@c.de</a></p>".toList := by decide
example : transform wImage = .ok "<p><img src=\"/u\" alt=\"a<b>\" /></p>".toList := by decide

/-- non-vacuity of `render_escapes`: a paragraph with the text `a<b` (stored as `a\a<\a&lt;\ab`), a link with a title,
and a URI autolink whose text needs escaping -/
def wGood : List Tok :=
  [⟨1, .para⟩,
   ⟨1, .text ['a', '\x07', '<', '\x07', '&', 'l', 't', ';', '\x07', 'b'] [] none⟩,
   ⟨1, .link "/u?a=1&amp;b=2".toList "t &quot;q&quot;".toList⟩,
   ⟨1, .text "x".toList [] none⟩,
   ⟨1, .end_ .link 2 false⟩,
   ⟨1, .uriAutolink "http://e.com/?a=\"<&>".toList false⟩,
   ⟨0, .end_ .para 0 true⟩]

theorem wGood_payloadsEscaped : PayloadsEscaped wGood := by decide

/-- the text token of `wGood` really goes through the codec: `a\a<\a&lt;\ab` resolves to `a&lt;b` -/
example : resolve ['a', '\x07', '<', '\x07', '&', 'l', 't', ';', '\x07', 'b'] = .ok "a&lt;b".toList := by decide

theorem wGood_renders :
    transform wGood = .ok
      ("<p>a&lt;b<a href=\"/u?a=1&amp;b=2\" title=\"t &quot;q&quot;\">x</a>"
        ++ "<a href=\"http://e.com/?a=%22&lt;&amp;&gt;\">http://e.com/?a=&quot;&lt;&amp;&gt;</a></p>").toList := by
  decide +kernel

theorem wGood_escaped : ∃ st o, transformRun wGood = .ok (st, o) ∧ Escaped o = true := by
  cases h : transformRun wGood with
  | error e =>
    have : transform wGood = .error e := by simp [transform, h]
    rw [wGood_renders] at this
    cases this
  | ok r => exact ⟨r.1, r.2, rfl, render_escapes wGood wGood_payloadsEscaped r.1 r.2 h⟩

end Verif.Lemmas.GfmEscape
