/-
  Positions: the (line, column) the inline dispatcher keeps is the true position of its start index — walking lemmas, the
  position invariant, one turn.
-/
import Verif.Lemmas.InlineLoopRun
namespace Verif.Model.InlineLoop
open Verif.Model.Recognisers (Str slice)

/-! ## walking -/

theorem walk_append (bq ws : Nat → Nat) : ∀ (a b : Str) (p : Nat × Int), walk bq ws p (a ++ b) = walk bq ws (walk bq ws p a) b
  | [], b, p => rfl
  | c :: a, b, p => by
    simp only [List.cons_append, walk]
    split <;> exact walk_append bq ws a b _

theorem walk_noNl (bq ws : Nat → Nat) : ∀ (a : Str) (p : Nat × Int), NL ∉ a → walk bq ws p a = (p.1, p.2 + (a.length : Int))
  | [], p, _ => by simp [walk]
  | c :: a, p, h => by
    simp only [List.mem_cons, not_or] at h
    have hc : (c == NL) = false := by simpa using fun e => h.1 e.symm
    simp only [walk, hc, Bool.false_eq_true, ↓reduceIte]
    rw [walk_noNl bq ws a _ h.2]
    simp only [List.length_cons]
    congr 1; omega

theorem walk_fst (bq ws : Nat → Nat) : ∀ (a : Str) (p : Nat × Int), (walk bq ws p a).1 = p.1 + countNl a
  | [], p => by simp [walk, countNl]
  | c :: a, p => by
    simp only [walk]
    by_cases hc : (c == NL) = true
    · have : c = NL := by simpa using hc
      subst this
      simp only [beq_self_eq_true, ↓reduceIte]
      rw [walk_fst bq ws a _, countNl_cons_nl]; simp only; omega
    · have hne : c ≠ NL := by simpa using hc
      simp only [hc, Bool.false_eq_true, ↓reduceIte]
      rw [walk_fst bq ws a _]
      unfold countNl; rw [List.count_cons_of_ne hne]

theorem take_eq_take_append_slice (s : Str) {a b : Nat} (h : a ≤ b) : s.take b = s.take a ++ slice s a b := by
  unfold slice
  have : s.take a = (s.take b).take a := by rw [List.take_take, Nat.min_eq_left h]
  rw [this, List.take_append_drop]

theorem slice_length (s : Str) {a b : Nat} (hb : b ≤ s.length) : (slice s a b).length = b - a := by
  unfold slice; simp only [List.length_drop, List.length_take]; omega

theorem take_succ_of_getElem? {s : Str} {n : Nat} {c : Char} (h : s[n]? = some c) : s.take (n + 1) = s.take n ++ [c] := by
  rw [List.take_succ, h]; rfl

/-- the walk from the start of the text to index `i` -/
def wk (env : Env) (src : Str) (sp0 : Option (List Str)) (i : Nat) : Nat × Int :=
  walk (bqf env) (wsf sp0) (0, env.col) (src.take i)

theorem envPos_eq (env : Env) (src : Str) (sp0 : Option (List Str)) (i : Nat) :
    envPos env src sp0 i = (env.line + ((wk env src sp0 i).1 : Int), (wk env src sp0 i).2) := rfl

theorem wk_fst (env : Env) (src : Str) (sp0 : Option (List Str)) (i : Nat) : (wk env src sp0 i).1 = countNl (src.take i) := by
  unfold wk; rw [walk_fst]; simp

/-- over a piece without line break the column grows by its length -/
theorem wk_noNl (env : Env) (src : Str) (sp0 : Option (List Str)) {a b : Nat} (h : a ≤ b) (hb : b ≤ src.length)
    (hn : NL ∉ slice src a b) : wk env src sp0 b = ((wk env src sp0 a).1, (wk env src sp0 a).2 + ((b - a : Nat) : Int)) := by
  unfold wk
  rw [take_eq_take_append_slice src h, walk_append, walk_noNl _ _ _ _ hn, slice_length src hb]

/-- a line break moves to the next line: column 1 + container prefix + removed white space -/
theorem wk_nl (env : Env) (src : Str) (sp0 : Option (List Str)) {n : Nat} (h : src[n]? = some NL) :
    wk env src sp0 (n + 1) = ((wk env src sp0 n).1 + 1,
      1 + (bqf env ((wk env src sp0 n).1 + 1) : Int) + (wsf sp0 ((wk env src sp0 n).1 + 1) : Int)) := by
  unfold wk
  rw [take_succ_of_getElem? h, walk_append]
  simp [walk]

theorem countNl_take (s : Str) {a b : Nat} (h : a ≤ b) : countNl (s.take b) = countNl (s.take a) + countNl (slice s a b) := by
  rw [take_eq_take_append_slice s h, countNl_append]

/-! ## what a successful turn computed -/

theorem finish_eq {T : Table} {env : Env} {src : Str} {st : St} {next : Nat} {c : Char} {m : Mid} {st' : St} {it : Iter}
    (h : finish T env src st next c m = .ok (st', it)) :
    ∃ l cc sp' ni, adjustLineCol env m (cleanupCreate st m).remaining st.splitPara = .ok (l, cc, sp') ∧
      m.resp.newIndex = some ni ∧ st'.line = l ∧ st'.col = cc ∧ st'.splitPara = sp' ∧ st'.bqIdx = m.bqIdx ∧ st'.start = ni ∧
      (it.start = st.start ∧ it.next = next ∧ it.ch = c ∧ it.newIndex = ni ∧ it.line = st.line ∧ it.col = st.col ∧
        it.lastLine = st.lastLine ∧ it.lastCol = st.lastCol) ∧
      st'.lastLine = (if it.changed then l else st.lastLine) ∧ st'.lastCol = (if it.changed then cc else st.lastCol) ∧
      st'.blocks = (cleanupCreate st m).blocks ∧ st'.next = indexAnyOf src T.starts ni := by
  unfold finish at h
  simp only at h
  split at h
  · cases h
  · next l cc sp' ha =>
    split at h
    · cases h
    · cases h
    · next ni ns hni hns =>
      split at h
      · cases h
      · split at h
        · cases h
        · injection h with h
          injection h with h1 h2
          subst h1; subst h2
          exact ⟨l, cc, sp', ni, ha, hni, rfl, rfl, rfl, rfl, rfl, ⟨rfl, rfl, rfl, rfl, rfl, rfl, rfl, rfl⟩, rfl, rfl, rfl, rfl⟩

theorem newLine_eq {env : Env} {src : Str} {st : St} {q : Request} {m : Mid} (hr : truthy env.recomb = false)
    (h : newLine env src st q NL = .ok m) :
    m.line = st.line ∧ m.col = st.col ∧ m.wasNewLine = true ∧ m.resp.newIndex = some (q.next + 1) ∧
      m.bqIdx = (if env.bq.isSome then st.bqIdx + 1 else st.bqIdx) := by
  unfold newLine at h
  simp only [bne_self_eq_false, Bool.false_eq_true, ↓reduceIte, hr] at h
  unfold addRecombinedWhitespace at h
  simp only [Bool.false_eq_true, ↓reduceIte] at h
  split at h
  · split at h
    · cases h
    · injection h with h; subst h; exact ⟨rfl, rfl, rfl, rfl, rfl⟩
  · injection h with h; subst h; exact ⟨rfl, rfl, rfl, rfl, rfl⟩

theorem adjust_newline_eq {env : Env} {m : Mid} {remaining : Str} {splitPara : Option (List Str)} {l cc : Int}
    {sp' : Option (List Str)} (hn : m.wasNewLine = true) (h : adjustLineCol env m remaining splitPara = .ok (l, cc, sp')) :
    ∃ b x p r, bqLen env m.bqIdx = .ok b ∧ splitPara = some (x :: p :: r) ∧ l = m.line + 1 ∧ cc = 1 + b + (p.length : Int) ∧
      sp' = some (p :: r) := by
  unfold adjustLineCol at h
  simp only [hn, ↓reduceIte] at h
  split at h
  · cases h
  · next b hb =>
    split at h
    · cases h
    · cases h
    · next x rest =>
      split at h
      · cases h
      · next p r =>
        injection h with h
        simp only [Prod.mk.injEq] at h
        exact ⟨b, x, p, r, hb, rfl, h.1.symm, h.2.1.symm, h.2.2.symm⟩

theorem adjust_same_eq {env : Env} {m : Mid} {remaining : Str} {splitPara : Option (List Str)} {l cc : Int}
    {sp' : Option (List Str)} (hn : m.wasNewLine = false) (hr : m.wasReset = false)
    (h : adjustLineCol env m remaining splitPara = .ok (l, cc, sp')) :
    l = m.line ∧ cc = m.col + (remaining.length : Int) ∧ sp' = splitPara := by
  unfold adjustLineCol at h
  simp only [hn, Bool.false_eq_true, ↓reduceIte, hr, Bool.not_false] at h
  injection h with h
  simp only [Prod.mk.injEq] at h
  exact ⟨h.1.symm, h.2.1.symm, h.2.2.symm⟩

/-- the value `bqLen` returns is the block-quote prefix width of the spec -/
theorem bqLen_eq_bqf {env : Env} {idx : Nat} {b : Int} (h : bqLen env idx = .ok b) :
    ∀ k, (∀ bb, env.bq = some bb → idx = bb.idx + k) → b = (bqf env k : Int) := by
  intro k hk
  unfold bqLen at h
  unfold bqf
  cases hb : env.bq with
  | none => rw [hb] at h; simp only at h ⊢; injection h with h; exact h.symm
  | some bb =>
    rw [hb] at h; simp only at h ⊢
    cases hl : bb.lead with
    | none => rw [hl] at h; cases h
    | some ls =>
      rw [hl] at h; simp only at h ⊢
      have hi := hk bb hb
      cases hg : ls[idx]? with
      | none => rw [hg] at h; cases h
      | some n =>
        rw [hg] at h; injection h with h
        rw [← hi, List.getD_eq_getElem?_getD, hg]; exact h.symm

/-! ## the position invariant -/

/-- the state's position is the true position of its start index; the block-quote line index and the remaining paragraph white
space are those of the line the start index lies on -/
structure PosInv (env : Env) (src : Str) (sp0 : Option (List Str)) (st : St) : Prop where
  line : st.line = env.line + ((wk env src sp0 st.start).1 : Int)
  col : st.col = (wk env src sp0 st.start).2
  idx : ∀ b, env.bq = some b → st.bqIdx = b.idx + (wk env src sp0 st.start).1
  sp : st.splitPara = sp0.map (List.drop (wk env src sp0 st.start).1)

/-- what the position theorem asks of the table (beside `TableOK`): the newline is a start character; no white space is recombined
(paragraph and ATX calls); every handler answer stays on its line and is position-true -/
structure PosContract (T : Table) (env : Env) (src : Str) (sp0 : Option (List Str)) : Prop where
  nl : T.starts.contains NL = true
  noRecomb : truthy env.recomb = false
  single : ∀ c h q r ni, T.handler c = some h → q.src = src → src[q.next]? = some c → ReqOK q → h q = .ok r →
    r.newIndex = some ni → countNl (slice src q.next ni) = 0
  posTrue : ∀ c h q r, T.handler c = some h → q.src = src → src[q.next]? = some c → ReqOK q → h q = .ok r →
    PosTrue env src sp0 q r
  bound : ∀ c h q r ni, T.handler c = some h → q.src = src → src[q.next]? = some c → ReqOK q → h q = .ok r →
    r.newIndex = some ni → ni ≤ src.length

theorem not_mem_of_countNl_zero {s : Str} (h : countNl s = 0) : NL ∉ s := List.count_eq_zero.mp h

theorem drop_cons_getD {l : List Str} {k : Nat} {x p : Str} {r : List Str} (h : l.drop k = x :: p :: r) :
    l.getD (k + 1) [] = p ∧ l.drop (k + 1) = p :: r := by
  have h2 : l.drop (k + 1) = p :: r := by
    rw [← List.drop_drop, h]; rfl
  refine ⟨?_, h2⟩
  have : l[k + 1]? = some p := by
    have := congrArg (fun t => t[0]?) h2
    simpa [List.getElem?_drop] using this
  rw [List.getD_eq_getElem?_getD, this]; rfl

theorem step_pos {T : Table} {env : Env} {src : Str} {sp0 : Option (List Str)} {st : St} {next : Nat} {st' : St} {it : Iter}
    (hT : TableOK T src) (hP : PosContract T env src sp0) (hI : Inv T env src st) (hn : st.next = some next)
    (hPI : PosInv env src sp0 st) (hs : step T env src st next = .ok (st', it)) : PosInv env src sp0 st' := by
  have hidx : indexAnyOf src T.starts st.start = some next := by rw [← hI.next]; exact hn
  obtain ⟨hge, ⟨hlt, hmem⟩, hfirst⟩ := indexAnyOf_some hidx
  have hc : src[next]? = some src[next] := List.getElem?_eq_getElem hlt
  have hnl1 : NL ∉ slice src st.start next := by
    intro hm; have := hfirst NL hm; rw [hP.nl] at this; cases this
  have hwn : wk env src sp0 next = ((wk env src sp0 st.start).1, (wk env src sp0 st.start).2 + ((next - st.start : Nat) : Int)) :=
    wk_noNl env src sp0 hge (Nat.le_of_lt hlt) hnl1
  unfold step at hs
  rw [hc] at hs
  simp only at hs
  unfold dispatchChar at hs
  cases hh : T.handler src[next] with
  | some h =>
    rw [hh] at hs; simp only at hs
    cases hm : handled env st h (mkRequest env src st next) with
    | error e => rw [hm] at hs; cases hs
    | ok m =>
      rw [hm] at hs; simp only at hs
      obtain ⟨r, hr, _, hmeq⟩ := handled_ok hm
      have hR := hT.resp _ h _ r hh rfl hc (mkRequest_reqOK env src st next) hr
      obtain ⟨l, cc, sp', ni, ha, hni, e1, e2, e3, e4, e5, _, _, _, _, _⟩ := finish_eq hs
      have hmr : m.resp = r := by rw [hmeq]
      rw [hmr] at hni
      obtain ⟨ni', hni', hprog⟩ := hR.progress
      rw [hni] at hni'; injection hni' with hni'; subst hni'
      have hprog' : next < ni := hprog
      have hsl : countNl (slice src next ni) = 0 := hP.single _ h _ r ni hh rfl hc (mkRequest_reqOK env src st next) hr hni
      have hpt := hP.posTrue _ h _ r hh rfl hc (mkRequest_reqOK env src st next) hr
      unfold PosTrue posTrueb at hpt
      rw [hni] at hpt
      have hq : (mkRequest env src st next).next = next := rfl
      simp only [hq, hsl, beq_self_eq_true, ↓reduceIte, Bool.and_eq_true, beq_iff_eq] at hpt
      obtain ⟨hdl, hdc⟩ := hpt
      have hrem : ((mkRequest env src st next).remaining.length : Int) = ((next - st.start : Nat) : Int) := by
        show ((slice src st.start next).length : Int) = _
        rw [slice_length src (Nat.le_of_lt hlt)]
      have hdc0 : ¬ r.dCol < 0 := by rw [hdc]; split <;> omega
      have hnw : m.wasNewLine = false := by rw [hmeq]
      have hrs : m.wasReset = false := by rw [hmeq]; simpa using hdc0
      obtain ⟨a1, a2, a3⟩ := adjust_same_eq hnw hrs ha
      have hm2rem : ((cleanupCreate st m).remaining.length : Int) =
          if r.consumeRest then 0 else ((next - st.start : Nat) : Int) := by
        unfold cleanupCreate
        rw [hmr]
        by_cases hcr : r.consumeRest = true
        · simp [hcr]
        · simp only [hcr, Bool.false_eq_true, ↓reduceIte]
          have : m.remaining = (mkRequest env src st next).remaining := by rw [hmeq]
          split
          · rw [this]; exact hrem
          · split
            · rw [this]; exact hrem
            · split <;> (rw [this]; exact hrem)
      have hle : ni ≤ src.length := hP.bound _ h _ r ni hh rfl hc (mkRequest_reqOK env src st next) hr hni
      -- the walk to `ni`
      have hnl2 : NL ∉ slice src next ni := not_mem_of_countNl_zero hsl
      have hwni : (wk env src sp0 ni).1 = (wk env src sp0 st.start).1 := by
        rw [wk_fst, wk_fst]
        have h0 : countNl (slice src st.start next) = 0 := countNl_zero_of_not_mem hnl1
        have e2 := countNl_take src (a := next) (b := ni) (Nat.le_of_lt hprog')
        have e3 := countNl_take src (a := st.start) (b := next) hge
        omega
      have hcol : (wk env src sp0 ni).2 = (wk env src sp0 st.start).2 + ((ni : Int) - (st.start : Int)) := by
        have := wk_noNl env src sp0 (Nat.le_of_lt hprog') hle hnl2
        rw [this, hwn]; simp only; omega
      refine ⟨?_, ?_, ?_, ?_⟩
      · rw [e1, a1, e5, hwni, hmeq]; simp only; rw [hdl, hPI.line]; omega
      · rw [e2, a2, e5, hcol, hm2rem, hmeq]; simp only
        rw [if_neg (by simpa using hdc0), hdc, hPI.col, hrem]
        split <;> omega
      · intro b hb
        rw [e4, e5, hwni, hmeq]; simp only
        have hraw := hR.rawNl ni hni
        rw [show (mkRequest env src st next).src = src from rfl, hq, hsl] at hraw
        rw [hb]; simp only [Option.isSome_some, ↓reduceIte]
        rw [hPI.idx b hb]; omega
      · rw [e3, a3, e5, hwni]; exact hPI.sp
  | none =>
    rw [hh] at hs; simp only at hs
    have hnl : src[next] = NL := by
      by_cases hx : src[next] = NL
      · exact hx
      · have := hT.nlOnly _ hmem hx
        rw [hh] at this; cases this
    rw [hnl] at hs hc
    cases hm : newLine env src st (mkRequest env src st next) NL with
    | error e => rw [hm] at hs; cases hs
    | ok m =>
      rw [hm] at hs; simp only at hs
      obtain ⟨m1, m2, m3, m4, m5⟩ := newLine_eq hP.noRecomb hm
      obtain ⟨l, cc, sp', ni, ha, hni, e1, e2, e3, e4, e5, _⟩ := finish_eq hs
      rw [m4] at hni; injection hni with hni
      have hq : (mkRequest env src st next).next = next := rfl
      rw [hq] at hni
      subst hni
      obtain ⟨b, x, p, r', hb, hsp, a1, a2, a3⟩ := adjust_newline_eq m3 ha
      have hw1 := wk_nl env src sp0 hc
      rw [hwn] at hw1; simp only at hw1
      rw [hPI.sp] at hsp
      have hex : ∃ l0, sp0 = some l0 ∧ l0.drop (wk env src sp0 st.start).1 = x :: p :: r' := by
        generalize (wk env src sp0 st.start).1 = k at hsp
        cases sp0 with
        | none => cases hsp
        | some l0 => exact ⟨l0, rfl, by simpa using hsp⟩
      obtain ⟨l0, hsp0, hdrop⟩ := hex
      obtain ⟨g1, g2⟩ := drop_cons_getD hdrop
      have hidxm : ∀ bb, env.bq = some bb → m.bqIdx = bb.idx + ((wk env src sp0 st.start).1 + 1) := by
        intro bb hbb
        rw [m5, hbb]; simp only [Option.isSome_some, ↓reduceIte]
        rw [hPI.idx bb hbb]; omega
      have hbq := bqLen_eq_bqf hb ((wk env src sp0 st.start).1 + 1) hidxm
      refine ⟨?_, ?_, ?_, ?_⟩
      · rw [e1, a1, e5, hw1, m1, hPI.line]; simp only; omega
      · rw [e2, a2, e5, hw1, hbq]; simp only
        have : wsf sp0 ((wk env src sp0 st.start).1 + 1) = p.length := by
          unfold wsf; rw [hsp0]; simp only; rw [← hsp0, g1]
        rw [this]
      · intro bb hbb
        rw [e4, e5, hw1, hidxm bb hbb]
      · rw [e3, a3, e5, hw1]; simp only
        rw [hsp0]; simp only [Option.map_some, Option.some.injEq]
        rw [← g2, hsp0]

/-! ## the loop -/

theorem step_iter_facts {T : Table} {env : Env} {src : Str} {st : St} {next : Nat} {st' : St} {it : Iter}
    (hs : step T env src st next = .ok (st', it)) :
    it.start = st.start ∧ it.next = next ∧ it.newIndex = st'.start ∧ it.line = st.line ∧ it.col = st.col ∧
      it.lastLine = st.lastLine ∧ it.lastCol = st.lastCol ∧
      st'.lastLine = (if it.changed then st'.line else st.lastLine) ∧ st'.lastCol = (if it.changed then st'.col else st.lastCol) := by
  unfold step at hs
  split at hs
  · cases hs
  · split at hs
    · cases hs
    · obtain ⟨l, cc, sp', ni, _, _, e1, e2, _, _, e5, ⟨i1, i2, _, i4, i5, i6, i7, i8⟩, l1, l2, _, _⟩ := finish_eq hs
      exact ⟨i1, i2, by rw [i4, e5], i5, i6, i7, i8, by rw [l1, e1], by rw [l2, e2]⟩

/-- every turn of the trace was handed the true position of its start index, and its "last position" is the true position of the
index where the pending text piece starts -/
def TracePos (P : Nat → Int × Int) : List Iter → List Iter → Prop
  | _, [] => True
  | pre, it :: r => (it.line, it.col) = P it.start ∧ (it.lastLine, it.lastCol) = P (textStart pre) ∧ TracePos P (pre ++ [it]) r

theorem TracePos_snoc (P : Nat → Int × Int) : ∀ (r pre : List Iter) (it : Iter), TracePos P pre r →
    (it.line, it.col) = P it.start → (it.lastLine, it.lastCol) = P (textStart (pre ++ r)) → TracePos P pre (r ++ [it])
  | [], pre, it, _, h1, h2 => by
    simp only [List.nil_append, TracePos, and_true]
    exact ⟨h1, by simpa using h2⟩
  | a :: r, pre, it, h, h1, h2 => by
    obtain ⟨g1, g2, g3⟩ := h
    refine ⟨g1, g2, ?_⟩
    exact TracePos_snoc P r (pre ++ [a]) it g3 h1 (by simpa using h2)

theorem textStart_snoc (tr : List Iter) (it : Iter) :
    textStart (tr ++ [it]) = if it.changed then it.newIndex else textStart tr := by
  unfold textStart; rw [List.foldl_append]; rfl

theorem loop_pos {T : Table} {env : Env} {src : Str} {sp0 : Option (List Str)} (hT : TableOK T src)
    (hrec : truthy env.recomb = true → env.isSetext = true) (hP : PosContract T env src sp0) :
    ∀ (fuel : Nat) (st : St) (tr : List Iter) (st' : St) (tr' : List Iter), Inv T env src st → PosInv env src sp0 st →
      TracePos (envPos env src sp0) [] tr → (st.lastLine, st.lastCol) = envPos env src sp0 (textStart tr) →
      loop T env src fuel st tr = .ok (st', tr') →
      PosInv env src sp0 st' ∧ TracePos (envPos env src sp0) [] tr' ∧
        (st'.lastLine, st'.lastCol) = envPos env src sp0 (textStart tr')
  | 0, st, tr, st', tr', hI, hPI, hTP, hL, hl => by
    rw [loop.eq_1] at hl
    split at hl
    · injection hl with hl; injection hl with h1 h2; subst h1; subst h2; exact ⟨hPI, hTP, hL⟩
    · cases hl
  | fuel + 1, st, tr, st', tr', hI, hPI, hTP, hL, hl => by
    rw [loop.eq_2] at hl
    split at hl
    · injection hl with hl; injection hl with h1 h2; subst h1; subst h2; exact ⟨hPI, hTP, hL⟩
    · next next hn =>
      cases hs : step T env src st next with
      | error e => rw [hs] at hl; cases hl
      | ok p =>
        obtain ⟨st1, it⟩ := p
        rw [hs] at hl; simp only at hl
        have hPI1 := step_pos hT hP hI hn hPI hs
        have hI1 : Inv T env src st1 := by
          rcases step_ok hT hrec hI hn with ⟨st2, it2, hs2, hF⟩ | ⟨_, _, _, _, _, _, h4⟩
          · rw [hs] at hs2; injection hs2 with hs2; injection hs2 with h1 _; subst h1; exact hF.inv
          · rw [hs] at h4; cases h4
        obtain ⟨i1, _, i3, i4, i5, i6, i7, l1, l2⟩ := step_iter_facts hs
        have hpos : (it.line, it.col) = envPos env src sp0 it.start := by
          rw [i4, i5, i1, envPos_eq, hPI.line, hPI.col]
        have hTP1 : TracePos (envPos env src sp0) [] (tr ++ [it]) :=
          TracePos_snoc _ tr [] it hTP hpos (by rw [i6, i7]; simpa using hL)
        have hL1 : (st1.lastLine, st1.lastCol) = envPos env src sp0 (textStart (tr ++ [it])) := by
          rw [textStart_snoc, l1, l2]
          by_cases hc : it.changed = true
          · simp only [hc, ↓reduceIte]; rw [i3, envPos_eq, hPI1.line, hPI1.col]
          · simp only [hc, Bool.false_eq_true, ↓reduceIte]; exact hL
        exact loop_pos hT hrec hP fuel st1 (tr ++ [it]) st' tr' hI1 hPI1 hTP1 hL1 hl

theorem TracePos_split (P : Nat → Int × Int) : ∀ (tr pre0 a : List Iter) (it : Iter) (b : List Iter), TracePos P pre0 tr →
    tr = a ++ it :: b → (it.line, it.col) = P it.start ∧ (it.lastLine, it.lastCol) = P (textStart (pre0 ++ a))
  | [], _, a, it, b, _, h => by cases a <;> cases h
  | x :: r, pre0, [], it, b, h, he => by
    simp only [List.nil_append, List.cons.injEq] at he
    obtain ⟨h1, h2, _⟩ := h
    rw [← he.1]; exact ⟨h1, by simpa using h2⟩
  | x :: r, pre0, y :: a, it, b, h, he => by
    simp only [List.cons_append, List.cons.injEq] at he
    obtain ⟨_, _, h3⟩ := h
    have := TracePos_split P r (pre0 ++ [x]) a it b h3 he.2
    rw [← he.1]; simpa using this

theorem Chain_split {src starts : Str} : ∀ (tr : List Iter) (s e : Nat) (a : List Iter) (it : Iter) (b : List Iter),
    Chain src starts s tr e → tr = a ++ it :: b →
    it.start ≤ it.next ∧ it.next < it.newIndex ∧ src[it.next]? = some it.ch ∧ ∀ c ∈ slice src it.start it.next, starts.contains c = false
  | [], _, _, a, it, b, _, h => by cases a <;> cases h
  | x :: r, s, e, [], it, b, h, he => by
    simp only [List.nil_append, List.cons.injEq] at he
    obtain ⟨h1, h2, h3, h4, _, h6, _⟩ := h
    rw [← he.1, h1]; exact ⟨h2, h3, h4, h6⟩
  | x :: r, s, e, y :: a, it, b, h, he => by
    simp only [List.cons_append, List.cons.injEq] at he
    obtain ⟨_, _, _, _, _, _, h7⟩ := h
    exact Chain_split r _ e a it b h7 he.2

/-- on the way from the start of a turn to the handled character there is no line break: the position of that character -/
theorem envPos_next (env : Env) (src : Str) (sp0 : Option (List Str)) {a b : Nat} (h : a ≤ b) (hb : b ≤ src.length)
    (hn : NL ∉ slice src a b) :
    envPos env src sp0 b = ((envPos env src sp0 a).1, (envPos env src sp0 a).2 + ((b : Int) - (a : Int))) := by
  rw [envPos_eq, envPos_eq, wk_noNl env src sp0 h hb hn]; simp only
  congr 1; omega

/-! ## the positions of the tokens the loop itself creates -/

/-- `__create_new_text_token`: whatever it appends beside the handler's tokens is ONE text token at the last position -/
theorem cleanupCreate_blocks (st : St) (m : Mid) : ∀ t ∈ (cleanupCreate st m).blocks,
    t ∈ m.resp.blocks ∨ t ∈ m.resp.newTokens ∨ (t.isText = true ∧ t.line = st.lastLine ∧ t.col = st.lastCol) := by
  intro t ht
  unfold cleanupCreate at ht
  by_cases hc : m.resp.consumeRest = true
  · simp only [hc, ↓reduceIte, List.isEmpty_nil] at ht; exact Or.inl ht
  · simp only [hc, Bool.false_eq_true, ↓reduceIte] at ht
    split at ht
    · exact Or.inl ht
    · split at ht
      · simp only [List.append_assoc, List.cons_append, List.nil_append, List.mem_append, List.mem_cons] at ht
        rcases ht with ht | ht | ht
        · exact Or.inl ht
        · subst ht; exact Or.inr (Or.inr ⟨rfl, rfl, rfl⟩)
        · exact Or.inr (Or.inl ht)
      · split at ht
        · simp only [List.append_assoc, List.cons_append, List.nil_append, List.mem_append, List.mem_cons] at ht
          rcases ht with ht | ht | ht
          · exact Or.inl ht
          · subst ht; exact Or.inr (Or.inr ⟨rfl, rfl, rfl⟩)
          · exact Or.inr (Or.inl ht)
        · simp only [List.mem_append] at ht
          rcases ht with ht | ht
          · exact Or.inl ht
          · exact Or.inr (Or.inl ht)

/-- `__handle_line_end`: a hard break stands on the current line, at the first trailing space (`col + len(stripped text)`), or — the
backslash form — one column before the end of the pending text -/
theorem handleLineEnd_tokens (isSetext : Bool) (blocks : List Tok) (remaining : Str) (endStr : Option Str) (cur : Str)
    (line col : Int) : ∀ t ∈ (handleLineEnd isSetext blocks remaining endStr cur line col).newTokens,
    t.isHardBreak = true ∧ t.line = line ∧
      ((2 ≤ (stripEnd remaining).2.length ∧ t.col = col + ((stripEnd remaining).1.length : Int)) ∨
       ((stripEnd remaining).2.length = 0 ∧ t.col = col + ((stripEnd remaining).1.length : Int) - 1)) := by
  intro t ht
  unfold handleLineEnd at ht
  by_cases h1 : isProperHardBreak cur (stripEnd remaining).2.length = true
  · simp only [h1, ↓reduceIte, List.mem_singleton] at ht
    subst ht
    refine ⟨rfl, rfl, Or.inr ⟨?_, rfl⟩⟩
    unfold isProperHardBreak at h1
    simp only [Bool.and_eq_true, beq_iff_eq] at h1
    exact h1.1.1
  · by_cases h2 : (stripEnd remaining).2.length ≥ 2
    · simp only [h1, Bool.false_eq_true, ↓reduceIte, h2, List.mem_singleton] at ht
      subst ht; exact ⟨rfl, rfl, Or.inl ⟨h2, rfl⟩⟩
    · simp only [h1, Bool.false_eq_true, ↓reduceIte, h2] at ht; cases ht

/-- `__complete_inline_block_processing`: the final text token, if any, is appended at the last position -/
theorem complete_blocks (env : Env) (src : Str) (st : St) : ∀ t ∈ complete env src st,
    t ∈ st.blocks ∨ (t.isText = true ∧ t.line = st.lastLine ∧ t.col = st.lastCol) := by
  intro t ht
  have key : ∀ (x : Tok) (c : Str) (w : Str) (e : Option Str), t ∈ st.blocks ++ [Tok.text c w e st.lastLine st.lastCol] →
      t ∈ st.blocks ∨ (t.isText = true ∧ t.line = st.lastLine ∧ t.col = st.lastCol) := by
    intro _ c w e h
    simp only [List.mem_append, List.mem_singleton] at h
    rcases h with h | h
    · exact Or.inl h
    · subst h; exact Or.inr ⟨rfl, rfl, rfl⟩
  unfold complete at ht
  simp only at ht
  by_cases h1 : (!(if st.start < src.length then appendText st.cur (src.drop st.start) else st.cur).isEmpty ||
      !(!st.blocks.isEmpty || st.start != 0)) = true
  · rw [if_pos h1] at ht
    repeat' split at ht
    all_goals exact key t _ _ _ ht
  · rw [if_neg h1] at ht; exact Or.inl ht

/-! ## the call -/

theorem initSt_posInv (T : Table) (env : Env) (src : Str) (sp0 : Option (List Str)) : PosInv env src sp0 (initSt T env src sp0) := by
  have h0 : wk env src sp0 0 = (0, env.col) := by simp [wk, walk]
  refine ⟨?_, ?_, ?_, ?_⟩
  · show env.line = _; rw [show (initSt T env src sp0).start = 0 from rfl, h0]; simp
  · show env.col = _; rw [show (initSt T env src sp0).start = 0 from rfl, h0]
  · intro b hb; rw [show (initSt T env src sp0).start = 0 from rfl, h0]; simp [initSt, hb]
  · rw [show (initSt T env src sp0).start = 0 from rfl, h0]
    show sp0 = _
    cases sp0 <;> simp

/-- the positions of a whole call: every turn, and the last position when the loop ends -/
theorem run_pos {T : Table} {env : Env} {src : Str} {sp0 : Option (List Str)} (hE : envOK env = true)
    (hp : prepare env = .ok (src, sp0)) (hT : TableOK T src) (hP : PosContract T env src sp0) {r : Result}
    (hr : run T env = .ok r) :
    r.src = src ∧ TracePos (envPos env src sp0) [] r.trace ∧
      (r.lastLine, r.lastCol) = envPos env src sp0 (textStart r.trace) ∧ ∃ e, Chain src T.starts 0 r.trace e := by
  obtain ⟨src', sp', hp', h1, h2, h3⟩ := envOK_facts hE
  rw [hp] at hp'; injection hp' with hp'; injection hp' with e1 e2; subst e1; subst e2
  have hI := initSt_inv (T := T) (env := env) h2 h3
  have hm : measure src (initSt T env src sp0) ≤ src.length + 1 := by unfold measure; split <;> omega
  unfold run runFuel fuelOf at hr
  simp only [hp] at hr
  cases hl : loop T env src (src.length + 1) (initSt T env src sp0) [] with
  | error e => rw [hl] at hr; cases hr
  | ok p =>
    obtain ⟨st', tr'⟩ := p
    rw [hl] at hr; simp only at hr
    injection hr with hr; subst hr
    obtain ⟨_, hTP, hL⟩ := loop_pos hT h1 hP _ _ _ _ _ hI (initSt_posInv T env src sp0) (by simp [TracePos])
      (by simp [textStart, initSt, envPos_eq, wk, walk]) hl
    refine ⟨rfl, hTP, hL, ?_⟩
    rcases loop_ok hT h1 0 (src.length + 1) (initSt T env src sp0) [] hI hm (by simp [Chain, initSt]) with
      ⟨st2, tr2, hl2, _, _, hC⟩ | ⟨_, _, _, _, _, _, _, _, g5⟩
    · rw [hl] at hl2; injection hl2 with hl2; injection hl2 with a1 a2; subst a1; subst a2; exact ⟨_, hC⟩
    · rw [hl] at g5; cases g5

end Verif.Model.InlineLoop
