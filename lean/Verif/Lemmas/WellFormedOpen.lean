/-
  C04 helper: after any accepted prefix the automaton's stack is exactly the list of still-open starts.
-/
import Verif.Lemmas.WellFormed
namespace Verif.Lemmas.WellFormed
open Verif.Model.WellFormed

def openPred (pre : List Tok) (x : Tok × Nat) : Bool := x.1.kind == .start && !closedIn pre x.2

def rawOpen (pre : List Tok) : List (Tok × Nat) := pre.zipIdx.filter (openPred pre)

def sw (x : Tok × Nat) : Nat × Tok := (x.2, x.1)

theorem openStarts_eq (pre : List Tok) : openStarts pre = (rawOpen pre).map sw := rfl

theorem zipIdx_pairwise : ∀ (l : List Tok) (k : Nat), List.Pairwise (fun a b => a.2 < b.2) (l.zipIdx k)
  | [], k => by simp
  | x :: l, k => by
    rw [List.zipIdx_cons, List.pairwise_cons]
    refine ⟨?_, zipIdx_pairwise l (k + 1)⟩
    intro b hb
    obtain ⟨t, i⟩ := b
    have := List.mem_zipIdx hb
    simp only; omega

theorem rawOpen_pairwise (pre : List Tok) : List.Pairwise (fun a b => a.2 < b.2) (rawOpen pre) :=
  List.Pairwise.filter _ (zipIdx_pairwise pre 0)

theorem rawOpen_lt {pre : List Tok} {x : Tok × Nat} (h : x ∈ rawOpen pre) : x.2 < pre.length := by
  obtain ⟨t, i⟩ := x
  have h' := (List.mem_filter.mp h).1
  have := List.mem_zipIdx h'
  simp only; omega

/-- every end token of the prefix points strictly backwards -/
def Back (done : List Tok) : Prop := ∀ e ∈ done, ∀ p, e.kind = .end_ p → p < done.length

theorem closedIn_snoc (done : List Tok) (t : Tok) (i : Nat) :
    closedIn (done ++ [t]) i = (closedIn done i || t.kind == .end_ i) := by
  simp [closedIn, List.any_append]

theorem closedIn_len {done : List Tok} (hb : Back done) : closedIn done done.length = false := by
  simp only [closedIn, List.any_eq_false, beq_iff_eq]
  intro e he hk
  have := hb e he _ hk
  omega

theorem rawOpen_snoc_noend {done : List Tok} {t : Tok} (hb : Back done) (hne : ∀ p, t.kind ≠ .end_ p) :
    rawOpen (done ++ [t]) = rawOpen done ++ (if t.kind = .start then [(t, done.length)] else []) := by
  unfold rawOpen
  rw [List.zipIdx_append, List.filter_append]
  congr 1
  · apply List.filter_congr
    intro x _
    simp only [openPred, closedIn_snoc]
    have : (t.kind == Kind.end_ x.2) = false := by
      simp only [beq_eq_false_iff_ne, ne_eq]; exact hne _
    simp [this]
  · simp only [List.zipIdx_cons, List.zipIdx_nil, Nat.zero_add, List.filter_cons, List.filter_nil, openPred,
      closedIn_snoc, closedIn_len hb]
    have : (t.kind == Kind.end_ done.length) = false := by
      simp only [beq_eq_false_iff_ne, ne_eq]; exact hne _
    by_cases hs : t.kind = .start <;> simp [hs, this]

theorem rawOpen_snoc_end {done : List Tok} {t : Tok} {j : Nat} (hk : t.kind = .end_ j) :
    rawOpen (done ++ [t]) = (rawOpen done).filter (fun x => x.2 != j) := by
  unfold rawOpen
  rw [List.zipIdx_append, List.filter_append, List.filter_filter]
  have e2 : List.filter (openPred (done ++ [t])) ([t].zipIdx (0 + done.length)) = [] := by
    simp [openPred, hk]
  rw [e2, List.append_nil]
  apply List.filter_congr
  intro x _
  simp only [openPred, closedIn_snoc, hk]
  have : (Kind.end_ j == Kind.end_ x.2) = (x.2 == j) := by
    rw [Bool.eq_iff_iff]; simp only [beq_iff_eq, Kind.end_.injEq]; exact eq_comm
  rw [this]
  by_cases h3 : x.2 = j
  · simp [h3]
  · have h4 : (x.2 == j) = false := by simp [h3]
    simp [h4, bne]

/-- the invariant: stack = still-open starts (innermost first), ends point backwards -/
def OpenInv (done : List Tok) (st : Stack) : Prop := st = (openStarts done).reverse ∧ Back done

theorem openInv_nil : OpenInv [] [] := by
  refine ⟨by simp [openStarts], ?_⟩
  intro e he; simp at he

theorem openInv_step {P : Spec} (hE : ∀ j s e, P.endOK j s e = true → e.kind = .end_ j)
    {done : List Tok} {st st' : Stack} {t : Tok}
    (hinv : OpenInv done st) (hs : gStep P st done.length t = some st') : OpenInv (done ++ [t]) st' := by
  obtain ⟨hst, hb⟩ := hinv
  unfold gStep at hs
  split at hs
  · -- atom
    rename_i hk
    split at hs
    · simp only [Option.some.injEq] at hs; subst hs
      refine ⟨?_, ?_⟩
      · rw [hst, openStarts_eq, openStarts_eq, rawOpen_snoc_noend hb (by simp [hk])]
        simp [hk]
      · intro e he p hp
        rw [List.mem_append] at he
        rcases he with he | he
        · have := hb e he p hp; simp only [List.length_append, List.length_cons, List.length_nil]; omega
        · simp only [List.mem_singleton] at he; subst he; rw [hk] at hp; cases hp
    · simp at hs
  · -- start
    rename_i hk
    split at hs
    · simp only [Option.some.injEq] at hs; subst hs
      refine ⟨?_, ?_⟩
      · rw [hst, openStarts_eq, openStarts_eq, rawOpen_snoc_noend hb (by simp [hk])]
        simp [hk, sw]
      · intro e he p hp
        rw [List.mem_append] at he
        rcases he with he | he
        · have := hb e he p hp; simp only [List.length_append, List.length_cons, List.length_nil]; omega
        · simp only [List.mem_singleton] at he; subst he; rw [hk] at hp; cases hp
    · simp at hs
  · -- end
    rename_i p hk
    split at hs
    · simp at hs
    · rename_i j s r
      split at hs
      · rename_i hend
        simp only [Option.some.injEq] at hs; subst hs
        have hkj := hE j s t hend
        -- decompose the open list
        rw [openStarts_eq] at hst
        have hmap : (rawOpen done).map sw = r.reverse ++ [(j, s)] := by
          have := congrArg List.reverse hst
          simpa using this.symm
        obtain ⟨A, B, hAB, hA, hB⟩ := List.map_eq_append_iff.mp hmap
        obtain ⟨b, rfl, hb1⟩ : ∃ b, B = [b] ∧ sw b = (j, s) := by
          cases B with
          | nil => simp at hB
          | cons b B' =>
            cases B' with
            | nil => simp only [List.map_cons, List.map_nil, List.cons.injEq, and_true] at hB; exact ⟨b, rfl, hB⟩
            | cons c C => simp at hB
        have hbj : b.2 = j := by
          have := congrArg Prod.fst hb1; simpa [sw] using this
        have hpw := rawOpen_pairwise done
        rw [hAB, List.pairwise_append] at hpw
        have hAne : ∀ a ∈ A, (a.2 != j) = true := by
          intro a ha
          have := hpw.2.2 a ha b (by simp)
          simp only [bne_iff_ne, ne_eq]; omega
        refine ⟨?_, ?_⟩
        · rw [openStarts_eq, rawOpen_snoc_end hkj, hAB, List.filter_append,
            List.filter_eq_self.mpr hAne]
          have : List.filter (fun x => x.2 != j) [b] = [] := by simp [hbj]
          rw [this, List.append_nil, hA, List.reverse_reverse]
        · intro e he q hq
          rw [List.mem_append] at he
          rcases he with he | he
          · have := hb e he q hq; simp only [List.length_append, List.length_cons, List.length_nil]; omega
          · simp only [List.mem_singleton] at he; subst he
            rw [hkj] at hq; injection hq with hq; subst hq
            have hmem : b ∈ rawOpen done := by rw [hAB]; simp
            have := rawOpen_lt hmem
            simp only [List.length_append, List.length_cons, List.length_nil]; omega
      · simp at hs

theorem openInv_run {P : Spec} (hE : ∀ j s e, P.endOK j s e = true → e.kind = .end_ j) :
    ∀ (ts done : List Tok) (st fin : Stack), OpenInv done st →
      gRun P st done.length ts = some fin → OpenInv (done ++ ts) fin
  | [], done, st, fin, hinv, h => by
    simp only [gRun, Option.some.injEq] at h; subst h; simpa using hinv
  | t :: ts, done, st, fin, hinv, h => by
    simp only [gRun] at h
    cases hs : gStep P st done.length t with
    | none => simp [hs] at h
    | some st' =>
      simp only [hs, Option.bind_some] at h
      have h1 := openInv_step hE hinv hs
      have h2 := openInv_run hE ts (done ++ [t]) st' fin h1 (by simpa using h)
      simpa using h2

theorem wfSpec_end (j : Nat) (s e : Tok) (h : wfSpec.endOK j s e = true) : e.kind = .end_ j := by
  simp only [wfSpec, Spec.and, balSpec, clsSpec, Bool.and_true, Bool.and_eq_true, beq_iff_eq] at h
  exact h.1

end Verif.Lemmas.WellFormed
