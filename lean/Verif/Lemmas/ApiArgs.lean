/-
  Closed forms of `parseArgs (apiArgs c act)` and `parseArgs (cliArgs c act)`, and the
  equivalence of the rule-identifier sets they denote.
-/
import Verif.Model.Lines
import Verif.Lemmas.Lines
namespace Verif.Lemmas.ApiArgs
open Verif.Model.Lines Verif.Lemmas.Lines

/-- Values that argparse accepts as option values / sub-command. -/
structure ValuesOK (c : ApiCfg) (act : Str) : Prop where
  sets : ∀ v ∈ c.sets, looksLikeOption v = false
  plugins : ∀ v ∈ c.pluginPaths, looksLikeOption v = false
  config : ∀ v, truthy c.config = some v → looksLikeOption v = false
  logFile : ∀ v, truthy c.logFile = some v → looksLikeOption v = false
  logLevel : c.inheritLogging = false → c.logLevel ∈ logLevels
  act : looksLikeOption act = false

/-- … and, for the hand-typed command line, the comma-joined lists must not look like options. -/
structure CliOK (c : ApiCfg) : Prop where
  enable : looksLikeOption (joinOn ',' c.enable) = false
  disable : looksLikeOption (joinOn ',' c.disable) = false

def apiParsed (c : ApiCfg) (act : Str) : Parsed :=
  { enable := if c.enable = [] then [] else commaPrefixed c.enable
    disable := if c.disable = [] then [] else commaPrefixed c.disable
    addPlugin := c.pluginPaths
    config := truthy c.config
    sets := c.sets
    strict := c.strict
    stackTrace := c.stackTrace
    continueOnError := false
    logLevel := if c.inheritLogging then none else some c.logLevel
    logFile := if c.inheritLogging then none else truthy c.logFile
    sub := act
    rest := [] }

def cliParsed (c : ApiCfg) (act : Str) : Parsed :=
  { apiParsed c act with
    enable := if c.enable = [] then [] else joinOn ',' c.enable
    disable := if c.disable = [] then [] else joinOn ',' c.disable }

theorem valOpt_looksLikeOption (t : Str) (o : ValOpt) (h : valOpt t = some o) : looksLikeOption t = true := by
  unfold valOpt at h
  repeat' split at h
  all_goals first
    | (rename_i h'; rcases h' with h' | h' <;> subst h' <;> decide)
    | (rename_i h'; subst h'; decide)
    | cases h

theorem parseFrom_val (p : Parsed) (t v : Str) (ts : List Str) (o : ValOpt) (p' : Parsed)
    (ht : valOpt t = some o) (hv : looksLikeOption v = false) (ha : applyVal p o v = .ok p') :
    parseFrom p (t :: v :: ts) = parseFrom p' ts := by
  rw [parseFrom]; simp [ht, hv, ha]

theorem parseFrom_sub (p : Parsed) (act : Str) (h : looksLikeOption act = false) :
    parseFrom p [act] = .ok { p with sub := act, rest := [] } := by
  have hv : valOpt act = none := by
    cases hh : valOpt act with
    | none => rfl
    | some o => rw [valOpt_looksLikeOption act o hh] at h; cases h
  have h1 : act ≠ lit "--strict-config" := by intro e; subst e; revert h; decide
  have h2 : act ≠ lit "--stack-trace" := by intro e; subst e; revert h; decide
  have h3 : act ≠ lit "--continue-on-error" := by intro e; subst e; revert h; decide
  rw [parseFrom]; simp [hv, h1, h2, h3, h]

theorem parseFrom_strict (p : Parsed) (b : Bool) (ts : List Str) :
    parseFrom p (flagArg (lit "--strict-config") b ++ ts) = parseFrom { p with strict := p.strict || b } ts := by
  have : valOpt (lit "--strict-config") = none := by decide
  cases b
  · simp [flagArg]
  · simp only [flagArg, ↓reduceIte, List.cons_append, List.nil_append]
    rw [parseFrom]; simp [this]

theorem parseFrom_stack (p : Parsed) (b : Bool) (ts : List Str) :
    parseFrom p (flagArg (lit "--stack-trace") b ++ ts) = parseFrom { p with stackTrace := p.stackTrace || b } ts := by
  have : valOpt (lit "--stack-trace") = none := by decide
  have h : lit "--stack-trace" ≠ lit "--strict-config" := by decide
  cases b
  · simp [flagArg]
  · simp only [flagArg, ↓reduceIte, List.cons_append, List.nil_append]
    rw [parseFrom]; simp [this, h]

/-- an optional single-valued option -/
theorem parseFrom_optArg (p : Parsed) (t : Str) (o : ValOpt) (ov : Option Str) (ts : List Str)
    (upd : Parsed → Str → Parsed)
    (ht : valOpt t = some o) (hv : ∀ v, ov = some v → looksLikeOption v = false)
    (ha : ∀ v, ov = some v → applyVal p o v = .ok (upd p v)) :
    parseFrom p (optArg t ov ++ ts) = parseFrom ((ov.map (upd p)).getD p) ts := by
  cases ov with
  | none => simp [optArg]
  | some v =>
    simp only [optArg, List.cons_append, List.nil_append, Option.map_some, Option.getD_some]
    exact parseFrom_val p t v ts o _ ht (hv v rfl) (ha v rfl)

/-- a repeated (append) option -/
theorem parseFrom_listArg (p : Parsed) (t : Str) (o : ValOpt) (vs : List Str) (rest : List Str)
    (upd : Parsed → List Str → Parsed)
    (ht : valOpt t = some o) (hv : ∀ v ∈ vs, looksLikeOption v = false)
    (hupd0 : ∀ q, upd q [] = q)
    (hupd : ∀ q v vs, applyVal q o v = .ok (upd q [v]) ∧ upd (upd q [v]) vs = upd q (v :: vs)) :
    parseFrom p (listArg t vs ++ rest) = parseFrom (upd p vs) rest := by
  unfold listArg
  induction vs generalizing p with
  | nil => simp [hupd0]
  | cons v vs ih =>
    simp only [List.map_cons, List.flatten_cons, List.cons_append, List.nil_append]
    rw [parseFrom_val p t v _ o _ ht (hv v (by simp)) (hupd p v vs).1]
    rw [ih _ (fun x hx => hv x (by simp [hx])), (hupd p v vs).2]

theorem parseFrom_sets (p : Parsed) (t : Str) (vs rest : List Str) (ht : valOpt t = some .set)
    (hv : ∀ v ∈ vs, looksLikeOption v = false) :
    parseFrom p (listArg t vs ++ rest) = parseFrom { p with sets := p.sets ++ vs } rest :=
  parseFrom_listArg p t .set vs rest (fun q vs => { q with sets := q.sets ++ vs }) ht hv
    (by intro q; simp) (by intro q v vs; simp [applyVal])

theorem parseFrom_plugins (p : Parsed) (vs rest : List Str)
    (hv : ∀ v ∈ vs, looksLikeOption v = false) :
    parseFrom p (listArg (lit "--add-plugin") vs ++ rest) =
      parseFrom { p with addPlugin := p.addPlugin ++ vs } rest :=
  parseFrom_listArg p _ .addPlugin vs rest (fun q vs => { q with addPlugin := q.addPlugin ++ vs }) (by decide) hv
    (by intro q; simp) (by intro q v vs; simp [applyVal])

theorem parseFrom_enable (p : Parsed) (t : Str) (join : List Str → Str) (ids ts : List Str)
    (ht : valOpt t = some .enable) (hv : ids ≠ [] → looksLikeOption (join ids) = false) :
    parseFrom p (idsArg t join ids ++ ts) = parseFrom { p with enable := if ids = [] then p.enable else join ids } ts := by
  by_cases hi : ids = []
  · simp [idsArg, hi]
  · simp only [idsArg, hi, ↓reduceIte, List.cons_append, List.nil_append]
    exact parseFrom_val p t _ ts .enable _ ht (hv hi) (by simp [applyVal])

theorem parseFrom_disable (p : Parsed) (t : Str) (join : List Str → Str) (ids ts : List Str)
    (ht : valOpt t = some .disable) (hv : ids ≠ [] → looksLikeOption (join ids) = false) :
    parseFrom p (idsArg t join ids ++ ts) = parseFrom { p with disable := if ids = [] then p.disable else join ids } ts := by
  by_cases hi : ids = []
  · simp [idsArg, hi]
  · simp only [idsArg, hi, ↓reduceIte, List.cons_append, List.nil_append]
    exact parseFrom_val p t _ ts .disable _ ht (hv hi) (by simp [applyVal])

theorem parseFrom_config (p : Parsed) (t : Str) (ov : Option Str) (ts : List Str)
    (ht : valOpt t = some .config) (hv : ∀ v, ov = some v → looksLikeOption v = false) :
    parseFrom p (optArg t ov ++ ts) = parseFrom { p with config := (ov.map some).getD p.config } ts := by
  rw [parseFrom_optArg p t .config ov ts (fun q v => { q with config := some v }) ht hv (by intro v _; simp [applyVal])]
  cases ov <;> rfl

theorem parseFrom_logFile (p : Parsed) (ov : Option Str) (ts : List Str)
    (hv : ∀ v, ov = some v → looksLikeOption v = false) :
    parseFrom p (optArg (lit "--log-file") ov ++ ts) = parseFrom { p with logFile := (ov.map some).getD p.logFile } ts := by
  rw [parseFrom_optArg p _ .logFile ov ts (fun q v => { q with logFile := some v }) (by decide) hv (by intro v _; simp [applyVal])]
  cases ov <;> rfl

theorem logLevel_not_option (v : Str) (h : v ∈ logLevels) : looksLikeOption v = false := by
  revert h; simp [logLevels]; rintro (h|h|h|h|h) <;> subst h <;> decide

theorem parseFrom_logLevel (p : Parsed) (v : Str) (ts : List Str) (h : v ∈ logLevels) :
    parseFrom p (lit "--log-level" :: v :: ts) = parseFrom { p with logLevel := some v } ts :=
  parseFrom_val p _ v ts .logLevel _ (by decide) (logLevel_not_option v h) (by simp [applyVal, h])

theorem looksLikeOption_commaPrefixed (ids : List Str) (h : ids ≠ []) :
    looksLikeOption (commaPrefixed ids) = false := by
  cases ids with
  | nil => exact absurd rfl h
  | cons i is => simp [commaPrefixed, looksLikeOption]

theorem parse_apiArgs (c : ApiCfg) (act : Str) (h : ValuesOK c act) :
    parseArgs (apiArgs c act) = .ok (apiParsed c act) := by
  obtain ⟨inh, lvl, lf, st, strict, plug, cfg, en, dis, sets⟩ := c
  have hsets := h.sets; have hplug := h.plugins; have hcfg := h.config
  have hlf := h.logFile; have hlvl := h.logLevel; have hact := h.act
  simp only at hsets hplug hcfg hlf hlvl
  unfold parseArgs apiArgs
  simp only [List.append_assoc]
  rw [parseFrom_stack, parseFrom_strict]
  have e3 : ∀ (p : Parsed) (ts : List Str),
      parseFrom p (logArgs ⟨inh, lvl, lf, st, strict, plug, cfg, en, dis, sets⟩ ++ ts)
        = parseFrom { p with logFile := if inh then p.logFile else ((truthy lf).map some).getD p.logFile,
                             logLevel := if inh then p.logLevel else some lvl } ts := by
    intro p ts
    cases inh with
    | true => simp [logArgs]
    | false =>
      simp only [logArgs, Bool.false_eq_true, ↓reduceIte, List.append_assoc, List.cons_append, List.nil_append]
      rw [parseFrom_logFile _ _ _ hlf, parseFrom_logLevel _ _ _ (hlvl rfl)]
  rw [e3, parseFrom_config _ _ _ _ (by decide) hcfg, parseFrom_sets _ _ _ _ (by decide) hsets,
    parseFrom_plugins _ _ _ hplug,
    parseFrom_enable _ _ _ _ _ (by decide) (looksLikeOption_commaPrefixed en),
    parseFrom_disable _ _ _ _ _ (by decide) (looksLikeOption_commaPrefixed dis),
    parseFrom_sub _ _ hact]
  simp only [apiParsed, Parsed.empty]
  cases inh <;> cases truthy lf <;> cases truthy cfg <;> simp

theorem parse_cliArgs (c : ApiCfg) (act : Str) (h : ValuesOK c act) (hc : CliOK c) :
    parseArgs (cliArgs c act) = .ok (cliParsed c act) := by
  obtain ⟨inh, lvl, lf, st, strict, plug, cfg, en, dis, sets⟩ := c
  have hsets := h.sets; have hplug := h.plugins; have hcfg := h.config
  have hlf := h.logFile; have hlvl := h.logLevel; have hact := h.act
  have hen := hc.enable; have hdis := hc.disable
  simp only at hsets hplug hcfg hlf hlvl hen hdis
  unfold parseArgs cliArgs
  simp only [List.append_assoc]
  rw [parseFrom_config _ _ _ _ (by decide) hcfg,
    parseFrom_disable _ _ _ _ _ (by decide) (fun _ => hdis),
    parseFrom_enable _ _ _ _ _ (by decide) (fun _ => hen),
    parseFrom_strict, parseFrom_plugins _ _ _ hplug, parseFrom_sets _ _ _ _ (by decide) hsets]
  have e3 : ∀ (p : Parsed) (ts : List Str),
      parseFrom p ((if inh = true then [] else [lit "--log-level", lvl] ++ optArg (lit "--log-file") (truthy lf)) ++ ts)
        = parseFrom { p with logFile := if inh then p.logFile else ((truthy lf).map some).getD p.logFile,
                             logLevel := if inh then p.logLevel else some lvl } ts := by
    intro p ts
    cases inh with
    | true => simp
    | false =>
      simp only [Bool.false_eq_true, ↓reduceIte, List.cons_append, List.nil_append]
      rw [parseFrom_logLevel _ _ _ (hlvl rfl), parseFrom_logFile _ _ _ hlf]
  rw [e3, parseFrom_stack, parseFrom_sub _ _ hact]
  simp only [cliParsed, apiParsed, Parsed.empty]
  cases inh <;> cases truthy lf <;> cases truthy cfg <;> simp

/-! ### identifier sets -/

theorem commaPrefixed_eq (ids : List Str) (h : ids ≠ []) : commaPrefixed ids = ',' :: joinOn ',' ids := by
  induction ids with
  | nil => exact absurd rfl h
  | cons i is ih =>
    cases is with
    | nil => simp [commaPrefixed, joinOn]
    | cons j js =>
      have := ih (by simp)
      simp only [commaPrefixed, List.map_cons, List.flatten_cons] at this ⊢
      rw [joinOn_cons_cons, this]; simp

theorem strip_nil : strip [] = [] := rfl

/-- API form `,a,b` and CLI form `a,b` denote the same set of non-empty identifiers. -/
theorem mem_idSet_comma (v i : Str) (hi : i ≠ []) : i ∈ idSet (',' :: v) ↔ i ∈ idSet v := by
  have hl : lowerAscii (',' :: v) = ',' :: lowerAscii v := by simp [lowerAscii]
  unfold idSet
  simp only [List.cons_ne_nil, ↓reduceIte, hl, splitOn_cons_sep, List.map_cons, strip_nil, List.mem_cons]
  by_cases hv : v = []
  · subst hv; simp [lowerAscii, splitOn, splitAux, strip_nil, hi]
  · simp [hv, hi]

theorem cmdLineState_eq (ids e d : List Str) : cmdLineState ids e d =
    if lit "*" ∈ d ∨ (∃ i ∈ ids, i ∈ d) then some false
    else if (∃ i ∈ ids, i ∈ e) then some true else none := by
  unfold cmdLineState
  by_cases hd : d = []
  · subst hd
    by_cases he : e = []
    · subst he; simp
    · simp [he]
  · by_cases hs : lit "*" ∈ d
    · simp [hd, hs]
    · by_cases ha : ∃ i ∈ ids, i ∈ d
      · have : ids.any (fun i => decide (i ∈ d)) = true := by simpa using ha
        simp [hd, hs, this, ha]
      · have : ids.any (fun i => decide (i ∈ d)) = false := by simpa using ha
        simp only [hd, hs, this, ha, ↓reduceIte, or_self, Bool.false_eq_true]
        by_cases he : e = []
        · subst he; simp
        · simp [he]

/-- `cmdLineState` depends only on which non-empty identifiers are in the two sets. -/
theorem cmdLineState_congr (ids e₁ e₂ d₁ d₂ : List Str) (hids : [] ∉ ids)
    (he : ∀ i, i ≠ [] → (i ∈ e₁ ↔ i ∈ e₂)) (hd : ∀ i, i ≠ [] → (i ∈ d₁ ↔ i ∈ d₂)) :
    cmdLineState ids e₁ d₁ = cmdLineState ids e₂ d₂ := by
  have hne : ∀ i ∈ ids, i ≠ [] := fun i hi e => hids (e ▸ hi)
  have hstar : lit "*" ∈ d₁ ↔ lit "*" ∈ d₂ := hd _ (by decide)
  have h1 : (∃ i ∈ ids, i ∈ d₁) ↔ (∃ i ∈ ids, i ∈ d₂) :=
    ⟨fun ⟨i, hi, h⟩ => ⟨i, hi, (hd i (hne i hi)).1 h⟩, fun ⟨i, hi, h⟩ => ⟨i, hi, (hd i (hne i hi)).2 h⟩⟩
  have h2 : (∃ i ∈ ids, i ∈ e₁) ↔ (∃ i ∈ ids, i ∈ e₂) :=
    ⟨fun ⟨i, hi, h⟩ => ⟨i, hi, (he i (hne i hi)).1 h⟩, fun ⟨i, hi, h⟩ => ⟨i, hi, (he i (hne i hi)).2 h⟩⟩
  rw [cmdLineState_eq, cmdLineState_eq]
  simp only [hstar, h1, h2]

/-- the value the API passes and the value typed on the command line select the same rules -/
theorem idSet_api_cli (ids : List Str) (i : Str) (hi : i ≠ []) :
    i ∈ idSet (if ids = [] then [] else commaPrefixed ids) ↔ i ∈ idSet (if ids = [] then [] else joinOn ',' ids) := by
  by_cases h : ids = []
  · simp [h]
  · simp only [h, ↓reduceIte]
    rw [commaPrefixed_eq ids h]
    exact mem_idSet_comma _ i hi

end Verif.Lemmas.ApiArgs
