/-
  Lemmas about `Verif.Model.LeafFields`: every field split is a partition of the line into consecutive slices.
-/
import Verif.Model.LeafFields
import Verif.Lemmas.RecogSpec
namespace Verif.Model.LeafFields
open Verif.Model.Recognisers

/-! ## slices -/

theorem take_append_slice (s : Str) (j e : Nat) (h : j ≤ e) : s.take j ++ slice s j e = s.take e := by
  unfold slice
  have : s.take j = (s.take e).take j := by rw [List.take_take]; congr 1; omega
  rw [this, List.take_append_drop]

theorem parts3 (s : Str) (i j : Nat) (h : i ≤ j) : s.take i ++ slice s i j ++ s.drop j = s := by
  rw [take_append_slice _ _ _ h, List.take_append_drop]

theorem slice_length (s : Str) (j e : Nat) (h : e ≤ s.length) : (slice s j e).length = e - j := by
  unfold slice; simp; omega

theorem slice_to_end (s : Str) (j : Nat) : slice s j s.length = s.drop j := by
  unfold slice; simp

theorem slice_take (s : Str) (j a pe : Nat) (h : a ≤ pe) : slice (s.take pe) j a = slice s j a := by
  unfold slice; rw [List.take_take]; congr 2; omega

theorem takeWhile_eq_replicate (l : Str) (c : Char) :
    l.takeWhile (· == c) = List.replicate (l.takeWhile (· == c)).length c := by
  apply List.eq_replicate_iff.mpr
  refine ⟨rfl, ?_⟩
  intro x hx
  have := takeWhile_all (· == c) l x hx
  simpa using this

/-! ## `extract_until_spaces` -/

theorem isNotWsAt_lt' {s : Str} {i : Nat} (h : i < s.length) : isNotWsAt s i = !(isWsChar s[i]) := by
  simp [isNotWsAt, List.getElem?_eq_getElem h]

theorem isNotWsAt_ge {s : Str} {i : Nat} (h : s.length ≤ i) : isNotWsAt s i = false := by
  simp [isNotWsAt, List.getElem?_eq_none h]

theorem scanNotWs_eq (s : Str) (i : Nat) : scanNotWs s i = scanTo s (fun d => !(isWsChar d)) i := by
  unfold scanTo
  fun_induction scanNotWs s i with
  | case1 i h ih =>
    have hl := isNotWsAt_lt h
    rw [ih, List.drop_eq_getElem_cons hl, List.takeWhile_cons]
    rw [isNotWsAt_lt' hl] at h
    rw [if_pos h, List.length_cons]; omega
  | case2 i h =>
    by_cases hl : i < s.length
    · rw [List.drop_eq_getElem_cons hl, List.takeWhile_cons]
      rw [isNotWsAt_lt' hl] at h
      rw [if_neg h]; rfl
    · rw [List.drop_eq_nil_of_le (by omega)]; simp

theorem extractUntilSpaces_eq (s : Str) (start : Nat) :
    extractUntilSpaces s start =
      if start ≤ s.length then
        some (scanTo s (fun d => !(isWsChar d)) start, slice s start (scanTo s (fun d => !(isWsChar d)) start))
      else none := by
  unfold extractUntilSpaces
  split
  · simp only [scanNotWs_eq]
  · rfl

/-! ## ATX -/

theorem extractSpacesFromEnd_snd (s : Str) :
    (extractSpacesFromEnd s none).2 = s.drop (extractSpacesFromEnd s none).1 := by
  unfold extractSpacesFromEnd
  split
  · next h =>
    have : s = [] := by simpa using h
    subst this; rfl
  · rfl

theorem atxHashLoop_spec (s : Str) (e cnt : Nat) (h : e ≤ s.length) :
    ∃ j, atxHashLoop s e cnt = .ok (j, cnt + (e - j)) ∧ j ≤ e ∧ (s.take e).drop j = List.replicate (e - j) '#' := by
  induction e generalizing cnt with
  | zero => exact ⟨0, rfl, Nat.le_refl _, by simp⟩
  | succ e ih =>
    have hl : e < s.length := by omega
    unfold atxHashLoop
    rw [charAt_lt hl]
    simp only
    split
    · next hc =>
      obtain ⟨j, hj, hle, hrep⟩ := ih (cnt + 1) (by omega)
      refine ⟨j, ?_, by omega, ?_⟩
      · rw [hj]
        have : cnt + 1 + (e - j) = cnt + (e + 1 - j) := by omega
        rw [this]
      · rw [List.take_succ_eq_append_getElem hl, List.drop_append_of_le_length (by simp; omega), hrep]
        have hce : s[e] = '#' := by simpa using hc
        have : e + 1 - j = (e - j) + 1 := by omega
        rw [hce, this, List.replicate_succ']
    · exact ⟨e + 1, by simp, Nat.le_refl _, by simp⟩

/-- the closing-sequence split loses nothing and duplicates nothing -/
theorem atxAdjust_reassemble (r : Str) (a : AtxAdjust) (h : atxAdjust r = .ok a) :
    a.remaining ++ a.wsBeforeEnd ++ List.replicate a.removeTrailing '#' ++ a.wsAtEnd = r := by
  unfold atxAdjust at h
  have hle := extractSpacesFromEnd_le r
  have hsnd := extractSpacesFromEnd_snd r
  generalize extractSpacesFromEnd r none = p at hle hsnd h
  obtain ⟨e0, w0⟩ := p
  simp only at hle hsnd h
  subst hsnd
  obtain ⟨j, hj, hje, hrep⟩ := atxHashLoop_spec r e0 0 hle
  rw [hj] at h
  simp only [Nat.zero_add] at h
  have hsplit : r = r.take j ++ (r.take e0).drop j ++ r.drop e0 := by
    have := slice_split r j e0 hje
    unfold slice at this; exact this
  split at h
  · split at h
    · next hpos =>
      split at h
      · have hlen : (List.take j r).length = j := by simp; omega
        have hcast : ((List.take j r).length : Int) - 1 = ((j - 1 : Nat) : Int) := by rw [hlen]; omega
        rw [hcast] at h
        obtain ⟨n, e2, hab, _⟩ := collectBackwardsSpacesVerified_ok (List.take j r) (j - 1) (by rw [hlen]; omega)
        rw [hab] at h
        simp only at h
        injection h with h
        subst h
        simp only [List.take_append_drop]
        rw [← hrep]
        exact hsplit.symm
      · injection h with h
        subst h
        simp
    · next hz =>
      have hj0 : j = 0 := by omega
      subst hj0
      injection h with h
      subst h
      simp only [List.nil_append, Nat.sub_zero]
      simp only [List.drop_zero, Nat.sub_zero] at hrep
      rw [← hrep, List.take_append_drop]
  · next hz =>
    have hje' : j = e0 := by omega
    subst hje'
    injection h with h
    subst h
    simp

/-- the four consecutive pieces of a line that starts (after its indentation) with a run of `#` -/
theorem atx_pieces (line : Str) :
    line = line.takeWhile isWsChar ++
        List.replicate ((line.drop (line.takeWhile isWsChar).length).takeWhile (· == '#')).length '#' ++
        ((line.drop (line.takeWhile isWsChar).length).dropWhile (· == '#')).takeWhile [SP, TAB].contains ++
        ((line.drop (line.takeWhile isWsChar).length).dropWhile (· == '#')).dropWhile [SP, TAB].contains ∧
    line.drop ((line.takeWhile isWsChar).length +
        ((line.drop (line.takeWhile isWsChar).length).takeWhile (· == '#')).length +
        (((line.drop (line.takeWhile isWsChar).length).dropWhile (· == '#')).takeWhile [SP, TAB].contains).length) =
      ((line.drop (line.takeWhile isWsChar).length).dropWhile (· == '#')).dropWhile [SP, TAB].contains := by
  have hline := line_decomp line
  generalize hd : line.drop (line.takeWhile isWsChar).length = d at *
  have hdd := (run_decomp' d '#').1
  constructor
  · conv => lhs; rw [hline, hdd]
    simp only [List.append_assoc]
    congr 2
    exact List.takeWhile_append_dropWhile.symm
  · rw [Nat.add_assoc, ← List.drop_drop, hd, ← List.drop_drop, drop_takeWhile_length, drop_takeWhile_length]

theorem fieldsAtx_reassemble (line : Str) (f : AtxFields) (h : fieldsAtx line = .ok (some f)) :
    f.reassemble = line := by
  unfold fieldsAtx at h
  rw [leadWs_eq] at h
  simp only at h
  rw [isAtxHeading_eval _ _ _ _ (takeWhile_length_le _ _)] at h
  simp only at h
  split at h
  · cases h
  · cases h
  · next nonWs hc wsAtStart heq =>
    split at h
    · cases h
    · next a ha =>
      injection h with h
      injection h with h
      subst h
      split at heq
      · split at heq
        · injection heq with heq
          injection heq with heq
          injection heq with h1 h2
          injection h2 with h2 h3
          subst h1 h2 h3
          have hadj := atxAdjust_reassemble _ _ ha
          obtain ⟨hp1, hp2⟩ := atx_pieces line
          rw [hp2] at hadj
          unfold AtxFields.reassemble rep
          simp only
          conv => rhs; rw [hp1, ← hadj]
          simp only [List.append_assoc]
        · cases heq
      · cases heq

theorem fieldsAtx_isSome (line : Str) :
    (fieldsAtx line).map Option.isSome = lineAtx line := by
  unfold fieldsAtx lineAtx
  obtain ⟨r, hr⟩ := isAtxHeading_total line (leadWs line).1 (leadWs line).2 false
  rw [hr]
  cases r with
  | none => rfl
  | some v =>
    obtain ⟨nonWs, hc, w⟩ := v
    simp only
    obtain ⟨a, ha⟩ := atxAdjust_total (line.drop nonWs)
    rw [ha]; rfl

/-! ## thematic break -/

theorem isThematicBreak_some_index {line : Str} {i : Nat} {w : Str} {skip allow : Bool} {c : Char} {idx : Nat}
    (h : isThematicBreak line i w skip allow = .ok (some (c, idx))) : idx = line.length := by
  unfold isThematicBreak at h
  simp only at h
  split at h
  · split at h
    · cases h
    · split at h
      · cases h
      · split at h
        · next hcond =>
          injection h with h
          injection h with h
          injection h with h1 h2
          subst h2
          simp only [Bool.and_eq_true, beq_iff_eq] at hcond
          exact hcond.2
        · cases h
  · cases h

theorem fieldsThematic_reassemble (line : Str) (f : ThematicFields) (h : fieldsThematic line = .ok (some f)) :
    f.reassemble = line := by
  unfold fieldsThematic at h
  split at h
  · cases h
  · cases h
  · next c index heq =>
    injection h with h
    injection h with h
    subst h
    have hidx := isThematicBreak_some_index heq
    subst hidx
    unfold ThematicFields.reassemble
    simp only
    rw [slice_to_end, leadWs_eq]
    simp only
    rw [drop_takeWhile_length]
    exact List.takeWhile_append_dropWhile

theorem fieldsThematic_isSome (line : Str) : (fieldsThematic line).map Option.isSome = lineThematic line := by
  unfold fieldsThematic lineThematic
  obtain ⟨r, hr⟩ := isThematicBreak_total line (leadWs line).1 (leadWs line).2 false true
  rw [hr]
  cases r with
  | none => rfl
  | some v => rfl

/-! ## setext underline -/

theorem fieldsSetext_reassemble (line : Str) (f : SetextFields) (h : fieldsSetext line = .ok (some f)) :
    f.reassemble = line := by
  unfold fieldsSetext at h
  rw [leadWs_eq] at h
  simp only at h
  have hline := line_decomp line
  cases hd : line.drop (line.takeWhile isWsChar).length with
  | nil =>
    have := drop_nil_of hd
    rw [isCharAtOneOf_ge this] at h
    simp at h
  | cons c r =>
    obtain ⟨hl, hc⟩ := drop_cons_of hd
    rw [hd] at h hline
    rw [isCharAtOneOf_lt' hl, hc] at h
    split at h
    · rw [charAt_lt hl, hc] at h
      simp only at h
      rw [collectWhileCharVerified_eq _ _ _ (Nat.zero_le _)] at h
      simp only at h
      unfold extractSpacesVerified at h
      rw [extractSpaces_eq] at h
      have hJ := scanTo_le (c :: r) (· == c) 0 (Nat.zero_le _)
      simp only [hJ, ↓reduceIte] at h
      split at h
      · next hend =>
        injection h with h
        injection h with h
        subst h
        have hend' : scanTo (c :: r) [SP, TAB].contains (scanTo (c :: r) (fun x => x == c) 0) = (c :: r).length := by
          simpa using hend
        unfold SetextFields.reassemble rep
        simp only [Nat.add_sub_cancel]
        rw [hend', slice_to_end, scanTo_zero]
        conv => rhs; rw [hline]
        rw [List.append_assoc]
        congr 1
        rw [← takeWhile_eq_replicate, drop_takeWhile_length]
        exact List.takeWhile_append_dropWhile
      · cases h
    · cases h

theorem fieldsSetext_isSome (line : Str) : (fieldsSetext line).map Option.isSome = lineSetext line := by
  unfold fieldsSetext lineSetext isSetextUnderline
  simp only
  split
  · cases charAt line (leadWs line).1 with
    | error e => rfl
    | ok c =>
      simp only
      cases collectWhileCharVerified (List.drop (leadWs line).1 line) 0 c with
      | error e => rfl
      | ok v =>
        obtain ⟨n, j⟩ := v
        simp only
        cases extractSpacesVerified (List.drop (leadWs line).1 line) j with
        | error e => rfl
        | ok w =>
          obtain ⟨a, x⟩ := w
          simp only
          split <;> simp_all [Except.map]
  · rfl

/-! ## blank line -/

theorem takeWhile_eq_self {α : Type} (p : α → Bool) (l : List α) (h : ∀ x ∈ l, p x = true) : l.takeWhile p = l := by
  induction l with
  | nil => rfl
  | cons a l ih =>
    rw [List.takeWhile_cons, if_pos (h a (by simp)), ih (fun x hx => h x (by simp [hx]))]

theorem fieldsBlank_eq (line : Str) : fieldsBlank line = .ok (if isBlankLine line then some line else none) := by
  unfold fieldsBlank
  split
  · next hb =>
    rw [extractAsciiWs_eq]
    simp only [Nat.zero_le, ↓reduceIte]
    have hall : ∀ x ∈ line, asciiWs.contains x = true := by
      intro x hx
      have := (isBlankLine_iff line).mp hb x hx
      simpa using this
    have hs : scanTo line asciiWs.contains 0 = line.length := by
      rw [scanTo_zero, takeWhile_eq_self _ _ hall]
    rw [hs]
    simp only [beq_self_eq_true, ↓reduceIte]
    rw [slice_to_end]; rfl
  · rfl

/-! ## fences -/

theorem fence_head (line : Str) (i : Nat) (c : Char) (r : Str) (hd : line.drop i = c :: r) :
    i ≤ scanTo line (· == c) i ∧ scanTo line (· == c) i ≤ line.length ∧
    slice line i (scanTo line (· == c) i) = List.replicate ((c :: r).takeWhile (· == c)).length c := by
  obtain ⟨hl, _⟩ := drop_cons_of hd
  refine ⟨scanTo_ge _ _ _, scanTo_le _ _ _ (by omega), ?_⟩
  rw [slice_scanTo, hd]
  exact takeWhile_eq_replicate _ _

theorem isFencedCodeBlock_nil (line : Str) (i : Nat) (w : Str) (hd : line.drop i = []) :
    isFencedCodeBlock line i w false = .ok none := by
  unfold isFencedCodeBlock
  rw [isCharAtOneOf_ge (drop_nil_of hd)]
  simp

theorem fieldsFenceClose_reassemble (line : Str) (fc : Char) (fn : Nat) (f : FenceCloseFields)
    (h : fieldsFenceClose line fc fn = .ok (some f)) : f.reassemble fc = line := by
  unfold fieldsFenceClose at h
  rw [leadWs_eq] at h
  simp only at h
  have hline := line_decomp line
  cases hd : line.drop (line.takeWhile isWsChar).length with
  | nil => rw [isFencedCodeBlock_nil _ _ _ hd] at h; cases h
  | cons c r =>
    obtain ⟨hl, hc⟩ := drop_cons_of hd
    obtain ⟨hiJ, hJ, hrep⟩ := fence_head line _ c r hd
    rw [isFencedCodeBlock_eval line _ _ c r hd] at h
    by_cases hcond : (lenLe (List.takeWhile isWsChar line) 3 && ['~', '`'].contains c) = true
    · by_cases h3 : 3 ≤ ((c :: r).takeWhile (· == c)).length
      · rw [if_pos hcond, if_pos h3] at h
        simp only at h
        unfold extractSpacesVerified at h
        rw [extractSpaces_eq] at h
        simp only [hJ, ↓reduceIte] at h
        rw [charAt_lt hl, hc] at h
        simp only at h
        split at h
        · next hcond2 =>
          injection h with h
          injection h with h
          subst h
          simp only [Bool.and_eq_true, beq_iff_eq, ge_iff_le, decide_eq_true_eq] at hcond2
          obtain ⟨⟨⟨hfc, _⟩, hge⟩, _⟩ := hcond2
          subst hfc
          have hK := scanTo_le line [SP, TAB].contains _ hJ
          have hKe : scanTo line [SP, TAB].contains (scanTo line (fun x => x == fc) (line.takeWhile isWsChar).length) =
              line.length := by omega
          unfold FenceCloseFields.reassemble rep
          simp only
          rw [hKe, slice_to_end, ← hrep]
          have := parts3 line _ _ hiJ
          rw [take_takeWhile_length] at this
          exact this
        · cases h
      · rw [if_pos hcond, if_neg h3] at h; cases h
    · rw [if_neg hcond] at h; cases h

theorem fieldsFenceClose_isSome (line : Str) (fc : Char) (fn : Nat) :
    (fieldsFenceClose line fc fn).map Option.isSome = lineFenceClose line fc fn := by
  unfold fieldsFenceClose lineFenceClose isFenceClose
  simp only
  cases hfb : isFencedCodeBlock line (leadWs line).1 (leadWs line).2 with
  | error e => rfl
  | ok v =>
    cases v with
    | none => rfl
    | some t =>
      obtain ⟨a, b, n⟩ := t
      simp only
      cases extractSpacesVerified line b with
      | error e => rfl
      | ok w =>
        obtain ⟨x, y⟩ := w
        simp only
        cases charAt line (leadWs line).1 with
        | error e => rfl
        | ok c =>
          simp only
          split <;> simp_all [Except.map]

/-! ## fence open -/

theorem cbwLoop_stop (s cs : Str) (e : Nat) (h : e ≤ s.length) (j : Nat) (hj : cbwLoop s cs e = .ok j) :
    ∀ x, (s.take j).getLast? = some x → cs.contains x = false := by
  induction e with
  | zero =>
    unfold cbwLoop at hj
    injection hj with hj; subst hj
    intro x hx; simp at hx
  | succ e ih =>
    have hl : e < s.length := by omega
    unfold cbwLoop at hj
    rw [charAt_lt hl] at hj
    simp only at hj
    split at hj
    · exact ih (by omega) hj
    · next hc =>
      injection hj with hj; subst hj
      intro x hx
      rw [List.take_succ_eq_append_getElem hl, List.getLast?_concat] at hx
      injection hx with hx
      subst hx
      simpa using hc

theorem cbw_end (line : Str) :
    ∃ pe, collectBackwardsOneOf line (-1) asciiWs = .ok (some (line.length - pe, pe)) ∧ pe ≤ line.length ∧
      (∀ x ∈ line.drop pe, asciiWs.contains x = true) ∧
      (∀ x, (line.take pe).getLast? = some x → asciiWs.contains x = false) := by
  obtain ⟨j, hj, hle, hall⟩ := cbwLoop_spec line asciiWs line.length (Nat.le_refl _)
  refine ⟨j, ?_, hle, ?_, cbwLoop_stop line asciiWs line.length (Nat.le_refl _) j hj⟩
  · unfold collectBackwardsOneOf
    have h1 : (-1 : Int) ≤ -1 ∧ (-1 : Int) ≤ (line.length : Int) := by omega
    simp only [h1, and_self, ↓reduceIte, hj]
  · simpa using hall

/-- index view of an accepted fence-open line -/
theorem fieldsFenceOpen_view (line : Str) (f : FenceOpenFields) (h : fieldsFenceOpen line = .ok (some f)) :
    ∃ (i J K pe a : Nat) (c : Char),
      i ≤ J ∧ J ≤ K ∧ K ≤ line.length ∧ pe ≤ line.length ∧ min K pe ≤ a ∧ a ≤ pe ∧ 3 ≤ J - i ∧
      (c = '~' ∨ c = '`') ∧
      slice line i J = List.replicate (J - i) c ∧
      (∀ x ∈ line.drop pe, asciiWs.contains x = true) ∧
      (∀ x, (line.take pe).getLast? = some x → asciiWs.contains x = false) ∧
      K = scanTo line asciiWs.contains J ∧
      a = scanTo (line.take pe) (fun d => !(isWsChar d)) (min K pe) ∧
      f = ⟨line.take i, c, J - i, slice line J K, slice (line.take pe) (min K pe) a, line.drop a⟩ := by
  unfold fieldsFenceOpen at h
  rw [leadWs_eq] at h
  simp only at h
  cases hd : line.drop (line.takeWhile isWsChar).length with
  | nil => rw [isFencedCodeBlock_nil _ _ _ hd] at h; cases h
  | cons c r =>
    obtain ⟨hl, hc⟩ := drop_cons_of hd
    obtain ⟨hiJ, hJ, hrep⟩ := fence_head line _ c r hd
    rw [isFencedCodeBlock_eval line _ _ c r hd] at h
    by_cases hcond : (lenLe (List.takeWhile isWsChar line) 3 && ['~', '`'].contains c) = true
    · by_cases h3 : 3 ≤ ((c :: r).takeWhile (· == c)).length
      · rw [if_pos hcond, if_pos h3] at h
        simp only at h
        rw [charAt_lt hl, hc] at h
        simp only at h
        split at h
        · rw [extractAsciiWs_eq] at h
          simp only [hJ, ↓reduceIte] at h
          obtain ⟨pe, hpe, hpel, hpeall, hpestop⟩ := cbw_end line
          rw [hpe] at h
          simp only at h
          rw [extractUntilSpaces_eq] at h
          have hK := scanTo_le line asciiWs.contains _ hJ
          have hJK := scanTo_ge line asciiWs.contains (scanTo line (fun x => x == c) (line.takeWhile isWsChar).length)
          have htl : (List.take pe line).length = pe := by simp; omega
          have hmin : min (scanTo line asciiWs.contains (scanTo line (fun x => x == c) (line.takeWhile isWsChar).length))
              (List.take pe line).length ≤ (List.take pe line).length := Nat.min_le_right _ _
          simp only [hmin, ↓reduceIte] at h
          injection h with h
          injection h with h
          have ha1 := scanTo_ge (List.take pe line) (fun d => !(isWsChar d))
            (min (scanTo line asciiWs.contains (scanTo line (fun x => x == c) (line.takeWhile isWsChar).length))
              (List.take pe line).length)
          have ha2 := scanTo_le (List.take pe line) (fun d => !(isWsChar d)) _ hmin
          rw [htl] at ha1 ha2 h
          have hcnt : scanTo line (fun x => x == c) (line.takeWhile isWsChar).length - (line.takeWhile isWsChar).length
              = ((c :: r).takeWhile (· == c)).length := by
            have := congrArg List.length hrep
            rw [slice_length _ _ _ hJ, List.length_replicate] at this
            exact this
          have hc2 : c = '~' ∨ c = '`' := by
            simp only [Bool.and_eq_true] at hcond
            simpa using hcond.2
          refine ⟨_, _, _, pe, _, c, hiJ, hJK, hK, hpel, ha1, ha2, by omega, hc2, by rw [hcnt]; exact hrep, hpeall, hpestop,
            rfl, rfl, ?_⟩
          rw [← h, hcnt, take_takeWhile_length]
        · cases h
      · rw [if_pos hcond, if_neg h3] at h; cases h
    · rw [if_neg hcond] at h; cases h

theorem slice_eq_take_drop (s : Str) (j e : Nat) : slice s j e = (s.drop j).take (e - j) := by
  unfold slice; rw [List.drop_take]

theorem mem_drop_of_mem_slice {s : Str} {j e : Nat} {x : Char} (h : x ∈ slice s j e) : x ∈ s.drop j := by
  rw [slice_eq_take_drop] at h; exact List.mem_of_mem_take h

theorem mem_drop_le {s : Str} {m n : Nat} {x : Char} (hmn : m ≤ n) (h : x ∈ s.drop n) : x ∈ s.drop m := by
  have : s.drop n = (s.drop m).drop (n - m) := by rw [List.drop_drop]; congr 1; omega
  rw [this] at h; exact List.mem_of_mem_drop h

theorem mem_slice_mono {s : Str} {j e e' : Nat} {x : Char} (he : e ≤ e') (h : x ∈ slice s j e) : x ∈ slice s j e' := by
  rw [slice_eq_take_drop] at h ⊢
  have : (s.drop j).take (e - j) = ((s.drop j).take (e' - j)).take (e - j) := by
    rw [List.take_take]; congr 1; omega
  rw [this] at h; exact List.mem_of_mem_take h

theorem getLast?_take_mem_slice (s : Str) (j e : Nat) (hje : j < e) (hel : e ≤ s.length) :
    ∃ x, (s.take e).getLast? = some x ∧ x ∈ slice s j e := by
  have hne : slice s j e ≠ [] := by
    intro h0
    have := congrArg List.length h0
    rw [slice_length _ _ _ hel] at this; simp at this; omega
  have hsplit := take_append_slice s j e (Nat.le_of_lt hje)
  obtain ⟨x, hx⟩ : ∃ x, (slice s j e).getLast? = some x := by
    cases hg : (slice s j e).getLast? with
    | none => exact absurd (List.getLast?_eq_none_iff.mp hg) hne
    | some x => exact ⟨x, rfl⟩
  refine ⟨x, ?_, List.mem_of_getLast? hx⟩
  rw [← hsplit, List.getLast?_append, hx]; rfl

/-- the fence characters end before the line's trailing white space begins -/
theorem fence_le_properEnd (line : Str) (i J pe : Nat) (c : Char) (h3 : 3 ≤ J - i) (hc : c = '~' ∨ c = '`')
    (hrep : slice line i J = List.replicate (J - i) c) (hall : ∀ x ∈ line.drop pe, asciiWs.contains x = true) :
    J ≤ pe := by
  by_cases hlt : J ≤ pe
  · exact hlt
  · exfalso
    have h1 : slice line (J - 1) J = [c] := by
      have : slice line (J - 1) J = (slice line i J).drop (J - 1 - i) := by
        unfold slice; rw [List.drop_drop]; congr 1; omega
      rw [this, hrep, List.drop_replicate]
      have : J - i - (J - 1 - i) = 1 := by omega
      rw [this]; rfl
    have hm : c ∈ slice line (J - 1) J := by rw [h1]; simp
    have := hall c (mem_drop_le (by omega) (mem_drop_of_mem_slice hm))
    rcases hc with rfl | rfl <;> simp [asciiWs] at this

/-- **Fence open, the lossless part**: with an info string, or without white space after the fence, the stored
pieces are consecutive slices of the line. -/
theorem fieldsFenceOpen_reassemble_partial (line : Str) (f : FenceOpenFields) (h : fieldsFenceOpen line = .ok (some f))
    (hx : f.info ≠ [] ∨ f.wsBeforeInfo = []) : f.reassemble = line := by
  obtain ⟨i, J, K, pe, a, c, hiJ, hJK, hK, hpe, ha1, ha2, h3, hc, hrep, hall, _, _, _, hf⟩ := fieldsFenceOpen_view line f h
  subst hf
  have hJpe := fence_le_properEnd line i J pe c h3 hc hrep hall
  unfold FenceOpenFields.reassemble rep
  simp only at hx ⊢
  by_cases hKpe : K ≤ pe
  · rw [Nat.min_eq_left hKpe] at ha1 ⊢
    rw [slice_take _ _ _ _ ha2, ← hrep, take_append_slice _ _ _ hiJ, take_append_slice _ _ _ hJK,
      take_append_slice _ _ _ ha1, List.take_append_drop]
  · exfalso
    have hmin : min K pe = pe := Nat.min_eq_right (by omega)
    rw [hmin] at ha1 hx
    have hae : a = pe := by omega
    subst hae
    rcases hx with hx | hx
    · apply hx
      apply List.eq_nil_of_length_eq_zero
      rw [slice_length _ _ _ (by simp; omega)]; omega
    · have := congrArg List.length hx
      rw [slice_length _ _ _ hK] at this
      simp at this; omega

/-- **Fence open, the excluded shape** (F-FENCE-TRAILWS): no info string and white space after the fence — the white
space is kept twice (`extracted_whitespace_before_info_string` and `text_after_extracted_text`) and the regenerated
line is the line followed by that white space once more. -/
theorem fieldsFenceOpen_duplicate (line : Str) (f : FenceOpenFields) (h : fieldsFenceOpen line = .ok (some f))
    (h1 : f.info = []) (h2 : f.wsBeforeInfo ≠ []) : f.reassemble = line ++ f.wsBeforeInfo ∧ f.afterInfo = f.wsBeforeInfo := by
  obtain ⟨i, J, K, pe, a, c, hiJ, hJK, hK, hpe, ha1, ha2, h3, hc, hrep, hall, hstop, hKdef, hadef, hf⟩ :=
    fieldsFenceOpen_view line f h
  subst hf
  have hJpe := fence_le_properEnd line i J pe c h3 hc hrep hall
  simp only at h1 h2
  have hJltK : J < K := by
    by_cases hlt : J < K
    · exact hlt
    · exfalso; apply h2
      apply List.eq_nil_of_length_eq_zero
      rw [slice_length _ _ _ hK]; omega
  -- every character of the white space before the info string is ASCII white space
  have hws : ∀ x ∈ slice line J K, asciiWs.contains x = true := by
    intro x hx
    rw [hKdef, slice_scanTo] at hx
    exact takeWhile_all _ _ x hx
  -- the first character after it is not
  have hKstop : ∀ x r, line.drop K = x :: r → asciiWs.contains x = false := by
    intro x r hxr
    rw [hKdef, drop_scanTo] at hxr
    exact head_dropWhile_not hxr
  have hKle : pe < K := by
    by_cases hlt : pe < K
    · exact hlt
    · exfalso
      have hKpe : K ≤ pe := by omega
      rw [Nat.min_eq_left hKpe] at ha1 hadef h1
      rw [slice_take _ _ _ _ ha2] at h1
      have haK : a = K := by
        have := congrArg List.length h1
        rw [slice_length _ _ _ (by omega)] at this
        simp at this; omega
      by_cases hKp : K < pe
      · -- the character at K is inside the stripped line and is not " \t": the scan must have moved
        have hl : K < (line.take pe).length := by simp; omega
        have hd : (line.take pe).drop K = (line.take pe)[K] :: (line.take pe).drop (K + 1) := List.drop_eq_getElem_cons hl
        have hKl : K < line.length := by omega
        have hd2 : line.drop K = line[K] :: line.drop (K + 1) := List.drop_eq_getElem_cons hKl
        have hnot := hKstop _ _ hd2
        have hge : (line.take pe)[K] = line[K] := by simp
        rw [haK] at hadef
        unfold scanTo at hadef
        rw [hd, List.takeWhile_cons, hge] at hadef
        have hnw : (!(isWsChar line[K])) = true := by
          cases hw : isWsChar line[K] with
          | false => rfl
          | true =>
            exfalso
            have : asciiWs.contains line[K] = true := by
              unfold isWsChar at hw
              simp only [Bool.or_eq_true, beq_iff_eq] at hw
              rcases hw with hw | hw <;> rw [hw] <;> simp [asciiWs, SP, TAB]
            rw [this] at hnot; cases hnot
        rw [if_pos hnw] at hadef
        simp at hadef
      · have hKeq : K = pe := by omega
        subst hKeq
        obtain ⟨x, hx1, hx2⟩ := getLast?_take_mem_slice line J K hJltK hK
        have := hstop x hx1
        rw [hws x hx2] at this; cases this
  have hmin : min K pe = pe := Nat.min_eq_right (by omega)
  rw [hmin] at ha1
  have hae : a = pe := by omega
  subst hae
  have hKlen : K = line.length := by
    by_cases hlt : K < line.length
    · exfalso
      have hd2 : line.drop K = line[K] :: line.drop (K + 1) := List.drop_eq_getElem_cons hlt
      have hnot := hKstop _ _ hd2
      have hm : line[K] ∈ line.drop K := by rw [hd2]; exact List.mem_cons_self
      have := hall _ (mem_drop_le (Nat.le_of_lt hKle) hm)
      rw [this] at hnot; cases hnot
    · omega
  have hpeJ : a = J := by
    by_cases hlt : J < a
    · exfalso
      obtain ⟨x, hx1, hx2⟩ := getLast?_take_mem_slice line J a hlt hpe
      have := hstop x hx1
      rw [hws x (mem_slice_mono (Nat.le_of_lt hKle) hx2)] at this; cases this
    · omega
  subst hpeJ
  subst hKlen
  unfold FenceOpenFields.reassemble rep
  simp only
  have hinfo : slice (List.take a line) (min line.length a) a = [] := by
    apply List.eq_nil_of_length_eq_zero
    rw [hmin, slice_length _ _ _ (by simp; omega)]; omega
  rw [hinfo, slice_to_end, ← hrep, take_append_slice _ _ _ hiJ]
  simp

/-- fields exist exactly for the lines the recogniser accepts, and none of the `assert`s on the way can fire -/
theorem fieldsFenceOpen_isSome (line : Str) : (fieldsFenceOpen line).map Option.isSome = lineFenceOpen line := by
  unfold fieldsFenceOpen lineFenceOpen isFenceOpen
  rw [leadWs_eq]
  simp only
  cases hd : line.drop (line.takeWhile isWsChar).length with
  | nil => rw [isFencedCodeBlock_nil _ _ _ hd]; rfl
  | cons c r =>
    obtain ⟨hl, hc⟩ := drop_cons_of hd
    obtain ⟨hiJ, hJ, hrep⟩ := fence_head line _ c r hd
    rw [isFencedCodeBlock_eval line _ _ c r hd]
    by_cases hcond : (lenLe (List.takeWhile isWsChar line) 3 && ['~', '`'].contains c) = true
    · by_cases h3 : 3 ≤ ((c :: r).takeWhile (· == c)).length
      · rw [if_pos hcond, if_pos h3]
        simp only
        rw [charAt_lt hl, hc]
        simp only
        split
        · next hopen =>
          rw [extractAsciiWs_eq]
          simp only [hJ, ↓reduceIte]
          obtain ⟨pe, hpe, hpel, _, _⟩ := cbw_end line
          rw [hpe]
          simp only
          rw [extractUntilSpaces_eq]
          have hmin : min (scanTo line asciiWs.contains (scanTo line (fun x => x == c) (line.takeWhile isWsChar).length))
              (List.take pe line).length ≤ (List.take pe line).length := Nat.min_le_right _ _
          simp only [hmin, ↓reduceIte, Except.map, Option.isSome_some, hopen]
        · next hopen =>
          simp only [Except.map, Option.isSome_none]
          simp only [Bool.not_eq_true] at hopen
          rw [hopen]
      · rw [if_pos hcond, if_neg h3]; rfl
    · rw [if_neg hcond]; rfl

end Verif.Model.LeafFields
