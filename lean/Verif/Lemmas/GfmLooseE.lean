/-
  List looseness, part E (nested lists): the loop below stack count 0 skips complete forests; the backward container
  scan skips complete forests; what the loop has behind it after a complete forest.
-/
import Verif.Lemmas.GfmLooseD
namespace Verif.Lemmas.GfmLoose
open Verif.Model.GfmRender Verif.Model.GfmSpec Verif.Lemmas.GfmBasic
open Verif.Model.WellFormed (Cls)

/-! ### steps of the loop with a positive stack count -/

theorem calcLoop_deep {ts : List Tok} {j : Nat} {sc : Int} {cur p : Tok} (rest' : List Tok) (hsc : sc ≠ 0)
    (hq : quiet cur = true) (hj : 1 ≤ j) (hp : ts[j - 1]? = some p)
    (hbl : ∃ c, handleBlankLine ts cur sc j = .ok c ∧ (sc ≠ 0 → c = false)) :
    calcLoop ts (cur :: rest') j sc false = calcLoop ts rest' (j + 1) sc false := by
  simp only [quiet, Bool.and_eq_true, Bool.not_eq_true'] at hq
  obtain ⟨⟨⟨c1, c2⟩, c3⟩, c4⟩ := hq
  have hz : (sc == 0) = false := by simpa using hsc
  have e1 : (j : Int) - 1 = ((j - 1 : Nat) : Int) := by omega
  by_cases hli : cur.isLi = true
  · simp only [calcLoop, forContainers, c1, hli, Bool.false_eq_true, if_false, if_true, pure, Except.pure, hz]
  · simp only [Bool.not_eq_true] at hli
    obtain ⟨c, hc, hcf⟩ := hbl
    have hcf := hcf hsc
    subst hcf
    by_cases hpb : p.isBlank = true
    · simp only [calcLoop, forContainers, c1, c2, c3, c4, hli, Bool.false_eq_true, if_false, e1, pyGet_nat hp, hpb,
        if_true, hc, bind, Except.bind, pure, Except.pure]
    · simp only [Bool.not_eq_true] at hpb
      simp only [calcLoop, forContainers, c1, c2, c3, c4, hli, Bool.false_eq_true, if_false, e1, pyGet_nat hp, hpb,
        bind, Except.bind, pure, Except.pure]

theorem calcLoop_deep_start {ts : List Tok} {j : Nat} {sc : Int} {cur : Tok} (rest' : List Tok) (hsc : sc ≠ 0)
    (hl : cur.isListStart = true) :
    calcLoop ts (cur :: rest') j sc false = calcLoop ts rest' (j + 1) (sc + 1) false := by
  have hz : (sc == 0) = false := by simpa using hsc
  simp only [calcLoop, forContainers, hl, if_true, pure, Except.pure, hz, Bool.false_eq_true, if_false]

theorem listEnd_tests {t : Tok} (h : t.isListEnd = true) :
    t.isListStart = false ∧ t.isLi = false ∧ t.isBqStart = false ∧ t.isBqEnd = false := by
  obtain ⟨l, b⟩ := t
  cases b <;> simp_all [Tok.isListEnd, Tok.isEndOf, Tok.isListStart, Tok.isLi, Tok.isBqStart, Tok.isBqEnd,
    Tok.isKind, Tok.kind?, Body.kind?]
  rename_i k _ _
  cases k <;> simp_all

theorem calcLoop_deep_end {ts : List Tok} {j : Nat} {sc : Int} {cur : Tok} (rest' : List Tok) (hsc : sc ≠ 0)
    (hsc1 : sc - 1 ≠ 0) (hl : cur.isListEnd = true) :
    calcLoop ts (cur :: rest') j sc false = calcLoop ts rest' (j + 1) (sc - 1) false := by
  obtain ⟨c1, c2, c3, c4⟩ := listEnd_tests hl
  have hz : (sc == 0) = false := by simpa using hsc
  have hz1 : (sc - 1 == 0) = false := by simpa using hsc1
  simp only [calcLoop, forContainers, handleListEnd, c1, c2, c3, c4, hl, if_true, pure, Except.pure, hz, hz1,
    Bool.false_eq_true, if_false, bind, Except.bind]

/-- a complete forest without block quotes, read with a positive stack count, leaves it unchanged -/
theorem skipForest {ts : List Tok} {i E : Nat} (hR : Rng ts i E) :
    ∀ {par : Option Kind} {j : Nat} {seg : List Tok} {ns : List Node}, GTree par j seg ns →
      ∀ (sc : Int) (tail : List Tok), 1 ≤ sc → (∀ t ∈ seg, t.isBqStart = false) → ts.drop j = seg ++ tail →
        i + 2 ≤ j → j + seg.length ≤ E + 1 →
        calcLoop ts (seg ++ tail) j sc false = calcLoop ts tail (j + seg.length) sc false := by
  intro par j seg ns h
  induction h with
  | nil => intro sc tail _ _ _ _ _; simp
  | @atom par j t k' rest0 ns hk' hst ha _ ih =>
    intro sc tail hsc hbq hdrop hij hjE
    obtain ⟨htj, hdrop'⟩ := drop_cons_step (by simpa using hdrop)
    simp only [List.length_cons] at hjE
    have hlen := length_of_drop hdrop (by simp)
    obtain ⟨p, hp⟩ := exists_getElem? (l := ts) (m := j - 1) (by omega)
    rw [List.cons_append, calcLoop_deep _ (by omega) (atom_quiet hk' hst) (by omega) hp
      (handleBlankLine_ok hR hij (by omega) t sc)]
    rw [ih sc tail hsc (fun u hu => hbq u (by simp [hu])) hdrop' (by omega) (by omega)]
    simp only [List.length_cons]
    congr 1; omega
  | @node par j s0 k0 body0 e0 f0 rest0 ks ns hk0 hst ho hb he0 _ ihb ihr =>
    intro sc tail hsc hbq hdrop hij hjE
    simp only [List.length_cons, List.length_append] at hjE
    have hdrop0 : ts.drop j = s0 :: (body0 ++ (e0 :: (rest0 ++ tail))) := by simpa using hdrop
    obtain ⟨htj, hdrop1⟩ := drop_cons_step hdrop0
    have hdrop2 := drop_append_step _ _ hdrop1
    obtain ⟨hte, hdrop3⟩ := drop_cons_step hdrop2
    have hlen := length_of_drop hdrop (by simp)
    simp only [List.length_cons, List.length_append] at hlen
    obtain ⟨p, hp⟩ := exists_getElem? (l := ts) (m := j - 1) (by omega)
    obtain ⟨p', hp'⟩ := exists_getElem? (l := ts) (m := j + 1 + body0.length - 1) (by omega)
    obtain ⟨t1, t2, t3, t4, _⟩ := tests_of_kind hk0
    obtain ⟨u1, u2, u3, u4, _⟩ := tests_of_end he0
    have hbq0 : s0.isBqStart = false := hbq s0 (by simp)
    have hbqb : ∀ t ∈ body0, t.isBqStart = false := fun u hu => hbq u (by simp [hu])
    have hbqr : ∀ t ∈ rest0, t.isBqStart = false := fun u hu => hbq u (by simp [hu])
    have hseg : (s0 :: (body0 ++ e0 :: rest0)) ++ tail = s0 :: (body0 ++ (e0 :: (rest0 ++ tail))) := by simp
    have hfin : j + 1 + body0.length + 1 + rest0.length = j + (s0 :: (body0 ++ e0 :: rest0)).length := by
      simp only [List.length_cons, List.length_append]; omega
    rw [hseg]
    by_cases hl : s0.isListStart = true
    · have hle : e0.isListEnd = true := by rw [u4, ← t1]; exact hl
      rw [calcLoop_deep_start _ (by omega) hl, ihb (sc + 1) _ (by omega) hbqb hdrop1 (by omega) (by omega),
        calcLoop_deep_end _ (by omega) (by omega) hle, Int.add_sub_cancel,
        ihr sc tail hsc hbqr hdrop3 (by omega) (by omega), hfin]
    · simp only [Bool.not_eq_true] at hl
      have hq0 : quiet s0 = true := by simp [quiet, hl, hbq0, t3, t4]
      have hqe : quiet e0 = true := by
        have a : e0.isListEnd = false := by rw [u4, ← t1]; exact hl
        have b : e0.isBqEnd = false := by rw [u3, ← t2]; exact hbq0
        simp [quiet, u1, u2, a, b]
      rw [calcLoop_deep _ (by omega) hq0 (by omega) hp (handleBlankLine_ok hR hij (by omega) s0 sc),
        ihb sc _ hsc hbqb hdrop1 (by omega) (by omega),
        calcLoop_deep _ (by omega) hqe (by omega) hp' (handleBlankLine_ok hR (by omega) (by omega) e0 sc),
        ihr sc tail hsc hbqr hdrop3 (by omega) (by omega), hfin]

/-! ### the backward container scan -/

theorem rl_quiet {ts : List Tok} {m : Nat} {x : Tok} (hx : ts[m]? = some x) (hq : quiet x = true) (inner : Nat) :
    reallyLooseLoop ts (m + 1) inner = reallyLooseLoop ts m inner := by
  simp only [quiet, Bool.and_eq_true, Bool.not_eq_true'] at hq
  obtain ⟨⟨⟨h1, h2⟩, h3⟩, h4⟩ := hq
  rw [reallyLooseLoop]
  simp only [hx, h1, h2, h3, h4, Bool.or_self, Bool.false_eq_true, if_false]

theorem rl_end {ts : List Tok} {m : Nat} {x : Tok} (hx : ts[m]? = some x) (hq : x.isListEnd = true) (inner : Nat) :
    reallyLooseLoop ts (m + 1) inner = reallyLooseLoop ts m (inner + 1) := by
  rw [reallyLooseLoop]
  simp only [hx, hq, Bool.or_true, if_true]

theorem listStart_tests {t : Tok} (h : t.isListStart = true) :
    t.isListEnd = false ∧ t.isBqEnd = false ∧ t.isBlank = false ∧ t.isLrd = false ∧ t.isLi = false := by
  obtain ⟨l, b⟩ := t
  cases b <;> simp_all [Tok.isListEnd, Tok.isEndOf, Tok.isListStart, Tok.isLi, Tok.isBqEnd,
    Tok.isKind, Tok.kind?, Body.kind?, Tok.isBlank, Tok.isLrd]

theorem rl_start {ts : List Tok} {m : Nat} {x : Tok} (hx : ts[m]? = some x) (hq : x.isListStart = true) (inner : Nat) :
    reallyLooseLoop ts (m + 1) (inner + 1) = reallyLooseLoop ts m inner := by
  obtain ⟨h1, h2, _⟩ := listStart_tests hq
  rw [reallyLooseLoop]
  simp [hx, hq, h1, h2]

theorem rl_top {ts : List Tok} {m : Nat} {x : Tok} (hx : ts[m]? = some x) (hq : x.isListStart = true) :
    reallyLooseLoop ts (m + 1) 0 = .ok true := by
  obtain ⟨h1, h2, _⟩ := listStart_tests hq
  rw [reallyLooseLoop]
  simp [hx, hq, h1, h2]

/-- the backward scan over a complete forest without block quotes leaves the counter unchanged -/
theorem rl_forest {ts : List Tok} :
    ∀ {par : Option Kind} {j : Nat} {seg : List Tok} {ns : List Node}, GTree par j seg ns →
      ∀ (tail : List Tok), (∀ t ∈ seg, t.isBqStart = false) → ts.drop j = seg ++ tail → ∀ inner,
        reallyLooseLoop ts (j + seg.length) inner = reallyLooseLoop ts j inner := by
  intro par j seg ns h
  induction h with
  | nil => intro tail _ _ inner; simp
  | @atom par j t k' rest0 ns hk' hst ha _ ih =>
    intro tail hbq hdrop inner
    obtain ⟨htj, hdrop'⟩ := drop_cons_step (by simpa using hdrop)
    have e : j + (t :: rest0).length = j + 1 + rest0.length := by simp only [List.length_cons]; omega
    rw [e, ih tail (fun u hu => hbq u (by simp [hu])) hdrop' inner, rl_quiet htj (atom_quiet hk' hst)]
  | @node par j s0 k0 body0 e0 f0 rest0 ks ns hk0 hst ho hb he0 _ ihb ihr =>
    intro tail hbq hdrop inner
    have hdrop0 : ts.drop j = s0 :: (body0 ++ (e0 :: (rest0 ++ tail))) := by simpa using hdrop
    obtain ⟨htj, hdrop1⟩ := drop_cons_step hdrop0
    have hdrop2 := drop_append_step _ _ hdrop1
    obtain ⟨hte, hdrop3⟩ := drop_cons_step hdrop2
    obtain ⟨t1, t2, t3, t4, _⟩ := tests_of_kind hk0
    obtain ⟨u1, u2, u3, u4, _⟩ := tests_of_end he0
    have hbq0 : s0.isBqStart = false := hbq s0 (by simp)
    have hbqb : ∀ t ∈ body0, t.isBqStart = false := fun u hu => hbq u (by simp [hu])
    have hbqr : ∀ t ∈ rest0, t.isBqStart = false := fun u hu => hbq u (by simp [hu])
    have hfin : j + (s0 :: (body0 ++ e0 :: rest0)).length = j + 1 + body0.length + 1 + rest0.length := by
      simp only [List.length_cons, List.length_append]; omega
    rw [hfin, ihr tail hbqr hdrop3 inner]
    by_cases hl : s0.isListStart = true
    · have hle : e0.isListEnd = true := by rw [u4, ← t1]; exact hl
      rw [rl_end hte hle, ihb _ hbqb hdrop1, rl_start htj hl]
    · simp only [Bool.not_eq_true] at hl
      have hq0 : quiet s0 = true := by simp [quiet, hl, hbq0, t3, t4]
      have hqe : quiet e0 = true := by
        have a : e0.isListEnd = false := by rw [u4, ← t1]; exact hl
        have b : e0.isBqEnd = false := by rw [u3, ← t2]; exact hbq0
        simp [quiet, u1, u2, a, b]
      rw [rl_quiet hte hqe, ihb _ hbqb hdrop1, rl_quiet htj hq0]

end Verif.Lemmas.GfmLoose
