/-
  Simulation, last part: code span, raw html, hard break, link, image; the step and run theorems.
-/
import Verif.Lemmas.RegenLeafTotal2
namespace Verif.Lemmas.RegenLeaf
open Verif.Model Verif.Model.RegenLeaf Verif.Model.RegenLeafSpec
open Verif.Model.Codec (Str plain SENT_START SENT_END WSPLIT)
open Verif.Model.Lines (splitOn joinOn splitNL joinNL NL)
open Verif.Lemmas.Lines

theorem para_or_not (b : Blk) : (∃ id pew fin, b = .para id pew fin) ∨ (∀ id pew fin, b ≠ .para id pew fin) := by
  cases b <;> first | exact Or.inl ⟨_, _, _, rfl⟩ | exact Or.inr (fun _ _ _ h => by cases h)

/-! ## hard break -/

theorem step_hardbreak {a a' : AState} {c : Ctx} (hs : Sim a c) (prev : Option Tok) (hn : Bool) (hl : a.links = 0) {b : Blk}
    (hb : a.blk = some b) (le : Str) (hg : a.consume (countNl le + 1) = some a') : StepOK c prev hn (.hardbreak le) a' := by
  have hst := sim_stack_single hs hl b hb
  have hk : countNl (le ++ [NL]) = countNl le + 1 := by rw [countNl_append]; rfl
  rcases para_or_not b with ⟨id, pew, fin, rfl⟩ | hnp
  · obtain ⟨ha', hbud⟩ := consume_para hb _ hg
    have hri : c.getRi id = a.used := hs.ri id pew fin hb 0
    obtain ⟨r, hr, _⟩ := recombine_para_ok (le ++ [NL]) pew a.used (by rw [hk]; exact hbud)
    rw [hk] at hr
    subst ha'
    exact ⟨r, c.setRi id (a.used + (countNl le + 1)), by simp only [process, hHardBreak, top_of_stack hst, hri, hr], sim_advance hs hb _⟩
  · have ha' := consume_other (fun id pew fin h => hnp id pew fin (by rw [hb] at h; exact Option.some.inj h)) _ hg
    subst ha'
    have hnl : b ≠ .link := fun e => hs.nolink (by rw [hb, e])
    refine ⟨le ++ [NL], c, ?_, hs⟩
    simp only [process, hHardBreak, top_of_stack hst]
    try (cases b <;> first | rfl | exact absurd rfl hnl | exact absurd rfl (hnp _ _ _))

/-! ## raw html -/

theorem step_rawhtml {a a' : AState} {c : Ctx} (hs : Sim a c) (prev : Option Tok) (hn : Bool) (hl : a.links = 0) (tag : Str)
    (hg : gStep a prev (.rawhtml tag) = some a') : StepOK c prev hn (.rawhtml tag) a' := by
  have hnl0 : ¬ (0 < a.links) := by omega
  simp only [gStep, if_neg hnl0] at hg
  by_cases hp : plain tag = true
  · rw [if_pos hp] at hg
    cases hb : a.blk with
    | none => rw [hb] at hg; cases hg
    | some b =>
      rw [hb] at hg
      obtain ⟨htop, hnl⟩ := sim_top hs hl hb
      rcases para_or_not b with ⟨id, pew, fin, rfl⟩ | hnp
      · simp only [Option.some.injEq] at hg; subst hg
        have hri : c.getRi id = a.used := hs.ri id pew fin hb 0
        exact ⟨_, c.setRi id (a.used + countNl tag), by
          simp only [process, hRawHtml, htop, hnl, Bool.false_eq_true, if_false, liftC_removeAll_plain tag hp, hri] <;> rfl,
          by rw [← hb]; exact sim_advance hs hb _⟩
      · have ha' : a' = a := by
          cases b <;> first | (simp only [Option.some.injEq] at hg; exact hg.symm) | exact absurd rfl (hnp _ _ _)
        subst ha'
        refine ⟨'<' :: tag ++ ['>'], c, ?_, hs⟩
        simp only [process, hRawHtml, htop, hnl, Bool.false_eq_true, if_false, liftC_removeAll_plain tag hp]
        try (cases b <;> first | rfl | exact absurd rfl (hnp _ _ _))
  · rw [if_neg hp] at hg; cases hg

/-! ## code span -/

theorem step_codespan {a a' : AState} {c : Ctx} (hs : Sim a c) (prev : Option Tok) (hn : Bool) (hl : a.links = 0) {b : Blk}
    (hb : a.blk = some b) (ticks lead span trail : Str) (hp1 : plain lead = true) (hp2 : plain span = true) (hp3 : plain trail = true)
    (hg : a.consume (countNl lead + countNl span + countNl trail) = some a') :
    StepOK c prev hn (.codespan ticks lead span trail) a' := by
  obtain ⟨htop, hnl⟩ := sim_top hs hl hb
  rcases para_or_not b with ⟨id, pew, fin, rfl⟩ | hnp
  · obtain ⟨ha', hbud⟩ := consume_para hb _ hg
    have hri : c.getRi id = a.used := hs.ri id pew fin hb 0
    obtain ⟨r1, hr1, _⟩ := recombine_para_ok lead pew a.used (by omega)
    obtain ⟨r2, hr2, _⟩ := recombine_para_ok span pew (a.used + countNl lead) (by omega)
    obtain ⟨r3, hr3, _⟩ := recombine_para_ok trail pew (a.used + countNl lead + countNl span) (by omega)
    subst ha'
    have hsum : a.used + countNl lead + countNl span + countNl trail = a.used + (countNl lead + countNl span + countNl trail) := by omega
    rw [hsum] at hr3
    exact ⟨_, c.setRi id (a.used + (countNl lead + countNl span + countNl trail)), by
      simp only [process, hCodeSpan, htop, hnl, Bool.false_eq_true, if_false, liftC_removeAllN_plain true span hp2,
        liftC_removeAll_plain lead hp1, liftC_removeAll_plain trail hp3, hri, hr1, hr2, hr3] <;> rfl, sim_advance hs hb _⟩
  · have ha' := consume_other (fun id pew fin h => hnp id pew fin (by rw [hb] at h; exact Option.some.inj h)) _ hg
    subst ha'
    refine ⟨ticks ++ lead ++ span ++ trail ++ ticks, c, ?_, hs⟩
    simp only [process, hCodeSpan, htop, hnl, Bool.false_eq_true, if_false, liftC_removeAllN_plain true span hp2,
      liftC_removeAll_plain lead hp1, liftC_removeAll_plain trail hp3]
    try (cases b <;> first | rfl | exact absurd rfl (hnp _ _ _))

/-! ## link, image -/

/-- the paragraph `insert_leading_whitespace_at_newlines` finds below the open links -/
def ownerOf : Option Blk → Option (Nat × Str)
  | some (.para id ew _) => some (id, ew)
  | _ => none

theorem owningPara_links (m : Nat) (blk : Option Blk) (hnl : blk ≠ some .link) :
    owningPara (List.replicate m .link ++ blk.toList) = ownerOf blk := by
  induction m with
  | zero =>
    simp only [List.replicate_zero, List.nil_append]
    cases blk with
    | none => rfl
    | some b => cases b <;> first | rfl | exact absurd rfl hnl
  | succ n ih => simp only [List.replicate_succ, List.cons_append, owningPara, ih]

/-- `insert_leading_whitespace_at_newlines` under the guard's `placeLinkText` -/
theorem insertLeadingWs_sim {a a' : AState} {c0 : Ctx} (m : Nat) (hst : c0.stack = List.replicate m .link ++ a.blk.toList)
    (hri : ∀ id ew fin, a.blk = some (.para id ew fin) → ∀ d, c0.getRi id d = a.used) (hnl : a.blk ≠ some .link) (t : Str)
    (h : a.placeLinkText t = some a') :
    ∃ r c1, insertLeadingWs c0 t = .ok (r, c1) ∧ c1.stack = c0.stack ∧
      (∀ id ew fin, a'.blk = some (.para id ew fin) → ∀ d, c1.getRi id d = a'.used) ∧ a'.blk = a.blk ∧ a'.links = a.links := by
  unfold AState.placeLinkText at h
  unfold insertLeadingWs
  cases hc : t.contains NL with
  | false =>
    rw [hc] at h
    simp only [Bool.false_eq_true, if_false, Option.some.injEq] at h
    subst h
    exact ⟨t, c0, by simp, rfl, hri, rfl, rfl⟩
  | true =>
    rw [hc] at h
    simp only [if_true] at h
    by_cases hp : plain t = true
    · rw [if_pos hp] at h
      simp only [if_true, liftC_removeAll_plain t hp, hst, owningPara_links m a.blk hnl]
      cases hb : a.blk with
      | none =>
        have ha' := consume_other (fun id pew fin hh => by rw [hb] at hh; cases hh) _ h
        subst ha'
        exact ⟨t, c0, rfl, by rw [hst, hb], hri, hb, rfl⟩
      | some b =>
        rcases para_or_not b with ⟨id, pew, fin, rfl⟩ | hnp
        · obtain ⟨ha', hbud⟩ := consume_para hb _ h
          have hri0 : c0.getRi id = a.used := hri id pew fin hb 0
          obtain ⟨r, hr, _⟩ := recombine_para_ok t pew a.used hbud
          subst ha'
          refine ⟨r, c0.setRi id (a.used + countNl t), by simp only [ownerOf, hri0, hr], by simp only [Ctx.setRi]; rw [hst, hb], ?_, hb, rfl⟩
          intro id' ew' fin' hh d
          simp only at hh
          rw [hb] at hh
          simp only [Option.some.injEq, Blk.para.injEq] at hh
          rw [← hh.1]; exact getRi_setRi' _ _ _ _
        · have ha' := consume_other (fun id pew fin hh => hnp id pew fin (by rw [hb] at hh; exact Option.some.inj hh)) _ h
          subst ha'
          refine ⟨t, c0, ?_, by rw [hst, hb], hri, hb, rfl⟩
          cases b <;> first | rfl | exact absurd rfl (hnp _ _ _)
    · rw [if_neg hp] at h; cases h

theorem step_link {a a' : AState} {c : Ctx} (hs : Sim a c) (prev : Option Tok) (hn : Bool) (f : LinkF)
    (hg : gStep a prev (.link f) = some a') : StepOK c prev hn (.link f) a' := by
  simp only [gStep] at hg
  by_cases hcond : ((decide (0 < a.links) || a.blk.isSome) && linkShape f) = true
  · rw [if_pos hcond] at hg
    cases ht : linkText f with
    | error e => rw [ht] at hg; cases hg
    | ok t =>
      rw [ht] at hg
      simp only [Option.map_eq_some_iff] at hg
      obtain ⟨a1, hplace, rfl⟩ := hg
      have hst0 : (c.push .link).stack = List.replicate (a.links + 1) .link ++ a.blk.toList := by
        simp only [Ctx.push, hs.stack, AState.stack, List.replicate_succ, List.cons_append]
      obtain ⟨r, c1, hins, hst1, hri1, hblk, hlinks⟩ := insertLeadingWs_sim (a := a) (c0 := c.push .link) (a.links + 1) hst0
        (fun id ew fin h d => hs.ri id ew fin h d) hs.nolink t hplace
      refine ⟨r, c1, by simp only [process, hLink, ht, hins], ?_, ?_, ?_⟩
      · rw [hst1, hst0]; simp only [AState.stack, hblk, hlinks]
      · intro id ew fin h d; exact hri1 id ew fin h d
      · rw [hblk]; exact hs.nolink
  · rw [if_neg hcond] at hg; cases hg

theorem step_image {a a' : AState} {c : Ctx} (hs : Sim a c) (prev : Option Tok) (hn : Bool) (hl : a.links = 0) (f : LinkF)
    (hg : gStep a prev (.image f) = some a') : StepOK c prev hn (.image f) a' := by
  have hnl0 : ¬ (0 < a.links) := by omega
  simp only [gStep, if_neg hnl0] at hg
  by_cases hcond : (a.blk.isSome && linkShape f) = true
  · rw [if_pos hcond] at hg
    simp only [Bool.and_eq_true, Option.isSome_iff_exists] at hcond
    obtain ⟨⟨b, hb⟩, _⟩ := hcond
    obtain ⟨htop, hnl⟩ := sim_top hs hl hb
    cases ht : linkText f with
    | error e => rw [ht] at hg; cases hg
    | ok t =>
      rw [ht] at hg
      simp only at hg
      have hst0 : c.stack = List.replicate 0 .link ++ a.blk.toList := by
        rw [hs.stack, stack_nolinks hl]; rfl
      obtain ⟨r, c1, hins, hst1, hri1, hblk, hlinks⟩ := insertLeadingWs_sim (a := a) (c0 := c) 0 hst0
        (fun id ew fin h d => hs.ri id ew fin h d) hs.nolink ('!' :: t) hg
      refine ⟨r, c1, by simp only [process, hImage, htop, hnl, Bool.false_eq_true, if_false, ht, hins], ?_, ?_, ?_⟩
      · rw [hst1, hs.stack]; simp only [AState.stack, hblk, hlinks]
      · intro id ew fin h d; exact hri1 id ew fin h d
      · rw [hblk]; exact hs.nolink
  · rw [if_neg hcond] at hg; cases hg

/-! ## every guarded step, every guarded run -/

theorem step_ok {a a' : AState} {c : Ctx} (hs : Sim a c) (prev : Option Tok) (hn : Bool) (t : Tok)
    (hg : gStep a prev t = some a') : StepOK c prev hn t a' := by
  by_cases hlinks : 0 < a.links
  · -- inside a link
    cases t
    case link f => exact step_link hs prev hn f hg
    case endLink =>
      simp only [gStep, if_pos hlinks, Option.some.injEq] at hg; subst hg
      exact step_endLink hs prev hn hlinks
    case tbreak ew rest => simp only [gStep, Option.some.injEq] at hg; subst hg; exact step_tbreak hs prev hn ew rest
    case blank ew => simp only [gStep, Option.some.injEq] at hg; subst hg; exact step_blank hs prev hn ew
    case eos => simp only [gStep, Option.some.injEq] at hg; subst hg; exact step_eos hs prev hn
    case frontmatter x ls y => simp only [gStep, Option.some.injEq] at hg; subst hg; exact step_frontmatter hs prev hn x ls y
    case pragma ls => simp only [gStep, Option.some.injEq] at hg; subst hg; exact step_pragma hs prev hn ls
    case lrd f =>
      simp only [gStep] at hg
      by_cases h : lrdShape f = true
      · rw [if_pos h] at hg; simp only [Option.some.injEq] at hg; subst hg; exact step_lrd hs prev hn f h
      · rw [if_neg h] at hg; cases hg
    case text tt ew e =>
      simp only [gStep, if_pos hlinks, Option.some.injEq] at hg; subst hg
      exact step_under_link hs prev hn hlinks _ rfl
    case emph ch len =>
      simp only [gStep, if_pos hlinks, Option.some.injEq] at hg; subst hg
      exact step_under_link hs prev hn hlinks _ rfl
    case endEmph ch len =>
      simp only [gStep, if_pos hlinks, Option.some.injEq] at hg; subst hg
      exact step_under_link hs prev hn hlinks _ rfl
    case codespan t1 t2 t3 t4 =>
      simp only [gStep, if_pos hlinks, Option.some.injEq] at hg; subst hg
      exact step_under_link hs prev hn hlinks _ rfl
    case rawhtml tag =>
      simp only [gStep, if_pos hlinks, Option.some.injEq] at hg; subst hg
      exact step_under_link hs prev hn hlinks _ rfl
    case uri txt http angle =>
      simp only [gStep] at hg
      split at hg
      · simp only [Option.some.injEq] at hg; subst hg; exact step_under_link hs prev hn hlinks _ rfl
      · cases hg
    case email txt angle =>
      simp only [gStep] at hg
      split at hg
      · simp only [Option.some.injEq] at hg; subst hg; exact step_under_link hs prev hn hlinks _ rfl
      · cases hg
    case hardbreak le =>
      simp only [gStep, if_pos hlinks, Option.some.injEq] at hg; subst hg
      exact step_under_link hs prev hn hlinks _ rfl
    case image f =>
      simp only [gStep, if_pos hlinks, Option.some.injEq] at hg; subst hg
      exact step_under_link hs prev hn hlinks _ rfl
    all_goals
      (have hne : a.empty = false := by
        simp only [AState.empty, Bool.and_eq_false_iff, beq_eq_false_iff_ne]; right; omega)
      (have hl0 : (a.links == 0) = false := by simp only [beq_eq_false_iff_ne]; omega)
      simp only [gStep, hne, hl0, Bool.false_and, Bool.and_false, Bool.false_eq_true, if_false] at hg
      first
        | cases hg
        | (split at hg <;> cases hg)
  · have hl : a.links = 0 := by omega
    cases t
    case para id ew fin =>
      simp only [gStep] at hg
      split at hg
      · next h =>
        simp only [Bool.and_eq_true] at h
        simp only [Option.some.injEq] at hg; subst hg
        exact step_para hs prev hn id ew fin h.1 h.2
      · cases hg
    case atx ew h t =>
      simp only [gStep] at hg
      split at hg
      · next he => simp only [Option.some.injEq] at hg; subst hg; exact step_atx hs prev hn ew h t he
      · cases hg
    case setext ew hc n fin =>
      simp only [gStep] at hg
      split at hg
      · next he =>
        simp only [Bool.and_eq_true] at he
        simp only [Option.some.injEq] at hg; subst hg; exact step_setext hs prev hn ew hc n fin he.1
      · cases hg
    case tbreak ew rest => simp only [gStep, Option.some.injEq] at hg; subst hg; exact step_tbreak hs prev hn ew rest
    case fcode ew fchar n w pi i pa af =>
      simp only [gStep] at hg
      split at hg
      · next he =>
        simp only [Bool.and_eq_true] at he
        simp only [Option.some.injEq] at hg; subst hg; exact step_fcode hs prev hn ew fchar n w pi i pa af he.1 he.2
      · cases hg
    case icode ew ind =>
      simp only [gStep] at hg
      split at hg
      · next he => simp only [Option.some.injEq] at hg; subst hg; exact step_icode hs prev hn ew ind he
      · cases hg
    case html =>
      simp only [gStep] at hg
      split at hg
      · next he => simp only [Option.some.injEq] at hg; subst hg; exact step_html hs prev hn he
      · cases hg
    case blank ew => simp only [gStep, Option.some.injEq] at hg; subst hg; exact step_blank hs prev hn ew
    case lrd f =>
      simp only [gStep] at hg
      by_cases h : lrdShape f = true
      · rw [if_pos h] at hg; simp only [Option.some.injEq] at hg; subst hg; exact step_lrd hs prev hn f h
      · rw [if_neg h] at hg; cases hg
    case text tt ew e => exact step_text hs prev hn hl tt ew e hg
    case emph ch len =>
      simp only [gStep, if_neg hlinks] at hg
      split at hg
      · next h =>
        simp only [Bool.and_eq_true, Option.isSome_iff_exists] at h
        obtain ⟨⟨b, hb⟩, h1⟩ := h
        simp only [Option.some.injEq] at hg; subst hg
        exact (step_emph hs prev hn hl hb ch len h1).1
      · cases hg
    case endEmph ch len =>
      simp only [gStep, if_neg hlinks] at hg
      split at hg
      · next h =>
        simp only [Bool.and_eq_true, Option.isSome_iff_exists] at h
        obtain ⟨⟨b, hb⟩, h1⟩ := h
        simp only [Option.some.injEq] at hg; subst hg
        exact (step_emph hs prev hn hl hb ch len h1).2
      · cases hg
    case codespan ticks lead span trail =>
      simp only [gStep, if_neg hlinks] at hg
      split at hg
      · next h =>
        simp only [Bool.and_eq_true, Option.isSome_iff_exists] at h
        obtain ⟨⟨⟨⟨b, hb⟩, h1⟩, h2⟩, h3⟩ := h
        exact step_codespan hs prev hn hl hb ticks lead span trail h1 h2 h3 hg
      · cases hg
    case rawhtml tag => exact step_rawhtml hs prev hn hl tag hg
    case uri txt http angle =>
      simp only [gStep] at hg
      split at hg
      · next h =>
        simp only [Option.some.injEq] at hg; subst hg
        apply step_uri hs prev hn hl
        simp only [Bool.or_eq_true, decide_eq_true_eq] at h ⊢
        rcases h with (h | h) | h
        · exact Or.inl h
        · exact absurd h hlinks
        · exact Or.inr h
      · cases hg
    case email txt angle =>
      simp only [gStep] at hg
      split at hg
      · next h =>
        simp only [Bool.or_eq_true, decide_eq_true_eq, Option.isSome_iff_exists] at h
        rcases h with h | ⟨b, hb⟩
        · exact absurd h hlinks
        · simp only [Option.some.injEq] at hg; subst hg; exact step_email hs prev hn hl hb txt angle
      · cases hg
    case hardbreak le =>
      simp only [gStep, if_neg hlinks] at hg
      split at hg
      · next h =>
        obtain ⟨b, hb⟩ := Option.isSome_iff_exists.mp h
        exact step_hardbreak hs prev hn hl hb le hg
      · cases hg
    case link f => exact step_link hs prev hn f hg
    case image f => exact step_image hs prev hn hl f hg
    case eos => simp only [gStep, Option.some.injEq] at hg; subst hg; exact step_eos hs prev hn
    case frontmatter x ls y => simp only [gStep, Option.some.injEq] at hg; subst hg; exact step_frontmatter hs prev hn x ls y
    case pragma ls => simp only [gStep, Option.some.injEq] at hg; subst hg; exact step_pragma hs prev hn ls
    case container => simp only [gStep] at hg; cases hg
    case other => simp only [gStep] at hg; cases hg
    case endPara sid sew ri0 =>
      simp only [gStep] at hg
      split at hg
      · next id ew fin hb =>
        split at hg
        · next h =>
          simp only [Bool.and_eq_true, beq_iff_eq] at h
          simp only [Option.some.injEq] at hg; subst hg
          obtain ⟨⟨_, h2⟩, h3⟩ := h
          subst h2
          exact step_endPara hs prev hn sid ew fin sew ri0 hl hb h3
        · cases hg
      · cases hg
    case endAtx ew extra tr =>
      simp only [gStep] at hg
      split at hg
      · next h =>
        simp only [Bool.and_eq_true, beq_iff_eq, Option.isSome_iff_exists] at h
        obtain ⟨⟨_, hb⟩, ⟨x, rfl⟩⟩ := h
        simp only [Option.some.injEq] at hg; subst hg
        exact step_endAtx hs prev hn ew x tr hl hb
      · cases hg
    case endSetext ew extra =>
      simp only [gStep] at hg
      split at hg
      · next hc n fin hb =>
        split at hg
        · next h =>
          simp only [Bool.and_eq_true, beq_iff_eq, Option.isSome_iff_exists] at h
          obtain ⟨⟨_, ⟨x, rfl⟩⟩, h1⟩ := h
          simp only [Option.some.injEq] at hg; subst hg
          exact step_endSetext hs prev hn ew x hc n fin hl hb h1
        · cases hg
      · cases hg
    case endFcode ew xd forced fchar =>
      simp only [gStep] at hg
      by_cases h : (a.links == 0 && a.blk == some .fcode && (if forced = true then prev.isSome else fenceEndShape xd && oneChar fchar)) = true
      · rw [if_pos h] at hg
        simp only [Bool.and_eq_true, beq_iff_eq] at h
        simp only [Option.some.injEq] at hg; subst hg
        exact step_endFcode hs prev hn ew xd forced fchar hl h.1.2 h.2
      · rw [if_neg h] at hg; cases hg
    case endHtml =>
      simp only [gStep] at hg
      split at hg
      · next h =>
        simp only [Bool.and_eq_true, beq_iff_eq] at h
        simp only [Option.some.injEq] at hg; subst hg
        exact step_endHtml hs prev hn hl h.2
      · cases hg
    case endIcode =>
      simp only [gStep] at hg
      split at hg
      · next ew ind hb =>
        split at hg
        · simp only [Option.some.injEq] at hg; subst hg; exact step_endIcode hs prev hn ew ind hl hb
        · cases hg
      · cases hg
    case endLink => simp only [gStep, if_neg hlinks] at hg; cases hg
    case endContainer => simp only [gStep] at hg; cases hg
    case endOther => simp only [gStep] at hg; cases hg

theorem run_ok (more : Bool) : ∀ (ts : List Tok) {a a' : AState} {c : Ctx} (prev : Option Tok), Sim a c → gRun a prev ts = some a' →
    ∃ parts c', runMore more c prev ts = .ok (parts, c') ∧ Sim a' c'
  | [], a, a', c, prev, hs, hg => by
    simp only [gRun, Option.some.injEq] at hg; subst hg
    exact ⟨[], c, rfl, hs⟩
  | t :: ts, a, a', c, prev, hs, hg => by
    rw [gRun] at hg
    cases h1 : gStep a prev t with
    | none => rw [h1] at hg; cases hg
    | some a1 =>
      rw [h1] at hg
      simp only at hg
      obtain ⟨s, c1, hp, hs1⟩ := step_ok hs prev (!ts.isEmpty || more) t h1
      obtain ⟨parts, c2, hr, hs2⟩ := run_ok more ts (some t) hs1 hg
      exact ⟨s :: parts, c2, by rw [runMore, hp]; simp only [hr], hs2⟩

theorem sim_init : Sim {} {} := ⟨rfl, fun _ _ _ h _ => (by cases h), fun h => (by cases h)⟩

end Verif.Lemmas.RegenLeaf
